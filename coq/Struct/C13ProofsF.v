(* C13 extension - the page operations from ANY cache state of a flattened clean tree (never filled, filled, flattened;
   empty page lists included), with updateAllPagesCache, pushInheritedAttributesToPage, getAllPages, replaceObject with
   indirect handles and reserved objects inside the histories. *)
From QV Require Import Base.Bytes Struct.PgModel Struct.PgSpec Struct.C13ProofsA Struct.PgxModel Struct.PgxOracle Struct.C13ProofsC Struct.C13ProofsE.
Local Open Scope N_scope.

(* ------------------------------------------------------------------ edits made by insert / erase *)
(* s' is s after page-tree edits on the node pn: pn changed only in /Kids and /Count, every other dictionary only in
   /Parent, everything else is as it was, new objects may have appeared *)
Definition pgx_edit (pn : N) (s s' : pg_store) : Prop :=
  forall j, match pg_lookup s j with
            | Some (PcObj (PvDict d)) =>
                exists d', pg_lookup s' j = Some (PcObj (PvDict d')) /\
                  forall k, (if j =? pn then k <> pgk_Kids /\ k <> pgk_Count else k <> pgk_Parent) -> pg_dget d' k = pg_dget d k
            | Some c => pg_lookup s' j = Some c
            | None => True
            end.

Lemma pgx_edit_refl : forall pn s, pgx_edit pn s s.
Proof. intros pn s j. destruct (pg_lookup s j) as [[v|]|]; auto. destruct v; auto. eexists; split; [reflexivity|auto]. Qed.

Lemma pgx_edit_trans : forall pn s1 s2 s3, pgx_edit pn s1 s2 -> pgx_edit pn s2 s3 -> pgx_edit pn s1 s3.
Proof.
  intros pn s1 s2 s3 H1 H2 j. specialize (H1 j). specialize (H2 j). destruct (pg_lookup s1 j) as [[v|]|]; [| |exact I].
  - destruct v; try (rewrite H1 in H2; exact H2). destruct H1 as (d2 & L2 & E2). rewrite L2 in H2. destruct H2 as (d3 & L3 & E3).
    exists d3. split; [exact L3|]. intros k Hk. rewrite E3, E2 by exact Hk. reflexivity.
  - rewrite H1 in H2. exact H2.
Qed.

Lemma pgx_edit_set_key : forall pn s i k v,
  (if i =? pn then k = pgk_Kids \/ k = pgk_Count else k = pgk_Parent) -> pgx_edit pn s (pg_obj_set_key s i k v).
Proof.
  intros pn s i k v Hk j. unfold pg_obj_set_key.
  destruct (pg_lookup s i) as [[w|]|] eqn:E; try apply pgx_edit_refl. destruct w; try apply pgx_edit_refl.
  rewrite pg_lookup_supd. destruct (j =? i) eqn:Eji.
  - apply N.eqb_eq in Eji. subst j. rewrite E. eexists. split; [reflexivity|]. intros k2 Hk2. apply pg_dget_dset_neq.
    destruct (i =? pn); [destruct Hk as [->| ->]; tauto|subst k; exact Hk2].
  - destruct (pg_lookup s j) as [[w|]|]; auto. destruct w; auto. eexists; split; [reflexivity|auto].
Qed.

Lemma pgx_edit_alloc : forall pn s c, pgx_edit pn s (fst (pg_alloc s c)).
Proof.
  intros pn s c j. rewrite pg_lookup_alloc. destruct (j =? pg_next_id s) eqn:E.
  - apply N.eqb_eq in E. subst j. rewrite pg_next_id_fresh. exact I.
  - destruct (pg_lookup s j) as [[v|]|]; auto. destruct v; auto. eexists; split; [reflexivity|auto].
Qed.

Lemma pgx_edit_dict : forall pn s s' j d, pgx_edit pn s s' -> pg_lookup s j = Some (PcObj (PvDict d)) ->
  exists d', pg_lookup s' j = Some (PcObj (PvDict d')) /\
     forall k, (if j =? pn then k <> pgk_Kids /\ k <> pgk_Count else k <> pgk_Parent) -> pg_dget d' k = pg_dget d k.
Proof. intros pn s s' j d H E. specialize (H j). rewrite E in H. exact H. Qed.

Lemma pgx_edit_some : forall pn s s' j, pgx_edit pn s s' -> pg_lookup s j <> None -> pg_lookup s' j <> None.
Proof.
  intros pn s s' j H E. specialize (H j). destruct (pg_lookup s j) as [[v|]|]; [| |congruence].
  - destruct v; try (rewrite H; discriminate). destruct H as (d' & -> & _). discriminate.
  - rewrite H. discriminate.
Qed.

Lemma pgx_edit_mark : forall pn s s' j, pgx_edit pn s s' -> pg_lookup s j <> None -> pg_mark s' j = pg_mark s j.
Proof.
  intros pn s s' j H E. specialize (H j). unfold pg_mark, pg_marker, pg_hget, pg_rv.
  destruct (pg_lookup s j) as [[v|]|]; [| |congruence].
  - destruct v; try (rewrite H; reflexivity). destruct H as (d' & -> & Hk). rewrite Hk; [reflexivity|].
    destruct (j =? pn); [split; discriminate|discriminate].
  - rewrite H. reflexivity.
Qed.

Lemma pgx_leafy_edit : forall pn s s' j d, pgx_edit pn s s' -> j <> pn -> pg_lookup s j = Some (PcObj (PvDict d)) -> pgx_leafy d ->
  exists d', pg_lookup s' j = Some (PcObj (PvDict d')) /\ pgx_leafy d'.
Proof.
  intros pn s s' j d H Hj E [Lk Lt]. destruct (pgx_edit_dict _ _ _ _ _ H E) as (d' & E' & Hk).
  apply N.eqb_neq in Hj. rewrite Hj in Hk. exists d'. split; [exact E'|]. split.
  - rewrite Hk by discriminate. exact Lk.
  - rewrite Hk by discriminate. exact Lt.
Qed.

(* every branch of Pages::insert (after newpage is local) and of Pages::erase is such an edit *)
Lemma pgx_insert_core_edit : forall p ni pos pn, pg_root_pages p = PvRef pn -> ni <> pn ->
  pgx_edit pn (pd_store p) (pd_store (fst (pg_insert_core p ni pos))).
Proof.
  intros p ni pos pn Hroot Hni. unfold pg_insert_core. rewrite Hroot.
  assert (Hnipn : ni =? pn = false) by (apply N.eqb_neq; exact Hni).
  set (s1 := pg_obj_set_key (pd_store p) ni pgk_Parent (PvRef pn)).
  assert (E1 : pgx_edit pn (pd_store p) s1) by (apply pgx_edit_set_key; rewrite Hnipn; reflexivity).
  destruct (pg_rv s1 (pg_hget s1 (PvRef pn) pgk_Kids)) as [| | | |kids|]; try exact E1.
  destruct (pg_hget s1 (PvRef pn) pgk_Kids); try exact E1;
  (destruct (Nat.ltb (length kids) (Z.to_nat pos)); [exact E1|]);
  set (s2 := pg_obj_set_key s1 pn pgk_Kids (PvArr (pg_list_ins kids (Z.to_nat pos) (PvRef ni))));
  set (s3 := pg_obj_set_key s2 pn pgk_Count (PvInt (pg_len (pg_list_ins kids (Z.to_nat pos) (PvRef ni)))));
  (assert (E3 : pgx_edit pn (pd_store p) s3);
   [eapply pgx_edit_trans; [exact E1|]; eapply pgx_edit_trans; apply pgx_edit_set_key; rewrite N.eqb_refl; tauto|]);
  (destruct (negb (pg_len (pg_list_ins kids (Z.to_nat pos) (PvRef ni)) =? pg_len (pg_list_ins (pd_all p) (Z.to_nat pos) ni))%Z); [exact E3|]);
  destruct (pg_pos_find _ ni); exact E3.
Qed.

Lemma pgx_erase_core_edit : forall p og pos pn, pg_root_pages p = PvRef pn ->
  pgx_edit pn (pd_store p) (pd_store (fst (pg_erase_core p og pos))).
Proof.
  intros p og pos pn Hroot. unfold pg_erase_core. rewrite Hroot.
  destruct (pg_hget (pd_store p) (PvRef pn) pgk_Kids) as [| | | |kids|]; try apply pgx_edit_refl.
  set (s2 := pg_obj_set_key (pd_store p) pn pgk_Kids (PvArr (pg_list_del kids (Z.to_nat pos)))).
  set (s3 := pg_obj_set_key s2 pn pgk_Count (PvInt (pg_len (pg_list_del kids (Z.to_nat pos))))).
  assert (E3 : pgx_edit pn (pd_store p) s3).
  { eapply pgx_edit_trans; apply pgx_edit_set_key; rewrite N.eqb_refl; tauto. }
  destruct (negb (pg_len (pg_list_del kids (Z.to_nat pos)) =? pg_len (pg_list_del (pd_all p) (Z.to_nat pos)))%Z || Nat.leb (length (pd_all p)) (Z.to_nat pos)); exact E3.
Qed.

(* ------------------------------------------------------------------ the state of one document *)
Definition pgx_posinv (p : pg_doc) (K : list N) : Prop :=
  (forall i, pg_pos_find (pd_pos p) i = option_map Z.of_nat (pg_index K i)) /\ NoDup (map fst (pd_pos p)).

(* flattened clean tree with page objects K, and the cache in one of its three states: never filled, filled but the
   position map empty (after getAllPages / updateAllPagesCache / a copy FROM this document), or fully flattened *)
Definition pgx_st (p : pg_doc) (K : list N) : Prop :=
  pgx_flat p K /\
  ((pd_pos p = [] /\ (pd_all p = [] \/ pd_all p = K)) \/ (pd_all p = K /\ pgx_posinv p K)).

(* the pages as the TREE shows them (not the cache) *)
Definition pgx_K (p : pg_doc) : list N :=
  match pg_root_pages p with
  | PvRef pn => map (fun v => match v with PvRef k => k | _ => 0 end) (pg_kids_of (pd_store p) pn)
  | _ => []
  end.
Definition pgx_marks (p : pg_doc) : list Z := map (pg_mark (pd_store p)) (pgx_K p).
Definition pgx_marks2 (w : pg_world) : pg_lists := (pgx_marks (fst w), pgx_marks (snd w)).

Lemma pgx_unref_map : forall K : list N, map (fun v => match v with PvRef k => k | _ => 0 end) (map PvRef K) = K.
Proof. induction K; simpl; [reflexivity|f_equal; assumption]. Qed.

Lemma pgx_K_flat : forall p K, pgx_flat p K -> pgx_K p = K.
Proof.
  intros p K (pn & d & Hroot & Hpn & Hkids & _). unfold pgx_K. rewrite Hroot, (pgx_kids_of _ pn d K Hpn Hkids).
  apply pgx_unref_map.
Qed.

Lemma pgx_marks2_sel : forall w d, pgsp_sel (pgx_marks2 w) d = pgx_marks (pg_get w d).
Proof. intros [a b] []; reflexivity. Qed.
Lemma pgx_marks2_put : forall w d p, pgx_marks2 (pg_put w d p) = pgsp_upd (pgx_marks2 w) d (pgx_marks p).
Proof. intros [a b] [] p; reflexivity. Qed.

Lemma pgx_flat_exists : forall p K k, pgx_flat p K -> In k K -> pg_lookup (pd_store p) k <> None.
Proof. intros p K k (pn & d & _ & _ & _ & _ & _ & _ & _ & _ & _ & Hl & _) Hk. destruct (Hl k Hk) as (dk & -> & _). discriminate. Qed.

Lemma pgx_marks_sim : forall p p' K, pgx_flat p K -> pgx_flat p' K -> pgx_sim (pd_store p) (pd_store p') -> pgx_marks p' = pgx_marks p.
Proof.
  intros p p' K Hf Hf' Hs. unfold pgx_marks. rewrite (pgx_K_flat _ _ Hf), (pgx_K_flat _ _ Hf').
  apply map_ext_in. intros k Hk. unfold pg_mark. rewrite (pgx_sim_mark _ _ k Hs); [reflexivity|eapply pgx_flat_exists; eassumption].
Qed.

Lemma pgx_pos_nil : forall p, pgx_posinv p [] -> pd_pos p = [].
Proof.
  intros p [H _]. destruct (pd_pos p) as [|[i z] t]; [reflexivity|]. specialize (H i). cbn in H. rewrite N.eqb_refl in H. discriminate.
Qed.

Lemma pgx_inv_of_st : forall p K, pgx_flat p K -> pd_all p = K -> pgx_posinv p K -> pg_inv p.
Proof.
  intros p K (pn & d & Hroot & Hpn & Hkids & Hcount & Hpar & Hpnroot & Hpnk & Hrootk & Hnd & Hleaf & Hinv) Hall [Hpos Hpnd].
  exists pn, d. rewrite Hall. repeat (split; [assumption|]). split; [|split; [exact Hpos|split; [exact Hpnd|exact Hinv]]].
  intros i Hi. destruct (Hleaf i Hi) as (dk & -> & _). discriminate.
Qed.

  Lemma pgx_flatten_st : forall p K, pgx_st p K ->
    exists p', pg_flatten p = (p', None) /\ pgx_flat p' K /\ pd_all p' = K /\ pgx_posinv p' K /\
      pgx_sim (pd_store p) (pd_store p') /\ pd_root p' = pd_root p /\ pd_omap p' = pd_omap p /\ pd_reg p' = pd_reg p /\ pg_inv p'.
  Proof.
    intros p K [Hf Hc].
    assert (Hgo : (pd_all p = [] \/ pd_all p = K) -> pd_pos p = [] ->
      exists p', pg_flatten p = (p', None) /\ pgx_flat p' K /\ pd_all p' = K /\ pgx_posinv p' K /\
      pgx_sim (pd_store p) (pd_store p') /\ pd_root p' = pd_root p /\ pd_omap p' = pd_omap p /\ pd_reg p' = pd_reg p /\ pg_inv p').
    { intros Ha Hp. destruct (pgx_flatten_flat p K Hf Ha Hp) as (p' & H1 & H2 & H3 & H4 & H5 & H6 & H7 & H8 & H9 & H10).
      exists p'. repeat (split; try assumption). }
    destruct Hc as [[Hp Ha]|[Ha Hpi]]; [apply Hgo; assumption|].
    destruct (pd_pos p) as [|x t] eqn:Ep; [apply Hgo; [right; exact Ha|reflexivity]|].
    exists p. unfold pg_flatten, pg_flatten_gen. rewrite Ep.
    repeat (split; try assumption); try reflexivity; try (rewrite Ep; apply Hpi).
    - apply pgx_sim_refl.
    - eapply pgx_inv_of_st; eassumption.
  Qed.

  (* ---------------------------------------------------------------- insertion *)
  Lemma pgx_root_pages_edit : forall p s' pn, pg_root_pages p = PvRef pn -> pn <> pd_root p -> pgx_edit pn (pd_store p) s' ->
    pg_root_pages (pd_with_store p s') = PvRef pn.
  Proof.
    intros p s' pn E Hne H. unfold pg_root_pages, pg_hget in *. cbn [pd_store pd_root pd_with_store]. cbn [pg_rv] in *.
    specialize (H (pd_root p)). destruct (pg_lookup (pd_store p) (pd_root p)) as [[v|]|]; try discriminate.
    destruct v; try discriminate. destruct H as (d' & -> & Hk). rewrite Hk; [exact E|].
    assert (pd_root p =? pn = false) as -> by (apply N.eqb_neq; congruence). discriminate.
  Qed.

  Lemma pgx_flat_of_inv_edit : forall p p' K pn, pgx_flat p K -> pg_root_pages p = PvRef pn ->
    pg_inv p' -> pd_root p' = pd_root p -> pgx_edit pn (pd_store p) (pd_store p') ->
    (forall k, In k (pd_all p') -> exists dk, pg_lookup (pd_store p') k = Some (PcObj (PvDict dk)) /\ pgx_leafy dk) ->
    pgx_flat p' (pd_all p').
  Proof.
    intros p p' K pn (pn0 & d & Hroot & Hpn & Hkids & Hcount & Hpar & Hpnroot & Hpnk & Hrootk & Hnd & Hleaf & Hinv) Hr
           (pn' & d' & Hroot' & Hpn' & Hkids' & Hcount' & Hpnroot' & Hpnall' & Hrootall' & Hnd' & Hex' & Hpos' & Hposnd' & Hinv') Hrt He Hl.
    rewrite Hroot in Hr. inversion Hr. subst pn0.
    assert (Hrp : pg_root_pages p' = PvRef pn).
    { pose proof (pgx_root_pages_edit p (pd_store p') pn Hroot Hpnroot He) as H. unfold pg_root_pages in *.
      cbn [pd_store pd_root pd_with_store] in H. rewrite Hrt. exact H. }
    rewrite Hrp in Hroot'. inversion Hroot'. subst pn'.
    assert (Hpar' : pg_dget d' pgk_Parent = PvNull).
    { destruct (pgx_edit_dict _ _ _ _ _ He Hpn) as (d2 & E2 & Hk). rewrite Hpn' in E2. inversion E2. subst d2.
      rewrite N.eqb_refl in Hk. rewrite Hk by (split; discriminate). exact Hpar. }
    exists pn, d'. split; [exact Hrp|]. split; [exact Hpn'|]. split; [exact Hkids'|]. split; [exact Hcount'|]. split; [exact Hpar'|].
    split; [exact Hpnroot'|]. split; [exact Hpnall'|]. split; [exact Hrootall'|]. split; [exact Hnd'|].
    split; [exact Hl|exact Hinv'].
  Qed.

  Lemma pgx_insert_local_edit : forall p i pos pn, pg_root_pages p = PvRef pn -> pg_lookup (pd_store p) pn <> None -> i <> pn ->
    (0 <= pos <= pg_len (pd_all p))%Z ->
    pgx_edit pn (pd_store p) (pd_store (fst (pg_insert_local p (PvRef i) pos))) /\
    (forall di, pg_lookup (pd_store p) i = Some (PcObj (PvDict di)) -> pg_pos_find (pd_pos p) i <> None ->
       exists d', pg_lookup (pd_store (fst (pg_insert_local p (PvRef i) pos))) (pg_next_id (pd_store p)) = Some (PcObj (PvDict d')) /\
                  forall k, k <> pgk_Parent -> pg_dget d' k = pg_dget di k).
  Proof.
    intros p i pos pn Hroot Hpnex Hi [Hp0 Hp1]. unfold pg_insert_local.
    assert ((pos <? 0)%Z || (pg_len (pd_all p) <? pos)%Z = false) as ->.
    { apply orb_false_iff. split; apply Z.ltb_ge; lia. }
    unfold pg_insert_dup. destruct (pg_pos_find (pd_pos p) i) as [z|] eqn:Ef.
    - destruct (pg_lookup (pd_store p) i) as [[v|dd xx kk]|] eqn:El.
      + set (ni := pg_next_id (pd_store p)).
        set (p0 := pd_with_store p (fst (pg_alloc (pd_store p) (PcObj (pg_rv (pd_store p) (PvRef i)))))).
        change (let '(s, j) := pg_alloc (pd_store p) (PcObj (pg_rv (pd_store p) (PvRef i))) in (pd_with_store p s, @None pg_err, PvRef j))
          with (p0, @None pg_err, PvRef ni). cbv iota beta.
        assert (Hnipn : ni <> pn) by (intros E; apply Hpnex; rewrite <- E; apply pg_next_id_fresh).
        assert (Hroot0 : pg_root_pages p0 = PvRef pn).
        { rewrite <- Hroot. apply pg_root_pages_ext; [reflexivity|]. unfold p0. cbn [pd_store pd_with_store]. rewrite pg_lookup_alloc.
          destruct (pd_root p =? pg_next_id (pd_store p)) eqn:E; [|reflexivity]. apply N.eqb_eq in E.
          pose proof (pg_root_exists p pn Hroot) as HH. rewrite E, pg_next_id_fresh in HH. congruence. }
        pose proof (pgx_insert_core_edit p0 ni pos pn Hroot0 Hnipn) as Hed.
        assert (Ha : pgx_edit pn (pd_store p) (pd_store p0)) by apply pgx_edit_alloc.
        split; [eapply pgx_edit_trans; eassumption|].
        intros di Hdi _. inversion Hdi; subst v.
        assert (Hl0 : pg_lookup (pd_store p0) ni = Some (PcObj (PvDict di))).
        { unfold p0. cbn [pd_store pd_with_store]. rewrite pg_lookup_alloc. fold ni. rewrite N.eqb_refl. cbn [pg_rv]. rewrite El. reflexivity. }
        destruct (pgx_edit_dict _ _ _ _ _ Hed Hl0) as (d' & E' & Hk). exists d'. split; [exact E'|].
        assert (ni =? pn = false) as Hb by (apply N.eqb_neq; exact Hnipn). rewrite Hb in Hk. exact Hk.
      + cbn [fst]. split; [apply pgx_edit_refl|]. intros di Hdi. discriminate.
      + set (ni := pg_next_id (pd_store p)).
        set (p0 := pd_with_store p (fst (pg_alloc (pd_store p) (PcObj (pg_rv (pd_store p) (PvRef i)))))).
        change (let '(s, j) := pg_alloc (pd_store p) (PcObj (pg_rv (pd_store p) (PvRef i))) in (pd_with_store p s, @None pg_err, PvRef j))
          with (p0, @None pg_err, PvRef ni). cbv iota beta.
        assert (Hnipn : ni <> pn) by (intros E; apply Hpnex; rewrite <- E; apply pg_next_id_fresh).
        assert (Hroot0 : pg_root_pages p0 = PvRef pn).
        { rewrite <- Hroot. apply pg_root_pages_ext; [reflexivity|]. unfold p0. cbn [pd_store pd_with_store]. rewrite pg_lookup_alloc.
          destruct (pd_root p =? pg_next_id (pd_store p)) eqn:E; [|reflexivity]. apply N.eqb_eq in E.
          pose proof (pg_root_exists p pn Hroot) as HH. rewrite E, pg_next_id_fresh in HH. congruence. }
        pose proof (pgx_insert_core_edit p0 ni pos pn Hroot0 Hnipn) as Hed.
        split; [eapply pgx_edit_trans; [apply pgx_edit_alloc|exact Hed]|]. intros di Hdi. discriminate.
    - cbv iota beta. split; [apply pgx_insert_core_edit; assumption|]. intros di _ H. congruence.
  Qed.

(* ---------------------------------------------------------------- operands of the insertion calls *)
(* a dictionary whose /Kids and /Type are not given through references (true of everything harness/c13.py generates) *)
Definition pgx_plain (d : pg_dict) : Prop :=
  (forall j, pg_dget d pgk_Kids <> PvRef j) /\ (forall j, pg_dget d pgk_Type <> PvRef j).

(* what may be handed to the insertion calls (this file: objects of the same document and direct objects; pages of the
   other document are in C13ProofsH.v): anything that exists except a null (where qpdf still misbehaves:
   insert_null_rejected_refuted), the catalog and the /Pages node; a dictionary has to be plain and either has /Kids
   (then it is refused) or is a leaf dictionary not typed /Pages or /Catalog (then it is accepted) *)
Definition pgx_operand_ok (w : pg_world) (d : bool) (h : pg_href) : Prop :=
  match pg_norm w h with
  | PhDirect v => match v with PvNull | PvRef _ => False | PvDict dd => pgx_plain dd /\ (pg_dget dd pgk_Kids <> PvNull \/ pgx_leafy dd) | _ => True end
  | PhObj b i => b = d /\ i <> pd_root (pg_get w d) /\ pg_root_pages (pg_get w d) <> PvRef i /\
                 match pg_lookup (pd_store (pg_get w d)) i with
                 | Some (PcObj (PvDict dd)) => pgx_plain dd /\ (pg_dget dd pgk_Kids <> PvNull \/ pgx_leafy dd)
                 | Some (PcObj PvNull) | Some (PcObj (PvRef _)) => False
                 | _ => True
                 end
  end.

Lemma pgx_norm_obj : forall w h b i, pg_norm w h = PhObj b i -> pg_lookup (pd_store (pg_get w b)) i <> None.
Proof.
  intros w h b i H. unfold pg_norm in H. destruct h as [v|b0 i0]; [discriminate|].
  destruct (pg_lookup (pd_store (pg_get w b0)) i0) eqn:E; [|discriminate]. inversion H; subst. rewrite E. discriminate.
Qed.

Lemma pgx_ins_formula : forall s v, pg_is_null s v = false ->
  pg_is_null s v || (pg_is_dict s v && negb (pg_is_dict_of_type s v pgk_Pages) && negb (pg_is_dict_of_type s v pgk_Catalog) &&
                     negb (pg_has_key s v pgk_Kids)) = true ->
  pg_is_dict s v = true /\ pg_is_dict_of_type s v pgk_Pages = false /\ pg_has_key s v pgk_Kids = false /\
  pg_is_dict_of_type s v pgk_Catalog = false.
Proof.
  intros s v Hn H. rewrite Hn in H. cbn [orb] in H.
  apply andb_prop in H. destruct H as [H Hk]. apply andb_prop in H. destruct H as [H Hc]. apply andb_prop in H. destruct H as [Hd Ht].
  apply negb_true_iff in Hk, Ht, Hc. tauto.
Qed.

Lemma pgx_insertable_dict : forall s v dd, pg_rv s v = PvDict dd -> pgx_plain dd ->
  pg_is_dict_of_type s v pgk_Pages = false -> pg_has_key s v pgk_Kids = false -> pg_is_dict_of_type s v pgk_Catalog = false -> pgx_leafy dd.
Proof.
  intros s v dd Hv [Pk Pt] Ht Hk Hc. unfold pg_is_dict_of_type, pg_has_key, pg_is_dict, pg_name_is, pg_hget in *. rewrite Hv in *. cbn [andb] in *.
  split.
  - destruct (pg_dget dd pgk_Kids) eqn:E; cbn in Hk; try discriminate; [reflexivity|]. exfalso. eapply Pk. reflexivity.
  - destruct (pg_dget dd pgk_Type) eqn:E; cbn [pg_rv] in Ht, Hc; auto.
    + split; intros ->; [rewrite pg_key_eqb_refl in Ht|rewrite pg_key_eqb_refl in Hc]; discriminate.
    + eapply Pt. reflexivity.
Qed.

(* an admissible operand that passes the test at the top of Pages::insert is a leaf dictionary *)
Lemma pgx_insertable_leafy : forall w d h, pgx_operand_ok w d h -> pg_insertable w d h = true ->
  match pg_norm w h with
  | PhDirect v => exists dd, v = PvDict dd /\ pgx_leafy dd
  | PhObj b i => exists dd, pg_lookup (pd_store (pg_get w d)) i = Some (PcObj (PvDict dd)) /\ pgx_leafy dd
  end.
Proof.
  intros w d h Hop Hins. unfold pgx_operand_ok, pg_insertable in *. destruct (pg_norm w h) as [v|b i] eqn:En.
  - destruct v; try contradiction; try (cbn in Hins; discriminate).
    destruct (pgx_ins_formula (pd_store (pg_get w d)) (PvDict l) eq_refl Hins) as (_ & Ht & Hk & Hcat).
    exists l. split; [reflexivity|]. apply (pgx_insertable_dict (pd_store (pg_get w d)) (PvDict l) l eq_refl (proj1 Hop) Ht Hk Hcat).
  - pose proof (pgx_norm_obj _ _ _ _ En) as Hex. destruct Hop as (-> & _ & _ & Hc).
    destruct (pg_lookup (pd_store (pg_get w d)) i) as [[v|dd xx kk]|] eqn:El; [| |congruence].
    + assert (Hn : pg_is_null (pd_store (pg_get w d)) (PvRef i) = false).
      { unfold pg_is_null. rewrite El. destruct v; try reflexivity. contradiction. }
      destruct (pgx_ins_formula _ _ Hn Hins) as (Hd & Ht & Hk & Hcat).
      assert (Hrv : pg_rv (pd_store (pg_get w d)) (PvRef i) = v) by (cbn [pg_rv]; rewrite El; reflexivity).
      unfold pg_is_dict in Hd. rewrite Hrv in Hd. destruct v; try discriminate.
      exists l. split; [reflexivity|]. eapply pgx_insertable_dict; [exact Hrv|exact (proj1 Hc)|exact Ht|exact Hk|exact Hcat].
    + exfalso. assert (Hn : pg_is_null (pd_store (pg_get w d)) (PvRef i) = false) by (unfold pg_is_null; rewrite El; reflexivity).
      destruct (pgx_ins_formula _ _ Hn Hins) as (Hd & _). unfold pg_is_dict in Hd. cbn [pg_rv] in Hd. rewrite El in Hd. discriminate.
Qed.

Lemma pgx_norm_put : forall w d h p1, pgx_operand_ok w d h ->
  (forall j, pg_lookup (pd_store (pg_get w d)) j <> None -> pg_lookup (pd_store p1) j <> None) ->
  pg_norm (pg_put w d p1) h = pg_norm w h.
Proof.
  intros w d h p1 Hop Hex. unfold pgx_operand_ok in Hop. destruct h as [v|b i]; [reflexivity|]. unfold pg_norm in *.
  destruct (pg_lookup (pd_store (pg_get w b)) i) eqn:E; [|contradiction].
  destruct Hop as (-> & _). rewrite pg_get_put_same.
  destruct (pg_lookup (pd_store p1) i) eqn:E1; [reflexivity|]. exfalso. apply (Hex i); [rewrite E; discriminate|exact E1].
Qed.

Lemma pgx_marks_flat_all : forall p K, pgx_flat p K -> pd_all p = K -> pgx_marks p = pg_marks p.
Proof. intros p K Hf Ha. unfold pgx_marks, pg_marks. rewrite (pgx_K_flat _ _ Hf), Ha. reflexivity. Qed.

Lemma pgx_st_of_inv : forall p, pg_inv p -> pgx_flat p (pd_all p) -> pgx_st p (pd_all p).
Proof.
  intros p Hi Hf. split; [exact Hf|]. right. split; [reflexivity|].
  destruct Hi as (pn & d & _ & _ & _ & _ & _ & _ & _ & _ & _ & Hpos & Hnd & _). split; assumption.
Qed.

Lemma pgx_insert_ok : forall w d h pos K,
  pgx_st (pg_get w d) K -> pgx_operand_ok w d h -> pg_insertable w d h = true -> (0 <= pos <= pg_len K)%Z ->
  exists p' K', pg_insert w d h pos = (pg_put w d p', None) /\ pgx_st p' K' /\
     pgx_marks p' = pgsp_insert (pgx_marks (pg_get w d)) (Z.to_nat pos) (pg_operand_mark w h).
Proof.
  intros w d h pos K Hst Hop Hins Hpos.
  pose proof (pgx_insertable_leafy w d h Hop Hins) as Hleafy.
  destruct (pgx_flatten_st _ K Hst) as (p1 & Hfl & Hf1 & Hall1 & Hpi1 & Hsim & Hr1 & Ho1 & Hg1 & Hinv1).
  destruct Hst as [Hf0 _].
  unfold pg_insert. rewrite Hins. cbn [negb]. rewrite Hfl.
  rewrite (pgx_norm_put w d h p1 Hop) by (intros j; apply pgx_sim_some; exact Hsim).
  unfold pgx_operand_ok, pg_operand_mark in *.
  pose proof Hf1 as (pn & dn & Hroot1 & Hpn1 & Hkids1 & Hcount1 & Hpar1 & Hpnroot1 & Hpnk1 & Hrootk1 & Hnd1 & Hleaf1 & Hinvf1).
  assert (Hpnex1 : pg_lookup (pd_store p1) pn <> None) by (rewrite Hpn1; discriminate).
  assert (Hm1 : pg_marks p1 = pgx_marks (pg_get w d)).
  { rewrite <- (pgx_marks_flat_all p1 K Hf1 Hall1). eapply pgx_marks_sim; eassumption. }
  destruct (pg_norm w h) as [v|b i] eqn:En.
  - (* direct object: makeIndirectObject *)
    destruct Hleafy as (dd & -> & Hld).
    rewrite pg_get_put_same.
    set (ni := pg_next_id (pd_store p1)).
    set (p0 := pd_with_store p1 (fst (pg_alloc (pd_store p1) (PcObj (PvDict dd))))).
    change (let '(s, i) := pg_alloc (pd_store p1) (PcObj (PvDict dd)) in (pg_put (pg_put w d p1) d (pd_with_store p1 s), @None pg_err, PvRef i))
      with (pg_put (pg_put w d p1) d p0, @None pg_err, PvRef ni).
    cbv iota beta. rewrite pg_get_put_same, pg_put_put.
    assert (Hi0 : pg_inv p0) by (apply pg_inv_alloc, Hinv1).
    assert (Hf0' : pgx_flat p0 K) by (apply pgx_flat_sim; [exact Hf1|apply pgx_sim_alloc]).
    assert (Hlni : pg_lookup (pd_store p0) ni = Some (PcObj (PvDict dd))).
    { unfold p0. cbn [pd_store pd_with_store]. rewrite pg_lookup_alloc. fold ni. rewrite N.eqb_refl. reflexivity. }
    assert (Hnifresh : pg_lookup (pd_store p1) ni = None) by apply pg_next_id_fresh.
    assert (Hroot0 : pg_root_pages p0 = PvRef pn) by (eapply pgx_root_pages_sim; [apply pgx_sim_alloc|exact Hroot1]).
    assert (Hnipn : ni <> pn) by (intros E; rewrite E in Hnifresh; congruence).
    assert (Hall0 : pd_all p0 = K) by exact Hall1.
    destruct (pg_insert_local_ok p0 ni pos Hi0) as (p2 & ni' & Hrun & Hi2 & Hall2 & Hnin & _ & Hni' & Hr2 & _ & _ & Hmk).
    + rewrite Hlni. discriminate.
    + change (pd_root p0) with (pd_root p1). intros E. pose proof (pg_root_exists p1 pn Hroot1) as HH. rewrite <- E in HH. congruence.
    + rewrite Hroot0. intros E. inversion E. congruence.
    + intros dd0 x k E. rewrite Hlni in E. discriminate.
    + rewrite Hall0. exact Hpos.
    + assert (Hninot : ~ In ni (pd_all p0)).
      { rewrite Hall0. intros Hin. apply (pgx_flat_exists p1 K ni Hf1) in Hin. congruence. }
      rewrite (Hni' Hninot) in *. clear Hni'.
      destruct (pgx_insert_local_edit p0 ni pos pn Hroot0) as [Hed _].
      { unfold p0. cbn [pd_store pd_with_store]. rewrite pg_lookup_alloc. destruct (pn =? pg_next_id (pd_store p1)); [discriminate|exact Hpnex1]. }
      { exact Hnipn. } { rewrite Hall0. exact Hpos. }
      rewrite Hrun in Hed. cbn [fst] in Hed.
      assert (Hf2 : pgx_flat p2 (pd_all p2)).
      { eapply (pgx_flat_of_inv_edit p0 p2 K pn Hf0' Hroot0 Hi2 Hr2 Hed).
        intros k Hk. rewrite Hall2, Hall0 in Hk. apply pg_In_ins in Hk; [|unfold pg_len in Hpos; lia].
        destruct Hk as [->|Hk].
        - eapply pgx_leafy_edit; [exact Hed|exact Hnipn|exact Hlni|exact Hld].
        - destruct Hf0' as (pn' & dn' & Hroot' & _ & _ & _ & _ & _ & Hpnk' & _ & _ & Hleaf' & _).
          rewrite Hroot0 in Hroot'. inversion Hroot'. subst pn'.
          destruct (Hleaf' k Hk) as (dk & Ek & Lk). eapply pgx_leafy_edit; [exact Hed| |exact Ek|exact Lk]. intros ->. contradiction. }
      exists p2, (pd_all p2). rewrite Hrun. split; [rewrite ?pg_put_put; reflexivity|]. split; [apply pgx_st_of_inv; assumption|].
      rewrite (pgx_marks_flat_all p2 _ Hf2 eq_refl), Hmk.
      assert (pg_marks p0 = pg_marks p1) as -> by (unfold p0; apply pg_marks_alloc, Hinv1).
      rewrite Hm1. f_equal. apply pg_mark_obj, Hlni.
  - (* an object of this document *)
    destruct Hop as (-> & Hiroot & Hipn & _). destruct Hleafy as (dd & Edd & Hld).
    rewrite Bool.eqb_reflx. cbv iota beta. rewrite pg_get_put_same.
    destruct (pgx_sim_dict _ _ _ _ Hsim Edd) as (dd1 & Edd1 & Sdd1).
    pose proof (pgx_leafy_sim _ _ Hld Sdd1) as Hld1.
    assert (Hipn1 : i <> pn).
    { intros ->. apply Hipn. destruct Hf0 as (pn0 & d0 & Hroot0 & _). rewrite Hroot0. f_equal.
      pose proof (pgx_root_pages_sim _ _ Hsim pn0 Hroot0) as HH. unfold pg_root_pages in *. cbn [pd_store pd_root pd_with_store] in HH.
      rewrite <- Hr1, Hroot1 in HH. inversion HH. reflexivity. }
    destruct (pg_insert_local_ok p1 i pos Hinv1) as (p2 & ni & Hrun & Hi2 & Hall2 & Hnin & Hnidup & Hninew & Hr2 & _ & _ & Hmk).
    + rewrite Edd1. discriminate.
    + rewrite Hr1. exact Hiroot.
    + rewrite Hroot1. intros E. inversion E. congruence.
    + intros d0 x k E. rewrite Edd1 in E. discriminate.
    + rewrite Hall1. exact Hpos.
    + destruct (pgx_insert_local_edit p1 i pos pn Hroot1 Hpnex1 Hipn1) as [Hed Hcopy]; [rewrite Hall1; exact Hpos|].
      rewrite Hrun in Hed, Hcopy. cbn [fst] in Hed, Hcopy.
      assert (Hf2 : pgx_flat p2 (pd_all p2)).
      { eapply (pgx_flat_of_inv_edit p1 p2 K pn Hf1 Hroot1 Hi2 Hr2 Hed).
        intros k Hk. rewrite Hall2, Hall1 in Hk. apply pg_In_ins in Hk; [|unfold pg_len in Hpos; lia].
        destruct Hk as [->|Hk].
        - destruct (in_dec N.eq_dec i K) as [Hin|Hnot].
          + rewrite Hall1 in Hnidup. rewrite (Hnidup Hin).
            destruct (Hcopy dd1 Edd1) as (d' & Ed' & Hk').
            { destruct Hpi1 as [Hpf _]. rewrite Hpf. destruct (pg_index K i) eqn:Ei; [discriminate|]. apply pg_index_none in Ei. contradiction. }
            exists d'. split; [exact Ed'|]. destruct Hld1 as [L1 L2]. split; rewrite Hk' by discriminate; assumption.
          + rewrite Hall1 in Hninew. rewrite (Hninew Hnot). eapply pgx_leafy_edit; [exact Hed|exact Hipn1|exact Edd1|exact Hld1].
        - destruct (Hleaf1 k Hk) as (dk & Ek & Lk). eapply pgx_leafy_edit; [exact Hed| |exact Ek|exact Lk]. intros ->. contradiction. }
      exists p2, (pd_all p2). rewrite Hrun. split; [rewrite ?pg_put_put; reflexivity|]. split; [apply pgx_st_of_inv; assumption|].
      rewrite (pgx_marks_flat_all p2 _ Hf2 eq_refl), Hmk, Hm1. f_equal.
      unfold pg_mark. rewrite (pgx_sim_mark _ _ i Hsim); [reflexivity|rewrite Edd; discriminate].
Qed.

(* ---------------------------------------------------------------- the operand tests do not depend on repairs *)
Definition pgx_insF (s : pg_store) (v : pg_val) : bool :=
  pg_is_null s v ||
  (pg_is_dict s v && negb (pg_is_dict_of_type s v pgk_Pages) && negb (pg_is_dict_of_type s v pgk_Catalog) && negb (pg_has_key s v pgk_Kids)).

Lemma pgx_insF_leafy : forall s v dd, pg_rv s v = PvDict dd -> pgx_leafy dd -> pgx_insF s v = true.
Proof.
  intros s v dd Hv [Lk Lt].
  assert (Hd : pg_is_dict s v = true) by (unfold pg_is_dict; rewrite Hv; reflexivity).
  assert (Hn : pg_name_is s (pg_dget dd pgk_Type) pgk_Pages = false /\ pg_name_is s (pg_dget dd pgk_Type) pgk_Catalog = false).
  { unfold pg_name_is. destruct (pg_dget dd pgk_Type); cbn [pg_rv]; try (split; reflexivity); [|contradiction].
    destruct Lt. split; apply pg_key_eqb_neq; assumption. }
  destruct Hn as [H1 H2].
  assert (Hp : pg_is_dict_of_type s v pgk_Pages = false) by (unfold pg_is_dict_of_type, pg_hget; rewrite Hd, Hv, H1; reflexivity).
  assert (Hc : pg_is_dict_of_type s v pgk_Catalog = false) by (unfold pg_is_dict_of_type, pg_hget; rewrite Hd, Hv, H2; reflexivity).
  assert (Hk : pg_has_key s v pgk_Kids = false) by (unfold pg_has_key, pg_hget; rewrite Hv, Lk; reflexivity).
  unfold pgx_insF. rewrite Hd, Hp, Hc, Hk. cbn. apply orb_true_r.
Qed.

Lemma pgx_insF_kids : forall s v dd, pg_rv s v = PvDict dd -> pgx_plain dd -> pg_dget dd pgk_Kids <> PvNull -> pgx_insF s v = false.
Proof.
  intros s v dd Hv [Pk _] Hk. unfold pgx_insF, pg_is_dict, pg_has_key, pg_hget. rewrite Hv.
  assert (pg_is_null s (pg_dget dd pgk_Kids) = false) as ->.
  { destruct (pg_dget dd pgk_Kids) eqn:E; try reflexivity; [congruence|exfalso; eapply Pk; reflexivity]. }
  cbn [negb]. rewrite andb_false_r, orb_false_r.
  unfold pg_is_null. destruct v; try reflexivity; try discriminate. cbn [pg_rv] in Hv. destruct (pg_lookup s i) as [[w|]|]; try discriminate. subst w. reflexivity.
Qed.

Lemma pgx_plain_sim : forall d d', pgx_plain d -> pgx_dsim d d' -> (pg_dget d pgk_Kids <> PvNull \/ pgx_leafy d) ->
  pgx_plain d' /\ (pg_dget d' pgk_Kids <> PvNull \/ pgx_leafy d').
Proof.
  intros d d' [Pk Pt] (Hh & Hty & Hp) Hc. split; [split|].
  - rewrite (Hh pgk_Kids pgx_kids_hard). exact Pk.
  - intros j E. destruct Hty as [E'|[E'|[E' _]]]; rewrite E' in E; [eapply Pt; exact E|discriminate|discriminate].
  - destruct Hc as [Hc|Hc]; [left; rewrite (Hh pgk_Kids pgx_kids_hard); exact Hc|right; eapply pgx_leafy_sim; [exact Hc|repeat split; assumption]].
Qed.

Lemma pgx_operand_sim : forall w d h p1, pgx_operand_ok w d h ->
  pgx_sim (pd_store (pg_get w d)) (pd_store p1) -> pd_root p1 = pd_root (pg_get w d) ->
  (forall pn, pg_root_pages (pg_get w d) = PvRef pn -> pg_root_pages p1 = PvRef pn) ->
  (exists pn, pg_root_pages (pg_get w d) = PvRef pn) ->
  pgx_operand_ok (pg_put w d p1) d h /\ pg_insertable (pg_put w d p1) d h = pg_insertable w d h /\
  pg_operand_mark (pg_put w d p1) h = pg_operand_mark w h.
Proof.
  intros w d h p1 Hop Hsim Hr Hrp [pn0 Hpn0].
  assert (Hnorm : pg_norm (pg_put w d p1) h = pg_norm w h) by (apply pgx_norm_put; [exact Hop|intros j; apply pgx_sim_some; exact Hsim]).
  unfold pgx_operand_ok, pg_insertable, pg_operand_mark in *. rewrite Hnorm. rewrite pg_get_put_same.
  destruct (pg_norm w h) as [v|b i] eqn:En.
  - split; [exact Hop|]. split; [|reflexivity].
    fold (pgx_insF (pd_store p1) v). fold (pgx_insF (pd_store (pg_get w d)) v).
    destruct v; try contradiction; try reflexivity.
    destruct Hop as [Hpl [Hk|Hl]].
    + rewrite !(pgx_insF_kids _ (PvDict l) l eq_refl Hpl Hk). reflexivity.
    + rewrite !(pgx_insF_leafy _ (PvDict l) l eq_refl Hl). reflexivity.
  - destruct Hop as (-> & Hiroot & Hipn & Hc). rewrite pg_get_put_same.
    fold (pgx_insF (pd_store p1) (PvRef i)). fold (pgx_insF (pd_store (pg_get w d)) (PvRef i)).
    pose proof (Hsim i) as Hi. unfold pg_mark, pg_marker.
    destruct (pg_lookup (pd_store (pg_get w d)) i) as [[v|dd xx kk]|] eqn:El.
    + destruct v; try contradiction;
        try (rewrite Hi; split; [split; [reflexivity|split; [congruence|split; [rewrite (Hrp pn0 Hpn0), <- Hpn0; exact Hipn|exact I]]]|];
             split; [unfold pgx_insF, pg_is_null, pg_is_dict, pg_is_dict_of_type, pg_has_key, pg_hget; cbn [pg_rv]; rewrite Hi, El; reflexivity|];
             unfold pg_hget; cbn [pg_rv]; rewrite Hi, El; reflexivity).
      destruct Hi as (d' & E' & Sd). destruct Hc as [Hpl Hc]. destruct (pgx_plain_sim _ _ Hpl Sd Hc) as [Hpl' Hc'].
      rewrite E'. split; [split; [reflexivity|split; [congruence|split; [rewrite (Hrp pn0 Hpn0), <- Hpn0; exact Hipn|split; assumption]]]|].
      split.
      * destruct Hc as [Hk|Hl].
        -- destruct Hc' as [Hk'|Hl']; [|destruct Hl' as [Hl' _]; destruct Sd as (Hh & _); rewrite (Hh pgk_Kids pgx_kids_hard) in Hl'; contradiction].
           rewrite (pgx_insF_kids (pd_store p1) (PvRef i) d'), (pgx_insF_kids (pd_store (pg_get w d)) (PvRef i) l); try assumption; try reflexivity;
             cbn [pg_rv]; [rewrite El|rewrite E']; reflexivity.
        -- pose proof (pgx_leafy_sim _ _ Hl Sd) as Hl'.
           rewrite (pgx_insF_leafy (pd_store p1) (PvRef i) d'), (pgx_insF_leafy (pd_store (pg_get w d)) (PvRef i) l); try assumption; try reflexivity;
             cbn [pg_rv]; [rewrite El|rewrite E']; reflexivity.
      * unfold pg_hget. cbn [pg_rv]. rewrite E', El. destruct Sd as (Hh & _). rewrite (Hh pgk_Mk pgx_mk_hard). reflexivity.
    + rewrite Hi. split; [split; [reflexivity|split; [congruence|split; [rewrite (Hrp pn0 Hpn0), <- Hpn0; exact Hipn|exact I]]]|].
      split; [unfold pgx_insF, pg_is_null, pg_is_dict, pg_is_dict_of_type, pg_has_key, pg_hget; cbn [pg_rv]; rewrite Hi, El; reflexivity|].
      unfold pg_hget; cbn [pg_rv]; rewrite Hi, El; reflexivity.
    + exfalso. apply (pgx_norm_obj _ _ _ _ En). exact El.
Qed.

(* ---------------------------------------------------------------- the lazy parts, from any cache state *)
Lemma pgx_st_flat : forall p K, pgx_st p K -> pgx_flat p K.
Proof. intros p K [H _]. exact H. Qed.

Lemma pgx_st_all : forall p K, pgx_st p K -> pd_all p = [] \/ pd_all p = K.
Proof. intros p K [_ [[_ H]|[H _]]]; [exact H|right; exact H]. Qed.

Lemma pgx_find_st : forall p K og, pgx_st p K ->
  exists p1, pg_find p og = (p1, match pg_index K og with Some _ => None | None => Some PeQ end,
                                 match pg_index K og with Some k => Z.of_nat k | None => 0%Z end) /\
    pgx_st p1 K /\ pd_all p1 = K /\ pg_inv p1 /\ pgx_sim (pd_store p) (pd_store p1) /\ pd_root p1 = pd_root p.
Proof.
  intros p K og Hst. destruct (pgx_flatten_st _ K Hst) as (p1 & Hfl & Hf1 & Hall1 & Hpi1 & Hsim & Hr1 & Ho1 & Hg1 & Hinv1).
  exists p1. unfold pg_find. rewrite Hfl. destruct Hpi1 as [Hpf Hnd]. rewrite Hpf.
  split; [destruct (pg_index K og); reflexivity|]. split; [split; [exact Hf1|right; split; [exact Hall1|split; assumption]]|].
  repeat (split; [assumption|]). exact Hr1.
Qed.

Lemma pgx_all_st : forall p K, pgx_st p K ->
  exists p1, pg_all p = (p1, None) /\ pgx_st p1 K /\ pd_all p1 = K /\ pgx_sim (pd_store p) (pd_store p1) /\ pd_root p1 = pd_root p.
Proof.
  intros p K [Hf Hc]. unfold pg_all. destruct (pd_all p) as [|x t] eqn:Ea.
  - destruct (pgx_cache_flat p K Hf Ea) as (s' & Ec & Hsim). rewrite Ec. eexists. split; [reflexivity|].
    assert (Hf' : pgx_flat (pd_with_all (pd_with_store p s') K) K).
    { eapply pgx_flat_eq; [| | |apply (pgx_flat_sim p K s' Hf Hsim)]; [reflexivity|reflexivity|]. cbn. apply (pgx_flat_invalid p K Hf). }
    split; [split; [exact Hf'|]|split; [reflexivity|split; [exact Hsim|reflexivity]]].
    cbn [pd_pos pd_all pd_with_all pd_with_store]. destruct Hc as [[Hp _]|[Ha Hpi]].
    + left. split; [exact Hp|right; reflexivity].
    + right. split; [reflexivity|exact Hpi].
  - exists p. split; [reflexivity|]. assert (Hk : pd_all p = K) by (destruct Hc as [[_ [H|H]]|[H _]]; congruence).
    split; [split; [exact Hf|rewrite <- Ea in Hc; exact Hc]|]. split; [exact Hk|split; [apply pgx_sim_refl|reflexivity]].
Qed.

Lemma pgx_refresh_st : forall p K, pgx_st p K ->
  exists p1, pg_update_cache p = (p1, None) /\ pgx_st p1 K /\ pgx_sim (pd_store p) (pd_store p1).
Proof.
  intros p K [Hf _]. destruct (refresh_keeps_list_lemma p K Hf) as (s' & Er & Hsim & Hf'). rewrite Er. eexists. split; [reflexivity|].
  split; [split; [exact Hf'|left; split; [reflexivity|right; reflexivity]]|exact Hsim].
Qed.

Lemma pgx_push_st : forall p K, pgx_st p K ->
  exists p1, pg_push p false = (p1, None) /\ pgx_st p1 K /\ pgx_sim (pd_store p) (pd_store p1).
Proof.
  intros p K Hst. destruct (pgx_push_flat p K (pgx_st_flat _ _ Hst) (pgx_st_all _ _ Hst)) as (p1 & Ep & Hf1 & Ha1 & Hp1 & Hsim & _).
  exists p1. split; [exact Ep|]. split; [|exact Hsim]. split; [exact Hf1|].
  destruct Hst as [_ [[Hp Ha]|[Ha Hpi]]].
  - left. split; [congruence|]. destruct Ha1 as [Ha1|[_ ->]]; [right; exact Ha1|exact Ha].
  - right. split; [destruct Ha1 as [Ha1|[_ ->]]; assumption|]. unfold pgx_posinv in *. rewrite Hp1. exact Hpi.
Qed.

(* ---------------------------------------------------------------- worlds *)
Definition pgx_W (w : pg_world) : Prop := (exists K, pgx_st (fst w) K) /\ (exists K, pgx_st (snd w) K).

Lemma pgx_W_get : forall w d, pgx_W w -> exists K, pgx_st (pg_get w d) K.
Proof. intros [a b] [] [H1 H2]; assumption. Qed.
Lemma pgx_W_put : forall w d p K, pgx_W w -> pgx_st p K -> pgx_W (pg_put w d p).
Proof. intros [a b] [] p K [H1 H2] H; split; cbn; eauto. Qed.

Lemma pgx_marks_st_sim : forall p p1 K, pgx_st p K -> pgx_st p1 K -> pgx_sim (pd_store p) (pd_store p1) -> pgx_marks p1 = pgx_marks p.
Proof. intros p p1 K H H1 Hs. eapply pgx_marks_sim; [apply pgx_st_flat; exact H|apply pgx_st_flat; exact H1|exact Hs]. Qed.

Lemma pgx_marks2_put_same : forall w d p, pgx_marks p = pgx_marks (pg_get w d) -> pgx_marks2 (pg_put w d p) = pgx_marks2 w.
Proof. intros [a b] [] p H; unfold pgx_marks2; cbn in *; rewrite H; reflexivity. Qed.

Lemma pgx_marks_length : forall p K, pgx_flat p K -> length (pgx_marks p) = length K.
Proof. intros p K Hf. unfold pgx_marks. rewrite (pgx_K_flat _ _ Hf). apply map_length. Qed.

(* insertion at a valid position, both sides *)
Lemma pgx_step_insert : forall w d h n K,
  pgx_W w -> pgx_st (pg_get w d) K -> pgx_operand_ok w d h -> (n <= length K)%nat ->
  let '(w', e) := pg_insert w d h (Z.of_nat n) in
  let '(s', raise_) := pg_spec_step (pgx_marks2 w) (if pg_insertable w d h then SpInsert d n (pg_operand_mark w h) else SpInvalid) in
  pgx_marks2 w' = s' /\ pg_is_err (pg_res_of e) = raise_ /\ pgx_W w'.
Proof.
  intros w d h n K HW Hst Hop Hn. destruct (pg_insertable w d h) eqn:Hins.
  - destruct (pgx_insert_ok w d h (Z.of_nat n) K Hst Hop Hins) as (p' & K' & Hrun & Hst' & Hmk); [unfold pg_len; lia|].
    rewrite Hrun. cbn [pg_spec_step]. rewrite pgx_marks2_sel, (pgx_marks_length _ K (pgx_st_flat _ _ Hst)).
    assert (Nat.leb n (length K) = true) as -> by (apply Nat.leb_le; exact Hn).
    rewrite pgx_marks2_put, Hmk, Nat2Z.id. split; [reflexivity|]. split; [reflexivity|]. eapply pgx_W_put; eassumption.
  - unfold pg_insert. rewrite Hins. cbn. split; [reflexivity|]. split; [reflexivity|exact HW].
Qed.

Lemma pgx_erase_ok : forall w d og K, pgx_st (pg_get w d) K ->
  match pg_index K og with
  | Some k => exists p', pg_erase w d og = (pg_put w d p', None) /\ pgx_st p' (pg_list_del K k) /\
                         pgx_marks p' = pgsp_remove (pgx_marks (pg_get w d)) k
  | None => exists p', pg_erase w d og = (pg_put w d p', Some PeQ) /\ pgx_st p' K /\ pgx_marks p' = pgx_marks (pg_get w d)
  end.
Proof.
  intros w d og K Hst. destruct (pgx_find_st _ K og Hst) as (p1 & Efind & Hst1 & Hall1 & Hinv1 & Hsim & Hr1).
  unfold pg_erase. rewrite Efind. destruct (pg_index K og) as [k|] eqn:Ek.
  - assert (Ek1 : pg_index (pd_all p1) og = Some k) by (rewrite Hall1; exact Ek).
    destruct (pg_erase_core_ok _ _ _ Hinv1 Ek1) as (p2 & Hrun & Hi2 & Hall2 & Hr2 & _ & _ & Hfr). rewrite Hrun.
    pose proof (pgx_st_flat _ _ Hst1) as Hf1.
    pose proof Hf1 as (pn & dn & Hroot1 & Hpn1 & Hkids1 & Hcount1 & Hpar1 & Hpnroot1 & Hpnk1 & Hrootk1 & Hnd1 & Hleaf1 & Hinvf1).
    pose proof (pgx_erase_core_edit p1 og (Z.of_nat k) pn Hroot1) as Hed. rewrite Hrun in Hed. cbn [fst] in Hed.
    assert (Hf2 : pgx_flat p2 (pd_all p2)).
    { eapply (pgx_flat_of_inv_edit p1 p2 K pn Hf1 Hroot1 Hi2 Hr2 Hed).
      intros j Hj. rewrite Hall2, Hall1 in Hj. apply pg_In_del in Hj.
      destruct (Hleaf1 j Hj) as (dk & Edk & Ldk). eapply pgx_leafy_edit; [exact Hed| |exact Edk|exact Ldk]. intros ->. contradiction. }
    exists p2. split; [reflexivity|]. rewrite <- Hall1, <- Hall2. split; [apply pgx_st_of_inv; assumption|].
    rewrite (pgx_marks_flat_all p2 _ Hf2 eq_refl).
    rewrite <- (pgx_marks_st_sim _ _ K Hst Hst1 Hsim), (pgx_marks_flat_all p1 K Hf1 Hall1).
    unfold pg_marks, pgsp_remove. rewrite Hall2, Hall1. rewrite pg_list_del_spec, map_app, firstn_map, skipn_map.
    assert (Hsame : forall j, In j K -> pg_mark (pd_store p2) j = pg_mark (pd_store p1) j).
    { intros j Hj. apply pg_mark_ext, Hfr. rewrite Hroot1. intros EE. inversion EE. subst. contradiction. }
    f_equal; apply map_ext_in; intros j Hj; apply Hsame.
    + rewrite <- (firstn_skipn k K). apply in_app_iff. left. exact Hj.
    + rewrite <- (firstn_skipn (S k) K). apply in_app_iff. right. exact Hj.
  - exists p1. split; [reflexivity|]. split; [exact Hst1|]. eapply pgx_marks_st_sim; eassumption.
Qed.

(* ---------------------------------------------------------------- the calls, and the same calls on the plain list *)
Definition pgx_page_like (v : pg_val) : Prop := exists dv, v = PvDict dv /\ pgx_leafy dv.
Definition pgx_cell_page_like (c : pg_cell) : Prop := match c with PcObj v => pgx_page_like v | _ => False end.

(* the calls covered: everything harness/c13.py issues except (1) pages / objects of the OTHER document as operands
   (C13ProofsH.v), (2) direct damage to the tree, which the harness also leaves outside the list specification:
   replaceObject / swapObjects on the catalog or the /Pages node, or turning a page into something that is not a leaf
   dictionary, (3) the null operand and the stream of the other document with the same number (known findings) *)
Definition pgx_adm (w : pg_world) (o : pg_op) : Prop :=
  let K d := pgx_K (pg_get w d) in
  match o with
  | PoAddPage d h _ | PoHAddPage d h _ | PoAddPageAt d h _ _ => pgx_operand_ok w d h
  | PoRemove _ _ | PoFind _ _ | PoGetPages _ | PoMakeIndirect _ _ | PoRefresh _ | PoPushInh _ | PoReplaceReserved _ _ => True
  | PoShallowCopy d i => exists v, pg_lookup (pd_store (pg_get w d)) i = Some (PcObj v)
  | PoReplace d i v => pg_not_node (pg_get w d) i /\ (In i (K d) -> pgx_page_like v)
  | PoSwap d i j => pg_not_node (pg_get w d) i /\ pg_not_node (pg_get w d) j /\
                    (exists ci cj, pg_lookup (pd_store (pg_get w d)) i = Some ci /\ pg_lookup (pd_store (pg_get w d)) j = Some cj /\
                       (In i (K d) -> pgx_cell_page_like cj) /\ (In j (K d) -> pgx_cell_page_like ci))
  | PoReplaceInd d i h =>
      match pg_norm w h with
      | PhDirect v => pg_not_node (pg_get w d) i /\ (In i (K d) -> pgx_page_like v)
      | PhObj b j => pg_is_stream (pd_store (pg_get w b)) (PvRef j) && (j =? i) = false   (* the accepted form is known finding F4 / F5 *)
      end
  | PoCopyForeign d h => match pg_norm w h with PhObj b _ => b = d | PhDirect _ => True end
  end.

Definition pgx_abs (w : pg_world) (o : pg_op) : pg_sop :=
  let K d := pgx_K (pg_get w d) in
  match o with
  | PoAddPage d h first | PoHAddPage d h first =>
      if pg_insertable w d h then SpInsert d (if first then O else length (K d)) (pg_operand_mark w h) else SpInvalid
  | PoAddPageAt d h before r =>
      if pg_foreign_handle w d r then SpInvalid
      else match pg_index (K d) (pg_og_of w r) with
           | Some k => if pg_insertable w d h then SpInsert d (if before then k else S k) (pg_operand_mark w h) else SpInvalid
           | None => SpInvalid
           end
  | PoRemove d h =>
      if pg_foreign_handle w d h then SpInvalid
      else match pg_index (K d) (pg_og_of w h) with Some k => SpRemove d k | None => SpInvalid end
  | PoFind d i => match pg_index (K d) i with Some _ => SpNop | None => SpInvalid end
  | PoReplace d i v => match pg_index (K d) i with Some k => SpSet d k (pg_val_mark v) | None => SpNop end
  | PoSwap d i j =>
      match pg_index (K d) i, pg_index (K d) j with
      | Some a, Some b => SpSwap d a b
      | Some a, None => SpSet d a (pg_mark (pd_store (pg_get w d)) j)
      | None, Some b => SpSet d b (pg_mark (pd_store (pg_get w d)) i)
      | None, None => SpNop
      end
  | PoReplaceInd d i h =>      (* "the object handle passed in must be a direct object" *)
      match pg_norm w h with
      | PhDirect v => match pg_index (K d) i with Some k => SpSet d k (pg_val_mark v) | None => SpNop end
      | PhObj _ _ => SpInvalid
      end
  | PoReplaceReserved _ _ => SpInvalid
  | PoCopyForeign d h => match pg_norm w h with PhObj b _ => if Bool.eqb b d then SpInvalid else SpNop | PhDirect _ => SpInvalid end
  | _ => SpNop
  end.

Lemma pgx_count_st : forall p K, pgx_flat p K ->
  pg_rv (pd_store p) (pg_hget (pd_store p) (pg_root_pages p) pgk_Count) = PvInt (pg_len K).
Proof.
  intros p K (pn & d & Hroot & Hpn & _ & Hcount & _). rewrite Hroot, (pgx_hget_ref _ pn d pgk_Count Hpn), Hcount. reflexivity.
Qed.

(* replacing the cell of one object that is not a node of the tree *)
Lemma pgx_flat_supd : forall p K i c, pgx_flat p K -> pg_not_node p i ->
  (In i K -> pgx_cell_page_like c) -> pgx_flat (pd_with_store p (pg_supd (pd_store p) i c)) K.
Proof.
  intros p K i c (pn & d & Hroot & Hpn & Hkids & Hcount & Hpar & Hpnroot & Hpnk & Hrootk & Hnd & Hleaf & Hinv) [Hir Hip] Hc.
  assert (Hipn : i <> pn) by (intros ->; apply Hip; exact Hroot).
  exists pn, d. cbn [pd_store pd_root pd_invalid pd_with_store].
  split. { rewrite <- Hroot. apply pg_root_pages_ext; [reflexivity|]. cbn [pd_store pd_root pd_with_store]. rewrite pg_lookup_supd.
           assert (pd_root p =? i = false) as -> by (apply N.eqb_neq; congruence). reflexivity. }
  split. { rewrite pg_lookup_supd. assert (pn =? i = false) as -> by (apply N.eqb_neq; congruence). exact Hpn. }
  repeat (split; [assumption|]). split; [|exact Hinv].
  intros k Hk. rewrite pg_lookup_supd. destruct (k =? i) eqn:E; [|apply Hleaf, Hk].
  apply N.eqb_eq in E. subst k. specialize (Hc Hk). destruct c as [v|]; [|contradiction]. destruct Hc as (dv & -> & Hl). exists dv. split; [reflexivity|exact Hl].
Qed.

Lemma pgx_st_store : forall p K s', pgx_st p K -> pgx_flat (pd_with_store p s') K -> pgx_st (pd_with_store p s') K.
Proof. intros p K s' [_ Hc] Hf. split; [exact Hf|exact Hc]. Qed.

Lemma pgx_marks_store : forall p K s', pgx_flat p K -> pgx_flat (pd_with_store p s') K ->
  pgx_marks (pd_with_store p s') = map (pg_mark s') K /\ pgx_marks p = map (pg_mark (pd_store p)) K.
Proof. intros p K s' H H'. unfold pgx_marks. rewrite (pgx_K_flat _ _ H), (pgx_K_flat _ _ H'). split; reflexivity. Qed.

Lemma pgx_flat_alloc : forall p K c, pgx_flat p K -> pgx_flat (pd_with_store p (fst (pg_alloc (pd_store p) c))) K.
Proof. intros p K c H. apply pgx_flat_sim; [exact H|apply pgx_sim_alloc]. Qed.

Lemma pgx_step_alloc : forall w d c K, pgx_W w -> pgx_st (pg_get w d) K ->
  pgx_marks2 (pg_put w d (pd_with_store (pg_get w d) (fst (pg_alloc (pd_store (pg_get w d)) c)))) = pgx_marks2 w /\
  pgx_W (pg_put w d (pd_with_store (pg_get w d) (fst (pg_alloc (pd_store (pg_get w d)) c)))).
Proof.
  intros w d c K HW Hst. pose proof (pgx_st_flat _ _ Hst) as Hf. pose proof (pgx_flat_alloc _ K c Hf) as Hf'.
  split.
  - apply pgx_marks2_put_same. eapply pgx_marks_sim; [exact Hf|exact Hf'|apply pgx_sim_alloc].
  - eapply pgx_W_put; [exact HW|apply pgx_st_store; eassumption].
Qed.

Lemma pgx_root_pages_of_sim : forall p p1 pn, pgx_sim (pd_store p) (pd_store p1) -> pd_root p1 = pd_root p ->
  pg_root_pages p = PvRef pn -> pg_root_pages p1 = PvRef pn.
Proof.
  intros p p1 pn Hs Hr E. pose proof (pgx_root_pages_sim p (pd_store p1) Hs pn E) as H. unfold pg_root_pages in *.
  cbn [pd_store pd_root pd_with_store] in H. rewrite Hr. exact H.
Qed.

(* an insertion made after the lazy part of the same call (findPage / getAllPages) has run *)
Lemma pgx_step_insert_after : forall w d h n K p1,
  pgx_W w -> pgx_st (pg_get w d) K -> pgx_st p1 K -> pgx_sim (pd_store (pg_get w d)) (pd_store p1) -> pd_root p1 = pd_root (pg_get w d) ->
  pgx_operand_ok w d h -> (n <= length K)%nat ->
  let '(w', e) := pg_insert (pg_put w d p1) d h (Z.of_nat n) in
  let '(s', raise_) := pg_spec_step (pgx_marks2 w) (if pg_insertable w d h then SpInsert d n (pg_operand_mark w h) else SpInvalid) in
  pgx_marks2 w' = s' /\ pg_is_err (pg_res_of e) = raise_ /\ pgx_W w'.
Proof.
  intros w d h n K p1 HW Hst Hst1 Hsim Hr Hop Hn.
  destruct (pgx_st_flat _ _ Hst) as (pn & dn & Hroot & _).
  destruct (pgx_operand_sim w d h p1 Hop Hsim Hr) as (Hop1 & Hins1 & Hmk1).
  { intros pn0 E. eapply pgx_root_pages_of_sim; eassumption. } { exists pn. exact Hroot. }
  assert (HW1 : pgx_W (pg_put w d p1)) by (eapply pgx_W_put; eassumption).
  assert (Hst1' : pgx_st (pg_get (pg_put w d p1) d) K) by (rewrite pg_get_put_same; exact Hst1).
  pose proof (pgx_step_insert (pg_put w d p1) d h n K HW1 Hst1' Hop1 Hn) as H.
  rewrite Hins1, Hmk1 in H.
  assert (pgx_marks2 (pg_put w d p1) = pgx_marks2 w) as Hm by (apply pgx_marks2_put_same; eapply pgx_marks_st_sim; eassumption).
  rewrite Hm in H. exact H.
Qed.

Lemma pgx_step_refines : forall w o, pgx_W w -> pgx_adm w o ->
  let '(w', r) := pg_step w o in
  let '(s', raise_) := pg_spec_step (pgx_marks2 w) (pgx_abs w o) in
  pgx_marks2 w' = s' /\ pg_is_err r = raise_ /\ pgx_W w'.
Proof.
  intros w o HW Ha. destruct o as [d h first|d h first|d h before r|d h|d i|d h|d i v|d i j|d|d|d|d i|d v|d i h|d i];
    cbn [pgx_adm] in Ha; destruct (pgx_W_get w d HW) as [K Hst]; pose proof (pgx_st_flat _ _ Hst) as Hf;
    pose proof (pgx_K_flat _ _ Hf) as HK.
  - (* addPage *)
    cbn [pg_step pgx_abs]. rewrite HK. destruct first.
    + pose proof (pgx_step_insert w d h O K HW Hst Ha ltac:(lia)) as H. cbn [Z.of_nat] in H.
      destruct (pg_insert w d h 0) as [w' e]. exact H.
    + rewrite (pgx_count_st _ K Hf). unfold pg_len.
      pose proof (pgx_step_insert w d h (length K) K HW Hst Ha ltac:(lia)) as H.
      destruct (pg_insert w d h (Z.of_nat (length K))) as [w' e]. exact H.
  - (* QPDFPageDocumentHelper::addPage *)
    cbn [pg_step pgx_abs]. rewrite HK. destruct first.
    + pose proof (pgx_step_insert w d h O K HW Hst Ha ltac:(lia)) as H. cbn [Z.of_nat] in H.
      destruct (pg_insert w d h 0) as [w' e]. exact H.
    + destruct (pgx_all_st _ K Hst) as (p1 & Eall & Hst1 & Hall1 & Hsim & Hr1). rewrite Eall. cbv iota beta.
      rewrite Hall1. unfold pg_len.
      pose proof (pgx_step_insert_after w d h (length K) K p1 HW Hst Hst1 Hsim Hr1 Ha ltac:(lia)) as H.
      destruct (pg_insert (pg_put w d p1) d h (Z.of_nat (length K))) as [w' e]. exact H.
  - (* addPageAt *)
    cbn [pg_step pgx_abs]. rewrite HK.
    destruct (pg_foreign_handle w d r); [cbn; split; [reflexivity|]; split; [reflexivity|exact HW]|].
    destruct (pgx_find_st _ K (pg_og_of w r) Hst) as (p1 & Efind & Hst1 & Hall1 & Hinv1 & Hsim & Hr1). rewrite Efind.
    destruct (pg_index K (pg_og_of w r)) as [k|] eqn:E.
    + cbv iota beta. pose proof (pg_index_lt _ _ _ E) as Hlt. destruct before.
      * pose proof (pgx_step_insert_after w d h k K p1 HW Hst Hst1 Hsim Hr1 Ha ltac:(lia)) as H.
        destruct (pg_insert (pg_put w d p1) d h (Z.of_nat k)) as [w' e]. exact H.
      * pose proof (pgx_step_insert_after w d h (S k) K p1 HW Hst Hst1 Hsim Hr1 Ha ltac:(lia)) as H.
        replace (Z.of_nat k + 1)%Z with (Z.of_nat (S k)) by lia.
        destruct (pg_insert (pg_put w d p1) d h (Z.of_nat (S k))) as [w' e]. exact H.
    + cbn. split; [apply pgx_marks2_put_same; eapply pgx_marks_st_sim; eassumption|]. split; [reflexivity|eapply pgx_W_put; eassumption].
  - (* removePage *)
    cbn [pg_step pgx_abs]. rewrite HK.
    destruct (pg_foreign_handle w d h); [cbn; split; [reflexivity|]; split; [reflexivity|exact HW]|].
    pose proof (pgx_erase_ok w d (pg_og_of w h) K Hst) as H.
    destruct (pg_index K (pg_og_of w h)) as [k|] eqn:E.
    + destruct H as (p' & Erun & Hst' & Hmk). rewrite Erun. cbn [pg_res_of pg_is_err pg_spec_step].
      rewrite pgx_marks2_sel, (pgx_marks_length _ K Hf).
      assert (Nat.ltb k (length K) = true) as -> by (apply Nat.ltb_lt; eapply pg_index_lt, E).
      rewrite pgx_marks2_put, Hmk. split; [reflexivity|]. split; [reflexivity|eapply pgx_W_put; eassumption].
    + destruct H as (p' & Erun & Hst' & Hmk). rewrite Erun. cbn.
      split; [apply pgx_marks2_put_same; exact Hmk|]. split; [reflexivity|eapply pgx_W_put; eassumption].
  - (* shallowCopyPage *)
    destruct Ha as [v Hv]. cbn [pg_step pgx_abs pg_spec_step]. rewrite Hv.
    change (let '(s, j) := pg_alloc (pd_store (pg_get w d)) (PcObj v) in (pg_put w d (pd_with_store (pg_get w d) s), PrId j))
      with (pg_put w d (pd_with_store (pg_get w d) (fst (pg_alloc (pd_store (pg_get w d)) (PcObj v)))), PrId (pg_next_id (pd_store (pg_get w d)))).
    cbv iota beta. destruct (pgx_step_alloc w d (PcObj v) K HW Hst) as [Hm HW']. split; [exact Hm|]. split; [reflexivity|exact HW'].
  - (* copyForeignObject: in this file only the calls that are rejected *)
    cbn [pg_step pgx_abs]. destruct (pg_norm w h) as [v|b i]; [cbn; split; [reflexivity|]; split; [reflexivity|exact HW]|].
    subst b. rewrite Bool.eqb_reflx. cbn. split; [reflexivity|]. split; [reflexivity|exact HW].
  - (* replaceObject *)
    destruct Ha as [Hnn Hpl]. rewrite HK in Hpl. cbn [pg_step pgx_abs]. rewrite HK.
    set (p := pg_get w d) in *. set (s' := pg_supd (pd_store p) i (PcObj v)).
    assert (Hf' : pgx_flat (pd_with_store p s') K) by (apply pgx_flat_supd; [exact Hf|exact Hnn|exact Hpl]).
    destruct (pgx_marks_store p K s' Hf Hf') as [Hm' Hm].
    assert (HW' : pgx_W (pg_put w d (pd_with_store p s'))) by (eapply pgx_W_put; [exact HW|apply pgx_st_store; eassumption]).
    assert (Hl : forall j, pg_lookup s' j = if j =? i then Some (PcObj v) else pg_lookup (pd_store p) j) by (intros; apply pg_lookup_supd).
    assert (Hfm : forall j, j <> i -> pg_mark s' j = pg_mark (pd_store p) j).
    { intros j Hj. apply pg_mark_ext. rewrite Hl. apply N.eqb_neq in Hj. rewrite Hj. reflexivity. }
    assert (Hmi : pg_mark s' i = pg_val_mark v) by (apply pg_mark_obj; rewrite Hl, N.eqb_refl; reflexivity).
    assert (Hnd : NoDup K) by (destruct Hf as (? & ? & _ & _ & _ & _ & _ & _ & _ & _ & Hnd & _); exact Hnd).
    destruct (pg_index K i) as [k|] eqn:E; cbn [pg_spec_step].
    + rewrite pgx_marks2_sel. fold p. rewrite (pgx_marks_length p K Hf).
      assert (Nat.ltb k (length K) = true) as -> by (apply Nat.ltb_lt; eapply pg_index_lt, E).
      rewrite pgx_marks2_put. split; [|split; [reflexivity|exact HW']].
      f_equal. rewrite Hm', Hm, <- Hmi. apply pg_map_update; assumption.
    + split; [|split; [reflexivity|exact HW']]. apply pgx_marks2_put_same. fold p. rewrite Hm', Hm.
      eapply pg_map_same; [apply pg_index_none, E|exact Hfm].
  - (* swapObjects *)
    destruct Ha as (Hni & Hnj & ci & cj & Eci & Ecj & Hpi & Hpj). rewrite HK in Hpi, Hpj. cbn [pg_step pgx_abs]. rewrite HK.
    set (p := pg_get w d) in *. rewrite Eci, Ecj.
    set (s1 := pg_supd (pd_store p) i cj). set (s' := pg_supd s1 j ci).
    assert (Hl1 : forall x, pg_lookup s1 x = if x =? i then Some cj else pg_lookup (pd_store p) x) by (intros; apply pg_lookup_supd).
    assert (Hl : forall x, pg_lookup s' x = if x =? j then Some ci else pg_lookup s1 x) by (intros; apply pg_lookup_supd).
    assert (Hf1 : pgx_flat (pd_with_store p s1) K) by (apply pgx_flat_supd; assumption).
    assert (Hf' : pgx_flat (pd_with_store p s') K).
    { change (pd_with_store p s') with (pd_with_store (pd_with_store p s1) (pg_supd (pd_store (pd_with_store p s1)) j ci)).
      apply pgx_flat_supd; [exact Hf1| |].
      - destruct Hnj as [A B]. split; [exact A|]. destruct Hf as (pn & dn & Hroot & _). destruct Hf1 as (pn1 & dn1 & Hroot1 & _).
        intros E. apply B. rewrite Hroot. rewrite Hroot1 in E. rewrite <- E. f_equal.
        destruct Hni as [A' B']. unfold pg_root_pages, pg_hget in Hroot, Hroot1. cbn [pd_store pd_root pd_with_store pg_rv] in Hroot, Hroot1.
        rewrite Hl1 in Hroot1. assert (pd_root p =? i = false) as Hb by (apply N.eqb_neq; congruence). rewrite Hb in Hroot1.
        rewrite Hroot in Hroot1. inversion Hroot1. reflexivity.
      - intros Hin. destruct (N.eq_dec i j) as [->|Hij]; [|exact (Hpj Hin)].
        rewrite Eci in Ecj. inversion Ecj. subst cj. exact (Hpi Hin). }
    destruct (pgx_marks_store p K s' Hf Hf') as [Hm' Hm].
    assert (HW' : pgx_W (pg_put w d (pd_with_store p s'))) by (eapply pgx_W_put; [exact HW|apply pgx_st_store; eassumption]).
    assert (Hnd : NoDup K) by (destruct Hf as (? & ? & _ & _ & _ & _ & _ & _ & _ & _ & Hnd & _); exact Hnd).
    set (f := pg_mark (pd_store p)) in *. set (f1 := pg_mark s1). set (f' := pg_mark s') in *.
    assert (Hf1m : forall x, x <> i -> f1 x = f x).
    { intros x Hx. apply pg_mark_ext. rewrite Hl1. apply N.eqb_neq in Hx. rewrite Hx. reflexivity. }
    assert (Hf1i : f1 i = f j).
    { unfold f1, f, pg_mark, pg_marker, pg_hget, pg_rv. rewrite Hl1, N.eqb_refl, Ecj. reflexivity. }
    assert (Hf'm : forall x, x <> j -> f' x = f1 x).
    { intros x Hx. apply pg_mark_ext. rewrite Hl. apply N.eqb_neq in Hx. rewrite Hx. reflexivity. }
    assert (Hf'j : f' j = f i).
    { unfold f', f, pg_mark, pg_marker, pg_hget, pg_rv. rewrite Hl, N.eqb_refl, Eci. reflexivity. }
    rewrite pgx_marks2_put, Hm'.
    destruct (pg_index K i) as [a|] eqn:Ea; destruct (pg_index K j) as [b|] eqn:Eb; cbn [pg_spec_step].
    + rewrite pgx_marks2_sel. fold p. rewrite (pgx_marks_length p K Hf).
      assert (Nat.ltb a (length K) = true) as -> by (apply Nat.ltb_lt; eapply pg_index_lt, Ea).
      assert (Nat.ltb b (length K) = true) as -> by (apply Nat.ltb_lt; eapply pg_index_lt, Eb).
      cbn [andb]. split; [|split; [reflexivity|exact HW']]. f_equal. rewrite Hm.
      rewrite (pg_nth_map_index f _ _ _ Ea), (pg_nth_map_index f _ _ _ Eb).
      rewrite (pg_map_update f1 f' K j b Hnd Eb Hf'm), Hf'j.
      rewrite (pg_map_update f f1 K i a Hnd Ea Hf1m), Hf1i. reflexivity.
    + rewrite pgx_marks2_sel. fold p. rewrite (pgx_marks_length p K Hf).
      assert (Nat.ltb a (length K) = true) as -> by (apply Nat.ltb_lt; eapply pg_index_lt, Ea).
      split; [|split; [reflexivity|exact HW']]. f_equal. rewrite Hm.
      rewrite (pg_map_same f1 f' K j (proj1 (pg_index_none _ _) Eb) Hf'm).
      rewrite (pg_map_update f f1 K i a Hnd Ea Hf1m), Hf1i. reflexivity.
    + rewrite pgx_marks2_sel. fold p. rewrite (pgx_marks_length p K Hf).
      assert (Nat.ltb b (length K) = true) as -> by (apply Nat.ltb_lt; eapply pg_index_lt, Eb).
      split; [|split; [reflexivity|exact HW']]. f_equal. rewrite Hm.
      rewrite (pg_map_update f1 f' K j b Hnd Eb Hf'm), Hf'j.
      rewrite (pg_map_same f f1 K i (proj1 (pg_index_none _ _) Ea) Hf1m). reflexivity.
    + split; [|split; [reflexivity|exact HW']].
      rewrite <- (pg_put_get w d) at 2. rewrite pgx_marks2_put. f_equal. fold p. rewrite Hm.
      rewrite (pg_map_same f1 f' K j (proj1 (pg_index_none _ _) Eb) Hf'm).
      apply (pg_map_same f f1 K i (proj1 (pg_index_none _ _) Ea) Hf1m).
  - (* updateAllPagesCache *)
    cbn [pg_step pgx_abs pg_spec_step]. destruct (pgx_refresh_st _ K Hst) as (p1 & E1 & Hst1 & Hsim). rewrite E1. cbn.
    split; [apply pgx_marks2_put_same; eapply pgx_marks_st_sim; eassumption|]. split; [reflexivity|eapply pgx_W_put; eassumption].
  - (* pushInheritedAttributesToPage *)
    cbn [pg_step pgx_abs pg_spec_step]. destruct (pgx_push_st _ K Hst) as (p1 & E1 & Hst1 & Hsim). rewrite E1. cbn.
    split; [apply pgx_marks2_put_same; eapply pgx_marks_st_sim; eassumption|]. split; [reflexivity|eapply pgx_W_put; eassumption].
  - (* getAllPages *)
    cbn [pg_step pgx_abs pg_spec_step]. destruct (pgx_all_st _ K Hst) as (p1 & E1 & Hst1 & _ & Hsim & _). rewrite E1. cbn.
    split; [apply pgx_marks2_put_same; eapply pgx_marks_st_sim; eassumption|]. split; [reflexivity|eapply pgx_W_put; eassumption].
  - (* findPage *)
    cbn [pg_step pgx_abs]. rewrite HK. destruct (pgx_find_st _ K i Hst) as (p1 & E1 & Hst1 & _ & _ & Hsim & _). rewrite E1.
    destruct (pg_index K i); cbn; (split; [apply pgx_marks2_put_same; eapply pgx_marks_st_sim; eassumption|]; split; [reflexivity|eapply pgx_W_put; eassumption]).
  - (* makeIndirectObject *)
    cbn [pg_step pgx_abs pg_spec_step].
    change (let '(s, j) := pg_alloc (pd_store (pg_get w d)) (PcObj v) in (pg_put w d (pd_with_store (pg_get w d) s), PrId j))
      with (pg_put w d (pd_with_store (pg_get w d) (fst (pg_alloc (pd_store (pg_get w d)) (PcObj v)))), PrId (pg_next_id (pd_store (pg_get w d)))).
    cbv iota beta. destruct (pgx_step_alloc w d (PcObj v) K HW Hst) as [Hm HW']. split; [exact Hm|]. split; [reflexivity|exact HW'].
  - (* replaceObject with an indirect handle *)
    cbn [pg_step pgx_abs]. rewrite HK. destruct (pg_norm w h) as [v|b j] eqn:En.
    + destruct Ha as [Hnn Hpl]. rewrite HK in Hpl.
      set (p := pg_get w d) in *. set (s' := pg_supd (pd_store p) i (PcObj v)).
      assert (Hf' : pgx_flat (pd_with_store p s') K) by (apply pgx_flat_supd; [exact Hf|exact Hnn|exact Hpl]).
      destruct (pgx_marks_store p K s' Hf Hf') as [Hm' Hm].
      assert (HW' : pgx_W (pg_put w d (pd_with_store p s'))) by (eapply pgx_W_put; [exact HW|apply pgx_st_store; eassumption]).
      assert (Hl : forall j, pg_lookup s' j = if j =? i then Some (PcObj v) else pg_lookup (pd_store p) j) by (intros; apply pg_lookup_supd).
      assert (Hfm : forall j, j <> i -> pg_mark s' j = pg_mark (pd_store p) j).
      { intros j Hj. apply pg_mark_ext. rewrite Hl. apply N.eqb_neq in Hj. rewrite Hj. reflexivity. }
      assert (Hmi : pg_mark s' i = pg_val_mark v) by (apply pg_mark_obj; rewrite Hl, N.eqb_refl; reflexivity).
      assert (Hnd : NoDup K) by (destruct Hf as (? & ? & _ & _ & _ & _ & _ & _ & _ & _ & Hnd & _); exact Hnd).
      destruct (pg_index K i) as [k|] eqn:E; cbn [pg_spec_step].
      * rewrite pgx_marks2_sel. fold p. rewrite (pgx_marks_length p K Hf).
        assert (Nat.ltb k (length K) = true) as -> by (apply Nat.ltb_lt; eapply pg_index_lt, E).
        rewrite pgx_marks2_put. split; [|split; [reflexivity|exact HW']].
        f_equal. rewrite Hm', Hm, <- Hmi. apply pg_map_update; assumption.
      * split; [|split; [reflexivity|exact HW']]. apply pgx_marks2_put_same. fold p. rewrite Hm', Hm.
        eapply pg_map_same; [apply pg_index_none, E|exact Hfm].
    + rewrite Ha. cbn. split; [reflexivity|]. split; [reflexivity|exact HW].
  - (* replaceObject with a reserved object *)
    cbn [pg_step pgx_abs pg_spec_step].
    change (let '(s, _) := pg_alloc (pd_store (pg_get w d)) (PcObj PvNull) in (pg_put w d (pd_with_store (pg_get w d) s), PrErr PeLogic))
      with (pg_put w d (pd_with_store (pg_get w d) (fst (pg_alloc (pd_store (pg_get w d)) (PcObj PvNull)))), PrErr PeLogic).
    destruct (pgx_step_alloc w d (PcObj PvNull) K HW Hst) as [Hm HW']. split; [exact Hm|]. split; [reflexivity|exact HW'].
Qed.
