(* C19 - specification, extended to EVERY option table of job.yml: what a job over the main table AND the nested tables
   pages, overlay / underlay, add-attachment, copy-attachments-from, set-page-labels (global and encrypt are in Sys/JobSpec.v) MEANS,
   independently of any front end, and how it is written down in the two notations.
   Written from the manual (manual/qpdf-job.rst, table "QPDFJob Interfaces" and the section "JSON Job": "options that can be repeated
   are arrays; options that introduce their own option table (--pages, --overlay, --underlay, --add-attachment,
   --copy-attachments-from) are dictionaries (arrays of dictionaries when repeatable) whose keys are the camel-cased options of that
   table, a positional file being the key "file""; manual/cli.rst "Overlay and Underlay": --overlay file [options] -- ;
   "Embedded Files/Attachments": --add-attachment file [options] -- , --copy-attachments-from file [options] -- ;
   "Page Labels": --set-page-labels label-spec ... --):

        --overlay f --to=r --               "overlay": [{"file": f, "to": r}]                config()->overlay()->file(f)->to(r)->endUnderlayOverlay()
        --add-attachment f --key=k --       "addAttachment": [{"file": f, "key": k}]         config()->addAttachment()->file(f)->key(k)->endAddAttachment()
        --copy-attachments-from f --        "copyAttachmentsFrom": [{"file": f}]             config()->copyAttachmentsFrom()->file(f)->endCopyAttachmentsFrom()
        --set-page-labels a b --            "setPageLabels": [a, b]                          config()->setPageLabels({a, b})
        --pages ... --                      "pages": [...]                                   Sys/JobPagesSpec.v

   The file of an overlay / underlay may be written positionally or as --file=f (rendering style `named`, as for --pages).
   This file does not mention the parser, the handler tree or the option tables' lookup functions.  No proofs here. *)
From Coq Require Import String.
From Coq Require Import List NArith Bool.
From QV Require Import Base.Bytes Sys.JobTypes Sys.JobTableSpec Sys.JobSpec Sys.JobPagesSpec.
Import ListNotations.
Open Scope N_scope.

(* a word between the opening option of a nested table and its "--": an option of that table with its value, or the file *)
Inductive xj_word := XjOpt (e : aentry) (v : bstr) | XjFile (f : bstr).

(* one --overlay / --underlay block: the file, then options of the table "underlay/overlay" *)
Record xj_uospec := mk_xj_uospec { xj_uo_file : bstr; xj_uo_opts : list (aentry * bstr) }.

Inductive xj_item :=
| XjBase (it : item)                          (* everything of Sys/JobSpec.v: main options, files, --global, --encrypt *)
| XjPages (l : list pgspec)                   (* --pages ... -- / "pages": [...] *)
| XjOverlay (l : list xj_uospec)              (* --overlay ... -- repeated / "overlay": [...] *)
| XjUnderlay (l : list xj_uospec)
| XjAddAtt (l : list (list xj_word))          (* --add-attachment ... -- repeated / "addAttachment": [...] *)
| XjCopyAtt (l : list (list xj_word))         (* --copy-attachments-from ... -- repeated / "copyAttachmentsFrom": [...] *)
| XjLabels (l : list bstr).                   (* --set-page-labels w ... -- / "setPageLabels": [w, ...] *)

(* ---- third column *)
Definition xj_word_denote (obj : bstr) (w : xj_word) : option cfg_call :=
  match w with
  | XjOpt e v => opt_denote e v
  | XjFile f => Some (CCall obj B"file" [f])
  end.

(* the calls of the words of one block, in the order given, up to the first unacceptable value *)
Fixpoint xj_words_denote (obj : bstr) (l : list xj_word) : list cfg_call * bool :=
  match l with
  | [] => ([], true)
  | w :: r => match xj_word_denote obj w with
              | None => ([], false)
              | Some c => let (cs, ok) := xj_words_denote obj r in (c :: cs, ok)
              end
  end.

(* one block: the call that opens the nested configuration, its words, the call that closes it (when all words were acceptable) *)
Definition xj_block (beginc : cfg_call) (body : list cfg_call * bool) (endc : cfg_call) : list cfg_call * bool :=
  (beginc :: fst body ++ (if snd body then [endc] else []), snd body).

(* things given one after the other: the calls of each, up to and including the first unacceptable one *)
Fixpoint xj_seq {A : Type} (f : A -> list cfg_call * bool) (l : list A) : list cfg_call * bool :=
  match l with
  | [] => ([], true)
  | x :: r => let (cs, ok) := f x in
              if ok then let (cs2, ok2) := xj_seq f r in (cs ++ cs2, ok2) else (cs, false)
  end.

Definition xj_uo_words (u : xj_uospec) : list xj_word :=
  XjFile (xj_uo_file u) :: map (fun p => XjOpt (fst p) (snd p)) (xj_uo_opts u).

Definition xj_uo_denote (meth : bstr) (u : xj_uospec) : list cfg_call * bool :=
  xj_block (CCall B"c_main" meth []) (xj_words_denote B"c_uo" (xj_uo_words u)) (CCall B"c_uo" B"endUnderlayOverlay" []).
Definition xj_att_denote (ws : list xj_word) : list cfg_call * bool :=
  xj_block (CCall B"c_main" B"addAttachment" []) (xj_words_denote B"c_att" ws) (CCall B"c_att" B"endAddAttachment" []).
Definition xj_copyatt_denote (ws : list xj_word) : list cfg_call * bool :=
  xj_block (CCall B"c_main" B"copyAttachmentsFrom" []) (xj_words_denote B"c_copy_att" ws)
           (CCall B"c_copy_att" B"endCopyAttachmentsFrom" []).

Definition xj_denote_item (it : xj_item) : list cfg_call * bool :=
  match it with
  | XjBase b => denote_item b
  | XjPages l => (pages_denote l, true)
  | XjOverlay l => xj_seq (xj_uo_denote B"overlay") l
  | XjUnderlay l => xj_seq (xj_uo_denote B"underlay") l
  | XjAddAtt l => xj_seq xj_att_denote l
  | XjCopyAtt l => xj_seq xj_copyatt_denote l
  | XjLabels l => ([CCall B"c_main" B"setPageLabels" l], true)
  end.

Definition xj_denote_items (j : list xj_item) : list cfg_call * bool := xj_seq xj_denote_item j.

(* a complete job ends with the consistency check *)
Definition xj_denote_job (j : list xj_item) : list cfg_call * bool :=
  let (cs, ok) := xj_denote_items j in
  if ok then (cs ++ [CCall B"c_main" B"checkConfiguration" []], true) else (cs, false).

(* ---- first column: command-line words.  named: files of --pages / --overlay / --underlay written as --file=f *)
Definition xj_word_argv (w : xj_word) : bstr :=
  match w with XjOpt e v => word_of e v | XjFile f => f end.

Definition xj_uo_argv (named : bool) (flag : bstr) (u : xj_uospec) : list bstr :=
  (B"--" ++ flag) :: (if named then B"--file=" ++ xj_uo_file u else xj_uo_file u) ::
  map (fun p => word_of (fst p) (snd p)) (xj_uo_opts u) ++ [B"--"].
Definition xj_block_argv (flag : bstr) (ws : list xj_word) : list bstr :=
  (B"--" ++ flag) :: map xj_word_argv ws ++ [B"--"].

Definition xj_argv_of_item (named : bool) (it : xj_item) : list bstr :=
  match it with
  | XjBase b => argv_of_item b
  | XjPages l => pages_argv named l
  | XjOverlay l => flat_map (xj_uo_argv named B"overlay") l
  | XjUnderlay l => flat_map (xj_uo_argv named B"underlay") l
  | XjAddAtt l => flat_map (xj_block_argv B"add-attachment") l
  | XjCopyAtt l => flat_map (xj_block_argv B"copy-attachments-from") l
  | XjLabels l => B"--set-page-labels" :: l ++ [B"--"]
  end.
Definition xj_render_argv (named : bool) (j : list xj_item) : list bstr := flat_map (xj_argv_of_item named) j.

(* ---- second column: job JSON members *)
Definition xj_word_member (w : xj_word) : bstr * jjv :=
  match w with XjOpt e v => (camel (ae_flag e), JJStr v) | XjFile f => (B"file", JJStr f) end.
Definition xj_block_json (ws : list xj_word) : jjv := JJObj (map xj_word_member ws).
Definition xj_uo_json (u : xj_uospec) : jjv := xj_block_json (xj_uo_words u).

Definition xj_json_of_item (it : xj_item) : bstr * jjv :=
  match it with
  | XjBase b => json_of_item b
  | XjPages l => pages_json l
  | XjOverlay l => (B"overlay", JJArr (map xj_uo_json l))
  | XjUnderlay l => (B"underlay", JJArr (map xj_uo_json l))
  | XjAddAtt l => (B"addAttachment", JJArr (map xj_block_json l))
  | XjCopyAtt l => (B"copyAttachmentsFrom", JJArr (map xj_block_json l))
  | XjLabels l => (B"setPageLabels", JJArr (map JJStr l))
  end.
Definition xj_render_json (j : list xj_item) : jjv := JJObj (map xj_json_of_item j).

(* ---- which jobs the statements are about *)
(* a word of the nested table `table`: an option of that table bound to a Config method, or a file that the command line reads as
   a positional word *)
Definition xj_wf_word (tbl : list aentry) (table : bstr) (w : xj_word) : Prop :=
  match w with
  | XjOpt e _ => In e tbl /\ sub_opt table e = true
  | XjFile f => positional_word f = true
  end.

(* an overlay / underlay block: its file (a positional word unless written --file=), then options other than --file *)
Definition xj_wf_uo (tbl : list aentry) (named : bool) (u : xj_uospec) : Prop :=
  (named || positional_word (xj_uo_file u)) = true /\
  Forall (fun p => In (fst p) tbl /\ sub_opt B"underlay/overlay" (fst p) = true /\ bstr_eqb (ae_flag (fst p)) B"file" = false)
         (xj_uo_opts u).

(* files: the names that exist in the working directory (consulted by the positional spelling of --pages only) *)
Definition xj_wf_item (tbl : list aentry) (files : list bstr) (named : bool) (it : xj_item) : Prop :=
  match it with
  | XjBase b => wf_item tbl b
  | XjPages l => (named || pgs_positional_ok files true false l) = true
  | XjOverlay l | XjUnderlay l => Forall (xj_wf_uo tbl named) l
  | XjAddAtt l => Forall (Forall (xj_wf_word tbl B"attachment")) l
  | XjCopyAtt l => Forall (Forall (xj_wf_word tbl B"copy-attachment")) l
  | XjLabels l => Forall (fun w => positional_word w = true) l
  end.

(* positional discipline of Sys/JobSpec.v (input before output, at most one of each), and at most one page selection per job
   (job JSON has one key "pages") *)
Fixpoint xj_wf_pos (j : list xj_item) (gi go pg : bool) : bool :=
  match j with
  | [] => true
  | XjBase b :: r => pos_ok b gi go && xj_wf_pos r (fst (pos_next b gi go)) (snd (pos_next b gi go)) pg
  | XjPages _ :: r => negb pg && xj_wf_pos r gi go true
  | _ :: r => xj_wf_pos r gi go pg
  end.

Definition xj_wf_job (tbl : list aentry) (files : list bstr) (named : bool) (j : list xj_item) : Prop :=
  Forall (xj_wf_item tbl files named) j /\ xj_wf_pos j false false false = true.

(* entries of the generated table by (table, flag): used by the harness to name the options of a job *)
Definition xj_find_entry (tbl : list aentry) (table flag : bstr) : option aentry :=
  find (fun e => bstr_eqb (ae_table e) table && bstr_eqb (ae_flag e) flag) tbl.
