#!/usr/bin/env python3
# usage: tools/resolve_merge.py <ID>   - resolves the routine conflicts of merging a per-property branch:
# evidence/<ID>.json -> theirs; known_findings.json -> union of both sides; DESIGN.md -> in conflicting table rows the
# row of <ID> from theirs and every other row from ours, other conflicts: both sides kept (ours first); then the generated
# manifest and tables are rebuilt.
import re, subprocess, sys, json
pid = sys.argv[1]
def conflicts(path):
    s = open(path).read()
    return s, list(re.finditer(r"<<<<<<< [^\n]*\n(.*?)=======\n(.*?)>>>>>>> [^\n]*\n", s, re.S))
# known_findings
s, cs = conflicts("known_findings.json")
for m in reversed(cs):
    ours, theirs = m.group(1).rstrip("\n"), m.group(2).rstrip("\n")
    if ours.strip() and theirs.strip():
        rep = ours + "\n  },\n  {\n" + theirs + "\n"
    else:
        rep = (ours or theirs) + "\n"
    s = s[:m.start()] + rep + s[m.end():]
if cs:
    json.loads(s)
    open("known_findings.json", "w").write(s)
s, cs = conflicts("DESIGN.md")
for m in reversed(cs):
    ours, theirs = m.group(1), m.group(2)
    ol, tl = ours.splitlines(), theirs.splitlines()
    if all(l.startswith("|") for l in ol + tl):
        key = lambda l: l.split("|")[1].strip()
        td = {key(l): l for l in tl}
        seen = set()
        out = []
        for l in ol:
            k = key(l); seen.add(k)
            out.append(td[k] if (k == pid or k.startswith(pid + "-") or k.startswith(pid + ":")) and k in td else l)
        for l in tl:
            if key(l) not in seen:
                out.append(l)
        rep = "\n".join(out) + "\n"
    else:
        rep = ours + theirs
    s = s[:m.start()] + rep + s[m.end():]
if cs:
    open("DESIGN.md", "w").write(s)
if pid != "NONE":
    subprocess.run(["git", "checkout", "--theirs", "evidence/%s.json" % pid])
subprocess.run(["python3-vt", "tools/gen_manifest.py"], check=True)
subprocess.run(["python3", "tools/gen_design_tables.py"], check=True)
