(* C15 extension, layer 2 (continued) and layer 3 of lzw_decode_encode: the byte-at-a-time decoder (lzw_step over
   the packed bytes) equals handleCode run over the codes, when every code is packed with the width the decoder
   reads it with; composition with layer 1 gives lzw_decode_encode for all byte strings. *)
From QV Require Import Base.Bytes Filters.Filters Filters.FilterSpec Filters.LzwSpec Filters.LzwCodes.
From Coq Require Import Lia.
From QV Require Import Filters.C15ProofsA Filters.C15ProofsB Filters.C15ProofsL Filters.C15ProofsM.
Local Open Scope N_scope.

(* ---------- handleCode only reads and writes (code_size, table, last_code, eod) ---------- *)
Lemma lzi_handle_heq : forall early s s' c, lzi_hproj s = lzi_hproj s' ->
  lzi_hproj (fst (fst (lzw_handle early s c))) = lzi_hproj (fst (fst (lzw_handle early s' c))) /\
  snd (fst (lzw_handle early s c)) = snd (fst (lzw_handle early s' c)) /\
  snd (lzw_handle early s c) = snd (lzw_handle early s' c).
Proof.
  intros early s s' c H.
  destruct s as [buf cs nc bp bit av eod tbl last]. destruct s' as [buf' cs' nc' bp' bit' av' eod' tbl' last'].
  unfold lzi_hproj in H. lzi_proj. injection H as E1 E2 E3 E4. subst cs' tbl' last' eod'.
  unfold lzw_handle. lzi_proj.
  repeat (match goal with |- context [match ?x with _ => _ end] => destruct x eqn:? end; cbn [fst snd]);
  unfold lzi_hproj; lzi_proj; repeat split; reflexivity.
Qed.

Lemma lzi_handle_ring : forall early s c,
  lz_buf (fst (fst (lzw_handle early s c))) = lz_buf s /\
  lz_next_char (fst (fst (lzw_handle early s c))) = lz_next_char s /\
  lz_byte_pos (fst (fst (lzw_handle early s c))) = lz_byte_pos s /\
  lz_bit_pos (fst (fst (lzw_handle early s c))) = lz_bit_pos s /\
  lz_bits_avail (fst (fst (lzw_handle early s c))) = lz_bits_avail s.
Proof.
  intros early s c. unfold lzw_handle.
  repeat (match goal with |- context [match ?x with _ => _ end] => destruct x eqn:? end; cbn [fst snd]);
  lzi_proj; repeat split; reflexivity.
Qed.

Lemma lzi_ring_transfer : forall s s' p a,
  lz_buf s' = lz_buf s -> lz_next_char s' = lz_next_char s -> lz_byte_pos s' = lz_byte_pos s ->
  lz_bit_pos s' = lz_bit_pos s -> lz_bits_avail s' = lz_bits_avail s ->
  lzi_wf s -> lzi_rr s p a -> lzi_wf s' /\ lzi_rr s' p a.
Proof.
  intros s s' p a E1 E2 E3 E4 E5 Hwf Hrr.
  unfold lzi_wf, lzi_rr, lzi_x0, lzi_x1, lzi_x2, ring in *. rewrite E1, E2, E3, E4, E5. split; assumption.
Qed.

Lemma lzi_cs_range : forall early s, lzw_inv early s -> 9 <= lz_code_size s <= 12.
Proof.
  intros early s [HL Hcs]. rewrite Hcs. unfold lzw_cs_of.
  repeat match goal with |- context [?a <=? ?b] => destruct (N.leb_spec a b) end; lia.
Qed.

Lemma lzi_app_split : forall (m1 l1 l2 m2 : list bool), l1 ++ l2 = m1 ++ m2 -> (length m1 <= length l1)%nat ->
  exists r, l1 = m1 ++ r /\ r ++ l2 = m2.
Proof.
  induction m1 as [|x m1 IH]; intros l1 l2 m2 H Hl.
  - exists l1. split; [reflexivity|exact H].
  - destruct l1 as [|y l1]; [cbn [length] in Hl; lia|].
    cbn [app] in H. injection H as Hxy H. subst y.
    destruct (IH l1 l2 m2 H ltac:(cbn [length] in Hl; lia)) as (r & E1 & E2).
    exists r. split; [cbn [app]; rewrite E1; reflexivity|exact E2].
Qed.

Lemma lzi_cbits_cons : forall c w r, lzi_cbits ((c, w) :: r) = lzi_bits (N.to_nat w) c ++ lzi_cbits r.
Proof. reflexivity. Qed.

Lemma lzi_valacc_0_app : forall a b, valacc 0 (a ++ b) = valacc 0 a * 2 ^ N.of_nat (length b) + valacc 0 b.
Proof. intros. rewrite valacc_app, valacc_shift. reflexivity. Qed.

(* ---------- the simulation ---------- *)
Definition lzi_R (early : bool) (s : lzw_st) (pend : list bool) : Prop :=
  lzw_inv early s /\ lzi_wf s /\ lzi_rr s (valacc 0 pend) (lenNb pend) /\ lenNb pend < lz_code_size s.

Lemma lzi_dec_sim : forall early B s pend cws tail s0,
  lzi_R early s pend -> bytes_ok B ->
  pend ++ bits_of_bytes B = lzi_cbits cws ++ tail -> (length tail < 9)%nat ->
  lzi_hproj s0 = lzi_hproj s -> lzi_widths_ok early s0 cws ->
  snd (fst (write_bytes (lzw_step early) s B)) = snd (fst (lzi_hrun early s0 cws)) /\
  snd (write_bytes (lzw_step early) s B) = snd (lzi_hrun early s0 cws) /\
  (snd (write_bytes (lzw_step early) s B) = false ->
   lzi_hproj (fst (fst (write_bytes (lzw_step early) s B))) = lzi_hproj (fst (fst (lzi_hrun early s0 cws)))).
Proof.
  induction B as [|b t IH]; intros s pend cws tail s0 (Hinv & Hwf & Hrr & Hlt) Hok Hbits Htail Hproj Hw.
  - cbn [write_bytes fst snd]. destruct cws as [|[c w] r]; [split; [reflexivity|split; [reflexivity|intros _; symmetry; exact Hproj]]|].
    exfalso. destruct Hw as (Ew & _ & _).
    assert (Ecs : lz_code_size s0 = lz_code_size s) by (unfold lzi_hproj in Hproj; congruence).
    apply (f_equal (@length bool)) in Hbits.
    cbn [bits_of_bytes map concat] in Hbits. rewrite app_nil_r, lzi_cbits_cons, !app_length, lzi_bits_length in Hbits.
    unfold lenNb in Hlt. lia.
  - apply bytes_ok_cons_inv in Hok. destruct Hok as [Hb Hok].
    assert (Hcsr : 9 <= lz_code_size s <= 12) by (eapply lzi_cs_range; exact Hinv).
    assert (Ecs : lz_code_size s0 = lz_code_size s) by (unfold lzi_hproj in Hproj; congruence).
    set (pend' := pend ++ lzi_bits 8 b).
    assert (Hlen' : lenNb pend' = lenNb pend + 8).
    { unfold pend', lenNb. rewrite app_length, lzi_bits_length. lia. }
    assert (Hval' : valacc 0 pend' = valacc 0 pend * 256 + b).
    { unfold pend'. rewrite lzi_valacc_0_app, lzi_bits_length, lzi_val_bits. change (2 ^ N.of_nat 8) with 256.
      rewrite N.mod_small by exact Hb. reflexivity. }
    destruct (lzi_put_rr s b (valacc 0 pend) (lenNb pend) Hwf Hrr ltac:(lia) Hb) as [Hwf1 Hrr1].
    rewrite <- Hval', <- Hlen' in Hrr1.
    assert (Hbits' : pend' ++ bits_of_bytes t = lzi_cbits cws ++ tail).
    { unfold pend'. rewrite <- app_assoc. rewrite <- lzi_bits_of_bytes_cons. exact Hbits. }
    assert (Hav : lz_bits_avail s = lenNb pend) by (destruct Hrr as [E _]; exact E).
    cbn [write_bytes]. rewrite lzi_step_put. rewrite Hav.
    destruct (N.leb_spec (lz_code_size s) (lenNb pend + 8)) as [Esend|Esend].
    + (* a whole code is available *)
      destruct cws as [|[c w] r].
      { exfalso. cbn [lzi_cbits flat_map app] in Hbits'. subst tail.
        rewrite app_length in Htail. unfold lenNb in *. lia. }
      destruct Hw as (Ew & Hcw & Hwr). rewrite Ecs in Ew. subst w.
      rewrite lzi_cbits_cons, <- app_assoc in Hbits'.
      destruct (lzi_app_split _ _ _ _ Hbits') as (R' & EP & ER).
      { rewrite lzi_bits_length. unfold lenNb in *. lia. }
      assert (HlenR : lenNb R' = lenNb pend + 8 - lz_code_size s).
      { apply (f_equal (@length bool)) in EP. rewrite app_length, lzi_bits_length in EP. unfold lenNb in *. lia. }
      assert (HvalP : valacc 0 pend' = c * 2 ^ lenNb R' + valacc 0 R').
      { rewrite EP, lzi_valacc_0_app, lzi_val_bits, N2Nat.id. rewrite N.mod_small by exact Hcw. reflexivity. }
      assert (HR'lt : valacc 0 R' < 2 ^ lenNb R').
      { pose proof (lzi_valacc_bound R' 0) as Hbd. unfold lenNb. lia. }
      assert (Hp0 : 2 ^ lenNb R' <> 0) by (apply N.pow_nonzero; lia).
      destruct (lzi_send_rr (lzi_put s b) _ _ Hwf1 Hrr1) as (Hcode & Hwf2 & Hrr2).
      { exact Hcsr. } { cbn [lzi_put lz_code_size]. lia. } { cbn [lzi_put lz_code_size]. unfold lenNb in *. lia. }
      cbn [lzi_put lz_code_size] in Hcode, Hrr2. fold (lzi_put s b) in Hcode, Hrr2.
      replace (lenNb pend' - lz_code_size s) with (lenNb R') in Hcode, Hrr2 by lia.
      rewrite HvalP in Hcode, Hrr2.
      rewrite N.div_add_l, N.div_small, N.add_0_r in Hcode by assumption.
      rewrite N.add_comm, N.mod_add, N.mod_small in Hrr2 by assumption.
      rewrite lzi_send_eq. cbn [lzi_put lz_code_size lz_bit_pos] in Hcode |- *. fold (lzi_put s b) in Hcode |- *.
      rewrite Hcode.
      set (s2 := lzi_after_send (lzi_put s b)) in *.
      assert (Hproj2 : lzi_hproj s2 = lzi_hproj s0) by (rewrite Hproj; reflexivity).
      destruct (lzi_handle_heq early s2 s0 c Hproj2) as (Hp3 & Ho & He).
      assert (Hinv2 : lzw_inv early s2) by exact Hinv.
      pose proof (lzw_handle_inv early s2 c Hinv2) as Hinv3.
      destruct (lzi_handle_ring early s2 c) as (R1 & R2 & R3 & R4 & R5).
      destruct (lzi_ring_transfer s2 _ _ _ R1 R2 R3 R4 R5 Hwf2 Hrr2) as [Hwf3 Hrr3].
      cbn [lzi_hrun]. cbn [fst snd] in Hwr.
      destruct (lzw_handle early s2 c) as [[s3 o1] e1]. destruct (lzw_handle early s0 c) as [[s0' o1'] e1'].
      cbn [fst snd] in *. subst o1' e1'.
      destruct e1; [split; [reflexivity|split; [reflexivity|intros Hd; discriminate Hd]]|].
      assert (HR3 : lzi_R early s3 R').
      { split; [exact Hinv3|]. split; [exact Hwf3|]. split; [exact Hrr3|]. pose proof (lzi_cs_range early s3 Hinv3). lia. }
      destruct (IH s3 R' r tail s0' HR3 Hok ER Htail (eq_sym Hp3) (Hwr eq_refl)) as (IH1 & IH2 & IH3).
      destruct (write_bytes (lzw_step early) s3 t) as [[s4 o2] e2]. destruct (lzi_hrun early s0' r) as [[s5 o2'] e2'].
      cbn [fst snd] in *. subst. split; [reflexivity|split; [reflexivity|exact IH3]].
    + (* not yet: the byte is buffered *)
      assert (HR1 : lzi_R early (lzi_put s b) pend').
      { split; [exact Hinv|]. split; [exact Hwf1|]. split; [exact Hrr1|]. cbn [lzi_put lz_code_size]. lia. }
      destruct (IH (lzi_put s b) pend' cws tail s0 HR1 Hok Hbits' Htail Hproj Hw) as (IH1 & IH2 & IH3).
      destruct (write_bytes (lzw_step early) (lzi_put s b) t) as [[s4 o2] e2].
      cbn [fst snd app] in *. split; [assumption|split; assumption].
Qed.

Lemma lzi_R_init : forall early, lzi_R early lzw_init [].
Proof.
  intros early. split; [|split; [|split]].
  - split; [cbn; lia|]. destruct early; reflexivity.
  - split; [|cbn; lia]. exists 0, 0, 0. cbn. repeat split; lia.
  - split; [reflexivity|]. left. repeat split.
  - cbn. lia.
Qed.

(* Layer 2 (bits): MSB-first packing of (code, width) pairs, final byte padded with zero bits, followed by the
   decoder's ring reader gives exactly handleCode over the codes - outputs and exception flag - provided each
   code was packed with the decoder's code size at that moment (lzi_widths_ok) and fits its width. *)
Lemma lzw_unpack_pack_lemma : forall early cws, Forall lzi_cw_ok cws -> lzi_widths_ok early lzw_init cws ->
  snd (fst (write_bytes (lzw_step early) lzw_init (pack_codes cws 0 0 [] 0))) = snd (fst (lzi_hrun early lzw_init cws)) /\
  snd (write_bytes (lzw_step early) lzw_init (pack_codes cws 0 0 [] 0)) = snd (lzi_hrun early lzw_init cws) /\
  (snd (write_bytes (lzw_step early) lzw_init (pack_codes cws 0 0 [] 0)) = false ->
   lzi_hproj (fst (fst (write_bytes (lzw_step early) lzw_init (pack_codes cws 0 0 [] 0))))
   = lzi_hproj (fst (fst (lzi_hrun early lzw_init cws)))).
Proof.
  intros early cws Hcw Hw.
  destruct (lzi_pack_spec cws 0 0 [] 0%nat ltac:(lia) ltac:(cbn; lia) Hcw ltac:(constructor)) as (npad & Hn & Hok & Hbits).
  cbn [rev' rev_append bits_of_bytes map concat N.to_nat bits_of_byte_fuel app] in Hbits.
  apply (lzi_dec_sim early _ lzw_init [] cws (repeat false npad) lzw_init (lzi_R_init early) Hok).
  - exact Hbits.
  - rewrite repeat_length. lia.
  - reflexivity.
  - exact Hw.
Qed.

Lemma lzi_widths_cw_ok : forall early cws s, lzw_inv early s -> lzi_widths_ok early s cws ->
  snd (lzi_hrun early s cws) = false -> Forall lzi_cw_ok cws.
Proof.
  induction cws as [|[c w] r IH]; intros s Hinv Hw He; [constructor|].
  destruct Hw as (Ew & Hc & Hr). pose proof (lzi_cs_range early s Hinv) as Hcs.
  pose proof (lzw_handle_inv early s c Hinv) as Hinv1.
  cbn [lzi_hrun] in He. destruct (lzw_handle early s c) as [[s1 o1] e1]. cbn [fst snd] in *.
  destruct e1; [discriminate|].
  constructor.
  - split; cbn [fst snd]; [lia|exact Hc].
  - apply (IH s1 Hinv1 (Hr eq_refl)). destruct (lzi_hrun early s1 r) as [[s2 o2] e2]. exact He.
Qed.

(* Layer 3: the decoder inverts the reference encoder of ISO 32000-1 7.4.4, for ALL byte strings (any length:
   inputs that fill the 4096-entry table make the encoder emit a clear-table code, which the decoder obeys before
   its "table full" exception can fire; KwKwK codes; the code width changes at 511/1023/2047 minus EarlyChange). *)
Lemma lzi_decode_state : forall early d, bytes_ok d ->
  exists s, write_bytes (lzw_step early) lzw_init (ref_lzw_encode early d) = (s, d, false) /\ lz_eod s = true.
Proof.
  intros early d Hok.
  destruct (lzw_codes_decode_encode_lemma early d Hok) as [Hw (s' & Hr & Hee)].
  assert (Hcw : Forall lzi_cw_ok (lzi_ref_codes early d)).
  { apply (lzi_widths_cw_ok early _ lzw_init); [destruct (lzi_R_init early) as [H _]; exact H|exact Hw|rewrite Hr; reflexivity]. }
  destruct (lzw_unpack_pack_lemma early _ Hcw Hw) as (H1 & H2 & H3).
  unfold ref_lzw_encode. fold (lzi_ref_codes early d).
  rewrite Hr in H1, H2, H3. cbn [fst snd] in H1, H2, H3.
  destruct (write_bytes (lzw_step early) lzw_init (pack_codes (lzi_ref_codes early d) 0 0 [] 0)) as [[s o] e].
  cbn [fst snd] in H1, H2, H3. subst. exists s. split; [reflexivity|].
  specialize (H3 eq_refl). unfold lzi_hproj in H3. congruence.
Qed.

Lemma lzw_decode_encode_lemma : forall early d, bytes_ok d ->
  lzw_run early [ref_lzw_encode early d] = (d, false).
Proof.
  intros early d Hok. destruct (lzi_decode_state early d Hok) as (s & Hs & _).
  unfold lzw_run. rewrite run_chunks_single, Hs. reflexivity.
Qed.

(* the same for any split of the encoded stream into write() calls *)
Lemma lzw_decode_encode_chunked_lemma : forall early d cs, bytes_ok d -> concat cs = ref_lzw_encode early d ->
  lzw_run early cs = (d, false).
Proof.
  intros early d cs Hok Hc. rewrite chunking_lzw_lemma, Hc. apply lzw_decode_encode_lemma. exact Hok.
Qed.

(* after the EOD code the decoder ignores everything (it keeps reading codes, handleCode returns at once) *)
Lemma lzi_eod_ignores : forall early rest s, lz_eod s = true ->
  exists s', write_bytes (lzw_step early) s rest = (s', [], false).
Proof.
  induction rest as [|b t IH]; intros s He; [eexists; reflexivity|].
  cbn [write_bytes]. rewrite lzi_step_put.
  destruct (lz_code_size s <=? lz_bits_avail s + 8).
  - rewrite lzi_send_eq. unfold lzw_handle.
    replace (lz_eod (lzi_after_send (lzi_put s b))) with true by (symmetry; exact He).
    destruct (IH (lzi_after_send (lzi_put s b)) He) as [s' Hs']. rewrite Hs'. eexists. reflexivity.
  - destruct (IH (lzi_put s b) He) as [s' Hs']. rewrite Hs'. eexists. reflexivity.
Qed.

(* bytes after the EOD code (a trailing EOL counted in /Length, junk) do not change the result *)
Lemma lzw_stops_at_eod_lemma : forall early d rest, bytes_ok d ->
  lzw_run early [ref_lzw_encode early d ++ rest] = (d, false).
Proof.
  intros early d rest Hok. destruct (lzi_decode_state early d Hok) as (s & Hs & He).
  unfold lzw_run. rewrite run_chunks_single, write_bytes_app, Hs. cbv iota.
  destruct (lzi_eod_ignores early rest s He) as [s' Hs']. rewrite Hs', app_nil_r. reflexivity.
Qed.
