#!/bin/bash
# usage: tools/try_seeded.sh <seeded dir name> <check id> [<check id> ...]
# applies seeded/<name>/patch.diff to /repo, runs the quick checks, reverts.
cd /verif
name=$1; shift
if ! git -C /repo diff --quiet; then echo "repo dirty"; exit 2; fi
git -C /repo apply /verif/seeded/$name/patch.diff || exit 2
for id in "$@"; do
  ./check $id --tier quick 2>&1 | grep -E "VIOLATION|KNOWN|tier=" | cut -c1-300
done
git -C /repo checkout -- .
git -C /repo status --short | grep -v _build
