(* non-vacuity: a job that meets wf_job, with an acceptable and a rejected value, a repeatable option, and both positional files *)
Example C19_wf_job_example :
  exists e1 e2 e3, In e1 argv_table /\ In e2 argv_table /\ In e3 argv_table /\
  wf_job argv_table [IOpt e1 B"generate"; IIn B"A.pdf"; IArr e3 [B"+90"; B"180:2"]; IOut B"out.pdf"; IOpt e2 B"x"] /\
  denote_job [IOpt e1 B"generate"; IIn B"A.pdf"; IArr e3 [B"+90"; B"180:2"]; IOut B"out.pdf"] =
    ([CCall B"c_main" B"objectStreams" [B"generate"]; CCall B"c_main" B"inputFile" [B"A.pdf"];
      CCall B"c_main" B"rotate" [B"+90"]; CCall B"c_main" B"rotate" [B"180:2"]; CCall B"c_main" B"outputFile" [B"out.pdf"];
      CCall B"c_main" B"checkConfiguration" []], true) /\
  snd (denote_items [IOpt e2 B"x"]) = false.
Proof.
  exists (mk_aentry B"main" B"object-streams" KChoices [B"disable"; B"preserve"; B"generate"] (TConfig B"c_main" B"objectStreams")).
  exists (mk_aentry B"main" B"qdf" KBare [] (TConfig B"c_main" B"qdf")).
  exists (mk_aentry B"main" B"rotate" KParam [] (TConfig B"c_main" B"rotate")).
  assert (H1 : In (mk_aentry B"main" B"object-streams" KChoices [B"disable"; B"preserve"; B"generate"] (TConfig B"c_main" B"objectStreams")) argv_table)
    by (apply in_by_compute; vm_compute; reflexivity).
  assert (H2 : In (mk_aentry B"main" B"qdf" KBare [] (TConfig B"c_main" B"qdf")) argv_table) by (apply in_by_compute; vm_compute; reflexivity).
  assert (H3 : In (mk_aentry B"main" B"rotate" KParam [] (TConfig B"c_main" B"rotate")) argv_table) by (apply in_by_compute; vm_compute; reflexivity).
  split; [exact H1|]. split; [exact H2|]. split; [exact H3|].
  split.
  - split; [|vm_compute; reflexivity].
    repeat (constructor; [first [exact I | split; [assumption | vm_compute; reflexivity]]|]). constructor.
  - vm_compute. split; reflexivity.
Qed.
