(* C16.  Model of content-stream normalisation, written from the C++ of /repo:
     libqpdf/QPDFTokenizer.cc   QPDFWordTokenFinder::check, Tokenizer::findEI, Tokenizer::expectInlineImage
                                (the tokenizer itself is Lex/TokModel.v, used here in includeIgnorable mode)
     libqpdf/InputSource.cc     InputSource::findFirst (as used by findEI: start_chars = "EI", len = 0)
     libqpdf/Pl_QPDFTokenizer.cc  Pl_QPDFTokenizer::finish
     libqpdf/ContentNormalizer.cc ContentNormalizer::handleToken
     libqpdf/QPDF_Stream.cc     the warning at the end of Stream::pipeStreamData
   Bytes are N < 256.  Output is accumulated in reverse (rev_append) and turned with rev' at the end.
   Input positions are not tracked as numbers: the model carries the remaining input (a suffix of the
   buffer) instead, which is what every seek/tell of the code amounts to.  No proofs in this file.
   All names carry the prefix c16_ / Cn (extracted OCaml names are global). *)
From QV Require Import Base.Bytes Lex.TokModel Obj.Unparse.
Local Open Scope N_scope.

(* ------------------------------------------------------------------------------------------------
   QPDFWordTokenFinder::check() for the word "EI", called by findFirst with the input positioned at a
   match of the two characters "EI".  `s` is the input from the 'E' on.
     Tokenizer tokenizer;  tokenizer.nextToken(is, "finder", str.size() + 2);      // max_len = 4
     pos = is.tell();  type must be tt_word and value "EI";
     next_okay = (read 1 byte fails) || (is_delimiter(next) && next != '\v');  is.seek(pos);
       (VT ends a token for this tokenizer but is neither white space nor a delimiter in PDF syntax: repair of C16-F1)
     token_start == 0 cannot happen (the search never starts at offset 0).
   Result: Some rest = accepted, rest = input from is.tell() (just after the token) on. *)
Definition c16_str_EI : list N := [69; 73].
Definition c16_str_ID : list N := [73; 68].

Definition c16_finder_check (s : list N) : option (list N) :=
  let '(t1, rest, _, _) := next_token 4 (tk_new false false) s 0 in
  let tok := tk_token t1 in
  if ttype_eqb (tok_type tok) TT_word && list_eqb N.eqb (tok_value tok) c16_str_EI then
    match rest with
    | [] => Some rest
    | nx :: _ => if tk_is_delimiter nx && negb (nx =? 11) then Some rest else None   (* is_delimiter(next) && next != '\v' *)
    end
  else None.

(* InputSource::findFirst("EI", input.tell(), 0, finder): the occurrences of "EI" from the current
   position on, left to right (after a rejected occurrence the scan resumes one byte further), the
   first one accepted by check() wins.  Result: Some (k, rest): k bytes precede the accepted "EI",
   rest = input after the finder's token; None = end of input reached. *)
Fixpoint c16_find_first (s : list N) (k : N) : option (N * list N) :=
  match s with
  | [] => None
  | b :: r =>
      if b =? 69 then
        match r with
        | c :: _ =>
            if c =? 73 then
              match c16_finder_check s with
              | Some rest => Some (k, rest)
              | None => c16_find_first r (k + 1)
              end
            else c16_find_first r (k + 1)
        | [] => None
        end
      else c16_find_first r (k + 1)
  end.

(* the word test inside the look-ahead loop of findEI *)
Fixpoint c16_word_scan (v : list N) (alpha other : bool) : bool * bool * bool :=   (* alpha, non_printable, other *)
  match v with
  | [] => (alpha, false, other)
  | ch :: r =>
      if ((97 <=? ch) && (ch <=? 122)) || ((65 <=? ch) && (ch <=? 90)) || (ch =? 42)
      then c16_word_scan r true other
      else if (ch_signed ch <? 32)%Z && negb (tk_is_space ch) then (alpha, true, other)
      else c16_word_scan r alpha true
  end.

(* found_non_printable || (found_alpha && found_other && value != "d0" && value != "d1"): d0 and d1 are the only
   operators that mix letters and digits (repair of C16-F6) *)
Definition c16_str_d0 : list N := [100; 48].
Definition c16_str_d1 : list N := [100; 49].
Definition c16_word_is_bad (v : list N) : bool :=
  let '(alpha, nonpr, other) := c16_word_scan v false false in
  nonpr || (alpha && other && negb (list_eqb N.eqb v c16_str_d0) && negb (list_eqb N.eqb v c16_str_d1)).

(* for (int i = 0; i < 10; ++i) { check.nextToken(input, "checker"); ... }  with `Tokenizer check;`
   (allow_eof = false, include_ignorable = false).  Result: (okay, found_bad, input after the loop). *)
Fixpoint c16_lookahead (n : nat) (t : tk) (s : list N) : bool * bool * list N :=
  match n with
  | O => (false, false, s)
  | S n' =>
      let '(t1, rest, _, _) := next_token 0 t s 0 in
      let typ := t_type t1 in
      let okay := ttype_eqb typ TT_eof in
      let found_bad :=
        if okay then false
        else if ttype_eqb typ TT_bad then true
        else if ttype_eqb typ TT_word then c16_word_is_bad (tok_value (tk_token t1))
        else false in
      if okay || found_bad then (okay, found_bad, rest) else c16_lookahead n' t1 rest
  end.

(* Tokenizer::findEI.  `s` = input from pos (= input.tell() on entry) on, `off` = number of bytes between
   pos and the current search position, `iib` = inline_image_bytes so far.  The while loop runs at most once
   per "EI" in the input: fuel = S (length of the input). *)
Fixpoint c16_find_ei_loop (fuel : nat) (s : list N) (off iib : N) : N :=
  match fuel with
  | O => iib
  | S f =>
      match c16_find_first s off with
      | None => iib                                        (* break *)
      | Some (k, after) =>
          (* inline_image_bytes = input.tell() - pos - 2, tell() being just after the "EI" *)
          let '(okay0, found_bad, after2) := c16_lookahead 10 (tk_new false false) after in
          let okay := okay0 || negb found_bad in
          if okay then k
          else
            (* the next findFirst starts at input.tell(): where the look-ahead stopped.  Its offset from pos
               is recovered from the lengths of the suffixes. *)
            let consumed := N.of_nat (length s) - N.of_nat (length after2) in
            c16_find_ei_loop f after2 (off + consumed) k
      end
  end.

Definition c16_find_ei (s : list N) : N := c16_find_ei_loop (S (length s)) s 0 0.

(* Tokenizer::expectInlineImage, called on a tokenizer that has just handed out a token (state
   st_before_token after reset): findEI; before_token = false; in_token = true; state = st_inline_image. *)
Definition c16_expect_inline_image (t : tk) (s : list N) : tk :=
  let t0 := if is_ready t then tk_reset t else t in
  set_state TS_inline_image (set_in_token true (set_before false (set_iib (c16_find_ei s) t0))).

(* ------------------------------------------------------------------------------------------------
   ContentNormalizer *)
Record c16_nstate := mkCnState {
  cn_out : list N;          (* bytes written so far, REVERSED *)
  cn_any_bad : bool;
  cn_last_bad : bool
}.

Definition c16_ninit : c16_nstate := mkCnState [] false false.

(* the tt_space branch: every CR that is not followed by LF becomes LF, a CR followed by LF is dropped *)
Fixpoint c16_space_norm (v : list N) : list N :=
  match v with
  | [] => []
  | b :: r =>
      if b =? 13 then
        match r with
        | c :: _ => if c =? 10 then c16_space_norm r else 10 :: c16_space_norm r
        | [] => [10]
        end
      else b :: c16_space_norm r
  end.

Definition c16_has_eol (raw : list N) : bool := existsb (fun b => (b =? 13) || (b =? 10)) raw.

(* what handleToken writes for one token *)
Definition c16_emit (tok : token) : list N :=
  match tok_type tok with
  | TT_space => c16_space_norm (tok_raw tok)
  | TT_string => string_unparse false (tok_value tok) ++ (if c16_has_eol (tok_raw tok) then [10] else [])
  | TT_name => name_normalize (tok_value tok) ++ (if c16_has_eol (tok_raw tok) then [10] else [])
  | _ => tok_raw tok
  end.

Definition c16_handle_token (st : c16_nstate) (tok : token) : c16_nstate :=
  let is_bad := ttype_eqb (tok_type tok) TT_bad in
  let is_eof := ttype_eqb (tok_type tok) TT_eof in
  mkCnState (rev_append (c16_emit tok) (cn_out st))
            (cn_any_bad st || is_bad)
            (if is_bad then true else if is_eof then cn_last_bad st else false).

(* ------------------------------------------------------------------------------------------------
   Pl_QPDFTokenizer::finish: the tokenizer has allowEOF and includeIgnorable set.
     while (true) { token = readToken(input, "", true); filter->handleToken(token);
                    if eof break; else if token.isWord("ID") { ch = ' '; input.read(&ch, 1);
                       handleToken(Token(tt_space, string(1, ch))); expectInlineImage(input); } }
   The loop is generic in what the filter does with a token: `A` is the filter's state. *)
Definition c16_is_word_ID (tok : token) : bool :=
  ttype_eqb (tok_type tok) TT_word && list_eqb N.eqb (tok_value tok) c16_str_ID.

Definition c16_space_token (ch : N) : token := mkToken TT_space [ch] [ch] TE_none.

Fixpoint c16_finish_loop {A} (h : A -> token -> A) (fuel : nat) (t : tk) (s : list N) (st : A) : A :=
  match fuel with
  | O => st
  | S f =>
      let '(tok, _, t1, rest, _, _) := read_token 0 true t s 0 in
      let st1 := h st tok in
      if ttype_eqb (tok_type tok) TT_eof then st1
      else if c16_is_word_ID tok then
        let '(ch, rest1) := match rest with c :: r => (c, r) | [] => (32, []) end in
        let st2 := h st1 (c16_space_token ch) in
        c16_finish_loop h f (c16_expect_inline_image t1 rest1) rest1 st2
      else c16_finish_loop h f t1 rest st1
  end.

(* every iteration but the last consumes at least one byte, or is the bad-token iteration that follows an
   "ID" at the very end of the input; 2 + length is enough *)
Definition c16_fuel (s : list N) : nat := S (S (S (length s))).

Definition c16_tokenizer : tk := tk_new true true.

(* the tokens a filter sees *)
Definition c16_tokens (s : list N) : list token :=
  rev' (c16_finish_loop (fun acc tok => tok :: acc) (c16_fuel s) c16_tokenizer s []).

(* ContentNormalizer behind Pl_QPDFTokenizer: (output, anyBadTokens, lastTokenWasBad) *)
Definition c16_normalize_run (s : list N) : list N * bool * bool :=
  let st := c16_finish_loop c16_handle_token (c16_fuel s) c16_tokenizer s c16_ninit in
  (rev' (cn_out st), cn_any_bad st, cn_last_bad st).

Definition c16_normalize (s : list N) : list N := fst (fst (c16_normalize_run s)).

(* warning classes raised at the end of Stream::pipeStreamData (filter && !suppress_warnings) *)
Inductive c16_warn := CnWarnBadTokens | CnWarnEndedBad | CnWarnMayBeCorrupt.

Definition c16_warnings (s : list N) : list c16_warn :=
  let '(_, any_bad, last_bad) := c16_normalize_run s in
  if any_bad then CnWarnBadTokens :: (if last_bad then [CnWarnEndedBad] else []) ++ [CnWarnMayBeCorrupt] else [].

(* ------------------------------------------------------------------------------------------------
   QPDFObjectHandle::pipeContentStreams (what CoalesceProvider provides and what pipePageContents /
   filterPageContents feed to the next pipeline): the decoded streams in order, a newline written before
   a stream when what was written for the previous one (separator included) was empty or did not end in '\n'. *)
Fixpoint c16_last_is_nl (s : list N) : bool :=
  match s with
  | [] => false
  | [b] => b =? 10
  | _ :: r => c16_last_is_nl r
  end.

Fixpoint c16_coalesce_loop (need_newline : bool) (cs : list (list N)) : list N :=
  match cs with
  | [] => []
  | s :: r =>
      (* `buffer` receives the separating newline and then the stream's data; need_newline is computed on both *)
      let chunk := (if need_newline then [10] else []) ++ s in
      chunk ++ c16_coalesce_loop (negb (c16_last_is_nl chunk)) r
  end.

Definition c16_coalesce (cs : list (list N)) : list N := c16_coalesce_loop false cs.

(* filterPageContents(ContentNormalizer): the normaliser sees the coalesced data *)
Definition c16_filter_page (cs : list (list N)) : list N * bool * bool := c16_normalize_run (c16_coalesce cs).
