(* /P: model of how qpdf arrives at the permission word (QPDFJob::EncConfig::* option handlers,
   QPDFJob::setEncryptionOptions, QPDFWriter::setR*EncryptionParameters*,
   impl::Writer::interpretR3EncryptionParameters), the table of manual/encryption.rst
   ("Command-line Arguments and P Bit Values") written from the manual, the scheme selection
   (R, V, key length, crypt filter method, minimum PDF version) and the two refusal gates. *)
From QV Require Import Base.Bytes.
Local Open Scope N_scope.

(* ------------------------------------------------------------------ model *)

(* Encryption::P default: bits 1 and 2 clear, everything else set; setP(bit, false) *)
Definition P_default : N := 4294967292.
Definition P_clear (p : N) (bit : N) : N := N.clearbit p (bit - 1).

Inductive r3_print := PrFull | PrLow | PrNone.
Inductive r3_modify := MdAll | MdAnnotate | MdForm | MdAssembly | MdNone.

(* QPDFWriter::setR2EncryptionParametersInsecure *)
Definition writer_P_R2 (allow_print allow_modify allow_extract allow_annotate : bool) : N :=
  let p := P_default in
  let p := if allow_print then p else P_clear p 3 in
  let p := if allow_modify then p else P_clear p 4 in
  let p := if allow_extract then p else P_clear p 5 in
  if allow_annotate then p else P_clear p 6.

(* impl::Writer::interpretR3EncryptionParameters, statement by statement (switch fallthroughs) *)
Definition writer_P_R3 (R : N) (allow_accessibility allow_extract allow_assemble allow_annotate_and_form
                                allow_form_filling allow_modify_other : bool)
           (print : r3_print) (modify : r3_modify) : N :=
  let p := P_default in
  let p := if negb allow_accessibility && (R <=? 3) then P_clear p 10 else p in
  let p := if allow_extract then p else P_clear p 5 in
  let p := match print with
           | PrNone => P_clear (P_clear p 3) 12
           | PrLow => P_clear p 12
           | PrFull => p
           end in
  let p := match modify with
           | MdNone => P_clear (P_clear (P_clear (P_clear p 11) 9) 6) 4
           | MdAssembly => P_clear (P_clear (P_clear p 9) 6) 4
           | MdForm => P_clear (P_clear p 6) 4
           | MdAnnotate => P_clear p 4
           | MdAll => p
           end in
  let p := if allow_assemble then p else P_clear p 11 in
  let p := if allow_annotate_and_form then p else P_clear p 6 in
  let p := if allow_form_filling then p else P_clear p 9 in
  if allow_modify_other then p else P_clear p 4.

(* the permission options of --encrypt, in command-line order *)
Inductive enc_opt :=
| OAccessibility (y : bool)
| OExtract (y : bool)
| OPrintYN (y : bool)          (* 40-bit: --print=y|n *)
| OPrint (p : r3_print)        (* 128/256-bit: --print=full|low|none *)
| OModifyYN (y : bool)         (* 40-bit: --modify=y|n *)
| OModify (m : r3_modify)      (* 128/256-bit: --modify=all|annotate|form|assembly|none *)
| OAnnotate (y : bool)
| OAssemble (y : bool)
| OForm (y : bool)
| OModifyOther (y : bool).

Record job_enc := {
  j_r2_print : bool; j_r2_modify : bool; j_r2_extract : bool; j_r2_annotate : bool;
  j_r3_accessibility : bool; j_r3_extract : bool; j_r3_assemble : bool; j_r3_annotate_and_form : bool;
  j_r3_form_filling : bool; j_r3_modify_other : bool; j_r3_print : r3_print
}.
Definition job_enc_default : job_enc :=
  {| j_r2_print := true; j_r2_modify := true; j_r2_extract := true; j_r2_annotate := true;
     j_r3_accessibility := true; j_r3_extract := true; j_r3_assemble := true; j_r3_annotate_and_form := true;
     j_r3_form_filling := true; j_r3_modify_other := true; j_r3_print := PrFull |}.

Definition set_mod (j : job_enc) (asm ann form other : bool) : job_enc :=
  {| j_r2_print := j_r2_print j; j_r2_modify := j_r2_modify j; j_r2_extract := j_r2_extract j;
     j_r2_annotate := j_r2_annotate j; j_r3_accessibility := j_r3_accessibility j; j_r3_extract := j_r3_extract j;
     j_r3_assemble := asm; j_r3_annotate_and_form := ann; j_r3_form_filling := form; j_r3_modify_other := other;
     j_r3_print := j_r3_print j |}.

(* QPDFJob::EncConfig::accessibility / extract / print / modify / annotate / assemble / form / modifyOther *)
Definition job_apply (keylen : N) (j : job_enc) (o : enc_opt) : job_enc :=
  match o with
  | OAccessibility y =>
      {| j_r2_print := j_r2_print j; j_r2_modify := j_r2_modify j; j_r2_extract := j_r2_extract j;
         j_r2_annotate := j_r2_annotate j; j_r3_accessibility := y; j_r3_extract := j_r3_extract j;
         j_r3_assemble := j_r3_assemble j; j_r3_annotate_and_form := j_r3_annotate_and_form j;
         j_r3_form_filling := j_r3_form_filling j; j_r3_modify_other := j_r3_modify_other j;
         j_r3_print := j_r3_print j |}
  | OExtract y =>
      if keylen =? 40 then
        {| j_r2_print := j_r2_print j; j_r2_modify := j_r2_modify j; j_r2_extract := y;
           j_r2_annotate := j_r2_annotate j; j_r3_accessibility := j_r3_accessibility j; j_r3_extract := j_r3_extract j;
           j_r3_assemble := j_r3_assemble j; j_r3_annotate_and_form := j_r3_annotate_and_form j;
           j_r3_form_filling := j_r3_form_filling j; j_r3_modify_other := j_r3_modify_other j;
           j_r3_print := j_r3_print j |}
      else
        {| j_r2_print := j_r2_print j; j_r2_modify := j_r2_modify j; j_r2_extract := j_r2_extract j;
           j_r2_annotate := j_r2_annotate j; j_r3_accessibility := j_r3_accessibility j; j_r3_extract := y;
           j_r3_assemble := j_r3_assemble j; j_r3_annotate_and_form := j_r3_annotate_and_form j;
           j_r3_form_filling := j_r3_form_filling j; j_r3_modify_other := j_r3_modify_other j;
           j_r3_print := j_r3_print j |}
  | OPrintYN y =>
      {| j_r2_print := y; j_r2_modify := j_r2_modify j; j_r2_extract := j_r2_extract j;
         j_r2_annotate := j_r2_annotate j; j_r3_accessibility := j_r3_accessibility j; j_r3_extract := j_r3_extract j;
         j_r3_assemble := j_r3_assemble j; j_r3_annotate_and_form := j_r3_annotate_and_form j;
         j_r3_form_filling := j_r3_form_filling j; j_r3_modify_other := j_r3_modify_other j;
         j_r3_print := j_r3_print j |}
  | OPrint p =>
      {| j_r2_print := j_r2_print j; j_r2_modify := j_r2_modify j; j_r2_extract := j_r2_extract j;
         j_r2_annotate := j_r2_annotate j; j_r3_accessibility := j_r3_accessibility j; j_r3_extract := j_r3_extract j;
         j_r3_assemble := j_r3_assemble j; j_r3_annotate_and_form := j_r3_annotate_and_form j;
         j_r3_form_filling := j_r3_form_filling j; j_r3_modify_other := j_r3_modify_other j;
         j_r3_print := p |}
  | OModifyYN y =>
      {| j_r2_print := j_r2_print j; j_r2_modify := y; j_r2_extract := j_r2_extract j;
         j_r2_annotate := j_r2_annotate j; j_r3_accessibility := j_r3_accessibility j; j_r3_extract := j_r3_extract j;
         j_r3_assemble := j_r3_assemble j; j_r3_annotate_and_form := j_r3_annotate_and_form j;
         j_r3_form_filling := j_r3_form_filling j; j_r3_modify_other := j_r3_modify_other j;
         j_r3_print := j_r3_print j |}
  (* EncConfig::modify after fix 8ca3265e: only clears the flags its value stands for *)
  | OModify MdAll => j
  | OModify MdAnnotate => set_mod j (j_r3_assemble j) (j_r3_annotate_and_form j) (j_r3_form_filling j) false
  | OModify MdForm => set_mod j (j_r3_assemble j) false (j_r3_form_filling j) false
  | OModify MdAssembly => set_mod j (j_r3_assemble j) false false false
  | OModify MdNone => set_mod j false false false false
  | OAnnotate y =>
      if keylen =? 40 then
        {| j_r2_print := j_r2_print j; j_r2_modify := j_r2_modify j; j_r2_extract := j_r2_extract j;
           j_r2_annotate := y; j_r3_accessibility := j_r3_accessibility j; j_r3_extract := j_r3_extract j;
           j_r3_assemble := j_r3_assemble j; j_r3_annotate_and_form := j_r3_annotate_and_form j;
           j_r3_form_filling := j_r3_form_filling j; j_r3_modify_other := j_r3_modify_other j;
           j_r3_print := j_r3_print j |}
      else set_mod j (j_r3_assemble j) y (j_r3_form_filling j) (j_r3_modify_other j)
  | OAssemble y => set_mod j y (j_r3_annotate_and_form j) (j_r3_form_filling j) (j_r3_modify_other j)
  | OForm y => set_mod j (j_r3_assemble j) (j_r3_annotate_and_form j) y (j_r3_modify_other j)
  | OModifyOther y => set_mod j (j_r3_assemble j) (j_r3_annotate_and_form j) (j_r3_form_filling j) y
  end.

(* QPDFJob::setEncryptionOptions: which R for (key length, --force-V4 / --cleartext-metadata /
   --use-aes, --force-R5) *)
Definition job_R (keylen : N) (force_V4 cleartext_metadata use_aes force_R5 : bool) : N :=
  if keylen =? 40 then 2
  else if keylen =? 128 then (if force_V4 || cleartext_metadata || use_aes then 4 else 3)
  else if force_R5 then 5 else 6.

(* /P the job writes for a key length, R and option list *)
Definition job_P (keylen R : N) (opts : list enc_opt) : N :=
  let j := fold_left (job_apply keylen) opts job_enc_default in
  if R =? 2 then writer_P_R2 (j_r2_print j) (j_r2_modify j) (j_r2_extract j) (j_r2_annotate j)
  else writer_P_R3 R (j_r3_accessibility j) (j_r3_extract j) (j_r3_assemble j) (j_r3_annotate_and_form j)
                   (j_r3_form_filling j) (j_r3_modify_other j) (j_r3_print j) MdAll.

(* Encryption(V, R, Length_bytes, ...) per setR*: (V, Length_bytes); writeEncryptionDictionary /CFM;
   setEncryptionMinimumVersion: (minor version of 1.x, extension level) *)
Definition writer_V (R : N) : N := if R =? 2 then 1 else if R =? 3 then 2 else if R =? 4 then 4 else 5.
Definition writer_len (R : N) : N := if R =? 2 then 5 else if R <=? 4 then 16 else 32.
Definition writer_min_version (R : N) (use_aes : bool) : N * N :=
  if 6 <=? R then (7, 8) else if R =? 5 then (7, 3) else if R =? 4 then (if use_aes then (6, 0) else (5, 0))
  else if R =? 3 then (4, 0) else (3, 0).

(* the gates: setEncryptionOptions refuses RC4 without --allow-weak-crypto; checkConfiguration
   refuses user <> "", owner = "", 256 bits without --allow-insecure. true = refused *)
Definition job_refuses (keylen R : N) (use_aes allow_weak allow_insecure : bool) (user owner : list N) : bool :=
  ((keylen =? 256) && negb allow_insecure && match owner with [] => true | _ => false end
                   && match user with [] => false | _ => true end)
  || (((R <? 4) || ((R =? 4) && negb use_aes)) && negb allow_weak).

(* ------------------------------------------------------------------ specification: the manual *)

(* manual/encryption.rst, table "Command-line Arguments and P Bit Values": bits cleared by one
   argument under revision R *)
Definition manual_bits (R : N) (o : enc_opt) : list N :=
  match o with
  | OPrintYN false => if R =? 2 then [3] else []
  | OModifyYN false => if R =? 2 then [4] else []
  | OExtract false => [5]                                   (* R = 2 row and R >= 3 row *)
  | OAnnotate false => [6]                                  (* R = 2 row and R >= 3 row *)
  | OAccessibility false => if R =? 3 then [10] else []     (* R >= 4: ignored *)
  | OPrint PrNone => if 3 <=? R then [3; 12] else []
  | OPrint PrLow => if 3 <=? R then [12] else []
  | OModify MdNone => if 3 <=? R then [4; 6; 9; 11] else []
  | OModify MdAssembly => if 3 <=? R then [4; 6; 9] else []
  | OModify MdForm => if 3 <=? R then [4; 6] else []
  | OModify MdAnnotate => if 3 <=? R then [4] else []
  | OAssemble false => if 3 <=? R then [11] else []
  | OForm false => if 3 <=? R then [9] else []
  | OModifyOther false => if 3 <=? R then [4] else []
  | _ => []
  end.

(* manual/cli.rst, --modify: "modify-opt values map to other combinations of options as follows:
   all: allow full modification (the default); annotate: --modify-other=n; form: --modify-other=n --annotate=n;
   assembly: --modify-other=n --annotate=n --form=n; none: --modify-other=n --annotate=n --form=n --assemble=n" *)
Definition manual_expand (o : enc_opt) : list enc_opt :=
  match o with
  | OModify MdAll => []
  | OModify MdAnnotate => [OModifyOther false]
  | OModify MdForm => [OModifyOther false; OAnnotate false]
  | OModify MdAssembly => [OModifyOther false; OAnnotate false; OForm false]
  | OModify MdNone => [OModifyOther false; OAnnotate false; OForm false; OAssemble false]
  | _ => [o]
  end.

(* cli.rst describes each y/n option as "Enable/disable ...": when the same option is given again, the later
   occurrence stands. Which option an argument sets: *)
Definition opt_kind (o : enc_opt) : N :=
  match o with
  | OAccessibility _ => 0 | OExtract _ => 1 | OPrintYN _ => 2 | OPrint _ => 3 | OModifyYN _ => 4 | OModify _ => 5
  | OAnnotate _ => 6 | OAssemble _ => 7 | OForm _ => 8 | OModifyOther _ => 9
  end.
Fixpoint last_occurrences (l : list enc_opt) : list enc_opt :=
  match l with
  | [] => []
  | o :: t => if existsb (fun o' => opt_kind o' =? opt_kind o) t then last_occurrences t else o :: last_occurrences t
  end.

Definition P_of_cleared (cleared : list N) : N :=
  fold_left (fun acc bit => if existsb (N.eqb bit) cleared || (bit <=? 2) then acc else acc + 2 ^ (bit - 1))
            (map N.of_nat (seq 1 32)) 0.

(* encryption.rst: "Start with all bits set except bits 1 and 2, which are cleared; clear bits as described in
   the table", applied to the options in effect (--modify expanded as cli.rst says, later occurrence of an option
   standing) *)
Definition manual_P (R : N) (opts : list enc_opt) : N :=
  P_of_cleared (flat_map (manual_bits R) (last_occurrences (flat_map manual_expand opts))).

(* the most literal reading of the table alone: every argument clears its bits, a "=y" argument does nothing.
   It differs from manual_P only when an option re-enables what an earlier argument disabled. *)
Definition manual_P_union (R : N) (opts : list enc_opt) : N :=
  P_of_cleared (flat_map (manual_bits R) opts).

(* ISO 32000: minimum version per scheme: R2 -> 1.1 (qpdf asks for 1.3), R3 -> 1.4, R4 -> 1.5 (crypt
   filters), AESV2 -> 1.6, R5 -> 1.7 ExtensionLevel 3, R6 -> 1.7 ExtensionLevel 8 (or 2.0) *)
Definition iso_min_version (R : N) (use_aes : bool) : N * N :=
  if R =? 2 then (1, 0) else if R =? 3 then (4, 0) else if R =? 4 then (if use_aes then (6, 0) else (5, 0))
  else if R =? 5 then (7, 3) else (7, 8).
Definition version_le (a b : N * N) : bool :=
  (fst a <? fst b) || ((fst a =? fst b) && (snd a <=? snd b)).

(* ------------------------------------------------------------------ the finite option domains *)
Definition opt3 (f : bool -> enc_opt) : list (list enc_opt) := [[]; [f true]; [f false]].
Fixpoint cart (ls : list (list (list enc_opt))) : list (list enc_opt) :=
  match ls with
  | [] => [[]]
  | l :: rest => flat_map (fun x => map (fun y => x ++ y) (cart rest)) l
  end.
Definition print_choices : list (list enc_opt) := [[]; [OPrint PrFull]; [OPrint PrLow]; [OPrint PrNone]].
Definition modify_choices : list (list enc_opt) :=
  [[OModify MdAll]; [OModify MdAnnotate]; [OModify MdForm]; [OModify MdAssembly]; [OModify MdNone]].
Definition optn (f : bool -> enc_opt) : list (list enc_opt) := [[]; [f false]].

(* 40-bit: every combination of the four y/n options (absent, =y, =n): 81 lists *)
Definition opts_R2 : list (list enc_opt) :=
  cart [opt3 OPrintYN; opt3 OModifyYN; opt3 OExtract; opt3 OAnnotate].
(* 128/256-bit without --modify: every combination of the seven other options: 2916 lists *)
Definition opts_R3_granular : list (list enc_opt) :=
  cart [opt3 OAccessibility; opt3 OExtract; print_choices; opt3 OAssemble; opt3 OAnnotate; opt3 OForm; opt3 OModifyOther].
(* with --modify before, resp. after, the seven other options: 2 * 14580 lists *)
Definition opts_R3_modify_first : list (list enc_opt) :=
  cart [modify_choices; opt3 OAccessibility; opt3 OExtract; print_choices;
        opt3 OAssemble; opt3 OAnnotate; opt3 OForm; opt3 OModifyOther].
Definition opts_R3_modify_last : list (list enc_opt) :=
  cart [opt3 OAccessibility; opt3 OExtract; print_choices;
        opt3 OAssemble; opt3 OAnnotate; opt3 OForm; opt3 OModifyOther; modify_choices].
(* every order-sensitive pair: a granular option before or after --modify: 2 * 5 * 4 * 2 = 80 lists *)
Definition granular_opts : list enc_opt :=
  flat_map (fun y => [OAssemble y; OAnnotate y; OForm y; OModifyOther y]) [true; false].
Definition opts_R3_pairs : list (list enc_opt) :=
  flat_map (fun m => flat_map (fun g => [m ++ [g]; g :: m]) granular_opts) modify_choices.
(* an option given twice with different values, alone and around a --modify: 8 + 8 * 5 * 3 lists *)
Definition opts_R3_repeats : list (list enc_opt) :=
  flat_map (fun f => flat_map (fun y => [f y; f (negb y)] ::
                        flat_map (fun m => [m ++ [f y; f (negb y)]; f y :: m ++ [f (negb y)]; [f y; f (negb y)] ++ m]) modify_choices)
                      [true; false])
           [OAssemble; OAnnotate; OForm; OModifyOther].
Definition opts_R3_all : list (list enc_opt) :=
  opts_R3_granular ++ opts_R3_modify_first ++ opts_R3_modify_last ++ opts_R3_pairs ++ opts_R3_repeats.

Definition keylen_of_R (R : N) : N := if R =? 2 then 40 else if R <=? 4 then 128 else 256.
Definition P_agrees (R : N) (opts : list enc_opt) : bool := job_P (keylen_of_R R) R opts =? manual_P R opts.
Definition P_agrees_union (R : N) (opts : list enc_opt) : bool := job_P (keylen_of_R R) R opts =? manual_P_union R opts.
