(* C11 - the property on what an observer finds in ANY directory after a --replace-input run (or after the kill),
   written from the property text (properties.jsonl C11) and the manual's description of --replace-input; nothing
   here mentions streams, renames or qpdf's classes.  It reduces the four documented names to the three-name
   observation of Sys/OutputSpec.v (c11_safe, c11_final_ok), which stay the judges.

   Documented names: <in>; <in>.~qpdf-orig (where the original is KEPT when there were warnings); <in>.~qpdf-orig#
   (where the original waits until the new file is in place, removed afterwards); <in>.~qpdf-temp#.
   An entry that was in the directory before the run and is found unchanged afterwards is not something the run
   left behind.  A file found under a backup name counts as the original only if it is byte-identical to the
   original of THIS run (a backup left by an earlier run is some other document). *)
From QV Require Import Base.Bytes Sys.OutputSpec.
From Coq Require Import Arith.
Local Open Scope nat_scope.

Record c11d_obs := mk_c11d_obs {
  c11d_o_in : c11_cls;           (* <in> *)
  c11d_o_kept : c11_cls;         (* <in>.~qpdf-orig *)
  c11d_o_scratch : c11_cls;      (* <in>.~qpdf-orig# *)
  c11d_o_temp : c11_cls;         (* <in>.~qpdf-temp# *)
  c11d_o_kept_same : bool;       (* <in>.~qpdf-orig existed before the run and is unchanged *)
  c11d_o_scratch_same : bool }.  (* <in>.~qpdf-orig# existed before the run and is unchanged *)

(* at every instant: the better of the two backup names counts *)
Definition c11d_view_any (o : c11d_obs) : c11_dirobs :=
  mk_dirobs (c11d_o_in o) (if c11_complete (c11d_o_kept o) then c11d_o_kept o else c11d_o_scratch o) (c11d_o_temp o).
Definition c11d_safe (o : c11d_obs) : bool := c11_safe (c11d_view_any o).

(* after a run that ended by itself.  warned: a warning about the files processed was reported (WARNING lines,
   "operation succeeded with warnings", exit status 3).  With warnings the original is kept as <in>.~qpdf-orig and
   nothing of this run stays under <in>.~qpdf-orig#; without, nothing of this run stays under <in>.~qpdf-orig
   and <in>.~qpdf-orig# is gone (or holds the original when its removal failed and was reported). *)
Definition c11d_view_final (warned : bool) (o : c11d_obs) : c11_dirobs :=
  let mine := if warned then c11d_o_kept o else c11d_o_scratch o in
  let other := if warned then c11d_o_scratch o else c11d_o_kept o in
  let other_same := if warned then c11d_o_scratch_same o else c11d_o_kept_same o in
  mk_dirobs (c11d_o_in o) (if c11_cls_eqb other ClAbsent || other_same then mine else ClOther) (c11d_o_temp o).

(* exit status 2: the original under <in> or under either backup name *)
Definition c11d_final_ok (exit : nat) (warned unlink_failed : bool) (o : c11d_obs) : bool :=
  if exit =? 2 then c11_final_ok 2 false (c11d_view_any o)
  else if (exit =? 0) || (exit =? 3) then
    (* --warning-exit-0 turns 3 into 0 and changes nothing else: judged as the run with warnings that it is *)
    c11_final_ok (if warned then 3 else 0) unlink_failed (c11d_view_final warned o)
  else false.
