(* C12 (extension) - specification side: the effective value of an inheritable page attribute.

   ISO 32000-1 7.7.3.4 (Inheritance of page attributes): "Some of the page attributes are designated as
   inheritable. If such an attribute is omitted from a page object, its value is inherited from an ancestor
   node in the page tree. If the attribute is a required one, a value shall be supplied in an ancestor node.
   If the attribute is optional and no inherited value is specified, the default value shall be used."
   Table 30 marks exactly Resources, MediaBox, CropBox and Rotate as inheritable.  7.3.9: a dictionary entry
   whose value is null is equivalent to an absent entry.

   Written from the standard as an environment passed DOWN the tree (the code keeps per-key stacks and rewrites
   the objects in place); it shares with the model only the data types of Struct/PageAttr.v. *)
From QV Require Import Base.Bytes Struct.PageAttr.
From Coq Require Import List ZArith NArith Bool.
Import ListNotations.
Local Open Scope N_scope.

(* effective attributes of one page: PaoNull = no value anywhere (default applies) *)
Definition pas_attrs := pa_quad pa_obj.
Definition pas_none : pas_attrs := pa_qconst PaoNull.

(* the value a dictionary supplies for key k: its own non-null entry, otherwise what it inherits *)
Definition pas_over (st : pa_store) (inh : pas_attrs) (d : pa_dict) : pas_attrs :=
  pa_qinit (fun k => match pa_getden st d k with PaoNull => pa_qget inh k | o => o end).

Fixpoint pas_eff (st : pa_store) (inh : pas_attrs) (t : pa_tree) : list (N * pas_attrs) :=
  match t with
  | PaPage i _ d => [(i, pas_over st inh d)]
  | PaNode _ _ _ d kids => flat_map (pas_eff st (pas_over st inh d)) kids
  end.

(* effective attributes of every page of a document, in document order *)
Definition pas_doc_eff (st : pa_store) (t : pa_tree) : list (N * pas_attrs) := pas_eff st pas_none t.

(* 7.7.3.3 Table 30, Rotate: "The number of degrees by which the page shall be rotated clockwise ... shall be a
   multiple of 90. Default value: 0."  The rotation a viewer applies, as a residue modulo 360; None = the
   effective value is not a legal rotation. *)
Definition pas_rotation (a : pas_attrs) : option Z :=
  match pa_qget a PaRot with
  | PaoNull => Some 0%Z
  | PaoInt z => if (z mod 90 =? 0)%Z then Some (z mod 360)%Z else None
  | PaoOther _ _ => None
  end.

(* requested rotation (qpdf manual, --rotate=[+|-]angle: "+"/"-" add to / subtract from the current rotation,
   no sign sets it) *)
Definition pas_rotated (old : Z) (angle : Z) (rel : bool) : Z :=
  ((if rel then old + angle else angle) mod 360)%Z.

(* a consistent flat page tree (7.7.3.2): /Count = number of leaf pages under the node, /Parent of every kid =
   the node, a page object occurs once *)
Definition pas_flat_ok (t : pa_tree) : Prop :=
  match t with
  | PaNode r _ c _ kids =>
      c = Some (Z.of_nat (length kids))
      /\ Forall (fun k => match k with PaPage _ p _ => p = Some r | PaNode _ _ _ _ _ => False end) kids
      /\ NoDup (map pa_id kids)
  | PaPage _ _ _ => False
  end.
