(* C18 proofs, part 3: machine-checked witnesses of the two defects of the unchanged tree
   (refuted full statements), and the bounded exhaustive version of the history theorems
   (finite domain: every history up to a length bound over a fixed call alphabet). *)
From Coq Require Import Sorting.Sorted.
From QV Require Import Base.Bytes Struct.NNTreeModel Struct.NNTreeSpec.
Local Open Scope Z_scope.

Notation ZT := (nnode Z).
Definition zleaf (ks : list Z) : ZT := NLeaf None (map (fun k => (k, 10 * k)) ks).
Definition zwf := wf_tree Z nn_zcmp.
Definition zfinal (t : Z) (root : ZT) (ops : list (nnop Z)) : nnst Z :=
  nn_final Z nn_zcmp t ops (nn_init Z root).

(* ------------------------------------------------------------------ F1: stale /Limits
   Full statement (DESIGN nn_wf_preserved):
     forall t ops s0, 3 <= t -> wf_tree s0 = true -> wf_tree (root (final t ops s0)) = true.
   It is FALSE on the faithful model (and on the library: ./check C18 observes the same trees):
   inserting 1..18 in ascending order into an empty tree with split threshold 3 leaves
   /Limits [9 16] on a node that contains 17 and 18. *)
Definition ins_asc (n : nat) : list (nnop Z) :=
  map (fun k => OpInsert (Z.of_nat k) (Z.of_nat k)) (seq 1 n).

Lemma nn_wf_preserved_refuted_lemma :
  exists (t : Z) (s0 : ZT) (ops : list (nnop Z)),
    3 <= t /\ zwf s0 = true /\ zwf (st_root Z (zfinal t s0 ops)) = false
    /\ (* every lookup still answers like the sorted map: only the stored /Limits are wrong *)
       nn_abs Z (st_root Z (zfinal t s0 ops)) = map (fun k => (Z.of_nat k, Z.of_nat k)) (seq 1 18).
Proof.
  exists 3, (zleaf []), (ins_asc 18). split; [lia|]. vm_compute. auto.
Qed.

(* the invalid node, explicitly *)
Lemma nn_stale_limits_witness_lemma :
  st_root Z (zfinal 3 (zleaf []) (ins_asc 18)) =
  NInner None
    [NInner (Some (1, 8))
       [NInner (Some (1, 4)) [NLeaf (Some (1, 2)) [(1, 1); (2, 2)]; NLeaf (Some (3, 4)) [(3, 3); (4, 4)]];
        NInner (Some (5, 8)) [NLeaf (Some (5, 6)) [(5, 5); (6, 6)]; NLeaf (Some (7, 8)) [(7, 7); (8, 8)]]];
     NInner (Some (9, 16))      (* <- contains 17 and 18 *)
       [NInner (Some (9, 12)) [NLeaf (Some (9, 10)) [(9, 9); (10, 10)]; NLeaf (Some (11, 12)) [(11, 11); (12, 12)]];
        NInner (Some (13, 18)) [NLeaf (Some (13, 14)) [(13, 13); (14, 14)]; NLeaf (Some (15, 16)) [(15, 15); (16, 16)];
                                NLeaf (Some (17, 18)) [(17, 17); (18, 18)]]]].
Proof. vm_compute. reflexivity. Qed.

(* ------------------------------------------------------------------ F2: end() from a failed find
   Full statement (DESIGN nn_refines_map): for every history from a valid tree, every result of the
   model equals the sorted map's.  FALSE: find(4) in {1,3,5,7} stored on two leaves returns an
   iterator equal to end() whose ++ warns and stays at end(), while "incrementing end() brings you
   to the first item". *)
Definition two_leaves : ZT :=
  seal_root Z (NInner None [NLeaf None [(1, 10); (3, 30)]; NLeaf None [(5, 50); (7, 70)]]).

Lemma nn_refines_map_refuted_lemma :
  exists (t : Z) (s0 : ZT) (ops : list (nnop Z)),
    3 <= t /\ zwf s0 = true /\
    map (fun x => fst (fst x)) (nn_run Z nn_zcmp t s0 ops) = [RIter None; RIter None] /\
    map (fun x => fst (fst x)) (sm_run Z nn_zcmp (nn_abs Z s0) ops) = [RIter None; RIter (Some (1, 10))] /\
    map (fun x => snd (fst x)) (nn_run Z nn_zcmp t s0 ops) = [0; 1] (* one warning at the ++ *).
Proof.
  exists 3, two_leaves, [OpFind 4; OpNext]. split; [lia|]. vm_compute. auto.
Qed.

(* ------------------------------------------------------------------ bounded histories *)
Definition res_eqb (a b : nnres Z) : bool :=
  match a, b with
  | RIter None, RIter None => true
  | RIter (Some (k, v)), RIter (Some (k', v')) => (k =? k') && (v =? v')
  | RRemoved None, RRemoved None => true
  | RRemoved (Some v), RRemoved (Some v') => v =? v'
  | RErr, RErr => true
  | _, _ => false
  end.
Definition kv_eqb (a b : Z * Z) : bool := (fst a =? fst b) && (snd a =? snd b).

(* the input class of F2: the current iterator is invalid but still carries a path *)
Definition stale_end (s : nnst Z) : bool :=
  (st_item Z s <? 0) && negb (match st_path Z s with [] => true | _ => false end).
Definition uses_iter (op : nnop Z) : bool :=
  match op with OpNext | OpPrev | OpInsAfter _ _ => true | _ => false end.

(* one call agrees: same result as the sorted map, same content, stored tree valid (wf_code 0:
   no /Limits on the root, keys ascending, /Limits exact, no empty non-root node, node sizes within
   the split bound), no warning *)
Definition step_ok (t : Z) (r1 : nnres Z) (s' : nnst Z) (w0 : Z) (r2 : nnres Z) (m' : smst Z) : bool :=
  res_eqb r1 r2 && list_eqb kv_eqb (nn_abs Z (st_root Z s')) (sm_map Z m')
  && (wf_code Z nn_zcmp t (st_root Z s') =? 0) && (st_warn Z s' =? w0).

(* a history agrees up to the first call outside the specified domain (insertAfter at a position
   where the key does not belong; a call on a stale end() iterator = finding F2) *)
Fixpoint agree (t : Z) (ops : list (nnop Z)) (s : nnst Z) (m : smst Z) : bool :=
  match ops with
  | [] => true
  | op :: ops' =>
      if stale_end s && uses_iter op then true else
      let '(r1, s') := nn_step Z nn_zcmp t op s in
      let '(r2, m') := sm_step Z nn_zcmp op m in
      if sm_unspec Z m' then true
      else step_ok t r1 s' (st_warn Z s) r2 m' && agree t ops' s' m'
  end.

Fixpoint sweep (alphabet : list (nnop Z)) (depth : nat) (t : Z) (s : nnst Z) (m : smst Z) : bool :=
  match depth with
  | O => true
  | S d =>
      forallb (fun op =>
        if stale_end s && uses_iter op then true else
        let '(r1, s') := nn_step Z nn_zcmp t op s in
        let '(r2, m') := sm_step Z nn_zcmp op m in
        if sm_unspec Z m' then true
        else step_ok t r1 s' (st_warn Z s) r2 m' && sweep alphabet d t s' m') alphabet
  end.

Lemma sweep_sound : forall alphabet d t s m, sweep alphabet d t s m = true ->
  forall ops, (length ops <= d)%nat -> Forall (fun op => In op alphabet) ops -> agree t ops s m = true.
Proof.
  induction d as [|d IH]; intros t s m Hs ops Hlen Hin.
  - destruct ops; [reflexivity|simpl in Hlen; lia].
  - destruct ops as [|op ops]; [reflexivity|].
    inversion Hin as [|? ? Hop Hrest]; subst.
    simpl in Hs. rewrite forallb_forall in Hs. specialize (Hs op Hop).
    simpl. destruct (stale_end s && uses_iter op); [reflexivity|].
    destruct (nn_step Z nn_zcmp t op s) as [r1 s'].
    destruct (sm_step Z nn_zcmp op m) as [r2 m'].
    destruct (sm_unspec Z m'); [reflexivity|].
    apply andb_true_iff in Hs. destruct Hs as [H1 H2]. rewrite H1. simpl.
    apply IH; [assumption|simpl in Hlen; lia|assumption].
Qed.

Definition keys5 : list Z := [1; 2; 3; 4; 5].
Definition alphabet5 : list (nnop Z) :=
  flat_map (fun k => [OpInsert k (100 + k); OpRemove k; OpFind k; OpFindLE k; OpInsAfter k (200 + k)]) keys5
  ++ [OpBegin; OpLast; OpEnd; OpNext; OpPrev; OpIterRemove].

Definition mk (n : ZT) : ZT := seal_root Z n.
Definition L (ks : list Z) : ZT := NLeaf None (map (fun k => (k, 10 * k)) ks).
Definition I (ks : list ZT) : ZT := NInner None ks.
(* the starting trees of the harness's exhaustive part *)
Definition starts (t : Z) : list ZT :=
  if t =? 3 then [mk (L []); mk (L [2; 4]); mk (L [1; 3; 5]); mk (I [L [1; 2; 3]; L [4; 5]]);
                  mk (I [I [L [1]; L [2; 3]]; I [L [5]]])]
  else if t =? 4 then [mk (L []); mk (L [1; 2; 3; 4]); mk (I [L [1; 2; 3; 4]; L [5]])]
  else [mk (L []); mk (L [1; 2; 3; 4; 5]); mk (I [L [2]; L [3]; L [4]; L [5; 6]])].

Definition init_sm (s0 : ZT) : smst Z := SmSt Z (nn_abs Z s0) None false.
Definition sweep_from (d : nat) (t : Z) (s0 : ZT) : bool :=
  sweep alphabet5 d t (nn_init Z s0) (init_sm s0).

Lemma starts_valid : forallb (fun t => forallb zwf (starts t)) [3; 4; 5] = true.
Proof. vm_compute. reflexivity. Qed.

Lemma sweep3_all : forallb (fun t => forallb (sweep_from 3 t) (starts t)) [3; 4; 5] = true.
Proof. vm_compute. reflexivity. Qed.

Lemma sweep4_empty : forallb (fun t => sweep_from 4 t (mk (L []))) [3; 4; 5] = true.
Proof. vm_compute. reflexivity. Qed.

(* Bounded version of nn_refines_map + nn_wf_preserved + nn_size_bound + iter_after_insert +
   iter_after_remove (DESIGN C18).  What is missing for the full statements: an inductive invariant
   for histories of any length from any valid tree.  The full statements themselves are false on
   the unchanged tree (nn_wf_preserved_refuted, nn_refines_map_refuted); the true statement would be
   this one with `agree` for every t >= 3, every valid s0 and every ops, with wf weakened on the
   upper /Limits of last-kid ancestors (F1).
   For every split threshold 3, 4, 5, every starting tree of `starts`, and EVERY history of at most
   three helper calls over the 31-call alphabet on keys 1..5: each result (including where the
   iterator stands after insert / insertAfter / remove) equals the sorted map's, the content
   equals the sorted map, and the stored tree is valid with node sizes within the split bound. *)
Lemma nn_history_partial_lemma : forall t s0 ops,
  In t [3; 4; 5] -> In s0 (starts t) -> (length ops <= 3)%nat ->
  Forall (fun op => In op alphabet5) ops ->
  agree t ops (nn_init Z s0) (init_sm s0) = true.
Proof.
  intros t s0 ops Ht Hs Hlen Hops.
  pose proof sweep3_all as H. rewrite forallb_forall in H. specialize (H t Ht).
  rewrite forallb_forall in H. specialize (H s0 Hs).
  unfold sweep_from in H. exact (sweep_sound alphabet5 3 t _ _ H ops Hlen Hops).
Qed.

(* the same from the empty tree for every history of at most four calls (four inserts overflow a
   leaf of threshold 3: the first root split is inside the domain) *)
Lemma nn_history_from_empty_partial_lemma : forall t ops,
  In t [3; 4; 5] -> (length ops <= 4)%nat -> Forall (fun op => In op alphabet5) ops ->
  agree t ops (nn_init Z (mk (L []))) (init_sm (mk (L []))) = true.
Proof.
  intros t ops Ht Hlen Hops.
  pose proof sweep4_empty as H. rewrite forallb_forall in H. specialize (H t Ht).
  unfold sweep_from in H. exact (sweep_sound alphabet5 4 t _ _ H ops Hlen Hops).
Qed.
