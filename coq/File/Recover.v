(* C08 - model of qpdf's damage recovery, written from the C++ in /repo:
     libqpdf/QPDFTokenizer.cc   Tokenizer::handleCharacter / presentEOF / nextToken (with max_len)
     libqpdf/BufferInputSource.cc, FileInputSource.cc   findAndSkipNextEOL
     libqpdf/InputSource.cc     findFirst / findLast (as used for "startxref")
     libqpdf/QPDF_objects.cc    Objects::parse (triggers), findStartxref, read_xref, read_xrefTable,
                                parse_xrefFirst, read_xrefEntry, read_bad_xrefEntry, read_xrefStream,
                                processXRefStream (processXRefW / Size / Index), insertXrefEntry,
                                insertFreeXrefEntry, reconstruct_xref, read_object_start,
                                readObjectAtOffset(try_recovery), resolve
     libqpdf/QPDFJob.cc         exit status (any warning => 3, error => 2)
   Bytes are N, strings are list N, offsets are N, object ids / generations are Z (int in the code).
   No proofs here. Names are prefixed rc_/K/Tt/Ev because extraction flattens the name space.

   Follows /repo up to dd6235ea (4591eb6f free entries after the section, d14d2a78 warning for generation >= 65535,
   dd6235ea comment at end of input gives tt_eof).
   What is NOT modelled (and is therefore only covered by the twin comparison of harness/c08.py, not by the
   theorems): the object parser (trailer dictionaries and the /Type /Catalog test use the strict specification
   parser StrictSyntax.parse_obj, which agrees with qpdf's parser on intact dictionaries), object streams
   (type 2 entries) and /XRefStm, cross-reference streams whose /Length is wrong or whose filter is not plain
   /FlateDecode (a file that needs any of these is reported as r_unsupported), stream-length recovery of
   non-stream-length damage classes, the page-tree walk.  Cross-reference streams themselves are modelled
   (read_xrefStream, processXRefStream and its helpers, the xref-stream fallback of reconstruct_xref). *)
From QV Require Import Base.Bytes File.StrictSyntax File.Inflate.
Local Open Scope N_scope.

(* ------------------------------------------------------------------ character classes *)
(* util::is_space : ' ' \n \r \t \f \v *)
Definition rc_is_space (c : N) : bool :=
  (c =? 32) || (c =? 10) || (c =? 13) || (c =? 9) || (c =? 12) || (c =? 11).
(* Tokenizer::isSpace : NUL or is_space *)
Definition rc_tok_space (c : N) : bool := (c =? 0) || rc_is_space c.
(* is_delimiter of QPDFTokenizer.cc *)
Definition rc_is_delim (c : N) : bool :=
  (c =? 32) || (c =? 10) || (c =? 47) || (c =? 40) || (c =? 41) || (c =? 123) || (c =? 125) ||
  (c =? 60) || (c =? 62) || (c =? 91) || (c =? 93) || (c =? 37) || (c =? 9) || (c =? 13) ||
  (c =? 11) || (c =? 12) || (c =? 0).
Definition rc_is_digit (c : N) : bool := (48 <=? c) && (c <=? 57).
Definition rc_is_hex (c : N) : bool :=
  rc_is_digit c || ((65 <=? c) && (c <=? 70)) || ((97 <=? c) && (c <=? 102)).
Definition rc_is_eol (c : N) : bool := (c =? 10) || (c =? 13).

(* ------------------------------------------------------------------ tokenizer state machine *)
Inductive rc_st := KBefore | KComment | KLt | KGt | KString | KStrEsc | KStrCR | KCharCode
  | KName | KNameHex1 | KNameHex2 | KNumber | KReal | KSign | KDecimal | KLiteral | KHex | KHex2 | KReady.

Inductive rc_tt := TtBad | TtArrClose | TtArrOpen | TtBraceClose | TtBraceOpen | TtDictClose | TtDictOpen
  | TtInteger | TtName | TtReal | TtString | TtNull | TtBool | TtWord | TtEof.

(* k_raw is raw_val reversed; k_len its length; k_in = in_token; k_before = before_token;
   k_depth = string_depth; k_dig = digit_count; k_badname = bad *)
Record rc_tk := mkTk { k_st : rc_st; k_ty : rc_tt; k_raw : list N; k_len : N; k_in : bool; k_before : bool;
                       k_depth : N; k_dig : N; k_badname : bool }.

Definition rc_tk0 : rc_tk := mkTk KBefore TtBad [] 0 false true 0 0 false.

Definition k_to (m : rc_tk) (s : rc_st) : rc_tk :=
  mkTk s (k_ty m) (k_raw m) (k_len m) (k_in m) (k_before m) (k_depth m) (k_dig m) (k_badname m).
(* token complete, current character belongs to it *)
Definition k_done (m : rc_tk) (t : rc_tt) : rc_tk :=
  mkTk KReady t (k_raw m) (k_len m) (k_in m) (k_before m) (k_depth m) (k_dig m) (k_badname m).
(* token complete, current character is to be unread (in_token := false) *)
Definition k_done_unread (m : rc_tk) (t : rc_tt) : rc_tk :=
  mkTk KReady t (k_raw m) (k_len m) false (k_before m) (k_depth m) (k_dig m) (k_badname m).
Definition k_depth_set (m : rc_tk) (d : N) : rc_tk :=
  mkTk (k_st m) (k_ty m) (k_raw m) (k_len m) (k_in m) (k_before m) d (k_dig m) (k_badname m).
Definition k_dig_set (m : rc_tk) (d : N) : rc_tk :=
  mkTk (k_st m) (k_ty m) (k_raw m) (k_len m) (k_in m) (k_before m) (k_depth m) d (k_badname m).
Definition k_bad_set (m : rc_tk) : rc_tk :=
  mkTk (k_st m) (k_ty m) (k_raw m) (k_len m) (k_in m) (k_before m) (k_depth m) (k_dig m) true.
Definition k_push (m : rc_tk) (c : N) : rc_tk :=
  mkTk (k_st m) (k_ty m) (c :: k_raw m) (k_len m + 1) (k_in m) (k_before m) (k_depth m) (k_dig m) (k_badname m).
Definition k_in_set (m : rc_tk) (b : bool) : rc_tk :=
  mkTk (k_st m) (k_ty m) (k_raw m) (k_len m) b (k_before m) (k_depth m) (k_dig m) (k_badname m).

Definition rc_rev_true : list N := [101; 117; 114; 116].
Definition rc_rev_false : list N := [101; 115; 108; 97; 102].
Definition rc_rev_null : list N := [108; 108; 117; 110].
Definition rc_beq (a b : list N) : bool := list_eqb N.eqb a b.

Definition rc_in_top (m : rc_tk) (c : N) : rc_tk :=
  if c =? 40 then k_depth_set (k_to m KString) 1
  else if c =? 60 then k_to m KLt
  else if c =? 62 then k_to m KGt
  else if c =? 41 then k_done m TtBad
  else if c =? 91 then k_done m TtArrOpen
  else if c =? 93 then k_done m TtArrClose
  else if c =? 123 then k_done m TtBraceOpen
  else if c =? 125 then k_done m TtBraceClose
  else if c =? 47 then k_to m KName
  else if rc_is_digit c then k_to m KNumber
  else if (c =? 43) || (c =? 45) then k_to m KSign
  else if c =? 46 then k_to m KDecimal
  else k_to m KLiteral.

Definition rc_in_literal (m : rc_tk) (c : N) : rc_tk :=
  if rc_is_delim c then
    k_done_unread m (if rc_beq (k_raw m) rc_rev_true || rc_beq (k_raw m) rc_rev_false then TtBool
                     else if rc_beq (k_raw m) rc_rev_null then TtNull else TtWord)
  else m.

Definition rc_in_name (m : rc_tk) (c : N) : rc_tk :=
  if rc_is_delim c then k_done_unread m (if k_badname m then TtBad else TtName)
  else if c =? 35 then k_to m KNameHex1
  else m.

Definition rc_in_string (m : rc_tk) (c : N) : rc_tk :=
  if c =? 92 then k_to m KStrEsc
  else if c =? 40 then k_depth_set m (k_depth m + 1)
  else if c =? 41 then
    (if k_depth m - 1 =? 0 then k_done (k_depth_set m 0) TtString else k_depth_set m (k_depth m - 1))
  else if c =? 13 then k_to m KStrCR
  else m.

Definition rc_in_hex (m : rc_tk) (c : N) : rc_tk :=
  if rc_is_hex c then k_to m KHex2
  else if c =? 62 then k_done m TtString
  else if rc_tok_space c then m
  else k_done m TtBad.

Definition rc_in_hex2 (m : rc_tk) (c : N) : rc_tk :=
  if rc_is_hex c then k_to m KHex
  else if c =? 62 then k_done m TtString
  else if rc_tok_space c then m
  else k_done m TtBad.

Definition rc_handle (m : rc_tk) (c : N) : rc_tk :=
  match k_st m with
  | KBefore =>
      if rc_tok_space c then m
      else if c =? 37 then k_to m KComment
      else rc_in_top (mkTk (k_st m) (k_ty m) (k_raw m) (k_len m) true false (k_depth m) (k_dig m) (k_badname m)) c
  | KComment => if rc_is_eol c then k_to m KBefore else m
  | KLt => if c =? 60 then k_done m TtDictOpen else rc_in_hex (k_to m KHex) c
  | KGt => if c =? 62 then k_done m TtDictClose else k_done_unread m TtBad
  | KString => rc_in_string m c
  | KStrEsc =>
      if (48 <=? c) && (c <=? 55) then k_dig_set (k_to m KCharCode) 1
      else if c =? 13 then k_to m KStrCR
      else k_to m KString
  | KStrCR => if c =? 10 then k_to m KString else rc_in_string (k_to m KString) c
  | KCharCode =>
      if (48 <=? c) && (c <=? 55) then
        (if k_dig m + 1 <? 3 then k_dig_set m (k_dig m + 1) else k_to m KString)
      else rc_in_string (k_to m KString) c
  | KName => rc_in_name m c
  | KNameHex1 => if rc_is_hex c then k_to m KNameHex2 else rc_in_name (k_to m KName) c
  | KNameHex2 => if rc_is_hex c then k_to m KName (* the "#00" case sets bad; handled by rc_name_hex2 below *)
                 else rc_in_name (k_to m KName) c
  | KNumber =>
      if rc_is_digit c then m
      else if c =? 46 then k_to m KReal
      else if rc_is_delim c then k_done_unread m TtInteger
      else k_to m KLiteral
  | KReal =>
      if rc_is_digit c then m
      else if rc_is_delim c then k_done_unread m TtReal
      else k_to m KLiteral
  | KSign =>
      if rc_is_digit c then k_to m KNumber
      else if c =? 46 then k_to m KDecimal
      else rc_in_literal (k_to m KLiteral) c
  | KDecimal => if rc_is_digit c then k_to m KReal else rc_in_literal (k_to m KLiteral) c
  | KLiteral => rc_in_literal m c
  | KHex => rc_in_hex m c
  | KHex2 => rc_in_hex2 m c
  | KReady => m
  end.

(* inNameHex2 with char_code == 0 ("#00") marks the name bad. raw_val at that moment ends in "#0" and the
   current character is '0'. *)
Definition rc_handle' (m : rc_tk) (c : N) : rc_tk :=
  match k_st m with
  | KNameHex2 =>
      if (c =? 48) && (match k_raw m with 48 :: _ => true | _ => false end)
      then k_bad_set (k_to m KName) else rc_handle m c
  | _ => rc_handle m c
  end.

Definition rc_present_eof (m : rc_tk) : rc_tk :=
  match k_st m with
  | KName | KNameHex1 | KNameHex2 | KNumber | KReal | KSign | KDecimal | KLiteral =>
      let m1 := rc_handle' m 12 in
      let m2 := if k_in m1 then k_push m1 12 else m1 in
      k_in_set (k_to m2 KReady) true
  | KBefore => k_done m TtEof
  | KComment => k_done m TtEof      (* /repo dd6235ea: a comment ended by the end of input is followed by end of input *)
  | KReady => m
  | _ => k_done m TtBad
  end.

Definition rc_st_ready (s : rc_st) : bool := match s with KReady => true | _ => false end.

(* Tokenizer::nextToken. Result: machine, characters consumed, and whether end of input was reached
   before the token was complete. *)
Fixpoint rc_next (maxlen : N) (m : rc_tk) (s : list N) (cn : N) : rc_tk * N * bool :=
  if rc_st_ready (k_st m) then (m, cn, false) else
  match s with
  | [] => (rc_present_eof m, cn, true)
  | c :: s' =>
      let m1 := rc_handle' m c in
      let m2 := if k_in m1 then k_push m1 c else m1 in
      let m3 := if negb (maxlen =? 0) && (maxlen <=? k_len m2) && negb (rc_st_ready (k_st m2))
                then k_done m2 TtBad else m2 in
      rc_next maxlen m3 s' (cn + 1)
  end.

Record rc_token := rc_mkTok { rc_t_ty : rc_tt; rc_t_raw : list N; rc_t_end : N; rc_t_eof : bool }.

(* readToken(input, max_len): rc_t_end = offset of the input position afterwards, relative to s *)
Definition rc_read_token (maxlen : N) (s : list N) : rc_token :=
  match rc_next maxlen rc_tk0 s 0 with
  | (m, cn, e) =>
      rc_mkTok (k_ty m) (rev' (k_raw m)) (if negb (k_in m) && negb (k_before m) then cn - 1 else cn) e
  end.

Definition rc_drop (n : N) (s : list N) : list N := skipn (N.to_nat n) s.

(* ------------------------------------------------------------------ findAndSkipNextEOL *)
(* position of the first CR/LF (or end), and the rest from there *)
Fixpoint rc_to_eol (s : list N) (n : N) : list N * N :=
  match s with
  | [] => ([], n)
  | c :: s' => if rc_is_eol c then (s, n) else rc_to_eol s' (n + 1)
  end.
Fixpoint rc_eols (s : list N) (n : N) : list N * N :=
  match s with
  | [] => ([], n)
  | c :: s' => if rc_is_eol c then rc_eols s' (n + 1) else (s, n)
  end.
Inductive rc_where := WInside | WEolEnd | WNoEol.
(* returns rest, consumed, and where the skip ended: strictly inside s / on an EOL run that reaches the end of
   s / without finding any EOL *)
Definition rc_skip_eol (s : list N) : list N * N * rc_where :=
  match rc_to_eol s 0 with
  | ([], n) => ([], n, WNoEol)
  | (_ :: s1, n) =>
      match rc_eols s1 (n + 1) with
      | ([], k) => ([], k, WEolEnd)
      | (r, k) => (r, k, WInside)
      end
  end.

(* ------------------------------------------------------------------ numbers *)
Definition rc_digits_val (ds : list N) : Z := Z.of_N (dec_value ds).
(* QUtil::string_to_int / string_to_ll on an integer token (optional sign, digits) *)
Definition rc_atoi (raw : list N) : Z :=
  match raw with
  | 45 :: ds => Z.opp (rc_digits_val ds)
  | 43 :: ds => rc_digits_val ds
  | _ => rc_digits_val raw
  end.

Definition rc_kw_obj : list N := [111; 98; 106].
Definition rc_kw_trailer : list N := [116; 114; 97; 105; 108; 101; 114].
Definition rc_kw_startxref : list N := [115; 116; 97; 114; 116; 120; 114; 101; 102].
Definition rc_kw_xref : list N := [120; 114; 101; 102].
Definition rc_kw_stream : list N := [115; 116; 114; 101; 97; 109].

Definition rc_is_int (t : rc_token) : bool := match rc_t_ty t with TtInteger => true | _ => false end.
Definition rc_is_word (t : rc_token) (w : list N) : bool :=
  match rc_t_ty t with TtWord => rc_beq (rc_t_raw t) w | _ => false end.

(* ------------------------------------------------------------------ the line scan of reconstruct_xref *)
Inductive rc_event := EvObj (obj gen : Z) (at_off : N) | EvTrailer (pos : N) | EvStartxref (pos : N).

Definition rc_shift (base : N) (e : rc_event) : rc_event :=
  match e with
  | EvObj o g a => EvObj o g (base + a)
  | EvTrailer p => EvTrailer (base + p)
  | EvStartxref p => EvStartxref (base + p)
  end.

(* one iteration of the while loop, on the input from the current position: the event found (positions
   relative to s), the number of bytes after which the next iteration starts, where it ended, and whether a
   token read ran into the end of s *)
Definition rc_scan_step (s : list N) : option rc_event * N * rc_where * bool :=
  let t1 := rc_read_token 10 s in
  let s1 := rc_drop (rc_t_end t1) s in
  let '(ev, touched) :=
    if rc_is_int t1 then
      let t2 := rc_read_token 10 s1 in
      if rc_is_int t2 then
        let t3 := rc_read_token 10 (rc_drop (rc_t_end t2) s1) in
        (if rc_is_word t3 rc_kw_obj
         then Some (EvObj (rc_atoi (rc_t_raw t1)) (rc_atoi (rc_t_raw t2)) (rc_t_end t1 - N.of_nat (length (rc_t_raw t1))))
         else None, rc_t_eof t1 || rc_t_eof t2 || rc_t_eof t3)
      else (None, rc_t_eof t1 || rc_t_eof t2)
    else if rc_is_word t1 rc_kw_trailer then (Some (EvTrailer (rc_t_end t1)), rc_t_eof t1)
    else if rc_is_word t1 rc_kw_startxref then (Some (EvStartxref (rc_t_end t1)), rc_t_eof t1)
    else (None, rc_t_eof t1) in
  let '(_, k, w) := rc_skip_eol s1 in
  (ev, rc_t_end t1 + k, w, touched).

(* the while loop: the position advances by k after every iteration. Written as a walk over the input with a
   count of bytes still to be skipped, so that no fuel is needed (an iteration always advances: k >= 1; a k of 0,
   which cannot happen, would be treated as 1). base = absolute offset of the head of s. *)
Fixpoint rc_scan_walk (s : list N) (skip : N) (base : N) (acc : list rc_event) : list rc_event :=
  match s with
  | [] => rev' acc
  | _ :: s' =>
      if 0 <? skip then rc_scan_walk s' (skip - 1) (base + 1) acc
      else
        match rc_scan_step s with
        | (ev, k, _, _) =>
            rc_scan_walk s' (k - 1) (base + 1)
                         (match ev with Some e => rc_shift base e :: acc | None => acc end)
        end
  end.

(* every event of the scan over the whole file, in file order *)
Definition rc_scan_events (file : list N) : list rc_event := rc_scan_walk file 0 0 [].

(* ------------------------------------------------------------------ xref table (std::map<QPDFObjGen, entry>) *)
Definition rc_og := (Z * Z)%type.
Definition rc_og_ltb (a b : rc_og) : bool :=
  (fst a <? fst b)%Z || ((fst a =? fst b)%Z && (snd a <? snd b)%Z).
Definition rc_og_eqb (a b : rc_og) : bool := (fst a =? fst b)%Z && (snd a =? snd b)%Z.
Definition rc_table := list (rc_og * N).

(* try_emplace: keeps an existing entry; the list stays sorted by (obj, gen) *)
Fixpoint rc_emplace (k : rc_og) (v : N) (t : rc_table) : rc_table :=
  match t with
  | [] => [(k, v)]
  | (k', v') :: t' =>
      if rc_og_eqb k k' then t
      else if rc_og_ltb k k' then (k, v) :: t
      else (k', v') :: rc_emplace k v t'
  end.
Fixpoint rc_lookup (k : rc_og) (t : rc_table) : option N :=
  match t with
  | [] => None
  | (k', v) :: t' => if rc_og_eqb k k' then Some v else rc_lookup k t'
  end.
Definition rc_memZ (x : Z) (l : list Z) : bool := existsb (Z.eqb x) l.

(* insertXrefEntry(obj, 1, f1, f2) *)
Definition rc_insert (maxid : Z) (deleted : list Z) (obj gen : Z) (off : N) (t : rc_table) : rc_table :=
  if ((0 <? obj) && (obj <=? maxid) && (0 <=? gen) && (gen <? 65535))%Z then
    if rc_memZ obj deleted then t else rc_emplace (obj, gen) off t
  else t.

(* found_objects: (obj, gen, offset) of every header whose id is <= xref_table_max_id, file order *)
Fixpoint rc_found (maxid : Z) (evs : list rc_event) : list (Z * Z * N) :=
  match evs with
  | [] => []
  | EvObj o g a :: r => if (o <=? maxid)%Z then (o, g, a) :: rc_found maxid r else rc_found maxid r
  | _ :: r => rc_found maxid r
  end.
Fixpoint rc_big_ids (maxid : Z) (evs : list rc_event) : bool :=
  match evs with
  | [] => false
  | EvObj o _ _ :: r => (maxid <? o)%Z || rc_big_ids maxid r
  | _ :: r => rc_big_ids maxid r
  end.
Fixpoint rc_trailer_pos (evs : list rc_event) : list N :=
  match evs with [] => [] | EvTrailer p :: r => p :: rc_trailer_pos r | _ :: r => rc_trailer_pos r end.
Fixpoint rc_startxref_pos (evs : list rc_event) : list N :=
  match evs with [] => [] | EvStartxref p :: r => p :: rc_startxref_pos r | _ :: r => rc_startxref_pos r end.

(* "for (it = found_objects.rbegin(); ...) insertXrefEntry(obj, 1, token_start, gen)": the list is given
   last-first *)
Fixpoint rc_insert_all (maxid : Z) (deleted : list Z) (found_rev : list (Z * Z * N)) (t : rc_table) : rc_table :=
  match found_rev with
  | [] => t
  | (o, g, a) :: r => rc_insert_all maxid deleted r (rc_insert maxid deleted o g a t)
  end.

Definition rc_recon_table (maxid : Z) (deleted : list Z) (evs : list rc_event) : rc_table :=
  rc_insert_all maxid deleted (rev' (rc_found maxid evs)) [].

(* ------------------------------------------------------------------ parse(): startxref *)
Fixpoint rc_prefix (p s : list N) : bool :=
  match p, s with
  | [], _ => true
  | a :: p', b :: s' => (a =? b) && rc_prefix p' s'
  | _, [] => false
  end.

(* Objects::findStartxref at a match of "startxref": Some (offset of the integer token relative to s) *)
Definition rc_check_startxref (s : list N) : option N :=
  let t1 := rc_read_token 0 s in
  if rc_is_word t1 rc_kw_startxref then
    let s1 := rc_drop (rc_t_end t1) s in
    let t2 := rc_read_token 0 s1 in
    if rc_is_int t2 then Some (rc_t_end t1 + (rc_t_end t2 - N.of_nat (length (rc_t_raw t2)))) else None
  else None.

(* InputSource::findLast("startxref", start, 0, finder): walk forward, keep the last accepted match; after an
   accepted match the search continues from the integer token. skip = bytes still to be skipped before matches
   are considered again. Returns the absolute offset of the integer token of the last accepted match. *)
Fixpoint rc_find_last_sx (s : list N) (pos : N) (skip : N) (best : option N) : option N :=
  match s with
  | [] => best
  | c :: s' =>
      if 0 <? skip then rc_find_last_sx s' (pos + 1) (skip - 1) best
      else if (c =? 115) && rc_prefix rc_kw_startxref s then
        match rc_check_startxref s with
        | Some rel => rc_find_last_sx s' (pos + 1) (rel - 1) (Some (pos + rel))
        | None => rc_find_last_sx s' (pos + 1) 0 best
        end
      else rc_find_last_sx s' (pos + 1) 0 best
  end.

(* the xref offset parse() ends up with: 0 when no startxref is found *)
Definition rc_startxref (file : list N) (len : N) : Z :=
  let start := if 1054 <? len then len - 1054 else 0 in
  match rc_find_last_sx (rc_drop start file) start 0 None with
  | Some p => rc_atoi (rc_t_raw (rc_read_token 0 (rc_drop p file)))
  | None => 0%Z
  end.

(* ------------------------------------------------------------------ read_xrefTable *)
Fixpoint rc_take_while (f : N -> bool) (s : list N) (acc : list N) : list N * list N :=
  match s with
  | c :: s' => if f c then rc_take_while f s' (c :: acc) else (rev' acc, s)
  | [] => (rev' acc, [])
  end.
Definition rc_len (s : list N) : N := N.of_nat (length s).
Definition rc_hd (s : list N) : N := match s with c :: _ => c | [] => 0 end.

(* parse_xrefFirst on the (at most 50 byte, NUL padded) line: Some (obj, num, bytes) *)
Definition rc_xref_first (line : list N) : option (Z * Z * N) :=
  let '(sp0, r0) := rc_take_while rc_is_space line [] in
  let '(d1, r1) := rc_take_while rc_is_digit r0 [] in
  match d1 with [] => None | _ =>
    if negb (rc_is_space (rc_hd r1)) then None else
    let '(sp1, r2) := rc_take_while rc_is_space r1 [] in
    let '(d2, r3) := rc_take_while rc_is_digit r2 [] in
    match d2 with [] => None | _ =>
      let '(sp2, r4) := rc_take_while rc_is_space r3 [] in
      Some (rc_digits_val d1, rc_digits_val d2, rc_len line - rc_len r4)
    end
  end.

Inductive rc_entry_res := XeOk (f1 : N) (f2 : Z) (ty : N) (warned : bool) (next_pos : N) | XeBad.

(* read_bad_xrefEntry: the line is re-read from `pos` (readLine(30)); s is the input from pos *)
Definition rc_bad_entry (s : list N) (pos : N) : rc_entry_res :=
  let l30 := firstn 30 s in
  let '(line, after) := rc_take_while (fun c => negb (rc_is_eol c)) l30 [] in
  (* position after the call *)
  let next_pos :=
    match after with
    | [] => pos + snd (fst (rc_skip_eol s))               (* no EOL within 30 bytes: findAndSkipNextEOL *)
    | _ => let '(_, rest) := rc_take_while rc_is_eol after [] in
           match rest with
           | [] => pos - 1                                 (* find_first_not_of = npos, cast to -1 *)
           | _ => pos + (rc_len l30 - rc_len rest)
           end
    end in
  let '(sp0, r0) := rc_take_while rc_is_space line [] in
  let '(d1, r1) := rc_take_while rc_is_digit r0 [] in
  match d1 with [] => XeBad | _ =>
    if negb (rc_is_space (rc_hd r1)) then XeBad else
    let '(sp1, r2) := rc_take_while rc_is_space r1 [] in
    let '(d2, r3) := rc_take_while rc_is_digit r2 [] in
    match d2 with [] => XeBad | _ =>
      if negb (rc_is_space (rc_hd r3)) then XeBad else
      let '(sp2, r4) := rc_take_while rc_is_space r3 [] in
      let ty := rc_hd r4 in
      if (ty =? 102) || (ty =? 110) then
        let invalid := negb (rc_len sp0 =? 0) || (1 <? rc_len sp1) || (1 <? rc_len sp2)
                       || negb (rc_len d1 =? 10) || negb (rc_len d2 =? 5) in
        XeOk (dec_value d1) (rc_digits_val d2) ty invalid next_pos
      else XeBad
    end
  end.

(* leading zeros, then at most (10 - zeros) further digits with the post-increment of `f1_len++ < 10` *)
Fixpoint rc_entry_digits (s : list N) (cnt : N) (lim : N) (acc : N) : N * N * list N :=
  match s with
  | c :: s' =>
      if rc_is_digit c then
        (if cnt <? lim then rc_entry_digits s' (cnt + 1) lim (acc * 10 + (c - 48)) else (acc, cnt + 1, s))
      else (acc, cnt, s)
  | [] => (acc, cnt, [])
  end.

(* read_xrefEntry: s is the input from pos *)
Definition rc_entry (s : list N) (pos : N) : rc_entry_res :=
  let l20 := firstn 20 s in
  if negb (rc_len l20 =? 20) then XeBad else
  let '(z1, r1) := rc_take_while (N.eqb 48) l20 [] in
  let '(f1, f1len, r2) := rc_entry_digits r1 (rc_len z1) 10 0 in
  match r2 with
  | [] => XeBad
  | c :: r3 =>
    if negb (rc_is_space c) then XeBad else
    let '(z2, r4) := rc_take_while (N.eqb 48) r3 [] in
    let '(f2, f2len, r5) := rc_entry_digits r4 (rc_len z2) 5 0 in
    let fast :=
      match r5 with
      | c1 :: ty :: c3 :: c4 :: _ =>
          rc_is_space c1 && ((ty =? 102) || (ty =? 110)) && negb (c3 =? 0) && negb (c4 =? 0) && rc_is_eol c4
          && (f1len =? 10) && (f2len =? 5)
      | _ => false
      end in
    if fast then XeOk f1 (Z.of_N f2) (nth 1 r5 0) false (pos + 20) else rc_bad_entry s pos
  end.

(* state of the reader while a cross-reference section is read *)
(* x_free: the free entries of the section being read; they become deleted_objects only after the whole section
   (entries, trailer, /XRefStm) has been read *)
Record rc_xstate := mkX { x_table : rc_table; x_deleted : list Z; x_warn : bool; x_free : list rc_og }.

Definition rc_x_insert (maxid : Z) (st : rc_xstate) (i : Z) (e_f1 : N) (e_f2 : Z) (ty : N) (w : bool) : rc_xstate :=
  if ty =? 102 then
    (* free_entries.emplace_back(i, f2) *)
    mkX (x_table st) (x_deleted st) (x_warn st || w) ((i, e_f2) :: x_free st)
  else
    (* /repo d14d2a78: read_xrefTable warns about an in-use entry whose generation insertXrefEntry will reject
       ("ignoring in-use entry with invalid generation"); the entry is still dropped *)
    mkX (rc_insert maxid (x_deleted st) i e_f2 e_f1 (x_table st)) (x_deleted st)
        (x_warn st || w || (65535 <=? e_f2)%Z) (x_free st).

(* "for (auto const& og: free_entries) insertFreeXrefEntry(og)" at the end of read_xrefTable; x_free is in
   reverse order of appearance *)
Definition rc_apply_free (maxid : Z) (st : rc_xstate) : rc_xstate :=
  mkX (x_table st)
      (fold_left (fun del og =>
                    if negb (match rc_lookup og (x_table st) with Some _ => true | None => false end)
                       && (fst og <=? maxid)%Z
                    then fst og :: del else del) (rev' (x_free st)) (x_deleted st))
      (x_warn st) [].

(* the entries of one subsection; Some (state, position after) or None on an invalid entry (state so far kept
   in the second component) *)
Fixpoint rc_entries (n : nat) (maxid : Z) (file : list N) (len : N) (pos : N) (i : Z) (st : rc_xstate)
  : option N * rc_xstate :=
  match n with
  | O => (Some pos, st)
  | S n' =>
      match (if len <=? pos then XeBad else rc_entry (rc_drop pos file) pos) with
      | XeBad => (None, st)
      | XeOk f1 f2 ty w np => rc_entries n' maxid file len np (i + 1)%Z (rc_x_insert maxid st i f1 f2 ty w)
      end
  end.

Definition rc_int_max : Z := 2147483647.

Inductive rc_sec_res :=
  | SecOk (st : rc_xstate) (trailer : list (list N * pobj))
  | SecErr (st : rc_xstate).

(* the subsections of one section from `pos` (just after "xref" and white space), then the trailer *)
Fixpoint rc_subsections (fuel : nat) (maxid : Z) (file : list N) (len : N) (pos : N) (st : rc_xstate) : rc_sec_res :=
  match fuel with
  | O => SecErr st
  | S f =>
      let s := if len <=? pos then [] else rc_drop pos file in
      let l50 := firstn 50 s in
      match rc_xref_first (l50 ++ repeat 0 (50 - length l50)) with
      | None => SecErr st
      | Some (obj, num, bytes) =>
          (* string_to_int throws above INT_MAX; a subsection claiming more entries than the file has bytes
             cannot be complete: it is run for len+1 entries, which must fail *)
          if (rc_int_max <? obj)%Z || (rc_int_max <? num)%Z then SecErr st else
          let too_many := (Z.of_N len <? num)%Z in
          match rc_entries (if too_many then S (length file) else Z.to_nat num) maxid file len (pos + bytes) obj st with
          | (None, st') => SecErr st'
          | (Some p, st') =>
              if too_many then SecErr st' else
              let s' := if len <=? p then [] else rc_drop p file in
              let t := rc_read_token 0 s' in
              if rc_is_word t rc_kw_trailer then
                match parse_obj 2000 (rc_drop (rc_t_end t) s') with
                | Some (SpDict d, _) => SecOk st' d
                | _ => SecErr st'
                end
              else rc_subsections f maxid file len p st'
          end
      end
  end.

Definition rc_n_Size : list N := [83; 105; 122; 101].
Definition rc_n_Prev : list N := [80; 114; 101; 118].
Definition rc_n_Root : list N := [82; 111; 111; 116].
Definition rc_n_Type : list N := [84; 121; 112; 101].
Definition rc_n_Catalog : list N := [67; 97; 116; 97; 108; 111; 103].
Definition rc_n_XRefStm : list N := [88; 82; 101; 102; 83; 116; 109].

Record rc_xres := mkXR { xr_ok : bool; xr_state : rc_xstate; xr_trailer : option (list (list N * pobj));
                         xr_unsupported : bool }.

Fixpoint rc_maxZ (l : list Z) (m : Z) : Z := match l with [] => m | x :: r => rc_maxZ r (Z.max x m) end.

(* drop the lower generations of an id that appears twice (the loop at the end of read_xref) *)
Fixpoint rc_highest_gen (t : rc_table) : rc_table :=
  match t with
  | (k1, v1) :: (((k2, v2) :: _) as r) =>
      if (fst k1 =? fst k2)%Z && (0 <? fst k1)%Z then rc_highest_gen r else (k1, v1) :: rc_highest_gen r
  | _ => t
  end.

(* ------------------------------------------------------------------ read_object_start *)
Definition rc_object_start (s : list N) : option rc_og :=
  let t1 := rc_read_token 0 s in
  if rc_is_int t1 then
    let s1 := rc_drop (rc_t_end t1) s in
    let t2 := rc_read_token 0 s1 in
    if rc_is_int t2 then
      let t3 := rc_read_token 0 (rc_drop (rc_t_end t2) s1) in
      if rc_is_word t3 rc_kw_obj then
        let o := rc_atoi (rc_t_raw t1) in
        if (o =? 0)%Z then None else Some (o, rc_atoi (rc_t_raw t2))
      else None
    else None
  else None.

(* ------------------------------------------------------------------ cross-reference streams *)
(* read_xrefStream / processXRefStream (processXRefW, processXRefSize, processXRefIndex, the size check, the entry
   loop).  The stream object at the offset is taken apart with the strict specification parser; its data are the
   /Length bytes after the stream keyword, which must be followed by endstream (stream-length recovery is not
   modelled: r_unsupported), undecoded or through /FlateDecode without parameters (File/Inflate.v; any other filter:
   r_unsupported).  Entries of type 2 (objects in object streams) are outside the class: r_unsupported. *)
Definition rc_n_W : list N := [87].
Definition rc_n_Index : list N := [73; 110; 100; 101; 120].
Definition rc_n_Length : list N := [76; 101; 110; 103; 116; 104].
Definition rc_n_Filter : list N := [70; 105; 108; 116; 101; 114].
Definition rc_n_FlateDecode : list N := [70; 108; 97; 116; 101; 68; 101; 99; 111; 100; 101].
Definition rc_n_DecodeParms : list N := [68; 101; 99; 111; 100; 101; 80; 97; 114; 109; 115].
Definition rc_n_XRef : list N := [88; 82; 101; 102].
Definition rc_kw_endstream : list N := [101; 110; 100; 115; 116; 114; 101; 97; 109].

(* the dictionary of the object at `off` if that object is a stream of /Type /XRef (isStreamOfType), and what follows
   the stream keyword *)
Definition rc_xs_dict_at (file : list N) (len : N) (off : N) : option (list (list N * pobj) * list N) :=
  if len <=? off then None else
  let s := rc_drop off file in
  match rc_object_start s with
  | None => None
  | Some _ =>
      let t1 := rc_read_token 0 s in
      let s1 := rc_drop (rc_t_end t1) s in
      let t2 := rc_read_token 0 s1 in
      let s2 := rc_drop (rc_t_end t2) s1 in
      let t3 := rc_read_token 0 s2 in
      match parse_obj 2000 (rc_drop (rc_t_end t3) s2) with
      | Some (SpDict d, rest) =>
          let t4 := rc_read_token 0 rest in
          if rc_is_word t4 rc_kw_stream then
            match dict_get d rc_n_Type with
            | Some (SpName n) => if rc_beq n rc_n_XRef then Some (d, rc_drop (rc_t_end t4) rest) else None
            | _ => None
            end
          else None
      | _ => None
      end
  end.

Inductive rc_xs_obj := XoNone | XoUnsupported | XoStream (d : list (list N * pobj)) (data : list N).

(* getStreamData(qpdf_dl_specialized) of that object *)
Definition rc_xs_object (file : list N) (len : N) (off : N) : rc_xs_obj :=
  match rc_xs_dict_at file len off with
  | None => XoNone
  | Some (d, after) =>
      let body := match after with 10 :: b => Some b | 13 :: 10 :: b => Some b | _ => None end in
      match body, dict_get d rc_n_Length with
      | Some b, Some (SpInt l) =>
          if (l <? 0)%Z || (rc_len b <? Z.to_N l) then XoUnsupported else
          let raw := firstn (Z.to_nat l) b in
          if negb (rc_is_word (rc_read_token 0 (skipn (Z.to_nat l) b)) rc_kw_endstream) then XoUnsupported else
          match dict_get d rc_n_Filter, dict_get d rc_n_DecodeParms with
          | None, _ => XoStream d raw
          | Some (SpName f), None =>
              if rc_beq f rc_n_FlateDecode
              then match zlib_inflate raw with Some (out, _) => XoStream d out | None => XoUnsupported end
              else XoUnsupported
          | _, _ => XoUnsupported
          end
      | _, _ => XoUnsupported
      end
  end.

(* processXRefW: Some (w0, w1, w2), None = "does not have a proper /W key" and the like (thrown) *)
Definition rc_xs_W (d : list (list N * pobj)) : option (N * N * N) :=
  match dict_get d rc_n_W with
  | Some (SpArr (SpInt a :: SpInt b :: SpInt c :: _)) =>
      if ((0 <=? a) && (a <=? 8) && (0 <=? b) && (b <=? 8) && (0 <=? c) && (c <=? 8) && negb (a + b + c =? 0))%Z
      then Some (Z.to_N a, Z.to_N b, Z.to_N c) else None
  | _ => None
  end.

(* processXRefSize *)
Definition rc_xs_size (d : list (list N * pobj)) : option Z :=
  match dict_get d rc_n_Size with
  | Some (SpInt z) => if (0 <=? z)%Z && (z <? rc_int_max)%Z then Some z else None
  | _ => None
  end.

(* processXRefIndex: the subsections (first object, count) and the number of entries *)
Fixpoint rc_xs_pairs (l : list pobj) : option (list (Z * Z)) :=
  match l with
  | [] => Some []
  | SpInt f :: SpInt c :: r =>
      if (f <? 0)%Z || (c <=? 0)%Z || (rc_int_max <? f)%Z || (rc_int_max <? c)%Z then None else
      match rc_xs_pairs r with Some ps => Some ((f, c) :: ps) | None => None end
  | _ => None
  end.
Definition rc_xs_index (d : list (list N * pobj)) (size : Z) : option (list (Z * Z)) :=
  match dict_get d rc_n_Index with
  | None | Some SpNull => Some [(0%Z, size)]
  | Some (SpArr []) => None
  | Some (SpArr l) => rc_xs_pairs l
  | Some _ => None
  end.
Definition rc_xs_count (idx : list (Z * Z)) : Z := fold_left (fun a p => (a + snd p)%Z) idx 0%Z.

(* the size check of processXRefStream: None = thrown ("Cross-reference stream data has the wrong size", fewer bytes
   than announced), Some w = goes on, with a warning when there are more bytes than announced *)
Definition rc_xs_check (esize : N) (nent : Z) (actual : N) : option bool :=
  if (Z.of_N esize * nent =? Z.of_N actual)%Z then Some false
  else if (Z.of_N actual <? Z.of_N esize * nent)%Z then None
  else Some true.

Fixpoint rc_be (bs : list N) (acc : N) : N := match bs with [] => acc | b :: r => rc_be r (acc * 256 + b) end.

(* insertFreeXrefEntry, called at once for a type 0 entry of a stream *)
Definition rc_free1 (maxid : Z) (st : rc_xstate) (obj : Z) : rc_xstate :=
  if negb (match rc_lookup (obj, 0%Z) (x_table st) with Some _ => true | None => false end) && (obj <=? maxid)%Z
  then mkX (x_table st) (obj :: x_deleted st) (x_warn st) (x_free st) else st.

(* the entries of one subsection: rest of the data, state, whether a type 2 entry was seen *)
Fixpoint rc_xs_entries (n : nat) (w : N * N * N) (recovery : bool) (maxid : Z) (obj : Z) (data : list N)
                       (st : rc_xstate) (t2 : bool) : list N * rc_xstate * bool :=
  match n with
  | O => (data, st, t2)
  | S n' =>
      let '(w0, w1, w2) := w in
      let f0 := if w0 =? 0 then 1 else rc_be (firstn (N.to_nat w0) data) 0 in
      let d1 := skipn (N.to_nat w0) data in
      let f1 := rc_be (firstn (N.to_nat w1) d1) 0 in
      let d2 := skipn (N.to_nat w1) d1 in
      let f2 := rc_be (firstn (N.to_nat w2) d2) 0 in
      let d3 := skipn (N.to_nat w2) d2 in
      let '(st1, t2') :=
        if (obj =? 0)%Z then (st, t2)
        else if f0 =? 0 then (rc_free1 maxid st obj, t2)
        else if f0 =? 2 then (st, true)
        else if recovery then (st, t2)
        else if f0 =? 1
             then (mkX (rc_insert maxid (x_deleted st) obj (Z.of_N f2) f1 (x_table st)) (x_deleted st) (x_warn st) (x_free st), t2)
             else (st, t2) in
      rc_xs_entries n' w recovery maxid (obj + 1)%Z d3 st1 t2'
  end.
Fixpoint rc_xs_subsections (idx : list (Z * Z)) (w : N * N * N) (recovery : bool) (maxid : Z) (data : list N)
                           (st : rc_xstate) (t2 : bool) : rc_xstate * bool :=
  match idx with
  | [] => (st, t2)
  | (f, c) :: r =>
      let '(d', st', t2') := rc_xs_entries (Z.to_nat c) w recovery maxid f data st t2 in
      rc_xs_subsections r w recovery maxid d' st' t2'
  end.

Inductive rc_xs_res :=
  | XsNone                       (* no /XRef stream at the offset: "xref not found" *)
  | XsThrow                      (* damaged: an exception leaves processXRefStream *)
  | XsUnsupported
  | XsDone (st : rc_xstate) (d : list (list N * pobj)).

Definition rc_xs_section (maxid : Z) (recovery : bool) (file : list N) (len : N) (off : N) (st : rc_xstate) : rc_xs_res :=
  match rc_xs_object file len off with
  | XoNone => XsNone
  | XoUnsupported => XsUnsupported
  | XoStream d data =>
      match rc_xs_W d with
      | None => XsThrow
      | Some (w0, w1, w2) =>
          match rc_xs_size d with
          | None => XsThrow
          | Some size =>
              match rc_xs_index d size with
              | None => XsThrow
              | Some idx =>
                  match rc_xs_check (w0 + w1 + w2) (rc_xs_count idx) (rc_len data) with
                  | None => XsThrow
                  | Some w =>
                      let st0 := mkX (x_table st) (x_deleted st) (x_warn st || w) (x_free st) in
                      let '(st1, t2) := rc_xs_subsections idx (w0, w1, w2) recovery maxid data st0 false in
                      if t2 then XsUnsupported else XsDone st1 d
                  end
              end
          end
      end
  end.

(* read_xref(xref_offset): follows /Prev; trailer = the first one seen *)
Fixpoint rc_read_xref (fuel : nat) (maxid : Z) (file : list N) (len : N) (off : N) (visited : list N)
                      (st : rc_xstate) (trailer : option (list (list N * pobj))) : rc_xres :=
  match fuel with
  | O => mkXR false st trailer false
  | S f =>
      let s := if len <=? off then [] else rc_drop off file in
      let '(sp, r) := rc_take_while rc_is_space s [] in
      let skipped := negb (rc_len sp =? 0) in
      let b6 := firstn 6 r in
      if rc_prefix rc_kw_xref b6 && rc_is_space (nth 4 b6 0) then
        let st1 := mkX (x_table st) (x_deleted st) (x_warn st || skipped) [] in
        (* buf holds 6 bytes: "xref", the space, and possibly one more space *)
        let skip := if rc_is_space (nth 5 b6 0) then 6 else 5 in
        (* the code passes xref_offset + skip: the white space skipped before "xref" is NOT added *)
        match rc_subsections (S (length file)) maxid file len (off + skip) st1 with
        | SecErr st2 => mkXR false st2 trailer false
        | SecOk st2 d =>
            let first := match trailer with None => true | Some _ => false end in
            let tr := match trailer with None => Some d | Some _ => trailer end in
            let size_ok := match dict_get d rc_n_Size with Some (SpInt _) => true | _ => false end in
            if first && negb size_ok then mkXR false st2 tr false else
            match dict_get d rc_n_XRefStm with
            | Some _ => mkXR false st2 tr true
            | None =>
                let st3 := rc_apply_free maxid st2 in
                match dict_get d rc_n_Prev with
                | None => mkXR true st3 tr false
                | Some (SpInt p) =>
                    if (p =? 0)%Z then mkXR true st3 tr false
                    else if (p <? 0)%Z then mkXR false st3 tr true
                    else if existsb (N.eqb (Z.to_N p)) (off :: visited) then mkXR false st3 tr false
                    else rc_read_xref f maxid file len (Z.to_N p) (off :: visited) st3 tr
                | Some _ => mkXR false st3 tr false
                end
            end
        end
      else
        (* read_xrefStream *)
        match rc_xs_section maxid false file len off st with
        | XsNone | XsThrow => mkXR false st trailer false
        | XsUnsupported => mkXR false st trailer true
        | XsDone st2 d =>
            let tr := match trailer with None => Some d | Some _ => trailer end in
            match dict_get d rc_n_Prev with
            | None => mkXR true st2 tr false
            | Some (SpInt p) =>
                if (p =? 0)%Z then mkXR true st2 tr false
                else if (p <? 0)%Z then mkXR false st2 tr true
                else if existsb (N.eqb (Z.to_N p)) (off :: visited) then mkXR false st2 tr false
                else rc_read_xref f maxid file len (Z.to_N p) (off :: visited) st2 tr
            | Some _ => mkXR false st2 tr false
            end
        end
  end.

(* the dictionary an object at `off` holds (strict specification parser on the body) *)
Definition rc_dict_at (file : list N) (len : N) (off : N) : option (list (list N * pobj)) :=
  if len <=? off then None else
  let s := rc_drop off file in
  let t1 := rc_read_token 0 s in
  let s1 := rc_drop (rc_t_end t1) s in
  let t2 := rc_read_token 0 s1 in
  let s2 := rc_drop (rc_t_end t2) s1 in
  let t3 := rc_read_token 0 s2 in
  match parse_obj 2000 (rc_drop (rc_t_end t3) s2) with
  | Some (SpDict d, rest) =>
      (* readObject: a dictionary followed by the keyword stream is a stream, not a dictionary *)
      let t4 := rc_read_token 0 rest in
      if rc_is_word t4 rc_kw_stream then None
      (* readObjectAtOffset skips isspace() after the object and throws "EOF after endobj" when the input ends
         there: the object is then not cached *)
      else if forallb rc_is_space (rc_drop (rc_t_end t4) rest) then None
      else Some d
  | _ => None
  end.

(* is the object at `off`, once resolved, a dictionary with /Type /Catalog: the fallback of reconstruct_xref walks
   the object cache and asks isDictionaryOfType("/Catalog"); a stream is no dictionary, and an object whose reading
   threw ("EOF after endobj": the file ends right after it) resolved to null and is no candidate *)
Definition rc_is_catalog (file : list N) (len : N) (off : N) : bool :=
  match rc_dict_at file len off with
  | Some d => match dict_get d rc_n_Type with Some (SpName n) => rc_beq n rc_n_Catalog | _ => false end
  | None => false
  end.

(* ------------------------------------------------------------------ the whole view *)
Record rc_result := mkRes { r_fatal : bool; r_warn : bool; r_recon : bool; r_table : rc_table;
                            r_root : option rc_og; r_unsupported : bool }.

Definition rc_root_of (d : list (list N * pobj)) : option rc_og :=
  match dict_get d rc_n_Root with
  | Some (SpRef n g) => Some (Z.of_N n, Z.of_N g)
  | _ => None
  end.
Definition rc_has_root (d : list (list N * pobj)) : bool :=
  match dict_get d rc_n_Root with Some _ => true | None => false end.

(* trailer candidates from the end, at most 100 *)
Fixpoint rc_pick_trailer (file : list N) (len : N) (cands_rev : list N) (n : nat) : option (list (list N * pobj)) :=
  match n, cands_rev with
  | S n', p :: r =>
      match (if len <=? p then None else parse_obj 2000 (rc_drop p file)) with
      | Some (SpDict d, _) => if rc_has_root d then Some d else rc_pick_trailer file len r n'
      | _ => rc_pick_trailer file len r n'
      end
  | _, _ => None
  end.

Fixpoint rc_last_catalog (file : list N) (len : N) (t : rc_table) (best : option rc_og) : option rc_og :=
  match t with
  | [] => best
  | (og, off) :: r => rc_last_catalog file len r (if rc_is_catalog file len off then Some og else best)
  end.

(* "If there are any xref streams, take the last one to appear": the table is walked in id order; setTrailer keeps the
   FIRST candidate's dictionary (max_size is never updated, so every candidate passes the comparison), max_offset
   ends up as the offset of the LAST candidate, which is then read again in recovery mode (only free and type 2
   entries are looked at there; an exception is a warning) *)
Fixpoint rc_xs_trailer (file : list N) (len : N) (t : rc_table) : option (list (list N * pobj)) :=
  match t with
  | [] => None
  | (_, off) :: r =>
      match rc_xs_dict_at file len off with
      | Some (d, _) => Some d
      | None => rc_xs_trailer file len r
      end
  end.
Fixpoint rc_xs_last_off (file : list N) (len : N) (t : rc_table) (best : option N) : option N :=
  match t with
  | [] => best
  | (_, off) :: r =>
      rc_xs_last_off file len r (match rc_xs_dict_at file len off with Some _ => Some off | None => best end)
  end.

(* reconstruct_xref. deleted = deleted_objects at that moment; trailer = m->trailer at that moment *)
Definition rc_reconstruct (maxid : Z) (file : list N) (len : N) (deleted : list Z)
                          (trailer : option (list (list N * pobj))) : rc_result :=
  let evs := rc_scan_events file in
  let t := rc_recon_table maxid deleted evs in
  let tr :=
    match trailer with
    | Some d => Some d
    | None =>
        match rc_pick_trailer file len (rev' (rc_trailer_pos evs)) 100 with
        | Some d => Some d
        | None => rc_xs_trailer file len t
        end
    end in
  (* the candidate cross-reference stream read again in recovery mode: nothing enters the table; a type 2 entry or an
     undecodable stream there is outside the model *)
  let unsup :=
    match trailer, rc_pick_trailer file len (rev' (rc_trailer_pos evs)) 100, rc_xs_last_off file len t None with
    | None, None, Some off =>
        match rc_xs_section maxid true file len off (mkX t [] true []) with XsUnsupported => true | _ => false end
    | _, _, _ => false
    end in
  let root :=
    match tr with
    | Some d => rc_root_of d
    | None => rc_last_catalog file len t None
    end in
  let fatal := match root with None => true | Some _ => false end || match t with [] => true | _ => false end in
  mkRes fatal true true t root unsup.

(* does some table entry not lead to its own header (resolve -> readObjectAtOffset) *)
Definition rc_header_ok (file : list N) (len : N) (og : rc_og) (off : N) : bool :=
  match rc_object_start (if len <=? off then [] else rc_drop off file) with
  | Some og' => rc_og_eqb og og'
  | None => false
  end.
Fixpoint rc_mismatch (file : list N) (len : N) (t : rc_table) : bool :=
  match t with
  | [] => false
  | (og, off) :: r => (if off =? 0 then false else negb (rc_header_ok file len og off)) || rc_mismatch file len r
  end.
Fixpoint rc_has_zero (t : rc_table) : bool :=
  match t with [] => false | (_, off) :: r => (off =? 0) || rc_has_zero r end.

Definition rc_pc_hit (pc : option (rc_og * N)) (og : rc_og) : option N :=
  match pc with
  | Some (og', off) => if rc_og_eqb og og' then Some off else None
  | None => None
  end.

Definition rc_n_Pages : list N := [80; 97; 103; 101; 115].

(* state while objects are resolved after parse(): the table, whether reconstruction has happened, whether
   anything was warned about *)
Record rc_rstate := mkRS { rs_table : rc_table; rs_recon : bool; rs_warned : bool; rs_fatal : bool; rs_root : option rc_og }.

(* resolve(og) as far as a dictionary value is concerned. recon_of () = the reconstructed state *)
(* pc: the object that read_xrefStream parsed (and cached) at a startxref offset that was no xref table: whatever
   header stands there decides under which id it is cached, and a cached object is never read again *)
Definition rc_resolve_dict (recover : bool) (file : list N) (len : N) (pc : option (rc_og * N)) (recon_of : rc_rstate)
                           (st : rc_rstate) (og : rc_og) : rc_rstate * option (list (list N * pobj)) :=
  match rc_pc_hit pc og with Some off0 => (st, rc_dict_at file len off0) | None =>
  match rc_lookup og (rs_table st) with
  | None => (st, None)
  | Some off =>
      if off =? 0 then (mkRS (rs_table st) (rs_recon st) true (rs_fatal st) (rs_root st), None)
      else if rc_header_ok file len og off then (st, rc_dict_at file len off)
      else if recover && negb (rs_recon st) then
        (* reconstruct_xref, then readObjectAtOffset(false, new_offset) *)
        match rc_lookup og (rs_table recon_of) with
        | Some off' => (recon_of, if off' =? 0 then None else rc_dict_at file len off')
        | None => (recon_of, None)
        end
      else
        (* warned; the object is read anyway and cached under the id found in the file; og itself stays null *)
        (mkRS (rs_table st) (rs_recon st) true (rs_fatal st) (rs_root st), None)
  end end.

(* what parse() and a full resolution of the table do once a table and a trailer are there *)
Definition rc_after_parse (recover : bool) (file : list N) (len : N) (pc : option (rc_og * N))
                          (recon_of : rc_rstate) (st : rc_rstate) : rc_rstate :=
  match rs_root st with
  | None => mkRS (rs_table st) (rs_recon st) (rs_warned st) true None
  | Some root =>
      let '(st1, rd) := rc_resolve_dict recover file len pc recon_of st root in
      let root1 := if rs_recon st1 && negb (rs_recon st) then rs_root st1 else rs_root st in
      match rd with
      | None => mkRS (rs_table st1) (rs_recon st1) (rs_warned st1) true root1
      | Some d =>
          let '(st2, pages_ok) :=
            match dict_get d rc_n_Pages with
            | Some (SpRef n g) =>
                let '(s2, pd) := rc_resolve_dict recover file len pc recon_of st1 (Z.of_N n, Z.of_N g) in
                (s2, match pd with Some _ => true | None => false end)
            | Some (SpDict _) => (st1, true)
            | _ => (st1, false)
            end in
          if negb pages_ok then mkRS (rs_table st2) (rs_recon st2) (rs_warned st2) true root1
          else
            (* every remaining entry is resolved (getAllObjects / writeJSON) *)
            if negb (rs_recon st2) && rc_mismatch file len (rs_table st2) then
              if recover then mkRS (rs_table recon_of) true true (rs_fatal recon_of) root1
              else mkRS (rs_table st2) false true false root1
            else mkRS (rs_table st2) (rs_recon st2) (rs_warned st2 || rc_has_zero (rs_table st2)) false root1
      end
  end.

Definition rc_n_Kids : list N := [75; 105; 100; 115].

(* is there a leaf (a dictionary without /Kids) under the page-tree node og: what `m->pages.empty()` decides at
   the end of a reconstruction that happens inside parse() *)
Fixpoint rc_has_page (fuel : nat) (file : list N) (len : N) (pc : option (rc_og * N)) (t : rc_table) (og : rc_og) : bool :=
  match fuel with
  | O => false
  | S f =>
      match (match rc_pc_hit pc og with Some off0 => Some (off0, true) | None =>
             match rc_lookup og t with Some off => Some (off, false) | None => None end end) with
      | None => false
      | Some (off, cached) =>
          if negb cached && ((off =? 0) || negb (rc_header_ok file len og off)) then false else
          match rc_dict_at file len off with
          | None => false
          | Some d =>
              match dict_get d rc_n_Kids with
              | None => true
              | Some (SpArr kids) =>
                  existsb (fun k => match k with
                                    | SpRef n g => rc_has_page f file len pc t (Z.of_N n, Z.of_N g)
                                    | SpDict _ => true
                                    | _ => false
                                    end) kids
              | Some _ => false
              end
          end
      end
  end.

Definition rc_pages_of (file : list N) (len : N) (pc : option (rc_og * N)) (t : rc_table) (root : option rc_og) : option rc_og :=
  match root with
  | None => None
  | Some r =>
      match (match rc_pc_hit pc r with Some o => Some o | None => rc_lookup r t end) with
      | None => None
      | Some off =>
          match rc_dict_at file len off with
          | Some d => match dict_get d rc_n_Pages with Some (SpRef n g) => Some (Z.of_N n, Z.of_N g) | _ => None end
          | None => None
          end
      end
  end.

(* the guard and the attempt at the end of the scan: the LAST startxref seen lies behind the LAST object found *)
Definition rc_late_startxref (maxid : Z) (file : list N) (len : N) : option rc_xres :=
  let evs := rc_scan_events file in
  match rev' (rc_startxref_pos evs), rev' (rc_found maxid evs) with
  | p :: _, (_, _, a) :: _ =>
      if a <? p then
        let v := rc_atoi (rc_t_raw (rc_read_token 0 (if len <=? p then [] else rc_drop p file))) in
        if (0 <? v)%Z
        then Some (rc_read_xref (S (length file)) maxid file len (Z.to_N v) [] (mkX [] [] false []) None)
        else None
      else None
  | _, _ => None
  end.

(* reconstruct_xref entered from parse() (startxref missing or the xref unreadable), then the rest of parse() *)
Definition rc_view_recon (maxid : Z) (file : list N) (len : N) (sx : Z) (deleted : list Z)
                         (trailer : option (list (list N * pobj))) (unsupported : bool) : rc_result :=
      let r := rc_reconstruct maxid file len deleted trailer in
      let unsupported := unsupported || r_unsupported r in
      if r_fatal r then mkRes true true true (r_table r) (r_root r) unsupported else
      let st := mkRS (r_table r) true true false (r_root r) in
      (* read_xrefStream: the startxref offset was no xref table; if an object header stands there the object is
         parsed and cached under the id of that header (the table is still empty) *)
      let pc := if (0 <? sx)%Z && (Z.to_N sx <? len)
                then match rc_object_start (rc_drop (Z.to_N sx) file) with
                     | Some og => Some (og, Z.to_N sx)
                     | None => None
                     end
                else None in
      let fin := rc_after_parse true file len pc st st in
      (* "unable to find any pages while recovering damaged file" *)
      let no_pages :=
        match rc_pages_of file len pc (r_table r) (r_root r) with
        | Some pg =>
            (* getAllPages: "root of pages tree has no /Kids array" *)
            negb (match (match rc_pc_hit pc pg with Some o => Some o | None => rc_lookup pg (r_table r) end) with
                  | Some off => match rc_dict_at file len off with
                                | Some d => match dict_get d rc_n_Kids with Some (SpArr _) => true | _ => false end
                                | None => true
                                end
                  | None => true
                  end)
            || negb (rc_has_page (S (length (r_table r))) file len pc (r_table r) pg)
        | None => false
        end in
      mkRes (rs_fatal fin || no_pages) true true (rs_table fin) (rs_root fin) unsupported.

Definition rc_view (recover : bool) (file : list N) : rc_result :=
  let len := rc_len file in
  let maxid := Z.min (rc_int_max - 1) (Z.of_N (len / 3)) in
  let sx := rc_startxref file len in
  let st0 := mkX [] [] false [] in
  let xr := if (sx <=? 0)%Z then mkXR false st0 None false
            else rc_read_xref (S (length file)) maxid file len (Z.to_N sx) [] st0 None in
  if xr_ok xr then
    let st := xr_state xr in
    let t := rc_highest_gen (x_table st) in
    let d := match xr_trailer xr with Some d => d | None => [] end in
    let size_warn :=
      match dict_get d rc_n_Size with
      | Some (SpInt sz) =>
          let max_obj := rc_maxZ (x_deleted st) (rc_maxZ (map (fun e => fst (fst e)) (x_table st)) 0) in
          (sz <? 1)%Z || negb (sz - 1 =? max_obj)%Z
      | _ => true
      end in
    (* a reconstruction triggered while resolving keeps the trailer already read *)
    let r := rc_reconstruct maxid file len [] (Some d) in
    let recon_of := mkRS (r_table r) true true (r_fatal r) (r_root r) in
    let fin := rc_after_parse recover file len None recon_of (mkRS t false (x_warn st || size_warn) false (rc_root_of d)) in
    mkRes (rs_fatal fin) (rs_warned fin) (rs_recon fin) (rs_table fin) (rs_root fin) (xr_unsupported xr)
  else
    if recover then
      (* inside reconstruct_xref: "startxref was more than 1024 bytes before end of file" *)
      let late := if (sx <=? 0)%Z then rc_late_startxref maxid file len else None in
      let late_ok :=
        match late with
        | Some axr =>
            xr_ok axr &&
            match xr_trailer axr with
            | Some d =>
                let t := rc_highest_gen (x_table (xr_state axr)) in
                let dict_of og := match rc_lookup og t with
                                  | Some off => if negb (off =? 0) && rc_header_ok file len og off then rc_dict_at file len off else None
                                  | None => None
                                  end in
                match rc_root_of d with
                | Some root =>
                    match dict_of root with
                    | Some rd => match dict_get rd rc_n_Pages with
                                 | Some (SpRef n g) => match dict_of (Z.of_N n, Z.of_N g) with Some _ => true | None => false end
                                 | Some (SpDict _) => true
                                 | _ => false
                                 end
                    | None => false
                    end
                | None => false
                end
            | None => false
            end
        | None => false
        end in
      match late with
      | Some axr =>
          if late_ok then
            (* the older table is taken; m->reconstructed_xref is reset, so a later mismatch reconstructs *)
            let st := xr_state axr in
            let t := rc_highest_gen (x_table st) in
            let d := match xr_trailer axr with Some d => d | None => [] end in
            let r := rc_reconstruct maxid file len [] (Some d) in
            let recon_of := mkRS (r_table r) true true (r_fatal r) (r_root r) in
            let fin := rc_after_parse recover file len None recon_of (mkRS t false true false (rc_root_of d)) in
            mkRes (rs_fatal fin) true true (rs_table fin) (rs_root fin) (xr_unsupported axr)
          else
            rc_view_recon maxid file len sx (x_deleted (xr_state axr)) (xr_trailer axr) (xr_unsupported axr)
      | None => rc_view_recon maxid file len sx (x_deleted (xr_state xr)) (xr_trailer xr) (xr_unsupported xr)
      end
    else mkRes true false false [] None (xr_unsupported xr).

(* QPDFJob: an exception ends the run with status 2, any warning makes it 3 *)
Definition rc_exit_code (r : rc_result) : N :=
  if r_fatal r then 2 else if r_warn r then 3 else 0.
