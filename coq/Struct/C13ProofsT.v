(* C13 - FRAME property of the whole page-tree / copier model for ARBITRARY states (no well-formedness assumptions):
   nothing the model does ever removes an object, changes the content marker /Mk of an existing object, or changes
   whether an existing object is null - except for the explicit targets of replaceObject / swapObjects / in-place
   edits and for the null placeholders a copy fills. *)
From QV Require Import Base.Bytes Struct.PgModel Struct.PgSpec Struct.PgyModel Struct.C13ProofsA Struct.C13ProofsB Struct.C13ProofsE Struct.C13ProofsG.
Local Open Scope N_scope.

Definition pgt_keep (T : N -> Prop) (s s' : pg_store) : Prop :=
  forall j, ~ T j -> pg_lookup s j <> None ->
    pg_lookup s' j <> None /\ pg_mark s' j = pg_mark s j /\ pg_is_null s' (PvRef j) = pg_is_null s (PvRef j).

Local Notation pgt_le := (pgt_keep (fun _ => False)).

(* ------------------------------------------------------------------ the relation *)
Lemma pgt_keep_refl : forall T s, pgt_keep T s s.
Proof. intros T s j _ Hj. repeat split; auto. Qed.

Lemma pgt_keep_trans : forall T s s' s'', pgt_keep T s s' -> pgt_keep T s' s'' -> pgt_keep T s s''.
Proof.
  intros T s s' s'' H1 H2 j Ht Hj. destruct (H1 j Ht Hj) as (A & B & C). destruct (H2 j Ht A) as (A' & B' & C').
  split; [exact A'|split; congruence].
Qed.

Lemma pgt_keep_weaken : forall (T T' : N -> Prop) s s', (forall j, T j -> T' j) -> pgt_keep T s s' -> pgt_keep T' s s'.
Proof. intros T T' s s' Hs H j Ht Hj. apply H; [intros X; apply Ht, Hs, X|exact Hj]. Qed.

(* composition with different target sets: the second set is read in the intermediate state *)
Lemma pgt_keep_trans_gen : forall (T T1 T2 : N -> Prop) s s' s'',
  pgt_keep T1 s s' -> pgt_keep T2 s' s'' ->
  (forall j, ~ T j -> pg_lookup s j <> None -> ~ T1 j) ->
  (forall j, ~ T j -> pg_lookup s j <> None -> pg_is_null s' (PvRef j) = pg_is_null s (PvRef j) -> ~ T2 j) ->
  pgt_keep T s s''.
Proof.
  intros T T1 T2 s s' s'' H1 H2 Ha Hb j Ht Hj. destruct (H1 j (Ha j Ht Hj) Hj) as (A & B & C).
  destruct (H2 j (Hb j Ht Hj C) A) as (A' & B' & C'). split; [exact A'|split; congruence].
Qed.

Lemma pgt_le_any : forall T s s', pgt_le s s' -> pgt_keep T s s'.
Proof. intros T s s' H. eapply pgt_keep_weaken; [|exact H]. intros j []. Qed.

(* ------------------------------------------------------------------ one object *)
Definition pgt_ok (s s' : pg_store) (j : N) : Prop :=
  pg_lookup s' j <> None /\ pg_mark s' j = pg_mark s j /\ pg_is_null s' (PvRef j) = pg_is_null s (PvRef j).

Lemma pgt_ok_eq : forall s s' j, pg_lookup s' j = pg_lookup s j -> pg_lookup s j <> None -> pgt_ok s s' j.
Proof.
  intros s s' j H Hj. split; [rewrite H; exact Hj|split; [apply pg_mark_ext, H|apply pg_is_null_ref_lookup, H]].
Qed.

Lemma pgt_ok_dict : forall s s' j d d', pg_lookup s j = Some (PcObj (PvDict d)) -> pg_lookup s' j = Some (PcObj (PvDict d')) ->
  pg_dget d' pgk_Mk = pg_dget d pgk_Mk -> pgt_ok s s' j.
Proof.
  intros s s' j d d' H H' Hd. split; [rewrite H'; discriminate|split].
  - unfold pg_mark, pg_marker, pg_hget, pg_rv. rewrite H, H', Hd. reflexivity.
  - unfold pg_is_null. rewrite H, H'. reflexivity.
Qed.

Lemma pgt_same : forall T s s', (forall j, pg_lookup s j <> None -> pg_lookup s' j = pg_lookup s j) -> pgt_keep T s s'.
Proof. intros T s s' H j _ Hj. apply pgt_ok_eq; [apply H, Hj|exact Hj]. Qed.

(* ------------------------------------------------------------------ primitives *)
Lemma pgt_alloc : forall s c, pgt_le s (fst (pg_alloc s c)).
Proof.
  intros s c. apply pgt_same. intros j Hj. rewrite pg_lookup_alloc. destruct (j =? pg_next_id s) eqn:E; [|reflexivity].
  apply N.eqb_eq in E. subst j. rewrite pg_next_id_fresh in Hj. congruence.
Qed.

Lemma pgt_alloc_cons : forall s c, pgt_le s ((pg_next_id s, c) :: s).
Proof. intros s c. exact (pgt_alloc s c). Qed.

Lemma pgt_supd : forall s i c, pgt_keep (fun j => j = i) s (pg_supd s i c).
Proof.
  intros s i c j Hn Hj. apply pgt_ok_eq; [|exact Hj]. rewrite pg_lookup_supd. apply N.eqb_neq in Hn. rewrite Hn. reflexivity.
Qed.

Lemma pgt_set_key : forall s i k v, k <> pgk_Mk -> pgt_le s (pg_obj_set_key s i k v).
Proof.
  intros s i k v Hk j _ Hj. destruct (N.eq_dec j i) as [->|Hn].
  - unfold pg_obj_set_key. destruct (pg_lookup s i) as [[[]|]|] eqn:E; try (apply pgt_ok_eq; [reflexivity|congruence]).
    eapply pgt_ok_dict; [exact E|rewrite pg_lookup_supd, N.eqb_refl; reflexivity|apply pg_dget_dset_neq; congruence].
  - apply pgt_ok_eq; [apply pg_lookup_obj_set_key_other, Hn|exact Hj].
Qed.

Lemma pgt_del_key : forall s i k, k <> pgk_Mk -> pgt_le s (pg_obj_del_key s i k).
Proof.
  intros s i k Hk j _ Hj. unfold pg_obj_del_key. destruct (N.eq_dec j i) as [->|Hn].
  - destruct (pg_lookup s i) as [[[]|]|] eqn:E; try (apply pgt_ok_eq; [reflexivity|congruence]).
    eapply pgt_ok_dict; [exact E|rewrite pg_lookup_supd, N.eqb_refl; reflexivity|apply pg_dget_ddel_neq; congruence].
  - apply pgt_ok_eq; [|exact Hj]. destruct (pg_lookup s i) as [[[]|]|]; try reflexivity.
    rewrite pg_lookup_supd. apply N.eqb_neq in Hn. rewrite Hn. reflexivity.
Qed.

Ltac pgt_key := let H := fresh in intro H; vm_compute in H; discriminate H.

Lemma pgt_set_kid : forall s node idx v, pgt_le s (pg_set_kid s node idx v).
Proof. intros. unfold pg_set_kid. apply pgt_set_key. pgt_key. Qed.

Lemma pgt_inh_key : forall k, pg_is_inh k = true -> k <> pgk_Mk.
Proof. intros k H ->. vm_compute in H. discriminate H. Qed.

(* accumulating forms: s0 is the state the chain started from *)
Lemma pgt_c_set : forall s0 s i k v, k <> pgk_Mk -> pgt_le s0 s -> pgt_le s0 (pg_obj_set_key s i k v).
Proof. intros. eapply pgt_keep_trans; [eassumption|apply pgt_set_key; assumption]. Qed.
Lemma pgt_c_del : forall s0 s i k, k <> pgk_Mk -> pgt_le s0 s -> pgt_le s0 (pg_obj_del_key s i k).
Proof. intros. eapply pgt_keep_trans; [eassumption|apply pgt_del_key; assumption]. Qed.
Lemma pgt_c_kid : forall s0 s node idx v, pgt_le s0 s -> pgt_le s0 (pg_set_kid s node idx v).
Proof. intros. eapply pgt_keep_trans; [eassumption|apply pgt_set_kid]. Qed.
Lemma pgt_c_alloc : forall s0 s c, pgt_le s0 s -> pgt_le s0 ((pg_next_id s, c) :: s).
Proof. intros. eapply pgt_keep_trans; [eassumption|apply pgt_alloc_cons]. Qed.
Lemma pgt_c_if : forall s0 (b : bool) s1 s2, pgt_le s0 s1 -> pgt_le s0 s2 -> pgt_le s0 (if b then s1 else s2).
Proof. intros. destruct b; assumption. Qed.

Ltac pgt_chain :=
  repeat first
    [ assumption
    | apply pgt_keep_refl
    | apply pgt_c_if
    | apply pgt_c_kid
    | apply pgt_c_alloc
    | apply pgt_c_set; [pgt_key|]
    | apply pgt_c_del; [pgt_key|] ].

Lemma pgt_fold : forall {A B} (pr : B -> pg_store) (f : B -> A -> B) s0,
  (forall b x, pgt_le (pr b) (pr (f b x))) -> forall l b, pgt_le s0 (pr b) -> pgt_le s0 (pr (fold_left f l b)).
Proof.
  intros A B pr f s0 H. induction l as [|x t IH]; intros b Hb; [exact Hb|]. cbn [fold_left].
  apply IH. eapply pgt_keep_trans; [exact Hb|apply H].
Qed.

(* ------------------------------------------------------------------ getAllPagesInternal *)
Lemma pgt_leaf : forall g node idx kid mb res, pgt_le (pgg_s g) (pgg_s (pg_leaf g node idx kid mb res)).
Proof.
  intros g node idx kid mb res. unfold pg_leaf, pg_alloc. cbv zeta.
  destruct (pg_memN kid (pgg_seen g)); cbv iota beta; cbn [pgg_s]; pgt_chain.
Qed.

Lemma pgt_gapi : forall fuel node level mb res g, pgt_le (pgg_s g) (pgg_s (pg_gapi fuel node level mb res g)).
Proof.
  induction fuel as [|f IH]; intros node level mb res g; cbn [pg_gapi]; [apply pgt_keep_refl|].
  destruct (Nat.ltb 100 (S level)); [apply pgt_keep_refl|].
  destruct (pg_memN node (pgg_vis g)); [apply pgt_keep_refl|].
  set (s1 := if pg_is_dict_of_type (pgg_s g) (PvRef node) pgk_Pages then pgg_s g
             else pg_obj_set_key (pgg_s g) node pgk_Type (PvName pgk_Pages)).
  assert (H1 : pgt_le (pgg_s g) s1) by (unfold s1; pgt_chain).
  cbv zeta.
  set (mb1 := mb || pg_is_rect s1 (pg_hget s1 (PvRef node) pgk_MediaBox)).
  set (res1 := res || pg_is_dict s1 (pg_hget s1 (PvRef node) pgk_Resources)).
  destruct (pg_hget s1 (PvRef node) pgk_Kids); cbn [pgg_fail pgg_s]; try exact H1.
  apply (pgt_fold pgg_s); [|exact H1].
  intros g0 idx. destruct (pgg_err g0); [apply pgt_keep_refl|].
  destruct (nth_error (pg_kids_of (pgg_s g0) node) idx) as [kv|]; [|apply pgt_keep_refl].
  destruct (negb (pg_is_dict (pgg_s g0) kv)); [apply pgt_keep_refl|].
  assert (Hk : exists s2 kid, (match kv with
                               | PvRef k => (pgg_s g0, k)
                               | _ => let '(s', k) := pg_alloc (pgg_s g0) (PcObj kv) in (pg_set_kid s' node idx (PvRef k), k)
                               end) = (s2, kid) /\ pgt_le (pgg_s g0) s2).
  { unfold pg_alloc. destruct kv; eexists _, _; (split; [reflexivity|pgt_chain]). }
  destruct Hk as (s2 & kid & -> & H2).
  destruct (pg_has_key s2 (PvRef kid) pgk_Kids).
  - eapply pgt_keep_trans; [exact H2|]. exact (IH kid (S level) mb1 res1 (mkPgGst s2 _ _ _ _ _)).
  - eapply pgt_keep_trans; [exact H2|]. exact (pgt_leaf (mkPgGst s2 _ _ _ _ _) node idx kid mb1 res1).
Qed.

(* ------------------------------------------------------------------ pushInheritedAttributesToPageInternal *)
Definition pgt_inh_ka (ka : pg_ka) : Prop := forall kv, In kv ka -> pg_is_inh (fst kv) = true.

Lemma pgt_F1_fold : forall cur keys s ka s0, pgt_inh_ka ka -> pgt_le s0 s ->
  pgt_le s0 (fst (fold_left (pgy_F1 cur) keys (s, ka))) /\ pgt_inh_ka (snd (fold_left (pgy_F1 cur) keys (s, ka))).
Proof.
  intros cur keys. induction keys as [|key t IH]; intros s ka s0 Hka Hs; [split; assumption|].
  cbn [fold_left]. unfold pgy_F1 at 2 4. destruct (pg_is_inh key) eqn:Ei; [|apply IH; assumption].
  set (oh := pg_hget s (PvRef cur) key).
  assert (Hstep : exists s1 oh1,
            (if pg_is_ref oh then (s, oh) else if pg_is_scalar oh then (s, oh)
             else let '(s', k) := pg_alloc s (PcObj oh) in (pg_obj_set_key s' cur key (PvRef k), PvRef k)) = (s1, oh1) /\
            pgt_le s0 s1).
  { destruct (pg_is_ref oh); [exists s, oh; split; [reflexivity|exact Hs]|].
    destruct (pg_is_scalar oh); [exists s, oh; split; [reflexivity|exact Hs]|].
    unfold pg_alloc. eexists _, _. split; [reflexivity|]. apply pgt_c_set; [apply pgt_inh_key, Ei|]. apply pgt_c_alloc, Hs. }
  cbv zeta. destruct Hstep as (s1 & oh1 & -> & H1).
  apply IH.
  - intros kv Hin. unfold pg_ka_push in Hin. apply pgy_dins_in in Hin. destruct Hin as [->|Hin]; [exact Ei|apply Hka, Hin].
  - apply pgt_c_del; [apply pgt_inh_key, Ei|exact H1].
Qed.

Lemma pgt_ka_fold : forall (ka : pg_ka) k s s0, pgt_inh_ka ka -> pgt_le s0 s ->
  pgt_le s0 (fold_left (fun s (kv : pg_key * pg_val) =>
                          if pg_has_key s (PvRef k) (fst kv) then s else pg_obj_set_key s k (fst kv) (snd kv)) ka s).
Proof.
  induction ka as [|kv t IH]; intros k s s0 Hka Hs; [exact Hs|]. cbn [fold_left].
  apply IH; [intros x Hx; apply Hka; right; exact Hx|].
  apply pgt_c_if; [exact Hs|]. apply pgt_c_set; [|exact Hs]. apply pgt_inh_key, Hka. left. reflexivity.
Qed.

(* the hypothesis on key_ancestors is needed (a stack holding /Mk would write /Mk into pages that lack it); it holds
   for the empty stack every caller starts with and is kept by every push *)
Lemma pgt_pia : forall fuel cur ka s, pgt_inh_ka ka -> pgt_le s (fst (pg_pia fuel cur ka s)).
Proof.
  induction fuel as [|f IH]; intros cur ka s Hka; [apply pgt_keep_refl|].
  rewrite pgy_pia_unfold. cbv zeta.
  destruct (pgt_F1_fold cur (match pg_rv s (PvRef cur) with PvDict d => pg_nonnull_keys s d | _ => [] end) s ka s Hka (pgt_keep_refl _ _)) as [H1 Hka1].
  destruct (fold_left (pgy_F1 cur) _ (s, ka)) as [s1 ka1]. cbn [fst snd] in H1, Hka1.
  apply (pgt_fold fst); [|exact H1].
  intros [s2 e] idx. unfold pgy_F2. cbn [fst]. destruct e; [apply pgt_keep_refl|].
  destruct (nth_error _ idx) as [kid|]; [|apply pgt_keep_refl].
  destruct (pg_is_dict_of_type s2 kid pgk_Pages); destruct kid; cbn [fst]; try apply pgt_keep_refl.
  - apply IH, Hka1.
  - destruct ka1; apply pgt_keep_refl.
  - destruct ka1; apply pgt_keep_refl.
  - destruct ka1; apply pgt_keep_refl.
  - apply pgt_ka_fold; [exact Hka1|apply pgt_keep_refl].
  - destruct ka1; apply pgt_keep_refl.
  - destruct ka1; apply pgt_keep_refl.
Qed.

Local Opaque pg_gapi pg_pia.

(* ------------------------------------------------------------------ documents *)
(* what every page-tree function does to a document: objects are kept, the copier's object map, the trailer root and
   the stream-provider table are not touched *)
Definition pgt_dR (p p' : pg_doc) : Prop :=
  pgt_le (pd_store p) (pd_store p') /\ pd_omap p' = pd_omap p /\ pd_root p' = pd_root p /\ pd_reg p' = pd_reg p.

Lemma pgt_dR_refl : forall p, pgt_dR p p.
Proof. intros p. split; [apply pgt_keep_refl|repeat split]. Qed.

Lemma pgt_dR_trans : forall p q r, pgt_dR p q -> pgt_dR q r -> pgt_dR p r.
Proof.
  intros p q r (A & B & C & D) (A' & B' & C' & D'). split; [eapply pgt_keep_trans; eassumption|].
  repeat split; congruence.
Qed.

Lemma pgt_dR_store : forall p q s, pgt_dR p q -> pgt_le (pd_store p) s -> pgt_dR p (pd_with_store q s).
Proof. intros p q s (A & B & C & D) H. split; [exact H|repeat split; assumption]. Qed.
Lemma pgt_dR_all : forall p q a, pgt_dR p q -> pgt_dR p (pd_with_all q a).
Proof. intros p q a (A & B & C & D). split; [exact A|repeat split; assumption]. Qed.
Lemma pgt_dR_pos : forall p q a, pgt_dR p q -> pgt_dR p (pd_with_pos q a).
Proof. intros p q a (A & B & C & D). split; [exact A|repeat split; assumption]. Qed.
Lemma pgt_dR_pushed : forall p q a, pgt_dR p q -> pgt_dR p (pd_with_pushed q a).
Proof. intros p q a (A & B & C & D). split; [exact A|repeat split; assumption]. Qed.
Lemma pgt_dR_invalid : forall p q a, pgt_dR p q -> pgt_dR p (pd_with_invalid q a).
Proof. intros p q a (A & B & C & D). split; [exact A|repeat split; assumption]. Qed.

Ltac pgt_doc :=
  repeat first
    [ assumption
    | apply pgt_dR_refl
    | apply pgt_dR_all
    | apply pgt_dR_pos
    | apply pgt_dR_pushed
    | apply pgt_dR_invalid
    | apply pgt_dR_store; [|pgt_chain] ].

Lemma pgt_cache_core : forall p, pgt_dR p (fst (fst (pg_cache_core p))).
Proof.
  intros p. unfold pg_cache_core.
  destruct ((match pd_all p with [] => true | _ => false end) && negb (pd_invalid p)); [|apply pgt_dR_refl].
  cbv zeta. destruct (pg_climb _ _ _ _ _) as [pages changed].
  set (s1 := if changed then pg_obj_set_key (pd_store p) (pd_root p) pgk_Pages pages else pd_store p).
  assert (H1 : pgt_le (pd_store p) s1) by (unfold s1; pgt_chain).
  destruct (negb (pg_has_key s1 pages pgk_Kids)); [cbn [fst]; pgt_doc|].
  destruct pages as [| | |n| |].
  1,2,3,5,6: solve [cbn [fst]; pgt_doc].
  match goal with |- context [pg_gapi 102 ?n ?l ?a ?b ?g0] =>
    pose proof (pgt_gapi 102 n l a b g0) as H2; set (g := pg_gapi 102 n l a b g0) in *; clearbody g end.
  cbn [pgg_s] in H2. pose proof (pgt_keep_trans _ _ _ _ H1 H2) as H3.
  destruct (pgg_err g); cbn [fst]; pgt_doc.
Qed.

Lemma pgt_nil_inh : pgt_inh_ka [].
Proof. intros kv []. Qed.

Lemma pgt_push_after_cache : forall p, pgt_dR p (fst (pg_push_after_cache p)).
Proof.
  intros p. unfold pg_push_after_cache. destruct (pg_root_pages p); try apply pgt_dR_refl.
  pose proof (pgt_pia 110 i [] (pd_store p) pgt_nil_inh) as H.
  destruct (pg_pia 110 i [] (pd_store p)) as [s e]. cbn [fst] in H. destruct e; cbn [fst]; pgt_doc.
Qed.

Lemma pgt_flatten_tail : forall p, pgt_dR p (fst (pg_flatten_tail p)).
Proof.
  intros p. unfold pg_flatten_tail. destruct (pg_root_pages p) as [| | |pn| |]; try apply pgt_dR_refl.
  match goal with |- context [fold_left ?f (pd_all p) ?b0] =>
    pose proof (pgt_fold (fun b : pg_store * list (N * Z) * option pg_err * Z => fst (fst (fst b))) f (pd_store p)) as Hf;
    specialize (fun H => Hf H (pd_all p) b0 (pgt_keep_refl _ _));
    destruct (fold_left f (pd_all p) b0) as [[[s m] e] i]
  end.
  cbn [fst] in Hf.
  assert (H1 : pgt_le (pd_store p) s).
  { apply Hf. intros [[[s2 m2] e2] i2] pg. cbn [fst]. destruct e2; [apply pgt_keep_refl|].
    destruct (pg_pos_find m2 pg); cbn [fst]; pgt_chain. }
  clear Hf. destruct e; cbn [fst]; [pgt_doc|].
  cbv zeta. destruct (pg_uint _ _); cbn [fst]; [|pgt_doc].
  destruct (_ =? _)%Z; cbn [fst]; [pgt_doc|].
  destruct (_ && _); cbn [fst]; pgt_doc.
Qed.

Section PgtWithCache.
  Context (cachef : pg_doc -> pg_doc * option pg_err) (Hcache : forall p, pgt_dR p (fst (cachef p))).

  Lemma pgt_push_gen : forall p w, pgt_dR p (fst (pg_push_gen cachef p w)).
  Proof.
    intros p w. unfold pg_push_gen. destruct (pd_pushed p && negb w); [apply pgt_dR_refl|].
    pose proof (Hcache p) as H. destruct (cachef p) as [q e]. cbn [fst] in H. destruct e; [exact H|].
    eapply pgt_dR_trans; [exact H|apply pgt_push_after_cache].
  Qed.

  Lemma pgt_flatten_gen : forall p, pgt_dR p (fst (pg_flatten_gen cachef p)).
  Proof.
    intros p. unfold pg_flatten_gen. destruct (pd_pos p); [|apply pgt_dR_refl].
    pose proof (pgt_push_gen p true) as H. destruct (pg_push_gen cachef p true) as [q e]. cbn [fst] in H.
    destruct e; [exact H|]. eapply pgt_dR_trans; [exact H|apply pgt_flatten_tail].
  Qed.
End PgtWithCache.

Lemma pgt_cache : forall p, pgt_dR p (fst (pg_cache p)).
Proof.
  intros p. unfold pg_cache. pose proof (pgt_cache_core p) as H.
  destruct (pg_cache_core p) as [[q e] nf]. cbn [fst] in H. destruct e; [exact H|]. destruct nf; [|exact H].
  pose proof (pgt_flatten_gen (fun q => (q, None)) (fun q => pgt_dR_refl q) q) as H2.
  destruct (pg_flatten_gen _ q) as [r e]. cbn [fst] in H2. pose proof (pgt_dR_trans _ _ _ H H2).
  destruct e; cbn [fst]; pgt_doc.
Qed.

Lemma pgt_all : forall p, pgt_dR p (fst (pg_all p)).
Proof. intros p. unfold pg_all. destruct (pd_all p); [apply pgt_cache|apply pgt_dR_refl]. Qed.

Lemma pgt_push : forall p w, pgt_dR p (fst (pg_push p w)).
Proof. intros. apply pgt_push_gen. exact pgt_cache. Qed.

Lemma pgt_flatten : forall p, pgt_dR p (fst (pg_flatten p)).
Proof. intros. apply pgt_flatten_gen. exact pgt_cache. Qed.

Lemma pgt_update_cache : forall p, pgt_dR p (fst (pg_update_cache p)).
Proof.
  intros p. unfold pg_update_cache. eapply pgt_dR_trans; [|apply pgt_cache]. pgt_doc.
Qed.

Lemma pgt_find : forall p og, pgt_dR p (fst (fst (pg_find p og))).
Proof.
  intros p og. unfold pg_find. pose proof (pgt_flatten p) as H. destruct (pg_flatten p) as [q e]. cbn [fst] in H.
  destruct e; [exact H|]. destruct (pg_pos_find (pd_pos q) og); exact H.
Qed.

(* ------------------------------------------------------------------ insertion / removal inside one document *)
Lemma pgt_insert_core : forall p ni pos, pgt_dR p (fst (pg_insert_core p ni pos)).
Proof.
  intros p ni pos. unfold pg_insert_core. cbv zeta.
  repeat (match goal with |- context [match ?x with _ => _ end] => destruct x end); cbn [fst]; pgt_doc.
Qed.

Lemma pgt_insert_dup : forall p np, pgt_dR p (fst (fst (pg_insert_dup p np))).
Proof.
  intros p np. unfold pg_insert_dup, pg_alloc. cbv zeta.
  repeat (match goal with |- context [match ?x with _ => _ end] => destruct x end); cbn [fst]; pgt_doc.
Qed.

Lemma pgt_insert_local : forall p np pos, pgt_dR p (fst (pg_insert_local p np pos)).
Proof.
  intros p np pos. unfold pg_insert_local. destruct (_ || _); [apply pgt_dR_refl|].
  pose proof (pgt_insert_dup p np) as H. destruct (pg_insert_dup p np) as [[q e] np']. cbn [fst] in H.
  destruct e; [exact H|]. destruct np'; try exact H. eapply pgt_dR_trans; [exact H|apply pgt_insert_core].
Qed.

Lemma pgt_erase_core : forall p og pos, pgt_dR p (fst (pg_erase_core p og pos)).
Proof.
  intros p og pos. unfold pg_erase_core. cbv zeta.
  repeat (match goal with |- context [match ?x with _ => _ end] => destruct x end); cbn [fst]; pgt_doc.
Qed.

(* ------------------------------------------------------------------ worlds *)
Definition pgt_wR (w w' : pg_world) : Prop := forall d, pgt_dR (pg_get w d) (pg_get w' d).

Lemma pgt_wR_refl : forall w, pgt_wR w w.
Proof. intros w d. apply pgt_dR_refl. Qed.

Lemma pgt_wR_trans : forall w1 w2 w3, pgt_wR w1 w2 -> pgt_wR w2 w3 -> pgt_wR w1 w3.
Proof. intros w1 w2 w3 H1 H2 d. eapply pgt_dR_trans; [apply H1|apply H2]. Qed.

Lemma pgt_get_put : forall w d p b, pg_get (pg_put w d p) b = if Bool.eqb b d then p else pg_get w b.
Proof. intros [a b0] [] p []; reflexivity. Qed.

Lemma pgt_wR_put : forall w d p, pgt_dR (pg_get w d) p -> pgt_wR w (pg_put w d p).
Proof.
  intros w d p H b. rewrite pgt_get_put. destruct (Bool.eqb b d) eqn:E; [|apply pgt_dR_refl].
  apply Bool.eqb_prop in E. subst b. exact H.
Qed.

Lemma pgt_erase : forall w d og, pgt_wR w (fst (pg_erase w d og)).
Proof.
  intros w d og. unfold pg_erase. pose proof (pgt_find (pg_get w d) og) as H.
  destruct (pg_find (pg_get w d) og) as [[p e] pos]. cbn [fst] in H. destruct e; cbn [fst]; [apply pgt_wR_put, H|].
  pose proof (pgt_erase_core p og pos) as H2. destruct (pg_erase_core p og pos) as [q e]. cbn [fst] in *.
  apply pgt_wR_put. eapply pgt_dR_trans; eassumption.
Qed.

(* ------------------------------------------------------------------ the copier *)
Local Opaque pg_reserve.

Lemma pgt_copied_src : forall src dst fid, pgt_dR src (fst (fst (fst (pg_copied src dst fid)))).
Proof.
  intros src dst fid. apply (pgz_copied_src (pgt_dR src)); [|apply pgt_dR_refl].
  intros p H. eapply pgt_dR_trans; [exact H|apply pgt_all].
Qed.

Lemma pgt_copied_dst : forall src dst fid,
  pgt_keep (fun j => pg_is_null (pd_store dst) (PvRef j) = true) (pd_store dst) (pd_store (snd (fst (fst (pg_copied src dst fid))))).
Proof.
  intros src dst fid j Ht Hj.
  assert (Hn : pg_is_null (pd_store dst) (PvRef j) = false) by (destruct (pg_is_null (pd_store dst) (PvRef j)); [exfalso; apply Ht; reflexivity|reflexivity]).
  apply pgt_ok_eq; [|exact Hj].
  destruct (pg_lookup (pd_store dst) j) as [cell|] eqn:E; [|congruence].
  apply copy_frame_lemma; assumption.
Qed.

(* a world step that may copy into document d (c = true): the other document is only repaired, existing non-null
   objects of d are kept *)
Definition pgt_wC (c : bool) (d : bool) (w w' : pg_world) : Prop :=
  pgt_dR (pg_get w (negb d)) (pg_get w' (negb d)) /\
  pgt_keep (fun j => c = true /\ pg_is_null (pd_store (pg_get w d)) (PvRef j) = true) (pd_store (pg_get w d)) (pd_store (pg_get w' d)) /\
  (c = false -> pd_omap (pg_get w' d) = pd_omap (pg_get w d)).

Lemma pgt_wC_of_R : forall c d w w', pgt_wR w w' -> pgt_wC c d w w'.
Proof.
  intros c d w w' H. destruct (H (negb d)) as (A & B & C & D). destruct (H d) as (A' & B' & _).
  split; [exact (H (negb d))|split; [apply pgt_le_any, A'|intros _; exact B']].
Qed.

Lemma pgt_wC_trans_R_l : forall c d w w1 w2, pgt_wR w w1 -> pgt_wC c d w1 w2 -> pgt_wC c d w w2.
Proof.
  intros c d w w1 w2 H (A & B & C). destruct (H d) as (A' & B' & _).
  split; [eapply pgt_dR_trans; [apply H|exact A]|split].
  - eapply pgt_keep_trans_gen; [exact A'|exact B| |].
    + intros j _ _ [].
    + intros j Ht Hj Hn [Hc Hx]. apply Ht. split; [exact Hc|]. rewrite <- Hn. exact Hx.
  - intros Hc. rewrite (C Hc). exact B'.
Qed.

Lemma pgt_wC_trans_R_r : forall c d w w1 w2, pgt_wC c d w w1 -> pgt_wR w1 w2 -> pgt_wC c d w w2.
Proof.
  intros c d w w1 w2 (A & B & C) H. destruct (H d) as (A' & B' & _).
  split; [eapply pgt_dR_trans; [exact A|apply H]|split].
  - eapply pgt_keep_trans_gen; [exact B|exact A'| |].
    + intros j Ht _. exact Ht.
    + intros j _ _ _ [].
  - intros Hc. rewrite B'. exact (C Hc).
Qed.

Lemma pgt_wC_put2 : forall w b d src' dst', Bool.eqb b d = false ->
  pgt_dR (pg_get w b) src' ->
  pgt_keep (fun j => pg_is_null (pd_store (pg_get w d)) (PvRef j) = true) (pd_store (pg_get w d)) (pd_store dst') ->
  pgt_wC true d w (pg_put (pg_put w b src') d dst').
Proof.
  intros [pa pb] b d src' dst' Hb. unfold pgt_wC.
  destruct b, d; try discriminate Hb; cbn [pg_get pg_put fst snd negb]; intros H1 H2;
    (split; [exact H1|split; [|intros H; discriminate H]]);
    (eapply pgt_keep_weaken; [|exact H2]); intros j Hj; (split; [reflexivity|exact Hj]).
Qed.

Lemma pgt_wC_copied : forall w b d i, Bool.eqb b d = false ->
  pgt_wC true d w (pg_put (pg_put w b (fst (fst (fst (pg_copied (pg_get w b) (pg_get w d) i))))) d
                          (snd (fst (fst (pg_copied (pg_get w b) (pg_get w d) i))))).
Proof.
  intros w b d i Hb. apply pgt_wC_put2; [exact Hb|apply pgt_copied_src|apply pgt_copied_dst].
Qed.

Lemma pgt_foreign_put : forall w d p h, pg_foreign_handle (pg_put w d p) d h = pg_foreign_handle w d h.
Proof.
  intros w d p h. unfold pg_foreign_handle. destruct h as [v|b i]; [reflexivity|]. cbn [pg_norm]. rewrite pgt_get_put.
  destruct (Bool.eqb b d) eqn:E; [|reflexivity].
  destruct (pg_lookup (pd_store p) i); destruct (pg_lookup (pd_store (pg_get w b)) i); cbn [negb]; rewrite ?E; reflexivity.
Qed.

Lemma pgt_insert : forall w d h pos, pgt_wC (pg_foreign_handle w d h) d w (fst (pg_insert w d h pos)).
Proof.
  intros w d h pos. unfold pg_insert. destruct (negb (pg_insertable w d h)); [apply pgt_wC_of_R, pgt_wR_refl|].
  pose proof (pgt_flatten (pg_get w d)) as Hf. destruct (pg_flatten (pg_get w d)) as [p e]. cbn [fst] in Hf.
  pose proof (pgt_wR_put w d p Hf) as R1. rewrite <- (pgt_foreign_put w d p h).
  cbv zeta. set (w1 := pg_put w d p) in *. clearbody w1. apply (pgt_wC_trans_R_l _ _ _ w1); [exact R1|]. clear R1 Hf.
  destruct e; [apply pgt_wC_of_R, pgt_wR_refl|].
  unfold pg_foreign_handle. destruct (pg_norm w1 h) as [v|b i] eqn:En.
  - unfold pg_alloc. cbv beta iota zeta. apply pgt_wC_of_R.
    match goal with |- context [pg_insert_local ?q ?np pos] =>
      pose proof (pgt_insert_local q np pos) as H; destruct (pg_insert_local q np pos) as [q2 e2] end.
    cbn [fst] in *. eapply pgt_wR_trans; [|apply pgt_wR_put; exact H]. apply pgt_wR_put. pgt_doc.
  - destruct (Bool.eqb b d) eqn:Eb; cbn [negb].
    + cbv beta iota zeta. apply pgt_wC_of_R.
      pose proof (pgt_insert_local (pg_get w1 d) (PvRef i) pos) as H. destruct (pg_insert_local _ _ pos) as [q2 e2].
      cbn [fst] in *. apply pgt_wR_put, H.
    + pose proof (pgt_push (pg_get w1 b) false) as Hp. destruct (pg_push (pg_get w1 b) false) as [src e1]. cbn [fst] in Hp.
      pose proof (pgt_wR_put w1 b src Hp) as R2. set (w2 := pg_put w1 b src) in *. clearbody w2.
      destruct e1; [cbv beta iota zeta; apply pgt_wC_of_R, R2|].
      pose proof (pgt_wC_copied w2 b d i Eb) as H3.
      destruct (pg_copied (pg_get w2 b) (pg_get w2 d) i) as [[[src' dst'] e2] r]. cbn [fst snd] in H3.
      cbv beta iota zeta. set (w3 := pg_put (pg_put w2 b src') d dst') in *. clearbody w3.
      pose proof (pgt_wC_trans_R_l _ _ _ _ _ R2 H3) as H13.
      destruct e2; [exact H13|].
      pose proof (pgt_insert_local (pg_get w3 d) r pos) as H. destruct (pg_insert_local _ _ pos) as [q2 e2].
      cbn [fst] in *. eapply pgt_wC_trans_R_r; [exact H13|]. apply pgt_wR_put, H.
Qed.

(* ------------------------------------------------------------------ the step function *)
Definition pgt_copies_into (w : pg_world) (o : pg_op) (d : bool) : bool :=
  match o with
  | PoCopyForeign d0 h | PoAddPage d0 h _ | PoHAddPage d0 h _ | PoAddPageAt d0 h _ _ => Bool.eqb d0 d && pg_foreign_handle w d0 h
  | _ => false
  end.

Definition pgt_T (w : pg_world) (o : pg_op) (d : bool) (j : N) : Prop :=
  match o with
  | PoReplace d0 i _ | PoReplaceInd d0 i _ => d0 = d /\ j = i
  | PoSwap d0 i k => d0 = d /\ (j = i \/ j = k)
  | _ => False
  end \/
  (pgt_copies_into w o d = true /\ pg_is_null (pd_store (pg_get w d)) (PvRef j) = true).

(* the statement of the main theorem for given target set and copy flag *)
Definition pgt_fin (T : N -> Prop) (c : bool) (w w' : pg_world) (d : bool) : Prop :=
  pgt_keep T (pd_store (pg_get w d)) (pd_store (pg_get w' d)) /\ (c = false -> pd_omap (pg_get w' d) = pd_omap (pg_get w d)).

Lemma pgt_fin_of_R : forall T c w w' d, pgt_wR w w' -> pgt_fin T c w w' d.
Proof. intros T c w w' d H. destruct (H d) as (A & B & _). split; [apply pgt_le_any, A|intros _; exact B]. Qed.

Lemma pgt_fin_of_C : forall c d0 w w' d, pgt_wC c d0 w w' ->
  pgt_fin (fun j => (Bool.eqb d0 d && c) = true /\ pg_is_null (pd_store (pg_get w d)) (PvRef j) = true) (Bool.eqb d0 d && c) w w' d.
Proof.
  intros c d0 w w' d (A & B & C). destruct (Bool.eqb d0 d) eqn:E.
  - apply Bool.eqb_prop in E. subst d0. cbn [andb]. split; [exact B|exact C].
  - assert (d = negb d0) as -> by (destruct d, d0; try reflexivity; discriminate E).
    destruct A as (A1 & A2 & _). split; [apply pgt_le_any, A1|intros _; exact A2].
Qed.

Lemma pgt_fin_weaken : forall (T T' : N -> Prop) c w w' d, (forall j, T j -> T' j) -> pgt_fin T c w w' d -> pgt_fin T' c w w' d.
Proof. intros T T' c w w' d H [A B]. split; [eapply pgt_keep_weaken; eassumption|exact B]. Qed.

(* replacing the store of one document *)
Lemma pgt_fin_store : forall (T0 : N -> Prop) c w d0 s d,
  pgt_keep T0 (pd_store (pg_get w d0)) s ->
  pgt_fin (fun j => d0 = d /\ T0 j) c w (pg_put w d0 (pd_with_store (pg_get w d0) s)) d.
Proof.
  intros T0 c [pa pb] d0 s d H. unfold pgt_fin.
  destruct d0, d; cbn [pg_get pg_put fst snd pd_with_store pd_store pd_omap] in *;
    (split; [|intros _; reflexivity]);
    first [ apply pgt_keep_refl | eapply pgt_keep_weaken; [|exact H]; intros j Hj; split; [reflexivity|exact Hj] ].
Qed.

(* the operations that can copy from the other document *)
Lemma pgt_step_insert : forall w d0 h pos d (o : pg_op),
  pgt_copies_into w o d = (Bool.eqb d0 d && pg_foreign_handle w d0 h) ->
  pgt_fin (pgt_T w o d) (pgt_copies_into w o d) w (fst (pg_insert w d0 h pos)) d.
Proof.
  intros w d0 h pos d o Hc. rewrite Hc. eapply pgt_fin_weaken; [|apply pgt_fin_of_C, pgt_insert].
  intros j Hj. right. rewrite Hc. exact Hj.
Qed.

Lemma pgt_step_insert_after : forall w d0 p h pos d (o : pg_op),
  pgt_dR (pg_get w d0) p ->
  pgt_copies_into w o d = (Bool.eqb d0 d && pg_foreign_handle w d0 h) ->
  pgt_fin (pgt_T w o d) (pgt_copies_into w o d) w (fst (pg_insert (pg_put w d0 p) d0 h pos)) d.
Proof.
  intros w d0 p h pos d o Hp Hc. rewrite Hc. eapply pgt_fin_weaken; [|apply pgt_fin_of_C].
  - intros j Hj. right. rewrite Hc. exact Hj.
  - eapply pgt_wC_trans_R_l; [apply pgt_wR_put, Hp|]. rewrite <- (pgt_foreign_put w d0 p h). apply pgt_insert.
Qed.

Lemma pgt_fin_C_gen : forall w (o : pg_op) d d0 c w',
  pgt_copies_into w o d = (Bool.eqb d0 d && c) -> pgt_wC c d0 w w' ->
  pgt_fin (pgt_T w o d) (pgt_copies_into w o d) w w' d.
Proof.
  intros w o d d0 c w' Hc H. rewrite Hc. eapply pgt_fin_weaken; [|apply pgt_fin_of_C, H].
  intros j Hj. right. rewrite Hc. exact Hj.
Qed.

Lemma pgt_alloc_dR : forall p c, pgt_dR p (pd_with_store p (fst (pg_alloc (pd_store p) c))).
Proof. intros p c. apply pgt_dR_store; [apply pgt_dR_refl|apply pgt_alloc]. Qed.

Theorem frame_invariant_lemma : forall w o d,
  let w' := fst (pg_step w o) in
  pgt_keep (pgt_T w o d) (pd_store (pg_get w d)) (pd_store (pg_get w' d)) /\
  (pgt_copies_into w o d = false -> pd_omap (pg_get w' d) = pd_omap (pg_get w d)).
Proof.
  intros w o d. cbv zeta. change (pgt_fin (pgt_T w o d) (pgt_copies_into w o d) w (fst (pg_step w o)) d).
  destruct o as [d0 h first|d0 h first|d0 h before r|d0 h|d0 i|d0 h|d0 i v|d0 i k|d0|d0|d0|d0 i|d0 v|d0 i h|d0 i]; unfold pg_step.
  - (* addPage *)
    destruct first.
    + pose proof (pgt_step_insert w d0 h 0%Z d (PoAddPage d0 h true) eq_refl) as H.
      destruct (pg_insert w d0 h 0) as [w1 e]. exact H.
    + destruct (pg_rv _ _) as [|c| | | |]; try (apply pgt_fin_of_R, pgt_wR_refl).
      pose proof (pgt_step_insert w d0 h c d (PoAddPage d0 h false) eq_refl) as H.
      destruct (pg_insert w d0 h c) as [w1 e]. exact H.
  - (* QPDFPageDocumentHelper::addPage *)
    destruct first.
    + pose proof (pgt_step_insert w d0 h 0%Z d (PoHAddPage d0 h true) eq_refl) as H.
      destruct (pg_insert w d0 h 0) as [w1 e]. exact H.
    + pose proof (pgt_all (pg_get w d0)) as Hp. destruct (pg_all (pg_get w d0)) as [p e]. cbn [fst] in Hp.
      destruct e; [apply pgt_fin_of_R, pgt_wR_put, Hp|].
      pose proof (pgt_step_insert_after w d0 p h (pg_len (pd_all p)) d (PoHAddPage d0 h false) Hp eq_refl) as H.
      destruct (pg_insert (pg_put w d0 p) d0 h (pg_len (pd_all p))) as [w1 e]. exact H.
  - (* addPageAt *)
    destruct (pg_foreign_handle w d0 r); [apply pgt_fin_of_R, pgt_wR_refl|].
    pose proof (pgt_find (pg_get w d0) (pg_og_of w r)) as Hp. destruct (pg_find (pg_get w d0) (pg_og_of w r)) as [[p e] pos]. cbn [fst] in Hp.
    destruct e; [apply pgt_fin_of_R, pgt_wR_put, Hp|].
    pose proof (pgt_step_insert_after w d0 p h (if before then pos else (pos + 1)%Z) d (PoAddPageAt d0 h before r) Hp eq_refl) as H.
    destruct (pg_insert (pg_put w d0 p) d0 h _) as [w1 e]. exact H.
  - (* removePage *)
    destruct (pg_foreign_handle w d0 h); [apply pgt_fin_of_R, pgt_wR_refl|].
    pose proof (pgt_erase w d0 (pg_og_of w h)) as H. destruct (pg_erase w d0 (pg_og_of w h)) as [w1 e]. apply pgt_fin_of_R, H.
  - (* shallowCopyPage *)
    destruct (pg_lookup (pd_store (pg_get w d0)) i) as [[v|dd data key]|]; try (apply pgt_fin_of_R, pgt_wR_refl).
    unfold pg_alloc. cbn [fst]. apply pgt_fin_of_R, pgt_wR_put. exact (pgt_alloc_dR (pg_get w d0) (PcObj v)).
  - (* copyForeignObject *)
    destruct (pg_norm w h) as [v|b i] eqn:En; [apply pgt_fin_of_R, pgt_wR_refl|].
    destruct (Bool.eqb b d0) eqn:Eb; [apply pgt_fin_of_R, pgt_wR_refl|].
    assert (Hfor : pg_foreign_handle w d0 h = true) by (unfold pg_foreign_handle; rewrite En, Eb; reflexivity).
    pose proof (pgt_wC_copied w b d0 i Eb) as H.
    destruct (pg_copied (pg_get w b) (pg_get w d0) i) as [[[src' dst'] e] r]. cbn [fst snd] in H.
    assert (Hc : pgt_copies_into w (PoCopyForeign d0 h) d = Bool.eqb d0 d && true) by (cbn [pgt_copies_into]; rewrite Hfor; reflexivity).
    destruct e; cbn [fst]; exact (pgt_fin_C_gen _ _ _ _ _ _ Hc H).
  - (* replaceObject *)
    cbn [fst]. eapply pgt_fin_weaken; [|apply pgt_fin_store, pgt_supd]. intros j Hj. left. exact Hj.
  - (* swapObjects *)
    destruct (pg_lookup (pd_store (pg_get w d0)) i) as [ci|]; [|apply pgt_fin_of_R, pgt_wR_refl].
    destruct (pg_lookup (pd_store (pg_get w d0)) k) as [ck|]; [|apply pgt_fin_of_R, pgt_wR_refl].
    cbn [fst]. eapply pgt_fin_weaken; [|apply (pgt_fin_store (fun j => j = i \/ j = k))].
    + intros j Hj. left. exact Hj.
    + eapply pgt_keep_trans; (eapply pgt_keep_weaken; [|apply pgt_supd]); intros j Hj; [left|right]; exact Hj.
  - (* update_cache *)
    pose proof (pgt_update_cache (pg_get w d0)) as H. destruct (pg_update_cache (pg_get w d0)) as [p e]. apply pgt_fin_of_R, pgt_wR_put, H.
  - (* pushInheritedAttributesToPage *)
    pose proof (pgt_push (pg_get w d0) false) as H. destruct (pg_push (pg_get w d0) false) as [p e]. apply pgt_fin_of_R, pgt_wR_put, H.
  - (* getAllPages *)
    pose proof (pgt_all (pg_get w d0)) as H. destruct (pg_all (pg_get w d0)) as [p e]. apply pgt_fin_of_R, pgt_wR_put, H.
  - (* findPage *)
    pose proof (pgt_find (pg_get w d0) i) as H. destruct (pg_find (pg_get w d0) i) as [[p e] z]. apply pgt_fin_of_R, pgt_wR_put, H.
  - (* makeIndirectObject *)
    unfold pg_alloc. cbn [fst]. apply pgt_fin_of_R, pgt_wR_put. exact (pgt_alloc_dR (pg_get w d0) (PcObj v)).
  - (* replaceObject with an indirect handle *)
    destruct (pg_norm w h) as [v|b j0].
    + cbn [fst]. eapply pgt_fin_weaken; [|apply pgt_fin_store, pgt_supd]. intros j Hj. left. exact Hj.
    + destruct (_ && _); [|apply pgt_fin_of_R, pgt_wR_refl].
      destruct (Bool.eqb b d0); [|apply pgt_fin_of_R, pgt_wR_refl].
      cbn [fst]. eapply pgt_fin_weaken; [|apply pgt_fin_store, pgt_supd]. intros j Hj. left. exact Hj.
  - (* replaceObject with a reservation *)
    unfold pg_alloc. cbn [fst]. apply pgt_fin_of_R, pgt_wR_put. exact (pgt_alloc_dR (pg_get w d0) (PcObj PvNull)).
Qed.

(* ------------------------------------------------------------------ in-place edits (PgyModel.v) *)
Lemma pgt_edit_attr : forall s i attr e,
  pgt_keep (fun j => j = i \/ exists t, snd (pgy_edit_attr s i attr e) = PrId t /\ j = t) s (fst (pgy_edit_attr s i attr e)).
Proof.
  intros s i attr e. unfold pgy_edit_attr.
  destruct (pg_lookup s i) as [[[]|]|]; try apply pgt_keep_refl.
  destruct (pg_dget l attr) as [|z|nm|j0|arr|dd];
    try (destruct (pgy_apply e _); cbn [fst snd]; [|apply pgt_keep_refl];
         (eapply pgt_keep_weaken; [|apply pgt_supd]); intros j Hj; left; exact Hj).
  destruct (pg_lookup s j0) as [[v|? ? ?]|]; try apply pgt_keep_refl.
  destruct (pgy_apply e v); cbn [fst snd]; [|apply pgt_keep_refl].
  eapply pgt_keep_weaken; [|apply pgt_supd]. intros j Hj. right. exists j0. split; [reflexivity|exact Hj].
Qed.

Lemma pgt_edit_kids : forall p e, pgt_dR p (fst (pgy_edit_kids p e)).
Proof.
  intros p e. unfold pgy_edit_kids.
  repeat (match goal with |- context [match ?x with _ => _ end] => destruct x end); cbn [fst]; pgt_doc.
Qed.

Definition pgt_yT (w : pg_world) (o : pgy_op) (d : bool) (j : N) : Prop :=
  match o with
  | PyBase o0 => pgt_T w o0 d j
  | PyEdit d0 i _ _ => d0 = d /\ (j = i \/ exists t, snd (pgy_step w o) = PrId t /\ j = t)
  | PyKids _ _ => False
  end.

Definition pgt_ycopies_into (w : pg_world) (o : pgy_op) (d : bool) : bool :=
  match o with PyBase o0 => pgt_copies_into w o0 d | _ => false end.

Theorem frame_invariant_inplace_lemma : forall w o d,
  let w' := fst (pgy_step w o) in
  pgt_keep (pgt_yT w o d) (pd_store (pg_get w d)) (pd_store (pg_get w' d)) /\
  (pgt_ycopies_into w o d = false -> pd_omap (pg_get w' d) = pd_omap (pg_get w d)).
Proof.
  intros w o d. cbv zeta. destruct o as [o0|d0 i attr e|d0 e].
  - exact (frame_invariant_lemma w o0 d).
  - change (pgt_fin (pgt_yT w (PyEdit d0 i attr e) d) false w (fst (pgy_step w (PyEdit d0 i attr e))) d).
    unfold pgt_yT, pgy_step.
    pose proof (pgt_edit_attr (pd_store (pg_get w d0)) i attr e) as H.
    destruct (pgy_edit_attr (pd_store (pg_get w d0)) i attr e) as [s r]. cbn [fst snd] in *.
    exact (pgt_fin_store _ false w d0 s d H).
  - change (pgt_fin (fun _ => False) false w (fst (pgy_step w (PyKids d0 e))) d). unfold pgy_step.
    pose proof (pgt_edit_kids (pg_get w d0) e) as H. destruct (pgy_edit_kids (pg_get w d0) e) as [p done]. cbn [fst] in *.
    apply pgt_fin_of_R, pgt_wR_put, H.
Qed.

(* ------------------------------------------------------------------ the document lemmas, field by field *)
Lemma pgt_cache_core_store : forall p, pgt_keep (fun _ => False) (pd_store p) (pd_store (fst (fst (pg_cache_core p)))).
Proof. intros. exact (proj1 (pgt_cache_core p)). Qed.
Lemma pgt_cache_core_fields : forall p, pd_omap (fst (fst (pg_cache_core p))) = pd_omap p /\ pd_root (fst (fst (pg_cache_core p))) = pd_root p /\ pd_reg (fst (fst (pg_cache_core p))) = pd_reg p.
Proof. intros. exact (proj2 (pgt_cache_core p)). Qed.
Lemma pgt_push_after_cache_store : forall p, pgt_keep (fun _ => False) (pd_store p) (pd_store (fst (pg_push_after_cache p))).
Proof. intros. exact (proj1 (pgt_push_after_cache p)). Qed.
Lemma pgt_push_after_cache_fields : forall p, pd_omap (fst (pg_push_after_cache p)) = pd_omap p /\ pd_root (fst (pg_push_after_cache p)) = pd_root p /\ pd_reg (fst (pg_push_after_cache p)) = pd_reg p.
Proof. intros. exact (proj2 (pgt_push_after_cache p)). Qed.
Lemma pgt_flatten_tail_store : forall p, pgt_keep (fun _ => False) (pd_store p) (pd_store (fst (pg_flatten_tail p))).
Proof. intros. exact (proj1 (pgt_flatten_tail p)). Qed.
Lemma pgt_flatten_tail_fields : forall p, pd_omap (fst (pg_flatten_tail p)) = pd_omap p /\ pd_root (fst (pg_flatten_tail p)) = pd_root p /\ pd_reg (fst (pg_flatten_tail p)) = pd_reg p.
Proof. intros. exact (proj2 (pgt_flatten_tail p)). Qed.
Lemma pgt_cache_store : forall p, pgt_keep (fun _ => False) (pd_store p) (pd_store (fst (pg_cache p))).
Proof. intros. exact (proj1 (pgt_cache p)). Qed.
Lemma pgt_cache_fields : forall p, pd_omap (fst (pg_cache p)) = pd_omap p /\ pd_root (fst (pg_cache p)) = pd_root p /\ pd_reg (fst (pg_cache p)) = pd_reg p.
Proof. intros. exact (proj2 (pgt_cache p)). Qed.
Lemma pgt_all_store : forall p, pgt_keep (fun _ => False) (pd_store p) (pd_store (fst (pg_all p))).
Proof. intros. exact (proj1 (pgt_all p)). Qed.
Lemma pgt_all_fields : forall p, pd_omap (fst (pg_all p)) = pd_omap p /\ pd_root (fst (pg_all p)) = pd_root p /\ pd_reg (fst (pg_all p)) = pd_reg p.
Proof. intros. exact (proj2 (pgt_all p)). Qed.
Lemma pgt_push_store : forall p w, pgt_keep (fun _ => False) (pd_store p) (pd_store (fst (pg_push p w))).
Proof. intros. exact (proj1 (pgt_push p w)). Qed.
Lemma pgt_push_fields : forall p w, pd_omap (fst (pg_push p w)) = pd_omap p /\ pd_root (fst (pg_push p w)) = pd_root p /\ pd_reg (fst (pg_push p w)) = pd_reg p.
Proof. intros. exact (proj2 (pgt_push p w)). Qed.
Lemma pgt_flatten_store : forall p, pgt_keep (fun _ => False) (pd_store p) (pd_store (fst (pg_flatten p))).
Proof. intros. exact (proj1 (pgt_flatten p)). Qed.
Lemma pgt_flatten_fields : forall p, pd_omap (fst (pg_flatten p)) = pd_omap p /\ pd_root (fst (pg_flatten p)) = pd_root p /\ pd_reg (fst (pg_flatten p)) = pd_reg p.
Proof. intros. exact (proj2 (pgt_flatten p)). Qed.
Lemma pgt_update_cache_store : forall p, pgt_keep (fun _ => False) (pd_store p) (pd_store (fst (pg_update_cache p))).
Proof. intros. exact (proj1 (pgt_update_cache p)). Qed.
Lemma pgt_update_cache_fields : forall p, pd_omap (fst (pg_update_cache p)) = pd_omap p /\ pd_root (fst (pg_update_cache p)) = pd_root p /\ pd_reg (fst (pg_update_cache p)) = pd_reg p.
Proof. intros. exact (proj2 (pgt_update_cache p)). Qed.
Lemma pgt_find_store : forall p og, pgt_keep (fun _ => False) (pd_store p) (pd_store (fst (fst (pg_find p og)))).
Proof. intros. exact (proj1 (pgt_find p og)). Qed.
Lemma pgt_find_fields : forall p og, pd_omap (fst (fst (pg_find p og))) = pd_omap p /\ pd_root (fst (fst (pg_find p og))) = pd_root p /\ pd_reg (fst (fst (pg_find p og))) = pd_reg p.
Proof. intros. exact (proj2 (pgt_find p og)). Qed.
Lemma pgt_insert_local_store : forall p np pos, pgt_keep (fun _ => False) (pd_store p) (pd_store (fst (pg_insert_local p np pos))).
Proof. intros. exact (proj1 (pgt_insert_local p np pos)). Qed.
Lemma pgt_insert_local_fields : forall p np pos, pd_omap (fst (pg_insert_local p np pos)) = pd_omap p /\ pd_root (fst (pg_insert_local p np pos)) = pd_root p /\ pd_reg (fst (pg_insert_local p np pos)) = pd_reg p.
Proof. intros. exact (proj2 (pgt_insert_local p np pos)). Qed.
Lemma pgt_erase_core_store : forall p og pos, pgt_keep (fun _ => False) (pd_store p) (pd_store (fst (pg_erase_core p og pos))).
Proof. intros. exact (proj1 (pgt_erase_core p og pos)). Qed.
Lemma pgt_erase_core_fields : forall p og pos, pd_omap (fst (pg_erase_core p og pos)) = pd_omap p /\ pd_root (fst (pg_erase_core p og pos)) = pd_root p /\ pd_reg (fst (pg_erase_core p og pos)) = pd_reg p.
Proof. intros. exact (proj2 (pgt_erase_core p og pos)). Qed.
Lemma pgt_copied_src_store : forall src dst fid, pgt_keep (fun _ => False) (pd_store src) (pd_store (fst (fst (fst (pg_copied src dst fid))))).
Proof. intros. exact (proj1 (pgt_copied_src src dst fid)). Qed.
Lemma pgt_copied_src_fields : forall src dst fid, pd_omap (fst (fst (fst (pg_copied src dst fid)))) = pd_omap src /\ pd_root (fst (fst (fst (pg_copied src dst fid)))) = pd_root src /\ pd_reg (fst (fst (fst (pg_copied src dst fid)))) = pd_reg src.
Proof. intros. exact (proj2 (pgt_copied_src src dst fid)). Qed.

(* pg_erase on a world: both documents *)
Lemma pgt_erase_store : forall w d og b, pgt_keep (fun _ => False) (pd_store (pg_get w b)) (pd_store (pg_get (fst (pg_erase w d og)) b)).
Proof. intros. exact (proj1 (pgt_erase w d og b)). Qed.
Lemma pgt_erase_fields : forall w d og b, pd_omap (pg_get (fst (pg_erase w d og)) b) = pd_omap (pg_get w b).
Proof. intros. exact (proj1 (proj2 (pgt_erase w d og b))). Qed.
