(* C19 - what "the option tables of the three front ends are equivalent" means, written from the manual
   (manual/qpdf-job.rst: flags camel-cased, bare flag <-> "" value, parameter <-> string value, positional arguments as named
   keys; qpdf --job-json-help for the nesting).  Decidable checkers over the GENERATED tables of Gen/JobTables.v; the theorems
   (Sys/C19Proofs.v) evaluate them on the tables regenerated from the qpdf source on every run. No proofs here. *)
From Coq Require Import String.
From Coq Require Import List NArith Bool.
From QV Require Import Sys.JobTypes.
Import ListNotations.
Open Scope N_scope.

(* ---- camelCase as printed by --job-json-help: "-x" becomes "X" *)
Definition upper_ascii (c : N) : N := if (97 <=? c) && (c <=? 122) then c - 32 else c.
Fixpoint camel (s : bstr) : bstr :=
  match s with
  | [] => []
  | c :: r => if c =? 45
              then match r with
                   | c2 :: r2 => upper_ascii c2 :: camel r2
                   | [] => [45]
                   end
              else c :: camel r
  end.

Definition ARR : bstr := B"[]".

(* ---- where the options of an argv option table live in the job JSON (one argv table can serve two JSON places:
   --overlay and --underlay share a table) *)
Definition table_paths (t : bstr) : list (list bstr) :=
  if bstr_eqb t B"main" then [[]]
  else if bstr_eqb t B"global" then [[B"global"]]
  else if bstr_eqb t B"pages" then [[B"pages"; ARR]]
  else if bstr_eqb t B"encryption" then [[B"encrypt"]]
  else if bstr_eqb t B"40-bit-encryption" then [[B"encrypt"; B"40bit"]]
  else if bstr_eqb t B"128-bit-encryption" then [[B"encrypt"; B"128bit"]]
  else if bstr_eqb t B"256-bit-encryption" then [[B"encrypt"; B"256bit"]]
  else if bstr_eqb t B"underlay/overlay" then [[B"overlay"; ARR]; [B"underlay"; ARR]]
  else if bstr_eqb t B"attachment" then [[B"addAttachment"; ARR]]
  else if bstr_eqb t B"copy-attachment" then [[B"copyAttachmentsFrom"; ARR]]
  else if bstr_eqb t B"set-page-labels" then [[B"setPageLabels"; ARR]]
  else [].   (* help table: no job-JSON form (informational options valid only as the sole argument) *)

Definition all_tables : list bstr :=
  [B"main"; B"global"; B"pages"; B"encryption"; B"40-bit-encryption"; B"128-bit-encryption"; B"256-bit-encryption";
   B"underlay/overlay"; B"attachment"; B"copy-attachment"; B"set-page-labels"].

(* main options that may be given several times and accumulate: arrays in the job JSON *)
Definition repeatable : list bstr := [B"json-key"; B"json-object"; B"remove-attachment"; B"rotate"].

(* a bare flag is the empty string, a parameter a string, an optional parameter a string that may be empty *)
Definition json_kind_of (k : okind) : okind := match k with KOptParam => KParam | k' => k' end.

Definition json_path_of (table flag : bstr) (base : list bstr) : list bstr :=
  base ++ [camel flag] ++ (if bstr_eqb table B"main" && bmem flag repeatable then [ARR] else []).

Definition jkind_eqb (a b : jkind) : bool :=
  match a, b with
  | JScalar k1, JScalar k2 => okind_eqb k1 k2
  | JManual, JManual | JDict, JDict | JArray, JArray | JNone, JNone => true
  | _, _ => false
  end.

Definition is_config (t : otarget) : bool := match t with TConfig _ _ => true | TManual _ => false end.

(* argv entries bound directly to a Config method *)
Definition auto_aentries (t : list aentry) : list aentry := filter (fun e => is_config (ae_target e)) t.
Definition auto_jentries (t : list jentry) : list jentry :=
  filter (fun e => match je_kind e with JScalar _ => is_config (je_target e) | _ => false end) t.

(* one argv entry against the JSON table. strict: also the choice lists agree *)
Definition json_has (jt : list jentry) (path : list bstr) (k : okind) (choices : option (list bstr)) (tg : otarget) : bool :=
  existsb (fun j => blist_eqb (je_path j) path && jkind_eqb (je_kind j) (JScalar k) && otarget_eqb (je_target j) tg &&
                    match choices with Some c => blist_eqb (je_choices j) c | None => true end) jt.

(* one JSON scalar entry against the argv table *)
Definition match_argv (at_ : list aentry) (j : jentry) : bool :=
  existsb (fun e => is_config (ae_target e) && otarget_eqb (ae_target e) (je_target j) &&
                    jkind_eqb (je_kind j) (JScalar (json_kind_of (ae_kind e))) &&
                    existsb (fun base => blist_eqb (je_path j) (json_path_of (ae_table e) (ae_flag e) base)) (table_paths (ae_table e)))
          at_.

(* ---- hand-written handlers: which JSON nodes stand for which manual argv entries (positional arguments as named keys) *)
Definition manual_expected : list (bstr * bstr * list (list bstr * jkind)) :=
  [ (B"main", B"", [([B"inputFile"], JManual); ([B"outputFile"], JManual)]);
    (B"main", B"empty", [([B"empty"], JManual)]);
    (B"main", B"replace-input", [([B"replaceInput"], JManual)]);
    (B"main", B"encrypt", [([B"encrypt"], JDict)]);
    (B"main", B"global", [([B"global"], JDict)]);
    (B"main", B"pages", [([B"pages"], JArray); ([B"pages"; ARR], JDict)]);
    (B"main", B"overlay", [([B"overlay"], JArray); ([B"overlay"; ARR], JDict)]);
    (B"main", B"underlay", [([B"underlay"], JArray); ([B"underlay"; ARR], JDict)]);
    (B"main", B"add-attachment", [([B"addAttachment"], JArray); ([B"addAttachment"; ARR], JDict)]);
    (B"main", B"copy-attachments-from", [([B"copyAttachmentsFrom"], JArray); ([B"copyAttachmentsFrom"; ARR], JDict)]);
    (B"main", B"set-page-labels", [([B"setPageLabels"], JArray)]);
    (B"main", B"json-key", [([B"jsonKey"], JArray)]);
    (B"main", B"json-object", [([B"jsonObject"], JArray)]);
    (B"main", B"remove-attachment", [([B"removeAttachment"], JArray)]);
    (B"main", B"rotate", [([B"rotate"], JArray)]);
    (B"main", B"password", [([B"password"], JManual)]);
    (B"pages", B"", [([B"pages"; ARR; B"file"], JManual)]);
    (B"pages", B"file", [([B"pages"; ARR; B"file"], JManual)]);
    (B"pages", B"password", [([B"pages"; ARR; B"password"], JManual)]);
    (B"encryption", B"", [([B"encrypt"; B"userPassword"], JManual); ([B"encrypt"; B"ownerPassword"], JManual);
                          ([B"encrypt"; B"40bit"], JDict); ([B"encrypt"; B"128bit"], JDict); ([B"encrypt"; B"256bit"], JDict)]);
    (B"encryption", B"user-password", [([B"encrypt"; B"userPassword"], JManual)]);
    (B"encryption", B"owner-password", [([B"encrypt"; B"ownerPassword"], JManual)]);
    (B"encryption", B"bits", [([B"encrypt"; B"40bit"], JDict); ([B"encrypt"; B"128bit"], JDict); ([B"encrypt"; B"256bit"], JDict);
                              ([B"encrypt"; B"Bits"], JNone)]);
    (B"underlay/overlay", B"", [([B"overlay"; ARR; B"file"], JManual); ([B"underlay"; ARR; B"file"], JManual)]);
    (B"underlay/overlay", B"file", [([B"overlay"; ARR; B"file"], JManual); ([B"underlay"; ARR; B"file"], JManual)]);
    (B"underlay/overlay", B"password", [([B"overlay"; ARR; B"password"], JManual); ([B"underlay"; ARR; B"password"], JManual)]);
    (B"attachment", B"", [([B"addAttachment"; ARR; B"file"], JManual)]);
    (B"copy-attachment", B"", [([B"copyAttachmentsFrom"; ARR; B"file"], JManual)]);
    (B"copy-attachment", B"password", [([B"copyAttachmentsFrom"; ARR; B"password"], JManual)]);
    (B"set-page-labels", B"", [([B"setPageLabels"; ARR], JManual)]) ].

Definition jnode_has (jt : list jentry) (pk : list bstr * jkind) : bool :=
  existsb (fun j => blist_eqb (je_path j) (fst pk) && jkind_eqb (je_kind j) (snd pk)) jt.

Definition match_json_gen (strict : bool) (jt : list jentry) (e : aentry) : bool :=
  let ps := table_paths (ae_table e) in
  negb (match ps with [] => true | _ => false end) &&
  forallb (fun base => json_has jt (json_path_of (ae_table e) (ae_flag e) base) (json_kind_of (ae_kind e))
                                (if strict then Some (ae_choices e) else None) (ae_target e)
                       (* or: the JSON side of this flag is one of the listed hand-written handlers (setupPassword, setupPagesFile, ...) *)
                       || (jnode_has jt (json_path_of (ae_table e) (ae_flag e) base, JManual) &&
                           existsb (fun x => bstr_eqb (fst (fst x)) (ae_table e) && bstr_eqb (snd (fst x)) (ae_flag e)) manual_expected)) ps.
Definition match_json := match_json_gen true.

Definition expected_nodes : list (list bstr * jkind) := flat_map (fun x => snd x) manual_expected.

(* every non-Config argv entry outside the help table (except the "--" terminators) is listed above and its JSON nodes exist *)
Definition manual_argv_ok (jt : list jentry) (e : aentry) : bool :=
  match ae_kind e with
  | KEnd => true
  | _ => if bstr_eqb (ae_table e) B"help" then true
         else existsb (fun x => bstr_eqb (fst (fst x)) (ae_table e) && bstr_eqb (snd (fst x)) (ae_flag e) &&
                                forallb (jnode_has jt) (snd x)) manual_expected
  end.
Definition manual_aentries (t : list aentry) : list aentry := filter (fun e => negb (is_config (ae_target e))) t.

(* every JSON node that is not a scalar bound to a Config method is expected by a manual argv entry *)
Definition manual_json_ok (j : jentry) : bool :=
  existsb (fun pk => blist_eqb (je_path j) (fst pk) && jkind_eqb (je_kind j) (snd pk)) expected_nodes.
Definition manual_jentries (t : list jentry) : list jentry :=
  filter (fun e => match je_kind e with JScalar _ => negb (is_config (je_target e)) | _ => true end) t.

(* ---- schema: the schema qpdf validates job JSON against has exactly the nodes of the handler tree, with the right type *)
Definition snode_of (k : jkind) : snode :=
  match k with JScalar _ | JManual => SString | JDict => SDict | JArray => SArray | JNone => SNull end.
Definition snode_eqb (a b : snode) : bool :=
  match a, b with SString, SString | SDict, SDict | SArray, SArray | SNull, SNull => true | _, _ => false end.
Definition schema_has (sc : list (list bstr * snode)) (j : jentry) : bool :=
  existsb (fun s => blist_eqb (fst s) (je_path j) && snode_eqb (snd s) (snode_of (je_kind j))) sc.
Definition schema_covered (jt : list jentry) (s : list bstr * snode) : bool :=
  existsb (fun j => blist_eqb (fst s) (je_path j) && snode_eqb (snd s) (snode_of (je_kind j))) jt.

(* ---- job.yml: the generated headers are what job.yml declares *)
Definition yml_has (yo : list (bstr * bstr * okind * list bstr * bool)) (e : aentry) : bool :=
  match ae_kind e with
  | KEnd | KPositional => true
  | _ => existsb (fun y => match y with (t, f, k, ch, man) =>
                    bstr_eqb t (ae_table e) && bstr_eqb f (ae_flag e) && okind_eqb k (ae_kind e) && blist_eqb ch (ae_choices e) &&
                    (if bstr_eqb t B"help" then true else Bool.eqb man (negb (is_config (ae_target e)))) end) yo
  end.
Definition yml_covered (at_ : list aentry) (y : bstr * bstr * okind * list bstr * bool) : bool :=
  match y with (t, f, k, ch, man) =>
    existsb (fun e => bstr_eqb t (ae_table e) && bstr_eqb f (ae_flag e) && okind_eqb k (ae_kind e) && blist_eqb ch (ae_choices e)) at_ end.
(* json section of job.yml: every declared key is a node of the handler tree; keys bound to a flag name an existing argv flag *)
Definition yml_json_ok (at_ : list aentry) (jt : list jentry) (y : list bstr * N * bstr * bstr) : bool :=
  match y with (p, how, tbl, flag) =>
    if how =? 2 then existsb (fun e => bstr_eqb (ae_flag e) flag) at_
    else existsb (fun j => blist_eqb (je_path j) p) jt &&
         (if how =? 0 then existsb (fun e => bstr_eqb (ae_flag e) flag && (match tbl with [] => true | _ => bstr_eqb (ae_table e) tbl end)) at_
          else true) end.

(* ---- divergences of the pinned tree (findings, see known_findings.json C19:table-divergence:...): 40-bit --print / --modify take y|n on
   the command line but the job JSON binds encrypt.40bit.print / .modify to the 128-bit choice lists *)
Definition known_table_divergences : list (bstr * bstr) :=
  [(B"40-bit-encryption", B"print"); (B"40-bit-encryption", B"modify")].
Definition divergent (e : aentry) : bool :=
  existsb (fun d => bstr_eqb (fst d) (ae_table e) && bstr_eqb (snd d) (ae_flag e)) known_table_divergences.
