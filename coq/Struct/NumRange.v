(* Model of QUtil::parse_numrange (libqpdf/QUtil.cc), written from the C++:
   a pointer p walks the string; result / last_group are the two vectors of the code.
   Strings are byte lists without NUL (the C string ends at the first NUL). *)
From QV Require Import Base.Bytes.
Local Open Scope Z_scope.

Inductive num := NumZ | NumR (n : Z) | NumN (n : Z).

Inductive nr_result :=
| NrOk (l : list Z)
| NrErr (kind : N) (pos : N).
(* kinds: 0 "expected :even or :odd", 1 "invalid range syntax",
          2 "first range group may not be an exclusion", 3 number out of range / overflow,
          4 "trailing comma" *)

Definition INT_MAX : Z := 2147483647.

(* --- the regular expression (x)?(z|r?\d+)(?:-(z|r?\d+))? matched by hand --- *)
Fixpoint take_digits (s : list N) : list N * list N :=
  match s with
  | c :: t => if is_digit c then let (d, r) := take_digits t in (c :: d, r) else ([], s)
  | [] => ([], [])
  end.

Definition parse_numtok (s : list N) : option (num * list N) :=
  match s with
  | 122%N :: t => Some (NumZ, t)                                   (* z *)
  | 114%N :: t =>                                                  (* r digits+ *)
      match take_digits t with
      | ([], _) => None
      | (d, r) => Some (NumR (Z.of_N (dec_value d)), r)
      end
  | _ => match take_digits s with
         | ([], _) => None
         | (d, r) => Some (NumN (Z.of_N (dec_value d)), r)
         end
  end.

Definition match_group (g : list N) : option (bool * num * option num) :=
  let '(ex, g1) := match g with 120%N :: t => (true, t) | _ => (false, g) end in
  match parse_numtok g1 with
  | None => None
  | Some (n1, rest) =>
      match rest with
      | [] => Some (ex, n1, None)
      | 45%N :: r2 =>
          match parse_numtok r2 with
          | Some (n2, []) => Some (ex, n1, Some n2)
          | _ => None
          end
      | _ => None
      end
  end.

(* parse_num lambda: None = runtime_error (overflow in string_to_int or out of range) *)
Definition eval_num (max : Z) (n : num) : option Z :=
  match n with
  | NumZ => Some max        (* returns before the range check *)
  | NumR v => if v >? INT_MAX then None else
              let num := max + 1 - v in
              if (max >? 0) && ((num <? 1) || (num >? max)) then None else Some num
  | NumN v => if v >? INT_MAX then None else
              if (max >? 0) && ((v <? 1) || (v >? max)) then None else Some v
  end.

(* populate lambda *)
Definition span_list (a : Z) (is_span : bool) (b : Z) : list Z :=
  if is_span then
    if a >? b then map (fun i => a - Z.of_nat i) (seq 0 (S (Z.to_nat (a - b))))
    else map (fun i => a + Z.of_nat i) (seq 0 (S (Z.to_nat (b - a))))
  else [a].

Definition zmem (x : Z) (l : list Z) : bool := existsb (Z.eqb x) l.

(* split at the first occurrence of c: (before, Some after) or (all, None) *)
Fixpoint split_first (c : N) (s : list N) : list N * option (list N) :=
  match s with
  | [] => ([], None)
  | x :: t => if N.eqb x c then ([], Some t)
              else let (a, b) := split_first c t in (x :: a, b)
  end.

Definition lenN {A} (l : list A) : N := N.of_nat (length l).

(* The while loop. [pos] is p - range. [body] is what lies between p and range_end.
   Fuel = number of remaining characters + 1 (each iteration consumes a group). *)
Fixpoint groups_loop (fuel : nat) (max : Z) (body : list N) (pos : N) (first : bool)
         (result_rev : list Z) (last_group : list Z) : nr_result :=
  match fuel with
  | O => NrErr 1 pos
  | S f =>
      match body with
      | [] => NrOk (rev' (rev_append last_group result_rev))
      | _ =>
          let (g, after) := split_first 44%N body in
          match match_group g with
          | None => NrErr 1 pos
          | Some (ex, n1, on2) =>
              if first && ex then NrErr 2 pos else
              match eval_num max n1 with
              | None => NrErr 3 pos
              | Some a =>
                  let r2 := match on2 with
                            | None => Some (false, 0)
                            | Some n2 => match eval_num max n2 with
                                         | None => None
                                         | Some b => Some (true, b)
                                         end
                            end in
                  match r2 with
                  | None => NrErr 3 pos
                  | Some (is_span, b) =>
                      let work := span_list a is_span b in
                      let '(result_rev', last_group') :=
                        if ex then (result_rev, filter (fun n => negb (zmem n work)) last_group)
                        else (rev_append last_group result_rev, work) in
                      match after with
                      | None => NrOk (rev' (rev_append last_group' result_rev'))
                      | Some [] => NrErr 4 (pos + lenN g + 1)
                      | Some rest =>
                          groups_loop f max rest (pos + lenN g + 1) false result_rev' last_group'
                      end
                  end
              end
          end
      end
  end.

(* for (i = start_idx; i < size; i += 2) *)
Fixpoint every_other (take : bool) (l : list Z) : list Z :=
  match l with
  | [] => []
  | x :: t => if take then x :: every_other false t else every_other true t
  end.

Definition s_odd : list N := [111; 100; 100]%N.
Definition s_even : list N := [101; 118; 101; 110]%N.

Definition parse_numrange (s : list N) (max : Z) : nr_result :=
  let (body, suffix) := split_first 58%N s in
  let run := groups_loop (S (length body)) max body 0 true [] [] in
  match suffix with
  | None => run
  | Some suf =>
      if list_eqb N.eqb suf s_odd then
        match run with NrOk l => NrOk (every_other true l) | e => e end
      else if list_eqb N.eqb suf s_even then
        match run with NrOk l => NrOk (every_other false l) | e => e end
      else NrErr 0 (lenN body)
  end.
