# C17 - QDF files are editable: fix-qdf restores any length-changing edit.
# Proof: Props/Properties_C17.v (invariants of the line machine of coq/File/FixQdf.v: recorded offsets are
# output positions, regenerated xref lines are read back by the strict reader, /W widths are adequate, ...).
# Tie: the real fix-qdf binary vs the extracted model, BYTE FOR BYTE (standard output, exit status, cause),
# on qpdf --qdf outputs of generated and corpus inputs x {object-streams disable|preserve|generate} x QDF
# sub-options, unedited, after 1..6 random layout-preserving edits, and after layout-breaking edits.
# Oracles (specification side): the extracted layout recogniser (coq/File/QdfLayout.v) on real --qdf output and
# on every edited file; the extracted strict reader (coq/File/ReadStrict.v) on what the real fix-qdf wrote,
# compared with the document the edit script denotes; cmp for identity and idempotence; the dictionaries of the object
# streams (fix-qdf rebuilds them; /Extends is the one key it carries over) are compared key by key before / after, on
# preserved object streams linked by /Extends in every acyclic pattern.
import base64, itertools, os, re, resource, subprocess, zlib
import common, filecheck, pdfgen
from pdfgen import Name, Ref, Str, Real, Stream, D, N

ASSUMPTIONS = [
    "std::regex (ECMAScript, no multiline) matches the five anchored patterns of fix-qdf.cc as the hand-written matchers of FixQdf.v do; tied by the byte-for-byte comparison incl. malformed lines",
    "the strict reader (C02's specification) judges the repaired file; the document an edit script denotes is computed by the generator on the object model (pdfgen), independently of fix-qdf and of its model",
    "QDF files above 150 kB are not used (the extracted list-based reader and model are slow on them)",
    "edit scripts: byte insertions/deletions inside stream data, key insertion/change/removal in top-level dictionaries (also of object-stream members), comments/blank lines, stale numbers in the parts fix-qdf regenerates, appended objects; renumbering edits (deleting objects) are outside the manual's contract and not generated",
    "object-stream dictionaries: fix-qdf recomputes /Length /N /First; every other key (the writer only ever emits /Extends; others are added by hand in aimed edits, before and behind the /Type /ObjStm line) must survive the repair unchanged and no key may appear; /Extends edits keep the chains acyclic (ISO 32000 7.5.7); C17-F5 (a key added by hand behind the /Type /ObjStm line was dropped) is repaired in /repo and these edits are its regression inputs",
    "known finding C17-F1 (an `endstream` line inside stream data) is re-observed on a dedicated input; the inputs of the repaired C17-F2 (marker text inside a string or a longer name, fix e1b84020) stay in the run as regression inputs; F3 (--newline-before-endstream with object streams) and F4 (--preserve-unreferenced keeps original object streams) when the option sample contains them; files of these classes are not used as bases for edit scripts",
]

MAXSIZE = 150000
WORKERS = 4
HDR = re.compile(rb"(\d+) 0 obj\n\Z")
MEMBER = re.compile(rb"%% Object stream: object (\d+), index (\d+)")


def split_lines(data):
    return re.findall(rb"[^\n]*\n|[^\n]+\Z", data)


def _limits():
    resource.setrlimit(resource.RLIMIT_AS, (4 << 30, 4 << 30))
    resource.setrlimit(resource.RLIMIT_CPU, (60, 60))


def run_fix(path):
    """the real fix-qdf: input file argument, repaired file on standard output"""
    try:
        p = subprocess.run([common.FIXQDF, path], stdout=subprocess.PIPE, stderr=subprocess.PIPE, timeout=120, preexec_fn=_limits)
        return p.returncode, p.stdout, p.stderr
    except subprocess.TimeoutExpired:
        return -999, b"", b"timeout"


def impl_status(rc, se):
    s = se.decode("latin-1").strip()
    m = re.match(r"(?s).*:(\d+): expected object (-?\d+)$", s)
    if m:
        return "%d obj %s %s" % (rc, m.group(1), m.group(2))
    m = re.match(r"(?s).*:(\d+): expected integer$", s)
    if m:
        return "%d int %s" % (rc, m.group(1))
    if s.endswith("error: stoi"):
        return "%d stoi" % rc
    if "getOffset called for xref entry of type != 1" in s:
        return "%d getoffset" % rc
    if s == "":
        return "%d" % rc
    return "%d other %s" % (rc, s[-80:])


def run_both(runner, paths, wd, tag):
    """real fix-qdf and the extracted model on the same files: [(impl_status, impl_out_path, model_status, model_out_path)]"""
    def one(i):
        rc, so, se = run_fix(paths[i])
        op = os.path.join(wd, "%s%d.real" % (tag, i))
        with open(op, "wb") as f:
            f.write(so)
        return impl_status(rc, se), op
    impl = common.par_map(one, range(len(paths)), workers=WORKERS)
    mouts = [os.path.join(wd, "%s%d.model" % (tag, i)) for i in range(len(paths))]
    model = common.run_lines(runner, ["fixqdff %s %s" % (p, m) for p, m in zip(paths, mouts)], shards=WORKERS)
    return [(impl[i][0], impl[i][1], model[i], mouts[i]) for i in range(len(paths))]


def same_file(a, b):
    try:
        return open(a, "rb").read() == open(b, "rb").read()
    except OSError:
        return False


def layout(runner, paths):
    return common.run_lines(runner, ["qdflayout " + p for p in paths], shards=WORKERS)


# ------------------------------------------------------------------ line index of a QDF file (for the edit generator)

class QObj:
    def __init__(self, **kw):
        self.__dict__.update(kw)


def qdf_index(lines):
    """objects of a layout-conforming QDF file: kind plain|stream|objstm|xref|length, line ranges"""
    objs = []
    i = 3
    tail = None
    n = len(lines)
    while i < n:
        l = lines[i]
        if l == b"xref\n":
            tail = i
            break
        m = HDR.match(l)
        if not m:
            i += 1
            continue
        num = int(m.group(1))
        j = i + 1
        while j < n and lines[j] not in (b"endobj\n", b"stream\n"):
            j += 1
        if j >= n:
            return None
        o = QObj(num=num, hdr=i, c0=i + 1, c1=j, kind="plain", members=[], ign=False, d0=None, d1=None)
        if lines[j] == b"endobj\n":
            if objs and objs[-1].kind == "stream" and objs[-1].num == num - 1:
                o.kind = "length"
            i = j + 1
        else:
            content = lines[o.c0:o.c1]
            k = j + 1
            if b"  /Type /ObjStm\n" in content:
                o.kind = "objstm"
                while k < n and not lines[k].startswith(b"%% Object stream: object "):
                    k += 1
                o.pairs = (j + 1, k)
                cur = None
                while k < n and lines[k] != b"endstream\n":
                    mm = MEMBER.match(lines[k])
                    if mm:
                        if cur:
                            cur.c1 = k
                        cur = QObj(num=int(mm.group(1)), hdr=k, c0=k + 1, c1=None, kind="member", container=num)
                        o.members.append(cur)
                    k += 1
                if cur:
                    cur.c1 = k
            else:
                o.kind = "xref" if b"  /Type /XRef\n" in content else "stream"
                while k < n and lines[k] != b"endstream\n":
                    k += 1
            if k >= n:
                return None
            o.d0, o.d1 = j + 1, k
            i = k + 2
            if o.kind == "stream":
                t = i
                while t < n and not HDR.match(lines[t]):
                    if lines[t] == b"%QDF: ignore_newline\n":
                        o.ign = True
                    t += 1
        objs.append(o)
    return QObj(objs=objs, tail=tail, classic=tail is not None)


# ------------------------------------------------------------------ edit scripts with their meaning

class Edited:
    """lines of the file being edited + the document the edits denote (exp: num -> value, kinds: num -> kind)"""

    def __init__(self, lines, sd, idx):
        self.lines = list(lines)
        self.exp = {n: v for (n, g), v in sd.objs.items()}
        self.kinds = {}
        self.members_of = {}
        for o in idx.objs:
            self.kinds[o.num] = o.kind
            if o.kind == "objstm":
                self.members_of[o.num] = [m.num for m in o.members]
                for m in o.members:
                    self.kinds[m.num] = "member"
        self.trailer = dict(sd.trailer)
        self.script = []
        self.counter = 0

    def idx(self):
        return qdf_index(self.lines)


def _value(rng):
    k = rng.randrange(6)
    if k == 0:
        return rng.choice([0, 7, -12, 123456, 98765432101])
    if k == 1:
        return Str(bytes(rng.choice(b"abc XYZ()\\%/<>[]0123\x00\x80\xff\r") for _ in range(rng.choice([0, 1, 7, 60, 300]))))
    if k == 2:
        return Name(bytes(rng.choice(b"AbcXyz019._-") for _ in range(rng.randint(1, 12))))
    if k == 3:
        return [rng.randint(0, 999), Name(b"It"), Str(b"x" * rng.randint(0, 20)), None, True]
    if k == 4:
        return {b"In": rng.randint(0, 10 ** rng.randint(1, 12)), b"Nm": Name(b"V")}
    return Real(rng.choice(["0.5", "-12.25", "100.000"]))


def _dict_targets(idx, lines):
    out = []
    for o in idx.objs:
        if o.kind in ("plain", "stream") and o.c1 > o.c0 and lines[o.c0] == b"<<\n":
            out.append(o)
        for m in o.members:
            if m.c1 > m.c0 and lines[m.c0] == b"<<\n":
                out.append(m)
    return out


def _top(v):
    return v.d if isinstance(v, Stream) else v


INTLINE = re.compile(rb"  /([A-Za-z][A-Za-z0-9]*) (-?\d+)\n\Z")
PROTECTED = (b"Length", b"N", b"First", b"Size", b"Type", b"Extends", b"W", b"Index", b"Prev")


def ed_stream_insert(rng, e):
    idx = e.idx()
    ss = [o for o in idx.objs if o.kind == "stream"]
    if not ss:
        return False
    o = rng.choice(ss)
    region = b"".join(e.lines[o.d0:o.d1])
    if not region.endswith(b"\n"):
        return False
    pos = rng.randint(0, len(region) - 1)
    ins = bytes(rng.choice(b"abc \n\n\r\x00\xff%()0123456789endstream") for _ in range(rng.choice([1, 2, 9, 40, 400])))
    new = region[:pos] + ins + region[pos:]
    if b"endstream\n" in split_lines(new):
        return False
    old = e.exp[o.num]
    data = old.data
    if pos > len(data):
        return False
    e.exp[o.num] = Stream(old.d, data[:pos] + ins + data[pos:])
    e.lines[o.d0:o.d1] = split_lines(new)
    e.script.append("insert %d bytes into the stream data of object %d at %d" % (len(ins), o.num, pos))
    return True


def ed_stream_delete(rng, e):
    idx = e.idx()
    ss = [o for o in idx.objs if o.kind == "stream"]
    if not ss:
        return False
    o = rng.choice(ss)
    region = b"".join(e.lines[o.d0:o.d1])
    if len(region) < 2 or not region.endswith(b"\n"):
        return False
    pos = rng.randint(0, len(region) - 2)
    cnt = rng.randint(1, min(len(region) - 1 - pos, rng.choice([1, 5, 50, 5000])))
    new = region[:pos] + region[pos + cnt:]
    if b"endstream\n" in split_lines(new):
        return False
    old = e.exp[o.num]
    data = old.data
    if pos + cnt > len(data):
        return False
    e.exp[o.num] = Stream(old.d, data[:pos] + data[pos + cnt:])
    e.lines[o.d0:o.d1] = split_lines(new)
    e.script.append("delete %d bytes of the stream data of object %d at %d" % (cnt, o.num, pos))
    return True


def ed_dict_add(rng, e):
    idx = e.idx()
    ts = _dict_targets(idx, e.lines)
    if not ts:
        return False
    o = rng.choice(ts)
    top = _top(e.exp.get(o.num))
    if not isinstance(top, dict):
        return False
    e.counter += 1
    key = b"VerifK%d" % e.counter
    v = _value(rng)
    text = b"  /" + key + b" " + pdfgen.ser(v) + b"\n"
    if b"\n" in text[:-1] or b"/Type /" in text:
        return False
    e.lines.insert(o.c0 + 1, text)
    top[key] = v
    e.script.append("add key /%s (%d bytes) to the dictionary of object %d" % (key.decode(), len(text), o.num))
    return True


def _int_lines(e, idx):
    out = []
    for o in _dict_targets(idx, e.lines):
        top = _top(e.exp.get(o.num))
        if not isinstance(top, dict):
            continue
        for li in range(o.c0 + 1, o.c1):
            m = INTLINE.match(e.lines[li])
            if m and m.group(1) not in PROTECTED and top.get(m.group(1)) == int(m.group(2)) and not isinstance(top.get(m.group(1)), bool):
                out.append((o, li, m.group(1), top))
    return out


def ed_dict_change(rng, e):
    c = _int_lines(e, e.idx())
    if not c:
        return False
    o, li, key, top = rng.choice(c)
    nv = rng.choice([0, 5, 1234567, -3, 10 ** rng.randint(2, 15)])
    e.lines[li] = b"  /" + key + b" " + str(nv).encode() + b"\n"
    top[key] = nv
    e.script.append("change /%s of object %d to %d" % (key.decode(), o.num, nv))
    return True


def ed_dict_remove(rng, e):
    c = _int_lines(e, e.idx())
    if not c:
        return False
    o, li, key, top = rng.choice(c)
    del e.lines[li]
    del top[key]
    e.script.append("remove /%s from object %d" % (key.decode(), o.num))
    return True


def ed_comment(rng, e):
    idx = e.idx()
    where = []
    for o in idx.objs:
        where.append(o.hdr)
        if o.kind in ("plain", "stream") and e.lines[o.c0] == b"<<\n":
            where.append(o.c0 + 1)
        for m in o.members:
            if e.lines[m.c0] == b"<<\n":
                where.append(m.c0 + 1)
    if not where:
        return False
    li = rng.choice(where)
    text = rng.choice([b"\n", b"% edited by hand\n", b"%% note " + b"x" * rng.randint(0, 90) + b"\n", b"%\n"])
    e.lines.insert(li, text)
    e.script.append("insert the line %r before line %d" % (text, li + 1))
    return True


def _renumber(line, rng):
    return re.sub(rb"\d+", lambda m: str(rng.choice([0, 9, 10 ** rng.randint(1, 11)])).encode(), line, count=1)


def ed_stale(rng, e):
    """change numbers in the parts fix-qdf recomputes: no change of meaning"""
    idx = e.idx()
    cands = []
    for o in idx.objs:
        if o.kind == "length":
            cands += [li for li in range(o.c0, o.c1) if re.match(rb"\d+\n\Z", e.lines[li])]
        if o.kind == "objstm":
            cands += [li for li in range(o.c0, o.c1) if re.match(rb"  /(Length|N|First) \d+\n\Z", e.lines[li])]
        if o.kind == "xref":
            cands += [li for li in range(o.c0, o.c1) if re.match(rb"  /(Length|Size) \d+\n\Z", e.lines[li])]
    if idx.classic:
        t = idx.tail
        cands += [li for li in range(t + 1, len(e.lines)) if re.match(rb"(\d{10} \d{5} [nf] \n|\d+ \d+\n|  /Size \d+\n|\d+\n)\Z", e.lines[li])]
    else:
        cands += [li for li in range(len(e.lines) - 3, len(e.lines)) if li > 0 and re.match(rb"\d+\n\Z", e.lines[li])]
    if not cands:
        return False
    li = rng.choice(cands)
    new = _renumber(e.lines[li], rng)
    if re.match(rb"\d{10} \d{5} [nf] \n\Z", e.lines[li]):
        new = b"%010d" % rng.randint(0, 10 ** 9) + e.lines[li][10:]
    e.lines[li] = new
    e.script.append("stale number on line %d: %r" % (li + 1, new))
    return True


def ed_append(rng, e):
    idx = e.idx()
    last = idx.objs[-1]
    if idx.classic:
        at = idx.tail
        first_new = last.num + 1
        xref_obj = None
    else:
        if last.kind != "xref":
            return False
        at = last.hdr
        first_new = last.num
        xref_obj = last
    new_lines = []
    new_objs = []
    num = first_new
    for _ in range(rng.randint(1, 3)):
        kind = rng.randrange(3)
        if kind == 0:
            v = {b"Appended": rng.randint(0, 10 ** 6), b"Text": Str(b"y" * rng.randint(0, 50))}
            new_lines += [b"%d 0 obj\n" % num, b"<<\n"] + [b"  /" + k + b" " + pdfgen.ser(x) + b"\n" for k, x in v.items()] + [b">>\n", b"endobj\n", b"\n"]
            new_objs.append((num, v, "plain"))
            num += 1
        elif kind == 1:
            v = rng.randint(-5, 10 ** 9)
            new_lines += [b"%d 0 obj\n" % num, str(v).encode() + b"\n", b"endobj\n", b"\n"]
            new_objs.append((num, v, "plain"))
            num += 1
        else:
            data = bytes(rng.choice(b"qQ 0123\n\r\xfe") for _ in range(rng.choice([0, 1, 33, 700])))
            ign = not data.endswith(b"\n") or rng.random() < 0.3
            region = data + b"\n" if ign else data
            if b"endstream\n" in split_lines(region):
                continue
            d = {b"Length": Ref(num + 1), b"Appended": True}
            new_lines += [b"%d 0 obj\n" % num, b"<<\n", b"  /Appended true\n", b"  /Length %d 0 R\n" % (num + 1), b">>\n", b"stream\n"]
            new_lines += split_lines(region) + [b"endstream\n", b"endobj\n", b"\n"]
            if ign:
                new_lines.append(b"%QDF: ignore_newline\n")
            new_lines += [b"%d 0 obj\n" % (num + 1), b"%d\n" % rng.choice([0, 5, 123456]), b"endobj\n", b"\n"]
            new_objs.append((num, Stream(d, data), "stream"))
            new_objs.append((num + 1, len(data), "length"))
            num += 2
    if not new_objs:
        return False
    if xref_obj is not None:
        # the xref stream is renumbered to follow the new objects (manual: "change the number of the xref stream")
        xv = e.exp.pop(xref_obj.num)
        e.kinds.pop(xref_obj.num)
        e.lines[xref_obj.hdr] = b"%d 0 obj\n" % num
        e.exp[num] = xv
        e.kinds[num] = "xref"
    for n_, v, k in new_objs:
        e.exp[n_] = v
        e.kinds[n_] = k
    e.lines[at:at] = new_lines
    e.script.append("append %d object(s) %s" % (len(new_objs), [n_ for n_, _, _ in new_objs]))
    return True


def _objstms(e, idx):
    return [o for o in idx.objs if o.kind == "objstm" and isinstance(e.exp.get(o.num), Stream)]


def _extends_reaches(e, start, goal):
    """does the /Extends chain that starts at object stream `start` reach `goal`?"""
    seen, c = set(), start
    while c is not None and c not in seen:
        if c == goal:
            return True
        seen.add(c)
        v = e.exp.get(c)
        r = v.d.get(b"Extends") if isinstance(v, Stream) else None
        c = r.n if isinstance(r, Ref) else None
    return False


def ed_extends(rng, e, only=None, how=None):
    """hand edit of the one key of an object-stream dictionary fix-qdf does not recompute: remove the /Extends line, point
    it at another object stream, or add one (the chains stay acyclic, 7.5.7)"""
    idx = e.idx()
    ss = _objstms(e, idx)
    if len(ss) < 2:
        return False
    o = rng.choice([x for x in ss if only is None or x.num == only] or ss)
    top = e.exp[o.num].d
    have = [li for li in range(o.c0, o.c1) if re.match(rb"  /Extends \d+ 0 R\n\Z", e.lines[li])]
    if len(have) > 1 or (b"Extends" in top) != (len(have) == 1):
        return False
    targets = [x.num for x in ss if x.num != o.num and not _extends_reaches(e, x.num, o.num)
               and not (have and top.get(b"Extends") == Ref(x.num))]
    how = how or rng.choice(["remove", "retarget", "add"])
    if how == "remove" and have:
        del e.lines[have[0]]
        del top[b"Extends"]
        e.script.append("remove the /Extends line of object stream %d" % o.num)
        return True
    if how == "retarget" and have and targets:
        t = rng.choice(targets)
        e.lines[have[0]] = b"  /Extends %d 0 R\n" % t
        top[b"Extends"] = Ref(t)
        e.script.append("object stream %d: /Extends now names object stream %d" % (o.num, t))
        return True
    if how == "add" and not have and targets and e.lines[o.c0] == b"<<\n" and e.lines[o.c1 - 1] == b">>\n":
        t = rng.choice(targets)
        li = rng.randint(o.c0 + 1, o.c1 - 1)
        e.lines.insert(li, b"  /Extends %d 0 R\n" % t)
        top[b"Extends"] = Ref(t)
        e.script.append("add the line /Extends %d 0 R to the dictionary of object stream %d (line %d)" % (t, o.num, li + 1))
        return True
    return False


def ed_objstm_key(rng, e, only=None, before_type=None):
    """hand edit: one more key in the dictionary of an object stream (dictionary text like any other)"""
    idx = e.idx()
    ss = [o for o in _objstms(e, idx) if (only is None or o.num == only) and e.lines[o.c0] == b"<<\n" and e.lines[o.c0 + 1] == b"  /Type /ObjStm\n"]
    if not ss:
        return False
    o = rng.choice(ss)
    e.counter += 1
    key = b"VerifO%d" % e.counter
    v = rng.choice([7, Name(b"ByHand"), Str(b"by hand"), [1, 2]])
    before = rng.random() < 0.5 if before_type is None else before_type
    li = o.c0 + 1 if before else rng.randint(o.c0 + 2, o.c1 - 1)
    e.lines.insert(li, b"  /" + key + b" " + pdfgen.ser(v) + b"\n")
    e.exp[o.num].d[key] = v
    e.script.append("add key /%s to the dictionary of object stream %d %s its /Type /ObjStm line (line %d)" % (key.decode(), o.num, "before" if before else "behind", li + 1))
    return True


def ed_member(rng, e, container):
    """a length-changing edit inside one member of the object stream `container`"""
    idx = e.idx()
    ms = [m for o in idx.objs if o.num == container for m in o.members if m.c1 > m.c0 and e.lines[m.c0] == b"<<\n"
          and isinstance(_top(e.exp.get(m.num)), dict)]
    if not ms:
        return False
    m = rng.choice(ms)
    top = e.exp[m.num]
    ints = [(li, mm.group(1)) for li in range(m.c0 + 1, m.c1) for mm in [INTLINE.match(e.lines[li])]
            if mm and mm.group(1) not in PROTECTED and top.get(mm.group(1)) == int(mm.group(2)) and not isinstance(top.get(mm.group(1)), bool)]
    k = rng.randrange(3)
    if k == 0 and ints:
        li, key = rng.choice(ints)
        nv = rng.choice([0, 1234567, 10 ** rng.randint(2, 15)])
        e.lines[li] = b"  /" + key + b" " + str(nv).encode() + b"\n"
        top[key] = nv
        e.script.append("change /%s of object %d (member of object stream %d) to %d" % (key.decode(), m.num, container, nv))
        return True
    if k == 1 and ints:
        li, key = rng.choice(ints)
        del e.lines[li]
        del top[key]
        e.script.append("remove /%s from object %d (member of object stream %d)" % (key.decode(), m.num, container))
        return True
    e.counter += 1
    key = b"VerifM%d" % e.counter
    v = _value(rng)
    text = b"  /" + key + b" " + pdfgen.ser(v) + b"\n"
    if b"\n" in text[:-1] or b"/Type /" in text:
        return False
    e.lines.insert(m.c0 + 1, text)
    top[key] = v
    e.script.append("add key /%s (%d bytes) to object %d (member of object stream %d)" % (key.decode(), len(text), m.num, container))
    return True


def directed_scripts(rng, lines, fresh, idx):
    """edit scripts aimed at files with several object streams: an edit inside EACH object stream (alone, and all
    together), each way of editing an /Extends line, both combined, and a key added by hand to an object-stream dictionary
    before / behind its /Type line.  `fresh()` returns a new copy of the object model."""
    ss = [o.num for o in idx.objs if o.kind == "objstm"]
    plans = [[("member", n)] for n in ss]
    plans.append([("member", n) for n in ss])
    for how in ("remove", "retarget", "add"):
        plans.append([("extends", how)] + ([("member", rng.choice(ss)), ("member", rng.choice(ss))] if rng.random() < 0.5 else []))
    n1, n2 = rng.choice(ss), rng.choice(ss)
    plans.append([("key", (n1, True))])
    plans.append([("key", (n2, False)), ("member", n2)])
    out = []
    for plan in plans:
        e = Edited(lines, fresh(), idx)
        ok = True
        for what, arg in plan:
            for _ in range(4):
                if (ed_member(rng, e, arg) if what == "member" else ed_extends(rng, e, how=arg) if what == "extends" else ed_objstm_key(rng, e, arg[0], arg[1])):
                    break
            else:
                ok = False
        if e.script and (ok or plan[0][0] == "member"):
            out.append(e)
    return out


EDITS = [ed_stream_insert, ed_stream_insert, ed_stream_delete, ed_dict_add, ed_dict_add, ed_dict_change, ed_dict_remove,
         ed_comment, ed_stale, ed_stale, ed_append, ed_extends]


def make_edit(rng, lines, sd, idx, nedits):
    e = Edited(lines, sd, idx)
    done = 0
    tries = 0
    while done < nedits and tries < nedits * 6:
        tries += 1
        if rng.choice(EDITS)(rng, e):
            done += 1
    return e if done else None


SKIP_TRAILER = (b"Size", b"W", b"Length", b"Index", b"Type", b"Filter", b"DecodeParms")


def doc_problems(e, sd):
    """does the strictly-read repaired file denote the edited document?  list of differences"""
    probs = []
    got = {n: v for (n, g), v in sd.objs.items()}
    if any(g != 0 for (n, g) in sd.objs):
        probs.append("non-zero generation in the repaired file")
    if set(got) != set(e.exp):
        probs.append("object numbers differ: missing %s, unexpected %s" % (sorted(set(e.exp) - set(got))[:5], sorted(set(got) - set(e.exp))[:5]))
        return probs
    for n in sorted(e.exp):
        k = e.kinds.get(n, "plain")
        want, have = e.exp[n], got[n]
        if k == "objstm":
            if not (isinstance(have, Stream) and have.d.get(b"Type") == Name(b"ObjStm") and have.d.get(b"N") == len(e.members_of[n])):
                probs.append("object %d is not an object stream with %d members" % (n, len(e.members_of[n])))
            for i, m in enumerate(e.members_of[n]):
                if sd.where.get((m, 0)) != ["c", n, i]:
                    probs.append("object %d is not member %d of object stream %d: %s" % (m, i, n, sd.where.get((m, 0))))
            # the regenerated dictionary: /Type /Length /N /First and exactly the stream's own /Extends, nothing else
            if isinstance(want, Stream) and isinstance(have, Stream):
                dw = {k: v for k, v in want.d.items() if k not in (b"Length", b"First")}
                dh = {k: v for k, v in have.d.items() if k not in (b"Length", b"First")}
                if dw != dh or not all(isinstance(have.d.get(k), int) for k in (b"Length", b"First")):
                    probs.append("dictionary of object stream %d: expected %s (and integer /Length /First), repaired file has %s" % (n, objstm_dict_text(dw), objstm_dict_text(have.d)))
        elif k == "xref":
            if not (isinstance(have, Stream) and have.d.get(b"Type") == Name(b"XRef")):
                probs.append("object %d is not the xref stream" % n)
        elif k == "length":
            prev = e.exp.get(n - 1)
            if not isinstance(prev, Stream) or have != len(prev.data):
                probs.append("length object %d is %r, stream data has %s bytes" % (n, have, len(prev.data) if isinstance(prev, Stream) else "?"))
        else:
            if want != have:
                probs.append("object %d differs: expected %s, repaired file has %s" % (n, repr(want)[:200], repr(have)[:200]))
    size = max(e.exp) + 1
    if sd.trailer.get(b"Size") != size:
        probs.append("/Size is %r, expected %d" % (sd.trailer.get(b"Size"), size))
    t1 = {k: v for k, v in e.trailer.items() if k not in SKIP_TRAILER}
    t2 = {k: v for k, v in sd.trailer.items() if k not in SKIP_TRAILER}
    if t1 != t2:
        probs.append("trailer differs: expected %r, got %r" % (t1, t2))
    return probs[:6]


# ------------------------------------------------------------------ layout-breaking edits (fatal / exception paths)

def breaking_edit(rng, lines):
    ls = list(lines)
    k = rng.randrange(16)
    n = len(ls)
    hdrs = [i for i, l in enumerate(ls) if HDR.match(l)]
    what = ""
    if k == 0 and n > 4:
        i = rng.randrange(3, n); what = "delete line %d" % (i + 1); del ls[i]
    elif k == 1 and n > 4:
        i = rng.randrange(3, n); what = "duplicate line %d" % (i + 1); ls.insert(i, ls[i])
    elif k == 2 and hdrs:
        i = rng.choice(hdrs); v = rng.choice([0, 1, 7, 2147483647, 2147483648, 99999999999999999999, int(HDR.match(ls[i]).group(1)) + 1])
        ls[i] = rng.choice([b"", b"0", b"00"]) + b"%d 0 obj\n" % v; what = "object header on line %d becomes %r" % (i + 1, ls[i])
    elif k == 3 and hdrs:
        i = rng.choice(hdrs) + 1; what = "insert /Type /XRef line at %d" % (i + 1); ls.insert(min(i + rng.randint(0, 2), len(ls)), rng.choice([b"  /Type /XRef\n", b"/Type /XRef", b"  /Note (/Type /XRef)\n", b"\t /Type /XRef \t\r\n", b"/Type /XRef\r\n", b"  /Type /XRefX\n", b"x /Type /XRef\n", b" \t\n"]))
    elif k == 4 and hdrs:
        i = rng.choice(hdrs) + 1; what = "insert /Type /ObjStm line at %d" % (i + 1); ls.insert(min(i + rng.randint(0, 2), len(ls)), rng.choice([b"  /Type /ObjStm\n", b"  /X (/Type /ObjStm) /Extends 12 0 R /Extends 4 0 R\n", b"/Type /ObjStm \r\n", b"\t/Type /ObjStm", b"  /Type /ObjStmX\n"]))
    elif k == 5:
        data = b"".join(ls); cut = rng.randrange(len(data) + 1); what = "truncate at byte %d" % cut; return split_lines(data[:cut]) or [b""], what
    elif k == 6:
        cand = [i for i, l in enumerate(ls) if re.match(rb"\d+\n\Z", l)]
        if cand:
            i = rng.choice(cand); ls[i] = rng.choice([b"abc\n", b"12 \n", b" 12\n", b"\n", b"12\r\n", b"-1\n", b"+5\n", b"1.0\n"]); what = "length line %d becomes %r" % (i + 1, ls[i])
    elif k == 7 and n > 4:
        i = rng.randrange(3, n); ls.insert(i, rng.choice([b"xref\n", b"stream\n", b"endstream\n", b"endobj\n", b"trailer <<\n", b">>\n", b"%QDF: ignore_newline\n"])); what = "insert keyword line %r at %d" % (ls[i], i + 1)
    elif k == 8 and n > 4:
        i = rng.randrange(3, n - 1); ls[i], ls[i + 1] = ls[i + 1], ls[i]; what = "swap lines %d and %d" % (i + 1, i + 2)
    elif k == 9:
        data = b"".join(ls).replace(b"\n", b"\r\n", rng.choice([1, 5, 10 ** 6])); what = "CR LF line ends"; return split_lines(data), what
    elif k == 10:
        cand = [i for i, l in enumerate(ls) if l.startswith(b"%% Object stream: object ")]
        if cand:
            i = rng.choice(cand); ls[i] = re.sub(rb"object \d+", b"object %d" % rng.choice([0, 3, 2147483648]), ls[i]); what = "member header on line %d becomes %r" % (i + 1, ls[i])
    elif k == 11:
        cand = [i for i, l in enumerate(ls) if l.startswith(b"%% Object stream: object ")]
        if cand:
            i = rng.choice(cand); what = "delete member header line %d" % (i + 1); del ls[i]
    elif k == 12:
        data = b"".join(ls)
        if data.endswith(b"\n"):
            what = "drop the final newline"; return split_lines(data[:-1]), what
    elif k == 13 and hdrs:
        i = rng.choice(hdrs); j = rng.choice(hdrs); what = "move object header %d to %d" % (i + 1, j + 1); l = ls.pop(i); ls.insert(j, l)
    elif k == 14:
        cand = [i for i, l in enumerate(ls) if l in (b"stream\n", b"endstream\n", b"endobj\n", b"trailer <<\n", b">>\n", b"xref\n")]
        if cand:
            i = rng.choice(cand); ls[i] = rng.choice([b" " + ls[i], ls[i][:-1] + b" \n", ls[i][:-1], ls[i].upper()]); what = "keyword line %d becomes %r" % (i + 1, ls[i])
    elif k == 15:
        cand = [i for i, l in enumerate(ls) if b"/Extends" in l or b"/Size" in l or b"/W " in l or b"/Length" in l]
        if cand:
            i = rng.choice(cand); ls[i] = rng.choice([b"  /Extends 00012 0 R /Extends 9 0 R\n", b"/Size 5\n", b"  /Size 5 \n", b"  /Size x\n", b"  /Widths [ 1 ]\n", b"  /Length\n"]); what = "line %d becomes %r" % (i + 1, ls[i])
    if not what:
        return None, ""
    return ls, what


# ------------------------------------------------------------------ inputs

def special_docs(rng):
    """documents whose streams exercise the stream-data rules (no trailing newline, empty, CR, keyword lines)"""
    out = []
    datas = [b"", b"\n", b"x", b"no newline at end", b"ends with newline\n", b"a\r\nb\r", b"\n\n\n", b"endobj\nxref\n%QDF: ignore_newline\n5 0 obj\nstream\n",
             b"endstream", b"xendstream\n", b"endstream \n", b" endstream\n", bytes(range(256)), bytes(range(256)) * 3 + b"\n", b"%% Object stream: object 3, index 0\n"]
    for i in range(3):
        d = pdfgen.page_doc(rng.choice([1, 2]), marker="S")
        ex = {}
        for j, dat in enumerate(rng.sample(datas, 6)):
            sd = {b"Marker": j}
            if rng.random() < 0.3:
                sd[b"Filter"] = N("FlateDecode")
                dat2 = zlib.compress(dat)
            else:
                dat2 = dat
            ex[b"S%d" % j] = d.add(Stream(sd, dat2))
        ex[b"Txt"] = d.add(D(A=Str(b"stream"), B=Str(b"endobj"), C=[Name(b"ObjStm"), Name(b"XRef")], D=Str(b"9 0 obj")))
        d.objects[1][b"Extras"] = d.add(ex)
        d.trailer[b"Info"] = d.add(D(Title=Str(b"special %d" % i)))
        out.append(("special%d" % i, pdfgen.write_classic(d, with_id=(b"0123456789abcdef", b"fedcba9876543210"))[0], d))
    return out


def objstm_dict_text(d):
    return "<< " + " ".join("/%s %s" % (k.decode("latin-1"), pdfgen.ser(v).decode("latin-1")) for k, v in sorted(d.items())) + " >>"


def acyclic_extends(k):
    """every way k object streams can name each other in /Extends without a cycle: tuples t, t[i] = index of the stream
    that stream i extends, or None ((k+1)^(k-1) of them: 3 for two streams, 16 for three, 125 for four)"""
    out = []
    for f in itertools.product(*[[None] + [j for j in range(k) if j != i] for i in range(k)]):
        ok = True
        for i in range(k):
            seen, c = set(), i
            while c is not None and c not in seen:
                seen.add(c)
                c = f[c]
            ok = ok and c is None
        if ok:
            out.append(f)
    return out


def extends_pdf(rng, k, ext, flate=False, gaps=False):
    """PDF 1.5 written directly: k object streams that hold the whole document except the page content; group 0 holds the
    catalog and the info dictionary, group 1 the page tree, every group some dictionaries with integer keys; stream i has
    /Extends -> stream ext[i] unless ext[i] is None.  qpdf --object-streams=preserve writes the streams in group order
    (the order in which it meets their first members), so `ext` is also the pattern in the QDF file."""
    out = bytearray(b"%PDF-1.5\n%\xbf\xf7\xa2\xfe\n")
    nxt = [1]

    def new():
        n = nxt[0]
        nxt[0] += 1 + (rng.randrange(2) if gaps else 0)
        return n
    cat, info, pages, page, content, font = new(), new(), new(), new(), new(), new()
    extras = [[new() for _ in range(rng.randint(1, 3))] for _ in range(k)]
    stm = [new() for _ in range(k)]
    rng.shuffle(stm)
    xref_num = nxt[0]
    groups = [[] for _ in range(k)]
    groups[0] += [cat, info]
    groups[1 % k] += [pages, page, font]
    for g in range(k):
        groups[g] += extras[g]
    body = {cat: D(Type=N("Catalog"), Pages=Ref(pages), Extras=[Ref(x) for g in extras for x in g]),
            info: D(Title=Str(b"extends " + repr(ext).encode())),
            pages: D(Type=N("Pages"), Count=1, Kids=[Ref(page)], MediaBox=[0, 0, 612, 792]),
            page: D(Type=N("Page"), Parent=Ref(pages), Contents=Ref(content), Resources=D(Font=D(F1=Ref(font)))),
            font: D(Type=N("Font"), Subtype=N("Type1"), BaseFont=N("Helvetica"))}
    for g in range(k):
        for j, x in enumerate(extras[g]):
            body[x] = D(Marker=Str(b"in group %d" % g), Value=40 + g, Index=j, Big=10 ** rng.randint(1, 12))
    offs = {content: len(out)}
    out += pdfgen.ser_indirect(content, Stream({}, b"BT /F1 12 Tf 72 720 Td (E) Tj ET\n"))
    where = {}
    for g in range(k):
        pairs, data = [], b""
        for i, n in enumerate(groups[g]):
            pairs.append(b"%d %d" % (n, len(data)))
            data += pdfgen.ser(body[n]) + b"\n"
            where[n] = (stm[g], i)
        header = b" ".join(pairs) + b"\n"
        d = {b"Type": N("ObjStm"), b"N": len(groups[g]), b"First": len(header)}
        if ext[g] is not None:
            d[b"Extends"] = Ref(stm[ext[g]])
        raw = header + data
        if flate:
            d[b"Filter"] = N("FlateDecode")
            raw = zlib.compress(raw)
        offs[stm[g]] = len(out)
        out += pdfgen.ser_indirect(stm[g], Stream(d, raw))
    xoff = len(out)
    offs[xref_num] = xoff
    size = xref_num + 1
    ent = bytearray()
    for n in range(size):
        if n == 0:
            ent += b"\x00" + (0).to_bytes(4, "big") + (65535).to_bytes(2, "big")
        elif n in offs:
            ent += b"\x01" + offs[n].to_bytes(4, "big") + b"\x00\x00"
        elif n in where:
            ent += b"\x02" + where[n][0].to_bytes(4, "big") + where[n][1].to_bytes(2, "big")
        else:
            ent += b"\x00" * 7
    out += pdfgen.ser_indirect(xref_num, Stream({b"Type": N("XRef"), b"Size": size, b"W": [1, 4, 2], b"Root": Ref(cat), b"Info": Ref(info)}, bytes(ent)))
    out += b"startxref\n%d\n%%%%EOF\n" % xoff
    return bytes(out)


def extends_docs(rng, quick):
    """(name, bytes, pattern): every acyclic /Extends pattern over two and three object streams - none; first extends
    second; second extends first; chains first -> second -> third in every order; two streams extending the same one ... -
    (thorough: also a sample over four streams), half of them with compressed object streams / gaps in the numbering"""
    pats = acyclic_extends(2) + acyclic_extends(3) + ([] if quick else rng.sample(acyclic_extends(4), 40))
    out = []
    for i, ext in enumerate(pats):
        out.append(("extends%d" % i, extends_pdf(rng, len(ext), ext, flate=rng.random() < 0.5, gaps=rng.random() < 0.5), ext))
    return out


def extends_pattern(sd, idx):
    """the /Extends pattern of a QDF file in file order: for each object stream the position (among the object streams)
    of the one it extends, None, or -1 for a reference to something else"""
    nums = [o.num for o in idx.objs if o.kind == "objstm"]
    pat = []
    for n in nums:
        v = sd.objs.get((n, 0))
        r = v.d.get(b"Extends") if isinstance(v, Stream) else None
        pat.append(None if r is None else (nums.index(r.n) if isinstance(r, Ref) and r.n in nums else -1))
    return tuple(pat)


def objstm_dict_diffs(sd, sd2):
    """object-stream dictionaries before / after fix-qdf of an unedited file (text of every pair that differs)"""
    out = []
    for (n, g), v in sorted(sd.objs.items()):
        if isinstance(v, Stream) and v.d.get(b"Type") == Name(b"ObjStm"):
            w = sd2.objs.get((n, g))
            wd_ = w.d if isinstance(w, Stream) else None
            if wd_ != v.d:
                out.append("object stream %d: before %s, after %s" % (n, objstm_dict_text(v.d), objstm_dict_text(wd_) if wd_ is not None else repr(w)[:80]))
    return out


def objstm_pdf(nmembers, pad=0):
    """PDF 1.5 written directly: one uncompressed object stream with nmembers members (all referenced from the catalog),
    a content stream with `pad` bytes of comment padding, an unfiltered xref stream with /W [1 4 3]"""
    out = bytearray(b"%PDF-1.5\n%\xbf\xf7\xa2\xfe\n")
    offs = {}
    first_m = 6
    stm_num = first_m + nmembers
    xref_num = stm_num + 1
    content = b"BT /F1 12 Tf 72 720 Td (M) Tj ET\n" + (b"%" + b"x" * 62 + b"\n") * (pad // 64) + b"%" + b"y" * (pad % 64) + b"\n"
    objs = {1: D(Type=N("Catalog"), Pages=Ref(2), Members=[Ref(first_m + i) for i in range(nmembers)]),
            2: D(Type=N("Pages"), Count=1, Kids=[Ref(3)], MediaBox=[0, 0, 612, 792]),
            3: D(Type=N("Page"), Parent=Ref(2), Contents=Ref(4), Resources=D(Font=D(F1=Ref(5)))),
            4: Stream({}, content),
            5: D(Type=N("Font"), Subtype=N("Type1"), BaseFont=N("Helvetica"))}
    for n in sorted(objs):
        offs[n] = len(out)
        out += pdfgen.ser_indirect(n, objs[n])
    bodies, pairs, pos = [], [], 0
    for i in range(nmembers):
        b = b"<< /I %d >>\n" % i
        pairs.append(b"%d %d\n" % (first_m + i, pos))
        bodies.append(b)
        pos += len(b)
    header = b"".join(pairs)
    offs[stm_num] = len(out)
    out += pdfgen.ser_indirect(stm_num, Stream({b"Type": N("ObjStm"), b"N": nmembers, b"First": len(header)}, header + b"".join(bodies)))
    xoff = len(out)
    offs[xref_num] = xoff
    size = xref_num + 1
    ent = bytearray(b"\x00" + (0).to_bytes(4, "big") + (65535).to_bytes(3, "big"))
    for n in range(1, size):
        if n in offs:
            ent += b"\x01" + offs[n].to_bytes(4, "big") + b"\x00\x00\x00"
        else:
            ent += b"\x02" + stm_num.to_bytes(4, "big") + (n - first_m).to_bytes(3, "big")
    out += pdfgen.ser_indirect(xref_num, Stream({b"Type": N("XRef"), b"Size": size, b"W": [1, 4, 3], b"Root": Ref(1)}, bytes(ent)))
    out += b"startxref\n%d\n%%%%EOF\n" % xoff
    return bytes(out)


def startxref_of(path):
    with open(path, "rb") as f:
        f.seek(max(0, os.path.getsize(path) - 64))
        m = re.search(rb"startxref\n(\d+)\n%%EOF\n\Z", f.read())
    return int(m.group(1)) if m else None


def preserved_qdf(wd, tag, nmembers, pad=0, target=None):
    """`qpdf --qdf --object-streams=preserve` of objstm_pdf; with target: the padding is tuned until the xref stream object
    (whose offset sizes /W field 1) sits exactly at byte `target` of the QDF file. Returns path or None."""
    src = os.path.join(wd, tag + ".pdf")
    q = os.path.join(wd, tag + ".qdf")
    for _ in range(8):
        open(src, "wb").write(objstm_pdf(nmembers, pad))
        rc, so, se = common.run_qpdf(["--static-id", "--qdf", "--object-streams=preserve", src, q])
        if rc != 0:
            return None
        if target is None:
            return q
        got = startxref_of(q)
        if got == target:
            return q
        if got is None or pad + target - got < 0:
            return None
        pad += target - got
    return None


def show_xref(path):
    rc, so, se = common.run_qpdf(["--show-xref", path])
    return rc, [l for l in so.decode("latin-1").split("\n") if l]


def part_boundaries(chk, runner, wd, tie):
    """object-stream member counts and offsets that straddle the byte-width boundaries of the /W fields fix-qdf chooses"""
    quick = chk.tier == "quick"
    cases = []      # (tag, what, qdf path)
    for n in [1, 2, 255, 256, 257, 258] + ([] if quick else [65535, 65536, 65537]):
        q = preserved_qdf(wd, "wm%d" % n, n)
        if q:
            cases.append(("members=%d" % n, q))
    for t in [65535, 65536] + ([] if quick else [65534, 65537, 2 ** 24 - 1, 2 ** 24, 2 ** 24 + 1]):
        q = preserved_qdf(wd, "wo%d" % t, 3, pad=max(0, t - 1200), target=t)
        if q:
            cases.append(("xref stream at offset %d" % t, q))
        else:
            chk.cov.setdefault("boundary_targets_not_reached", []).append(t)
    # every file also with an edit that moves everything behind the content stream by 1 and by 300 bytes, and (members)
    # with the stale pair lines / header numbers garbled
    files = []
    for what, q in cases:
        files.append((what, "unedited", q, q))
        data = open(q, "rb").read()
        k = data.find(b"BT /F1 12 Tf")
        for ins in (1, 300):
            e = q[:-4] + "_ins%d.qdf" % ins
            open(e, "wb").write(data[:k] + b"%" + b"e" * (ins - 1) + data[k:] if ins > 1 else data[:k] + b" " + data[k:])
            files.append((what, "insert %d byte(s) into the page content stream" % ins, e, q))
    rb = run_both(runner, [f[2] for f in files], wd, "w")
    small = [i for i, f in enumerate(files) if os.path.getsize(rb[i][1]) <= MAXSIZE]
    sr = dict(zip(small, filecheck.strict_read([rb[i][1] for i in small])))
    nontriv = set()
    for i, ((what, edit, path, orig), (ist, ipath, mst, mpath)) in enumerate(zip(files, rb)):
        case = {"input": "harness/c17.py objstm_pdf", "boundary": what, "edit": edit, "qdf_file": path,
                "argv": ["qpdf", "--static-id", "--qdf", "--object-streams=preserve", "in.pdf", "out.qdf"], "then": ["fix-qdf", "out.qdf"]}
        if ist != mst or not same_file(ipath, mpath):
            tie.append(dict(case, stage="width boundary", implementation=ist, model=mst))
        if ist != "0":
            chk.violation(dict(case, kind="property-fails-on-implementation", why="fix-qdf fails: " + ist), signature="boundary-exit")
            continue
        if i in sr and not sr[i]["ok"]:
            chk.violation(dict(case, kind="property-fails-on-implementation", why="the repaired file is not strictly well-formed: " + filecheck.ERR.get(sr[i]["code"], str(sr[i]["code"])),
                               strict_reader=sr[i]), signature="boundary-strict:%s" % sr[i]["code"])
            continue
        rc0, x0 = show_xref(orig)
        rc1, x1 = show_xref(ipath)
        comp0 = [l for l in x0 if "compressed; stream" in l and "uncompressed" not in l]
        comp1 = [l for l in x1 if "compressed; stream" in l and "uncompressed" not in l]
        bad = None
        if rc0 != 0 or rc1 != 0:
            bad = "qpdf --show-xref exits %d / %d" % (rc0, rc1)
        elif edit == "unedited" and x0 != x1:
            bad = "qpdf --show-xref differs before/after fix-qdf of the unedited file: %s" % [(a, b) for a, b in zip(x0, x1) if a != b][:2]
        elif comp0 != comp1 or len(x0) != len(x1):
            bad = "compressed-object entries differ before/after: %s" % [(a, b) for a, b in zip(comp0, comp1) if a != b][:2]
        if bad:
            chk.violation(dict(case, kind="property-fails-on-implementation", why=bad), signature="boundary-xref")
            continue
        nontriv.add((what, edit))
    chk.count("width-boundaries", len(files), nontriv, samples=[{"boundary": f[0], "edit": f[1]} for f in files[:3]])
    chk.cov["parts"]["width-boundaries"]["strictly_read"] = len(small)


def finding_docs():
    """input of known finding C17-F1 and the inputs of the repaired C17-F2 (regression)"""
    out = []
    d = pdfgen.page_doc(1, marker="F")
    d.objects[1][b"X"] = d.add(Stream({}, b"abc\nendstream\ndef\n"))
    out.append(("finding-endstream-line", pdfgen.write_classic(d)[0]))
    d = pdfgen.page_doc(1, marker="F")
    d.objects[1][b"X"] = d.add(D(Note=Str(b"/Type /XRef")))
    out.append(("finding-xref-text", pdfgen.write_classic(d)[0]))
    d = pdfgen.page_doc(1, marker="F")
    d.objects[1][b"X"] = d.add(D(Type=Name(b"ObjStmX")))
    out.append(("finding-objstm-name", pdfgen.write_classic(d)[0]))
    return out


def witness_files(wd):
    """(Coq name, bytes, description) of the real --qdf outputs used as witnesses in coq/File/C17Witness.v"""
    out = []
    docs = dict((n, d) for n, d in finding_docs())
    for cname, key, opts in [("c17_w_endstream", "finding-endstream-line", ["--object-streams=disable"]),
                             ("c17_w_marker", "finding-xref-text", ["--object-streams=disable"])]:
        p = os.path.join(wd, key + ".pdf")
        open(p, "wb").write(docs[key])
        q = os.path.join(wd, cname + ".qdf")
        common.run_qpdf(["--static-id", "--qdf"] + opts + [p, q])
        out.append((cname, open(q, "rb").read() if os.path.exists(q) else b"", "qpdf --static-id --qdf %s %s.pdf (harness/c17.py finding_docs)" % (" ".join(opts), key)))
    q = os.path.join(wd, "c17_w_nbe.qdf")
    common.run_qpdf(["--static-id", "--qdf", "--object-streams=generate", "--newline-before-endstream", os.path.join(filecheck.CORPUS_DIR, "minimal.pdf"), q])
    out.append(("c17_w_nbe", open(q, "rb").read() if os.path.exists(q) else b"", "qpdf --static-id --qdf --object-streams=generate --newline-before-endstream qpdf/qtest/qpdf/minimal.pdf"))
    q = os.path.join(wd, "c17_w_preserved.qdf")
    common.run_qpdf(["--static-id", "--qdf", "--object-streams=generate", "--preserve-unreferenced", os.path.join(filecheck.CORPUS_DIR, "override-compressed-object.pdf"), q])
    out.append(("c17_w_preserved", open(q, "rb").read() if os.path.exists(q) else b"", "qpdf --static-id --qdf --object-streams=generate --preserve-unreferenced qpdf/qtest/qpdf/override-compressed-object.pdf"))
    q = os.path.join(wd, "c17_w_plain.qdf")
    common.run_qpdf(["--static-id", "--qdf", os.path.join(filecheck.CORPUS_DIR, "minimal.pdf"), q])
    out.append(("c17_w_plain", open(q, "rb").read() if os.path.exists(q) else b"", "qpdf --static-id --qdf qpdf/qtest/qpdf/minimal.pdf"))
    return out


EXT_SUBOPTS = [["--no-original-object-ids"], ["--stream-data=preserve"], ["--normalize-content=n"], ["--decode-level=none"], ["--min-version=1.7"],
               ["--compress-streams=y"], ["--coalesce-contents"]]
MODES = ["disable", "preserve", "generate"]
SUBOPTS = [[], ["--no-original-object-ids"], ["--stream-data=preserve"], ["--normalize-content=n"], ["--newline-before-endstream"],
           ["--decode-level=none"], ["--preserve-unreferenced"], ["--coalesce-contents"], ["--min-version=1.7"], ["--compress-streams=y"],
           ["--stream-data=compress"], ["--decode-level=all"], ["--force-version=1.2"]]


def finding_signature(lines, sd):
    """input class of a failing QDF file, for known_findings.json"""
    if sd is not None:
        for v in sd.objs.values():
            if isinstance(v, Stream) and v.d.get(b"Type") not in (Name(b"ObjStm"), Name(b"XRef")):
                if b"endstream\n" in split_lines(v.data + b"\n"):
                    return "C17:endstream-line-in-stream-data"
    # an ordinary stream (indirect /Length) whose dictionary says /Type /ObjStm: an original object stream kept by
    # --preserve-unreferenced
    cur = None
    for l in lines:
        if HDR.match(l):
            cur = set()
        elif cur is not None:
            if l == b"  /Type /ObjStm\n":
                cur.add("t")
            elif re.match(rb"  /Length \d+ 0 R\n\Z", l):
                cur.add("l")
            elif l in (b"stream\n", b"endobj\n"):
                if cur == {"t", "l"}:
                    return "C17:preserved-objstm-as-plain-stream"
                cur = None
    for l in lines:
        if (b"/Type /ObjStm" in l and l != b"  /Type /ObjStm\n") or (b"/Type /XRef" in l and l != b"  /Type /XRef\n"):
            return "C17:type-marker-text"
    return ""


def only_objstm_length_plus_one(a, b, idx):
    """known finding C17-F3: the two line lists differ only in `  /Length n` -> `  /Length n+1` inside object-stream
    dictionaries (and in the xref stream object, which is compared separately)"""
    if idx is None or not idx.objs or len(a) != len(b):
        return False
    xo = idx.objs[-1]
    allowed = set()
    for o in idx.objs:
        if o.kind == "objstm":
            allowed.update(range(o.c0, o.c1))
    n = 0
    for li in range(min(xo.hdr, len(a))):
        if a[li] != b[li]:
            ma, mb = re.match(rb"  /Length (\d+)\n\Z", a[li]), re.match(rb"  /Length (\d+)\n\Z", b[li])
            if li not in allowed or not ma or not mb or int(mb.group(1)) != int(ma.group(1)) + 1:
                return False
            n += 1
    return n > 0


# ------------------------------------------------------------------ the run

def run(chk):
    rng = chk.rng
    quick = chk.tier == "quick"
    runner = os.path.join(common.EXTRACT, "model_runner")
    wd = common.workdir("C17")
    by_oracle = {}
    report = chk.violation

    def counted(rep, signature="", no_input=False):
        n0 = len(chk.violations)
        report(rep, signature=signature, no_input=no_input)
        if len(chk.violations) > n0:
            key = (rep.get("correspondence") or rep.get("kind") or "?") if no_input else (signature.split(":")[0] or "?")
            by_oracle[key] = by_oracle.get(key, 0) + 1
            chk.cov["violations_by_oracle"] = by_oracle
    chk.violation = counted
    chk.cov["rule"] = ("QDF files = real `qpdf --qdf` outputs of (generated documents | documents with special stream data | repository corpus files read "
                       "without warning) x object-streams {disable, preserve, generate} x QDF sub-options; on each: layout recogniser, identity and "
                       "idempotence of the real fix-qdf, model = binary byte for byte; then edit scripts of 1..6 layout-preserving edits (stream bytes, "
                       "dictionary keys, comments, stale numbers, appended objects): edited file passes the layout recogniser, model = binary, the repaired "
                       "file is strictly valid and denotes the edited document, repair is idempotent; plus layout-breaking edits (fatal paths): model = binary; plus preserved object streams with 255..258 (thorough: 65535..65537) members and files whose "
                       "xref stream sits at offset 65535/65536 (thorough: 2^24-1..2^24+1), unedited and shifted by 1 / 300 bytes: model = binary, strict reader, qpdf --show-xref before = after; "
                       "plus inputs with two and three object streams linked by /Extends in every acyclic pattern (none, first extends second, second extends first, chains in every order; thorough: "
                       "a sample over four streams) written with --object-streams=preserve: same oracles, the object-stream dictionaries before and after fix-qdf are compared key by key, and aimed edit "
                       "scripts (an edit inside each object stream, /Extends line removed / retargeted / added, a key added by hand to an object-stream dictionary). "
                       "non-trivial = distinct (input, options, edit script) whose repair completed")
    # ---- inputs
    inputs = []
    for name, data, doc in filecheck.gen_docs(rng, 8 if quick else 30) + special_docs(rng):
        p = os.path.join(wd, name + ".pdf")
        open(p, "wb").write(data)
        inputs.append((name, p, "generated"))
    if not quick:
        for name, data, doc in filecheck.gen_docs(rng, 4, big=True):
            p = os.path.join(wd, "big" + name + ".pdf")
            open(p, "wb").write(data)
            inputs.append(("big" + name, p, "generated"))
    cf = [f for f in filecheck.corpus_files() if os.path.getsize(f) <= (30000 if quick else 60000)]
    for f in rng.sample(cf, 24 if quick else min(len(cf), 100)):
        inputs.append((os.path.basename(f), f, "corpus"))
    fnd = []
    for name, data in finding_docs():
        p = os.path.join(wd, name + ".pdf")
        open(p, "wb").write(data)
        fnd.append((name, p, "finding"))

    jobs = []
    for name, p, kind in inputs:
        for mode in MODES:
            subs = [[]] + rng.sample(SUBOPTS[1:], 1 if quick else 3)
            for sub in subs:
                jobs.append((name, p, kind, ["--qdf", "--object-streams=" + mode] + sub))
    for name, p, kind in fnd:
        jobs.append((name, p, kind, ["--qdf", "--object-streams=disable"]))
    # preserved object streams with /Extends chains (qpdf's generate mode never writes /Extends): every acyclic pattern
    ext_want = {}
    for name, data, ext in extends_docs(rng, quick):
        p = os.path.join(wd, name + ".pdf")
        open(p, "wb").write(data)
        ext_want[name] = ext
        jobs.append((name, p, "extends", ["--qdf", "--object-streams=preserve"] + ([] if quick or rng.random() < 0.5 else rng.choice(EXT_SUBOPTS))))

    def runjob(i):
        name, p, kind, cfg = jobs[i]
        out = os.path.join(wd, "q%d.qdf" % i)
        rc, so, se = common.run_qpdf(["--static-id"] + cfg + [p, out])
        return rc, se, out
    res = common.par_map(runjob, range(len(jobs)), workers=WORKERS)
    # "an input that was read without warnings": exit status 0 only
    qdfs = [(i, out) for i, (rc, se, out) in enumerate(res) if rc == 0 and os.path.exists(out) and 0 < os.path.getsize(out) <= MAXSIZE]
    attempted = len(jobs)

    # ---- layout of real --qdf output, strict reading, identity, idempotence, model = binary
    lay = layout(runner, [o for _, o in qdfs])
    sr = filecheck.strict_read([o for _, o in qdfs])
    rb = run_both(runner, [o for _, o in qdfs], wd, "u")
    rb2 = run_both(runner, [r[1] for r in rb], wd, "uu")
    tie = []
    base = []
    nontriv = set()
    kinds = {}
    ext_seen = {}       # /Extends pattern in file order -> number of QDF files
    for (i, out), lv, r, (ist, ipath, mst, mpath), (ist2, ipath2, mst2, mpath2) in zip(qdfs, lay, sr, rb, rb2):
        name, p, kind, cfg = jobs[i]
        case = {"input": p, "input_kind": kind, "argv": ["qpdf", "--static-id"] + cfg + [p, "out.qdf"], "then": ["fix-qdf", "out.qdf"]}
        lines = split_lines(open(out, "rb").read())
        sd = filecheck.StrictDoc(r, out) if r["ok"] else None
        sig = finding_signature(lines, sd)
        kinds[kind] = kinds.get(kind, 0) + 1
        ok = True
        if ist != mst or not same_file(ipath, mpath):
            tie.append(dict(case, stage="unedited", implementation=ist, model=mst))
        if ist2 != mst2 or not same_file(ipath2, mpath2):
            tie.append(dict(case, stage="second pass", implementation=ist2, model=mst2))
        if not r["ok"]:
            chk.violation(dict(case, kind="property-fails-on-implementation", why="the --qdf output is not strictly well-formed: " + filecheck.ERR.get(r["code"], str(r["code"])), strict_reader=r),
                          signature=sig or "qdf-strict:%s" % r["code"])
            continue
        if lv != "ok":
            chk.violation(dict(case, kind="property-fails-on-implementation", why="the --qdf output breaks a layout rule of the manual (rule, line): " + lv), signature=sig or "layout:" + lv)
            ok = False
        # identity
        data = open(out, "rb").read()
        fixed = open(ipath, "rb").read()
        if ist != "0":
            chk.violation(dict(case, kind="property-fails-on-implementation", why="fix-qdf fails on unedited --qdf output: " + ist), signature=sig or "identity-exit")
            ok = False
        elif not sd.xref_stream:
            if fixed != data:
                chk.violation(dict(case, kind="property-fails-on-implementation", why="fix-qdf does not reproduce an unedited classic-xref QDF file byte for byte"), signature=sig or "identity-classic")
                ok = False
        else:
            idx = qdf_index(lines)
            xo = idx.objs[-1] if idx and idx.objs else None
            pre = b"".join(lines[:xo.hdr]) if xo else b""
            if idx and sum(1 for o in idx.objs if o.kind == "objstm") > 1:
                pat = extends_pattern(sd, idx)
                ext_seen[pat] = ext_seen.get(pat, 0) + 1
                if kind == "extends" and pat != ext_want.get(name):
                    chk.cov.setdefault("extends_pattern_not_as_generated", []).append({"input": name, "generated": repr(ext_want.get(name)), "qdf": repr(pat)})
            r2 = filecheck.strict_read([ipath])[0]
            same_doc = False
            ddiff = []
            if r2["ok"]:
                sd2 = filecheck.StrictDoc(r2, ipath)
                ddiff = objstm_dict_diffs(sd, sd2)
                skip = {(xo.num, 0)} if xo else set()
                same_doc = ({k: v for k, v in sd.objs.items() if k not in skip} == {k: v for k, v in sd2.objs.items() if k not in skip}
                            and sd.where == sd2.where and {k: v for k, v in sd.trailer.items() if k not in (b"W", b"Length")} == {k: v for k, v in sd2.trailer.items() if k not in (b"W", b"Length")})
            if "--newline-before-endstream" in cfg and r2["ok"] and only_objstm_length_plus_one(lines, split_lines(fixed), idx):
                chk.violation(dict(case, kind="property-fails-on-implementation", why="fix-qdf on an unedited xref-stream QDF file changes the /Length of every object stream by one"),
                              signature="C17:newline-before-endstream-objstm-length")
            elif ddiff:
                chk.violation(dict(case, kind="property-fails-on-implementation", why="fix-qdf on an unedited QDF file changes the dictionary of an object stream", differences=ddiff[:4],
                                   qdf_file_b64=base64.b64encode(data).decode() if len(data) < 60000 else None), signature=sig or "identity-objstm-dict")
                ok = False
            elif not fixed.startswith(pre) or not same_doc:
                chk.violation(dict(case, kind="property-fails-on-implementation", why="fix-qdf on an unedited xref-stream QDF file changes more than the /W widths"), signature=sig or "identity-xrefstream")
                ok = False
        if ist2 != "0" or not same_file(ipath, ipath2):
            if ist == "0":
                chk.violation(dict(case, kind="property-fails-on-implementation", why="fix-qdf is not idempotent on the unedited file"), signature=sig or "idempotent")
                ok = False
        if ok and kind != "finding":
            base.append((i, out, lines, sd))
            nontriv.add((name, " ".join(cfg), "unedited"))
    chk.count("unedited-qdf", len(qdfs), nontriv, samples=[{"input": jobs[i][0], "options": " ".join(jobs[i][3])} for i, _ in qdfs[:3]])
    chk.cov["parts"]["unedited-qdf"]["qdf_writes_attempted"] = attempted
    chk.cov["parts"]["unedited-qdf"]["by_input_kind"] = kinds
    chk.cov["parts"]["unedited-qdf"]["with_xref_stream"] = sum(1 for _, _, _, sd in base if sd.xref_stream)
    # files with several object streams, by /Extends pattern in file order; "with-before-without" = a stream that has
    # /Extends precedes one that has none (what a per-stream field that is not reset would leak into)
    chk.cov["parts"]["unedited-qdf"]["extends_patterns"] = {repr(k_): v for k_, v in sorted(ext_seen.items(), key=repr)}
    wbw = sum(v for k_, v in ext_seen.items() if any(a is not None and b is None for i_, a in enumerate(k_) for b in k_[i_ + 1:]))
    chk.cov["parts"]["unedited-qdf"]["extends_with_before_without"] = wbw
    missing = [e_ for e_ in acyclic_extends(2) + acyclic_extends(3) if e_ not in ext_seen]
    if missing:
        chk.violation({"kind": "check-machinery", "what": "the /Extends patterns %s were not reached by any QDF file (generator harness/c17.py extends_pdf: qpdf no longer "
                       "writes preserved object streams in the order of their first members?)" % missing[:5]}, no_input=True)

    # ---- layout-preserving edit scripts
    per_file = 4 if quick else 5
    ecases = []
    rejected = 0
    ndirected = 0
    for (i, out, lines, sd) in base:
        idx = qdf_index(lines)
        if idx is None or not idx.objs:
            continue
        for s in range(1 if jobs[i][2] == "extends" else per_file):      # (files with /Extends chains get aimed scripts below)
            sdc = filecheck.StrictDoc(sd.res, out)     # fresh copy of the object model
            e = make_edit(rng, lines, sdc, idx, rng.randint(1, 6))
            if e is None:
                continue
            ep = os.path.join(wd, "e%d_%d.qdf" % (i, s))
            with open(ep, "wb") as f:
                f.write(b"".join(e.lines))
            if os.path.getsize(ep) <= MAXSIZE:
                ecases.append((i, ep, e))
        # several object streams: an edit inside each of them, every kind of /Extends edit, both combined
        nstm = sum(1 for o in idx.objs if o.kind == "objstm")
        if nstm > 1 and (jobs[i][2] == "extends" or ndirected < (6 if quick else 40)):
            ndirected += jobs[i][2] != "extends"
            for s, e in enumerate(directed_scripts(rng, lines, lambda: filecheck.StrictDoc(sd.res, out), idx)):
                ep = os.path.join(wd, "d%d_%d.qdf" % (i, s))
                with open(ep, "wb") as f:
                    f.write(b"".join(e.lines))
                if os.path.getsize(ep) <= MAXSIZE:
                    ecases.append((i, ep, e))
    lay = layout(runner, [c[1] for c in ecases])
    keep = []
    for c, lv in zip(ecases, lay):
        if lv == "ok":
            keep.append(c)
        else:
            rejected += 1
            if rejected <= 3:
                chk.cov.setdefault("edit_generator_rejected_samples", []).append({"script": c[2].script, "layout": lv, "input": jobs[c[0]][0]})
    ecases = keep
    rb = run_both(runner, [c[1] for c in ecases], wd, "e")
    sr = filecheck.strict_read([r[1] for r in rb])
    rb2 = run_both(runner, [r[1] for r in rb], wd, "ee")
    nontriv = set()
    nedits = {}
    for (i, ep, e), (ist, ipath, mst, mpath), r, (ist2, ipath2, mst2, mpath2) in zip(ecases, rb, sr, rb2):
        name, p, kind, cfg = jobs[i]
        case = {"input": p, "input_kind": kind, "argv": ["qpdf", "--static-id"] + cfg + [p, "out.qdf"], "edit_script": e.script,
                "edited_file_b64": base64.b64encode(open(ep, "rb").read()).decode() if os.path.getsize(ep) < 60000 else None, "edited_file": ep}
        nedits[len(e.script)] = nedits.get(len(e.script), 0) + 1
        if ist != mst or not same_file(ipath, mpath):
            tie.append(dict(case, stage="edited", implementation=ist, model=mst))
        if ist2 != mst2 or not same_file(ipath2, mpath2):
            tie.append(dict(case, stage="edited, second pass", implementation=ist2, model=mst2))
        if ist != "0":
            chk.violation(dict(case, kind="property-fails-on-implementation", why="fix-qdf fails on a layout-preserving edit: " + ist), signature="edit-exit")
            continue
        if not r["ok"]:
            chk.violation(dict(case, kind="property-fails-on-implementation", why="the repaired file is not strictly well-formed: " + filecheck.ERR.get(r["code"], str(r["code"])),
                               strict_reader=r), signature="edit-strict:%s" % r["code"])
            continue
        probs = doc_problems(e, filecheck.StrictDoc(r, ipath))
        if probs:
            chk.violation(dict(case, kind="property-fails-on-implementation", why="the repaired file does not denote the edited document", differences=probs), signature="edit-doc")
            continue
        if ist2 != "0" or not same_file(ipath, ipath2):
            chk.violation(dict(case, kind="property-fails-on-implementation", why="repairing the repaired file changes it (not idempotent)"), signature="edit-idempotent")
            continue
        nontriv.add((name, " ".join(cfg), tuple(e.script)))
    chk.count("edited-qdf", len(ecases), nontriv, samples=[{"input": jobs[c[0]][0], "options": " ".join(jobs[c[0]][3]), "script": c[2].script} for c in ecases[:3]])
    chk.cov["parts"]["edited-qdf"]["edits_per_script"] = nedits
    chk.cov["parts"]["edited-qdf"]["scripts_adding_objstm_dict_keys"] = sum(1 for c in ecases if any("to the dictionary of object stream" in x and "/VerifO" in x for x in c[2].script))
    chk.cov["parts"]["edited-qdf"]["scripts_editing_extends"] = sum(1 for c in ecases if any("/Extends" in x for x in c[2].script))
    chk.cov["parts"]["edited-qdf"]["scripts_editing_objstm_members"] = sum(1 for c in ecases if any("member of object stream" in x for x in c[2].script))
    chk.cov["parts"]["edited-qdf"]["on_files_with_extends_chains"] = sum(1 for c in ecases if jobs[c[0]][2] == "extends")
    chk.cov["parts"]["edited-qdf"]["edit_generator_rejected_by_layout"] = rejected
    if rejected > max(5, len(ecases) // 10):
        chk.violation({"kind": "check-machinery", "what": "the edit generator produced %d scripts that break the layout rules (of %d)" % (rejected, rejected + len(ecases))}, no_input=True)

    # ---- layout-breaking edits: fatal and exception paths, model = binary
    bcases = []
    per_file = 3 if quick else 6
    for (i, out, lines, sd) in base:
        for s in range(per_file):
            ls, what = breaking_edit(rng, lines)
            if ls is None:
                continue
            bp = os.path.join(wd, "b%d_%d.qdf" % (i, s))
            with open(bp, "wb") as f:
                f.write(b"".join(ls))
            bcases.append((i, bp, what))
    # hand-made corner inputs
    for j, data in enumerate([b"", b"\n", b"1 0 obj\n", b"1 0 obj", b"2 0 obj\n", b"xref\n", b"xref", b"1 0 obj\n/Type /XRef\nstream\n", b"1 0 obj\n  /Type /XRef\n",
                              b"1 0 obj\n/Type /ObjStm\nstream\n%% Object stream: object 2\n<<>>\nendstream\nendobj\n", b"1 0 obj\n/Type /ObjStm\nstream\n%% Object stream: object 2\n",
                              b"1 0 obj\n/Type /ObjStm\nstream\n%% Object stream: object 2\nx\nendstream\n/Type /XRef\n",
                              b"1 0 obj\n/Type /ObjStm\nstream\n%% Object stream: object 2\nx\nendstream\nendobj\nxref\n0 1\ntrailer <<\n>>\n",
                              b"1 0 obj\nstream\nendstream\n2 0 obj\n", b"1 0 obj\nstream\nendstream\n2 0 obj\nx\n", b"1 0 obj\nstream\nab\nendstream\n%QDF: ignore_newline\n%QDF: ignore_newline\n2 0 obj\n77\nendobj\nxref\n",
                              b"99999999999999999999 0 obj\n", b"1 0 obj\nendobj\nxref\n0 1\ntrailer <<\n  /Size 1\n  /Size 1 \n>>\n", b"\x00\xff\n1 0 obj\n\x00/Type /XRef\x00\nstream\n"]):
        bp = os.path.join(wd, "h%d.qdf" % j)
        with open(bp, "wb") as f:
            f.write(data)
        bcases.append((None, bp, "hand-made %r" % data[:60]))
    rb = run_both(runner, [c[1] for c in bcases], wd, "b")
    outcomes = {}
    nontriv = set()
    for (i, bp, what), (ist, ipath, mst, mpath) in zip(bcases, rb):
        cls = " ".join(ist.split()[:2])
        outcomes[cls] = outcomes.get(cls, 0) + 1
        nontriv.add((i, what))
        if ist != mst or not same_file(ipath, mpath):
            tie.append({"stage": "layout-breaking edit", "edit": what, "file": bp, "from": jobs[i][0] if i is not None else None,
                        "file_b64": base64.b64encode(open(bp, "rb").read()).decode() if os.path.getsize(bp) < 60000 else None, "implementation": ist, "model": mst})
    chk.count("layout-breaking", len(bcases), nontriv, samples=[{"edit": c[2]} for c in bcases[:3]])
    chk.cov["parts"]["layout-breaking"]["outcomes"] = outcomes

    # ---- /W width boundaries
    part_boundaries(chk, runner, wd, tie)

    # ---- QDF-form files of the repository's test suite (many hand-edited): model = binary
    rq = []
    for f in sorted(os.listdir(filecheck.CORPUS_DIR)):
        fp = os.path.join(filecheck.CORPUS_DIR, f)
        try:
            if os.path.isfile(fp) and os.path.getsize(fp) <= (40000 if quick else MAXSIZE):
                with open(fp, "rb") as fh:
                    head = fh.read(300).split(b"\n")
                if len(head) > 2 and head[2] == b"%QDF-1.0":
                    rq.append(fp)
        except OSError:
            pass
    if quick:
        rq = rng.sample(rq, min(len(rq), 40)) + [os.path.join(filecheck.CORPUS_DIR, f) for f in ("fix1.qdf", "fix2.qdf")]
    rb = run_both(runner, rq, wd, "q")
    outcomes = {}
    for fp, (ist, ipath, mst, mpath) in zip(rq, rb):
        outcomes[" ".join(ist.split()[:2])] = outcomes.get(" ".join(ist.split()[:2]), 0) + 1
        if ist != mst or not same_file(ipath, mpath):
            tie.append({"stage": "repository QDF file", "file": fp, "implementation": ist, "model": mst})
    chk.count("repository-qdf-files", len(rq), [("rq", os.path.basename(f)) for f in rq], samples=[{"file": os.path.basename(f)} for f in rq[:2]])
    chk.cov["parts"]["repository-qdf-files"]["outcomes"] = outcomes

    # ---- the witnesses of the *_refuted / example theorems are what the qpdf under test writes
    wv = open(os.path.join(common.COQ, "File", "C17Witness.v")).read()
    stale = []
    for cname, data, how in witness_files(wd):
        m = re.search(r"Definition %s : list N :=\s*\[([0-9; ]*)\]" % cname, wv)
        have = bytes(int(x) for x in m.group(1).split(";")) if m and m.group(1).strip() else None
        if have != data:
            stale.append({"witness": cname, "made_by": how, "bytes_in_Coq": None if have is None else len(have), "bytes_now": len(data)})
    chk.count("theorem-witnesses", 5, [("witness", i) for i in range(5 - len(stale))])
    if stale:
        chk.violation({"kind": "correspondence-broken", "correspondence": "corr:C17:witness-files", "differing_cases": len(stale), "first_cases": stale,
                       "note": "the byte strings the refutation/example theorems are stated on are no longer what `qpdf --qdf` writes for the "
                               "same inputs (tools/gen_c17_witness.py regenerates them; the theorems then have to be re-checked)"}, no_input=True)

    if tie:
        chk.violation({"kind": "correspondence-broken", "correspondence": "corr:C17:fixqdf-line-machine", "differing_cases": len(tie), "first_cases": tie[:3],
                       "note": "the extracted model of fix-qdf.cc and the real binary differ (output bytes, exit status or cause) although every specification "
                               "oracle that applies to these cases holds; the theorems no longer speak about this code"}, no_input=True)


def replay(chk, rep):
    import json
    runner = os.path.join(common.EXTRACT, "model_runner")
    wd = common.workdir("C17-replay")
    b64 = rep.get("edited_file_b64") or rep.get("file_b64") or rep.get("qdf_file_b64")
    if not b64 and rep.get("first_cases"):
        b64 = rep["first_cases"][0].get("edited_file_b64") or rep["first_cases"][0].get("file_b64")
    if b64:
        p = os.path.join(wd, "case.qdf")
        open(p, "wb").write(base64.b64decode(b64))
    elif rep.get("argv"):
        p = os.path.join(wd, "case.qdf")
        common.run_qpdf(rep["argv"][1:-1] + [p])
    else:
        print(json.dumps(rep, indent=1)[:3000])
        return 0
    (ist, ipath, mst, mpath), = run_both(runner, [p], wd, "r")
    print("layout of the case file :", layout(runner, [p])[0])
    print("real fix-qdf            :", ist, "->", ipath)
    print("model                   :", mst, "->", mpath, "(same bytes)" if same_file(ipath, mpath) else "(DIFFERENT bytes)")
    r = filecheck.strict_read([ipath])[0]
    print("strict reader on the repaired file:", "ok" if r["ok"] else "rejected: %s at %s" % (filecheck.ERR.get(r["code"], r["code"]), r.get("at")))
    dd = []
    if r["ok"]:
        # object-stream dictionaries of the case file (when it is itself a valid file) and of the repaired file
        r0 = filecheck.strict_read([p])[0]
        sd2 = filecheck.StrictDoc(r, ipath)
        for (n, g), v in sorted(sd2.objs.items()):
            if isinstance(v, Stream) and v.d.get(b"Type") == Name(b"ObjStm"):
                print("repaired file, object stream %d: %s" % (n, objstm_dict_text(v.d)))
        if r0["ok"] and not rep.get("edit_script"):
            dd = objstm_dict_diffs(filecheck.StrictDoc(r0, p), sd2)
            for x in dd:
                print("fix-qdf changed the dictionary of an object stream of the unedited file:", x)
    print(json.dumps({k: v for k, v in rep.items() if "b64" not in k}, indent=1, default=str)[:2500])
    return 0 if (ist == mst and same_file(ipath, mpath) and r["ok"] and not dd) else 1
