(* Model of the printers: QPDF_String::useHexString / QPDF_String::unparse (libqpdf/QPDF_String.cc)
   and Name::normalize (libqpdf/QPDFObjectHandle.cc).  `char` is signed: the comparisons are written
   on ch_signed.  Accumulation in reverse, rev' at the end.  No proofs in this file. *)
From QV Require Import Base.Bytes Lex.TokModel.
Local Open Scope N_scope.

Definition hexchar_lc (n : N) : N := if n <? 10 then 48 + n else 87 + n.   (* "0123456789abcdef"[n] *)

(* QPDF_String::useHexString.  non_ascii is an unsigned int in the code; strings are assumed shorter
   than 2^32/5 bytes, so that 5 * non_ascii does not wrap. *)
Fixpoint use_hex_scan (val : list N) (non_ascii : N) : option N :=   (* None = return true *)
  match val with
  | [] => Some non_ascii
  | b :: r =>
      let ch := ch_signed b in
      if (ch >? 126)%Z then use_hex_scan r (non_ascii + 1)
      else if (ch >=? 32)%Z then use_hex_scan r non_ascii
      else if ((ch <? 0) || (ch >=? 24))%Z then use_hex_scan r (non_ascii + 1)
      else if negb ((b =? 10) || (b =? 13) || (b =? 9) || (b =? 8) || (b =? 12)) then None
      else use_hex_scan r non_ascii
  end.

Definition use_hex_string (val : list N) : bool :=
  match use_hex_scan val 0 with
  | None => true
  | Some na => N.of_nat (length val) <? 5 * na
  end.

Definition is_iso_latin1_printable (b : N) : bool :=
  let ch := ch_signed b in ((ch >=? 32) && (ch <=? 126))%Z || (160 <=? b).

(* reversed output pieces *)
Fixpoint unparse_hex_rev (val : list N) (acc : list N) : list N :=
  match val with
  | [] => acc
  | c :: r => unparse_hex_rev r (hexchar_lc (N.land c 15) :: hexchar_lc (N.shiftr c 4) :: acc)
  end.

Definition octal3_rev (b : N) : list N :=      (* int_to_string_base(b, 8, 3), reversed *)
  [48 + b mod 8; 48 + (b / 8) mod 8; 48 + (b / 64)].

Fixpoint unparse_lit_rev (val : list N) (acc : list N) : list N :=
  match val with
  | [] => acc
  | ch :: r =>
      let acc1 :=
        if ch =? 10 then 110 :: 92 :: acc
        else if ch =? 13 then 114 :: 92 :: acc
        else if ch =? 9 then 116 :: 92 :: acc
        else if ch =? 8 then 98 :: 92 :: acc
        else if ch =? 12 then 102 :: 92 :: acc
        else if ch =? 40 then 40 :: 92 :: acc
        else if ch =? 41 then 41 :: 92 :: acc
        else if ch =? 92 then 92 :: 92 :: acc
        else if is_iso_latin1_printable ch then ch :: acc
        else octal3_rev ch ++ 92 :: acc in
      unparse_lit_rev r acc1
  end.

(* QPDF_String::unparse(force_binary) *)
Definition string_unparse (force_binary : bool) (val : list N) : list N :=
  if force_binary || use_hex_string val
  then rev' (62 :: unparse_hex_rev val [60])
  else rev' (41 :: unparse_lit_rev val [40]).

(* Name::normalize.  name includes the leading '/' (first character copied unchanged). *)
Definition name_needs_escape (b : N) : bool :=
  let ch := ch_signed b in
  (ch <? 33)%Z || (b =? 35) || (b =? 47) || (b =? 40) || (b =? 41) || (b =? 123) || (b =? 125) ||
  (b =? 60) || (b =? 62) || (b =? 91) || (b =? 93) || (b =? 37) || (ch >? 126)%Z.

Fixpoint name_norm_rev (rest : list N) (acc : list N) : list N :=
  match rest with
  | [] => acc
  | ch :: r =>
      let acc1 :=
        if ch =? 0 then 35 :: acc
        else if name_needs_escape ch
        then hexchar_lc (N.land ch 15) :: hexchar_lc (N.shiftr ch 4) :: 35 :: acc
        else ch :: acc in
      name_norm_rev r acc1
  end.

Definition name_normalize (name : list N) : list N :=
  match name with
  | [] => []
  | c0 :: r => rev' (name_norm_rev r [c0])
  end.
