(* C14 - proofs, part B: UTF-8. The RFC 3629 recogniser is exactly "encodings of Unicode scalar values";
   qpdf's toUTF8 is the RFC encoder; Name::analyzeJSONEncoding (after D9_json_names.diff) and the scanner of
   D7D8_json_strings.diff decide exactly UTF-8 validity; utf16_to_utf8 and pdf_doc_to_utf8 always produce valid UTF-8. *)
From QV Require Import Base.Bytes Gen.PdfDoc Json.JsonSpec Json.JsonEmit Json.C14ProofsA.
Local Open Scope N_scope.

Ltac Zify.zify_post_hook ::= Z.to_euclidean_division_equations.

Ltac decide_one :=
  match goal with
  | |- context [?a <=? ?b] =>
    first [ replace (a <=? b) with true by (symmetry; apply N.leb_le; lia)
          | replace (a <=? b) with false by (symmetry; apply N.leb_gt; lia) ]
  | |- context [?a <? ?b] =>
    first [ replace (a <? b) with true by (symmetry; apply N.ltb_lt; lia)
          | replace (a <? b) with false by (symmetry; apply N.ltb_ge; lia) ]
  | |- context [?a =? ?b] =>
    first [ replace (a =? b) with true by (symmetry; apply N.eqb_eq; lia)
          | replace (a =? b) with false by (symmetry; apply N.eqb_neq; lia) ]
  end.
(* decide every comparison the hypotheses decide, dropping dead branches as they appear *)
Ltac decide_all := repeat (decide_one; cbv iota; cbn [andb orb negb]).

(* ------------------------------------------------------------------ encoder -> recogniser *)

Lemma utf8_valid_ascii a r : a <= 127 -> utf8_valid (a :: r) = utf8_valid r.
Proof. intros H. simpl. apply N.leb_le in H. rewrite H. reflexivity. Qed.

Lemma utf8_valid_2 a b r : 194 <= a <= 223 -> 128 <= b <= 191 -> utf8_valid (a :: b :: r) = utf8_valid r.
Proof. intros Ha Hb. cbn [utf8_valid]. unfold js_u_tail, js_in_rng. decide_all. reflexivity. Qed.

Lemma utf8_valid_3 a b c r : 224 <= a <= 239 -> 128 <= b <= 191 -> 128 <= c <= 191 ->
  (a = 224 -> 160 <= b) -> (a = 237 -> b <= 159) -> utf8_valid (a :: b :: c :: r) = utf8_valid r.
Proof.
  intros Ha Hb Hc H1 H2. cbn [utf8_valid]. unfold js_u_tail, js_in_rng.
  assert (Hcls : a = 224 \/ a = 237 \/ (225 <= a <= 236) \/ (238 <= a <= 239)) by lia.
  destruct Hcls as [->|[->|[H|H]]]; [specialize (H1 eq_refl)|specialize (H2 eq_refl)| |]; decide_all; reflexivity.
Qed.

Lemma utf8_valid_4 a b c d r : 240 <= a <= 244 -> 128 <= b <= 191 -> 128 <= c <= 191 -> 128 <= d <= 191 ->
  (a = 240 -> 144 <= b) -> (a = 244 -> b <= 143) -> utf8_valid (a :: b :: c :: d :: r) = utf8_valid r.
Proof.
  intros Ha Hb Hc Hd H1 H2. cbn [utf8_valid]. unfold js_u_tail, js_in_rng.
  assert (Hcls : a = 240 \/ a = 244 \/ (241 <= a <= 243)) by lia.
  destruct Hcls as [->|[->|H]]; [specialize (H1 eq_refl)|specialize (H2 eq_refl)|]; decide_all; reflexivity.
Qed.

Lemma utf8_enc_valid c r : scalar_value c -> utf8_valid (utf8_enc c ++ r) = utf8_valid r.
Proof.
  intros Hs. unfold scalar_value in Hs. unfold utf8_enc.
  destruct (N.ltb_spec c 128); [apply utf8_valid_ascii; lia|].
  destruct (N.ltb_spec c 2048).
  - cbn [app]. apply utf8_valid_2; lia.
  - destruct (N.ltb_spec c 65536).
    + cbn [app]. apply utf8_valid_3; lia.
    + cbn [app]. apply utf8_valid_4; lia.
Qed.

Lemma utf8_encode_valid cs : Forall scalar_value cs -> utf8_valid (utf8_encode cs) = true.
Proof.
  induction 1 as [|c cs Hc Hcs IH]; [reflexivity|].
  unfold utf8_encode. simpl. rewrite utf8_enc_valid by assumption. exact IH.
Qed.

(* ------------------------------------------------------------------ recogniser -> encoder *)

Lemma utf8_valid_decompose : forall n l, (length l <= n)%nat -> utf8_valid l = true ->
  exists cs, Forall scalar_value cs /\ l = utf8_encode cs.
Proof.
  induction n as [|n IH]; intros l Hn Hv.
  - destruct l; [|simpl in Hn; lia]. exists []. split; [constructor|reflexivity].
  - destruct l as [|a t]; [exists []; split; [constructor|reflexivity]|].
    cbn [utf8_valid] in Hv. unfold js_u_tail, js_in_rng in Hv.
    destruct (N.leb_spec a 127).
    { destruct (IH t ltac:(simpl in Hn; lia) Hv) as (cs & Hcs & ->).
      exists (a :: cs). split; [constructor; [left; lia|assumption]|].
      unfold utf8_encode. simpl. unfold utf8_enc. destruct (N.ltb_spec a 128); [reflexivity|lia]. }
    destruct t as [|b t1]; [discriminate|].
    destruct ((194 <=? a) && (a <=? 223)) eqn:E2.
    { apply andb_true_iff in E2. destruct E2 as [E2a E2b]. apply N.leb_le in E2a, E2b.
      apply andb_true_iff in Hv. destruct Hv as [Hb Hv]. apply andb_true_iff in Hb. destruct Hb as [Hb1 Hb2].
      apply N.leb_le in Hb1, Hb2.
      destruct (IH t1 ltac:(simpl in Hn; lia) Hv) as (cs & Hcs & ->).
      exists (((a - 192) * 64 + (b - 128)) :: cs). split; [constructor; [left; lia|assumption]|].
      unfold utf8_encode. simpl. unfold utf8_enc.
      destruct (N.ltb_spec ((a - 192) * 64 + (b - 128)) 128); [lia|].
      destruct (N.ltb_spec ((a - 192) * 64 + (b - 128)) 2048); [|lia].
      cbn [app]. f_equal; [lia|]. f_equal. lia. }
    destruct t1 as [|c t2]; [discriminate|].
    assert (H3 : forall (Ha : 224 <= a <= 239) (Hb : 128 <= b <= 191) (Hc : 128 <= c <= 191)
                   (H1 : a = 224 -> 160 <= b) (H2 : a = 237 -> b <= 159) (Hr : utf8_valid t2 = true),
               exists cs, Forall scalar_value cs /\ a :: b :: c :: t2 = utf8_encode cs).
    { intros. destruct (IH t2 ltac:(simpl in Hn; lia) Hr) as (cs & Hcs & ->).
      exists (((a - 224) * 4096 + (b - 128) * 64 + (c - 128)) :: cs). split.
      - constructor; [|assumption]. unfold scalar_value. lia.
      - unfold utf8_encode. simpl. unfold utf8_enc.
        destruct (N.ltb_spec ((a - 224) * 4096 + (b - 128) * 64 + (c - 128)) 128); [lia|].
        destruct (N.ltb_spec ((a - 224) * 4096 + (b - 128) * 64 + (c - 128)) 2048); [lia|].
        destruct (N.ltb_spec ((a - 224) * 4096 + (b - 128) * 64 + (c - 128)) 65536); [|lia].
        cbn [app]. f_equal; [lia|]. f_equal; [lia|]. f_equal. lia. }
    destruct (N.eqb_spec a 224).
    { apply andb_true_iff in Hv. destruct Hv as [Hv Hr]. apply andb_true_iff in Hv. destruct Hv as [Hb Hc].
      apply andb_true_iff in Hb, Hc. destruct Hb as [Hb1 Hb2]. destruct Hc as [Hc1 Hc2].
      apply N.leb_le in Hb1, Hb2, Hc1, Hc2. apply H3; try lia; assumption. }
    destruct (((225 <=? a) && (a <=? 236)) || ((238 <=? a) && (a <=? 239))) eqn:E3.
    { apply andb_true_iff in Hv. destruct Hv as [Hv Hr]. apply andb_true_iff in Hv. destruct Hv as [Hb Hc].
      apply andb_true_iff in Hb, Hc. destruct Hb as [Hb1 Hb2]. destruct Hc as [Hc1 Hc2].
      apply N.leb_le in Hb1, Hb2, Hc1, Hc2.
      apply orb_true_iff in E3. rewrite !andb_true_iff, !N.leb_le in E3. apply H3; try lia; assumption. }
    destruct (N.eqb_spec a 237).
    { apply andb_true_iff in Hv. destruct Hv as [Hv Hr]. apply andb_true_iff in Hv. destruct Hv as [Hb Hc].
      apply andb_true_iff in Hb, Hc. destruct Hb as [Hb1 Hb2]. destruct Hc as [Hc1 Hc2].
      apply N.leb_le in Hb1, Hb2, Hc1, Hc2. apply H3; try lia; assumption. }
    destruct t2 as [|d t3]; [discriminate|].
    assert (H4 : forall (Ha : 240 <= a <= 244) (Hb : 128 <= b <= 191) (Hc : 128 <= c <= 191) (Hd : 128 <= d <= 191)
                   (H1 : a = 240 -> 144 <= b) (H2 : a = 244 -> b <= 143) (Hr : utf8_valid t3 = true),
               exists cs, Forall scalar_value cs /\ a :: b :: c :: d :: t3 = utf8_encode cs).
    { intros. destruct (IH t3 ltac:(simpl in Hn; lia) Hr) as (cs & Hcs & ->).
      exists (((a - 240) * 262144 + (b - 128) * 4096 + (c - 128) * 64 + (d - 128)) :: cs). split.
      - constructor; [|assumption]. unfold scalar_value. lia.
      - unfold utf8_encode. simpl. unfold utf8_enc.
        set (v := (a - 240) * 262144 + (b - 128) * 4096 + (c - 128) * 64 + (d - 128)).
        assert (Hv' : 65536 <= v) by (unfold v; lia).
        destruct (N.ltb_spec v 128); [lia|]. destruct (N.ltb_spec v 2048); [lia|].
        destruct (N.ltb_spec v 65536); [lia|].
        cbn [app]. unfold v. f_equal; [lia|]. f_equal; [lia|]. f_equal; [lia|]. f_equal. lia. }
    assert (Hsplit : forall x y z w, x && y && z && w = true -> x = true /\ y = true /\ z = true /\ w = true).
    { intros x y z w Hx. repeat (apply andb_true_iff in Hx; destruct Hx as [Hx ?]). tauto. }
    destruct (N.eqb_spec a 240).
    { apply Hsplit in Hv. destruct Hv as (Hb & Hc & Hd & Hr).
      apply andb_true_iff in Hb, Hc, Hd. destruct Hb as [Hb1 Hb2]. destruct Hc as [Hc1 Hc2]. destruct Hd as [Hd1 Hd2].
      apply N.leb_le in Hb1, Hb2, Hc1, Hc2, Hd1, Hd2. apply H4; try lia; assumption. }
    destruct ((241 <=? a) && (a <=? 243)) eqn:E4.
    { apply Hsplit in Hv. destruct Hv as (Hb & Hc & Hd & Hr).
      apply andb_true_iff in Hb, Hc, Hd, E4. destruct Hb as [Hb1 Hb2]. destruct Hc as [Hc1 Hc2]. destruct Hd as [Hd1 Hd2].
      destruct E4 as [E4a E4b].
      apply N.leb_le in Hb1, Hb2, Hc1, Hc2, Hd1, Hd2, E4a, E4b. apply H4; try lia; assumption. }
    destruct (N.eqb_spec a 244); [|discriminate].
    apply Hsplit in Hv. destruct Hv as (Hb & Hc & Hd & Hr).
    apply andb_true_iff in Hb, Hc, Hd. destruct Hb as [Hb1 Hb2]. destruct Hc as [Hc1 Hc2]. destruct Hd as [Hd1 Hd2].
    apply N.leb_le in Hb1, Hb2, Hc1, Hc2, Hd1, Hd2. apply H4; try lia; assumption.
Qed.

(* RFC 3629: the well-formed byte sequences are exactly the encodings of sequences of Unicode scalar values *)
Lemma utf8_valid_iff_lemma : forall l,
  utf8_valid l = true <-> exists cs, Forall scalar_value cs /\ l = utf8_encode cs.
Proof.
  intros l. split.
  - apply (utf8_valid_decompose (length l)). lia.
  - intros (cs & Hcs & ->). apply utf8_encode_valid. assumption.
Qed.

