(* C18 unbounded refinement, part F: insertFirst / insertAfter / insert. *)
From Coq Require Import Sorting.Sorted.
From QV Require Import Base.Bytes Struct.NNTreeModel Struct.NNTreeSpec Struct.C18Proofs Struct.C18ProofsC
  Struct.C18InvA Struct.C18InvB Struct.C18InvC Struct.C18InvD Struct.C18InvE.
Local Open Scope Z_scope.

Lemma plug_lim : forall fs (a a' : node), nn_lim Z a = nn_lim Z a' -> nn_lim Z (plug a fs) = nn_lim Z (plug a' fs).
Proof.
  induction fs as [|fr fs IH]; intros a a' H; [exact H|]. cbn [plug]. apply IH. reflexivity.
Qed.

Lemma at_pos_nonempty_root : forall root path item A e B, at_pos root path item A e B ->
  match root with NInner _ [] => False | _ => True end.
Proof.
  intros root path item A e B H. pose proof (at_pos_abs _ _ _ _ _ _ H) as Ha.
  destruct root as [l items|l [|k kids]]; try exact I. cbn in Ha. destruct A; discriminate.
Qed.

(* a leaf's items array was changed (one entry more, or a value replaced); resetLimits from the
   leaf and split re-establish the invariant and keep the iterator on its entry *)
Lemma leaf_update_ok : forall t, 3 <= t -> forall fs l items items' (w : Z) item' A e B,
  tree_inv t (plug (NLeaf l items) fs) ->
  at_pos (NLeaf l items') [] item' A e B -> nn_zlen items' <= t + 1 ->
  zsorted ((zpre fs ++ A) ++ e :: (B ++ zpost fs)) ->
  exists s', nn_split Z nn_zcmp t (length fs)
               (nn_reset_limits Z nn_zcmp (length fs) (NNSt Z (plug (NLeaf l items') fs) (zpath fs) item' w)) = Some s' /\
    st_warn Z s' = w /\ tree_inv t (st_root Z s') /\
    at_pos (st_root Z s') (st_path Z s') (st_item Z s') (zpre fs ++ A) e (B ++ zpost fs).
Proof.
  intros t Ht fs l items items' w item' A e B Hinv Hpos Hlen Hsorted.
  destruct (at_pos_leaf_inv _ _ _ _ _ _ _ Hpos) as (_ & Hitems' & Hitem').
  assert (Hfl : nn_first_last Z (NLeaf l items') <> None).
  { rewrite first_last_leaf. apply lo_hi_some. rewrite Hitems'. destruct A; discriminate. }
  destruct (nn_first_last Z (NLeaf l items')) as [fl|] eqn:Efl; [|congruence].
  pose proof (tree_inv_root_ok _ _ Hinv) as Hok.
  assert (Hsibs : sibs_ok fs) by (apply (root_ok_sibs _ _ Hok)).
  assert (Hchain : chain_ok (NLeaf l items') fs).
  { destruct fs as [|fr fs]; [exact I|]. apply plug_ok_iff in Hok; [|discriminate].
    apply (chain_ok_lim _ (NLeaf l items)); [reflexivity|tauto]. }
  assert (Hnolim : nn_lim Z (plug (NLeaf l items') fs) = None).
  { rewrite <- (plug_lim fs (NLeaf l items) (NLeaf l items') eq_refl). apply (ti_nolim _ _ Hinv). }
  destruct (reset_limits_zip fs (NLeaf l items') (NNSt Z (plug (NLeaf l items') fs) (zpath fs) item' w) [] fl
              eq_refl (eq_sym (app_nil_r _)) Hnolim Efl Hsibs Hchain) as (a' & fs' & Hres & Hsame & Hch & Ha').
  rewrite Hres. cbn [st_path st_item st_warn].
  assert (Hlen' : length fs' = length fs) by (symmetry; apply same_sibs_length; exact Hsame).
  assert (Hpos' : at_pos a' [] item' A e B).
  { rewrite Ha'. destruct fs; [exact Hpos|apply at_pos_set_lim; exact Hpos]. }
  assert (Hok' : root_ok (plug a' fs')).
  { destruct fs as [|fr fs].
    - destruct Hsame as [Hs _]. destruct fs'; [|discriminate]. subst a'. cbn [plug] in *. split; [exact Hnolim|exact I].
    - destruct fs' as [|fr' fs']; [destruct Hsame as [Hs _]; discriminate|]. apply plug_ok_iff; [discriminate|].
      split; [subst a'; apply sub_ok_set_first_last; [exact Efl|exact I]|]. split; [apply (sibs_ok_same _ _ Hsame Hsibs)|exact Hch]. }
  pose proof (ti_size _ _ Hinv) as Hsz. apply size_ok_plug in Hsz. destruct Hsz as [_ Hfsz].
  destruct (split_ok t Ht (length fs') fs' eq_refl a' (NNSt Z (plug a' fs') (zpath fs) item' w) [] A e B)
    as (s' & Hsp & Hw & Hrok & Hsz' & Hpos2).
  - reflexivity.
  - cbn [st_path]. rewrite (same_sibs_zpath _ _ Hsame), app_nil_r. reflexivity.
  - exact Hpos'.
  - exact Hok'.
  - apply (fsize_ok_same t fs); assumption.
  - subst a'. destruct fs; reflexivity.
  - subst a'. destruct fs; cbn [arity nn_set_lim]; exact Hlen.
  - rewrite Hlen' in Hsp. exists s'. split; [exact Hsp|]. split; [exact Hw|].
    rewrite <- (same_sibs_zpre _ _ Hsame), <- (same_sibs_zpost _ _ Hsame) in Hpos2.
    split; [|exact Hpos2].
    constructor.
    + apply Hrok.
    + apply Hrok.
    + apply (at_pos_nonempty_root _ _ _ _ _ _ Hpos2).
    + rewrite (at_pos_abs _ _ _ _ _ _ Hpos2). exact Hsorted.
    + exact Hsz'.
Qed.

(* ------------------------------------------------------------------ insertFirst *)
Lemma tree_leaf_size : forall t fs l items, tree_inv t (plug (NLeaf l items) fs) -> nn_zlen items <= t.
Proof.
  intros t fs l items H. pose proof (ti_size _ _ H) as Hsz. apply size_ok_plug in Hsz.
  destruct Hsz as [Hsz _]. cbn [size_ok] in Hsz. apply Z.leb_le. exact Hsz.
Qed.

Lemma insert_first_ok : forall t, 3 <= t -> forall key v (s : zst), tree_inv t (st_root Z s) ->
  all_gt (zabs (st_root Z s)) key ->
  exists s', nn_insert_first Z nn_zcmp t key v s = Some s' /\ st_warn Z s' = st_warn Z s /\
    tree_inv t (st_root Z s') /\
    at_pos (st_root Z s') (st_path Z s') (st_item Z s') [] (key, v) (zabs (st_root Z s)).
Proof.
  intros t Ht key v s Hinv Hgt. unfold nn_insert_first.
  destruct (begin_ok t s Hinv) as [[He Hb]|(path & item & e & B & Hb & Hp)]; rewrite Hb.
  - pose proof (root_empty_leaf t _ Hinv He) as Hroot.
    unfold nn_leaf_items. cbn [st_root st_path st_warn st_with_iter length nn_get nn_upd].
    rewrite Hroot in *. cbn [nn_set_items].
    destruct (leaf_update_ok t Ht [] None [] [(key, v)] (st_warn Z s) 0 [] (key, v) []) as (s' & Hsp & Hw & Hinv' & Hpos').
    + exact Hinv.
    + apply (at_pos_leaf_intro None [] (key, v) []).
    + unfold nn_zlen. simpl. lia.
    + simpl. constructor; constructor.
    + exists s'. split; [exact Hsp|]. split; [exact Hw|]. split; [exact Hinv'|exact Hpos'].
  - destruct Hp as (fs & l & items & Hr & Hpath & Hi & Hn & HA & HB).
    symmetry in HA. apply app_eq_nil in HA. destruct HA as [Hpre Hfirst].
    assert (Hn0 : Z.to_nat item = 0%nat).
    { destruct (Z.to_nat item) as [|n'] eqn:En; [reflexivity|]. destruct items; simpl in *; discriminate. }
    assert (Hitem0 : item = 0) by lia.
    unfold nn_leaf_items. cbn [st_root st_path st_warn st_with_iter]. rewrite Hr, Hpath, get_plug, upd_plug, zpath_length.
    cbn [nn_set_items].
    rewrite Hr in Hinv.
    assert (Habs : zabs (plug (NLeaf l items) fs) = items ++ zpost fs) by (rewrite abs_plug, Hpre; reflexivity).
    destruct (leaf_update_ok t Ht fs l items ((key, v) :: items) (st_warn Z s) 0 [] (key, v) items Hinv)
      as (s' & Hsp & Hw & Hinv' & Hpos').
    + apply (at_pos_leaf_intro l [] (key, v) items).
    + pose proof (tree_leaf_size _ _ _ _ Hinv). rewrite c18_zlen_cons. lia.
    + rewrite Hpre. cbn [app]. rewrite <- Habs. apply zsorted_cons. split; [apply (ti_sorted _ _ Hinv)|].
      rewrite Hr in Hgt. exact Hgt.
    + exists s'. split; [exact Hsp|]. split; [exact Hw|]. split; [exact Hinv'|].
      eapply at_pos_eq; [exact Hpos'|rewrite Hpre; reflexivity|symmetry; exact Habs].
Qed.

(* ------------------------------------------------------------------ insertAfter *)
Lemma insert_after_ok : forall t, 3 <= t -> forall key v (s : zst) A e B, tree_inv t (st_root Z s) ->
  at_pos (st_root Z s) (st_path Z s) (st_item Z s) A e B -> fst e < key -> all_gt B key ->
  exists s', nn_insert_after Z nn_zcmp t key v s = Some s' /\ st_warn Z s' = st_warn Z s /\
    tree_inv t (st_root Z s') /\
    at_pos (st_root Z s') (st_path Z s') (st_item Z s') (A ++ [e]) (key, v) B.
Proof.
  intros t Ht key v s A e B Hinv Hpos He HB.
  pose proof (at_pos_abs _ _ _ _ _ _ Hpos) as Habs.
  pose proof (ti_sorted _ _ Hinv) as Hsorted. rewrite Habs in Hsorted.
  destruct Hpos as (fs & l & items & Hr & Hpath & Hi & Hn & HA & HBeq).
  unfold nn_insert_after. replace (st_item Z s <? 0) with false by (symmetry; apply Z.ltb_ge; lia).
  unfold nn_leaf_items. rewrite Hr, Hpath, get_plug.
  pose proof (c18_nth_lt _ _ _ Hn) as Hlt. set (n := Z.to_nat (st_item Z s)) in *.
  replace (nn_zlen items <? st_item Z s + 1) with false by (symmetry; apply Z.ltb_ge; unfold nn_zlen; lia).
  pose proof (c18_nth_split _ _ _ Hn) as Hsplit.
  set (IA := firstn n items) in *. set (IB := skipn (S n) items) in *.
  assert (HlenIA : length IA = n) by (unfold IA; rewrite firstn_length; lia).
  assert (Hins : nn_insert_at items (Z.to_nat (st_item Z s + 1)) (key, v) = IA ++ e :: (key, v) :: IB).
  { replace (Z.to_nat (st_item Z s + 1)) with (S (length IA)) by (rewrite HlenIA; unfold n; lia).
    rewrite Hsplit at 1. apply c18_insert_at_mid. }
  rewrite Hins. unfold st_with_root. rewrite upd_plug, Hpath, zpath_length. cbn [nn_set_items].
  rewrite Hr in Hinv.
  assert (Hitem : st_item Z s = nn_zlen IA) by (unfold nn_zlen; rewrite HlenIA; unfold n; lia).
  destruct (leaf_update_ok t Ht fs l items (IA ++ e :: (key, v) :: IB) (st_warn Z s) (st_item Z s) IA e ((key, v) :: IB) Hinv)
    as (s2 & Hsp & Hw & Hinv2 & Hpos2).
  - rewrite Hitem. apply at_pos_leaf_intro.
  - pose proof (tree_leaf_size _ _ _ _ Hinv) as Hsz. rewrite Hsplit in Hsz.
    rewrite c18_zlen_app, !c18_zlen_cons in *. lia.
  - rewrite <- HA. cbn [app]. rewrite <- HBeq.
    replace (A ++ e :: (key, v) :: B) with ((A ++ [e]) ++ (key, v) :: B) by (rewrite <- app_assoc; reflexivity).
    apply zsorted_insert_mid; [rewrite <- app_assoc; exact Hsorted| |exact HB].
    destruct (zsorted_mid _ _ _ Hsorted) as (HAlt & _).
    intros a Ha. apply in_app_or in Ha. destruct Ha as [Ha|[<-|[]]]; [specialize (HAlt a Ha); lia|exact He].
  - rewrite Hsp. rewrite <- HA in Hpos2. cbn [app] in Hpos2. rewrite <- HBeq in Hpos2.
    destruct (increment_fwd s2 A e ((key, v) :: B) (tree_inv_root_ok _ _ Hinv2) Hpos2) as (path3 & item3 & Hinc & _ & H3).
    eexists. split; [reflexivity|]. rewrite Hinc. cbn [st_warn st_root st_path st_item st_with_iter].
    split; [exact Hw|]. split; [exact Hinv2|]. apply H3. reflexivity.
Qed.

Lemma insert_after_end_ok : forall t, 3 <= t -> forall key v (s : zst), tree_inv t (st_root Z s) ->
  st_item Z s < 0 -> all_gt (zabs (st_root Z s)) key ->
  exists s', nn_insert_after Z nn_zcmp t key v s = Some s' /\ st_warn Z s' = st_warn Z s /\
    tree_inv t (st_root Z s') /\
    at_pos (st_root Z s') (st_path Z s') (st_item Z s') [] (key, v) (zabs (st_root Z s)).
Proof.
  intros t Ht key v s Hinv Hi Hgt. unfold nn_insert_after. apply Z.ltb_lt in Hi. rewrite Hi.
  destruct (insert_first_ok t Ht key v s Hinv Hgt) as (s1 & Hif & Hw & Hinv1 & Hpos1). rewrite Hif.
  pose proof (at_pos_abs _ _ _ _ _ _ Hpos1) as Habs1. cbn [app] in Habs1.
  cbn [st_root].
  destruct (deepen_ok true false [] (NNSt Z (st_root Z s1) [] (st_item Z s) (st_warn Z s1)) (st_root Z s1)
              (ti_kids _ _ Hinv1) ltac:(rewrite Habs1; discriminate) (nn_height Z (st_root Z s1)) [] (le_n _))
    as (gs & item & A & e' & B' & Hd & Hp & ->).
  rewrite Hd. cbn [snd]. eexists. split; [reflexivity|]. cbn [st_warn st_root st_path st_item st_with_iter].
  split; [exact Hw|]. split; [exact Hinv1|].
  pose proof (at_pos_abs _ _ _ _ _ _ Hp) as Habs2. cbn [app] in Habs2. rewrite Habs1 in Habs2.
  injection Habs2 as <- <-. rewrite app_nil_r, rev'_rzpath. exact Hp.
Qed.

(* ------------------------------------------------------------------ replacing a value *)
Lemma fst_last_map : forall (m : zmap) d, fst (last m d) = last (map fst m) (fst d).
Proof.
  induction m as [|x m IH]; intros d; [reflexivity|]. destruct m as [|y m]; [reflexivity|].
  change (fst (last (y :: m) d) = last (map fst (y :: m)) (fst d)). apply IH.
Qed.
Lemma lo_hi_keys : forall m m' : zmap, map fst m = map fst m' -> lo_hi m = lo_hi m'.
Proof.
  intros m m' H. destruct m as [|[k v] m]; destruct m' as [|[k' v'] m']; try discriminate; [reflexivity|].
  cbn [lo_hi]. rewrite !fst_last_map. rewrite H. cbn [map fst] in H. injection H as -> _. reflexivity.
Qed.

Lemma value_update_ok : forall t (s : zst) A k v0 v B, tree_inv t (st_root Z s) ->
  at_pos (st_root Z s) (st_path Z s) (st_item Z s) A (k, v0) B ->
  exists items, nn_leaf_items Z s = Some items /\
    let root' := zupd (st_root Z s) (st_path Z s)
                   (nn_set_items Z (nn_upd_nth items (Z.to_nat (st_item Z s)) (fun kv => (fst kv, v)))) in
    tree_inv t root' /\ at_pos root' (st_path Z s) (st_item Z s) A (k, v) B.
Proof.
  intros t s A k v0 v B Hinv Hpos.
  pose proof (at_pos_abs _ _ _ _ _ _ Hpos) as Habs.
  destruct Hpos as (fs & l & items & Hr & Hpath & Hi & Hn & HA & HB).
  exists items. split; [unfold nn_leaf_items; rewrite Hr, Hpath, get_plug; reflexivity|].
  cbv zeta. rewrite Hr, Hpath, upd_plug. cbn [nn_set_items].
  pose proof (c18_nth_lt _ _ _ Hn) as Hlt. set (n := Z.to_nat (st_item Z s)) in *.
  pose proof (c18_nth_split _ _ _ Hn) as Hsplit.
  set (IA := firstn n items) in *. set (IB := skipn (S n) items) in *.
  assert (HlenIA : length IA = n) by (unfold IA; rewrite firstn_length; lia).
  assert (Hupd : nn_upd_nth items n (fun kv => (fst kv, v)) = IA ++ (k, v) :: IB).
  { rewrite Hsplit at 1. rewrite <- HlenIA. rewrite c18_upd_nth_mid. reflexivity. }
  rewrite Hupd.
  assert (Hpos' : at_pos (plug (NLeaf l (IA ++ (k, v) :: IB)) fs) (zpath fs) (st_item Z s) A (k, v) B).
  { exists fs, l, (IA ++ (k, v) :: IB). fold n. rewrite <- HlenIA.
    split; [reflexivity|]. split; [reflexivity|]. split; [exact Hi|]. split; [|split].
    - rewrite nth_error_app2 by lia. rewrite Nat.sub_diag. reflexivity.
    - rewrite c18_firstn_mid. exact HA.
    - rewrite c18_skipn_mid_S. exact HB. }
  split; [|exact Hpos'].
  rewrite Hr in Hinv. pose proof (tree_inv_root_ok _ _ Hinv) as Hok.
  assert (Hkeys : map fst (IA ++ (k, v) :: IB) = map fst items).
  { transitivity (map fst (IA ++ (k, v0) :: IB)); [rewrite !map_app; reflexivity|f_equal; symmetry; exact Hsplit]. }
  constructor.
  - rewrite <- (plug_lim fs (NLeaf l items) (NLeaf l (IA ++ (k, v) :: IB)) eq_refl). apply (ti_nolim _ _ Hinv).
  - destruct fs as [|fr fs]; [exact I|].
    assert (Hr' : root_ok (plug (NLeaf l (IA ++ (k, v) :: IB)) (fr :: fs))); [|apply Hr'].
    apply plug_ok_iff in Hok; [|discriminate]. destruct Hok as (Hsa & Hsibs & Hchain).
    apply plug_ok_iff; [discriminate|]. split; [|split; [exact Hsibs|]].
    + destruct (sub_ok_lc _ Hsa) as [Hl1 Hl2]. apply sok_leaf. unfold lc in *.
      cbn [nn_lim] in *. rewrite first_last_leaf in *. rewrite (lo_hi_keys _ _ Hkeys). split; assumption.
    + apply (chain_ok_lim _ (NLeaf l items)); [reflexivity|exact Hchain].
  - apply (at_pos_nonempty_root _ _ _ _ _ _ Hpos').
  - rewrite (at_pos_abs _ _ _ _ _ _ Hpos'). pose proof (ti_sorted _ _ Hinv) as Hs. rewrite <- Hr, Habs in Hs.
    unfold zsorted in *. rewrite map_app in *. exact Hs.
  - pose proof (ti_size _ _ Hinv) as Hsz. apply size_ok_plug in Hsz. apply size_ok_plug.
    split; [|tauto]. destruct Hsz as [Hsz _]. cbn [size_ok] in *.
    replace (nn_zlen (IA ++ (k, v) :: IB)) with (nn_zlen items); [exact Hsz|].
    unfold nn_zlen. rewrite <- (map_length fst items), <- Hkeys, map_length. reflexivity.
Qed.

(* ------------------------------------------------------------------ insert *)
Lemma insert_ok : forall t, 3 <= t -> forall key v (s : zst), tree_inv t (st_root Z s) ->
  exists s' A B, nn_insert Z nn_zcmp t key v s = Some s' /\ st_warn Z s' = st_warn Z s /\
    tree_inv t (st_root Z s') /\
    at_pos (st_root Z s') (st_path Z s') (st_item Z s') A (key, v) B /\
    sm_insert Z nn_zcmp key v (zabs (st_root Z s)) = A ++ (key, v) :: B.
Proof.
  intros t Ht key v s Hinv. unfold nn_insert.
  destruct (find_ok t key true s Hinv) as (it & Hf & Hr & Hw & Hpost). rewrite Hf.
  rewrite <- Hr in Hinv, Hpost |- *. rewrite <- Hw.
  destruct Hpost as [[Hall Hi]|(A & e & B & HAeB & He & HB & Hc)].
  - rewrite (cur_none _ Hi). replace (st_item Z it <? 0) with true by (symmetry; apply Z.ltb_lt; exact Hi).
    destruct (insert_first_ok t Ht key v it Hinv Hall) as (s' & Hif & Hw' & Hinv' & Hpos').
    exists s', [], (zabs (st_root Z it)). split; [exact Hif|]. split; [exact Hw'|]. split; [exact Hinv'|].
    split; [exact Hpos'|]. destruct (sm_before_all _ _ Hall) as (_ & _ & H3 & _). apply H3.
  - destruct Hc as [[_ Hpos]|(_ & Hp & _)]; [|discriminate].
    rewrite (at_pos_cur it A e B Hpos). destruct e as [k v0]. cbn [fst] in He.
    pose proof (ti_sorted _ _ Hinv) as Hsorted. rewrite HAeB in Hsorted.
    unfold nn_zcmp. destruct (Z.compare_spec key k) as [Heq|Hlt|Hgt]; [|lia|].
    + subst k. destruct (value_update_ok t it A key v0 v B Hinv Hpos) as (items & Hli & Hinv' & Hpos').
      rewrite Hli. eexists _, A, B. split; [reflexivity|]. unfold st_with_root. cbn [st_warn st_root st_path st_item].
      split; [reflexivity|]. split; [exact Hinv'|]. split; [exact Hpos'|].
      rewrite HAeB. apply (sm_insert_mid_same A (key, v0) B Hsorted v).
    + destruct (insert_after_ok t Ht key v it A (k, v0) B Hinv Hpos Hgt HB) as (s' & Hia & Hw' & Hinv' & Hpos').
      exists s', (A ++ [(k, v0)]), B. split; [exact Hia|]. split; [exact Hw'|]. split; [exact Hinv'|].
      split; [exact Hpos'|]. rewrite HAeB. apply (sm_insert_after_mid A (k, v0) B Hsorted key v Hgt HB).
Qed.

(* M2: insert from any valid tree with the iterator anywhere, including every split up to the
   root push-down: same result as the sorted map, invariant kept, no warning *)
Lemma nn_insert_refines_lemma : forall (t : Z) (s : nnst Z) (m : smst Z) (k v : Z),
  3 <= t -> c18_rel t s m -> c18_step_ok t (OpInsert k v) s m.
Proof.
  intros t s m k v Ht (Hinv & Hmap & Hun & Hcur).
  destruct (insert_ok t Ht k v s Hinv) as (s' & A & B & Hins & Hw & Hinv' & Hpos & Hsm).
  unfold c18_step_ok.
  change (nn_step Z nn_zcmp t (OpInsert k v) s) with
    (match nn_insert Z nn_zcmp t k v s with Some s' => (RIter (nn_cur Z s'), s') | None => (RErr, s) end).
  change (sm_step Z nn_zcmp (OpInsert k v) m) with
    (RIter (Some (k, v)), SmSt Z (sm_insert Z nn_zcmp k v (sm_map Z m)) (option_map fst (Some (k, v))) (sm_unspec Z m)).
  rewrite Hins. cbn [fst snd]. rewrite (at_pos_cur s' A (k, v) B Hpos).
  split; [reflexivity|]. split; [|exact Hw].
  split; [exact Hinv'|]. split; [cbn [sm_map]; rewrite Hmap, Hsm; symmetry; apply (at_pos_abs _ _ _ _ _ _ Hpos)|].
  split; [exact Hun|]. right. exists A, (k, v), B. split; [exact Hpos|reflexivity].
Qed.

Lemma sorted_first_all_gt : forall (m : zmap) k, zsorted m ->
  match sm_first Z m with Some (f, _) => k_lt Z nn_zcmp k f | None => true end = true -> all_gt m k.
Proof.
  intros [|[f vf] m] k Hs H; [intros ? []|]. cbn [sm_first hd_error] in H. apply zklt_true in H.
  apply zsorted_cons in Hs. destruct Hs as [_ Hx]. intros b [<-|Hb]; [exact H|]. specialize (Hx b Hb). simpl in Hx. lia.
Qed.

(* insertAfter through the current iterator, wherever the specification defines it *)
Lemma nn_insert_after_refines_lemma : forall (t : Z) (s : nnst Z) (m : smst Z) (k v : Z),
  3 <= t -> c18_rel t s m -> sm_unspec Z (snd (sm_step Z nn_zcmp (OpInsAfter k v) m)) = false ->
  c18_step_ok t (OpInsAfter k v) s m.
Proof.
  intros t s m k v Ht (Hinv & Hmap & Hun & Hcur) Hspec.
  pose proof (ti_sorted _ _ Hinv) as Hsorted.
  unfold c18_step_ok.
  change (nn_step Z nn_zcmp t (OpInsAfter k v) s) with
    (match nn_insert_after Z nn_zcmp t k v s with Some s' => (RIter (nn_cur Z s'), s') | None => (RErr, s) end).
  unfold sm_step in *.
  destruct Hcur as [[Hi Hc]|(A & e & B & Hpos & Hc)]; rewrite Hc in *.
  - destruct (match sm_first Z (sm_map Z m) with Some (f, _) => k_lt Z nn_zcmp k f | None => true end) eqn:Efits;
      [|cbn in Hspec; discriminate].
    rewrite Hmap in Efits. pose proof (sorted_first_all_gt _ k Hsorted Efits) as Hall.
    destruct (insert_after_end_ok t Ht k v s Hinv Hi Hall) as (s' & Hia & Hw & Hinv' & Hpos').
    rewrite Hia. cbn [fst snd]. rewrite (at_pos_cur s' [] (k, v) _ Hpos').
    split; [reflexivity|]. split; [|exact Hw].
    split; [exact Hinv'|]. split.
    { cbn [sm_map]. rewrite Hmap. destruct (sm_before_all _ _ Hall) as (_ & _ & H3 & _). rewrite H3.
      symmetry. apply (at_pos_abs _ _ _ _ _ _ Hpos'). }
    split; [exact Hun|]. right. exists [], (k, v), (zabs (st_root Z s)). split; [exact Hpos'|reflexivity].
  - pose proof (at_pos_abs _ _ _ _ _ _ Hpos) as Habs. rewrite Habs in Hsorted.
    assert (Hsucc : sm_succ Z nn_zcmp (fst e) (sm_map Z m) = hd_error B)
      by (rewrite Hmap, Habs; apply sm_succ_mid; exact Hsorted).
    rewrite Hsucc in *.
    destruct (k_lt Z nn_zcmp (fst e) k && match hd_error B with Some (n, _) => k_lt Z nn_zcmp k n | None => true end) eqn:Efits;
      [|cbn in Hspec; discriminate].
    apply andb_true_iff in Efits. destruct Efits as [E1 E2]. apply zklt_true in E1.
    assert (HB : all_gt B k).
    { destruct (zsorted_mid _ _ _ Hsorted) as (_ & _ & _ & HsB). apply (sorted_first_all_gt B k HsB). exact E2. }
    destruct (insert_after_ok t Ht k v s A e B Hinv Hpos E1 HB) as (s' & Hia & Hw & Hinv' & Hpos').
    rewrite Hia. cbn [fst snd]. rewrite (at_pos_cur s' _ (k, v) B Hpos').
    split; [reflexivity|]. split; [|exact Hw].
    split; [exact Hinv'|]. split.
    { cbn [sm_map]. rewrite Hmap, Habs. rewrite (sm_insert_after_mid A e B Hsorted k v E1 HB).
      symmetry. apply (at_pos_abs _ _ _ _ _ _ Hpos'). }
    split; [exact Hun|]. right. exists (A ++ [e]), (k, v), B. split; [exact Hpos'|reflexivity].
Qed.
