(* ISO 32000-1 Annex F (Linearized PDF), as an executable checker of a file's bytes.
   Written from the standard on top of the strict reader (File/ReadStrict.v), which supplies every
   object with its exact offset and end. Nothing here is shared with the model of qpdf's
   linearization code (Lin/Hints.v) except the record types of Lin/HintTypes.v.

   F.2/Table F.1  linearization parameter dictionary: first object, within the first 1024 bytes,
                  /Linearized, /L, /H, /O, /E, /N, /T (all direct)
   F.3            parts: first-page cross-reference section and first-page objects precede /E
   F.4            hint stream; Tables F.3/F.4 page offset hint table, F.5/F.6 shared object hint
                  table, F.7 generic (outline) hint table; bit fields most significant bit first,
                  every group of like items ("row") starts on a byte boundary.
   Offsets in hint tables count as if the primary hint stream were absent (F.4.1): an offset at or
   beyond the hint stream's own offset stands for that offset plus the hint stream's length.

   The result is a list of failed clauses (code, a, b); lin_ok = no failed clause.
   Variants of clauses 12 / 35 by the kinds of users of the offending object: 212 = also reached from
   /Outlines (not opened with the document), 112 = the same for an object stream holding the needed
   object, 312 = an object stream without outline users; 235 = also reached from a catalog key other
   than /Pages and the open-document keys or from a trailer key, 135 = the same for an object stream
   (which may also hold page tree nodes),
   335 = an object stream without such users; 412 / 435 = also reached from the /Thumb of the SAME page
   (first page / later page), 635 = also reached from the /Thumb of ANOTHER page; 512 / 535 = a page-tree node (or what it holds) from which the page still INHERITS
   /Resources, /MediaBox, /CropBox or /Rotate through /Parent (7.7.3.4): the page cannot be shown without it. *)
From Coq Require Import String Ascii.
From QV Require Import Base.Bytes File.StrictSyntax File.Inflate File.ReadStrict Lin.HintTypes.
Local Open Scope N_scope.

Definition af_str (s : string) : list N := map (fun a => N_of_ascii a) (list_ascii_of_string s).
Definition afn_Linearized := Eval vm_compute in af_str "Linearized".
Definition afn_L := Eval vm_compute in af_str "L".
Definition afn_H := Eval vm_compute in af_str "H".
Definition afn_O := Eval vm_compute in af_str "O".
Definition afn_E := Eval vm_compute in af_str "E".
Definition afn_N := Eval vm_compute in af_str "N".
Definition afn_T := Eval vm_compute in af_str "T".
Definition afn_S := Eval vm_compute in af_str "S".
Definition afn_Page := Eval vm_compute in af_str "Page".
Definition afn_Pages := Eval vm_compute in af_str "Pages".
Definition afn_Kids := Eval vm_compute in af_str "Kids".
Definition afn_Parent := Eval vm_compute in af_str "Parent".
Definition afn_Thumb := Eval vm_compute in af_str "Thumb".
Definition afn_Outlines := Eval vm_compute in af_str "Outlines".
Definition afn_PageMode := Eval vm_compute in af_str "PageMode".
Definition afn_UseOutlines := Eval vm_compute in af_str "UseOutlines".
Definition afn_Encrypt := Eval vm_compute in af_str "Encrypt".
(* catalog entries needed when the document is opened (F.3.3, part 4) *)
Definition afn_open_document_keys : list (list N) :=
  Eval vm_compute in map af_str ["ViewerPreferences"; "PageMode"; "Threads"; "OpenAction"; "AcroForm"]%string.

(* inheritable page attributes (ISO 32000-1 7.7.3.4, Table 30) *)
Definition afn_inheritable_keys : list (list N) :=
  Eval vm_compute in map af_str ["Resources"; "MediaBox"; "CropBox"; "Rotate"]%string.

(* ------------------------------------------------------------------ bit fields, MSB first *)
Fixpoint af_byte_bits (n : nat) (b : N) : list bool :=
  match n with
  | O => []
  | S k => N.testbit b (N.of_nat k) :: af_byte_bits k b
  end.
Fixpoint af_bits (l : list N) : list bool :=
  match l with
  | [] => []
  | b :: t => af_byte_bits 8 b ++ af_bits t
  end.

(* an unsigned field of w bits *)
Fixpoint af_field (w : nat) (bs : list bool) (acc : N) : option (N * list bool) :=
  match w with
  | O => Some (acc, bs)
  | S k => match bs with
           | [] => None
           | b :: t => af_field k t (2 * acc + (if b then 1 else 0))
           end
  end.

Fixpoint af_fields (k : nat) (w : nat) (bs : list bool) : option (list N * list bool) :=
  match k with
  | O => Some ([], bs)
  | S k' => match af_field w bs 0 with
            | None => None
            | Some (v, r) => match af_fields k' w r with
                             | Some (vs, r') => Some (v :: vs, r')
                             | None => None
                             end
            end
  end.

(* a row: k items of w bits each, starting on a byte boundary; the next row starts on the next one *)
Definition af_row (k : nat) (w : N) (bytes : list N) : option (list N * list N) :=
  let nb := N.to_nat ((N.of_nat k * w + 7) / 8) in
  match take_n nb bytes with
  | None => None
  | Some (rowb, rest) =>
      match af_fields k (N.to_nat w) (af_bits rowb) with
      | Some (vs, _) => Some (vs, rest)
      | None => None
      end
  end.

(* header: items of 32 or 16 bits (widths given in bytes); the header ends on a byte boundary *)
Fixpoint af_hfields (widths : list nat) (bs : list bool) : option (list N) :=
  match widths with
  | [] => Some []
  | w :: t => match af_field (8 * w) bs 0 with
              | None => None
              | Some (v, r) => match af_hfields t r with
                               | Some vs => Some (v :: vs)
                               | None => None
                               end
              end
  end.

Definition af_us (widths : list nat) (bytes : list N) : option (list N * list N) :=
  match take_n (fold_right Nat.add 0%nat widths) bytes with
  | None => None
  | Some (h, r) => match af_hfields widths (af_bits h) with
                   | Some vs => Some (vs, r)
                   | None => None
                   end
  end.

(* split a flat list by counts *)
Fixpoint af_split (counts : list N) (l : list N) : list (list N) :=
  match counts with
  | [] => []
  | c :: t => firstn (N.to_nat c) l :: af_split t (skipn (N.to_nat c) l)
  end.
Definition af_sum (l : list N) : N := fold_left N.add l 0.

(* per-page / per-group entries from the rows *)
Fixpoint af_zip_page (a b c : list N) (d e : list (list N)) (f g : list N) : list hp_entry :=
  match a, b, c, d, e, f, g with
  | a1 :: a', b1 :: b', c1 :: c', d1 :: d', e1 :: e', f1 :: f', g1 :: g' =>
      {| pe_nobjects_delta := a1; pe_length_delta := b1; pe_nshared := c1; pe_identifiers := d1;
         pe_numerators := e1; pe_content_offset_delta := f1; pe_content_length_delta := g1 |} :: af_zip_page a' b' c' d' e' f' g'
  | _, _, _, _, _, _, _ => []
  end.

Fixpoint af_zip_shared (a b c : list N) : list hs_entry :=
  match a, b, c with
  | a1 :: a', b1 :: b', c1 :: c' => {| se_length_delta := a1; se_signature := b1; se_nobjects_m1 := c1 |} :: af_zip_shared a' b' c'
  | _, _, _ => []
  end.

(* Table F.3 + F.4. npages comes from /N. Returns the table and the remaining bytes. *)
Definition af_decode_page_table (npages : nat) (bytes : list N) : option (hp_table * list N) :=
  match af_us [4; 4; 2; 4; 2; 4; 2; 4; 2; 2; 2; 2; 2]%nat bytes with
  | Some ([i1; i2; i3; i4; i5; i6; i7; i8; i9; i10; i11; i12; i13], r0) =>
      if (32 <? i3) || (32 <? i5) || (32 <? i7) || (32 <? i9) || (32 <? i10) || (32 <? i11) || (32 <? i12) then None else
      match af_row npages i3 r0 with None => None | Some (nobj, r1) =>
      match af_row npages i5 r1 with None => None | Some (lens, r2) =>
      match af_row npages i10 r2 with None => None | Some (nsh, r3) =>
      let tot := N.to_nat (af_sum nsh) in
      match af_row tot i11 r3 with None => None | Some (ids, r4) =>
      match af_row tot i12 r4 with None => None | Some (nums, r5) =>
      match af_row npages i7 r5 with None => None | Some (coff, r6) =>
      match af_row npages i9 r6 with None => None | Some (clen, r7) =>
        let idl := af_split nsh ids in
        let numl := af_split nsh nums in
        Some ({| hp_min_nobjects := i1; hp_first_page_offset := i2; hp_bits_nobjects := i3; hp_min_length := i4;
                 hp_bits_length := i5; hp_min_content_offset := i6; hp_bits_content_offset := i7;
                 hp_min_content_length := i8; hp_bits_content_length := i9; hp_bits_nshared := i10;
                 hp_bits_identifier := i11; hp_bits_numerator := i12; hp_denominator := i13;
                 hp_entries := af_zip_page nobj lens nsh idl numl coff clen |}, r7)
      end end end end end end end
  | _ => None
  end.

(* Table F.5 + F.6. A set signature flag is followed (item 3) by a 16-byte MD5 in the next row. *)
Definition af_decode_shared_table (bytes : list N) : option (hs_table * list N) :=
  match af_us [4; 4; 4; 4; 2; 4; 2]%nat bytes with
  | Some ([i1; i2; i3; i4; i5; i6; i7], r0) =>
      if (32 <? i5) || (32 <? i7) then None else
      let n := N.to_nat i4 in
      match af_row n i7 r0 with None => None | Some (lens, r1) =>
      match af_row n 1 r1 with None => None | Some (sigs, r2) =>
      match take_n (16 * N.to_nat (af_sum sigs)) r2 with None => None | Some (_, r3) =>
      match af_row n i5 r3 with None => None | Some (nobj, r4) =>
        Some ({| hs_first_obj := i1; hs_first_offset := i2; hs_nfirst := i3; hs_ntotal := i4; hs_bits_nobjects := i5;
                 hs_min_length := i6; hs_bits_length := i7; hs_entries := af_zip_shared lens sigs nobj |}, r4)
      end end end end
  | _ => None
  end.

(* Table F.7 *)
Definition af_decode_generic_table (bytes : list N) : option (hg_table * list N) :=
  match af_us [4; 4; 4; 4]%nat bytes with
  | Some ([a; b; c; d], r) => Some ({| hg_first_obj := a; hg_first_offset := b; hg_nobjects := c; hg_length := d |}, r)
  | _ => None
  end.

(* the hint stream's decoded data: page table at 0, shared table at /S, outline table at /O *)
Definition af_decode_hints (npages : nat) (data : list N) (sOff : N) (oOff : option N)
  : option (hp_table * hs_table * option hg_table * (N * N * N)) :=
  let total := N.of_nat (length data) in
  match af_decode_page_table npages data with
  | None => None
  | Some (hp, r1) =>
      let end_p := total - N.of_nat (length r1) in
      match af_decode_shared_table (skipn (N.to_nat sOff) data) with
      | None => None
      | Some (hs, r2) =>
          let end_s := total - N.of_nat (length r2) in
          match oOff with
          | None => Some (hp, hs, None, (end_p, end_s, 0))
          | Some o =>
              match af_decode_generic_table (skipn (N.to_nat o) data) with
              | None => None
              | Some (hg, r3) => Some (hp, hs, Some hg, (end_p, end_s, total - N.of_nat (length r3)))
              end
          end
      end
  end.

(* ------------------------------------------------------------------ the object graph *)
Definition af_find (objs : list sobj) (n : N) : option sobj := find (fun o => so_num o =? n) objs.
Definition af_off (o : sobj) : option N := match so_where o with XInUse off _ => Some off | _ => None end.
(* the object that physically holds n: its object stream when it is compressed *)
Definition af_container (objs : list sobj) (n : N) : N :=
  match af_find objs n with
  | Some o => match so_where o with XComp s _ => s | _ => n end
  | None => n
  end.

Fixpoint af_refs (o : pobj) : list N :=
  match o with
  | SpRef n _ => [n]
  | SpArr l => (fix go (l : list pobj) : list N := match l with [] => [] | x :: t => af_refs x ++ go t end) l
  | SpDict d => (fix go (d : list (list N * pobj)) : list N := match d with [] => [] | (_, x) :: t => af_refs x ++ go t end) d
  | _ => []
  end.

Definition af_refs_skip (skip : list (list N)) (o : pobj) : list N :=
  match o with
  | SpDict d => flat_map (fun kv => if existsb (beq (fst kv)) skip then [] else af_refs (snd kv)) d
  | _ => af_refs o
  end.

Definition af_has_type (t : list N) (v : pobj) : bool :=
  match v with
  | SpDict d => match dict_get d n_Type with Some (SpName x) => beq x t | _ => false end
  | _ => false
  end.

Definition af_mem (n : N) (l : list N) : bool := existsb (N.eqb n) l.

(* everything reachable without entering a page object *)
Fixpoint af_closure (fuel : nat) (objs : list sobj) (work seen : list N) : list N :=
  match fuel with
  | O => seen
  | S f =>
      match work with
      | [] => seen
      | n :: w =>
          if af_mem n seen then af_closure f objs w seen else
          match af_find objs n with
          | None => af_closure f objs w seen
          | Some o =>
              if af_has_type afn_Page (so_val o) then af_closure f objs w seen
              else af_closure f objs (af_refs (so_val o) ++ w) (n :: seen)
          end
      end
  end.

(* what page p needs (F.3.4 "all objects that the page references ... recursively", the thumbnail and the
   page's ancestors excluded, other pages not entered) *)
Definition af_page_needs (fuel : nat) (objs : list sobj) (p : N) : list N :=
  match af_find objs p with
  | Some o => af_closure fuel objs (af_refs_skip [afn_Parent; afn_Thumb] (so_val o)) [p]
  | None => [p]
  end.

(* ---- inherited page attributes (7.7.3.4): a page that has no entry for an inheritable key takes the value of the nearest
   ancestor that has one. What the page needs THROUGH /Parent is then: that ancestor node (its dictionary must be read) and
   everything the inherited value references. Intermediate nodes that contribute nothing are not counted. ---- *)
Definition af_dict_has (d : list (list N * pobj)) (k : list N) : bool :=
  match dict_get d k with Some SpNull => false | Some _ => true | None => false end.

Definition af_parent_of (d : list (list N * pobj)) : option N :=
  match dict_get d afn_Parent with Some (SpRef n _) => Some n | _ => None end.

(* (node, key, value) for every key of [missing] settled on the way up *)
Fixpoint af_inh_walk (fuel : nat) (objs : list sobj) (node : option N) (missing : list (list N)) : list (N * pobj) :=
  match fuel with
  | O => []
  | S f =>
      match node, missing with
      | None, _ => []
      | _, [] => []
      | Some n, _ =>
          match af_find objs n with
          | Some o =>
              match so_val o with
              | SpDict d =>
                  flat_map (fun k => if af_dict_has d k then match dict_get d k with Some v => [(n, v)] | None => [] end else []) missing ++
                  af_inh_walk f objs (af_parent_of d) (filter (fun k => negb (af_dict_has d k)) missing)
              | _ => []
              end
          | None => []
          end
      end
  end.

Definition af_page_inherits (fuel : nat) (objs : list sobj) (p : N) : list (N * pobj) :=
  match af_find objs p with
  | Some o => match so_val o with
              | SpDict d => af_inh_walk fuel objs (af_parent_of d) (filter (fun k => negb (af_dict_has d k)) afn_inheritable_keys)
              | _ => []
              end
  | None => []
  end.

(* the objects page p needs through inheritance: the supplying nodes and what the inherited values reach *)
Definition af_page_inh_needs (fuel : nat) (objs : list sobj) (p : N) : list N :=
  flat_map (fun nv => fst nv :: af_closure fuel objs (af_refs (snd nv)) []) (af_page_inherits fuel objs p).

Definition af_dedup (l : list N) : list N := fold_left (fun acc n => if af_mem n acc then acc else n :: acc) l [].

(* leaves of the page tree in order; None when a node cannot be read (encrypted object stream) *)
Fixpoint af_pages (fuel : nat) (objs : list sobj) (node : N) : option (list N) :=
  match fuel with
  | O => None
  | S f =>
      match af_find objs node with
      | None => None
      | Some o =>
          if af_has_type afn_Page (so_val o) then Some [node] else
          if af_has_type afn_Pages (so_val o) then
            match so_val o with
            | SpDict d =>
                match dict_get d afn_Kids with
                | Some (SpArr kids) =>
                    (fix go (ks : list pobj) : option (list N) :=
                       match ks with
                       | [] => Some []
                       | SpRef k _ :: t => match af_pages f objs k, go t with
                                          | Some a, Some b => Some (a ++ b)
                                          | _, _ => None
                                          end
                       | _ => None
                       end) kids
                | _ => None
                end
            | _ => None
            end
          else None
      end
  end.

(* ------------------------------------------------------------------ helpers on bytes *)
Definition af_is_sp (c : N) : bool := (c =? 32) || (c =? 10) || (c =? 13).
Fixpoint af_skip_sp (s : list N) : list N :=
  match s with c :: t => if af_is_sp c then af_skip_sp t else s | [] => [] end.
Definition af_all_sp (s : list N) : bool := forallb af_is_sp s.
Definition af_slice (file : list N) (a b : N) : list N := firstn (N.to_nat (b - a)) (at_off file a).

(* x states the end [e] of something whose end-of-line is optional: x = e, or x is at most 2 before e
   and only white space lies between *)
Definition af_end_matches (file : list N) (x e : N) : bool :=
  (x =? e) || ((x <? e) && (e <=? x + 2) && af_all_sp (af_slice file x e)).

Definition af_size (o : sobj) : N := match af_off o with Some a => so_end o - a | None => 0 end.

(* n consecutive object numbers from [first]: all in use, physically contiguous; total byte length *)
Fixpoint af_run (objs : list sobj) (first : N) (n : nat) (pos : option N) : option N :=
  match n with
  | O => Some 0
  | S k =>
      match af_find objs first with
      | None => None
      | Some o =>
          match af_off o with
          | None => None
          | Some a =>
              if match pos with Some p => negb (p =? a) | None => false end then None else
              match af_run objs (first + 1) k (Some (so_end o)) with
              | Some l => Some (so_end o - a + l)
              | None => None
              end
          end
      end
  end.

Definition af_seqN (first : N) (n : N) : list N := map (fun i => first + N.of_nat i) (seq 0 (N.to_nat n)).

Record af_report := {
  ar_errors : list (N * N * N);
  ar_notes : list (N * N * N);          (* clauses not judged, with the reason code; (50, page index, node): the page inherits an attribute from that node *)
  ar_params : list N;                   (* L H0 H1 O E N T *)
  ar_hint_data : list N;
  ar_hint_SO : N * N;
  ar_tables : option (hp_table * hs_table * option hg_table);
  ar_pages : list N;                    (* page objects in document order *)
  ar_measured : list (N * N * list N)   (* per page: objects in its run, byte length, shared objects (containers) it needs *)
}.

Definition af_empty_report (errs : list (N * N * N)) : af_report :=
  {| ar_errors := errs; ar_notes := []; ar_params := []; ar_hint_data := []; ar_hint_SO := (0, 0); ar_tables := None;
     ar_pages := []; ar_measured := [] |}.

Definition af_getN (d : list (list N * pobj)) (k : list N) : option N := get_int d k.

(* F.4.1: an offset in a hint table, made absolute *)
Definition af_adjust (h0 h1 x : N) : N := if h0 <=? x then x + h1 else x.

Definition af_err (c a b : N) : list (N * N * N) := [(c, a, b)].
Definition af_when (c : bool) (e : list (N * N * N)) : list (N * N * N) := if c then e else [].

(* ---- hint-table clauses ---- *)
Section HintClauses.
  Variable file : list N.
  Variable objs : list sobj.
  Variables (h0 h1 : N).                  (* /H *)
  Variable pages : list N.                (* page objects *)
  Variable needs : list (list N).         (* per page: containers of what it needs (references and inherited attributes) *)
  Variable inh_only : list (list N).      (* per page: containers needed only because an attribute is inherited through /Parent *)
  Variable outline_set : list N.          (* containers of what /Outlines reaches *)
  Variable doclevel_set : list N.         (* containers of what catalog keys other than /Pages and the open-document keys, and trailer keys, reach *)
  Variable thumb_sets : list (list N).    (* per page: containers of what the page's own /Thumb reaches *)
  Variable pagestree_set : list N.        (* containers of the page tree nodes (catalog /Pages, pages not entered) *)
  Variable use_outlines : bool.
  Variable first_page_obj_off : N.

  Definition af_count_users (c : N) (from : nat) : nat :=
    length (filter (fun l => af_mem c l) (skipn from needs)).

  (* objects of the shared table: index -> first object of the group *)
  Fixpoint af_shared_objs (entries : list hs_entry) (idx : N) (nfirst first_page_obj first_shared_obj cur : N) : list (N * N * N) :=
    match entries with
    | [] => []
    | e :: t =>
        let cur' := if idx =? nfirst then first_shared_obj else cur in
        (idx, cur', se_nobjects_m1 e + 1) :: af_shared_objs t (idx + 1) nfirst first_page_obj first_shared_obj (cur' + se_nobjects_m1 e + 1)
    end.

  Definition af_lookup_shared (tbl : list (N * N * N)) (idx : N) : option (N * N) :=
    match find (fun x => fst (fst x) =? idx) tbl with Some (_, o, n) => Some (o, n) | None => None end.

  Fixpoint af_page_clauses (i : N) (ps : list N) (es : list hp_entry) (nds : list (list N)) (hp : hp_table)
      (expect_obj expect_off : option N) (stbl : list (N * N * N)) (shared_all : list N)
      : list (N * N * N) * list (N * N * list N) :=
    match ps, es, nds with
    | p :: ps', e :: es', nd :: nds' =>
        let nobj := hp_min_nobjects hp + pe_nobjects_delta e in
        let len := hp_min_length hp + pe_length_delta e in
        let range := af_seqN p nobj in
        let off := match af_find objs p with Some o => match af_off o with Some a => a | None => 0 end | None => 0 end in
        let e23 := match expect_obj with Some x => af_when (negb (x =? p)) (af_err 23 i x) | None => [] end in
        let e26 := match expect_off with Some x => af_when (negb (x =? off)) (af_err 26 i x) | None => [] end in
        let run := af_run objs p (N.to_nat nobj) None in
        let e24 := match run with
                   | None => af_err 24 i nobj
                   | Some l => af_when (negb (l =? len)) (af_err 25 i l)
                   end in
        (* every object of the run belongs to this page (page 0: or to the outlines when they open with the document) *)
        let e27 := flat_map (fun c =>
                      if i =? 0 then af_when (negb (af_mem c nd || (use_outlines && af_mem c outline_set))) (af_err 27 i c)
                      else af_when (negb (af_mem c nd) || negb (Nat.eqb (af_count_users c 0) 1)) (af_err 27 i c)) range in
        let listed := flat_map (fun idx => match af_lookup_shared stbl idx with
                                           | Some (o, n) => af_seqN o n
                                           | None => [0] end) (pe_identifiers e) in
        let e28 := af_when ((i =? 0) && negb (pe_nshared e =? 0)) (af_err 28 i (pe_nshared e)) in
        let e29 := if i =? 0 then [] else
                   flat_map (fun c => af_when (negb (af_mem c nd)) (af_err 29 i c)) listed ++
                   flat_map (fun c => af_when (af_mem c shared_all && negb (af_mem c listed)) (af_err 29 i c)) nd in
        let e35 := if i =? 0 then [] else
                   flat_map (fun c => if af_mem c range || af_mem c shared_all then [] else
                                      match af_find objs c with
                                      | Some o => match af_off o with
                                                  | Some a => af_when (first_page_obj_off <=? a)
                                                                (af_err (if af_mem c (nth (N.to_nat i) inh_only []) then 535
                                                                         else if af_has_type n_ObjStm (so_val o)
                                                                         then (if af_mem c doclevel_set || af_mem c pagestree_set then 135 else 335)
                                                                         else if af_mem c doclevel_set then 235
                                                                         else if af_mem c (nth (N.to_nat i) thumb_sets []) then 435
                                                                         else if existsb (af_mem c) thumb_sets then 635 else 35) i c)
                                                  | None => []
                                                  end
                                      | None => []
                                      end) nd in
        let e36 := af_when (negb (N.of_nat (length (pe_identifiers e)) =? pe_nshared e)) (af_err 36 i (pe_nshared e)) in
        let next_obj := if i =? 0 then 1 else p + nobj in
        let '(errs, meas) := af_page_clauses (i + 1) ps' es' nds' hp (Some next_obj) (Some (off + len)) stbl shared_all in
        (e23 ++ e26 ++ e24 ++ e27 ++ e28 ++ e29 ++ e35 ++ e36 ++ errs,
         (nobj, match run with Some l => l | None => 0 end, filter (fun c => af_mem c shared_all) nd) :: meas)
    | _, _, _ => ([], [])
    end.

  Fixpoint af_shared_clauses (tbl : list (N * N * N)) (es : list hs_entry) (hs : hs_table) (pos : option N) : list (N * N * N) :=
    match tbl, es with
    | (idx, o, n) :: tbl', e :: es' =>
        let pos' := if idx =? hs_nfirst hs then None else pos in
        match af_run objs o (N.to_nat n) pos' with
        | None => af_err 32 idx 0 ++ af_shared_clauses tbl' es' hs None
        | Some l =>
            af_when (negb (l =? hs_min_length hs + se_length_delta e)) (af_err 32 idx l) ++
            (if hs_nfirst hs <=? idx then
               flat_map (fun c => af_when (af_mem c (hd [] needs) || (af_count_users c 1 <? 2)%nat) (af_err 34 idx c)) (af_seqN o n)
             else []) ++
            af_shared_clauses tbl' es' hs
              (match af_find objs (o + n - 1) with Some x => Some (so_end x) | None => None end)
        end
    | _, _ => []
    end.

  Definition af_hint_clauses (pO : N) (hp : hp_table) (hs : hs_table) (hg : option hg_table) (ends : N * N * N) (sOff : N) (Oo : option N)
      : list (N * N * N) * list (N * N * list N) :=
    let '(end_p, end_s, end_o) := ends in
    let stbl := af_shared_objs (hs_entries hs) 0 (hs_nfirst hs) pO (hs_first_obj hs) pO in
    let shared_all := flat_map (fun x => match x with (_, o, n) => af_seqN o n end) stbl in
    let e22 := af_when (negb (af_adjust h0 h1 (hp_first_page_offset hp) =? first_page_obj_off)) (af_err 22 first_page_obj_off (af_adjust h0 h1 (hp_first_page_offset hp))) in
    let e21 := af_when (negb (Nat.eqb (length (hp_entries hp)) (length pages))) (af_err 21 (N.of_nat (length (hp_entries hp))) 0) in
    let '(pe, meas) := af_page_clauses 0 pages (hp_entries hp) needs hp None None stbl shared_all in
    let e45 := af_when ((sOff <? end_p) || match Oo with Some o => o <? end_s | None => false end) (af_err 45 sOff end_p) in
    let e30 := af_when (negb (N.of_nat (length (hs_entries hs)) =? hs_ntotal hs) || (hs_ntotal hs <? hs_nfirst hs)) (af_err 30 (hs_ntotal hs) (hs_nfirst hs)) in
    (* the first page's shared-object entries cover exactly the first page's objects *)
    let n0 := match hp_entries hp with e :: _ => hp_min_nobjects hp + pe_nobjects_delta e | [] => 0 end in
    let nfirst_objs := af_sum (map (fun x => snd x) (filter (fun x => fst (fst x) <? hs_nfirst hs) stbl)) in
    let e31 := af_when (negb (nfirst_objs =? n0)) (af_err 31 n0 nfirst_objs) in
    let e33 := if hs_nfirst hs <? hs_ntotal hs then
                 match af_find objs (hs_first_obj hs) with
                 | Some o => match af_off o with
                             | Some a => af_when (negb (af_adjust h0 h1 (hs_first_offset hs) =? a)) (af_err 33 a (af_adjust h0 h1 (hs_first_offset hs)))
                             | None => af_err 33 0 (hs_first_obj hs)
                             end
                 | None => af_err 33 0 (hs_first_obj hs)
                 end
               else [] in
    let se := af_shared_clauses stbl (hs_entries hs) hs None in
    let oe := match hg with
              | None => []
              | Some g =>
                  match af_find objs (hg_first_obj g) with
                  | None => af_err 41 0 (hg_first_obj g)
                  | Some o =>
                      match af_off o with
                      | None => af_err 41 0 (hg_first_obj g)
                      | Some a =>
                          af_when (negb (af_adjust h0 h1 (hg_first_offset g) =? a)) (af_err 42 a (af_adjust h0 h1 (hg_first_offset g))) ++
                          match af_run objs (hg_first_obj g) (N.to_nat (hg_nobjects g)) None with
                          | None => af_err 43 0 (hg_nobjects g)
                          | Some l => af_when (negb (l =? hg_length g)) (af_err 43 l (hg_length g))
                          end ++
                          flat_map (fun c => af_when (negb (af_mem c outline_set)) (af_err 44 c 0)) (af_seqN (hg_first_obj g) (hg_nobjects g)) ++
                          flat_map (fun c => af_when (negb (af_mem c (af_seqN (hg_first_obj g) (hg_nobjects g)))) (af_err 44 c 1)) outline_set
                      end
                  end
              end in
    (e21 ++ e22 ++ pe ++ e45 ++ e30 ++ e31 ++ e33 ++ se ++ oe, meas).
End HintClauses.

(* ------------------------------------------------------------------ the checker *)
Definition lin_check (file : list N) : af_report :=
  let total := N.of_nat (length file) in
  let fuel := length file in
  match read_strict file with
  | RsErr c a => af_empty_report (af_err 1 c a)
  | RsOk sf =>
      let objs := sf_objs sf in
      (* the first object of the file *)
      let inuse := filter (fun o => match af_off o with Some _ => true | None => false end) objs in
      let first := fold_left (fun best o => match best, af_off o with
                                             | Some b, Some a => match af_off b with Some ba => if a <? ba then Some o else best | None => Some o end
                                             | None, Some _ => Some o
                                             | _, _ => best end) inuse None in
      match first with
      | None => af_empty_report (af_err 2 0 0)
      | Some ld =>
          match so_val ld, af_off ld with
          | SpDict d, Some ldoff =>
              match dict_get d afn_Linearized with
              | None => af_empty_report (af_err 2 (so_num ld) 0)
              | Some lv =>
                  let e2 := af_when (match lv with SpInt 1 => false | SpReal _ => false | _ => true end) (af_err 2 (so_num ld) 1) in
                  (* end of the dictionary itself: re-read "n g obj <<...>>" *)
                  let dict_end :=
                    match next_tok (at_off file ldoff) with
                    | Some (_, r1) => match next_tok r1 with
                                      | Some (_, r2) => match next_tok r2 with
                                                        | Some (_, r3) => match parse_obj fuel r3 with
                                                                          | Some (_, r4) => offset_of total r4
                                                                          | None => total end
                                                        | None => total end
                                      | None => total end
                    | None => total
                    end in
                  let e3 := af_when (1024 <? dict_end) (af_err 3 dict_end 1024) in
                  let Hs := match dict_get d afn_H with
                            | Some (SpArr [SpInt a; SpInt b]) => if (0 <=? a)%Z && (0 <=? b)%Z then Some (Z.to_N a, Z.to_N b) else None
                            | _ => None
                            end in
                  match af_getN d afn_L, Hs, af_getN d afn_O, af_getN d afn_E, af_getN d afn_N, af_getN d afn_T with
                  | Some L, Some (h0, h1), Some pO, Some E, Some Np, Some T =>
                      let params := [L; h0; h1; pO; E; Np; T] in
                      let e4 := af_when (negb (L =? total)) (af_err 4 total L) in
                      (* hint stream object *)
                      let hobj := find (fun o => match af_off o with Some a => a =? h0 | None => false end) objs in
                      let e56 := match hobj with
                                 | Some ho => match so_stream ho with
                                              | Some _ => af_when (negb (af_end_matches file (h0 + h1) (so_end ho))) (af_err 6 (so_end ho - h0) h1)
                                              | None => af_err 5 h0 1
                                              end
                                 | None => af_err 5 h0 0
                                 end in
                      let encrypted := match dict_get (sf_trailer sf) afn_Encrypt with Some _ => true | None => false end in
                      (* catalog, page tree *)
                      let root := match dict_get (sf_trailer sf) n_Root with Some (SpRef r _) => Some r | _ => None end in
                      let cat := match root with Some r => af_find objs r | None => None end in
                      let catd := match cat with Some c => match so_val c with SpDict cd => cd | _ => [] end | None => [] end in
                      let pages := match dict_get catd afn_Pages with
                                   | Some (SpRef pr _) => af_pages fuel objs pr
                                   | _ => None
                                   end in
                      let e78 := match pages with
                                 | Some ((p0 :: _) as ps) =>
                                     af_when (negb (p0 =? pO)) (af_err 7 p0 pO) ++
                                     af_when (negb (N.of_nat (length ps) =? Np)) (af_err 8 (N.of_nat (length ps)) Np)
                                 | Some [] => af_err 8 0 Np
                                 | None => []
                                 end in
                      let n78 := match pages with None => af_err 7 0 0 | Some _ => [] end in
                      (* not compressed: catalog, pages *)
                      let comp := fun n => match af_find objs n with
                                           | Some o => match so_where o with XComp _ _ => true | _ => false end
                                           | None => false end in
                      let e13 := match root with Some r => af_when (comp r) (af_err 13 r 0) | None => [] end ++
                                 flat_map (fun p => af_when (comp p) (af_err 13 p 1)) (match pages with Some ps => ps | None => [] end) in
                      (* first-page cross-reference section (the one startxref points at) and the main one *)
                      let sx := match find_last k_startxref file 0 None with Some x => x | None => 0 end in
                      let sec1 := read_section fuel total sx file (sf_startxref sf) in
                      let first_nums := match sec1 with
                                        | inl s => flat_map (fun ke => match ke with (k, XInUse _ _) => [k] | _ => [] end) (sec_entries s)
                                        | inr _ => []
                                        end in
                      let sec1_end := match sec1 with inl s => snd (sec_region s) | inr _ => 0 end in
                      let first_objs := flat_map (fun k => match af_find objs k with Some o => [o] | None => [] end) first_nums in
                      let e_meas := fold_left (fun m o => N.max m (so_end o)) first_objs 0 in
                      let e9 := af_when (negb (af_end_matches file E e_meas)) (af_err 9 e_meas E) in
                      let e11 := af_when (E <? sec1_end) (af_err 11 sec1_end E) in
                      let e14 := flat_map (fun o => match af_off o with
                                                    | Some a =>
                                                        let in_first := af_mem (so_num o) first_nums in
                                                        af_when (if in_first then E <=? a else (a <? E) && negb (a =? sf_startxref sf)) (af_err 14 (so_num o) a)
                                                    | None => [] end) objs in
                      (* /T *)
                      let prev := af_getN (sf_trailer sf) n_Prev in
                      let e10 := match prev with
                                 | None => af_err 10 0 T
                                 | Some pv =>
                                     match expect k_xref (at_off file pv) with
                                     | Some r0 =>
                                         match next_tok r0 with
                                         | Some (StInt _, r1) =>
                                             match next_tok r1 with
                                             | Some (StInt _, r2) =>
                                                 let after_count := offset_of total r2 in
                                                 let entry := offset_of total (af_skip_sp r2) in
                                                 af_when (negb ((after_count <=? T) && (T <? entry))) (af_err 10 (entry - 1) T)
                                             | _ => af_err 10 pv T
                                             end
                                         | _ => af_err 10 pv T
                                         end
                                     | None => af_when (negb (T =? pv)) (af_err 10 pv T)   (* cross-reference stream: its offset *)
                                     end
                                 end in
                      (* what the first page needs precedes /E *)
                      let cont := fun l => af_dedup (map (af_container objs) l) in
                      let needs_ref := match pages with
                                       | Some ps => map (fun p => cont (af_page_needs fuel objs p)) ps
                                       | None => []
                                       end in
                      (* ... and through inheritance (7.7.3.4) *)
                      let inh_raw := match pages with
                                     | Some ps => map (fun p => af_page_inherits fuel objs p) ps
                                     | None => []
                                     end in
                      let inh := match pages with
                                 | Some ps => map (fun p => cont (af_page_inh_needs fuel objs p)) ps
                                 | None => []
                                 end in
                      let inh_only := map (fun ab => filter (fun c => negb (af_mem c (fst ab))) (snd ab)) (combine needs_ref inh) in
                      let needs := map (fun ab => fst ab ++ snd ab) (combine needs_ref inh_only) in
                      let n50 := flat_map (fun il => map (fun nv => (50, fst il, fst nv)) (snd il))
                                          (combine (map N.of_nat (seq 0 (length inh_raw))) inh_raw) in
                      let outl := match dict_get catd afn_Outlines with
                                  | Some (SpRef orf _) => cont (af_closure fuel objs [orf] [])
                                  | _ => []
                                  end in
                      let use_outl := match dict_get catd afn_PageMode with Some (SpName m) => beq m afn_UseOutlines | _ => false end in
                      let doclevel := af_dedup (
                                        flat_map (fun kv => if beq (fst kv) afn_Pages || existsb (beq (fst kv)) afn_open_document_keys then []
                                                            else cont (af_closure fuel objs (af_refs (snd kv)) [])) catd ++
                                        flat_map (fun kv => if beq (fst kv) n_Root then [] else cont (af_closure fuel objs (af_refs (snd kv)) [])) (sf_trailer sf)) in
                      let thumbs := (map (fun p => match af_find objs p with
                                                                 | Some o => match so_val o with
                                                                             | SpDict pd => match dict_get pd afn_Thumb with
                                                                                            | Some v => cont (af_closure fuel objs (af_refs v) [])
                                                                                            | None => [] end
                                                                             | _ => [] end
                                                                 | None => [] end) (match pages with Some ps => ps | None => [] end)) in
                      let thumb0 := hd [] thumbs in
                      let ptree := match dict_get catd afn_Pages with Some v => cont (af_closure fuel objs (af_refs v) []) | None => [] end in
                      let e12 := flat_map (fun c => match af_find objs c with
                                                    | Some o => match af_off o with
                                                                | Some a => af_when (E <=? a) (af_err (if af_mem c (hd [] inh_only) then 512
                                                                                                       else if af_mem c outl && negb use_outl
                                                                                                       then (if af_has_type n_ObjStm (so_val o) then 112 else 212)
                                                                                                       else if af_has_type n_ObjStm (so_val o) then 312
                                                                                                       else if af_mem c thumb0 then 412 else 12) c a)
                                                                | None => [] end
                                                    | None => [] end) (hd [] needs) in
                      (* hint tables *)
                      let base := e2 ++ e3 ++ e4 ++ e56 ++ e78 ++ e13 ++ e9 ++ e11 ++ e14 ++ e10 ++ e12 in
                      let mk := fun errs notes data so tables meas =>
                        {| ar_errors := errs; ar_notes := notes ++ n50; ar_params := params; ar_hint_data := data; ar_hint_SO := so;
                           ar_tables := tables; ar_pages := match pages with Some ps => ps | None => [] end; ar_measured := meas |} in
                      if encrypted then mk base (n78 ++ af_err 20 1 0) [] (0, 0) None [] else
                      match hobj, pages with
                      | Some ho, Some ((p0 :: _) as ps) =>
                          match so_val ho, so_stream ho with
                          | SpDict hd_, Some (doff, dlen) =>
                              match decode_struct_stream hd_ (firstn (N.to_nat dlen) (at_off file doff)), af_getN hd_ afn_S with
                              | Some data, Some hS =>
                                  let Oo := af_getN hd_ afn_O in
                                  match af_decode_hints (length ps) data hS Oo with
                                  | None => mk (base ++ af_err 21 0 0) n78 data (hS, match Oo with Some o => o | None => 0 end) None []
                                  | Some (hp, hs, hg, ends) =>
                                      let p0off := match af_find objs p0 with Some o => match af_off o with Some a => a | None => 0 end | None => 0 end in
                                      let '(herrs, meas) := af_hint_clauses objs h0 h1 ps needs inh_only outl doclevel thumbs ptree use_outl p0off pO hp hs hg ends hS Oo in
                                      mk (base ++ herrs) n78 data (hS, match Oo with Some o => o | None => 0 end) (Some (hp, hs, hg)) meas
                                  end
                              | _, _ => mk (base ++ af_err 20 0 0) n78 [] (0, 0) None []
                              end
                          | _, _ => mk (base ++ af_err 20 0 1) n78 [] (0, 0) None []
                          end
                      | _, _ => mk base (n78 ++ af_err 20 2 0) [] (0, 0) None []
                      end
                  | _, _, _, _, _, _ => af_empty_report (e2 ++ e3 ++ af_err 15 (so_num ld) 0)
                  end
              end
          | _, _ => af_empty_report (af_err 2 (so_num ld) 0)
          end
      end
  end.

Definition lin_ok (file : list N) : bool := match ar_errors (lin_check file) with [] => true | _ => false end.
