(* C14 - proofs, part A: numbers, JSON::Writer::encode_string against the RFC 8259 string grammar,
   qpdf's own string lexer inverts encode_string, hexadecimal (binary form) round trip.
   Lemmas named <name>_lemma become the theorems of Props/Properties_C14.v. *)
From QV Require Import Base.Bytes Gen.PdfDoc Json.JsonSpec Json.JsonEmit.
Local Open Scope N_scope.

(* ------------------------------------------------------------------ generalities *)

Definition all_digits (l : list N) : Prop := Forall (fun b => is_digit b = true) l.
Definition bytes_lt (l : list N) : Prop := Forall (fun b => b < 256) l.

Lemma is_digit_range b : is_digit b = true <-> 48 <= b <= 57.
Proof. unfold is_digit. rewrite andb_true_iff, !N.leb_le. tauto. Qed.

Lemma rev'_app_last {A} (l : list A) x : rev' (l ++ [x]) = x :: rev' l.
Proof. rewrite !rev'_rev. apply rev_unit. Qed.

Lemma jm_last_is_app c l x : jm_last_is c (l ++ [x]) = (x =? c).
Proof. unfold jm_last_is. rewrite rev'_app_last. reflexivity. Qed.

Lemma jm_last_is_digits c l : all_digits l -> is_digit c = false -> jm_last_is c l = false.
Proof.
  intros H Hc. destruct l as [|a l] using rev_ind; [reflexivity|].
  rewrite jm_last_is_app. apply Forall_app in H. destruct H as [_ H]. inversion H; subst.
  destruct (N.eqb_spec a c); [subst; congruence|reflexivity].
Qed.

(* ------------------------------------------------------------------ digits *)

Lemma drop_zeros_app_nondigit ip c r : (c =? 48) = false ->
  jm_drop_zeros (ip ++ c :: r) = jm_drop_zeros ip ++ c :: r.
Proof.
  intros Hc. induction ip as [|b t IH]; simpl.
  - rewrite Hc. reflexivity.
  - destruct (b =? 48); [exact IH|reflexivity].
Qed.

Lemma drop_zeros_digits ip : all_digits ip -> all_digits (jm_drop_zeros ip).
Proof.
  induction 1 as [|b t Hb Ht IH]; simpl; [constructor|].
  destruct (b =? 48); [exact IH|constructor; assumption].
Qed.

Lemma drop_zeros_head ip : match jm_drop_zeros ip with b :: _ => (b =? 48) = false | [] => True end.
Proof.
  induction ip as [|b t IH]; simpl; [exact I|].
  destruct (b =? 48) eqn:E; [exact IH|exact E].
Qed.

Lemma dec_value_cons d l : dec_value (d :: l) = fold_left (fun acc d => acc * 10 + digit_val d) l (digit_val d).
Proof. reflexivity. Qed.

Lemma dec_fold_zero l : fold_left (fun acc d => acc * 10 + digit_val d) l 0 = dec_value l.
Proof. reflexivity. Qed.

Lemma dec_value_zero l : dec_value (48 :: l) = dec_value l.
Proof. reflexivity. Qed.

Lemma dec_value_drop_zeros ip x : dec_value (jm_drop_zeros ip ++ x) = dec_value (ip ++ x).
Proof.
  induction ip as [|b t IH]; simpl; [reflexivity|].
  destruct (N.eqb_spec b 48) as [->|]; [|reflexivity].
  rewrite IH. symmetry. apply dec_value_zero.
Qed.

Lemma dec_value_snoc l d : dec_value (l ++ [d]) = dec_value l * 10 + digit_val d.
Proof. rewrite dec_value_app. reflexivity. Qed.

Lemma skip_digits_app ds r : all_digits ds ->
  match r with c :: _ => is_digit c = false | [] => True end ->
  js_skip_digits (ds ++ r) = r.
Proof.
  intros H Hr. induction H as [|b t Hb Ht IH]; simpl.
  - destruct r as [|c r']; [reflexivity|]. simpl. rewrite Hr. reflexivity.
  - rewrite Hb. exact IH.
Qed.

Lemma take_digits_app ds r : all_digits ds ->
  match r with c :: _ => is_digit c = false | [] => True end ->
  js_take_digits (ds ++ r) = (ds, r).
Proof.
  intros H Hr. induction H as [|b t Hb Ht IH]; simpl.
  - destruct r as [|c r']; [reflexivity|]. simpl. rewrite Hr. reflexivity.
  - rewrite Hb, IH. reflexivity.
Qed.

(* ------------------------------------------------------------------ json_number_valid *)

(* what write_json (after D1_json_reals.diff) makes of the three parts of a real *)
Definition norm_ip (ip : list N) : list N := match jm_drop_zeros ip with [] => [48] | l => l end.
Definition norm_fp (fp : list N) : list N := match fp with [] => [48] | _ => fp end.

Lemma jm_real_shape sign ip fp : all_digits ip -> all_digits fp ->
  jm_real (pdf_real_spelling sign ip fp) =
  (match sign with Some true => [45] | _ => [] end) ++ norm_ip ip ++ [46] ++ norm_fp fp.
Proof.
  intros Hi Hf. unfold jm_real, pdf_real_spelling.
  assert (Hu : forall sgn (u := ip ++ [46] ++ fp),
      sgn ++ (match jm_drop_zeros u with [] => [48] | c :: r => if c =? 46 then 48 :: c :: r else c :: r end)
          ++ (if jm_last_is 46 u then [48] else [])
      = sgn ++ norm_ip ip ++ [46] ++ norm_fp fp).
  { intros sgn u. f_equal. subst u. simpl app.
    rewrite drop_zeros_app_nondigit by reflexivity.
    assert (Hl : (if jm_last_is 46 (ip ++ 46 :: fp) then [48] else []) = match fp with [] => [48] | _ => [] end).
    { destruct fp as [|f fp'] using rev_ind.
      - rewrite jm_last_is_app. reflexivity.
      - clear IHfp'. replace (ip ++ 46 :: fp' ++ [f]) with ((ip ++ 46 :: fp') ++ [f]) by (rewrite <- app_assoc; reflexivity).
        rewrite jm_last_is_app. apply Forall_app in Hf. destruct Hf as [_ Hf]. inversion Hf; subst.
        apply is_digit_range in H1. destruct (N.eqb_spec f 46); [lia|]. destruct fp'; reflexivity. }
    rewrite Hl. unfold norm_ip, norm_fp.
    pose proof (drop_zeros_digits ip Hi) as Hd.
    destruct (jm_drop_zeros ip) as [|c r] eqn:E; simpl.
    - destruct fp; simpl; rewrite ?app_nil_r; reflexivity.
    - inversion Hd; subst. apply is_digit_range in H1. destruct (N.eqb_spec c 46); [lia|].
      simpl. rewrite <- app_assoc. simpl. destruct fp; simpl; rewrite ?app_nil_r; reflexivity. }
  destruct sign as [[|]|]; simpl.
  - exact (Hu [45]).
  - exact (Hu []).
  - (* no sign: the first character is a digit or the point, never '-' or '+' *)
    destruct ip as [|a ip']; simpl.
    + exact (Hu []).
    + inversion Hi; subst. apply is_digit_range in H1.
      destruct (N.eqb_spec a 45); [lia|]. destruct (N.eqb_spec a 43); [lia|]. exact (Hu []).
Qed.

Lemma norm_ip_digits ip : all_digits ip -> all_digits (norm_ip ip) /\ norm_ip ip <> [] /\
  (norm_ip ip = [48] \/ match norm_ip ip with b :: _ => (b =? 48) = false | [] => False end).
Proof.
  intros H. unfold norm_ip. pose proof (drop_zeros_digits ip H) as Hd. pose proof (drop_zeros_head ip) as Hh.
  destruct (jm_drop_zeros ip) as [|b r].
  - repeat split; [repeat constructor | discriminate | left; reflexivity].
  - repeat split; [assumption | discriminate | right; exact Hh].
Qed.

Lemma norm_fp_digits fp : all_digits fp -> all_digits (norm_fp fp) /\ norm_fp fp <> [].
Proof. intros H. unfold norm_fp. destruct fp; split; try discriminate; [repeat constructor|assumption]. Qed.

Lemma js_number_digits_point i f : all_digits i -> all_digits f -> f <> [] ->
  (i = [48] \/ match i with b :: _ => (b =? 48) = false | [] => False end) ->
  js_int (i ++ [46] ++ f) = Some ([46] ++ f) /\ js_frac ([46] ++ f) = Some [] /\ js_exp [] = Some [].
Proof.
  intros Hi Hf Hne Hz. split; [|split; [|reflexivity]].
  - destruct Hz as [->|Hz]; [reflexivity|].
    destruct i as [|b r]; [contradiction|]. inversion Hi; subst. simpl. rewrite Hz.
    apply is_digit_range in H1. apply N.eqb_neq in Hz.
    unfold js_in_rng. replace (49 <=? b) with true by (symmetry; apply N.leb_le; lia).
    replace (b <=? 57) with true by (symmetry; apply N.leb_le; lia). simpl.
    rewrite (skip_digits_app r (46 :: f) H2 eq_refl). reflexivity.
  - destruct f as [|d f']; [congruence|]. inversion Hf; subst. simpl. rewrite H1.
    rewrite <- (app_nil_r f'). rewrite (skip_digits_app f' [] H2 I). reflexivity.
Qed.

Definition sign_pre (neg : bool) : list N := if neg then [45] else [].

Lemma json_number_signed neg i f : all_digits i -> all_digits f -> f <> [] ->
  (i = [48] \/ match i with b :: _ => (b =? 48) = false | [] => False end) ->
  json_number (sign_pre neg ++ i ++ [46] ++ f) = true.
Proof.
  intros Di Df Nf Zi. destruct (js_number_digits_point _ _ Di Df Nf Zi) as (J1 & J2 & J3).
  unfold json_number, js_number.
  assert (E : (match sign_pre neg ++ i ++ [46] ++ f with m :: t => if m =? 45 then t else sign_pre neg ++ i ++ [46] ++ f
               | [] => sign_pre neg ++ i ++ [46] ++ f end) = i ++ [46] ++ f).
  { destruct neg; simpl; [reflexivity|]. destruct i as [|b r]; [destruct Zi as [Zi|[]]; discriminate|].
    inversion Di; subst. apply is_digit_range in H1. simpl. destruct (N.eqb_spec b 45); [lia|reflexivity]. }
  rewrite E, J1, J2, J3. reflexivity.
Qed.

Lemma json_number_value_signed neg i f : all_digits i -> all_digits f -> f <> [] -> i <> [] ->
  json_number_value (sign_pre neg ++ i ++ [46] ++ f) = Some (neg, dec_value (i ++ f), N.of_nat (length f)).
Proof.
  intros Di Df Nf Ni. unfold json_number_value.
  assert (E : (match sign_pre neg ++ i ++ [46] ++ f with m :: t => if m =? 45 then (true, t) else (false, sign_pre neg ++ i ++ [46] ++ f)
               | [] => (false, sign_pre neg ++ i ++ [46] ++ f) end) = (neg, i ++ [46] ++ f)).
  { destruct neg; simpl; [reflexivity|]. destruct i as [|b r]; [congruence|].
    inversion Di; subst. apply is_digit_range in H1. simpl. destruct (N.eqb_spec b 45); [lia|reflexivity]. }
  rewrite E. rewrite (take_digits_app i ([46] ++ f) Di eq_refl).
  destruct i as [|b r]; [congruence|]. simpl app. cbv iota beta.
  change (46 =? 46) with true. cbv iota.
  rewrite <- (app_nil_r f) at 1. rewrite (take_digits_app f [] Df I).
  destruct f as [|c s]; [congruence|]. reflexivity.
Qed.

(* Every real the tokenizer can produce (optional sign, digits around one point, at least one digit) is
   emitted as a JSON number (RFC 8259 section 6) of the same value. *)
Lemma json_number_valid_lemma : forall sign ip fp,
  all_digits ip -> all_digits fp -> (ip <> [] \/ fp <> []) ->
  json_number (jm_real (pdf_real_spelling sign ip fp)) = true /\
  exists v, json_number_value (jm_real (pdf_real_spelling sign ip fp)) = Some v /\
            numval_eq v (pdf_real_value sign ip fp).
Proof.
  intros sign ip fp Hi Hf _. rewrite (jm_real_shape sign ip fp Hi Hf).
  destruct (norm_ip_digits ip Hi) as (Di & Ni & Zi). destruct (norm_fp_digits fp Hf) as (Df & Nf).
  assert (Hq : forall neg, numval_eq (neg, dec_value (norm_ip ip ++ norm_fp fp), N.of_nat (length (norm_fp fp)))
                                     (neg, dec_value (ip ++ fp), N.of_nat (length fp))).
  { intros neg. unfold numval_eq. split; [|right; reflexivity].
    assert (E1 : dec_value (norm_ip ip ++ norm_fp fp) = dec_value (ip ++ norm_fp fp)).
    { unfold norm_ip. destruct (jm_drop_zeros ip) as [|b r] eqn:E.
      - rewrite <- (dec_value_drop_zeros ip). rewrite E. reflexivity.
      - rewrite <- E. apply dec_value_drop_zeros. }
    rewrite E1. unfold norm_fp. destruct fp as [|c s].
    + rewrite app_nil_r. rewrite dec_value_snoc. simpl. unfold digit_val. simpl. lia.
    + reflexivity. }
  assert (Hall : forall neg, json_number (sign_pre neg ++ norm_ip ip ++ [46] ++ norm_fp fp) = true /\
     exists v, json_number_value (sign_pre neg ++ norm_ip ip ++ [46] ++ norm_fp fp) = Some v /\
               numval_eq v (neg, dec_value (ip ++ fp), N.of_nat (length fp))).
  { intros neg. split; [apply json_number_signed; assumption|].
    eexists. split; [apply json_number_value_signed; assumption|]. apply Hq. }
  unfold pdf_real_value. destruct sign as [[|]|].
  - exact (Hall true).
  - exact (Hall false).
  - exact (Hall false).
Qed.

(* D1: on the pinned tree the statement is false. Witnesses: +1.5 (the example form of ISO 32000-1 7.3.3),
   +.5, -007.50, -00.5 are written verbatim. *)
Lemma json_number_valid_refuted_lemma :
  exists sign ip fp, all_digits ip /\ all_digits fp /\ (ip <> [] \/ fp <> []) /\
    json_number (jm_real_pinned (pdf_real_spelling sign ip fp)) = false.
Proof.
  exists (Some false), [49], [53]. split; [repeat constructor|]. split; [repeat constructor|].
  split; [left; discriminate|]. vm_compute. reflexivity.
Qed.

Lemma json_number_pinned_witnesses_lemma :
  jm_real_pinned [43; 49; 46; 53] = [43; 49; 46; 53] /\ json_number [43; 49; 46; 53] = false /\
  jm_real_pinned [43; 46; 53] = [43; 46; 53] /\ json_number [43; 46; 53] = false /\
  jm_real_pinned [45; 48; 48; 55; 46; 53; 48] = [45; 48; 48; 55; 46; 53; 48] /\ json_number [45; 48; 48; 55; 46; 53; 48] = false /\
  jm_real_pinned [45; 48; 48; 46; 53] = [45; 48; 48; 46; 53] /\ json_number [45; 48; 48; 46; 53] = false.
Proof. vm_compute. repeat split. Qed.

(* the repair changes nothing outside the finding's input class: without a '+' and without zeros directly
   after a '-', the pinned code and the repaired code write the same text *)
Lemma json_number_partial_lemma : forall neg ip fp,
  all_digits ip -> all_digits fp -> (ip <> [] \/ fp <> []) ->
  (neg = true -> match ip with 48 :: _ :: _ => False | _ => True end) ->
  jm_real_pinned (pdf_real_spelling (if neg then Some true else None) ip fp)
  = jm_real (pdf_real_spelling (if neg then Some true else None) ip fp).
Proof.
  intros neg ip fp Hi Hf Hne Hz.
  rewrite (jm_real_shape _ ip fp Hi Hf).
  assert (Hl : forall pre, (if jm_last_is 46 (pre ++ 46 :: fp) then [48] else []) = match fp with [] => [48] | _ => [] end).
  { intros pre. destruct fp as [|f fp'] using rev_ind.
    - rewrite jm_last_is_app. reflexivity.
    - clear IHfp'. replace (pre ++ 46 :: fp' ++ [f]) with ((pre ++ 46 :: fp') ++ [f]) by (rewrite <- app_assoc; reflexivity).
      rewrite jm_last_is_app. apply Forall_app in Hf. destruct Hf as [_ Hf]. inversion Hf; subst.
      apply is_digit_range in H1. destruct (N.eqb_spec f 46); [lia|]. destruct fp'; reflexivity. }
  assert (Hfp : [46] ++ norm_fp fp = 46 :: fp ++ match fp with [] => [48] | _ => [] end).
  { unfold norm_fp. destruct fp; simpl; [reflexivity|rewrite app_nil_r; reflexivity]. }
  assert (Hn : norm_fp fp = fp ++ match fp with [] => [48] | _ => [] end).
  { unfold norm_fp. destruct fp; simpl; [reflexivity|rewrite app_nil_r; reflexivity]. }
  destruct neg; unfold pdf_real_spelling, jm_real_pinned.
  - (* "-" ip "." fp *)
    destruct ip as [|a ip'].
    + (* "-." : written as "-0." *)
      pose proof (Hl [45]) as Hl1. simpl in Hl1. simpl. rewrite Hl1, Hn. reflexivity.
    + inversion Hi; subst. apply is_digit_range in H1.
      pose proof (Hl (45 :: a :: ip')) as Hl1. simpl in Hl1. simpl.
      destruct (N.eqb_spec a 46); [lia|]. rewrite Hl1, Hn. unfold norm_ip. simpl.
      destruct (N.eqb_spec a 48) as [->|Ha].
      * destruct ip' as [|b ip'']; [|exfalso; exact (Hz eq_refl)]. reflexivity.
      * simpl. rewrite <- ?app_assoc. reflexivity.
  - (* ip "." fp *)
    destruct ip as [|a ip'].
    + pose proof (Hl []) as Hl1. simpl in Hl1. simpl. rewrite Hl1, Hn. reflexivity.
    + inversion Hi; subst. apply is_digit_range in H1.
      pose proof (Hl (a :: ip')) as Hl1. simpl in Hl1. simpl.
      destruct (N.eqb_spec a 46); [lia|]. destruct (N.eqb_spec a 45); [lia|]. simpl.
      rewrite Hl1, Hn. unfold norm_ip. simpl.
      destruct (N.eqb_spec a 48) as [->|Ha].
      * rewrite drop_zeros_app_nondigit by reflexivity.
        pose proof (drop_zeros_digits ip' H2) as Hd.
        destruct (jm_drop_zeros ip') as [|c r] eqn:E; simpl.
        -- reflexivity.
        -- inversion Hd; subst. apply is_digit_range in H3. destruct (N.eqb_spec c 46); [lia|].
           simpl. rewrite <- !app_assoc. reflexivity.
      * simpl. rewrite <- ?app_assoc. reflexivity.
Qed.

(* ------------------------------------------------------------------ encode_string against the string grammar *)

Lemma plain_char_spec c : jm_plain_char c = true <-> (34 < c /\ c <> 92) \/ c = 32 \/ c = 33.
Proof.
  unfold jm_plain_char. rewrite !orb_true_iff, andb_true_iff, negb_true_iff, N.ltb_lt, !N.eqb_eq, N.eqb_neq. tauto.
Qed.

Lemma not_plain_lt c : jm_plain_char c = false -> c <> 34 -> c <> 92 -> c < 32.
Proof.
  intros H H34 H92. destruct (N.ltb_spec c 32); [assumption|]. exfalso.
  assert (jm_plain_char c = true); [|congruence]. apply plain_char_spec.
  destruct (N.eq_dec c 32); [right; left; assumption|]. destruct (N.eq_dec c 33); [right; right; assumption|]. left. lia.
Qed.

Lemma hexdigit_spec_decode : forall v, v < 16 -> js_hexval (jm_hexdigit v) = Some v.
Proof.
  intros v Hv.
  assert (E : forallb (fun v => if v <? 16 then match js_hexval (jm_hexdigit v) with Some x => x =? v | None => false end else true) all_bytes = true)
    by (vm_compute; reflexivity).
  pose proof (byte_sweep _ E v ltac:(lia)) as Hs. cbv beta in Hs. apply N.ltb_lt in Hv. rewrite Hv in Hs.
  destruct (js_hexval (jm_hexdigit v)); [|discriminate]. apply N.eqb_eq in Hs. subst. reflexivity.
Qed.

Lemma ctl_value c : c < 32 -> (if c <? 16 then 0 else 1) * 16 + c mod 16 = c.
Proof.
  intros Hc. destruct (N.ltb_spec c 16).
  - rewrite N.mod_small by assumption. reflexivity.
  - rewrite <- (N.mod_unique c 16 1 (c - 16)) by lia. lia.
Qed.

(* one character of the input is one step of the RFC 8259 string recogniser and denotes itself *)
Lemma js_chars_step c f r acc :
  js_chars (S f) (jm_encode_char c ++ r) acc = js_chars f r (c :: acc).
Proof.
  destruct (jm_plain_char c) eqn:P.
  - unfold jm_encode_char. rewrite P. apply plain_char_spec in P.
    assert (E1 : (c =? 34) = false) by (apply N.eqb_neq; lia).
    assert (E2 : (c <? 32) = false) by (apply N.ltb_ge; lia).
    assert (E3 : (c =? 92) = false) by (apply N.eqb_neq; lia).
    cbn [app js_chars]. rewrite E1, E2, E3. reflexivity.
  - unfold jm_encode_char. rewrite P.
    destruct (N.eqb_spec c 92) as [->|H92]; [reflexivity|]. destruct (N.eqb_spec c 34) as [->|H34]; [reflexivity|].
    destruct (N.eqb_spec c 8) as [->|]; [reflexivity|]. destruct (N.eqb_spec c 12) as [->|]; [reflexivity|].
    destruct (N.eqb_spec c 10) as [->|]; [reflexivity|]. destruct (N.eqb_spec c 13) as [->|]; [reflexivity|].
    destruct (N.eqb_spec c 9) as [->|]; [reflexivity|].
    pose proof (not_plain_lt c P H34 H92) as Hc.
    assert (Hm : c mod 16 < 16) by (apply N.mod_lt; discriminate).
    cbn [app js_chars]. change (92 =? 34) with false. change (92 <? 32) with false. change (92 =? 92) with true. cbv iota.
    change ((117 =? 34) || (117 =? 92) || (117 =? 47)) with false. change (117 =? 98) with false. change (117 =? 102) with false.
    change (117 =? 110) with false. change (117 =? 114) with false. change (117 =? 116) with false. change (117 =? 117) with true. cbv iota.
    unfold js_hex4. change (js_hexval 48) with (Some 0).
    rewrite (hexdigit_spec_decode _ Hm).
    assert (Hd : js_hexval (if c <? 16 then 48 else 49) = Some (if c <? 16 then 0 else 1)) by (destruct (c <? 16); reflexivity).
    rewrite Hd.
    replace (0 * 4096 + 0 * 256 + (if c <? 16 then 0 else 1) * 16 + c mod 16) with c by (rewrite <- (ctl_value c Hc) at 1; lia).
    unfold js_in_rng. replace (55296 <=? c) with false by (symmetry; apply N.leb_gt; lia).
    replace (56320 <=? c) with false by (symmetry; apply N.leb_gt; lia). cbn [andb].
    unfold utf8_enc. replace (c <? 128) with true by (symmetry; apply N.ltb_lt; lia). reflexivity.
Qed.

Lemma js_chars_encode s : forall f r acc, (length s < f)%nat ->
  js_chars f (jm_encode_string s ++ 34 :: r) acc = Some (rev' (rev s ++ acc), r).
Proof.
  induction s as [|c s IH]; intros f r acc Hf.
  - destruct f; [inversion Hf|]. reflexivity.
  - destruct f; [inversion Hf|]. simpl jm_encode_string. rewrite <- app_assoc. rewrite js_chars_step.
    rewrite IH by (simpl in Hf; lia). simpl. rewrite <- app_assoc. reflexivity.
Qed.

Lemma encode_char_nonempty c : (1 <= length (jm_encode_char c))%nat.
Proof. unfold jm_encode_char. repeat (match goal with |- context [if ?b then _ else _] => destruct b end); simpl; lia. Qed.

Lemma encode_string_length s : (length s <= length (jm_encode_string s))%nat.
Proof.
  induction s as [|c s IH]; simpl; [lia|]. rewrite app_length. pose proof (encode_char_nonempty c). lia.
Qed.

Lemma js_string_encode s r : js_string (jm_encode_string s ++ 34 :: r) = Some (s, r).
Proof.
  unfold js_string. rewrite js_chars_encode.
  - rewrite app_nil_r, rev'_rev, rev_involutive. reflexivity.
  - rewrite app_length. simpl. pose proof (encode_string_length s). lia.
Qed.

Lemma hexdigit_decode_char : forall v, v < 16 -> jm_hex_decode_char (jm_hexdigit v) = v /\ jm_is_hex_digit (jm_hexdigit v) = true.
Proof.
  intros v Hv.
  assert (E : forallb (fun v => if v <? 16 then (jm_hex_decode_char (jm_hexdigit v) =? v) && jm_is_hex_digit (jm_hexdigit v) else true) all_bytes = true)
    by (vm_compute; reflexivity).
  pose proof (byte_sweep _ E v ltac:(lia)) as Hs. cbv beta in Hs. apply N.ltb_lt in Hv. rewrite Hv in Hs.
  apply andb_true_iff in Hs. destruct Hs as [H1 H2]. apply N.eqb_eq in H1. split; assumption.
Qed.

(* qpdf's own lexer (JSONParser::getToken, string states) inverts encode_string *)
Lemma jm_parse_string_step c f r acc :
  jm_parse_string (S f) (jm_encode_char c ++ r) acc = jm_parse_string f r (c :: acc).
Proof.
  destruct (jm_plain_char c) eqn:P.
  - unfold jm_encode_char. rewrite P. apply plain_char_spec in P.
    assert (E1 : (c =? 34) = false) by (apply N.eqb_neq; lia).
    assert (E2 : (c <? 32) = false) by (apply N.ltb_ge; lia).
    assert (E3 : (c =? 92) = false) by (apply N.eqb_neq; lia).
    cbn [app jm_parse_string]. rewrite E1, E2, E3. reflexivity.
  - unfold jm_encode_char. rewrite P.
    destruct (N.eqb_spec c 92) as [->|H92]; [reflexivity|]. destruct (N.eqb_spec c 34) as [->|H34]; [reflexivity|].
    destruct (N.eqb_spec c 8) as [->|]; [reflexivity|]. destruct (N.eqb_spec c 12) as [->|]; [reflexivity|].
    destruct (N.eqb_spec c 10) as [->|]; [reflexivity|]. destruct (N.eqb_spec c 13) as [->|]; [reflexivity|].
    destruct (N.eqb_spec c 9) as [->|]; [reflexivity|].
    pose proof (not_plain_lt c P H34 H92) as Hc.
    assert (Hm : c mod 16 < 16) by (apply N.mod_lt; discriminate).
    destruct (hexdigit_decode_char _ Hm) as [D2 I2].
    cbn [app jm_parse_string]. change (92 <? 32) with false. change (92 =? 34) with false. change (92 =? 92) with true. cbv iota.
    change ((117 =? 92) || (117 =? 34) || (117 =? 47)) with false. change (117 =? 98) with false. change (117 =? 102) with false.
    change (117 =? 110) with false. change (117 =? 114) with false. change (117 =? 116) with false. change (117 =? 117) with true. cbv iota.
    change (jm_is_hex_digit 48) with true. change (jm_hex_decode_char 48) with 0.
    assert (Hd : jm_is_hex_digit (if c <? 16 then 48 else 49) = true /\ jm_hex_decode_char (if c <? 16 then 48 else 49) = (if c <? 16 then 0 else 1))
      by (destruct (c <? 16); split; reflexivity).
    destruct Hd as [Hd1 Hd2]. rewrite Hd1, Hd2, I2, D2. cbn [andb].
    replace (((0 * 16 + 0) * 16 + (if c <? 16 then 0 else 1)) * 16 + c mod 16) with c by (rewrite <- (ctl_value c Hc) at 1; lia).
    assert (L1 : (N.land c 64512 =? 55296) = false /\ (N.land c 64512 =? 56320) = false).
    { assert (E : forallb (fun c => if c <? 32 then negb (N.land c 64512 =? 55296) && negb (N.land c 64512 =? 56320) else true) all_bytes = true)
        by (vm_compute; reflexivity).
      pose proof (byte_sweep _ E c ltac:(lia)) as Hs. cbv beta in Hs. replace (c <? 32) with true in Hs by (symmetry; apply N.ltb_lt; lia).
      apply andb_true_iff in Hs. destruct Hs as [A B]. apply negb_true_iff in A, B. split; assumption. }
    destruct L1 as [L1 L2]. rewrite L1, L2.
    unfold jm_to_utf8. replace (c <? 128) with true by (symmetry; apply N.ltb_lt; lia). reflexivity.
Qed.

Lemma jm_parse_string_encode s : forall f r acc, (length s < f)%nat ->
  jm_parse_string f (jm_encode_string s ++ 34 :: r) acc = Some (rev' (rev s ++ acc), r).
Proof.
  induction s as [|c s IH]; intros f r acc Hf.
  - destruct f; [inversion Hf|]. reflexivity.
  - destruct f; [inversion Hf|]. simpl jm_encode_string. rewrite <- app_assoc. rewrite jm_parse_string_step.
    rewrite IH by (simpl in Hf; lia). simpl. rewrite <- app_assoc. reflexivity.
Qed.

Lemma parse_string_inverts_encode_lemma : forall s,
  jm_parse_string_token (jm_q (jm_encode_string s)) = Some s.
Proof.
  intros s. unfold jm_parse_string_token, jm_q. rewrite jm_parse_string_encode.
  - rewrite app_nil_r, rev'_rev, rev_involutive. reflexivity.
  - simpl. rewrite app_length. simpl. pose proof (encode_string_length s). lia.
Qed.

(* plain ASCII is written as it is *)
Lemma encode_string_plain x : Forall (fun c => jm_plain_char c = true) x -> jm_encode_string x = x.
Proof.
  induction 1 as [|c t Hc Ht IH]; [reflexivity|]. simpl. unfold jm_encode_char. rewrite Hc. simpl. f_equal. exact IH.
Qed.

Lemma encode_string_app a b : jm_encode_string (a ++ b) = jm_encode_string a ++ jm_encode_string b.
Proof. unfold jm_encode_string. apply flat_map_app. Qed.

(* ------------------------------------------------------------------ hexadecimal: the binary form keeps the bytes *)

Lemma hexdigit_decode : forall v, v < 16 -> jm_hex_decode_char (jm_hexdigit v) = v /\ jm_plain_char (jm_hexdigit v) = true.
Proof.
  intros v Hv.
  assert (E : forallb (fun v => if v <? 16 then (jm_hex_decode_char (jm_hexdigit v) =? v) && jm_plain_char (jm_hexdigit v) else true) all_bytes = true)
    by (vm_compute; reflexivity).
  pose proof (byte_sweep _ E v ltac:(lia)) as Hs. cbv beta in Hs. apply N.ltb_lt in Hv. rewrite Hv in Hs.
  apply andb_true_iff in Hs. destruct Hs as [H1 H2]. apply N.eqb_eq in H1. split; assumption.
Qed.

Lemma hex_decode_encode_go s : forall acc, bytes_lt s ->
  jm_hex_decode_go (jm_hex_encode s) None acc = rev' (rev s ++ acc).
Proof.
  induction s as [|c s IH]; intros acc Hs; [reflexivity|].
  inversion Hs; subst. simpl jm_hex_encode.
  assert (H16 : c / 16 < 16) by (apply N.div_lt_upper_bound; lia).
  assert (Hm : c mod 16 < 16) by (apply N.mod_lt; lia).
  destruct (hexdigit_decode _ H16) as [D1 _]. destruct (hexdigit_decode _ Hm) as [D2 _].
  simpl. rewrite D1. apply N.ltb_lt in H16. rewrite H16. rewrite D2. apply N.ltb_lt in Hm. rewrite Hm.
  rewrite IH by assumption. simpl. rewrite <- app_assoc. simpl.
  replace (c / 16 * 16 + c mod 16) with c; [reflexivity|].
  rewrite (N.div_mod c 16) at 1 by lia. lia.
Qed.

Lemma hex_roundtrip_lemma : forall s, bytes_lt s -> jm_hex_decode (jm_hex_encode s) = s.
Proof.
  intros s Hs. unfold jm_hex_decode. rewrite hex_decode_encode_go by assumption.
  rewrite app_nil_r, rev'_rev, rev_involutive. reflexivity.
Qed.

Lemma hex_encode_plain s : bytes_lt s -> Forall (fun c => jm_plain_char c = true) (jm_hex_encode s)
  /\ forallb jm_is_hex_digit (jm_hex_encode s) = true /\ N.even (N.of_nat (length (jm_hex_encode s))) = true.
Proof.
  induction 1 as [|c s Hc Hs IH].
  - repeat split; constructor.
  - destruct IH as (I1 & I2 & I3).
    assert (H16 : c / 16 < 16) by (apply N.div_lt_upper_bound; lia).
    assert (Hm : c mod 16 < 16) by (apply N.mod_lt; lia).
    destruct (hexdigit_decode _ H16) as [D1 P1]. destruct (hexdigit_decode _ Hm) as [D2 P2].
    simpl jm_hex_encode. repeat split.
    + constructor; [assumption|]. constructor; assumption.
    + simpl. unfold jm_is_hex_digit. rewrite D1, D2. apply N.ltb_lt in H16. apply N.ltb_lt in Hm. rewrite H16, Hm. exact I2.
    + simpl length. rewrite !Nat2N.inj_succ. rewrite N.even_succ_succ. exact I3.
Qed.
