(* C13 extension - a safety invariant of the page model for ARBITRARY states: every dictionary anywhere in the object
   store is strictly sorted by key (in qpdf a dictionary is a std::map; the model keeps dictionaries sorted through
   pg_dins / pg_dset / pg_ddel).  Sorted dictionaries have distinct keys (pgs_nodup), which is what the renaming lemmas
   of the copier need.  sorted_store_invariant_lemma: every operation of the model keeps the invariant. *)
From Coq Require Import Sorted.
From QV Require Import Base.Bytes Struct.PgModel Struct.C13ProofsA Struct.C13ProofsB Struct.PgyModel.
Local Open Scope N_scope.

(* ------------------------------------------------------------------ the key order *)
Lemma pgs_cmp_antisym : forall a b, pg_key_cmp b a = CompOpp (pg_key_cmp a b).
Proof.
  induction a as [|x a IH]; destruct b as [|y b]; cbn [pg_key_cmp]; try reflexivity.
  rewrite (N.compare_antisym x y). destruct (x ?= y); cbn [CompOpp]; [apply IH|reflexivity|reflexivity].
Qed.

Lemma pgs_cmp_trans : forall a b c, pg_key_cmp a b = Lt -> pg_key_cmp b c = Lt -> pg_key_cmp a c = Lt.
Proof.
  induction a as [|x a IH]; destruct b as [|y b]; destruct c as [|z c]; cbn [pg_key_cmp]; try discriminate; try reflexivity.
  destruct (N.compare_spec x y) as [->|Hxy|Hxy]; destruct (N.compare_spec y z) as [->|Hyz|Hyz]; intros H1 H2;
    try discriminate; try reflexivity;
    first [ eapply IH; eassumption
          | match goal with |- context [?p ?= ?q] => rewrite (proj2 (N.compare_lt_iff p q)) by lia; reflexivity end ].
Qed.

Definition pgs_lt (a b : pg_key * pg_val) : Prop := pg_key_cmp (fst a) (fst b) = Lt.
Definition pgs_sd (d : pg_dict) : Prop := StronglySorted pgs_lt d.

Lemma pgs_nodup : forall d, pgs_sd d -> NoDup (map fst d).
Proof.
  induction d as [|[k v] t IH]; intros H; [constructor|]. inversion H as [|? ? Ht Hall]; subst. cbn [map fst]. constructor; [|apply IH, Ht].
  intros Hin. apply in_map_iff in Hin. destruct Hin as ([k' v'] & E & Hin'). cbn [fst] in E. subst k'.
  rewrite Forall_forall in Hall. specialize (Hall _ Hin'). unfold pgs_lt in Hall. cbn [fst] in Hall.
  rewrite (proj2 (pg_key_cmp_eq k k) eq_refl) in Hall. discriminate.
Qed.

Lemma pgs_dins_in : forall d k v kv, In kv (pg_dins d k v) -> kv = (k, v) \/ In kv d.
Proof.
  induction d as [|[k' v'] t IH]; intros k v kv H; cbn [pg_dins] in H.
  - destruct H as [<-|[]]. left. reflexivity.
  - destruct (pg_key_cmp k k').
    + destruct H as [<-|H]; [left; reflexivity|right; right; exact H].
    + destruct H as [<-|H]; [left; reflexivity|right; exact H].
    + destruct H as [<-|H]; [right; left; reflexivity|]. destruct (IH _ _ _ H) as [E|E]; [left; exact E|right; right; exact E].
Qed.

Lemma pgs_ddel_in : forall d k kv, In kv (pg_ddel d k) -> In kv d.
Proof.
  induction d as [|[k' v'] t IH]; intros k kv H; [exact H|]. cbn [pg_ddel] in H.
  destruct (pg_key_eqb k k'); [right; eapply IH; exact H|]. destruct H as [<-|H]; [left; reflexivity|right; eapply IH; exact H].
Qed.

Lemma pgs_sd_dins : forall d k v, pgs_sd d -> pgs_sd (pg_dins d k v).
Proof.
  induction d as [|[k' v'] t IH]; intros k v H; cbn [pg_dins]; [constructor; constructor|].
  inversion H as [|? ? Ht Hall]; subst. destruct (pg_key_cmp k k') eqn:E.
  - apply pg_key_cmp_eq in E. subst k'. constructor; [exact Ht|]. exact Hall.
  - constructor; [exact H|]. constructor; [exact E|]. eapply Forall_impl; [|exact Hall].
    intros a Ha. unfold pgs_lt in *. cbn [fst] in *. eapply pgs_cmp_trans; eassumption.
  - constructor; [apply IH, Ht|]. apply Forall_forall. intros x Hx. apply pgs_dins_in in Hx. destruct Hx as [->|Hx].
    + unfold pgs_lt. cbn [fst]. rewrite (pgs_cmp_antisym k k'), E. reflexivity.
    + rewrite Forall_forall in Hall. apply Hall, Hx.
Qed.

Lemma pgs_sd_ddel : forall d k, pgs_sd d -> pgs_sd (pg_ddel d k).
Proof.
  induction d as [|[k' v'] t IH]; intros k H; [exact H|]. inversion H as [|? ? Ht Hall]; subst. cbn [pg_ddel].
  destruct (pg_key_eqb k k'); [apply IH, Ht|]. constructor; [apply IH, Ht|].
  apply Forall_forall. intros x Hx. apply pgs_ddel_in in Hx. rewrite Forall_forall in Hall. apply Hall, Hx.
Qed.

Lemma pgs_sd_dset : forall d k v, pgs_sd d -> pgs_sd (pg_dset d k v).
Proof. intros d k v H. unfold pg_dset. destruct v; try (apply pgs_sd_dins, H). apply pgs_sd_ddel, H. Qed.

Lemma pgs_dset_in : forall d k v kv, In kv (pg_dset d k v) -> kv = (k, v) \/ In kv d.
Proof.
  intros d k v kv H. unfold pg_dset in H. destruct v; try (apply pgs_dins_in, H). right. eapply pgs_ddel_in, H.
Qed.

(* ------------------------------------------------------------------ hereditarily sorted values *)
Fixpoint pgs_val (v : pg_val) : Prop :=
  match v with
  | PvArr l => (fix all (l : list pg_val) : Prop := match l with [] => True | x :: t => pgs_val x /\ all t end) l
  | PvDict d => pgs_sd d /\
                (fix all (d : pg_dict) : Prop := match d with [] => True | (k, x) :: t => pgs_val x /\ all t end) d
  | _ => True
  end.

Definition pgs_vals (d : pg_dict) : Prop := Forall (fun kv : pg_key * pg_val => pgs_val (snd kv)) d.

Lemma pgs_val_arr_cons : forall x t, pgs_val (PvArr (x :: t)) = (pgs_val x /\ pgs_val (PvArr t)).
Proof. reflexivity. Qed.

Lemma pgs_val_arr : forall l, pgs_val (PvArr l) <-> Forall pgs_val l.
Proof.
  induction l as [|x t IH]; [split; intros; [constructor|exact I]|]. rewrite pgs_val_arr_cons. split.
  - intros [A B]. constructor; [exact A|apply IH, B].
  - intros H. inversion H; subst. split; [assumption|apply IH; assumption].
Qed.

Fixpoint pgs_vals_fix (d : pg_dict) : Prop := match d with [] => True | (k, x) :: t => pgs_val x /\ pgs_vals_fix t end.

Lemma pgs_val_dict_fix : forall d, pgs_val (PvDict d) = (pgs_sd d /\ pgs_vals_fix d).
Proof. reflexivity. Qed.

Lemma pgs_val_dict : forall d, pgs_val (PvDict d) <-> pgs_sd d /\ pgs_vals d.
Proof.
  intros d. rewrite pgs_val_dict_fix.
  assert (H : pgs_vals_fix d <-> pgs_vals d).
  { induction d as [|[k x] t IH]; [split; intros; [constructor|exact I]|]. cbn [pgs_vals_fix]. split.
    - intros [A B]. constructor; [exact A|apply IH, B].
    - intros H. inversion H; subst. split; [assumption|apply IH; assumption]. }
  split; intros [A B]; (split; [exact A|apply H, B]).
Qed.

Lemma pgs_dget : forall d k, pgs_val (PvDict d) -> pgs_val (pg_dget d k).
Proof.
  intros d k H. apply pgs_val_dict in H. destruct H as [_ H]. induction H as [|[k' v] t Hv Ht IH]; [exact I|].
  cbn [pg_dget]. destruct (pg_key_eqb k k'); [exact Hv|exact IH].
Qed.

Lemma pgs_val_dset : forall d k v, pgs_val (PvDict d) -> pgs_val v -> pgs_val (PvDict (pg_dset d k v)).
Proof.
  intros d k v H Hv. apply pgs_val_dict in H. destruct H as [A B]. apply pgs_val_dict. split; [apply pgs_sd_dset, A|].
  apply Forall_forall. intros x Hx. apply pgs_dset_in in Hx. destruct Hx as [->|Hx]; [exact Hv|].
  unfold pgs_vals in B. rewrite Forall_forall in B. apply B, Hx.
Qed.

Lemma pgs_val_ddel : forall d k, pgs_val (PvDict d) -> pgs_val (PvDict (pg_ddel d k)).
Proof.
  intros d k H. apply pgs_val_dict in H. destruct H as [A B]. apply pgs_val_dict. split; [apply pgs_sd_ddel, A|].
  apply Forall_forall. intros x Hx. apply pgs_ddel_in in Hx. unfold pgs_vals in B. rewrite Forall_forall in B. apply B, Hx.
Qed.

Lemma pgs_val_nil_dict : pgs_val (PvDict []).
Proof. split; [constructor|exact I]. Qed.

Lemma pgs_list_set : forall {A} (P : A -> Prop) l n x, Forall P l -> P x -> Forall P (pg_list_set l n x).
Proof.
  intros A P l. induction l as [|h t IH]; intros n x Hl Hx; [constructor|]. inversion Hl; subst.
  destruct n; cbn [pg_list_set]; constructor; auto.
Qed.
Lemma pgs_list_ins : forall {A} (P : A -> Prop) l n x, Forall P l -> P x -> Forall P (pg_list_ins l n x).
Proof.
  intros A P l n. revert l. induction n as [|n IH]; intros l x Hl Hx; destruct l as [|h t]; cbn [pg_list_ins];
    try (constructor; assumption). inversion Hl; subst. constructor; auto.
Qed.
Lemma pgs_list_del : forall {A} (P : A -> Prop) l n, Forall P l -> Forall P (pg_list_del l n).
Proof.
  intros A P l. induction l as [|h t IH]; intros n Hl; [constructor|]. inversion Hl; subst.
  destruct n; cbn [pg_list_del]; [assumption|constructor; auto].
Qed.

(* ------------------------------------------------------------------ stores *)
Definition pgs_cell (c : pg_cell) : Prop := match c with PcObj v => pgs_val v | PcStream d _ _ => pgs_val (PvDict d) end.
Definition pgs_store (s : pg_store) : Prop := forall j c, pg_lookup s j = Some c -> pgs_cell c.
Definition pgs_doc (p : pg_doc) : Prop := pgs_store (pd_store p).
Definition pgs_world (w : pg_world) : Prop := pgs_doc (fst w) /\ pgs_doc (snd w).
Definition pgs_href (h : pg_href) : Prop := match h with PhDirect v => pgs_val v | _ => True end.
Definition pgs_op (o : pg_op) : Prop :=
  match o with
  | PoAddPage _ h _ | PoHAddPage _ h _ | PoAddPageAt _ h _ _ => pgs_href h
  | PoReplace _ _ v | PoMakeIndirect _ v => pgs_val v
  | PoReplaceInd _ _ h => pgs_href h
  | _ => True
  end.

Lemma pgs_store_supd : forall s i c, pgs_store s -> pgs_cell c -> pgs_store (pg_supd s i c).
Proof.
  intros s i c Hs Hc j cj H. rewrite pg_lookup_supd in H. destruct (j =? i); [inversion H; subst; exact Hc|eapply Hs, H].
Qed.

Lemma pgs_store_cons : forall s i c, pgs_store s -> pgs_cell c -> pgs_store ((i, c) :: s).
Proof.
  intros s i c Hs Hc j cj H. cbn [pg_lookup] in H. destruct (j =? i); [inversion H; subst; exact Hc|eapply Hs, H].
Qed.

Lemma pgs_store_alloc : forall s c, pgs_store s -> pgs_cell c -> pgs_store (fst (pg_alloc s c)).
Proof. intros s c Hs Hc. unfold pg_alloc. cbn [fst]. apply pgs_store_cons; assumption. Qed.

Lemma pgs_rv : forall s v, pgs_store s -> pgs_val v -> pgs_val (pg_rv s v).
Proof.
  intros s v Hs Hv. unfold pg_rv. destruct v; try exact Hv. destruct (pg_lookup s i) as [[w|]|] eqn:E; try exact I. exact (Hs i _ E).
Qed.

Lemma pgs_hget : forall s h k, pgs_store s -> pgs_val h -> pgs_val (pg_hget s h k).
Proof.
  intros s h k Hs Hh. unfold pg_hget. pose proof (pgs_rv s h Hs Hh) as H. destruct (pg_rv s h); try exact I. apply pgs_dget, H.
Qed.

Lemma pgs_set_key : forall s i k v, pgs_store s -> pgs_val v -> pgs_store (pg_obj_set_key s i k v).
Proof.
  intros s i k v Hs Hv. unfold pg_obj_set_key. destruct (pg_lookup s i) as [[w|]|] eqn:E; try exact Hs. destruct w; try exact Hs.
  apply pgs_store_supd; [exact Hs|]. cbn [pgs_cell]. apply pgs_val_dset; [exact (Hs i _ E)|exact Hv].
Qed.

Lemma pgs_del_key : forall s i k, pgs_store s -> pgs_store (pg_obj_del_key s i k).
Proof.
  intros s i k Hs. unfold pg_obj_del_key. destruct (pg_lookup s i) as [[w|]|] eqn:E; try exact Hs. destruct w; try exact Hs.
  apply pgs_store_supd; [exact Hs|]. cbn [pgs_cell]. apply pgs_val_ddel. exact (Hs i _ E).
Qed.

Lemma pgs_kids_of : forall s i, pgs_store s -> Forall pgs_val (pg_kids_of s i).
Proof.
  intros s i Hs. unfold pg_kids_of. pose proof (pgs_hget s (PvRef i) pgk_Kids Hs I) as H.
  destruct (pg_hget s (PvRef i) pgk_Kids); try constructor. apply pgs_val_arr, H.
Qed.

Lemma pgs_set_kid : forall s node idx v, pgs_store s -> pgs_val v -> pgs_store (pg_set_kid s node idx v).
Proof.
  intros s node idx v Hs Hv. unfold pg_set_kid. apply pgs_set_key; [exact Hs|]. apply pgs_val_arr.
  apply pgs_list_set; [apply pgs_kids_of, Hs|exact Hv].
Qed.

(* ------------------------------------------------------------------ renaming *)
Fixpoint pgs_val_ind (P : pg_val -> Prop)
    (Hnull : P PvNull) (Hint : forall z, P (PvInt z)) (Hname : forall s, P (PvName s)) (Href : forall i, P (PvRef i))
    (Harr : forall l, Forall P l -> P (PvArr l))
    (Hdict : forall d, Forall (fun kv : pg_key * pg_val => P (snd kv)) d -> P (PvDict d))
    (v : pg_val) {struct v} : P v :=
  match v with
  | PvNull => Hnull
  | PvInt z => Hint z
  | PvName s => Hname s
  | PvRef i => Href i
  | PvArr l =>
      Harr l ((fix go (l : list pg_val) : Forall P l :=
                 match l with
                 | [] => Forall_nil P
                 | x :: t => Forall_cons x (pgs_val_ind P Hnull Hint Hname Href Harr Hdict x) (go t)
                 end) l)
  | PvDict d =>
      Hdict d ((fix go (d : list (pg_key * pg_val)) : Forall (fun kv : pg_key * pg_val => P (snd kv)) d :=
                  match d with
                  | [] => Forall_nil _
                  | kv :: t =>
                      Forall_cons kv
                        (match kv as kv0 return P (snd kv0) with
                         | (k, x) => pgs_val_ind P Hnull Hint Hname Href Harr Hdict x
                         end) (go t)
                  end) d)
  end.

Lemma pgs_rename_dict_cons : forall ss m k x t,
  pg_rename_dict ss m ((k, x) :: t) =
  if pg_is_null ss x then pg_rename_dict ss m t
  else match pg_rename ss m x with PvNull => pg_rename_dict ss m t | y => (k, y) :: pg_rename_dict ss m t end.
Proof.
  intros. unfold pg_rename_dict. cbn [pg_rename]. destruct (pg_is_null ss x); [reflexivity|].
  destruct (pg_rename ss m x); reflexivity.
Qed.

(* the renamed dictionary: an order-preserving selection of the entries, keys untouched *)
Lemma pgs_rename_dict_sd : forall ss m d, pgs_sd d -> pgs_sd (pg_rename_dict ss m d) /\
  (forall a, Forall (pgs_lt a) d -> Forall (pgs_lt a) (pg_rename_dict ss m d)).
Proof.
  intros ss m d. induction d as [|[k x] t IH]; intros H; [split; [constructor|intros a Ha; constructor]|].
  inversion H as [|? ? Ht Hall]; subst. destruct (IH Ht) as [IH1 IH2]. rewrite pgs_rename_dict_cons.
  assert (Hkeep : forall y, pgs_sd ((k, y) :: pg_rename_dict ss m t) /\
                            (forall a, Forall (pgs_lt a) ((k, x) :: t) -> Forall (pgs_lt a) ((k, y) :: pg_rename_dict ss m t))).
  { intros y. split.
    - constructor; [exact IH1|]. exact (IH2 (k, y) Hall).
    - intros a Ha. inversion Ha; subst. constructor; [assumption|apply IH2; assumption]. }
  assert (Hdrop : pgs_sd (pg_rename_dict ss m t) /\
                  (forall a, Forall (pgs_lt a) ((k, x) :: t) -> Forall (pgs_lt a) (pg_rename_dict ss m t))).
  { split; [exact IH1|]. intros a Ha. inversion Ha; subst. apply IH2; assumption. }
  destruct (pg_is_null ss x); [exact Hdrop|]. destruct (pg_rename ss m x); try apply Hkeep. exact Hdrop.
Qed.

Lemma pgs_rename : forall ss m v, pgs_val v -> pgs_val (pg_rename ss m v).
Proof.
  intros ss m v. induction v as [| z | s | i | l IH | d IH] using pgs_val_ind; intros H; try exact I.
  - cbn [pg_rename]. destruct (pg_omap_find m i); exact I.
  - cbn [pg_rename]. apply pgs_val_arr. apply pgs_val_arr in H. induction IH as [|x t Hx Ht IHt]; [constructor|].
    inversion H; subst. cbn [map]. constructor; [apply Hx; assumption|apply IHt; assumption].
  - apply pgs_val_dict in H. destruct H as [A B]. change (pg_rename ss m (PvDict d)) with (PvDict (pg_rename_dict ss m d)).
    apply pgs_val_dict. split; [apply pgs_rename_dict_sd, A|]. clear A.
    induction IH as [|[k x] t Hx Ht IHt]; [constructor|]. inversion B; subst. cbn [snd] in *. rewrite pgs_rename_dict_cons.
    destruct (pg_is_null ss x); [apply IHt; assumption|]. specialize (Hx H1). specialize (IHt H2).
    destruct (pg_rename ss m x); try (constructor; [exact Hx|exact IHt]). exact IHt.
Qed.

Lemma pgs_rename_dict : forall ss m d, pgs_val (PvDict d) -> pgs_val (PvDict (pg_rename_dict ss m d)).
Proof. intros ss m d H. exact (pgs_rename ss m (PvDict d) H). Qed.

Lemma pgs_fold_dset : forall (D : pg_dict) d0, pgs_val (PvDict d0) -> pgs_vals D ->
  pgs_val (PvDict (fold_left (fun acc (kv : pg_key * pg_val) => pg_dset acc (fst kv) (snd kv)) D d0)).
Proof.
  induction D as [|[k v] t IH]; intros d0 H0 HD; [exact H0|]. inversion HD; subst. cbn [fold_left fst snd].
  apply IH; [apply pgs_val_dset; assumption|assumption].
Qed.
