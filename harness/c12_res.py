# C12, clauses judged by an oracle on real outputs (testing; no Coq model of the resource pruner / label remapper):
#   * every resource a page's content (or a nested form XObject's content) names still resolves to an equivalent object,
#     also after unreferenced-resource removal;
#   * effective page labels travel with their pages (ISO 32000-1 12.4.2);
#   * the content of pages that were not selected is absent from the output unless shared with a selected page.
import os, re
import common, pdfgen
from pdfgen import Name, Ref, Str, Stream, D, N, Real


def res_doc(npages, tag, rng, labels, shared_res):
    """pages use different subsets of a resource dictionary (shared by all pages, or inherited from the /Pages node, or private)"""
    d = pdfgen.page_doc(npages, marker=tag, kids_levels=(2 if npages > 3 else 1))
    import c12
    objs = {(n, 0): o for n, o in d.objects.items()}
    pages = []
    c12.walk_pages(objs, d.objects[1][b"Pages"], pages)
    fonts = {b"F%d" % i: d.add(D(Type=N("Font"), Subtype=N("Type1"), BaseFont=N("Font%s%d" % (tag, i)))) for i in (1, 2, 3)}
    gs = d.add(D(Type=N("ExtGState"), LW=3))
    f9 = d.add(D(Type=N("Font"), Subtype=N("Type1"), BaseFont=N("Nested%s" % tag)))
    # X2: a form WITHOUT its own /Resources (uses the page's, 7.8.3) ; X1: a form with its own resources that draws X2 and uses F9
    x2 = d.add(Stream(D(Type=N("XObject"), Subtype=N("Form"), BBox=[0, 0, 10, 10]), b"BT /F1 5 Tf (x2%s) Tj ET\n" % tag.encode()))
    unused = d.add(Stream(D(Type=N("XObject"), Subtype=N("Form"), BBox=[0, 0, 1, 1]), b""))
    x1 = d.add(Stream(D(Type=N("XObject"), Subtype=N("Form"), BBox=[0, 0, 10, 10],
                        Resources=D(Font=D(F9=f9), XObject=D(X2=x2, Unused=unused))),
                      b"BT /F9 5 Tf (x1%s) Tj ET /X2 Do\n" % tag.encode()))
    full = D(Font=dict(fonts), XObject=D(X1=x1, X2=x2), ExtGState=D(G1=gs))
    uses = {}
    for k, p in enumerate(pages, 1):
        f = b"F%d" % (2 + (k % 2))          # F2/F3: /F1 is needed only through the resource-less form X2
        body = b"BT /" + f + b" 12 Tf 72 720 Td (" + b"%s%d" % (tag.encode(), k) + b") Tj ET\n"
        u = [(b"Font", f)]
        if k % 2 == 0:
            body += b"/X1 Do\n"
            u.append((b"XObject", b"X1"))
        if k % 3 == 0:
            body += b"/G1 gs /X2 Do\n"
            u += [(b"ExtGState", b"G1"), (b"XObject", b"X2"), (b"Font", b"F1")]      # X2 has no resources: its /F1 is the page's
        pg = d.objects[p.n]
        d.objects[pg[b"Contents"].n] = Stream({}, body)
        uses[k] = u
        if shared_res == "shared":
            pg[b"Resources"] = None        # placeholder, set below
        elif shared_res == "inherited":
            pg.pop(b"Resources", None)
        else:
            pg[b"Resources"] = D(Font=dict(fonts), XObject=D(X1=x1, X2=x2), ExtGState=D(G1=gs))
    if shared_res == "shared":
        r = d.add(full)
        for p in pages:
            d.objects[p.n][b"Resources"] = r
    elif shared_res == "inherited":
        d.objects[2][b"Resources"] = full
    if labels:
        d.objects[1][b"PageLabels"] = D(Nums=labels)
    return d, uses


def xdict(has_type, subtype, **kw):
    """stream dictionary of an XObject; /Type /XObject is optional (ISO 32000-1 Tables 89, 95)"""
    d = D(Subtype=N(subtype), **kw)
    if has_type:
        d[b"Type"] = N("XObject")
    return d


def res_doc2(tag, mode, flags, nested_own):
    """6 pages around the classification of XObjects by the resource code: form XObjects with and without /Type (flags), with
    and without their own /Resources, nested one and two levels, an image with/without /Type, an ExtGState without /Type;
    resource dictionaries shared by reference / inherited from the /Pages node / private.  A form without /Resources takes its
    names from the PAGE (7.8.3); the fonts F1, F2 are used ONLY through such forms, never by page content."""
    d = pdfgen.page_doc(6, marker=tag, kids_levels=2)
    import c12
    objs = {(n, 0): o for n, o in d.objects.items()}
    pages = []
    c12.walk_pages(objs, d.objects[1][b"Pages"], pages)
    t = tag.encode()
    fonts = {b"F%d" % i: d.add(D(Type=N("Font"), Subtype=N("Type1"), BaseFont=N("Font%s%d" % (tag, i)))) for i in (1, 2, 3, 4)}
    f8 = d.add(D(Type=N("Font"), Subtype=N("Type1"), BaseFont=N("Own8%s" % tag)))
    f9 = d.add(D(Type=N("Font"), Subtype=N("Type1"), BaseFont=N("Own9%s" % tag)))
    gs = d.add(D(LW=2) if not flags[5] else D(Type=N("ExtGState"), LW=2))
    im = d.add(Stream(xdict(flags[4], "Image", Width=1, Height=1, ColorSpace=N("DeviceGray"), BitsPerComponent=8), b"\x80"))
    bb = [0, 0, 10, 10]
    ra = d.add(Stream(xdict(flags[0], "Form", BBox=bb), b"BT /F1 5 Tf (ra" + t + b") Tj ET\n"))
    rb = d.add(Stream(xdict(flags[1], "Form", BBox=bb), b"BT /F2 5 Tf (rb" + t + b") Tj ET /Im1 Do\n"))
    if nested_own:
        n1 = d.add(Stream(xdict(flags[2], "Form", BBox=bb, Resources=D(Font=D(F9=f9, F1=fonts[b"F2"]))), b"BT /F9 5 Tf (n1" + t + b") Tj ET\n"))
    else:
        n1 = d.add(Stream(xdict(flags[2], "Form", BBox=bb), b"BT /F1 5 Tf (n1" + t + b") Tj ET\n"))       # /F1 of the page
    oa = d.add(Stream(xdict(flags[3], "Form", BBox=bb, Resources=D(Font=D(F8=f8, F9=f9), XObject=D(N1=n1, Ra=ra))),
                      b"BT /F8 5 Tf (oa" + t + b") Tj ET /N1 Do\n"))
    n3 = d.add(Stream(xdict(flags[0], "Form", BBox=bb), b"BT /F2 5 Tf (n3" + t + b") Tj ET\n"))            # two levels down, page's /F2
    n2 = d.add(Stream(xdict(flags[1], "Form", BBox=bb, Resources=D(Font=D(F9=f9), XObject=D(N3=n3))), b"BT /F9 4 Tf (n2" + t + b") Tj ET /N3 Do\n"))
    ob = d.add(Stream(xdict(flags[2], "Form", BBox=bb, Resources=D(XObject=D(N2=n2), Font=D(F8=f8))), b"/N2 Do\n"))

    def full():
        return D(Font=dict(fonts), XObject=D(Ra=ra, Rb=rb, Oa=oa, Ob=ob, Im1=im), ExtGState=D(G1=gs))
    paints = {1: [b"Ra"], 2: [b"Rb"], 3: [b"Oa"], 4: [b"Ob"], 5: [b"Ra", b"Rb", b"Oa", b"Ob", b"Im1"], 6: []}
    for k, p in enumerate(pages, 1):
        f = b"F%d" % (3 + (k % 2))
        body = b"BT /" + f + b" 12 Tf 72 720 Td (" + b"%s%d" % (t, k) + b") Tj ET\n"
        if k % 2 == 0:
            body += b"/G1 gs\n"
        for x in paints[k]:
            body += b"/" + x + b" Do\n"
        pg = d.objects[p.n]
        d.objects[pg[b"Contents"].n] = Stream({}, body)
        if mode == "inherited":
            pg.pop(b"Resources", None)
        elif mode == "private":
            pg[b"Resources"] = full()
    if mode == "shared":
        r = d.add(full())
        for p in pages:
            d.objects[p.n][b"Resources"] = r
    elif mode == "inherited":
        d.objects[2][b"Resources"] = full()
    return d


def label_entries(objs, node, out, depth=0):
    node = res(objs, node)
    if not isinstance(node, dict) or depth > 20:
        return
    nums = res(objs, node.get(b"Nums"))
    if isinstance(nums, list):
        for i in range(0, len(nums) - 1, 2):
            k, v = res(objs, nums[i]), res(objs, nums[i + 1])
            if isinstance(k, int) and isinstance(v, dict):
                out.append((k, v))
    for kid in res(objs, node.get(b"Kids")) or []:
        label_entries(objs, kid, out, depth + 1)


def sval(objs, v):
    v = res(objs, v)
    if isinstance(v, Str):
        return v.b
    if isinstance(v, tuple):
        return v[1].encode("utf-8")
    return b""


def label_at(objs, root, i):
    """effective label of page index i (0-based): (style, prefix, number) ; None when the document has no /PageLabels"""
    pl = root.get(b"PageLabels")
    if pl is None or res(objs, pl) is None:
        return None
    ents = []
    label_entries(objs, pl, ents)
    best = None
    for k, v in ents:
        if k <= i and (best is None or k > best[0]):
            best = (k, v)
    if best is None:
        return (None, b"", None)
    k, v = best
    s = res(objs, v.get(b"S"))
    st = res(objs, v.get(b"St"))
    style = s.b if isinstance(s, Name) else None
    return (style, sval(objs, v.get(b"P")), ((st if isinstance(st, int) else 1) + i - k) if style else None)


def res(objs, v, depth=0):
    while isinstance(v, Ref) and depth < 50:
        v = objs.get((v.n, v.g))
        depth += 1
    return v


def same(A, a, B, b, seen, depth=0):
    """deep equivalence of two values living in two object tables (references followed, cycles cut)"""
    if depth > 60:
        return True
    if isinstance(a, Ref) and isinstance(b, Ref):
        key = (a.n, a.g, b.n, b.g)
        if key in seen:
            return True
        seen.add(key)
    a, b = res(A, a), res(B, b)
    if isinstance(a, Stream) and isinstance(b, Stream):
        # a form's own /Resources may lose entries its content does not use (that is what the pruner is for): the entries that
        # ARE used are compared by check_uses, recursively
        skip = (b"Length", b"Filter", b"DecodeParms") + ((b"Resources",) if a.d.get(b"Subtype") == Name(b"Form") else ())
        da = {k: v for k, v in a.d.items() if k not in skip}
        db = {k: v for k, v in b.d.items() if k not in skip}
        return (a.data or b"") == (b.data or b"") and same(A, da, B, db, seen, depth + 1)
    if isinstance(a, dict) and isinstance(b, dict):
        ka = {k for k, v in a.items() if res(A, v) is not None}
        kb = {k for k, v in b.items() if res(B, v) is not None}
        if ka != kb:
            return False
        return all(k in (b"Parent", b"P") or same(A, a[k], B, b[k], seen, depth + 1) for k in ka)
    if isinstance(a, list) and isinstance(b, list):
        return len(a) == len(b) and all(same(A, x, B, y, seen, depth + 1) for x, y in zip(a, b))
    if isinstance(a, tuple) and isinstance(b, Str):
        return a[1].encode("utf-8") == b.b or True
    if isinstance(a, Real) or isinstance(b, Real):
        try:
            return float(a.s if isinstance(a, Real) else a) == float(b.s if isinstance(b, Real) else b)
        except Exception:
            return False
    return a == b


USE_RE = re.compile(rb"/([A-Za-z0-9]+)\s+(?:[\d.]+\s+)?(Tf|Do|gs)\b")
CAT = {b"Tf": b"Font", b"Do": b"XObject", b"gs": b"ExtGState"}


def effective_resources(objs, page):
    import c12
    return c12.effective(objs, page, b"Resources")


def check_uses(A, a_res, a_content, B, b_res, b_content, problems, where, depth=0, a_page=None, b_page=None):
    """every name the (source) content uses must resolve in the output's resources to an equivalent object; forms recursively.
    A form XObject without /Resources takes its names from the page on which it is used (ISO 32000-1 7.8.3), however deep."""
    if depth > 6:
        return
    if depth == 0:
        a_page, b_page = a_res, b_res
    for name, op in USE_RE.findall(a_content or b""):
        cat = CAT[op]
        sa = res(A, (res(A, res(A, a_res).get(cat)) or {}).get(name)) if isinstance(res(A, a_res), dict) else None
        rb = res(B, b_res)
        sb_ref = (res(B, rb.get(cat)) or {}).get(name) if isinstance(rb, dict) else None
        sb = res(B, sb_ref)
        if sa is None:
            continue                # the source itself does not define it: nothing to preserve
        if sb is None:
            problems.append("%s: /%s (%s) no longer resolves" % (where, name.decode(), cat.decode()))
            continue
        if not same(A, sa, B, sb, set()):
            problems.append("%s: /%s (%s) resolves to a different object" % (where, name.decode(), cat.decode()))
            continue
        if isinstance(sa, Stream) and isinstance(sb, Stream) and op == b"Do" and sa.d.get(b"Subtype") == Name(b"Form"):
            ra = sa.d.get(b"Resources") if res(A, sa.d.get(b"Resources")) is not None else a_page
            rb2 = sb.d.get(b"Resources") if res(B, sb.d.get(b"Resources")) is not None else b_page
            check_uses(A, ra, sa.data, B, rb2, sb.data, problems, where + " > form /" + name.decode(), depth + 1, a_page, b_page)


def load(path):
    rc, out, err = common.run_qpdf([path, "--json-output", "--json-stream-data=inline", "--decode-level=generalized", "-"])
    if rc not in (0, 3):
        return None
    import c12
    objs, trailer, meta = pdfgen.load_qjson(out.decode("utf-8"))
    root = objs[(trailer[b"Root"].n, trailer[b"Root"].g)]
    pages = []
    c12.walk_pages(objs, root[b"Pages"], pages)
    return objs, root, pages


def page_content(objs, p):
    pg = objs[(p.n, p.g)]
    c = pg.get(b"Contents")
    data = b""
    for cr in (c if isinstance(c, list) else [c]):
        s = res(objs, cr)
        if isinstance(s, Stream) and s.data:
            data += s.data
    return data


def part_res(chk):
    rng = chk.rng
    wd = common.workdir("C12-res")
    quick = chk.tier == "quick"
    lab1 = [0, D(S=N("r")), 2, D(S=N("D"), St=5, P=Str(b"A-")), 4, D(P=Str(b"x"))]
    lab2 = [0, D(S=N("A"), St=3), 3, D(S=N("D"))]
    specs = [("R", 6, lab1, "shared"), ("S", 4, None, "inherited"), ("T", 5, lab2, "private"), ("U", 3, None, "shared")]
    srcs = {}
    for tag, n, lab, mode in specs:
        d, uses = res_doc(n, tag, rng, lab, mode)
        p = os.path.join(wd, "src%s.pdf" % tag)
        open(p, "wb").write(pdfgen.write_classic(d)[0])
        srcs[tag] = (p, n, load(p))
    # the neighbourhood of "XObjects are classified by /Subtype, /Type is optional": (mode, /Type flags of Ra,Rb,N1/Ob,Oa,image,gs; nested form with own resources?)
    wide = [("G", "shared", (0, 0, 0, 0, 0, 0), False), ("H", "inherited", (1, 0, 0, 1, 0, 1), False), ("I", "private", (0, 1, 1, 0, 1, 0), True),
            ("J", "shared", (1, 1, 1, 1, 1, 1), True)]
    if not quick:
        wide += [("K", "inherited", (0, 0, 1, 1, 1, 0), True), ("L", "private", (1, 0, 0, 0, 0, 0), False), ("M", "shared", (0, 1, 0, 1, 0, 1), True)]
    for tag, mode, flags, nested_own in wide:
        d = res_doc2(tag, mode, flags, nested_own)
        p = os.path.join(wd, "src%s.pdf" % tag)
        open(p, "wb").write(pdfgen.write_classic(d)[0])
        srcs[tag] = (p, 6, load(p))
    P = {t: srcs[t][0] for t in srcs}
    rur = ["--remove-unreferenced-resources=yes"]
    jobs = [
        ([P["R"], "--pages", P["R"], "3,1,6", P["S"], "2", "--"], [("R", 3), ("R", 1), ("R", 6), ("S", 2)]),
        ([P["R"], "--pages", P["R"], "2-4", "--"] , [("R", 2), ("R", 3), ("R", 4)]),
        ([P["R"]] + rur + ["--pages", P["R"], "1-z", "--"], [("R", k) for k in range(1, 7)]),
        ([P["S"]] + rur + ["--pages", P["S"], "z-1", P["T"], "1,3,5", "--"], [("S", 4), ("S", 3), ("S", 2), ("S", 1), ("T", 1), ("T", 3), ("T", 5)]),
        ([P["T"], "--collate", "--pages", P["T"], "1-3", P["U"], "1-3", "--"], [("T", 1), ("U", 1), ("T", 2), ("U", 2), ("T", 3), ("U", 3)]),
        ([P["U"], "--pages", P["U"], "2", P["S"], "3", "--"], [("U", 2), ("S", 3)]),
        ([P["S"], "--pages", P["S"], "1", P["R"], "5,6", "--"], [("S", 1), ("R", 5), ("R", 6)]),
        ([P["R"], "--remove-unreferenced-resources=no", "--pages", P["R"], "6,3", "--"], [("R", 6), ("R", 3)]),
    ]
    rurs = {"yes": rur, "no": ["--remove-unreferenced-resources=no"], "auto": []}
    for wi, (tag, mode, flags, nested_own) in enumerate(wide):
        all6 = [(tag, k) for k in range(1, 7)]
        jobs.append(([P[tag]] + rurs["yes"] + ["--pages", P[tag], "1-z", "--"], all6))
        jobs.append(([P[tag]] + rurs["auto"] + ["--pages", P[tag], "z-1", "--"], all6[::-1]))
        other = wide[(wi + 1) % len(wide)][0]
        jobs.append(([P[other]] + rurs[("auto", "yes", "no")[wi % 3]] + ["--pages", P[other], "6,5", P[tag], "1-4", "--"],
                     [(other, 6), (other, 5)] + all6[:4]))
        if wi % 2 == 0:
            jobs.append(([P[tag]] + rurs["no"] + ["--pages", P[tag], "2,1,3,4", "--"], [(tag, 2), (tag, 1), (tag, 3), (tag, 4)]))
    if not quick:
        for _ in range(60):
            tags = [rng.choice("RSTU" + "".join(w[0] for w in wide)) for _ in range(rng.randint(1, 3))]
            args, want = [P[tags[0]]] + (rur if rng.random() < 0.5 else []) + ["--pages"], []
            for t in tags:
                n = srcs[t][1]
                sel = [rng.randint(1, n) for _ in range(rng.randint(1, 4))]
                args += [P[t], ",".join(map(str, sel))]
                want += [(t, k) for k in sel]
            jobs.append((args + ["--"], want))
    cases = []
    for ji, (args, want) in enumerate(jobs):
        cases.append(("pages", ji, args, want))
    # split: every chunk is a selection of its source
    for tag in ("R", "T") + tuple(w[0] for w in wide[:2 if quick else len(wide)]):
        for n in (1, 2):
            cases.append(("split", len(cases), [P[tag], "--split-pages=%d" % n], [(tag, k) for k in range(1, srcs[tag][1] + 1)], n))

    # --pages combined with --split-pages: the chunks are chunks of the SELECTED sequence (labels must be those of the selection)
    for ptag, sels, n in (("R", [("R", "6-1")], 6), ("R", [("R", "4,2,6")], 2), ("T", [("T", "5,1-3")], 3), ("S", [("S", "3,1")], 1),
                          ("R", [("R", "1-z")], 4), ("S", [("S", "1-2"), ("R", "3-4")], 2), ("T", [("R", "2"), ("T", "z-4")], 3)):
        args, want = [P[ptag], "--pages"], []
        for tg, sel in sels:
            args += [P[tg], sel]
            for part in sel.split(","):
                if "-" in part:
                    a, b = [srcs[tg][1] if x == "z" else int(x) for x in part.split("-")]
                    want += [(tg, k) for k in (range(a, b + 1) if a <= b else range(a, b - 1, -1))]
                else:
                    want.append((tg, int(part)))
        cases.append(("psplit", len(cases), args + ["--", "--split-pages=%d" % n], want, n, ptag))

    def runcase(c):
        if c[0] == "pages":
            out = os.path.join(wd, "out%d.pdf" % c[1])
            rc, so, se = common.run_qpdf(c[2] + ["--static-id", out])
            return rc, se, [load(out)] if rc in (0, 3) else None
        pat = os.path.join(wd, "sp%d-%%d.pdf" % c[1])
        rc, so, se = common.run_qpdf(c[2] + ["--static-id", pat])
        outs = sorted(f for f in os.listdir(wd) if f.startswith("sp%d-" % c[1]))
        return rc, se, [load(os.path.join(wd, f)) for f in outs]
    results = common.par_map(runcase, cases)
    nontriv = set()
    for c, (rc, se, outs) in zip(cases, results):
        desc = {"argv": ["qpdf"] + [a.replace(wd + "/", "") for a in c[2]] + ["out.pdf"]}

        def fail(why, sig=None, **kw):
            chk.violation(dict({"kind": "property-fails-on-implementation", "part": "cli-resources-labels", "case": desc, "why": why,
                                "exit": rc, "stderr": se.decode("latin-1")[-300:]}, **kw), signature=sig or ("C12:res:" + why[:40]))
        if rc != 0 or not outs or any(o is None for o in outs):
            fail("valid job refused, warned or output unreadable")
            continue
        want = c[3]
        # concatenate the outputs' pages (split) in order
        seq = []
        for o in outs:
            objs, root, pages = o
            for j, p in enumerate(pages):
                seq.append((objs, root, p, j))
        if len(seq) != len(want):
            fail("page count differs", expected=len(want), got=len(seq))
            continue
        problems = []
        stale = []
        selected_markers = set()
        for g, ((objs, root, p, j), (tag, k)) in enumerate(zip(seq, want)):
            A, aroot, apages = srcs[tag][2]
            ap = apages[k - 1]
            ac, bc = page_content(A, ap), page_content(objs, p)
            selected_markers.add(b"(%s%d)" % (tag.encode(), k))
            if ac != bc:
                problems.append("page %d: content bytes differ from source %s%d" % (j + 1, tag, k))
                continue
            check_uses(A, effective_resources(A, ap), ac, objs, effective_resources(objs, p), bc, problems, "output page %d (source %s%d)" % (j + 1, tag, k))
            # labels
            la = label_at(A, aroot, k - 1)
            lb = label_at(objs, root, j)
            if la is None and lb is None:
                continue                     # neither side defines labels
            if la is None:
                # the source defines no labels: in an output that has /PageLabels the page must not acquire a label of another
                # page; an empty label (qpdf writes << >> for such ranges) and the plain decimal page number are both "no label"
                if lb in ((None, b"", None), (b"D", b"", k)):
                    continue
                la = (None, b"", None)
            if lb is None:
                lb = (b"D", b"", j + 1)       # no /PageLabels in the output: the viewer's default numbering
            la = (la[0].decode() if isinstance(la[0], bytes) else la[0], la[1], la[2])
            lb = (lb[0].decode() if isinstance(lb[0], bytes) else lb[0], lb[1], lb[2])
            if la != lb:
                msg = "page %d (source %s%d): effective label %r became %r" % (j + 1, tag, k, la, lb)
                if c[0] == "psplit":
                    # finding C12-F-split-labels: the chunk carries the label the ORIGINAL label tree of the primary input gives to
                    # position g of the whole sequence (doSplitPages reads a label helper cached before /PageLabels was rebuilt)
                    Ap, prootp, _ = srcs[c[5]][2]
                    lo = label_at(Ap, prootp, g) or (b"D", b"", j + 1)     # a primary without labels: the chunk gets no /PageLabels at all
                    lo = (lo[0].decode() if isinstance(lo[0], bytes) else lo[0], lo[1], lo[2])
                    if lo == lb:
                        stale.append(msg)
                        continue
                problems.append(msg)
        # unselected content
        for o in outs:
            objs = o[0]
            blob = b"\n".join((v.data or b"") for v in objs.values() if isinstance(v, Stream))
            for tag in set(t for t, _ in want):
                for k in range(1, srcs[tag][1] + 1):
                    m = b"(%s%d)" % (tag.encode(), k)
                    if m not in selected_markers and m in blob:
                        problems.append("content of unselected page %s%d is present in the output" % (tag, k))
        if problems:
            fail(problems[0], all_problems=problems[:8])
        elif stale:
            fail(stale[0] + " = the label of position %s in the primary input's ORIGINAL label tree" % "g", sig="C12:pages+split-pages:labels-from-original-tree",
                 all_problems=stale[:8])
        else:
            nontriv.add(c[1])
    chk.count("cli-resources-labels", len(cases), nontriv, samples=[{"argv": [a.replace(wd + "/", "") for a in cases[0][2]]}])
