(* Proofs for C15 (filters). Statements are fixed; Props/Properties_C15.v re-exports them. *)
From QV Require Import Base.Bytes Filters.Filters Filters.FilterSpec.
From Coq Require Import Lia.
Local Open Scope N_scope.

Definition bytes_ok (d : list N) : Prop := Forall (fun b => b < 256) d.

(* ---- chunking independence: any split of the input into write() calls gives the same result ---- *)
Lemma write_bytes_app : forall (S : Type) (step : S -> N -> S * list N * bool) (a b : list N) (s : S),
  write_bytes step s (a ++ b) =
  let '(s1, o1, e1) := write_bytes step s a in
  if e1 then (s1, o1, true)
  else let '(s2, o2, e2) := write_bytes step s1 b in (s2, o1 ++ o2, e2).
Proof.
  intros S step a b. induction a as [|x a IH]; intros s.
  - cbn [app write_bytes]. destruct (write_bytes step s b) as [[s2 o2] e2]. reflexivity.
  - cbn [app write_bytes]. destruct (step s x) as [[s1 o1] e1].
    destruct e1; [reflexivity|].
    rewrite IH. destruct (write_bytes step s1 a) as [[s2 o2] e2].
    destruct e2; [reflexivity|].
    destruct (write_bytes step s2 b) as [[s3 o3] e3]. rewrite app_assoc. reflexivity.
Qed.

Lemma run_chunks_write_bytes : forall (S : Type) (step : S -> N -> S * list N * bool) (cs : list (list N)) (s : S),
  run_chunks step s cs = write_bytes step s (concat cs).
Proof.
  intros S step cs. induction cs as [|c cs IH]; intros s.
  - reflexivity.
  - cbn [run_chunks concat]. rewrite write_bytes_app.
    destruct (write_bytes step s c) as [[s1 o1] e1].
    destruct e1; [reflexivity|]. rewrite IH. reflexivity.
Qed.

Lemma run_chunks_concat_lemma : forall (S : Type) (step : S -> N -> S * list N * bool) (s : S) (cs : list (list N)),
  run_chunks step s cs = run_chunks step s [concat cs].
Proof.
  intros S step s cs. rewrite !run_chunks_write_bytes.
  cbn [concat]. rewrite app_nil_r. reflexivity.
Qed.

Lemma chunking_ahx_lemma : forall cs, ahx_run cs = ahx_run [concat cs].
Proof. intros cs. unfold ahx_run. rewrite run_chunks_concat_lemma. reflexivity. Qed.
Lemma chunking_a85_lemma : forall cs, a85_run cs = a85_run [concat cs].
Proof. intros cs. unfold a85_run. rewrite run_chunks_concat_lemma. reflexivity. Qed.
Lemma chunking_rle_lemma : forall cs, rle_run cs = rle_run [concat cs].
Proof. intros cs. unfold rle_run. rewrite run_chunks_concat_lemma. reflexivity. Qed.
Lemma chunking_rld_lemma : forall cs, rld_run cs = rld_run [concat cs].
Proof. intros cs. unfold rld_run. rewrite run_chunks_concat_lemma. reflexivity. Qed.
Lemma chunking_lzw_lemma : forall early cs, lzw_run early cs = lzw_run early [concat cs].
Proof. intros early cs. unfold lzw_run. rewrite run_chunks_concat_lemma. reflexivity. Qed.

Lemma run_chunks_single : forall (S : Type) (step : S -> N -> S * list N * bool) (s : S) (l : list N),
  run_chunks step s [l] = write_bytes step s l.
Proof. intros. rewrite run_chunks_write_bytes. cbn [concat]. rewrite app_nil_r. reflexivity. Qed.

(* ---- decoders invert the reference encoders ---- *)
Definition ahx_dig_ok (lower : bool) (v : N) : bool :=
  let ch := c_toupper (hex_digit lower v) in
  negb (ahx_is_ws ch) && negb (ch =? 62) &&
  (((48 <=? ch) && (ch <=? 57)) || ((65 <=? ch) && (ch <=? 70))) && (hexdig_val ch =? v).

Lemma ahx_dig_ok_all : forall lower v, v < 16 -> ahx_dig_ok lower v = true.
Proof.
  intros lower v Hv.
  assert (H : forall b, b < 256 -> ((16 <=? b) || ahx_dig_ok lower b) = true).
  { apply byte_sweep. destruct lower; vm_compute; reflexivity. }
  specialize (H v ltac:(lia)). apply orb_true_iff in H. destruct H as [H|H]; [|exact H].
  apply N.leb_le in H. lia.
Qed.

Lemma ahx_ws_toupper : forall c, ahx_is_ws c = true -> c_toupper c = c.
Proof.
  intros c H. unfold ahx_is_ws in H. rewrite !orb_true_iff, !N.eqb_eq in H.
  destruct H as [[[[[H|H]|H]|H]|H]|H]; subst c; reflexivity.
Qed.

Lemma ahx_skip_ws : forall ws rest s, ws_only ws -> ahx_eod s = false ->
  write_bytes ahx_step s (ws ++ rest) = write_bytes ahx_step s rest.
Proof.
  induction ws as [|c ws IH]; intros rest s Hws Heod; [reflexivity|].
  inversion Hws as [|? ? Hc Hws']; subst.
  cbn [app write_bytes]. unfold ahx_step at 1. rewrite Heod.
  cbv zeta. rewrite (ahx_ws_toupper c Hc), Hc.
  rewrite IH by assumption.
  destruct (write_bytes ahx_step s rest) as [[s2 o2] e2]. reflexivity.
Qed.

Lemma ahx_byte_value : forall b, b < 256 -> (b / 16 * 16 + b mod 16) mod 256 = b.
Proof.
  intros b Hb. pose proof (N.div_mod b 16 ltac:(lia)) as H.
  rewrite N.mod_small by lia. lia.
Qed.

Lemma ahx_main : forall d style s, bytes_ok d -> style_ok style ->
  ahx_eod s = false -> ahx_pos s = 0 ->
  exists s', write_bytes ahx_step s (ref_ahx_encode d style) = (s', d, false) /\ ahx_pos s' = 0.
Proof.
  induction d as [|b d IH]; intros style s Hd Hst Heod Hpos.
  - cbn [ref_ahx_encode write_bytes]. unfold ahx_step. rewrite Heod.
    change (c_toupper 62) with 62. change (ahx_is_ws 62) with false. change (62 =? 62) with true.
    cbv iota zeta. unfold ahx_flush. cbn [ahx_pos]. rewrite Hpos. change (0 =? 0) with true.
    cbv iota. eexists. split; [reflexivity|]. reflexivity.
  - inversion Hd as [|? ? Hb Hd']; subst.
    cbn [ref_ahx_encode].
    assert (Hsty : exists lower ws1 ws2 style', ws_only ws1 /\ ws_only ws2 /\ style_ok style' /\
       match style with (l, w1, w2) :: s' => (l, w1, w2, s') | [] => (false, [], [], []) end
       = (lower, ws1, ws2, style')).
    { destruct style as [|[[l w1] w2] style'].
      - exists false, [], [], []. repeat split; constructor.
      - inversion Hst as [|? ? [Hw1 Hw2] Hst']; subst. cbn [fst snd] in *.
        exists l, w1, w2, style'. repeat split; assumption. }
    destruct Hsty as (lower & ws1 & ws2 & style' & Hw1 & Hw2 & Hst' & Heq). rewrite Heq.
    rewrite ahx_skip_ws by assumption.
    assert (Hhi : b / 16 < 16) by (apply N.div_lt_upper_bound; lia).
    assert (Hlo : b mod 16 < 16) by (apply N.mod_lt; lia).
    pose proof (ahx_dig_ok_all lower _ Hhi) as Ok1.
    pose proof (ahx_dig_ok_all lower _ Hlo) as Ok2.
    unfold ahx_dig_ok in Ok1, Ok2. cbv zeta in Ok1, Ok2.
    rewrite !andb_true_iff, !negb_true_iff in Ok1, Ok2.
    destruct Ok1 as [[[Ha1 Hb1] Hc1] Hd1]. destruct Ok2 as [[[Ha2 Hb2] Hc2] Hd2].
    apply N.eqb_eq in Hd1, Hd2.
    cbn [app write_bytes]. unfold ahx_step at 1. rewrite Heod. cbv zeta.
    rewrite Ha1, Hb1, Hc1, Hpos. change (0 =? 0) with true. cbv iota. cbn [ahx_pos].
    change (1 =? 2) with false. cbv iota.
    rewrite ahx_skip_ws by (try assumption; reflexivity).
    cbn [app write_bytes]. unfold ahx_step at 1. cbn [ahx_eod ahx_pos ahx_c0 ahx_c1]. cbv zeta.
    rewrite Ha2, Hb2, Hc2. change (1 =? 0) with false. cbv iota. cbn [ahx_pos].
    change (2 =? 2) with true. cbv iota. unfold ahx_flush. cbn [ahx_eod ahx_pos ahx_c0 ahx_c1].
    change (2 =? 0) with false. cbv iota.
    rewrite Hd1, Hd2, (ahx_byte_value b Hb).
    destruct (IH style' {| ahx_eod := false; ahx_pos := 0; ahx_c0 := 48; ahx_c1 := 48 |} Hd' Hst'
                eq_refl eq_refl) as (s' & Hs' & Hp').
    rewrite Hs'. exists s'. split; [reflexivity|exact Hp'].
Qed.

Lemma ahx_decode_encode_lemma : forall d style, bytes_ok d -> style_ok style ->
  ahx_run [ref_ahx_encode d style] = (d, false).
Proof.
  intros d style Hd Hst. unfold ahx_run. rewrite run_chunks_single.
  destruct (ahx_main d style ahx_init Hd Hst eq_refl eq_refl) as (s' & Hs' & Hp').
  rewrite Hs'. unfold ahx_flush. rewrite Hp'. change (0 =? 0) with true. cbv iota.
  cbn [snd]. rewrite app_nil_r. reflexivity.
Qed.

Ltac divmod_lia := zify; Z.to_euclidean_division_equations; lia.

Lemma a85_digits_sum : forall v, v < 4294967296 ->
  (v / 52200625) mod 85 * 52200625 + (v / 614125) mod 85 * 614125 + (v / 7225) mod 85 * 7225
  + (v / 85) mod 85 * 85 + v mod 85 = v.
Proof.
  intros v Hv.
  assert (E4 : v / 52200625 = v / 85 / 85 / 85 / 85) by (rewrite !N.div_div by lia; reflexivity).
  assert (E3 : v / 614125 = v / 85 / 85 / 85) by (rewrite !N.div_div by lia; reflexivity).
  assert (E2 : v / 7225 = v / 85 / 85) by (rewrite !N.div_div by lia; reflexivity).
  rewrite E4, E3, E2.
  set (q1 := v / 85). set (q2 := q1 / 85). set (q3 := q2 / 85). set (q4 := q3 / 85).
  pose proof (N.div_mod v 85 ltac:(lia)) as H1. fold q1 in H1.
  pose proof (N.div_mod q1 85 ltac:(lia)) as H2. fold q2 in H2.
  pose proof (N.div_mod q2 85 ltac:(lia)) as H3. fold q3 in H3.
  pose proof (N.div_mod q3 85 ltac:(lia)) as H4. fold q4 in H4.
  assert (Hq4 : q4 < 85).
  { unfold q4, q3, q2, q1. rewrite !N.div_div by lia. apply N.div_lt_upper_bound; lia. }
  rewrite (N.mod_small q4 85 Hq4).
  pose proof (N.mod_lt v 85 ltac:(lia)). pose proof (N.mod_lt q1 85 ltac:(lia)).
  pose proof (N.mod_lt q2 85 ltac:(lia)). pose proof (N.mod_lt q3 85 ltac:(lia)).
  lia.
Qed.

Lemma be32_lt : forall a b c e, a < 256 -> b < 256 -> c < 256 -> e < 256 -> be32 a b c e < 4294967296.
Proof. intros. unfold be32. lia. Qed.

Lemma be_bytes4_be32 : forall a b c e, a < 256 -> b < 256 -> c < 256 -> e < 256 ->
  be_bytes4 (be32 a b c e) = [a; b; c; e].
Proof.
  intros a b c e Ha Hb Hc He. unfold be_bytes4, be32.
  repeat (apply f_equal2; [divmod_lia|]). reflexivity.
Qed.

Definition a85_dig (c : N) : Prop := 33 <= c <= 117.

Lemma a85_digit_step : forall c buf, a85_dig c ->
  a85_step {| a85_eod := 0; a85_buf := buf |} c =
  if N.of_nat (length (buf ++ [c])) =? 5
  then (a85_init, a85_flush (buf ++ [c]), false)
  else ({| a85_eod := 0; a85_buf := buf ++ [c] |}, [], false).
Proof.
  intros c buf [Hlo Hhi]. unfold a85_step. cbn [a85_eod a85_buf].
  assert (Hws : ahx_is_ws c = false).
  { unfold ahx_is_ws. rewrite !orb_false_iff, !N.eqb_neq. repeat split; lia. }
  rewrite Hws. change (1 <? 0) with false. change (0 =? 1) with false. cbv iota.
  destruct (N.eqb_spec c 126); [lia|]. destruct (N.eqb_spec c 122); [lia|].
  destruct (N.ltb_spec c 33); [lia|]. destruct (N.ltb_spec 117 c); [lia|].
  cbn [orb]. reflexivity.
Qed.

Lemma a85_push : forall ds buf, Forall a85_dig ds -> (length buf + length ds < 5)%nat ->
  write_bytes a85_step {| a85_eod := 0; a85_buf := buf |} ds =
  ({| a85_eod := 0; a85_buf := buf ++ ds |}, [], false).
Proof.
  induction ds as [|c ds IH]; intros buf HF Hl.
  - cbn [write_bytes]. rewrite app_nil_r. reflexivity.
  - inversion HF as [|? ? Hc HF']; subst. cbn [write_bytes].
    rewrite (a85_digit_step c buf Hc). cbn [length] in Hl.
    destruct (N.eqb_spec (N.of_nat (length (buf ++ [c]))) 5) as [H5|H5].
    + rewrite app_length in H5. cbn [length] in H5. lia.
    + rewrite IH; [|exact HF'|rewrite app_length; cbn [length]; lia].
      rewrite <- app_assoc. reflexivity.
Qed.

Lemma a85_group : forall d1 d2 d3 d4 d5 rest,
  a85_dig d1 -> a85_dig d2 -> a85_dig d3 -> a85_dig d4 -> a85_dig d5 ->
  write_bytes a85_step a85_init ([d1; d2; d3; d4; d5] ++ rest) =
  let '(s2, o2, e2) := write_bytes a85_step a85_init rest in
  (s2, a85_flush [d1; d2; d3; d4; d5] ++ o2, e2).
Proof.
  intros d1 d2 d3 d4 d5 rest H1 H2 H3 H4 H5.
  change ([d1; d2; d3; d4; d5] ++ rest) with ([d1; d2; d3; d4] ++ (d5 :: rest)).
  rewrite write_bytes_app. unfold a85_init at 1.
  rewrite a85_push; [|repeat (apply Forall_cons; [assumption|]); apply Forall_nil|cbn; lia].
  cbn [write_bytes app]. rewrite (a85_digit_step d5 [d1; d2; d3; d4] H5).
  cbn [app length N.of_nat]. change (N.pos (Pos.of_succ_nat 4) =? 5) with true. cbv iota.
  destruct (write_bytes a85_step a85_init rest) as [[s2 o2] e2]. reflexivity.
Qed.

Lemma a85_tail : forall ds, Forall a85_dig ds -> (length ds < 5)%nat ->
  write_bytes a85_step a85_init (ds ++ [126; 62]) =
  ({| a85_eod := 2; a85_buf := [] |}, a85_flush ds, false).
Proof.
  intros ds HF Hl. rewrite write_bytes_app. unfold a85_init.
  rewrite a85_push; [|exact HF|cbn [length]; lia]. cbn [app write_bytes].
  change (a85_step {| a85_eod := 0; a85_buf := ds |} 126)
    with ({| a85_eod := 1; a85_buf := ds |}, @nil N, false).
  cbv iota beta.
  change (a85_step {| a85_eod := 1; a85_buf := ds |} 62)
    with ({| a85_eod := 2; a85_buf := [] |}, a85_flush ds, false).
  cbv iota beta. cbn [app]. rewrite app_nil_r. reflexivity.
Qed.

Lemma a85_dig_mod : forall x, a85_dig (33 + x mod 85).
Proof.
  intros x. pose proof (N.mod_lt x 85 ltac:(lia)) as H. unfold a85_dig.
  set (y := x mod 85) in *. clearbody y. lia.
Qed.

Lemma a85_flush_full : forall a b c e, a < 256 -> b < 256 -> c < 256 -> e < 256 ->
  a85_flush (a85_digits (be32 a b c e)) = [a; b; c; e].
Proof.
  intros a b c e Ha Hb Hc He.
  pose proof (be32_lt a b c e Ha Hb Hc He) as Hv.
  pose proof (a85_digits_sum _ Hv) as Hs.
  rewrite <- (be_bytes4_be32 a b c e Ha Hb Hc He).
  unfold a85_flush, a85_digits. cbn [pad_to fold_left length Nat.sub firstn].
  set (v := be32 a b c e) in *.
  set (x1 := (v / 52200625) mod 85) in *. set (x2 := (v / 614125) mod 85) in *.
  set (x3 := (v / 7225) mod 85) in *. set (x4 := (v / 85) mod 85) in *. set (x5 := v mod 85) in *.
  clearbody x1 x2 x3 x4 x5.
  replace (((((0 * 85 + (33 + x1 - 33)) * 85 + (33 + x2 - 33)) * 85 + (33 + x3 - 33)) * 85 + (33 + x4 - 33)) * 85
           + (33 + x5 - 33)) with v by lia.
  reflexivity.
Qed.

Lemma a85_byte0 : forall a l, a < 256 -> a * 16777216 <= l < (a + 1) * 16777216 ->
  (l / 16777216) mod 256 = a.
Proof. intros a l Ha Hl. divmod_lia. Qed.
Lemma a85_byte1 : forall a b l, a < 256 -> b < 256 ->
  a * 16777216 + b * 65536 <= l < a * 16777216 + (b + 1) * 65536 -> (l / 65536) mod 256 = b.
Proof. intros a b l Ha Hb Hl. divmod_lia. Qed.
Lemma a85_byte2 : forall a b c l, a < 256 -> b < 256 -> c < 256 ->
  a * 16777216 + b * 65536 + c * 256 <= l < a * 16777216 + b * 65536 + (c + 1) * 256 -> (l / 256) mod 256 = c.
Proof. intros a b c l Ha Hb Hc Hl. divmod_lia. Qed.

Lemma a85_flush_tail1 : forall a, a < 256 ->
  a85_flush (firstn 2 (a85_digits (be32 a 0 0 0))) = [a].
Proof.
  intros a Ha.
  assert (Hv : be32 a 0 0 0 < 4294967296) by (apply be32_lt; lia).
  pose proof (a85_digits_sum _ Hv) as Hs.
  unfold a85_flush, a85_digits, be_bytes4. cbn [pad_to fold_left length Nat.sub firstn].
  set (v := be32 a 0 0 0) in *.
  assert (Ev : v = a * 16777216) by (unfold v, be32; lia).
  pose proof (N.mod_lt (v / 52200625) 85 ltac:(lia)). pose proof (N.mod_lt (v / 614125) 85 ltac:(lia)).
  pose proof (N.mod_lt (v / 7225) 85 ltac:(lia)). pose proof (N.mod_lt (v / 85) 85 ltac:(lia)).
  pose proof (N.mod_lt v 85 ltac:(lia)).
  set (x1 := (v / 52200625) mod 85) in *. set (x2 := (v / 614125) mod 85) in *.
  set (x3 := (v / 7225) mod 85) in *. set (x4 := (v / 85) mod 85) in *. set (x5 := v mod 85) in *.
  clearbody x1 x2 x3 x4 x5. clearbody v.
  match goal with |- context [ ?l / 16777216 ] => set (lval := l) end.
  assert (Hlo : v <= lval) by (unfold lval; lia).
  assert (Hhi : lval < v + 16777216) by (unfold lval; lia).
  clearbody lval. clear Hs. subst v.
  repeat (apply f_equal2; [first [apply a85_byte0; lia | apply (a85_byte1 a); lia | apply (a85_byte2 a a); lia]|]). reflexivity.
Qed.

Lemma a85_flush_tail2 : forall a b, a < 256 -> b < 256 ->
  a85_flush (firstn 3 (a85_digits (be32 a b 0 0))) = [a; b].
Proof.
  intros a b Ha Hb.
  assert (Hv : be32 a b 0 0 < 4294967296) by (apply be32_lt; lia).
  pose proof (a85_digits_sum _ Hv) as Hs.
  unfold a85_flush, a85_digits, be_bytes4. cbn [pad_to fold_left length Nat.sub firstn].
  set (v := be32 a b 0 0) in *.
  assert (Ev : v = a * 16777216 + b * 65536) by (unfold v, be32; lia).
  pose proof (N.mod_lt (v / 52200625) 85 ltac:(lia)). pose proof (N.mod_lt (v / 614125) 85 ltac:(lia)).
  pose proof (N.mod_lt (v / 7225) 85 ltac:(lia)). pose proof (N.mod_lt (v / 85) 85 ltac:(lia)).
  pose proof (N.mod_lt v 85 ltac:(lia)).
  set (x1 := (v / 52200625) mod 85) in *. set (x2 := (v / 614125) mod 85) in *.
  set (x3 := (v / 7225) mod 85) in *. set (x4 := (v / 85) mod 85) in *. set (x5 := v mod 85) in *.
  clearbody x1 x2 x3 x4 x5. clearbody v.
  match goal with |- context [ ?l / 16777216 ] => set (lval := l) end.
  assert (Hlo : v <= lval) by (unfold lval; lia).
  assert (Hhi : lval < v + 65536) by (unfold lval; lia).
  clearbody lval. clear Hs. subst v.
  repeat (apply f_equal2; [first [apply a85_byte0; lia | apply (a85_byte1 a); lia | apply (a85_byte2 a b); lia]|]). reflexivity.
Qed.

Lemma a85_flush_tail3 : forall a b c, a < 256 -> b < 256 -> c < 256 ->
  a85_flush (firstn 4 (a85_digits (be32 a b c 0))) = [a; b; c].
Proof.
  intros a b c Ha Hb Hc.
  assert (Hv : be32 a b c 0 < 4294967296) by (apply be32_lt; lia).
  pose proof (a85_digits_sum _ Hv) as Hs.
  unfold a85_flush, a85_digits, be_bytes4. cbn [pad_to fold_left length Nat.sub firstn].
  set (v := be32 a b c 0) in *.
  assert (Ev : v = a * 16777216 + b * 65536 + c * 256) by (unfold v, be32; lia).
  pose proof (N.mod_lt (v / 52200625) 85 ltac:(lia)). pose proof (N.mod_lt (v / 614125) 85 ltac:(lia)).
  pose proof (N.mod_lt (v / 7225) 85 ltac:(lia)). pose proof (N.mod_lt (v / 85) 85 ltac:(lia)).
  pose proof (N.mod_lt v 85 ltac:(lia)).
  set (x1 := (v / 52200625) mod 85) in *. set (x2 := (v / 614125) mod 85) in *.
  set (x3 := (v / 7225) mod 85) in *. set (x4 := (v / 85) mod 85) in *. set (x5 := v mod 85) in *.
  clearbody x1 x2 x3 x4 x5. clearbody v.
  match goal with |- context [ ?l / 16777216 ] => set (lval := l) end.
  assert (Hlo : v <= lval) by (unfold lval; lia).
  assert (Hhi : lval < v + 256) by (unfold lval; lia).
  clearbody lval. clear Hs. subst v.
  repeat (apply f_equal2; [first [apply a85_byte0; lia | apply (a85_byte1 a); lia | apply (a85_byte2 a b); lia]|]). reflexivity.
Qed.

Lemma a85_digits_dig : forall v, Forall a85_dig (a85_digits v).
Proof. intros v. unfold a85_digits. repeat (apply Forall_cons; [apply a85_dig_mod|]). apply Forall_nil. Qed.

Lemma Forall_firstn_dig : forall n l, Forall a85_dig l -> Forall a85_dig (firstn n l).
Proof.
  induction n as [|n IH]; intros l H; [constructor|].
  destruct H as [|x l Hx Hl]; [constructor|]. cbn [firstn]. constructor; [exact Hx|apply IH, Hl].
Qed.

Lemma ref_a85_encode_group : forall a b c e t,
  ref_a85_encode (a :: b :: c :: e :: t) =
  (if be32 a b c e =? 0 then [122] else a85_digits (be32 a b c e)) ++ ref_a85_encode t.
Proof. reflexivity. Qed.

Lemma a85_main : forall n d, (length d <= n)%nat -> bytes_ok d ->
  write_bytes a85_step a85_init (ref_a85_encode d) = ({| a85_eod := 2; a85_buf := [] |}, d, false).
Proof.
  induction n as [|n IH]; intros d Hl Hd.
  - destruct d; [reflexivity|cbn [length] in Hl; lia].
  - destruct d as [|a [|b [|c [|e t]]]].
    + reflexivity.
    + inversion Hd as [|? ? Ha _]; subst.
      cbn [ref_a85_encode]. rewrite a85_tail.
      * rewrite a85_flush_tail1 by assumption. reflexivity.
      * apply Forall_firstn_dig, a85_digits_dig.
      * cbn. lia.
    + inversion Hd as [|? ? Ha Hd1]; subst. inversion Hd1 as [|? ? Hb _]; subst.
      cbn [ref_a85_encode]. rewrite a85_tail.
      * rewrite a85_flush_tail2 by assumption. reflexivity.
      * apply Forall_firstn_dig, a85_digits_dig.
      * cbn. lia.
    + inversion Hd as [|? ? Ha Hd1]; subst. inversion Hd1 as [|? ? Hb Hd2]; subst.
      inversion Hd2 as [|? ? Hc _]; subst.
      cbn [ref_a85_encode]. rewrite a85_tail.
      * rewrite a85_flush_tail3 by assumption. reflexivity.
      * apply Forall_firstn_dig, a85_digits_dig.
      * cbn. lia.
    + inversion Hd as [|? ? Ha Hd1]; subst. inversion Hd1 as [|? ? Hb Hd2]; subst.
      inversion Hd2 as [|? ? Hc Hd3]; subst. inversion Hd3 as [|? ? He Ht]; subst.
      rewrite ref_a85_encode_group.
      assert (IHt : write_bytes a85_step a85_init (ref_a85_encode t)
                    = ({| a85_eod := 2; a85_buf := [] |}, t, false)).
      { apply IH; [cbn [length] in Hl; lia|exact Ht]. }
      destruct (N.eqb_spec (be32 a b c e) 0) as [Hz|Hnz].
      * assert (a = 0 /\ b = 0 /\ c = 0 /\ e = 0) as (-> & -> & -> & ->) by (unfold be32 in Hz; lia).
        cbn [app write_bytes]. change (a85_step a85_init 122) with (a85_init, [0; 0; 0; 0], false).
        cbv iota beta. rewrite IHt. reflexivity.
      * pose proof (a85_digits_dig (be32 a b c e)) as HF. unfold a85_digits in HF |- *.
        inversion HF as [|? ? H1 HF1]; subst. inversion HF1 as [|? ? H2 HF2]; subst.
        inversion HF2 as [|? ? H3 HF3]; subst. inversion HF3 as [|? ? H4 HF4]; subst.
        inversion HF4 as [|? ? H5 _]; subst.
        rewrite a85_group by assumption. rewrite IHt.
        fold (a85_digits (be32 a b c e)). rewrite a85_flush_full by assumption. reflexivity.
Qed.

Lemma a85_decode_encode_lemma : forall d, bytes_ok d -> a85_run [ref_a85_encode d] = (d, false).
Proof.
  intros d Hd. unfold a85_run. rewrite run_chunks_single.
  rewrite (a85_main (length d) d (le_n _) Hd). cbn [a85_buf a85_flush]. rewrite app_nil_r. reflexivity.
Qed.

Lemma rld_copy_block : forall blk rest n,
  blk <> [] -> n = N.of_nat (length blk) ->
  write_bytes rld_step {| rld_state := RlCopying; rld_len := n |} (blk ++ rest) =
  let '(s2, o2, e2) := write_bytes rld_step rld_init rest in (s2, blk ++ o2, e2).
Proof.
  induction blk as [|x blk IH]; intros rest n Hne Hn; [congruence|].
  cbn [app write_bytes]. unfold rld_step at 1. cbn [rld_state rld_len].
  destruct blk as [|y blk].
  - replace (n - 1 =? 0) with true by (subst n; reflexivity). cbn [app].
    fold rld_init. cbn [write_bytes].
    destruct (write_bytes rld_step rld_init rest) as [[s2 o2] e2]. reflexivity.
  - assert (Hn1 : n - 1 = N.of_nat (length (y :: blk))) by (cbn [length] in *; lia).
    destruct (N.eqb_spec (n - 1) 0) as [H0|H0]; [cbn [length] in Hn1; lia|].
    rewrite (IH rest (n - 1)); [|discriminate|exact Hn1].
    destruct (write_bytes rld_step rld_init rest) as [[s2 o2] e2]. reflexivity.
Qed.

Lemma rld_literal_fuel : forall fuel d, (length d < fuel)%nat ->
  write_bytes rld_step rld_init (ref_rl_encode_fuel fuel d) = (rld_init, d, false).
Proof.
  induction fuel as [|f IH]; intros d Hlen; [lia|].
  cbn [ref_rl_encode_fuel]. destruct d as [|x d'].
  - reflexivity.
  - remember (x :: d') as d eqn:Hd.
    assert (Hdl : (1 <= length d)%nat) by (subst d; cbn [length]; lia).
    assert (Hbl : length (firstn 128 d) = Nat.min 128 (length d)) by apply firstn_length.
    cbn [write_bytes]. unfold rld_step at 1. cbn [rld_state rld_init].
    destruct (N.ltb_spec (N.of_nat (length (firstn 128 d)) - 1) 128) as [Hlt|Hge]; [|lia].
    rewrite (rld_copy_block (firstn 128 d) (ref_rl_encode_fuel f (skipn 128 d))
               (1 + (N.of_nat (length (firstn 128 d)) - 1))).
    + rewrite IH.
      * cbn [app]. rewrite firstn_skipn. reflexivity.
      * rewrite skipn_length. lia.
    + intros Hnil. rewrite Hnil in Hbl. cbn [length] in Hbl. lia.
    + lia.
Qed.

Lemma rld_decode_literal_lemma : forall d, rld_run [ref_rl_encode d] = (d, false).
Proof.
  intros d. unfold rld_run. rewrite run_chunks_single. unfold ref_rl_encode.
  rewrite rld_literal_fuel by lia. reflexivity.
Qed.

Lemma rld_runs_gen : forall runs l, Forall (fun xn => 2 <= snd xn <= 128) runs ->
  exists s', write_bytes rld_step {| rld_state := RlTop; rld_len := l |} (ref_rl_encode_runs runs)
             = (s', runs_expand runs, false).
Proof.
  induction runs as [|[x n] runs IH]; intros l HF.
  - eexists. reflexivity.
  - inversion HF as [|? ? Hn HF']; subst. cbn [snd] in Hn.
    cbn [ref_rl_encode_runs write_bytes]. unfold rld_step at 1. cbn [rld_state].
    destruct (N.ltb_spec (257 - n) 128) as [H1|H1]; [lia|].
    destruct (N.ltb_spec 128 (257 - n)) as [H2|H2]; [|lia].
    unfold rld_step at 1. cbn [rld_state rld_len].
    destruct (IH (257 - (257 - n)) HF') as [s' Hs']. rewrite Hs'.
    exists s'. unfold runs_expand. cbn [map concat fst snd app].
    replace (257 - (257 - n)) with n by lia. reflexivity.
Qed.

Lemma rld_decode_runs_lemma : forall runs, Forall (fun xn => 2 <= snd xn <= 128) runs ->
  rld_run [ref_rl_encode_runs runs] = (runs_expand runs, false).
Proof.
  intros runs HF. unfold rld_run. rewrite run_chunks_single.
  destruct (rld_runs_gen runs 0 HF) as [s' Hs']. fold rld_init in Hs'. rewrite Hs'. reflexivity.
Qed.

(* ---- qpdf's RunLength encoder is inverted by the reference decoder ---- *)
(* complete block sequences (no EOD marker) and what they decode to *)
Inductive rl_blocks : list N -> list N -> Prop :=
| rlb_nil : rl_blocks [] []
| rlb_copy : forall blk e d, (1 <= length blk <= 128)%nat -> rl_blocks e d ->
    rl_blocks ((N.of_nat (length blk) - 1) :: blk ++ e) (blk ++ d)
| rlb_run : forall x n e d, (2 <= n <= 128)%nat -> rl_blocks e d ->
    rl_blocks ((257 - N.of_nat n) :: x :: e) (repeat x n ++ d).

Lemma rl_blocks_app : forall e1 d1 e2 d2, rl_blocks e1 d1 -> rl_blocks e2 d2 ->
  rl_blocks (e1 ++ e2) (d1 ++ d2).
Proof.
  intros e1 d1 e2 d2 H1 H2. induction H1 as [|blk e d Hl H IH|x n e d Hn H IH].
  - exact H2.
  - cbn [app]. rewrite <- !app_assoc. apply rlb_copy; assumption.
  - cbn [app]. rewrite <- !app_assoc. apply rlb_run; assumption.
Qed.

Lemma rl_blocks_copy1 : forall blk, (1 <= length blk <= 128)%nat ->
  rl_blocks ((N.of_nat (length blk) - 1) :: blk) blk.
Proof.
  intros blk H. pose proof (rlb_copy blk [] [] H rlb_nil) as HH.
  rewrite !app_nil_r in HH. exact HH.
Qed.

Lemma rl_blocks_run1 : forall x n, (2 <= n <= 128)%nat ->
  rl_blocks [257 - N.of_nat n; x] (repeat x n).
Proof.
  intros x n H. pose proof (rlb_run x n [] [] H rlb_nil) as HH.
  rewrite !app_nil_r in HH. exact HH.
Qed.

Lemma rl_blocks_decode : forall e d, rl_blocks e d ->
  forall fuel, (length e < fuel)%nat -> ref_rl_decode_fuel fuel (e ++ [128]) = d.
Proof.
  intros e d H. induction H as [|blk e d Hl H IH|x n e d Hn H IH]; intros fuel Hf.
  - destruct fuel as [|f]; [lia|]. reflexivity.
  - destruct fuel as [|f]; [lia|]. cbn [app ref_rl_decode_fuel].
    cbn [length] in Hf. rewrite app_length in Hf.
    destruct (N.eqb_spec (N.of_nat (length blk) - 1) 128) as [H0|H0]; [lia|].
    destruct (N.ltb_spec (N.of_nat (length blk) - 1) 128) as [H1|H1]; [|lia].
    replace (N.to_nat (N.of_nat (length blk) - 1) + 1)%nat with (length blk + 0)%nat by lia.
    rewrite <- app_assoc.
    rewrite firstn_app_2, skipn_app, Nat.add_0_r, skipn_all.
    replace (length blk - length blk)%nat with 0%nat by lia.
    cbn [firstn skipn app]. rewrite app_nil_r. f_equal. apply IH. lia.
  - destruct fuel as [|f]; [lia|]. cbn [app ref_rl_decode_fuel].
    cbn [length] in Hf.
    destruct (N.eqb_spec (257 - N.of_nat n) 128) as [H0|H0]; [lia|].
    destruct (N.ltb_spec (257 - N.of_nat n) 128) as [H1|H1]; [lia|].
    replace (N.to_nat (257 - (257 - N.of_nat n))) with n by lia.
    f_equal. apply IH. lia.
Qed.

Definition rle_inv (s : rle_st) : Prop :=
  match rle_state s with
  | RlTop => (length (rle_buf s) <= 1)%nat
  | RlCopying => (1 <= length (rle_buf s) <= 128)%nat
  | RlRun => exists x n, rle_buf s = repeat x n /\ (2 <= n <= 128)%nat
  end.

Lemma rle_flush_copy : forall st buf, rl_is_run st = false -> (length buf <= 128)%nat ->
  rl_blocks (rle_flush_out {| rle_state := st; rle_buf := buf |}) buf.
Proof.
  intros st buf Hst Hl. unfold rle_flush_out. cbn [rle_buf rle_state]. rewrite Hst.
  destruct buf as [|b0 buf']; [constructor|].
  unfold lenNb. apply rl_blocks_copy1. cbn [length] in *. lia.
Qed.

Lemma last_repeat : forall (x dflt : N) n, (1 <= n)%nat -> last (repeat x n) dflt = x.
Proof.
  intros x dflt n. induction n as [|n IH]; intros Hn; [lia|].
  destruct n as [|n]; [reflexivity|].
  change (repeat x (S (S n))) with (x :: repeat x (S n)).
  change (repeat x (S n)) with (x :: repeat x n) at 1.
  cbn [last]. change (x :: repeat x n) with (repeat x (S n)). apply IH. lia.
Qed.

Lemma repeat_snoc : forall (x : N) n, repeat x n ++ [x] = repeat x (S n).
Proof.
  intros x n. induction n as [|n IH]; [reflexivity|].
  cbn [repeat app]. rewrite IH. reflexivity.
Qed.

Lemma rle_flush_inv : forall s, rle_inv s -> rl_blocks (rle_flush_out s) (rle_buf s).
Proof.
  intros [st buf]. unfold rle_inv. cbn [rle_state rle_buf]. destruct st; intros H.
  - apply rle_flush_copy; [reflexivity|lia].
  - apply rle_flush_copy; [reflexivity|lia].
  - destruct H as (x & n & Hb & Hn). subst buf.
    unfold rle_flush_out. cbn [rle_buf rle_state rl_is_run].
    destruct n as [|n]; [lia|]. cbn [repeat]. change (x :: repeat x n) with (repeat x (S n)).
    unfold lenNb. rewrite repeat_length.
    replace ((257 - N.of_nat (S n)) mod 256) with (257 - N.of_nat (S n)).
    + apply rl_blocks_run1. exact Hn.
    + symmetry. apply N.mod_small. lia.
Qed.

Lemma rle_step_inv : forall s ch s' out e, rle_inv s -> rle_step s ch = (s', out, e) ->
  e = false /\ rle_inv s' /\ exists dd, rl_blocks out dd /\ rle_buf s ++ [ch] = dd ++ rle_buf s'.
Proof.
  intros [st buf] ch s' out e Hinv Hstep. unfold rle_inv in Hinv. cbn [rle_state rle_buf] in Hinv.
  unfold rle_step in Hstep. cbn [rle_state rle_buf] in Hstep.
  destruct st.
  - (* top *)
    cbn [rl_is_copying rl_is_run orb] in Hstep.
    destruct buf as [|x buf].
    + cbn in Hstep. injection Hstep as <- <- <-.
      split; [reflexivity|]. split; [unfold rle_inv; cbn; lia|].
      exists []. split; [constructor|reflexivity].
    + destruct buf as [|y buf]; [|cbn [length] in Hinv; lia].
      change (lenNb [x]) with 1 in Hstep. cbn [last] in Hstep.
      change (0 <? 1) with true in Hstep. change (1 <? 128) with true in Hstep.
      change (1 =? 128) with false in Hstep. cbn [andb orb] in Hstep.
      destruct (N.eqb_spec x ch) as [Hx|Hx].
      * subst x. injection Hstep as <- <- <-.
        split; [reflexivity|]. split.
        -- unfold rle_inv. cbn [rle_state rle_buf]. exists ch, 2%nat. split; [reflexivity|lia].
        -- exists []. split; [constructor|reflexivity].
      * injection Hstep as <- <- <-.
        split; [reflexivity|]. split.
        -- unfold rle_inv. cbn [rle_state rle_buf app length]. lia.
        -- exists []. split; [constructor|reflexivity].
  - (* copying *)
    cbn [rl_is_copying rl_is_run orb andb] in Hstep.
    assert (Hne : buf <> []) by (intros ->; cbn [length] in Hinv; lia).
    assert (H0 : 0 <? lenNb buf = true) by (apply N.ltb_lt; unfold lenNb; lia).
    rewrite H0 in Hstep. cbn [andb] in Hstep. rewrite orb_false_r in Hstep.
    destruct (N.eqb_spec (last buf 256) ch) as [Hl|Hl].
    + injection Hstep as <- <- <-.
      split; [reflexivity|]. split.
      * unfold rle_inv. cbn [rle_state rle_buf]. exists ch, 2%nat. split; [reflexivity|lia].
      * exists (removelast buf). split.
        -- apply rle_flush_copy; [reflexivity|].
           rewrite (app_removelast_last 256 Hne) in Hinv. rewrite app_length in Hinv.
           cbn [length] in Hinv. lia.
        -- cbn [rle_buf]. rewrite (app_removelast_last 256 Hne) at 1. rewrite Hl.
           rewrite <- app_assoc. reflexivity.
    + destruct (N.eqb_spec (lenNb buf) 128) as [H128|H128].
      * injection Hstep as <- <- <-.
        split; [reflexivity|]. split; [unfold rle_inv; cbn; lia|].
        exists buf. split; [|reflexivity].
        apply rle_flush_copy; [reflexivity|lia].
      * injection Hstep as <- <- <-.
        split; [reflexivity|]. split.
        -- unfold rle_inv. cbn [rle_state rle_buf]. rewrite app_length. cbn [length].
           unfold lenNb in H128. lia.
        -- exists []. split; [constructor|reflexivity].
  - (* run *)
    cbn [rl_is_copying rl_is_run orb andb] in Hstep.
    destruct Hinv as (x & n & Hb & Hn). subst buf.
    unfold lenNb in Hstep. rewrite repeat_length in Hstep.
    rewrite last_repeat in Hstep by lia. rewrite orb_true_r in Hstep.
    assert (H0 : 0 <? N.of_nat n = true) by (apply N.ltb_lt; lia).
    rewrite H0 in Hstep. cbn [andb] in Hstep.
    assert (Hfl : rl_blocks (rle_flush_out {| rle_state := RlRun; rle_buf := repeat x n |}) (repeat x n)).
    { apply (rle_flush_inv {| rle_state := RlRun; rle_buf := repeat x n |}).
      unfold rle_inv. cbn [rle_state rle_buf]. exists x, n. split; [reflexivity|lia]. }
    destruct (N.ltb_spec (N.of_nat n) 128) as [Hlt|Hge]; cbn [andb] in Hstep.
    + destruct (N.eqb_spec x ch) as [Hx|Hx].
      * subst x. injection Hstep as <- <- <-.
        split; [reflexivity|]. split.
        -- unfold rle_inv. cbn [rle_state rle_buf]. exists ch, (S n). split; [apply repeat_snoc|lia].
        -- exists []. split; [constructor|reflexivity].
      * injection Hstep as <- <- <-.
        split; [reflexivity|]. split; [unfold rle_inv; cbn; lia|].
        exists (repeat x n). split; [exact Hfl|reflexivity].
    + injection Hstep as <- <- <-.
      split; [reflexivity|]. split; [unfold rle_inv; cbn; lia|].
      exists (repeat x n). split; [exact Hfl|reflexivity].
Qed.

Lemma rle_write_inv : forall l s s' out e, rle_inv s -> write_bytes rle_step s l = (s', out, e) ->
  e = false /\ rle_inv s' /\ exists dd, rl_blocks out dd /\ rle_buf s ++ l = dd ++ rle_buf s'.
Proof.
  induction l as [|ch l IH]; intros s s' out e Hinv Hw.
  - cbn [write_bytes] in Hw. injection Hw as <- <- <-.
    split; [reflexivity|]. split; [exact Hinv|].
    exists []. split; [constructor|]. rewrite app_nil_r. reflexivity.
  - cbn [write_bytes] in Hw.
    destruct (rle_step s ch) as [[s1 o1] e1] eqn:Hstep.
    destruct (rle_step_inv s ch s1 o1 e1 Hinv Hstep) as (He1 & Hinv1 & dd1 & Hb1 & Heq1).
    subst e1.
    destruct (write_bytes rle_step s1 l) as [[s2 o2] e2] eqn:Hw2.
    injection Hw as <- <- <-.
    destruct (IH s1 s2 o2 e2 Hinv1 Hw2) as (He2 & Hinv2 & dd2 & Hb2 & Heq2).
    split; [exact He2|]. split; [exact Hinv2|].
    exists (dd1 ++ dd2). split; [apply rl_blocks_app; assumption|].
    change (ch :: l) with ([ch] ++ l). rewrite app_assoc, Heq1, <- app_assoc, Heq2, app_assoc.
    reflexivity.
Qed.

(* bytes_ok is not needed: the encoder never looks at byte values except for equality *)
Lemma rle_inverted_lemma : forall d, bytes_ok d ->
  snd (rle_run [d]) = false /\ ref_rl_decode (fst (rle_run [d])) = d.
Proof.
  intros d _. unfold rle_run. rewrite run_chunks_single.
  destruct (write_bytes rle_step rle_init d) as [[s o] e] eqn:Hw.
  assert (Hinit : rle_inv rle_init) by (unfold rle_inv; cbn; lia).
  destruct (rle_write_inv d rle_init s o e Hinit Hw) as (He & Hinv & dd & Hb & Heq).
  cbn [fst snd]. split; [exact He|].
  cbn [rle_init rle_buf app] in Heq.
  unfold ref_rl_decode. rewrite app_assoc.
  rewrite (rl_blocks_decode (o ++ rle_flush_out s) d).
  - reflexivity.
  - rewrite Heq. apply rl_blocks_app; [exact Hb|]. apply rle_flush_inv. exact Hinv.
  - rewrite !app_length. cbn [length]. lia.
Qed.
