(* C03 - towards rd_reads_writer_output, continued: the trailer dictionary of the writer's output (entries, then
   ` /ID [<hex><hex>]`, then ` >>`) through the parser-model bridge.  Step (2c). *)
From QV Require Import Base.Bytes Lex.TokModel Lex.LexSpec Lex.TokInterp Lex.LexRun Lex.LexProofs
     Obj.Unparse Obj.UnparseProofs Obj.SynSpec Obj.SynMachine Obj.ParseModel Obj.ParseProofs Obj.ParseSim
     Obj.Queue Obj.C01QueueProofs File.WriterArith Obj.WriterModel Obj.WmPrinters File.C02Proofs Obj.C01WriterProofs Obj.C01FileProofs
     File.XrefModel File.RdModel File.C03ProofsRd File.C03ProofsRdW File.C03ProofsRdW2 File.C03ProofsRdW3.
From Coq Require Import Lia.
Local Open Scope N_scope.

Definition rw_k_ID : list N := [73; 68].

Lemma rw_hexstr_eq : forall s, bytes_ok s -> hexstr s = 60 :: hexenc s ++ [62].
Proof. intros s Hs. unfold hexstr. rewrite (rw_hexenc s Hs). reflexivity. Qed.

Lemma rw_step_hexstr : forall s F, bytes_ok s -> bytes_ok F -> rw_step (hexstr s ++ F) (PStr s) F.
Proof.
  intros s F Hs B. rewrite (rw_hexstr_eq s Hs). cbn [app]. rewrite <- app_assoc. cbn [app]. split; [|split].
  - constructor; [reflexivity|]. apply Forall_app. split; [apply hexenc_bytes; exact Hs | constructor; [reflexivity | exact B]].
  - unfold spec_next. cbn [skip_ignorable]. change (iso_white 60) with false. change (60 =? 37) with false. cbv iota.
    apply hex_roundtrip. exact Hs.
  - cbn. intros [].
Qed.

(* the trailer as the object it denotes: the printed entries followed by /ID [id1 id2] *)
Definition rw_trailer_obj (d' : list (list N * obj)) (id1 id2 : list N) : obj :=
  ODict (d' ++ [(rw_k_ID, OArr [OStr id1; OStr id2])]).

Lemma rd_trailer_parses_step : forall objs ren d' id1 id2 F t pos,
  (forall id, 0 < ren id) ->
  let o := rw_trailer_obj d' id1 id2 in
  rw_wf o = true -> rw_nd objs o = true ->
  ints_ok (rd_toks objs ren o) -> refs_ok (rd_toks objs ren o) = true ->
  opens (rd_toks objs ren o) <= 500 -> len (rd_toks objs ren o) < 4294967295 ->
  bytes_ok F -> t_incl_ign t = false -> t_state t <> TS_inline_image ->
  let text := 32 :: 60 :: 60 :: flat_map (rw_entry_text objs ren) d'
              ++ [32; 47; 73; 68; 32; 91] ++ hexstr id1 ++ hexstr id2 ++ [93] ++ [32; 62; 62] ++ F in
  let r := parse_object false false t text pos in
  exists o', pr_obj r = Some o' /\ R_obj o' (rd_sy objs ren o) /\ pr_warn r = [] /\ pr_rest r = F.
Proof.
  intros objs ren d' id1 id2 F t pos Hren o W ND Hi Hr Ho Hl B Hii Hst text r.
  (* well-formedness, split *)
  unfold o, rw_trailer_obj in W. cbn [rw_wf] in W. rewrite forallb_app in W. apply andb_true_iff in W. destruct W as [Wd Wid].
  cbn [forallb rw_wf] in Wid. rewrite !andb_true_r in Wid. apply andb_true_iff in Wid. destruct Wid as [_ Wid].
  apply andb_true_iff in Wid. destruct Wid as [W1 W2].
  pose proof (rw_bytes_of _ W1) as B1. pose proof (rw_bytes_of _ W2) as B2.
  (* the chain, from the end *)
  set (T8 := [32; 62; 62] ++ F). set (T7 := [93] ++ T8). set (T6 := hexstr id2 ++ T7). set (T5 := hexstr id1 ++ T6).
  set (T4 := 32 :: 91 :: T5). set (G := 32 :: [47; 73; 68] ++ T4).
  assert (B8 : bytes_ok T8) by (unfold T8; cbn [app]; repeat (first [assumption | constructor; [reflexivity|]])).
  assert (S8 : rw_step T8 PDictClose F) by (unfold T8; cbn [app]; apply rw_step_sp; apply rw_step_dict_close; exact B).
  assert (S7 : rw_step T7 PArrClose T8) by (unfold T7; cbn [app]; apply rw_step_arr_close; exact B8).
  assert (B7 : bytes_ok T7) by (destruct S7 as (X & _); exact X).
  assert (S6 : rw_step T6 (PStr id2) T7) by (unfold T6; apply rw_step_hexstr; assumption).
  assert (B6 : bytes_ok T6) by (destruct S6 as (X & _); exact X).
  assert (S5 : rw_step T5 (PStr id1) T6) by (unfold T5; apply rw_step_hexstr; assumption).
  assert (B5 : bytes_ok T5) by (destruct S5 as (X & _); exact X).
  assert (S4 : rw_step T4 PArrOpen T5) by (unfold T4; apply rw_step_sp; apply rw_step_arr_open; exact B5).
  assert (B4 : bytes_ok T4) by (destruct S4 as (X & _); exact X).
  assert (S3 : rw_step G (PName rw_k_ID) T4).
  { unfold G. apply rw_step_sp. change [47; 73; 68] with (wm_unparse_name rw_k_ID).
    apply rw_step_name; [repeat constructor | intros [X|[X|[]]]; discriminate | exact B4 | reflexivity]. }
  assert (BG : bytes_ok G) by (destruct S3 as (X & _); exact X).
  assert (Hitems : Forall (fun kv : list N * obj => rw_item_ok objs ren (snd kv)) d').
  { apply Forall_forall. intros kv _. apply rw_chain_obj. }
  destruct (rw_chain_entries objs ren d' G Hitems Wd BG eq_refl) as (C & B' & _).
  assert (Hch : good_chain text (rd_toks objs ren o) F).
  { unfold o, rw_trailer_obj. rewrite rd_toks_dict. rewrite flat_map_app. cbn [flat_map].
    change (rw_entry_toks objs ren (rw_k_ID, OArr [OStr id1; OStr id2]))
      with (PName rw_k_ID :: [PArrOpen; PStr id1; PStr id2; PArrClose]).
    rewrite app_nil_r. unfold text.
    apply rw_chain_cons with (rest := flat_map (rw_entry_text objs ren) d' ++ G).
    - apply rw_step_sp. replace (flat_map (rw_entry_text objs ren) d' ++ [32; 47; 73; 68; 32; 91] ++ hexstr id1 ++ hexstr id2 ++ [93] ++ [32; 62; 62] ++ F)
        with (flat_map (rw_entry_text objs ren) d' ++ G) by reflexivity.
      apply rw_step_dict_open. exact B'.
    - rewrite <- app_assoc. apply rw_chain_app with (b := G); [exact C|].
      cbn [app]. apply rw_chain_cons with (rest := T4); [exact S3|].
      apply rw_chain_cons with (rest := T5); [exact S4|].
      apply rw_chain_cons with (rest := T6); [exact S5|].
      apply rw_chain_cons with (rest := T7); [exact S6|].
      apply rw_chain_cons with (rest := T8); [exact S7|].
      apply rw_chain_one. exact S8. }
  pose proof (rw_syn_obj objs ren Hren o (Datatypes.S (length (rd_toks objs ren o))) [] ND ltac:(lia) I) as Hs.
  rewrite app_nil_r in Hs.
  destruct (rd_toks objs ren o) as [|tok0 toks] eqn:Et; [exfalso; exact (rd_toks_ne objs ren o Et)|].
  assert (H0 : tok0 = PArrOpen \/ tok0 = PDictOpen).
  { unfold o, rw_trailer_obj in Et. cbn [rd_toks] in Et. injection Et as <- _. right. reflexivity. }
  assert (Hi' : ints_ok toks) by (unfold ints_ok in *; inversion Hi; assumption).
  pose proof (refs_ok_tail _ _ Hr) as Hr'.
  exact (parse_complete_container_lemma text tok0 toks F _ t pos Hch H0 Hs Hi' Hr' Ho Hl Hii Hst).
Qed.
