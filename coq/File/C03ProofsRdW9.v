(* C03 - rd_reads_writer_output: the assembly inside rd_view_at.  Bookkeeping lemmas first. *)
From QV Require Import Base.Bytes Lex.TokModel Lex.LexSpec Lex.TokInterp Lex.LexRun Lex.LexProofs
     Obj.Unparse Obj.UnparseProofs Obj.SynSpec Obj.SynMachine Obj.ParseModel Obj.ParseProofs Obj.ParseSim
     Obj.Queue Obj.C01QueueProofs File.WriterArith Obj.WriterModel Obj.WmPrinters File.C02Proofs Obj.C01WriterProofs Obj.C01FileProofs
     File.XrefModel File.RdModel File.C03ProofsRd File.C03ProofsRdW File.C03ProofsRdW2 File.C03ProofsRdW3 File.C03ProofsRdW4
     File.C03ProofsRdW5 File.C03ProofsRdP File.C03ProofsRdX File.C03ProofsRdT File.C03ProofsRdTr File.C03ProofsRdW6 File.C03ProofsRdW7 File.C03ProofsRdW8.
From Coq Require Import Lia.
Local Open Scope N_scope.

(* ------------------------------------------------------------------ side conditions as boolean predicates *)
Definition rw_ints_okb (ts : list ptoken) : bool := forallb (fun t => match t with PInt z => in_ll z | _ => true end) ts.
Lemma rw_ints_okb_ok : forall ts, rw_ints_okb ts = true -> ints_ok ts.
Proof.
  intros ts H. unfold ints_ok. apply Forall_forall. intros t Ht. unfold rw_ints_okb in H. rewrite forallb_forall in H.
  specialize (H t Ht). destruct t; try exact I. exact H.
Qed.
Definition rw_toks_okb (ts : list ptoken) : bool :=
  rw_ints_okb ts && refs_ok ts && (opens ts <=? 500) && (len ts <? 4294967295).
Definition rw_obj_okb (objs : list (N * indirect)) (ren : N -> N) (v : obj) : bool :=
  rw_wf v && rw_nd objs v && rw_toks_okb (rd_toks objs ren v).
Lemma rw_obj_okb_ok : forall objs ren v, rw_obj_okb objs ren v = true ->
  rw_wf v = true /\ rw_nd objs v = true /\ ints_ok (rd_toks objs ren v) /\ refs_ok (rd_toks objs ren v) = true /\
  opens (rd_toks objs ren v) <= 500 /\ len (rd_toks objs ren v) < 4294967295.
Proof.
  intros objs ren v H. unfold rw_obj_okb, rw_toks_okb in H.
  apply andb_true_iff in H. destruct H as [H T]. apply andb_true_iff in H. destruct H as [W ND].
  apply andb_true_iff in T. destruct T as [T T4]. apply andb_true_iff in T. destruct T as [T T3].
  apply andb_true_iff in T. destruct T as [T1 T2].
  split; [exact W|]. split; [exact ND|]. split; [apply rw_ints_okb_ok; exact T1|]. split; [exact T2|].
  split; [apply N.leb_le; exact T3 | apply N.ltb_lt; exact T4].
Qed.
Definition rw_containerb (v : obj) : bool := match v with OArr _ | ODict _ => true | _ => false end.
(* a written object: found, and either an array/dictionary of the bridge's class or a stream whose dictionary is *)
Definition rw_entry_okb (d : doc) (id : N) : bool :=
  match find_obj (d_objects d) id with
  | Some i =>
      match i_stream i with
      | None => rw_containerb (i_val i) && rw_obj_okb (d_objects d) (rw_ren d) (i_val i)
      | Some data => match i_val i with
                     | ODict dd => rw_obj_okb (d_objects d) (rw_ren d) (rw_stream_dict (ODict dd) (rd_len data))
                     | _ => false
                     end
      end
  | None => false
  end.
Definition rw_doc_okb (d : doc) : bool :=
  forallb (rw_entry_okb d) (w_ids d)
  && rw_obj_okb (d_objects d) (rw_ren d) (rw_trailer_obj (rw_tr_entries d) (d_id1 d) (d_id2 d)).

(* ------------------------------------------------------------------ numbering *)
Lemma rw_offs_ids : forall us un objs ren ids pos,
  Forall2 (fun id (ko : N * N) => fst ko = ren id) ids (offs_of us un objs ren ids pos).
Proof. induction ids as [|a t IH]; intros pos; cbn [offs_of]; constructor; [reflexivity | apply IH]. Qed.

Lemma rw_tbl_map : forall offs i, map fst offs = map N.of_nat (seq i (length offs)) ->
  rdt_tbl (N.of_nat i) offs = map (fun ko : N * N => (fst ko, 0, C3Use (snd ko) 0)) offs.
Proof.
  induction offs as [|ko t IH]; intros i H; [reflexivity|].
  cbn [length seq map] in H. injection H as H1 H2. cbn [rdt_tbl map]. rewrite H1. f_equal.
  replace (N.of_nat i + 1) with (N.of_nat (S i)) by lia. apply IH. exact H2.
Qed.

Lemma rw_tbl_written : forall d, doc_closed d ->
  rdt_tbl 1 (w_offs d) = map (fun ko : N * N => (fst ko, 0, C3Use (snd ko) 0)) (w_offs d).
Proof.
  intros d Hc. pose proof (body_numbers_lemma wm_unparse_string wm_unparse_name d Hc) as H. rewrite w_offs_eq in H.
  exact (rw_tbl_map (w_offs d) 1 H).
Qed.

Lemma rw_ren_le : forall d id, doc_closed d -> In id (w_ids d) -> doc_ren d id <= w_n d.
Proof.
  intros d id Hc Hin.
  pose proof (body_numbers_lemma wm_unparse_string wm_unparse_name d Hc) as H. rewrite w_offs_eq in H.
  assert (Hm : In (doc_ren d id) (map fst (w_offs d))).
  { unfold w_offs. rewrite offs_of_fst. apply in_map. exact Hin. }
  rewrite H in Hm. apply in_map_iff in Hm. destruct Hm as (j & Hj & Hs). apply in_seq in Hs.
  unfold w_n. assert (length (w_offs d) = length (w_ids d)) by (unfold w_offs; apply offs_of_length). lia.
Qed.

(* ------------------------------------------------------------------ xref_table_max_id is at least n *)
Lemma rw_bodies_len : forall d ids, (8 * length ids <= length (concat (map (w_chunk d) ids)))%nat.
Proof.
  intros d. induction ids as [|a t IH]; [cbn; lia|].
  cbn [map concat length]. rewrite app_length.
  destruct (chunk_of_header wm_unparse_string wm_unparse_name (d_objects d) (doc_ren d) a) as [tl Ht].
  unfold w_chunk at 1. rewrite Ht. unfold obj_header. rewrite !app_length. cbn [length].
  destruct (dec_of_N_value_lemma (doc_ren d a)) as (_ & _ & Hl). lia.
Qed.

Lemma rd_max_id_written_step : forall d, w_n d < 2147483647 ->
  w_n d <= N.min 2147483646 (rd_len (WOUT d) / 3).
Proof.
  intros d Hn. apply N.min_glb; [lia|].
  apply N.div_le_lower_bound; [lia|].
  rewrite write_doc_layout_lemma. unfold rd_len. rewrite !app_length.
  pose proof (rw_bodies_len d (w_ids d)) as H. fold (w_bodies d) in H. unfold w_n. lia.
Qed.

(* ------------------------------------------------------------------ the table read_xref leaves *)
Lemma rd_view_table_step : forall d max_id, w_n d <= max_id ->
  let st := fold_left (c3_entry max_id) [(0, C3Free 65535)] (rdx_insert max_id (Build_c3_state [] []) 1 (w_offs d)) in
  c3_tbl st = rdt_tbl 1 (w_offs d) /\ c3_deleted st = [0] /\
  c3_tbl (rdx_insert max_id (Build_c3_state [] []) 1 (w_offs d)) = rdt_tbl 1 (w_offs d) /\
  rd_gen_pass (fold_right rd_insert_sorted [] (rdt_tbl 1 (w_offs d))) = rdt_tbl 1 (w_offs d).
Proof.
  intros d max_id Hn st.
  assert (Hlen : N.of_nat (length (w_offs d)) <= max_id).
  { unfold w_offs. rewrite offs_of_length. exact Hn. }
  destruct (rdt_insert_fresh_lemma (w_offs d) max_id Hlen) as [H1 H2].
  destruct (rdt_free0_lemma (w_offs d) max_id _ H1 H2) as [H3 H4].
  repeat split; try assumption. rewrite rdt_sort_id_lemma. apply rdt_gen_pass_id_lemma.
Qed.

(* ------------------------------------------------------------------ startxref *)
Definition rw_pre (d : doc) : list N := w_hdr d ++ w_bodies d ++ w_xref d ++ w_trailer d.
Definition rw_sx_start (d : doc) : N := if 1054 <? rd_len (WOUT d) then rd_len (WOUT d) - 1054 else 0.
(* "startxref" starts nowhere else in the window findLast searches (the last 1054 bytes) *)
Definition rw_sx_onceb (d : doc) : bool :=
  forallb (fun i => negb (rd_prefix rd_s_startxref (skipn i (WOUT d))))
          (seq (N.to_nat (rw_sx_start d)) (length (rw_pre d) - N.to_nat (rw_sx_start d))).

Lemma rw_out_pre : forall d, WOUT d = rw_pre d ++ rd_s_startxref ++ 10 :: dec_of_N (w_xoff d) ++ [10; 37; 37; 69; 79; 70; 10].
Proof. intros d. rewrite write_doc_layout_lemma. unfold rw_pre, w_tail. rewrite <- !app_assoc. reflexivity. Qed.

Lemma rd_view_startxref_step : forall d, w_xoff d < 2 ^ 63 -> rw_sx_onceb d = true ->
  let out := WOUT d in
  rd_find_last_sx (S (length out)) out (rw_sx_start d) None = Some (rd_len (rw_pre d) + 10) /\
  exists tk r np last,
    rd_tok 0 (rd_at out (rd_len (rw_pre d) + 10)) (rd_len (rw_pre d) + 10) = (tk, r, np, last) /\
    text_to_ll (tok_value tk) = Some (Z.of_N (w_xoff d)).
Proof.
  intros d Hx Hb out.
  pose proof (rd_find_startxref_fixed_lemma (rw_pre d) (w_xoff d) Hx) as H. cbv zeta in H.
  rewrite <- (rw_out_pre d) in H. fold out in H. apply H.
  intros i Hi. unfold rw_sx_onceb in Hb. rewrite forallb_forall in Hb.
  assert (Hin : In i (seq (N.to_nat (rw_sx_start d)) (length (rw_pre d) - N.to_nat (rw_sx_start d)))).
  { apply in_seq. unfold rw_sx_start. fold out. lia. }
  specialize (Hb i Hin). apply negb_true_iff in Hb. exact Hb.
Qed.

(* ------------------------------------------------------------------ one entry of the table: the written object *)
(* what the view shows for a written object *)
Definition rw_view_item (d : doc) (known : Z -> Z -> bool) (id : N) (it : rd_item) : Prop :=
  rdi_obj it = doc_ren d id /\ rdi_gen it = 0 /\ rdi_unmod it = false /\
  match find_obj (d_objects d) id with
  | Some i =>
      match i_stream i with
      | None => rdi_data it = None /\
                exists o', rdi_val it = rd_fixrefs known o' /\ R_obj o' (rd_sy (d_objects d) (rw_ren d) (i_val i))
      | Some data => rdi_data it = Some data /\
                     exists o', rdi_val it = rd_fixrefs known o' /\
                                R_obj o' (rd_sy (d_objects d) (rw_ren d) (rw_stream_dict (i_val i) (rd_len data)))
      end
  | None => False
  end.

Lemma rd_view_entry_step : forall d e fuel id,
  rde_file e = WOUT d -> rde_tbl e = rdt_tbl 1 (w_offs d) -> rde_pre e = [] -> bytes_ok (WOUT d) ->
  doc_closed d -> In id (w_ids d) -> w_n d < 2147483647 -> rw_entry_okb d id = true ->
  exists v, rd_resolve (S fuel) e [] (doc_ren d id, 0) = (v, []) /\ rdo_unmod v = false /\
    rw_view_item d (rd_known e) id
      (mkRdItem (doc_ren d id) 0 (rdo_val v)
                (match rdo_stream v with Some _ => Some (rd_stream_raw (rde_file e) v) | None => None end) (rdo_unmod v)).
Proof.
  intros d e fuel id Hfile Htbl Hpre Hb Hc Hin Hn Hok.
  assert (Hmax : (Z.of_N (doc_ren d id) <= 2147483647)%Z) by (pose proof (rw_ren_le d id Hc Hin); lia).
  unfold rw_entry_okb in Hok. destruct (find_obj (d_objects d) id) as [i|] eqn:Hf; [|discriminate].
  destruct (i_stream i) as [data|] eqn:Hs.
  - destruct (i_val i) as [| | | | | | |dd|] eqn:Hv; try discriminate.
    destruct (rw_obj_okb_ok _ _ _ Hok) as (W & ND & Hi & Hr & Ho & Hl).
    destruct (rd_resolve_written_stream_lemma d e fuel id i dd data Hfile Htbl Hpre Hb Hc Hin Hf Hs Hv Hmax W ND Hi Hr Ho Hl)
      as (o' & dd' & spos & H1 & H2 & H3 & H4).
    eexists. split; [exact H1|]. split; [reflexivity|].
    unfold rw_view_item. cbn [rdi_obj rdi_gen rdi_unmod rdi_data rdi_val rdo_val rdo_stream rdo_unmod]. rewrite Hf, Hs, Hv.
    repeat split. + rewrite H4. reflexivity. + exists o'. split; [symmetry; exact H2 | exact H3].
  - apply andb_true_iff in Hok. destruct Hok as [Hcb Hok].
    destruct (rw_obj_okb_ok _ _ _ Hok) as (W & ND & Hi & Hr & Ho & Hl).
    assert (Hcont : rw_container (i_val i)) by (unfold rw_container; destruct (i_val i); try discriminate; exact I).
    destruct (rd_resolve_written_lemma d e fuel id i Hfile Htbl Hpre Hb Hc Hin Hf Hs Hmax Hcont W ND Hi Hr Ho Hl) as (o' & H1 & H2).
    eexists. split; [exact H1|]. split; [reflexivity|].
    unfold rw_view_item. cbn [rdi_obj rdi_gen rdi_unmod rdi_data rdi_val rdo_val rdo_stream rdo_unmod]. rewrite Hf, Hs.
    repeat split. exists o'. split; [reflexivity | exact H2].
Qed.
