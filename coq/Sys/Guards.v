(* C04 - guard logic of qpdf's traversals, limits and checked conversions, written FROM THE C++ in /repo.
   Executable Gallina only (no proofs here; the theorems are in Sys/C04GuardProofs.v).

   Every traversal works on an abstract finite object graph given as data: an association list from object
   ids (N, 0 = "direct object / null") to the few fields of the node the guard logic looks at.  A reference to
   an id that is not in the graph is a dangling reference: qpdf resolves it to null.
   Sets (QPDFObjGen::set, std::set<qpdf_offset_t>) are lists with a membership test; the order is irrelevant
   for the code and only used by the proofs (NoDup).

   Modelled (function of the C++ -> definition here):
     Objects::read_xref (QPDF_objects.cc)                              c4_xlocate, c4_xwalk / c4_read_xref
     Pages::cache /Parent climb, Pages::getAllPagesInternal            c4_pclimb, c4_pwalk / c4_pages
     NNTreeIterator::deepen, NNTreeIterator::increment (forward
       iteration of a whole tree), NNTreeImpl::validate / repair / findInternal
                                                                      c4_deepen, c4_nn_walk / c4_nn_iter / c4_nn_validate / c4_nn_repair / c4_nn_open, c4_nn_find
     QPDFOutlineDocumentHelper::validate + QPDFOutlineObjectHelper     c4_ochain, c4_ocreate / c4_outlines
     AcroForm::traverseField, FormNode::inherited                      c4_finherit, c4_ftrav / c4_acroform
     Parser nesting limit and Parser::check_too_many_bad_tokens        c4_nest_run, c4_bad_check / c4_bad_run
     QIntC::IntConverter<From,To>::convert, util::fits                 c4_convert, c4_fits
     Objects::reconstruct_xref's one-shot flag                         c4_recon_run
     trap_errors (qpdf-c.cc) and realmain (qpdf.cc)                    c4_trap_c, c4_trap_cli
   Surprising facts of the code that the model keeps (see the comments at each definition):
     * getAllPagesInternal puts /Kids ARRAY objects into the same `visited` set as the nodes, so two nodes that
       share one indirect /Kids array - or any interior node reachable twice (a DAG, not a cycle) - end in
       "Loop detected in /Pages structure";
     * NNTreeIterator::deepen only remembers the nodes on the current path, so iterating a name/number tree whose
       nodes are shared (a DAG) expands it completely: the number of leaf visits is exponential in the number of
       objects (c4_nn_iter; refuted linear bound in C04GuardProofs.v).  Since the repair of D-C04-nntree-dag the loop of
       NNTreeImpl::repair() stops after 1000 re-entered leaves (c4_nn_repair), and validate() ends at the first re-entered
       leaf because its keys are not above the last key: every user inside the library opens a tree through
       validate(true) (c4_nn_open).  The plain iteration of the public helpers is unchanged (D-C04-nntree-dag-api);
     * QPDFOutlineObjectHelper checks the document-wide seen set only AFTER the helper has been created and cuts
       at depth 50 silently: helpers for already seen nodes are created (childless) once per referencing sibling
       chain, which is quadratic in the worst case, every one of them with a warning;
     * traverseField returns through "found field with two parents" before the field is recorded anywhere;
     * reconstruct_xref resets its one-shot flag on the late-startxref path: two reconstructions are possible. *)
From Coq Require Import List NArith ZArith Bool Lia.
Import ListNotations.
Local Open Scope N_scope.

(* ------------------------------------------------------------------ graphs and sets *)
Definition c4_mem (x : N) (l : list N) : bool := existsb (N.eqb x) l.

Fixpoint c4_find {A : Type} (g : list (N * A)) (k : N) : option A :=
  match g with
  | [] => None
  | (k', a) :: g' => if k =? k' then Some a else c4_find g' k
  end.

(* QPDFObjGen::set::add: "Return false if og is already present. Attempts to insert QPDFObjGen(0,0) are ignored" *)
Definition c4_add (k : N) (s : list N) : bool * list N :=
  if k =? 0 then (true, s) else if c4_mem k s then (false, s) else (true, k :: s).

Definition c4_zmem (x : Z) (l : list Z) : bool := existsb (Z.eqb x) l.
Fixpoint c4_zfind {A : Type} (g : list (Z * A)) (k : Z) : option A :=
  match g with
  | [] => None
  | (k', a) :: g' => if (k =? k')%Z then Some a else c4_zfind g' k
  end.

(* ------------------------------------------------------------------ (a) Objects::read_xref
   A file is a list of cross-reference sections, each keyed by the offset S of its first byte ("xref" resp. the
   "n g obj" of a cross-reference stream) and carrying the number of white-space bytes directly in front of it
   (c4x_lead) and, for a table, the number of white-space bytes after the keyword (c4x_gap).

   read_xref(off) seeks to off and skips white space; the section that is then read is the one whose start S has
   S - lead <= off <= S (c4_xlocate); any other offset (beyond the end of the file, negative, inside an object,
   garbage) makes read_xrefStream throw "xref not found" (a seek error for a negative offset is translated to the
   same class by parse()).  What the code does with the k = S - off skipped bytes:
     * what enters `visited` is the offset the function was ASKED to read (off), not the position after the skip;
       the test after each section looks up the raw /Prev value in that set.  So S and S - 1 are different
       members, and a section can be entered a second time through another white-space alias - but its /Prev is
       then a member already, and the loop is reported after that second reading (C04GuardProofs.v);
     * a table: "extraneous whitespace seen before xref" is warned when k > 0, and read_xrefTable is started at
       off + skip with the UNSKIPPED offset (skip = 4 + the white space after the keyword that fits into the
       6-byte buffer, i.e. min(gap, 2)): it finds the first subsection line iff k <= min(gap, 2), otherwise it
       starts inside the keyword and throws "xref syntax invalid";
     * a stream: read_xrefStream(off) tokenises from off, every k works and nothing is warned.
   `after_skip` = true is the VARIANT in which the position after the skip is what enters `visited`; it is not
   what the code does and is here only for xref_walk_after_skip_diverges (the guard is lost for k > 0). *)
Inductive c4_xkind := C4xTable | C4xStream.
Record c4_xsec := mkC4xsec {
  c4x_kind : c4_xkind;
  c4x_bad : bool;        (* the section or its trailer/dictionary makes the reader throw damagedPDF *)
  c4x_stm : Z;           (* /XRefStm of a table's trailer, 0 = absent *)
  c4x_prev : Z;          (* /Prev, 0 = absent *)
  c4x_lead : Z;          (* white-space bytes directly in front of the section *)
  c4x_gap : Z            (* table: white-space bytes after the keyword "xref" (0: not recognised as a table) *)
}.
Inductive c4_xres := C4xOk | C4xLoop | C4xNotFound | C4xDamaged | C4xFuel.

(* seek(off), skip white space: the section the file position then stands on *)
Fixpoint c4_xlocate (g : list (Z * c4_xsec)) (off : Z) : option (Z * c4_xsec) :=
  match g with
  | [] => None
  | (a, s) :: g' => if ((a - c4x_lead s <=? off) && (off <=? a))%Z then Some (a, s) else c4_xlocate g' off
  end.

(* result of a walk: outcome; starts of the sections whose entries were inserted, most recent first (a table, then its
   /XRefStm); the `visited` set as a list, most recent first (= the offsets read_xref was asked to read, in order);
   number of "extraneous whitespace seen before xref" warnings *)
Record c4_xout := mkC4xout { c4xo_res : c4_xres; c4xo_reads : list Z; c4xo_visited : list Z; c4xo_ws : N }.

(* (void)read_xrefStream(/XRefStm): its /Prev is ignored; white space in front of it is tokenised away *)
Definition c4_xstm (g : list (Z * c4_xsec)) (stm : Z) (reads : list Z) : c4_xres * list Z :=
  if (stm =? 0)%Z then (C4xOk, reads)
  else match c4_xlocate g stm with
       | None => (C4xNotFound, reads)
       | Some (a', t) =>
           match c4x_kind t with
           | C4xTable => (C4xNotFound, reads)
           | C4xStream => if c4x_bad t then (C4xDamaged, reads) else (C4xOk, a' :: reads)
           end
       end.

Fixpoint c4_xwalk_v (after_skip : bool) (fuel : nat) (g : list (Z * c4_xsec)) (off : Z) (visited reads : list Z) (ws : N)
  : c4_xout :=
  match fuel with
  | O => mkC4xout C4xFuel reads visited ws
  | S f =>
    match c4_xlocate g off with
    | None => mkC4xout C4xNotFound reads (off :: visited) ws
    | Some (a0, s) =>
      let k := (a0 - off)%Z in
      let visited := (if after_skip then a0 else off) :: visited in       (* visited.insert(xref_offset) *)
      let is_table := match c4x_kind s with C4xTable => (1 <=? c4x_gap s)%Z | C4xStream => false end in
      let ws := if is_table && (0 <? k)%Z then ws + 1 else ws in          (* warned before the table is read *)
      match c4x_kind s with
      | C4xTable =>
          if negb is_table then mkC4xout C4xNotFound reads visited ws      (* "xref" not followed by white space *)
          else if (Z.min (c4x_gap s) 2 <? k)%Z then mkC4xout C4xDamaged reads visited ws   (* "xref syntax invalid" *)
          else if c4x_bad s then mkC4xout C4xDamaged reads visited ws
          else
            match c4_xstm g (c4x_stm s) (a0 :: reads) with
            | (C4xOk, reads') =>
                let prev := c4x_prev s in
                if c4_zmem prev visited then mkC4xout C4xLoop reads' visited ws    (* "loop detected following xref tables" *)
                else if (prev =? 0)%Z then mkC4xout C4xOk reads' visited ws         (* while (xref_offset) *)
                else c4_xwalk_v after_skip f g prev visited reads' ws
            | (r, reads') => mkC4xout r reads' visited ws
            end
      | C4xStream =>
          if c4x_bad s then mkC4xout C4xDamaged reads visited ws
          else
            let reads' := a0 :: reads in
            let prev := c4x_prev s in
            if c4_zmem prev visited then mkC4xout C4xLoop reads' visited ws
            else if (prev =? 0)%Z then mkC4xout C4xOk reads' visited ws
            else c4_xwalk_v after_skip f g prev visited reads' ws
      end
    end
  end.

Definition c4_xwalk := c4_xwalk_v false.

(* startxref value 0 / not found: "can't find startxref" (same class as not found) *)
Definition c4_read_xref (g : list (Z * c4_xsec)) (start : Z) : c4_xout :=
  if (start =? 0)%Z then mkC4xout C4xNotFound [] [] 0 else c4_xwalk (S (length g)) g start [] [] 0.

(* ------------------------------------------------------------------ (b) the page tree *)
Record c4_pnode := mkC4pnode {
  c4p_interior : bool;   (* hasKey("/Kids") *)
  c4p_karr : N;          (* object id of the /Kids array when it is indirect, 0 when direct *)
  c4p_kids : list N;     (* elements of /Kids: ids; 0 or an id outside the graph = not a dictionary *)
  c4p_parent : N         (* /Parent, 0 = absent *)
}.
Inductive c4_pres := C4pOk | C4pLoop | C4pDeep | C4pNoKids | C4pFuel.

(* Pages::cache(): while (pages.isDictionary() && pages.hasKey("/Parent")) { if (!seen.add(pages)) break; ... } *)
Fixpoint c4_pclimb (fuel : nat) (g : list (N * c4_pnode)) (cur : N) (seen : list N) : option N :=
  match fuel with
  | O => None
  | S f =>
    match c4_find g cur with
    | None => Some cur
    | Some nd =>
        if c4p_parent nd =? 0 then Some cur
        else let '(ok, seen') := c4_add cur seen in
             if ok then c4_pclimb f g (c4p_parent nd) seen' else Some cur
    end
  end.

Record c4_pst := mkC4pst {
  c4ps_vis : list N;      (* visited (nodes and /Kids arrays) *)
  c4ps_seen : list N;     (* seen (leaves) *)
  c4ps_pages : N;         (* all_pages.size() *)
  c4ps_copies : N;        (* duplicate leaves copied *)
  c4ps_skipped : N;       (* non-dictionary kids and (reconstructed xref) ignored duplicates *)
  c4ps_calls : N;         (* calls of getAllPagesInternal *)
  c4ps_nodes : list N;    (* nodes whose /Kids were iterated, most recent first *)
  c4ps_maxlevel : nat
}.
Definition c4_pst0 : c4_pst := mkC4pst [] [] 0 0 0 0 [] 0.

(* a leaf (a kid without /Kids): only the duplicate guard `seen` is modelled.  Not in this skeleton (they are in C13's
   Struct/PgModel.v pg_leaf): the repairs of /MediaBox, /Resources, /Annots, /Type, the "too many errors" rule of a
   reconstructed file, and direct (non-indirect) kids, which are made indirect first and cannot be shared. *)
Definition c4_pleaf (recon : bool) (kid : N) (st : c4_pst) : c4_pst :=
  let '(ok, seen') := c4_add kid (c4ps_seen st) in
  if ok then mkC4pst (c4ps_vis st) seen' (c4ps_pages st + 1) (c4ps_copies st) (c4ps_skipped st) (c4ps_calls st)
                     (c4ps_nodes st) (c4ps_maxlevel st)
  else if recon
  then mkC4pst (c4ps_vis st) seen' (c4ps_pages st) (c4ps_copies st) (c4ps_skipped st + 1) (c4ps_calls st)
               (c4ps_nodes st) (c4ps_maxlevel st)
  else (* makeIndirectObject(shallowCopy): a fresh id, which seen.add accepts; it is not a key of the graph *)
       mkC4pst (c4ps_vis st) seen' (c4ps_pages st + 1) (c4ps_copies st + 1) (c4ps_skipped st) (c4ps_calls st)
               (c4ps_nodes st) (c4ps_maxlevel st).

(* the loop over /Kids of one node; `rec` is the recursive call for an interior kid *)
Fixpoint c4_pkids (rec : N -> c4_pst -> c4_pres * c4_pst) (g : list (N * c4_pnode)) (recon : bool) (l : list N) (st : c4_pst)
  : c4_pres * c4_pst :=
  match l with
  | [] => (C4pOk, st)
  | k :: l' =>
    match (if k =? 0 then None else c4_find g k) with
    | None => c4_pkids rec g recon l'
                (mkC4pst (c4ps_vis st) (c4ps_seen st) (c4ps_pages st) (c4ps_copies st)
                         (c4ps_skipped st + 1) (c4ps_calls st) (c4ps_nodes st) (c4ps_maxlevel st))
    | Some kn =>
      if c4p_interior kn
      then match rec k st with
           | (C4pOk, st') => c4_pkids rec g recon l' st'
           | r => r
           end
      else c4_pkids rec g recon l' (c4_pleaf recon k st)
    end
  end.

(* level = value of the parameter at entry; the code does `if (++level > max_level)` with max_level = 100 *)
Fixpoint c4_pwalk (fuel : nat) (g : list (N * c4_pnode)) (recon : bool) (node : N) (level : nat) (st : c4_pst)
  : c4_pres * c4_pst :=
  match fuel with
  | O => (C4pFuel, st)
  | S f =>
    let st := mkC4pst (c4ps_vis st) (c4ps_seen st) (c4ps_pages st) (c4ps_copies st) (c4ps_skipped st)
                      (c4ps_calls st + 1) (c4ps_nodes st) (c4ps_maxlevel st) in
    if Nat.ltb 100 (S level) then (C4pDeep, st)
    else
      let '(ok, vis) := c4_add node (c4ps_vis st) in
      if negb ok then (C4pLoop, st)
      else
        let nd := match c4_find g node with Some nd => nd | None => mkC4pnode true 0 [] 0 end in
        let '(ok2, vis2) := c4_add (c4p_karr nd) vis in
        let st := mkC4pst vis2 (c4ps_seen st) (c4ps_pages st) (c4ps_copies st) (c4ps_skipped st)
                          (c4ps_calls st) (c4ps_nodes st) (Nat.max (c4ps_maxlevel st) (S level)) in
        if negb ok2 then (C4pLoop, st)
        else
          let st := mkC4pst (c4ps_vis st) (c4ps_seen st) (c4ps_pages st) (c4ps_copies st) (c4ps_skipped st)
                            (c4ps_calls st) (node :: c4ps_nodes st) (c4ps_maxlevel st) in
          c4_pkids (fun k st => c4_pwalk f g recon k (S level) st) g recon (c4p_kids nd) st
  end.

(* Pages::cache(): climb /Parent, require /Kids, traverse.  Fuel 102 is enough for every graph (level limit). *)
Definition c4_pages (g : list (N * c4_pnode)) (recon : bool) (root : N) : c4_pres * c4_pst :=
  match c4_pclimb (S (length g)) g root [] with
  | None => (C4pFuel, c4_pst0)
  | Some top =>
      match c4_find g top with
      | Some nd => if c4p_interior nd then c4_pwalk 102 g recon top 0 c4_pst0 else (C4pNoKids, c4_pst0)
      | None => (C4pNoKids, c4_pst0)
      end
  end.

(* ------------------------------------------------------------------ (c) name/number trees *)
Record c4_nnode := mkC4nnode {
  c4n_items : N;         (* size of the /Names or /Nums array (0 when absent) *)
  c4n_hasitems : bool;   (* the items key is an array *)
  c4n_kids : list N;     (* /Kids; ids outside the graph are not dictionaries *)
  c4n_pick : option nat; (* findInternal: index binarySearch returns among the kids for the probe key; None = -1 *)
  c4n_klo : N;           (* a leaf's smallest and largest key (its first and last item when the leaf is sorted) *)
  c4n_khi : N
}.
Inductive c4_dwarn := C4dLoop | C4dNonDict | C4dNeither | C4dBadKid.
Inductive c4_dres :=
| C4dLeaf (path : list (N * nat)) (leaf : N)      (* positioned on the first/last item of leaf *)
| C4dEmpty (path : list (N * nat)) (leaf : N)     (* allow_empty: item_number -1 *)
| C4dFail (w : c4_dwarn)                          (* warn, path restored, return false *)
| C4dFuel.

(* NNTreeIterator::deepen.  seen starts as the nodes of the current path. *)
Fixpoint c4_deepen (fuel : nat) (g : list (N * c4_nnode)) (a : N) (first allow_empty : bool)
                   (path : list (N * nat)) (seen : list N) : c4_dres :=
  match fuel with
  | O => C4dFuel
  | S f =>
    let '(ok, seen) := c4_add a seen in
    if negb ok then C4dFail C4dLoop
    else match c4_find g a with
         | None => C4dFail C4dNonDict
         | Some nd =>
           if 1 <? c4n_items nd then C4dLeaf path a
           else match c4n_kids nd with
                | [] => if allow_empty && c4n_hasitems nd then C4dEmpty path a else C4dFail C4dNeither
                | kids =>
                  let kn := if first then O else Nat.pred (length kids) in
                  match nth_error kids kn with
                  | None => C4dFail C4dBadKid
                  | Some next =>
                    match c4_find g next with
                    | None => C4dFail C4dBadKid               (* "kid number k is invalid" *)
                    | Some _ => c4_deepen f g next first allow_empty ((a, kn) :: path) seen
                    end
                  end
                end
         end
  end.

Record c4_ist := mkC4ist { c4i_entries : N; c4i_leaves : N; c4i_warns : N }.
Inductive c4_wend := C4wDone | C4wStopped | C4wFuel.

(* NNTreeIterator::increment(false) after the items of the current leaf are exhausted: walk the path upwards,
   getNextKid (skipping kids that have neither /Kids nor the items key, with a warning), deepen(kid, true, false);
   when deepen fails the path is the one getNextKid left, so the search continues with the following sibling.
   `visit leaf node st` is the body of the caller's loop for the items of one leaf (it may stop the loop: break /
   exception), `warn` what NNTreeImpl::warn does to the caller's state.  The step counter is the fuel; C4wFuel =
   fuel exhausted (the caller's cap). *)
Fixpoint c4_nn_walk {T : Type} (visit : N -> c4_nnode -> T -> T * bool) (warn : T -> T)
                    (fuel : nat) (g : list (N * c4_nnode)) (path : list (N * nat)) (st : T) : T * c4_wend :=
  match fuel with
  | O => (st, C4wFuel)
  | S f =>
    match path with
    | [] => (st, C4wDone)
    | (n, k) :: rest =>
      match c4_find g n with
      | None => (st, C4wDone)
      | Some nd =>
        match nth_error (c4n_kids nd) (S k) with
        | None => c4_nn_walk visit warn f g rest st
        | Some kid =>
          let path1 := (n, S k) :: rest in
          let usable := match c4_find g kid with
                        | Some kd => negb (match c4n_kids kd with [] => true | _ => false end) || c4n_hasitems kd
                        | None => false
                        end in
          if negb usable
          then c4_nn_walk visit warn f g path1 (warn st)
          else match c4_deepen (S (length g)) g kid true false path1 (map fst path1) with
               | C4dLeaf path' leaf =>
                   match c4_find g leaf with
                   | Some ld => let '(st', go) := visit leaf ld st in
                                if go then c4_nn_walk visit warn f g path' st' else (st', C4wStopped)
                   | None => c4_nn_walk visit warn f g path' st
                   end
               | C4dEmpty path' _ => c4_nn_walk visit warn f g path' st
               | C4dFail _ => c4_nn_walk visit warn f g path1 (warn st)
               | C4dFuel => (st, C4wFuel)
               end
        end
      end
    end
  end.

(* for (auto it = begin(); it != end(); ++it) body:  begin() = deepen(root, true, true), then ++ until end *)
Definition c4_nn_foreach {T : Type} (visit : N -> c4_nnode -> T -> T * bool) (warn : T -> T)
                         (cap : nat) (g : list (N * c4_nnode)) (root : N) (st : T) : T * c4_wend :=
  match c4_deepen (S (length g)) g root true true [] [] with
  | C4dLeaf path leaf =>
      match c4_find g leaf with
      | Some ld => let '(st', go) := visit leaf ld st in
                   if go then c4_nn_walk visit warn cap g path st' else (st', C4wStopped)
      | None => (st, C4wDone)
      end
  | C4dEmpty _ _ => (st, C4wDone)
  | C4dFail _ => (warn st, C4wDone)
  | C4dFuel => (st, C4wFuel)
  end.

(* the plain iteration of the public API (for (auto const& item: tree), getAsMap, ...): NO guard beyond the nodes of the
   current path.  Until the repair of D-C04-nntree-dag this was also the loop of NNTreeImpl::repair(). *)
Definition c4_nn_iter (cap : nat) (g : list (N * c4_nnode)) (root : N) : c4_ist * bool :=
  let '(st, e) := c4_nn_foreach
                    (fun _ ld st => (mkC4ist (c4i_entries st + c4n_items ld / 2) (c4i_leaves st + 1) (c4i_warns st), true))
                    (fun st => mkC4ist (c4i_entries st) (c4i_leaves st) (c4i_warns st + 1))
                    cap g root (mkC4ist 0 0 0) in
  (st, match e with C4wFuel => false | _ => true end).

(* NNTreeImpl::validate(): the same iteration with `compareKeys(last_key, key) != -1 -> error("keys are not sorted")`.
   Entering a leaf whose smallest key is not above the last key seen ends the loop with the error (also a leaf that
   is not sorted in itself, abstracted to khi < klo).  c4v_seen: the leaves accepted so far (for the proofs). *)
Record c4_vst := mkC4vst { c4v_first : bool; c4v_last : N; c4v_seen : list N; c4v_leaves : N; c4v_warns : N; c4v_err : bool }.
Definition c4_nn_vvisit (leaf : N) (ld : c4_nnode) (st : c4_vst) : c4_vst * bool :=
  if c4v_err st then (st, false)
  else if (negb (c4v_first st) && (c4n_klo ld <=? c4v_last st)) || (c4n_khi ld <? c4n_klo ld)
  then (mkC4vst (c4v_first st) (c4v_last st) (c4v_seen st) (c4v_leaves st + 1) (c4v_warns st) true, false)
  else (mkC4vst false (c4n_khi ld) (leaf :: c4v_seen st) (c4v_leaves st + 1) (c4v_warns st) false, true).
Definition c4_nn_vwarn (st : c4_vst) : c4_vst :=
  mkC4vst (c4v_first st) (c4v_last st) (c4v_seen st) (c4v_leaves st) (c4v_warns st + 1) (c4v_err st).
Definition c4_nn_validate (cap : nat) (g : list (N * c4_nnode)) (root : N) : c4_vst * c4_wend :=
  c4_nn_foreach c4_nn_vvisit c4_nn_vwarn cap g root (mkC4vst true 0 [] 0 0 false).

(* NNTreeImpl::repair() as repaired (fix of D-C04-nntree-dag):
     QPDFObjGen::set seen_leaves; size_t reentered = 0;
     for (auto it = begin(); it != end(); ++it) {
         if (it.item_number == 0 && !seen_leaves.add(it.node.id_gen()) && ++reentered > 1000) { warn(...); break; }
         ... items.insert_or_assign(key, value) ... }
   c4rp_distinct: number of items collected (the items of a re-entered leaf are already in the map). *)
Record c4_rpst := mkC4rpst { c4rp_seen : list N; c4rp_reent : N; c4rp_leaves : N; c4rp_distinct : N; c4rp_warns : N;
                             c4rp_gaveup : bool }.
Definition c4_nn_rvisit (leaf : N) (ld : c4_nnode) (st : c4_rpst) : c4_rpst * bool :=
  if c4rp_gaveup st then (st, false)
  else let '(ok, seen') := c4_add leaf (c4rp_seen st) in
       if ok then (mkC4rpst seen' (c4rp_reent st) (c4rp_leaves st + 1) (c4rp_distinct st + c4n_items ld / 2) (c4rp_warns st) false, true)
       else if 1000 <? c4rp_reent st + 1
       then (mkC4rpst seen' (c4rp_reent st + 1) (c4rp_leaves st + 1) (c4rp_distinct st) (c4rp_warns st + 1) true, false)
       else (mkC4rpst seen' (c4rp_reent st + 1) (c4rp_leaves st + 1) (c4rp_distinct st) (c4rp_warns st) false, true).
Definition c4_nn_rwarn (st : c4_rpst) : c4_rpst :=
  mkC4rpst (c4rp_seen st) (c4rp_reent st) (c4rp_leaves st) (c4rp_distinct st) (c4rp_warns st + 1) (c4rp_gaveup st).
Definition c4_nn_repair (cap : nat) (g : list (N * c4_nnode)) (root : N) : c4_rpst * c4_wend :=
  c4_nn_foreach c4_nn_rvisit c4_nn_rwarn cap g root (mkC4rpst [] 0 0 0 0 false).

(* what every library-internal user does when it opens a tree (QPDFEmbeddedFileDocumentHelper, QPDFPageLabelDocumentHelper,
   the named destinations of QPDFOutlineDocumentHelper: validate(true)): validate, and repair when validation failed.
   After a repair the tree is a freshly built proper tree. *)
Definition c4_nn_open (cap : nat) (g : list (N * c4_nnode)) (root : N) : (c4_vst * c4_wend) * option (c4_rpst * c4_wend) :=
  let v := c4_nn_validate cap g root in
  (v, if c4v_err (fst v) then Some (c4_nn_repair cap g root) else None).

(* NNTreeImpl::findInternal's descent (after the begin() pre-check, which is c4_deepen) *)
Inductive c4_fres := C4fLeaf (leaf : N) | C4fLoop | C4fBadNode | C4fMinus1 | C4fFuel.
Fixpoint c4_nn_find (fuel : nat) (g : list (N * c4_nnode)) (node : N) (seen : list N) (steps : N) : c4_fres * N :=
  match fuel with
  | O => (C4fFuel, steps)
  | S f =>
    let '(ok, seen) := c4_add node seen in
    if negb ok then (C4fLoop, steps)                        (* "loop detected in find" *)
    else match c4_find g node with
         | None => (C4fBadNode, steps)                      (* null node: no items, no kids: "bad node during find" *)
         | Some nd =>
           if 1 <? c4n_items nd then (C4fLeaf node, steps)
           else match c4n_kids nd with
                | [] => (C4fBadNode, steps)
                | kids =>
                  match c4n_pick nd with
                  | None => (C4fMinus1, steps)
                  | Some i => match nth_error kids i with
                              | None => (C4fMinus1, steps)
                              | Some next => c4_nn_find f g next seen (steps + 1)
                              end
                  end
                end
         end
  end.

(* ------------------------------------------------------------------ (d) outlines *)
Record c4_onode := mkC4onode { c4o_first : N; c4o_next : N }.

(* the sibling walk `while (!cur.null()) { if (!set.add(cur)) {warn; stop} ...; cur = cur.getKey("/Next") }`:
   the list of siblings handled and whether it ended in the loop warning.  (Creating the helper of a sibling does
   not change the graph, so the walk can be computed before the helpers; the order of effects is kept by the fold
   in c4_ocreate.) *)
Fixpoint c4_ochain (fuel : nat) (g : list (N * c4_onode)) (cur : N) (set : list N) (acc : list N)
  : option (list N * bool) :=
  match fuel with
  | O => None
  | S f =>
    match (if cur =? 0 then None else c4_find g cur) with
    | None => Some (rev acc, false)
    | Some nd =>
        if c4_mem cur set then Some (rev acc, true)
        else c4_ochain f g (c4o_next nd) (cur :: set) (cur :: acc)
    end
  end.

Record c4_ost := mkC4ost {
  c4os_seen : list N;     (* QPDFOutlineDocumentHelper::Members::seen (document wide) *)
  c4os_made : N;          (* QPDFOutlineObjectHelper objects constructed *)
  c4os_warn : N;          (* "Loop detected loop in /Outlines tree" *)
  c4os_cut : N;           (* constructed at depth > 50: silently childless *)
  c4os_exp : list N;      (* nodes whose children were walked *)
  c4os_fuel_out : bool;
  c4os_maxdepth : nat     (* largest depth at which the children of a node were walked *)
}.
Definition c4_ost0 : c4_ost := mkC4ost [] 0 0 0 [] false 0.

(* QPDFOutlineObjectHelper::QPDFOutlineObjectHelper(oh, dh, depth) *)
Fixpoint c4_ocreate (fuel : nat) (g : list (N * c4_onode)) (n : N) (depth : nat) (st : c4_ost) : c4_ost :=
  match fuel with
  | O => mkC4ost (c4os_seen st) (c4os_made st) (c4os_warn st) (c4os_cut st) (c4os_exp st) true (c4os_maxdepth st)
  | S f =>
    let st := mkC4ost (c4os_seen st) (c4os_made st + 1) (c4os_warn st) (c4os_cut st) (c4os_exp st) (c4os_fuel_out st) (c4os_maxdepth st) in
    if Nat.ltb 50 depth
    then mkC4ost (c4os_seen st) (c4os_made st) (c4os_warn st) (c4os_cut st + 1) (c4os_exp st) (c4os_fuel_out st) (c4os_maxdepth st)
    else if c4_mem n (c4os_seen st)
    then mkC4ost (c4os_seen st) (c4os_made st) (c4os_warn st + 1) (c4os_cut st) (c4os_exp st) (c4os_fuel_out st) (c4os_maxdepth st)
    else
      let st := mkC4ost (n :: c4os_seen st) (c4os_made st) (c4os_warn st) (c4os_cut st) (n :: c4os_exp st) (c4os_fuel_out st)
                        (Nat.max (c4os_maxdepth st) depth) in
      let first := match c4_find g n with Some nd => c4o_first nd | None => 0 end in
      match c4_ochain (S (length g)) g first [] [] with
      | None => mkC4ost (c4os_seen st) (c4os_made st) (c4os_warn st) (c4os_cut st) (c4os_exp st) true (c4os_maxdepth st)
      | Some (sibs, looped) =>
          let st := fold_left (fun st k => c4_ocreate f g k (S depth) st) sibs st in
          if looped
          then mkC4ost (c4os_seen st) (c4os_made st) (c4os_warn st + 1) (c4os_cut st) (c4os_exp st) (c4os_fuel_out st) (c4os_maxdepth st)
          else st
      end
  end.

(* QPDFOutlineDocumentHelper::validate: the top-level chain from /Outlines /First (its own local seen set) *)
Definition c4_outlines (g : list (N * c4_onode)) (first : N) : c4_ost :=
  match c4_ochain (S (length g)) g first [] [] with
  | None => mkC4ost [] 0 0 0 [] true 0
  | Some (tops, looped) =>
      let st := fold_left (fun st k => c4_ocreate 52 g k 1 st) tops c4_ost0 in
      if looped
      then mkC4ost (c4os_seen st) (c4os_made st) (c4os_warn st + 1) (c4os_cut st) (c4os_exp st) (c4os_fuel_out st) (c4os_maxdepth st)
      else st
  end.

(* ------------------------------------------------------------------ (d') AcroForm fields *)
Record c4_fnode := mkC4fnode {
  c4f_T : bool;                  (* has /T *)
  c4f_FT : bool;                 (* has its own /FT *)
  c4f_kids : option (list N);    (* /Kids array, None when absent *)
  c4f_wid : bool;                (* has /Subtype or /Rect or /AP *)
  c4f_parent : N                 (* /Parent, 0 = absent; an id outside the graph is not a dictionary *)
}.

(* the /Parent entry of a node as the code sees it now: traverseField rewrites it ("correcting") and the rewritten
   value is what FT inheritance of the nodes below reads afterwards *)
Definition c4_fparent (ov : list (N * N)) (n : N) (nd : c4_fnode) : N :=
  match c4_find ov n with Some p => p | None => c4f_parent nd end.

(* FormNode::inherited("/FT"):  while (node.Parent() && (++depth < 10 || seen.add(node))) { node = node.Parent();
   if (node["/FT"]) return it; }   - loop detection only starts at depth 10 *)
Fixpoint c4_finherit (fuel : nat) (g : list (N * c4_fnode)) (ov : list (N * N)) (node : N) (depth : nat) (seen : list N) : option bool :=
  match fuel with
  | O => None
  | S f =>
    match c4_find g node with
    | None => Some false
    | Some nd =>
      let par := c4_fparent ov node nd in
      match (if par =? 0 then None else c4_find g par) with
      | None => Some false                                     (* no (dictionary) parent *)
      | Some pd =>
        let depth := S depth in
        let '(ok, seen) := if Nat.ltb depth 10 then (true, seen) else c4_add node seen in
        if negb ok then Some false
        else if c4f_FT pd then Some true
        else c4_finherit f g ov par depth seen
      end
    end
  end.

Definition c4_fhasFT (g : list (N * c4_fnode)) (ov : list (N * N)) (n : N) (nd : c4_fnode) : bool :=
  c4f_FT nd || match c4_finherit (length g + 11) g ov n 0 [] with Some b => b | None => false end.

Record c4_fst := mkC4fst {
  c4fs_fields : list N;    (* keys of fields_ *)
  c4fs_ann : list N;       (* keys of annotation_to_field_ *)
  c4fs_bad : list N;       (* bad_fields_ *)
  c4fs_unnamed : list N;   (* unnamed_fields_ *)
  c4fs_calls : N;
  c4fs_wloop : N;          (* "loop detected while traversing /AcroForm" *)
  c4fs_wtwo : N;           (* "found field with two parents" *)
  c4fs_wparent : N;        (* "encountered invalid /Parent entry ...; correcting" *)
  c4fs_wkind : N;          (* neither field nor annotation / non-dictionary / direct object *)
  c4fs_exp : list N;       (* fields whose /Kids were iterated *)
  c4fs_maxdepth : nat;
  c4fs_par : list (N * N); (* /Parent entries rewritten by "encountered invalid /Parent entry ...; correcting" *)
  c4fs_fuel_out : bool
}.
Definition c4_fst0 : c4_fst := mkC4fst [] [] [] [] 0 0 0 0 0 [] 0 [] false.

Definition c4_fkids (g : list (N * c4_fnode)) (n : N) : list N :=
  match (if n =? 0 then None else c4_find g n) with
  | Some nd => match c4f_kids nd with Some l => l | None => [] end
  | None => []
  end.

(* state updates of traverseField, one definition each (keeps the terms of the proofs small) *)
Definition c4fs_upd_calls (st : c4_fst) : c4_fst :=
  mkC4fst (c4fs_fields st) (c4fs_ann st) (c4fs_bad st) (c4fs_unnamed st) (c4fs_calls st + 1) (c4fs_wloop st)
          (c4fs_wtwo st) (c4fs_wparent st) (c4fs_wkind st) (c4fs_exp st) (c4fs_maxdepth st) (c4fs_par st) (c4fs_fuel_out st).
Definition c4fs_upd_fuel (st : c4_fst) : c4_fst :=
  mkC4fst (c4fs_fields st) (c4fs_ann st) (c4fs_bad st) (c4fs_unnamed st) (c4fs_calls st) (c4fs_wloop st)
          (c4fs_wtwo st) (c4fs_wparent st) (c4fs_wkind st) (c4fs_exp st) (c4fs_maxdepth st) (c4fs_par st) true.
Definition c4fs_upd_wloop (st : c4_fst) : c4_fst :=
  mkC4fst (c4fs_fields st) (c4fs_ann st) (c4fs_bad st) (c4fs_unnamed st) (c4fs_calls st) (c4fs_wloop st + 1)
          (c4fs_wtwo st) (c4fs_wparent st) (c4fs_wkind st) (c4fs_exp st) (c4fs_maxdepth st) (c4fs_par st) (c4fs_fuel_out st).
Definition c4fs_upd_wkind (st : c4_fst) : c4_fst :=
  mkC4fst (c4fs_fields st) (c4fs_ann st) (c4fs_bad st) (c4fs_unnamed st) (c4fs_calls st) (c4fs_wloop st)
          (c4fs_wtwo st) (c4fs_wparent st) (c4fs_wkind st + 1) (c4fs_exp st) (c4fs_maxdepth st) (c4fs_par st) (c4fs_fuel_out st).
Definition c4fs_upd_wtwo (st : c4_fst) : c4_fst :=
  mkC4fst (c4fs_fields st) (c4fs_ann st) (c4fs_bad st) (c4fs_unnamed st) (c4fs_calls st) (c4fs_wloop st)
          (c4fs_wtwo st + 1) (c4fs_wparent st) (c4fs_wkind st) (c4fs_exp st) (c4fs_maxdepth st) (c4fs_par st) (c4fs_fuel_out st).
(* if (unnamed_fields_.contains(og)) bad_fields_.insert(og);  and the depth seen so far *)
Definition c4fs_upd_enter (field : N) (depth : nat) (st : c4_fst) : c4_fst :=
  mkC4fst (c4fs_fields st) (c4fs_ann st)
          (if c4_mem field (c4fs_unnamed st) then (if c4_mem field (c4fs_bad st) then c4fs_bad st else field :: c4fs_bad st)
           else c4fs_bad st)
          (c4fs_unnamed st) (c4fs_calls st) (c4fs_wloop st)
          (c4fs_wtwo st) (c4fs_wparent st) (c4fs_wkind st) (c4fs_exp st) (Nat.max (c4fs_maxdepth st) depth) (c4fs_par st) (c4fs_fuel_out st).
(* fields_[our_field].annotations.emplace_back(field): operator[] creates the entry of our_field; annotation_to_field_[og] = ... *)
Definition c4fs_upd_annot (our field : N) (st : c4_fst) : c4_fst :=
  mkC4fst (if c4_mem our (c4fs_fields st) then c4fs_fields st else our :: c4fs_fields st)
          (field :: c4fs_ann st) (c4fs_bad st) (c4fs_unnamed st) (c4fs_calls st) (c4fs_wloop st)
          (c4fs_wtwo st) (c4fs_wparent st) (c4fs_wkind st) (c4fs_exp st) (c4fs_maxdepth st) (c4fs_par st) (c4fs_fuel_out st).
(* "encountered invalid /Parent entry ...; correcting": field.replaceKey("/Parent", parent) *)
Definition c4fs_upd_correct (field parent : N) (st : c4_fst) : c4_fst :=
  mkC4fst (c4fs_fields st) (c4fs_ann st) (c4fs_bad st) (c4fs_unnamed st) (c4fs_calls st) (c4fs_wloop st)
          (c4fs_wtwo st) (c4fs_wparent st + 1) (c4fs_wkind st) (c4fs_exp st) (c4fs_maxdepth st)
          ((field, parent) :: c4fs_par st) (c4fs_fuel_out st).
Definition c4fs_upd_named (field : N) (st : c4_fst) : c4_fst :=
  mkC4fst (if c4_mem field (c4fs_fields st) then c4fs_fields st else field :: c4fs_fields st)
          (c4fs_ann st) (c4fs_bad st) (c4fs_unnamed st) (c4fs_calls st) (c4fs_wloop st)
          (c4fs_wtwo st) (c4fs_wparent st) (c4fs_wkind st) (c4fs_exp st) (c4fs_maxdepth st) (c4fs_par st) (c4fs_fuel_out st).
Definition c4fs_upd_unnamed (field : N) (st : c4_fst) : c4_fst :=
  mkC4fst (c4fs_fields st) (c4fs_ann st) (c4fs_bad st)
          (if c4_mem field (c4fs_unnamed st) then c4fs_unnamed st else field :: c4fs_unnamed st)
          (c4fs_calls st) (c4fs_wloop st)
          (c4fs_wtwo st) (c4fs_wparent st) (c4fs_wkind st) (c4fs_exp st) (c4fs_maxdepth st) (c4fs_par st) (c4fs_fuel_out st).
Definition c4fs_upd_exp (field : N) (st : c4_fst) : c4_fst :=
  mkC4fst (c4fs_fields st) (c4fs_ann st) (c4fs_bad st) (c4fs_unnamed st) (c4fs_calls st) (c4fs_wloop st)
          (c4fs_wtwo st) (c4fs_wparent st) (c4fs_wkind st) (field :: c4fs_exp st) (c4fs_maxdepth st) (c4fs_par st) (c4fs_fuel_out st).
Definition c4fs_upd_bad (kid : N) (st : c4_fst) : c4_fst :=
  mkC4fst (c4fs_fields st) (c4fs_ann st) (if c4_mem kid (c4fs_bad st) then c4fs_bad st else kid :: c4fs_bad st)
          (c4fs_unnamed st) (c4fs_calls st) (c4fs_wloop st)
          (c4fs_wtwo st) (c4fs_wparent st) (c4fs_wkind st) (c4fs_exp st) (c4fs_maxdepth st) (c4fs_par st) (c4fs_fuel_out st).

Definition c4_fis_field (g : list (N * c4_fnode)) (st : c4_fst) (field : N) (nd : c4_fnode) : bool :=
  c4f_T nd || (match c4f_kids nd with Some _ => true | None => false end) || c4_fhasFT g (c4fs_par st) field nd.
Definition c4_fis_annot (nd : c4_fnode) : bool :=
  negb (match c4f_kids nd with Some _ => true | None => false end) && c4f_wid nd.
(* the /Parent comparison: 0 = go on, 1 = two parents (return true), 2 = loop (return false), 3 = corrected *)
Definition c4_fpcheck (g : list (N * c4_fnode)) (st : c4_fst) (field parent : N) (depth : nat) (nd : c4_fnode) : nat :=
  let par := c4_fparent (c4fs_par st) field nd in
  if (match depth with O => true | _ => false end) || (par =? parent) then 0%nat
  else if c4_mem field (c4_fkids g par) then 1%nat
  else if c4_mem parent (c4_fkids g par) then 2%nat
  else 3%nat.
(* the bookkeeping of a field that is about to have its /Kids traversed *)
Definition c4fs_upd_record (field parent : N) (pc : nat) (nd : c4_fnode) (st : c4_fst) : c4_fst :=
  let st := match pc with 3%nat => c4fs_upd_correct field parent st | _ => st end in
  let st := if c4f_T nd then c4fs_upd_named field st
            else if negb (c4_fis_annot nd) then c4fs_upd_unnamed field st else st in
  c4fs_upd_exp field st.

(* AcroForm::traverseField(field, parent, depth) -> (returned bool, state) *)
Fixpoint c4_ftrav (fuel : nat) (g : list (N * c4_fnode)) (field parent : N) (depth : nat) (st : c4_fst) : bool * c4_fst :=
  match fuel with
  | O => (false, c4fs_upd_fuel st)
  | S f =>
    if Nat.ltb 100 depth then (false, c4fs_upd_calls st)
    else if field =? 0 then (false, c4fs_upd_wkind (c4fs_upd_calls st))                   (* direct object *)
    else if field =? parent then (false, c4fs_upd_wloop (c4fs_upd_calls st))
    else match c4_find g field with
    | None => (false, c4fs_upd_wkind (c4fs_upd_calls st))                               (* not a dictionary *)
    | Some nd =>
      let st1 := c4fs_upd_enter field depth (c4fs_upd_calls st) in
      if c4_mem field (c4fs_fields st1) || c4_mem field (c4fs_ann st1) || c4_mem field (c4fs_bad st1)
      then (false, c4fs_upd_wloop st1)
      else if negb (c4_fis_field g st1 field nd) && negb (c4_fis_annot nd) then (false, c4fs_upd_wkind st1)
      else
        let st2 := if c4_fis_annot nd
                   then c4fs_upd_annot (if c4_fis_field g st1 field nd then field else parent) field st1
                   else st1 in
        if negb (c4_fis_field g st1 field nd) then (true, st2)
        else
          match c4_fpcheck g st2 field parent depth nd with
          | 1%nat => (true, c4fs_upd_wtwo st2)
          | 2%nat => (false, c4fs_upd_wloop st2)
          | pc =>
            (true,
             fold_left (fun st kid =>
                          if c4_mem kid (c4fs_bad st) then st
                          else let '(r, st') := c4_ftrav f g kid field (S depth) st in
                               if r then st' else c4fs_upd_bad kid st')
                       (match c4f_kids nd with Some l => l | None => [] end)
                       (c4fs_upd_record field parent pc nd st2))
          end
    end
  end.

(* AcroForm::analyze(): for (auto const& field: /Fields) traverseField(field, {}, 0).  Fuel 103: depth limit. *)
Definition c4_acroform (g : list (N * c4_fnode)) (fields : list N) : c4_fst :=
  fold_left (fun st k => snd (c4_ftrav 103 g k 0 0 st)) fields c4_fst0.

(* ------------------------------------------------------------------ (e) parser limits as counter machines *)
(* nesting: `case tt_array_open/tt_dict_open: if (stack_.size() > max_nesting) limits_error(...)`; the stack has
   one frame when parse_remainder starts; a close token with stack_.size() <= 1 returns the object. *)
Inductive c4_tok := C4tOpen | C4tClose | C4tOther.
Inductive c4_nres := C4nDone (maxdepth : N) | C4nLimit (maxdepth : N) | C4nEof (maxdepth : N).
Fixpoint c4_nest_run (max_nesting : N) (toks : list c4_tok) (depth maxd : N) : c4_nres :=
  match toks with
  | [] => C4nEof maxd
  | C4tOpen :: r => if max_nesting <? depth then C4nLimit maxd
                    else c4_nest_run max_nesting r (depth + 1) (N.max maxd (depth + 1))
  | C4tClose :: r => if depth <=? 1 then C4nDone maxd else c4_nest_run max_nesting r (depth - 1) maxd
  | C4tOther :: r => c4_nest_run max_nesting r depth maxd
  end.
(* parse_first pushes the first frame for the opening token, then parse_remainder runs *)
Definition c4_nest (max_nesting : N) (toks : list c4_tok) : c4_nres := c4_nest_run max_nesting toks 1 1.

(* Parser::check_too_many_bad_tokens.  max_bad = max_bad_count_ (uint32, 0 = no budget), good/bad the two ints,
   sanity = sanity_checks_, olist/dict = sizes of the current frame, in_array = frame_->state == st_array,
   lim_d / lim_n = parser_max_container_size(true/false). *)
Record c4_bst := mkC4bst { c4b_max : N; c4b_good : Z; c4b_bad : Z }.
Inductive c4_bres := C4bGoOn (s : c4_bst) | C4bContainer | C4bBudget | C4bGiveUp.
Definition c4_bad_limit (lim_d lim_n : N) (sanity : bool) (s : c4_bst) : N :=
  if (negb (c4b_bad s =? 0)%Z) || sanity then lim_d else lim_n.     (* parser_max_container_size(bad_count_ || sanity_checks_) *)
Definition c4_bad_check (lim_d lim_n : N) (sanity : bool) (olist dict : N) (in_array : bool) (s : c4_bst) : c4_bres :=
  let limit := c4_bad_limit lim_d lim_n sanity s in
  if (limit <=? olist) || (limit <=? dict) then C4bContainer
  else
    let hit := negb (c4b_max s =? 0) && (c4b_max s - 1 =? 0) in
    let max' := if c4b_max s =? 0 then 0 else c4b_max s - 1 in          (* max_bad_count_ && --max_bad_count_ == 0 *)
    if hit then C4bBudget
    else if (4 <? c4b_good s)%Z then C4bGoOn (mkC4bst max' 0 1)
    else
      let bad' := (c4b_bad s + 1)%Z in
      if (5 <? bad')%Z || (negb in_array && (max' <? olist)) then C4bGiveUp
      else C4bGoOn (mkC4bst max' 0 bad').

(* one event per token of parse_remainder: `++good_count_` for every token, then the check when the token is bad;
   a good token that goes through add_scalar (c4e_scalar) first tests the container size: when it is reached
   add_scalar sets max_bad_count_ = 1 and calls the check, whose first test is the same one ("always throws") *)
Record c4_bev := mkC4bev { c4e_bad : bool; c4e_scalar : bool; c4e_olist : N; c4e_dict : N; c4e_in_array : bool }.
Fixpoint c4_bad_run (lim_d lim_n : N) (sanity : bool) (evs : list c4_bev) (s : c4_bst) (nbad : N) : c4_bres * N :=
  match evs with
  | [] => (C4bGoOn s, nbad)
  | e :: r =>
    let s := mkC4bst (c4b_max s) (c4b_good s + 1)%Z (c4b_bad s) in
    if c4e_bad e
    then match c4_bad_check lim_d lim_n sanity (c4e_olist e) (c4e_dict e) (c4e_in_array e) s with
         | C4bGoOn s' => c4_bad_run lim_d lim_n sanity r s' (nbad + 1)
         | x => (x, nbad + 1)
         end
    else if c4e_scalar e && ((c4_bad_limit lim_d lim_n sanity s <=? c4e_olist e) || (c4_bad_limit lim_d lim_n sanity s <=? c4e_dict e))
    then (C4bContainer, nbad)
    else c4_bad_run lim_d lim_n sanity r s nbad
  end.

(* ------------------------------------------------------------------ (f) checked integer conversion *)
(* an integral type = (signed?, bits).  Values are mathematical integers inside the source type's range. *)
Definition c4_tmin (sg : bool) (bits : N) : Z := if sg then (- 2 ^ (Z.of_N bits - 1))%Z else 0%Z.
Definition c4_tmax (sg : bool) (bits : N) : Z := if sg then (2 ^ (Z.of_N bits - 1) - 1)%Z else (2 ^ Z.of_N bits - 1)%Z.
(* static_cast to an integral type of the given shape: reduction modulo 2^bits into the type's range *)
Definition c4_cast (sg : bool) (bits : N) (v : Z) : Z :=
  let m := (2 ^ Z.of_N bits)%Z in
  let r := (v mod m)%Z in
  if sg && (2 ^ (Z.of_N bits - 1) <=? r)%Z then (r - m)%Z else r.

(* QIntC::IntConverter<From, To, From_signed, To_signed>::convert: the four specialisations; None = std::range_error.
   The value returned is static_cast<To>(i), written as c4_cast so that a missing check would show as a wrapped value. *)
Definition c4_convert (fs : bool) (fb : N) (ts : bool) (tb : N) (i : Z) : option Z :=
  match fs, ts with
  | false, false => if (c4_tmax false tb <? i)%Z then None else Some (c4_cast false tb i)
  | true, true => if (i <? c4_tmin true tb)%Z || (c4_tmax true tb <? i)%Z then None else Some (c4_cast true tb i)
  | true, false => let ii := c4_cast false fb i in                         (* static_cast<make_unsigned<From>>(i) *)
                   if (i <? 0)%Z || (c4_tmax false tb <? ii)%Z then None else Some (c4_cast false tb i)
  | false, true => let maxval := c4_cast false tb (c4_tmax true tb) in     (* static_cast<make_unsigned<To>>(max) *)
                   if (maxval <? i)%Z then None else Some (c4_cast true tb i)
  end.

(* util::fits<T>(val): std::cmp_less / std::cmp_greater are mathematical comparisons; each half is only compiled
   in when the source type can exceed the target on that side *)
Definition c4_fits (fs : bool) (fb : N) (ts : bool) (tb : N) (v : Z) : bool :=
  negb ((c4_tmin fs fb <? c4_tmin ts tb)%Z && (v <? c4_tmin ts tb)%Z) &&
  negb ((c4_tmax ts tb <? c4_tmax fs fb)%Z && (c4_tmax ts tb <? v)%Z).
(* util::to<T>(val) *)
Definition c4_util_to (fs : bool) (fb : N) (ts : bool) (tb : N) (v : Z) : option Z :=
  if c4_fits fs fb ts tb v then Some (c4_cast ts tb v) else None.

(* ------------------------------------------------------------------ (g) reconstruct_xref's one-shot flag *)
(* one event = one call of reconstruct_xref(e, found_startxref); late_ok: the late-startxref branch is taken and
   read_xref succeeds with a page tree, which executes `m->reconstructed_xref = false; return;` *)
Record c4_rev := mkC4rev { c4r_found_startxref : bool; c4r_late_ok : bool }.
Record c4_rst := mkC4rst { c4r_flag : bool; c4r_scans : N; c4r_rethrown : N }.
Definition c4_recon_step (s : c4_rst) (e : c4_rev) : c4_rst :=
  if c4r_flag s then mkC4rst true (c4r_scans s) (c4r_rethrown s + 1)         (* throw e *)
  else if negb (c4r_found_startxref e) && c4r_late_ok e
       then mkC4rst false (c4r_scans s + 1) (c4r_rethrown s)
       else mkC4rst true (c4r_scans s + 1) (c4r_rethrown s).
Definition c4_recon_run (evs : list c4_rev) : c4_rst := fold_left c4_recon_step evs (mkC4rst false 0 0).

(* ------------------------------------------------------------------ exception translation at the boundaries *)
Inductive c4_exn := C4eNone | C4eQPDFExc | C4eUsage | C4eRuntime | C4eLogic | C4eOtherStd.
(* trap_errors: (QPDF_ERRORS bit set?, error code class: 0 none, 1 the QPDFExc's own, 2 qpdf_e_system, 3 qpdf_e_internal) *)
Definition c4_trap_c (e : c4_exn) : bool * N :=
  match e with
  | C4eNone => (false, 0)
  | C4eQPDFExc => (true, 1)
  | C4eUsage | C4eRuntime => (true, 2)          (* QPDFUsage derives from std::runtime_error *)
  | C4eLogic | C4eOtherStd => (true, 3)
  end.
(* realmain: exit status given what QPDFJob::run threw; warnings -> 3 through getExitCode *)
Definition c4_trap_cli (e : c4_exn) (warnings : bool) : N :=
  match e with
  | C4eNone => if warnings then 3 else 0
  | _ => 2
  end.

(* ------------------------------------------------------------------ (i) qpdf JSON import: which exception can leave importJSON
   QPDF::importJSON (QPDF_json.cc) runs JSON::parse with the JSONReactor and translates at its boundary:
       try { JSON::parse(is, reactor); } catch (std::runtime_error& e) { throw std::runtime_error(name + ": " + e.what()); }
       if (reactor.anyErrors()) throw std::runtime_error(name + ": errors found in JSON");
   so QPDFExc, QPDFUsage, QPDFSystemError and every other std::runtime_error leave as std::runtime_error, while a
   std::logic_error (or anything else) thrown below passes through UNTRANSLATED.  The one place below where the input
   decides whether a precondition of the library holds is JSONReactor::replaceObject -> QPDF::replaceObject:
       "value":  if (replacement.isIndirect()) { error(...); return true; }            (fix 4e9cbd25)
       reactor:  if (replacement.isIndirect() && !(replacement.isStream() && replacement.getObjGen() == og)) { error(...); return; }
       library:  if (!oh || (oh.isIndirect() && !(oh.isStream() && oh.getObjGen() == og))) throw std::logic_error(...)
   The model keeps, per object id, whether the object is a stream at the moment a member is processed (isStream()
   resolves the reference: a stream defined EARLIER in the same text or present in the file being updated counts, a
   forward reference does not), which is all the two tests look at. *)
Record c4_jrepl := mkC4jrepl {
  c4j_init : bool;       (* the handle is initialised *)
  c4j_indirect : bool;   (* isIndirect() *)
  c4j_stream : bool;     (* isStream() *)
  c4j_same : bool        (* getObjGen() == og of the object being defined *)
}.
Definition c4_jr_refuses (r : c4_jrepl) : bool := c4j_indirect r && negb (c4j_stream r && c4j_same r).
Definition c4_qpdf_replace_throws (r : c4_jrepl) : bool :=
  negb (c4j_init r) || (c4j_indirect r && negb (c4j_stream r && c4j_same r)).

(* members of one "obj:n g R" entry, as far as errors and stream-ness go *)
Inductive c4_jmember :=
| C4jValRef (n g : N)                    (* "value": "n g R" *)
| C4jValDirect (ok : bool)               (* "value": anything else; ok = false: makeObject reports an error (-> null) *)
| C4jStream (isdict dict data datafile suberr : bool)
                                         (* "stream": a dictionary? with "dict" / "data" / "datafile"; suberr: a member has the wrong type *)
| C4jIgnored.                            (* any other key *)

Definition c4_jog_eqb (a b : N * N) : bool := (fst a =? fst b) && (snd a =? snd b).
Definition c4_jis_stream (tbl : list (N * N)) (og : N * N) : bool := existsb (c4_jog_eqb og) tbl.
Definition c4_jset_stream (tbl : list (N * N)) (og : N * N) (b : bool) : list (N * N) :=
  let t := filter (fun x => negb (c4_jog_eqb og x)) tbl in if b then og :: t else t.

(* state while one entry is read: stream table, error flag, number of refused "value" references,
   exception thrown so far (C4eNone = none), flags saw_value / saw_stream / saw_dict / saw_data / saw_datafile / needs_data *)
Record c4_jst := mkC4jst {
  c4js_tbl : list (N * N); c4js_err : bool; c4js_refused : N; c4js_exn : c4_exn;
  c4js_value : bool; c4js_stream : bool; c4js_dict : bool; c4js_data : bool; c4js_datafile : bool; c4js_needs : bool }.

(* JSONReactor::replaceObject(replacement) for the object og *)
Definition c4_jreplace (og : N * N) (r : c4_jrepl) (becomes_stream : bool) (s : c4_jst) : c4_jst :=
  if c4_jr_refuses r then
    mkC4jst (c4js_tbl s) true (c4js_refused s + 1) (c4js_exn s)
            (c4js_value s) (c4js_stream s) (c4js_dict s) (c4js_data s) (c4js_datafile s) (c4js_needs s)
  else if c4_qpdf_replace_throws r then
    mkC4jst (c4js_tbl s) (c4js_err s) (c4js_refused s) C4eLogic
            (c4js_value s) (c4js_stream s) (c4js_dict s) (c4js_data s) (c4js_datafile s) (c4js_needs s)
  else
    mkC4jst (c4_jset_stream (c4js_tbl s) og becomes_stream) (c4js_err s) (c4js_refused s) (c4js_exn s)
            (c4js_value s) (c4js_stream s) (c4js_dict s) (c4js_data s) (c4js_datafile s) (c4js_needs s).

Definition c4_jwith_err (e : bool) (s : c4_jst) : c4_jst :=
  mkC4jst (c4js_tbl s) (c4js_err s || e) (c4js_refused s) (c4js_exn s)
          (c4js_value s) (c4js_stream s) (c4js_dict s) (c4js_data s) (c4js_datafile s) (c4js_needs s).

(* dictionaryItem in st_object_top (an exception already thrown ends the parse: later members are not seen) *)
Definition c4_jmember_step (og : N * N) (s : c4_jst) (m : c4_jmember) : c4_jst :=
  match c4js_exn s with
  | C4eNone =>
    match m with
    | C4jValRef n g =>
      (* since fix 4e9cbd25 (C14-F4) the "value" member tests replacement.isIndirect() itself and reports the error before
         JSONReactor::replaceObject is called: every reference is refused, also the one to the stream itself (which
         replaceObject's own test would let through - that exception is meant for the stream created for "stream") *)
      mkC4jst (c4js_tbl s) true (c4js_refused s + 1) (c4js_exn s)
              true (c4js_stream s) (c4js_dict s) (c4js_data s) (c4js_datafile s) (c4js_needs s)
    | C4jValDirect ok =>
      let s1 := mkC4jst (c4js_tbl s) (c4js_err s || negb ok) (c4js_refused s) (c4js_exn s)
                        true (c4js_stream s) (c4js_dict s) (c4js_data s) (c4js_datafile s) (c4js_needs s) in
      c4_jreplace og (mkC4jrepl true false false false) false s1
    | C4jStream isdict dict data datafile suberr =>
      if negb isdict then                                  (* "stream" must be a dictionary *)
        mkC4jst (c4js_tbl s) true (c4js_refused s) (c4js_exn s)
                (c4js_value s) true (c4js_dict s) (c4js_data s) (c4js_datafile s) (c4js_needs s)
      else
        let was := c4_jis_stream (c4js_tbl s) og in
        let s1 := mkC4jst (c4js_tbl s) (c4js_err s || suberr) (c4js_refused s) (c4js_exn s)
                          (c4js_value s) true (c4js_dict s || dict) (c4js_data s || data) (c4js_datafile s || datafile) (c4js_needs s || negb was) in
        if was then s1
        else c4_jreplace og (mkC4jrepl true true true true) true s1     (* qpdf::Stream(pdf, og, newDictionary(), 0, 0) *)
    | C4jIgnored => s
    end
  | _ => s
  end.

(* containerEnd with from_state = st_object_top *)
Definition c4_jentry_end_err (s : c4_jst) : bool :=
  Bool.eqb (c4js_value s) (c4js_stream s) ||
  (c4js_stream s && (negb (c4js_dict s) || (Bool.eqb (c4js_data s) (c4js_datafile s) && (c4js_needs s || c4js_datafile s)))).

(* one member of qpdf[1]: a well-formed "obj:n g R" key whose value is a JSON object, or anything else (error) *)
Inductive c4_jentry :=
| C4jObj (n g : N) (members : list c4_jmember)
| C4jBadEntry                                  (* bad key, or the value is not a JSON object: error(...) *)
| C4jThrows (e : c4_exn).                      (* the JSON parser or a callee throws here (syntax error: runtime_error; "n:" key: QPDFExc) *)

Definition c4_jentry_step (s : c4_jst) (e : c4_jentry) : c4_jst :=
  match c4js_exn s with
  | C4eNone =>
    match e with
    | C4jObj n g ms =>
      let s0 := mkC4jst (c4js_tbl s) (c4js_err s) (c4js_refused s) (c4js_exn s) false false false false false false in
      let s1 := fold_left (c4_jmember_step (n, g)) ms s0 in
      match c4js_exn s1 with
      | C4eNone => c4_jwith_err (c4_jentry_end_err s1) s1
      | _ => s1
      end
    | C4jBadEntry => c4_jwith_err true s
    | C4jThrows x => mkC4jst (c4js_tbl s) (c4js_err s) (c4js_refused s) x
                             (c4js_value s) (c4js_stream s) (c4js_dict s) (c4js_data s) (c4js_datafile s) (c4js_needs s)
    end
  | _ => s
  end.

(* importJSON: (exception that leaves it, number of refused references, stream table at the end).
   frame_err: an error reported outside qpdf[1] (missing "qpdf", versions, trailer ...) *)
Definition c4_import_json (tbl : list (N * N)) (frame_err : bool) (es : list c4_jentry) : c4_exn * N * list (N * N) :=
  let s := fold_left c4_jentry_step es (mkC4jst tbl frame_err 0 C4eNone false false false false false false) in
  let x := match c4js_exn s with
           | C4eNone => if c4js_err s then C4eRuntime else C4eNone
           | C4eQPDFExc | C4eUsage | C4eRuntime => C4eRuntime     (* catch (std::runtime_error&) *)
           | e => e                                                (* not translated *)
           end in
  (x, c4js_refused s, c4js_tbl s).

(* ------------------------------------------------------------------ (j) Pl_PNGFilter's constructor: the size of the row buffers
   columns, samples_per_pixel, bits_per_sample are uint32_t; bits_per_pixel and bpr are unsigned long long (no wrap for
   32-bit factors); bytes_per_row is uint32_t and the two row buffers are allocated with `bytes_per_row + 1` elements -
   an addition in uint32_t, which is why the range check is made on bpr + 1 (repair of D-C04-png-row-wrap: the check used
   to accept bpr = 2^32 - 1, for which the addition wraps to 0 - buffers of size 0, `incoming` 0 - and decodeRow then read
   cur_row[0] and handed bytes_per_row bytes from cur_row + 1 to the next pipeline).
   limit = global::Limits::png_max_memory(), 0 = none (the default outside fuzz mode). *)
Record c4_png := mkC4png { c4png_bpr : Z; c4png_alloc : Z; c4png_incoming : Z }.
Definition c4_png_ctor (decode : bool) (limit columns spp bps : Z) : option c4_png :=
  if (spp <? 1)%Z then None
  else if negb ((bps =? 1) || (bps =? 2) || (bps =? 4) || (bps =? 8) || (bps =? 16))%Z then None
  else
    let bpp := (bps * spp)%Z in
    if negb (bpp + 7 <? 4294967296)%Z then None
    else
      let bpr := ((columns * bpp + 7) / 8)%Z in
      if ((bpr =? 0) || negb (bpr + 1 <? 4294967296))%Z then None
      else if ((0 <? limit) && (limit / 2 <? bpr))%Z then None
      else Some (mkC4png bpr ((bpr + 1) mod 4294967296)%Z (if decode then ((bpr + 1) mod 4294967296)%Z else bpr)).

(* does the entry "obj:n g R": { members } leave a NEW stream (the object was no stream before) for which neither "data" nor
   "datafile" was seen, without any error having been reported?  Such a stream has no data provider: every later use
   (QPDFWriter::write, JSON output, getStreamData) throws std::logic_error("pipeStreamData called for stream with no data").
   containerEnd excludes it ("new stream must have exactly one of data or datafile") through this_stream_needs_data, which
   is set when a "stream" member creates the stream and reset only when the entry ends (c4js_needs s || negb was).  Before
   the repair of C04-F-json-dup-stream every "stream" member assigned the flag again (negb was), so a second "stream"
   member - which finds the object to be a stream already - cleared it. *)
Definition c4_jentry_dataless (tbl : list (N * N)) (og : N * N) (ms : list c4_jmember) : bool :=
  let s0 := mkC4jst tbl false 0 C4eNone false false false false false false in
  let s1 := fold_left (c4_jmember_step og) ms s0 in
  negb (c4_jis_stream tbl og) && c4_jis_stream (c4js_tbl s1) og &&
  negb (c4js_data s1) && negb (c4js_datafile s1) && negb (c4js_err s1 || c4_jentry_end_err s1).
