(* C03 - towards rd_reads_writer_output: the tokenizer/parser MODELS of qpdf's reader read what the writer model
   (Obj/WriterModel.v, printers Obj/WmPrinters.v) prints. *)
From QV Require Import Base.Bytes Lex.TokModel Lex.LexSpec Lex.TokInterp Lex.LexRun Lex.LexProofs
     Obj.Unparse Obj.UnparseProofs Obj.SynSpec Obj.SynMachine Obj.ParseModel Obj.ParseProofs Obj.ParseSim
     Obj.Queue File.WriterArith Obj.WriterModel Obj.WmPrinters File.C02Proofs Obj.C01FileProofs File.XrefModel File.RdModel.
From Coq Require Import Lia.
Local Open Scope N_scope.

(* ------------------------------------------------------------------ the two printer models are the same function *)
Lemma rw_hex_char : forall c, c < 256 ->
  [hexchar_lc (N.shiftr c 4); hexchar_lc (N.land c 15)] = [wm_hexd (c / 16); wm_hexd (c mod 16)].
Proof.
  intros c Hc.
  pose proof (byte_sweep (fun c => list_eqb N.eqb [hexchar_lc (N.shiftr c 4); hexchar_lc (N.land c 15)]
                                           [wm_hexd (c / 16); wm_hexd (c mod 16)])
                         ltac:(vm_compute; reflexivity) c Hc) as H.
  cbn beta in H. apply list_eqb_N_eq in H. exact H.
Qed.

Lemma rw_hexenc : forall v, bytes_ok v -> hexenc v = flat_map (fun b => [wm_hexd (b / 16); wm_hexd (b mod 16)]) v.
Proof.
  induction 1 as [|c v Hc Hv IH]; [reflexivity|].
  unfold hexenc in *. cbn [flat_map]. rewrite IH. f_equal. apply rw_hex_char. exact Hc.
Qed.

Lemma rw_esc : forall c, c < 256 -> esc c = wm_lit_char c.
Proof.
  intros c Hc.
  pose proof (byte_sweep (fun c => list_eqb N.eqb (esc c) (wm_lit_char c)) ltac:(vm_compute; reflexivity) c Hc) as H.
  cbn beta in H. apply list_eqb_N_eq in H. exact H.
Qed.

Lemma rw_litenc : forall v, bytes_ok v -> litenc v = flat_map wm_lit_char v.
Proof.
  induction 1 as [|c v Hc Hv IH]; [reflexivity|].
  unfold litenc in *. cbn [flat_map]. rewrite IH, (rw_esc c Hc). reflexivity.
Qed.

Lemma rw_nesc : forall c, c < 256 -> nesc c = wm_name_char c.
Proof.
  intros c Hc.
  pose proof (byte_sweep (fun c => list_eqb N.eqb (nesc c) (wm_name_char c)) ltac:(vm_compute; reflexivity) c Hc) as H.
  cbn beta in H. apply list_eqb_N_eq in H. exact H.
Qed.

Lemma rw_nameenc : forall n, bytes_ok n -> nameenc n = flat_map wm_name_char n.
Proof.
  induction 1 as [|c v Hc Hv IH]; [reflexivity|].
  unfold nameenc in *. cbn [flat_map]. rewrite IH, (rw_nesc c Hc). reflexivity.
Qed.

Lemma rw_name : forall n, bytes_ok n -> wm_unparse_name n = name_normalize (47 :: n).
Proof. intros n Hn. rewrite name_normalize_form, (rw_nameenc n Hn). reflexivity. Qed.

(* useHexString: one step of the scan *)
Definition rw_scan_step (b : N) : N :=       (* 0 keep count, 1 count + 1, 2 hex *)
  let ch := ch_signed b in
  if (ch >? 126)%Z then 1 else if (ch >=? 32)%Z then 0 else if ((ch <? 0) || (ch >=? 24))%Z then 1
  else if negb ((b =? 10) || (b =? 13) || (b =? 9) || (b =? 8) || (b =? 12)) then 2 else 0.
Definition rw_wm_step (ch : N) : N :=
  if ch =? 127 then 1 else if (32 <=? ch) && (ch <? 127) then 0 else if (128 <=? ch) || (24 <=? ch) then 1
  else if (ch =? 10) || (ch =? 13) || (ch =? 9) || (ch =? 8) || (ch =? 12) then 0 else 2.
Lemma rw_step_eq : forall c, c < 256 -> rw_scan_step c = rw_wm_step c.
Proof.
  intros c Hc.
  pose proof (byte_sweep (fun c => rw_scan_step c =? rw_wm_step c) ltac:(vm_compute; reflexivity) c Hc) as H.
  apply N.eqb_eq in H. exact H.
Qed.
Lemma rw_scan_unf : forall c v na, use_hex_scan (c :: v) na =
  match rw_scan_step c with 0 => use_hex_scan v na | 1 => use_hex_scan v (na + 1) | _ => None end.
Proof.
  intros c v na. cbn [use_hex_scan]. unfold rw_scan_step. cbv zeta.
  destruct (ch_signed c >? 126)%Z; [reflexivity|].
  destruct (ch_signed c >=? 32)%Z; [reflexivity|].
  destruct ((ch_signed c <? 0) || (ch_signed c >=? 24))%Z; [reflexivity|].
  destruct (negb ((c =? 10) || (c =? 13) || (c =? 9) || (c =? 8) || (c =? 12))); reflexivity.
Qed.
Lemma rw_wm_unf : forall c v na, wm_scan (c :: v) na =
  match rw_wm_step c with 0 => wm_scan v na | 1 => wm_scan v (na + 1) | _ => None end.
Proof.
  intros c v na. cbn [wm_scan]. unfold rw_wm_step.
  destruct (c =? 127); [reflexivity|].
  destruct ((32 <=? c) && (c <? 127)); [reflexivity|].
  destruct ((128 <=? c) || (24 <=? c)); [reflexivity|].
  destruct ((c =? 10) || (c =? 13) || (c =? 9) || (c =? 8) || (c =? 12)); reflexivity.
Qed.
Lemma rw_scan : forall v na, bytes_ok v -> use_hex_scan v na = wm_scan v na.
Proof.
  intros v na H. revert na. induction H as [|c v Hc Hv IH]; intros na; [reflexivity|].
  rewrite rw_scan_unf, rw_wm_unf, (rw_step_eq c Hc).
  destruct (rw_wm_step c) as [|[p|p|]]; try reflexivity; apply IH.
Qed.

Lemma rw_string : forall s, bytes_ok s -> wm_unparse_string s = string_unparse false s.
Proof.
  intros s Hs. rewrite string_unparse_form. unfold wm_unparse_string, wm_use_hex, use_hex_string.
  rewrite (rw_scan s 0 Hs). cbn [orb].
  destruct (match wm_scan s 0 with Some na => N.of_nat (length s) <? 5 * na | None => true end).
  - rewrite (rw_hexenc s Hs). reflexivity.
  - rewrite (rw_litenc s Hs). reflexivity.
Qed.

(* ------------------------------------------------------------------ one step of the specification lexer on printed text *)
Definition rw_step (inp : list N) (tok : ptoken) (rest : list N) : Prop :=
  bytes_ok inp /\ spec_next inp = LexTok tok rest /\ ~ In 11 (head_run inp).

Lemma rw_step_sp : forall s tok r, rw_step s tok r -> rw_step (32 :: s) tok r.
Proof.
  intros s tok r (B & S & V). split; [constructor; [reflexivity | exact B]|]. split; [exact S | exact V].
Qed.

Lemma rw_regular_facts : forall b, iso_regular b = true ->
  iso_white b = false /\ (b =? 37) = false /\ (b =? 40) = false /\ (b =? 60) = false /\ (b =? 62) = false /\
  (b =? 91) = false /\ (b =? 93) = false /\ (b =? 123) = false /\ (b =? 125) = false /\ (b =? 47) = false.
Proof.
  intros b H. unfold iso_regular in H. apply andb_true_iff in H. destruct H as [H1 H2].
  apply negb_true_iff in H1. apply negb_true_iff in H2. unfold iso_delim in H2.
  repeat (apply orb_false_elim in H2; destruct H2 as [H2 ?]). repeat split; assumption.
Qed.

Lemma rw_run_step : forall w F, w <> [] -> forallb iso_regular w = true -> ~ In 11 w ->
  bytes_ok (w ++ F) -> ends_cleanly F -> rw_step (w ++ F) (token_of_run w) F.
Proof.
  intros w F Hne Hr Hv Hb He. destruct w as [|b w']; [contradiction|].
  cbn [forallb] in Hr. apply andb_true_iff in Hr. destruct Hr as [Hb0 Hr'].
  destruct (rw_regular_facts b Hb0) as (W & E37 & E40 & E60 & E62 & E91 & E93 & E123 & E125 & E47).
  assert (Hspan : span_while iso_regular ((b :: w') ++ F) = (b :: w', F)).
  { apply span_while_app; [cbn [forallb]; rewrite Hb0, Hr'; reflexivity | destruct F; [exact I | exact He]]. }
  split; [exact Hb|]. split.
  - unfold spec_next. cbn [app skip_ignorable]. rewrite W, E37. cbn [spec_token_at].
    rewrite E40, E60, E62, E91, E93, E123, E125, E47, Hb0.
    change (b :: w' ++ F) with ((b :: w') ++ F). rewrite Hspan. reflexivity.
  - unfold head_run. cbn [app skip_ignorable]. rewrite W, E37, E47.
    change (b :: w' ++ F) with ((b :: w') ++ F). rewrite Hspan. exact Hv.
Qed.

(* delimiters *)
Lemma rw_step_arr_open : forall F, bytes_ok F -> rw_step (91 :: F) PArrOpen F.
Proof. intros F B. split; [constructor; [reflexivity|exact B]|]. split; [reflexivity | intros []]. Qed.
Lemma rw_step_arr_close : forall F, bytes_ok F -> rw_step (93 :: F) PArrClose F.
Proof. intros F B. split; [constructor; [reflexivity|exact B]|]. split; [reflexivity | intros []]. Qed.
Lemma rw_step_dict_open : forall F, bytes_ok F -> rw_step (60 :: 60 :: F) PDictOpen F.
Proof. intros F B. split; [repeat constructor; exact B|]. split; [reflexivity | intros []]. Qed.
Lemma rw_step_dict_close : forall F, bytes_ok F -> rw_step (62 :: 62 :: F) PDictClose F.
Proof. intros F B. split; [repeat constructor; exact B|]. split; [reflexivity | intros []]. Qed.

(* numbers *)
Lemma rw_digits_regular : forall ds, StrictSyntax.all_digits ds = true ->
  forallb iso_regular ds = true /\ ~ In 11 ds /\ bytes_ok ds /\ all_digits ds = true.
Proof.
  induction ds as [|c t IH]; intros H; [repeat split; [intros [] | constructor]|].
  cbn [StrictSyntax.all_digits] in H. apply andb_true_iff in H. destruct H as [Hc Ht].
  destruct (IH Ht) as (R & V & B & D).
  assert (Hc' : c < 256 /\ iso_regular c = true /\ c <> 11).
  { unfold is_digit in Hc. apply andb_true_iff in Hc. destruct Hc as [A1 A2]. apply N.leb_le in A1. apply N.leb_le in A2.
    assert (L : c < 256) by lia. repeat split; [exact L | | lia].
    pose proof (byte_sweep (fun c => implb ((48 <=? c) && (c <=? 57)) (iso_regular c)) ltac:(vm_compute; reflexivity) c L) as S.
    cbn beta in S. apply N.leb_le in A1. apply N.leb_le in A2. rewrite A1, A2 in S. exact S. }
  destruct Hc' as (L & Rc & N11).
  repeat split.
  - cbn [forallb]. rewrite Rc, R. reflexivity.
  - intros [X|X]; [apply N11; exact X | exact (V X)].
  - constructor; assumption.
  - cbn [all_digits forallb]. unfold dec_digit. fold (is_digit c). rewrite Hc. exact D.
Qed.

Lemma rw_fold_pos : forall ds acc,
  fold_left (fun a d => a * 10 + digit_val d) ds acc = acc * 10 ^ N.of_nat (length ds) + positional_value ds.
Proof.
  induction ds as [|d r IH]; intros acc; [cbn; lia|].
  cbn [fold_left positional_value length]. rewrite IH. rewrite Nat2N.inj_succ, N.pow_succ_r'. unfold digit_val. lia.
Qed.
Lemma rw_pos_value : forall ds, positional_value ds = dec_value ds.
Proof. intros ds. unfold dec_value. rewrite rw_fold_pos. lia. Qed.

Lemma rw_split_digits : forall ds, all_digits ds = true -> split_at_dot ds = (ds, None).
Proof.
  induction ds as [|d r IH]; intros H; [reflexivity|].
  cbn [all_digits forallb] in H. apply andb_true_iff in H. destruct H as [Hd Hr].
  cbn [split_at_dot]. assert (E : (d =? 46) = false).
  { unfold dec_digit in Hd. apply andb_true_iff in Hd. destruct Hd as [A _]. apply N.leb_le in A. apply N.eqb_neq. lia. }
  rewrite E, (IH Hr). reflexivity.
Qed.

Lemma rw_number_N : forall n, number_of_run (dec_of_N n) = Some (PInt (Z.of_N n)).
Proof.
  intros n. destruct (dec_of_N_value_lemma n) as (Hv & Hd & Hl).
  destruct (rw_digits_regular _ Hd) as (_ & _ & _ & D).
  unfold number_of_run. destruct (dec_of_N n) as [|b r] eqn:E; [cbn in Hl; lia|].
  assert (Hb : (b =? 43) = false /\ (b =? 45) = false).
  { cbn [all_digits forallb] in D. apply andb_true_iff in D. destruct D as [Db _]. unfold dec_digit in Db.
    apply andb_true_iff in Db. destruct Db as [A _]. apply N.leb_le in A. split; apply N.eqb_neq; lia. }
  destruct Hb as [E1 E2]. rewrite E1, E2. rewrite (rw_split_digits _ D). rewrite D. cbn [nonempty andb].
  rewrite rw_pos_value, Hv. reflexivity.
Qed.

Lemma rw_number_Z : forall z, number_of_run (dec_of_Z z) = Some (PInt z).
Proof.
  intros [|p|p]; [reflexivity | apply (rw_number_N (Npos p)) |].
  cbn [dec_of_Z]. pose proof (rw_number_N (Npos p)) as H.
  destruct (dec_of_N_value_lemma (Npos p)) as (Hv & Hd & Hl).
  destruct (rw_digits_regular _ Hd) as (_ & _ & _ & D).
  unfold number_of_run. change (45 =? 43) with false. change (45 =? 45) with true. cbv iota.
  rewrite (rw_split_digits _ D), D. destruct (dec_of_N (Npos p)) as [|b r] eqn:E; [cbn in Hl; lia|].
  cbn [nonempty andb]. rewrite rw_pos_value, Hv. reflexivity.
Qed.

Lemma rw_dec_Z_run : forall z, dec_of_Z z <> [] /\ forallb iso_regular (dec_of_Z z) = true /\ ~ In 11 (dec_of_Z z) /\ bytes_ok (dec_of_Z z).
Proof.
  assert (HN : forall n, dec_of_N n <> [] /\ forallb iso_regular (dec_of_N n) = true /\ ~ In 11 (dec_of_N n) /\ bytes_ok (dec_of_N n)).
  { intros n. destruct (dec_of_N_value_lemma n) as (_ & Hd & Hl). destruct (rw_digits_regular _ Hd) as (R & V & B & _).
    repeat split; try assumption. intros E. rewrite E in Hl. cbn in Hl. lia. }
  intros [|p|p].
  - repeat split; [discriminate | intros [X|[]]; discriminate | repeat constructor].
  - apply HN.
  - destruct (HN (Npos p)) as (_ & R & V & B). cbn [dec_of_Z]. repeat split.
    + discriminate.
    + cbn [forallb]. rewrite R. reflexivity.
    + intros [X|X]; [discriminate | exact (V X)].
    + constructor; [reflexivity | exact B].
Qed.

Lemma rw_step_int : forall z F, bytes_ok F -> ends_cleanly F -> rw_step (dec_of_Z z ++ F) (PInt z) F.
Proof.
  intros z F B E. destruct (rw_dec_Z_run z) as (Hne & R & V & Bz).
  pose proof (rw_run_step (dec_of_Z z) F Hne R V) as H.
  unfold token_of_run in H. rewrite rw_number_Z in H. apply H; [|exact E].
  apply Forall_app. split; assumption.
Qed.

Lemma rw_step_N : forall n F, bytes_ok F -> ends_cleanly F -> rw_step (dec_of_N n ++ F) (PInt (Z.of_N n)) F.
Proof.
  intros n F B E. destruct n as [|p]; [apply (rw_step_int 0 F B E) | apply (rw_step_int (Zpos p) F B E)].
Qed.

(* keywords *)
Lemma rw_step_kw : forall w tok F, w <> [] -> forallb iso_regular w = true -> forallb (fun b => negb (b =? 11)) w = true ->
  forallb byteb w = true -> token_of_run w = tok -> bytes_ok F -> ends_cleanly F -> rw_step (w ++ F) tok F.
Proof.
  intros w tok F Hne R V Bw <- B E. apply rw_run_step; try assumption.
  - apply no_vt_forallb. exact V.
  - apply Forall_app. split; [|exact B]. apply Forall_forall. intros x Hx.
    rewrite forallb_forall in Bw. specialize (Bw x Hx). unfold byteb in Bw. apply N.ltb_lt. exact Bw.
Qed.

Lemma rw_step_str : forall s F, bytes_ok s -> bytes_ok F -> rw_step (wm_unparse_string s ++ F) (PStr s) F.
Proof.
  intros s F Hs B. rewrite (rw_string s Hs). split; [|split].
  - apply Forall_app. split; [apply string_unparse_bytes; exact Hs | exact B].
  - apply string_roundtrip_lemma. exact Hs.
  - rewrite string_unparse_form. cbn [orb]. destruct (use_hex_string s); cbn; intros [].
Qed.

Lemma rw_step_name : forall n F, bytes_ok n -> ~ In 0 n -> bytes_ok F -> ends_cleanly F ->
  rw_step (wm_unparse_name n ++ F) (PName n) F.
Proof.
  intros n F Hn H0 B E. rewrite (rw_name n Hn). destruct (nameenc_props n Hn H0) as (R & D & V & Bn).
  split; [|split].
  - rewrite name_normalize_form. cbn [app]. constructor; [reflexivity|]. apply Forall_app. split; assumption.
  - apply name_roundtrip_lemma; assumption.
  - rewrite name_normalize_form. unfold head_run. cbn [app skip_ignorable].
    change (iso_white 47) with false. change (47 =? 37) with false. cbv iota. change (47 =? 47) with true. cbv iota.
    rewrite (span_while_app iso_regular (nameenc n) F R); [exact V | destruct F; [exact I | exact E]].
Qed.

(* ------------------------------------------------------------------ chains *)
Lemma rw_chain_app : forall a ts b, good_chain a ts b -> forall ts' c, good_chain b ts' c -> good_chain a (ts ++ ts') c.
Proof.
  induction 1 as [inp|inp tok rest ts final Hb Hs Hv Hch IH]; intros ts' c H2; [exact H2|].
  cbn [app]. apply (gc_cons inp tok rest (ts ++ ts') c Hb Hs Hv). apply IH. exact H2.
Qed.
Lemma rw_chain_one : forall inp tok rest, rw_step inp tok rest -> good_chain inp [tok] rest.
Proof. intros inp tok rest (B & S & V). apply (gc_cons inp tok rest [] rest B S V). apply gc_nil. Qed.
Lemma rw_chain_cons : forall inp tok rest ts final, rw_step inp tok rest -> good_chain rest ts final -> good_chain inp (tok :: ts) final.
Proof. intros inp tok rest ts final (B & S & V) H. exact (gc_cons inp tok rest ts final B S V H). Qed.

Lemma rw_chain_bytes : forall inp t ts f, good_chain inp (t :: ts) f -> bytes_ok inp.
Proof. intros inp t ts f H. inversion H; assumption. Qed.
Lemma rw_chain_sp : forall s ts f, good_chain s ts f -> ts <> [] -> good_chain (32 :: s) ts f.
Proof.
  intros s ts f H Hne. destruct H as [inp|inp tok rest ts final Hb Hs Hv Hch]; [contradiction|].
  apply (rw_chain_cons (32 :: inp) tok rest ts final); [|exact Hch]. apply rw_step_sp. split; [|split]; assumption.
Qed.

(* ------------------------------------------------------------------ the printed object as a token chain *)
(* the objects the bridge covers: no reals; strings, names and dictionary keys are byte strings, names without NUL *)
Definition rw_name_ok (n : list N) : bool := forallb byteb n && negb (existsb (N.eqb 0) n).
Fixpoint rw_wf (o : obj) : bool :=
  match o with
  | OReal _ => false
  | OStr s => forallb byteb s
  | OName n => rw_name_ok n
  | OArr l => forallb rw_wf l
  | ODict d => forallb (fun kv => match kv with (k, v) => rw_name_ok k && rw_wf v end) d
  | _ => true
  end.

Lemma rw_bytes_of : forall l, forallb byteb l = true -> bytes_ok l.
Proof.
  intros l H. apply Forall_forall. intros x Hx. rewrite forallb_forall in H. specialize (H x Hx).
  unfold byteb in H. apply N.ltb_lt. exact H.
Qed.
Lemma rw_name_ok_spec : forall n, rw_name_ok n = true -> bytes_ok n /\ ~ In 0 n.
Proof.
  intros n H. unfold rw_name_ok in H. apply andb_true_iff in H. destruct H as [H1 H2]. split; [apply rw_bytes_of; exact H1|].
  intros X. apply negb_true_iff in H2. assert (existsb (N.eqb 0) n = true) by (apply existsb_exists; exists 0; split; [exact X | reflexivity]).
  congruence.
Qed.

Section Bridge.
  Variable objs : list (N * indirect).
  Variable ren : N -> N.
  Local Notation U := (unparse wm_unparse_string wm_unparse_name objs ren).

  Fixpoint rd_toks (o : obj) : list ptoken :=
    match o with
    | ONull => [PNull]
    | OBool b => [PBool b]
    | OInt z => [PInt z]
    | OReal s => [PNull]
    | OStr s => [PStr s]
    | OName n => [PName n]
    | ORef id => [PInt (Z.of_N (ren id)); PInt 0; PKeyword [82]]
    | OArr l => PArrOpen :: flat_map rd_toks l ++ [PArrClose]
    | ODict d => PDictOpen :: flat_map (fun kv => match kv with (k, v) => if is_null_val objs v then [] else PName k :: rd_toks v end) d
                 ++ [PDictClose]
    end.

  Lemma rd_toks_ne : forall o, rd_toks o <> [].
  Proof. destruct o; discriminate. Qed.

  Definition rw_item_ok (o : obj) : Prop :=
    forall F, rw_wf o = true -> bytes_ok F -> ends_cleanly F -> good_chain (U o ++ F) (rd_toks o) F.

  Lemma rw_sp_clean : forall X, ends_cleanly (32 :: X).
  Proof. intros X. reflexivity. Qed.

  Lemma rw_chain_items : forall l G, Forall rw_item_ok l -> forallb rw_wf l = true -> bytes_ok G -> ends_cleanly G ->
    good_chain (flat_map (fun x => sp ++ U x) l ++ G) (flat_map rd_toks l) G /\ bytes_ok (flat_map (fun x => sp ++ U x) l ++ G)
    /\ ends_cleanly (flat_map (fun x => sp ++ U x) l ++ G).
  Proof.
    induction l as [|x t IH]; intros G Hall Hwf B E.
    - cbn. split; [apply gc_nil | split; assumption].
    - inversion Hall as [|? ? Hx Ht]; subst. cbn [forallb] in Hwf. apply andb_true_iff in Hwf. destruct Hwf as [Wx Wt].
      destruct (IH G Ht Wt B E) as (C & B' & E').
      cbn [flat_map]. unfold sp at 1. rewrite <- !app_assoc. cbn [app].
      pose proof (Hx _ Wx B' E') as Cx.
      split; [|split].
      + apply rw_chain_app with (b := flat_map (fun x0 => sp ++ U x0) t ++ G); [|exact C].
        apply rw_chain_sp; [exact Cx | apply rd_toks_ne].
      + constructor; [reflexivity|]. destruct (rd_toks x) as [|t0 ts0] eqn:Et; [exfalso; exact (rd_toks_ne x Et)|].
        exact (rw_chain_bytes _ _ _ _ Cx).
      + reflexivity.
  Qed.

  Definition rw_entry_text (kv : list N * obj) : list N :=
    if is_null_val objs (snd kv) then [] else sp ++ wm_unparse_name (fst kv) ++ sp ++ U (snd kv).
  Definition rw_entry_toks (kv : list N * obj) : list ptoken :=
    match kv with (k, v) => if is_null_val objs v then [] else PName k :: rd_toks v end.

  Lemma rw_chain_entries : forall d G, Forall (fun kv => rw_item_ok (snd kv)) d ->
    forallb (fun kv => match kv with (k, v) => rw_name_ok k && rw_wf v end) d = true -> bytes_ok G -> ends_cleanly G ->
    good_chain (flat_map rw_entry_text d ++ G) (flat_map rw_entry_toks d) G /\ bytes_ok (flat_map rw_entry_text d ++ G)
    /\ ends_cleanly (flat_map rw_entry_text d ++ G).
  Proof.
    induction d as [|[k v] t IH]; intros G Hall Hwf B E.
    - cbn. split; [apply gc_nil | split; assumption].
    - inversion Hall as [|? ? Hx Ht]; subst. cbn [forallb] in Hwf. apply andb_true_iff in Hwf. destruct Hwf as [Wkv Wt].
      apply andb_true_iff in Wkv. destruct Wkv as [Wk Wv]. cbn [snd] in Hx.
      destruct (IH G Ht Wt B E) as (C & B' & E').
      cbn [flat_map].
      change (rw_entry_text (k, v)) with (if is_null_val objs v then [] else sp ++ wm_unparse_name k ++ sp ++ U v).
      change (rw_entry_toks (k, v)) with (if is_null_val objs v then [] else PName k :: rd_toks v).
      destruct (is_null_val objs v); [cbn [app]; split; [exact C | split; [exact B' | exact E']]|].
      destruct (rw_name_ok_spec k Wk) as [Bk K0].
      unfold sp. rewrite <- !app_assoc. cbn [app].
      pose proof (Hx _ Wv B' E') as Cv.
      assert (Bv : bytes_ok (U v ++ flat_map rw_entry_text t ++ G)).
      { destruct (rd_toks v) as [|t0 ts0] eqn:Et; [exfalso; exact (rd_toks_ne v Et)|]. exact (rw_chain_bytes _ _ _ _ Cv). }
      assert (Sn : rw_step (wm_unparse_name k ++ 32 :: U v ++ flat_map rw_entry_text t ++ G) (PName k) (32 :: U v ++ flat_map rw_entry_text t ++ G)).
      { apply rw_step_name; [exact Bk | exact K0 | constructor; [reflexivity | exact Bv] | reflexivity]. }
      split; [|split].
      + apply rw_chain_cons with (rest := 32 :: U v ++ flat_map rw_entry_text t ++ G); [apply rw_step_sp; exact Sn|].
        apply rw_chain_app with (b := flat_map rw_entry_text t ++ G); [|exact C].
        apply rw_chain_sp; [exact Cv | apply rd_toks_ne].
      + constructor; [reflexivity|]. destruct Sn as (Bn & _ & _). exact Bn.
      + reflexivity.
  Qed.

  Lemma rw_unparse_arr : forall l, U (OArr l) = 91 :: flat_map (fun x => sp ++ U x) l ++ [32; 93].
  Proof. reflexivity. Qed.
  Lemma rw_unparse_dict : forall d, U (ODict d) = 60 :: 60 :: flat_map rw_entry_text d ++ [32; 62; 62].
  Proof. reflexivity. Qed.
  Lemma rd_toks_dict : forall d, rd_toks (ODict d) = PDictOpen :: flat_map rw_entry_toks d ++ [PDictClose].
  Proof. reflexivity. Qed.

  (* every printed object of the class is read by the specification lexer as the chain rd_toks, token by token *)
  Lemma rw_chain_obj : forall o, rw_item_ok o.
  Proof.
    induction o as [|b|z|s|s|n|id|l IHl|d IHd] using obj_ind'; intros F W B E.
    - apply rw_chain_one. apply (rw_step_kw [110; 117; 108; 108] PNull F); try reflexivity; try assumption. discriminate.
    - destruct b; apply rw_chain_one.
      + apply (rw_step_kw [116; 114; 117; 101] (PBool true) F); try reflexivity; try assumption. discriminate.
      + apply (rw_step_kw [102; 97; 108; 115; 101] (PBool false) F); try reflexivity; try assumption. discriminate.
    - apply rw_chain_one. apply rw_step_int; assumption.
    - discriminate W.
    - apply rw_chain_one. apply rw_step_str; [apply rw_bytes_of; exact W | exact B].
    - apply rw_chain_one. destruct (rw_name_ok_spec n W) as [Bn N0]. apply rw_step_name; assumption.
    - cbn [unparse rd_toks]. rewrite <- app_assoc. cbn [app].
      assert (B2 : bytes_ok (32 :: 82 :: F)) by (repeat constructor; exact B).
      assert (B1 : bytes_ok (32 :: 48 :: 32 :: 82 :: F)) by (repeat constructor; exact B).
      apply rw_chain_cons with (rest := 32 :: 48 :: 32 :: 82 :: F); [apply rw_step_N; [exact B1 | reflexivity]|].
      apply rw_chain_cons with (rest := 32 :: 82 :: F); [apply rw_step_sp; apply (rw_step_int 0 (32 :: 82 :: F) B2); reflexivity|].
      apply rw_chain_one. apply rw_step_sp.
      apply (rw_step_kw [82] (PKeyword [82]) F); try reflexivity; try assumption. discriminate.
    - rewrite rw_unparse_arr. cbn [rd_toks rw_wf] in *. cbn [app]. rewrite <- app_assoc.
      assert (BG : bytes_ok ([32; 93] ++ F)) by (repeat constructor; exact B).
      destruct (rw_chain_items l ([32; 93] ++ F) IHl W BG (rw_sp_clean _)) as (C & B' & _).
      apply rw_chain_cons with (rest := flat_map (fun x => sp ++ U x) l ++ [32; 93] ++ F); [apply rw_step_arr_open; exact B'|].
      apply rw_chain_app with (b := [32; 93] ++ F); [exact C|].
      apply rw_chain_one. cbn [app]. apply rw_step_sp. apply rw_step_arr_close. exact B.
    - rewrite rw_unparse_dict, rd_toks_dict. cbn [rw_wf] in W. cbn [app]. rewrite <- app_assoc.
      assert (BG : bytes_ok ([32; 62; 62] ++ F)) by (repeat constructor; exact B).
      destruct (rw_chain_entries d ([32; 62; 62] ++ F) IHd W BG (rw_sp_clean _)) as (C & B' & _).
      apply rw_chain_cons with (rest := flat_map rw_entry_text d ++ [32; 62; 62] ++ F); [apply rw_step_dict_open; exact B'|].
      apply rw_chain_app with (b := [32; 62; 62] ++ F); [exact C|].
      apply rw_chain_one. cbn [app]. apply rw_step_sp. apply rw_step_dict_close. exact B.
  Qed.
End Bridge.

(* ------------------------------------------------------------------ the chain is the token list of the object for the ISO grammar *)
Fixpoint rw_nodupb (ks : list (list N)) : bool :=
  match ks with
  | [] => true
  | k :: r => negb (existsb (fun k' => list_eqb N.eqb k' k) r) && rw_nodupb r
  end.

Section Bridge2.
  Variable objs : list (N * indirect).
  Variable ren : N -> N.
  Hypothesis Hren : forall id, 0 < ren id.

  Fixpoint rd_sy (o : obj) : sobj :=
    match o with
    | ONull => SyNull
    | OBool b => SyBool b
    | OInt z => SyInt z
    | OReal _ => SyNull
    | OStr s => SyStr s
    | OName n => SyName n
    | ORef id => SyRef (Z.of_N (ren id)) 0
    | OArr l => SyArr (map rd_sy l)
    | ODict d => SyDict (flat_map (fun kv => match kv with (k, v) => if is_null_val objs v then [] else [(k, rd_sy v)] end) d)
    end.
  Definition rw_sy_entries (d : list (list N * obj)) : list (list N * sobj) :=
    flat_map (fun kv => match kv with (k, v) => if is_null_val objs v then [] else [(k, rd_sy v)] end) d.

  (* printed keys of every dictionary (nested ones included) are pairwise different *)
  Fixpoint rw_nd (o : obj) : bool :=
    match o with
    | OArr l => forallb rw_nd l
    | ODict d => rw_nodupb (flat_map (fun kv => match kv with (k, v) => if is_null_val objs v then [] else [k] end) d)
                 && forallb (fun kv => match kv with (k, v) => rw_nd v end) d
    | _ => true
    end.

  Definition rw_I (T : list ptoken) : Prop :=
    match T with
    | PKeyword _ :: _ => False
    | PInt _ :: PKeyword _ :: _ => False
    | _ => True
    end.

  Local Notation toks := (rd_toks objs ren).

  Lemma rw_I_toks : forall x T, rw_I T -> rw_I (toks x ++ T).
  Proof. intros x T H. destruct x; cbn; try exact I. destruct T as [|[] T']; try exact I; exact H. Qed.

  Lemma rw_toks_head : forall x, exists t ts, toks x = t :: ts /\ t <> PArrClose /\ t <> PDictClose.
  Proof. destruct x; eexists; eexists; (split; [reflexivity | split; discriminate]). Qed.

  Definition rw_syn_ok (x : obj) : Prop :=
    forall fuel T, rw_nd x = true -> (length (toks x) <= fuel)%nat -> rw_I T -> syn_obj fuel (toks x ++ T) = Some (rd_sy x, T).

  Lemma rw_I_flat : forall l T, rw_I T -> rw_I (flat_map toks l ++ T).
  Proof. induction l as [|x t IH]; intros T H; [exact H|]. cbn [flat_map]. rewrite <- app_assoc. apply rw_I_toks. apply IH. exact H. Qed.

  Lemma rw_items : forall l f g acc T, Forall rw_syn_ok l -> forallb rw_nd l = true ->
    (forall x, In x l -> (length (toks x) <= f)%nat) -> (length l < g)%nat ->
    items_of f g (flat_map toks l ++ PArrClose :: T) acc = Some (SyArr (rev' (rev (map rd_sy l) ++ acc)), T).
  Proof.
    induction l as [|x t IH]; intros f g acc T Hall Hnd Hf Hg.
    - destruct g as [|g']; [cbn in Hg; lia|]. reflexivity.
    - destruct g as [|g']; [cbn in Hg; lia|].
      inversion Hall as [|? ? Hx Ht]; subst. cbn [forallb] in Hnd. apply andb_true_iff in Hnd. destruct Hnd as [Nx Nt].
      cbn [flat_map]. rewrite <- app_assoc.
      destruct (rw_toks_head x) as (t0 & ts0 & Et & Ha & Hd).
      assert (Hsyn : syn_obj f (toks x ++ flat_map toks t ++ PArrClose :: T) = Some (rd_sy x, flat_map toks t ++ PArrClose :: T)).
      { apply Hx; [exact Nx | apply Hf; left; reflexivity | apply rw_I_flat; exact I]. }
      rewrite Et in *. cbn [app] in *. unfold items_of. fold (items_of f).
      destruct t0; try contradiction; rewrite Hsyn;
        (rewrite (IH f g' (rd_sy x :: acc) T Ht Nt); [| intros y Hy; apply Hf; right; exact Hy | cbn in Hg; lia];
         cbn [map rev]; rewrite <- app_assoc; reflexivity).
  Qed.

  Definition rw_keys (d : list (list N * obj)) : list (list N) :=
    flat_map (fun kv => match kv with (k, v) => if is_null_val objs v then [] else [k] end) d.

  Lemma rw_I_entries : forall t T, rw_I (flat_map (rw_entry_toks objs ren) t ++ PDictClose :: T).
  Proof.
    induction t as [|[k v] t IH]; intros T; [exact I|]. cbn [flat_map].
    change (rw_entry_toks objs ren (k, v)) with (if is_null_val objs v then [] else PName k :: toks v).
    destruct (is_null_val objs v); [apply IH | exact I].
  Qed.

  Lemma rw_entries : forall d f g acc T, Forall (fun kv => rw_syn_ok (snd kv)) d ->
    forallb (fun kv => match kv with (k, v) => rw_nd v end) d = true ->
    rw_nodupb (rw_keys d) = true -> (forall k, In k (rw_keys d) -> has_key k acc = false) ->
    (forall kv, In kv d -> is_null_val objs (snd kv) = false -> (length (toks (snd kv)) <= f)%nat) -> (length (rw_keys d) < g)%nat ->
    entries_of f g (flat_map (rw_entry_toks objs ren) d ++ PDictClose :: T) acc
    = Some (SyDict (rev' (rev (rw_sy_entries d) ++ acc)), T).
  Proof.
    induction d as [|[k v] t IH]; intros f g acc T Hall Hnd Hdup Hacc Hf Hg.
    - destruct g as [|g']; [cbn in Hg; lia|]. reflexivity.
    - inversion Hall as [|? ? Hx Ht]; subst. cbn [snd] in Hx.
      cbn [forallb] in Hnd. apply andb_true_iff in Hnd. destruct Hnd as [Nv Nt].
      cbn [flat_map]. unfold rw_sy_entries, rw_keys in *. cbn [flat_map] in *.
      change (rw_entry_toks objs ren (k, v)) with (if is_null_val objs v then [] else PName k :: toks v).
      destruct (is_null_val objs v) eqn:En.
      + cbn [app] in *. apply IH; try assumption.
        intros kv Hkv. apply Hf. right. exact Hkv.
      + destruct g as [|g']; [cbn in Hg; lia|].
        cbn [app] in *. cbn [rw_nodupb] in Hdup. apply andb_true_iff in Hdup. destruct Hdup as [D1 D2].
        rewrite <- app_assoc.
        assert (Hk : has_key k acc = false) by (apply Hacc; left; reflexivity).
        assert (Hsyn : syn_obj f (toks v ++ flat_map (rw_entry_toks objs ren) t ++ PDictClose :: T)
                       = Some (rd_sy v, flat_map (rw_entry_toks objs ren) t ++ PDictClose :: T)).
        { apply Hx; [exact Nv | apply (Hf (k, v)); [left; reflexivity | exact En]|].
          apply rw_I_entries. }
        unfold entries_of. fold (entries_of f). rewrite Hk, Hsyn.
        rewrite (IH f g' ((k, rd_sy v) :: acc) T Ht Nt D2).
        * cbn [rev]. rewrite <- app_assoc. reflexivity.
        * intros k' Hk'. cbn [has_key]. rewrite (Hacc k' (or_intror Hk')). rewrite Bool.orb_false_r.
          apply negb_true_iff in D1. destruct (list_eqb N.eqb k' k) eqn:E; [|reflexivity].
          exfalso. rewrite (proj2 (existsb_exists (fun k'0 => list_eqb N.eqb k'0 k) _) (ex_intro _ k' (conj Hk' E))) in D1. discriminate.
        * intros kv Hkv. apply Hf. right. exact Hkv.
        * cbn in Hg. lia.
  Qed.

  Lemma rw_len_items : forall l, (length l <= length (flat_map toks l))%nat /\
    forall x, In x l -> (length (toks x) <= length (flat_map toks l))%nat.
  Proof.
    induction l as [|x t [IH1 IH2]]; [split; [cbn; lia | intros x []]|].
    cbn [flat_map]. rewrite app_length. destruct (rw_toks_head x) as (t0 & ts0 & Et & _). split.
    - rewrite Et. cbn [length]. lia.
    - intros y [<-|Hy]; [lia | specialize (IH2 y Hy); lia].
  Qed.
  Lemma rw_len_entries : forall d, (length (rw_keys d) <= length (flat_map (rw_entry_toks objs ren) d))%nat /\
    forall kv, In kv d -> is_null_val objs (snd kv) = false -> (length (toks (snd kv)) < length (flat_map (rw_entry_toks objs ren) d))%nat.
  Proof.
    induction d as [|[k v] t [IH1 IH2]]; [split; [cbn; lia | intros x []]|].
    unfold rw_keys in *. cbn [flat_map].
    change (rw_entry_toks objs ren (k, v)) with (if is_null_val objs v then [] else PName k :: toks v).
    destruct (is_null_val objs v) eqn:En; cbn [app length].
    - split; [exact IH1|]. intros kv [<-|H] Hn; [cbn [snd] in Hn; congruence | apply IH2; assumption].
    - rewrite app_length. split; [lia|]. intros kv [<-|H] Hn; [cbn [snd]; lia | specialize (IH2 kv H Hn); lia].
  Qed.

  (* the ISO object grammar reads the chain as the object *)
  Lemma rw_syn_obj : forall o, rw_syn_ok o.
  Proof.
    induction o as [|b|z|s|s|n|id|l IHl|d IHd] using obj_ind'; intros fuel T Hnd Hf HI;
      (destruct fuel as [|f]; [cbn in Hf; lia|]); try reflexivity.
    - (* integer *) cbn [rd_toks app rd_sy].
      destruct T as [|t1 T1]; [reflexivity|]. destruct t1; try reflexivity.
      destruct T1 as [|t2 T2]; [reflexivity|]. destruct t2; try reflexivity. contradiction.
    - (* reference *) cbn [rd_toks app rd_sy syn_obj]. change (list_eqb N.eqb [82] kw_R) with true. cbv iota.
      assert (H : (0 <? Z.of_N (ren id))%Z = true) by (apply Z.ltb_lt; specialize (Hren id); lia).
      rewrite H. reflexivity.
    - (* array *) cbn [rd_toks rd_sy rw_nd] in *. cbn [app]. rewrite <- app_assoc. cbn [app]. rewrite syn_obj_arr.
      destruct (rw_len_items l) as [L1 L2]. simpl length in Hf. rewrite app_length in Hf. simpl length in Hf.
      rewrite (rw_items l f (Datatypes.S f) [] T IHl Hnd).
      + rewrite app_nil_r, rev'_rev, rev_involutive. reflexivity.
      + intros x Hx. specialize (L2 x Hx). lia.
      + lia.
    - (* dictionary *) rewrite (rd_toks_dict objs ren) in *. cbn [rd_sy rw_nd] in *. apply andb_true_iff in Hnd. destruct Hnd as [D1 D2].
      cbn [app]. rewrite <- app_assoc. cbn [app]. rewrite syn_obj_dict.
      destruct (rw_len_entries d) as [L1 L2]. simpl length in Hf. rewrite app_length in Hf. simpl length in Hf.
      rewrite (rw_entries d f (Datatypes.S f) [] T IHd D2 D1).
      + rewrite app_nil_r, rev'_rev, rev_involutive. reflexivity.
      + intros k _. reflexivity.
      + intros kv Hkv En. specialize (L2 kv Hkv En). lia.
      + lia.
  Qed.
End Bridge2.

(* ------------------------------------------------------------------ the bridge: Parser::parse (model) reads what the writer prints *)
(* rd_unparse_parses, containers: for every array or dictionary of the class (no real numbers anywhere in it; strings, names
   and keys are byte strings, names without NUL; printed keys of every dictionary pairwise different), printed by the
   writer model with a renumbering that gives positive numbers, followed by anything that starts with a non-regular
   character: the parser model reads the text as the same tree (R_obj: integers by value, names with their '/', a
   dictionary = the std::map of the printed - i.e. non-null - entries, references under their new numbers), raises no
   warning and leaves exactly what follows.  Range conditions as in parse_complete_container (integers within long long,
   new object numbers <= 2^31-1, at most 500 container openings, fewer than 2^32-1 tokens), stated on the token list. *)
Lemma rd_unparse_parses_container_lemma : forall objs ren o F t pos,
  (forall id, 0 < ren id) ->
  (match o with OArr _ | ODict _ => True | _ => False end) ->
  rw_wf o = true -> rw_nd objs o = true ->
  ints_ok (rd_toks objs ren o) -> refs_ok (rd_toks objs ren o) = true ->
  opens (rd_toks objs ren o) <= 500 -> len (rd_toks objs ren o) < 4294967295 ->
  bytes_ok F -> ends_cleanly F -> t_incl_ign t = false -> t_state t <> TS_inline_image ->
  let r := parse_object false false t (unparse wm_unparse_string wm_unparse_name objs ren o ++ F) pos in
  exists o', pr_obj r = Some o' /\ R_obj o' (rd_sy objs ren o) /\ pr_warn r = [] /\ pr_rest r = F.
Proof.
  intros objs ren o F t pos Hren Hc W ND Hi Hr Ho Hl B E Hii Hst r.
  pose proof (rw_chain_obj objs ren o F W B E) as Hch.
  pose proof (rw_syn_obj objs ren Hren o (Datatypes.S (length (rd_toks objs ren o))) [] ND ltac:(lia) I) as Hs.
  rewrite app_nil_r in Hs.
  destruct (rd_toks objs ren o) as [|tok0 toks] eqn:Et; [exfalso; exact (rd_toks_ne objs ren o Et)|].
  assert (H0 : tok0 = PArrOpen \/ tok0 = PDictOpen).
  { destruct o; try contradiction; cbn [rd_toks] in Et; injection Et as <- _; [left | right]; reflexivity. }
  assert (Hi' : ints_ok toks) by (unfold ints_ok in *; inversion Hi; assumption).
  pose proof (refs_ok_tail _ _ Hr) as Hr'.
  exact (parse_complete_container_lemma _ tok0 toks F _ t pos Hch H0 Hs Hi' Hr' Ho Hl Hii Hst).
Qed.

(* rd_unparse_parses, one-token objects (null, booleans, integers within long long, strings, names) *)
Lemma rd_unparse_parses_scalar_lemma : forall objs ren o F t pos,
  (match o with ONull | OBool _ | OStr _ | OName _ => True | OInt z => in_ll z = true | _ => False end) ->
  rw_wf o = true -> bytes_ok F -> ends_cleanly F -> t_incl_ign t = false -> t_state t <> TS_inline_image ->
  let r := parse_object false false t (unparse wm_unparse_string wm_unparse_name objs ren o ++ F) pos in
  exists o', pr_obj r = Some o' /\ mo_abs o' = Some (rd_sy objs ren o) /\ pr_warn r = [] /\ pr_rest r = F.
Proof.
  intros objs ren o F t pos Hc W B E Hii Hst r.
  pose proof (rw_chain_obj objs ren o F W B E) as Hch.
  assert (Hone : exists tok, rd_toks objs ren o = [tok] /\ scalar_of tok = Some (rd_sy objs ren o)).
  { destruct o; try contradiction; eexists; (split; [reflexivity|]); cbn [scalar_of rd_sy]; try reflexivity.
    unfold in_ll in Hc. rewrite Hc. reflexivity. }
  destruct Hone as (tok & Et & Hsc). rewrite Et in Hch.
  inversion Hch as [|? ? rest ? ? Hb Hs Hvt Hch']; subst. inversion Hch'; subst.
  exact (parse_complete_scalar_lemma _ tok F _ t pos Hb Hii Hst Hs Hvt Hsc).
Qed.

(* the pieces, under theorem names *)
Lemma rd_writer_printers_agree_lemma : forall s n, bytes_ok s -> bytes_ok n ->
  wm_unparse_string s = string_unparse false s /\ wm_unparse_name n = name_normalize (47 :: n).
Proof. intros s n Hs Hn. split; [apply rw_string; exact Hs | apply rw_name; exact Hn]. Qed.

(* the ISO specification lexer reads the printed object token by token as rd_toks, no token starting in a run with a VT *)
Lemma rd_unparse_chain_lemma : forall objs ren o F, rw_wf o = true -> bytes_ok F -> ends_cleanly F ->
  good_chain (unparse wm_unparse_string wm_unparse_name objs ren o ++ F) (rd_toks objs ren o) F.
Proof. intros objs ren o F. apply rw_chain_obj. Qed.

(* and the ISO object grammar reads that token list as the object *)
Lemma rd_unparse_syn_lemma : forall objs ren o, (forall id, 0 < ren id) -> rw_nd objs o = true ->
  syn_obj (Datatypes.S (length (rd_toks objs ren o))) (rd_toks objs ren o) = Some (rd_sy objs ren o, []).
Proof.
  intros objs ren o Hren ND.
  pose proof (rw_syn_obj objs ren Hren o (Datatypes.S (length (rd_toks objs ren o))) [] ND ltac:(lia) I) as Hs.
  rewrite app_nil_r in Hs. exact Hs.
Qed.

(* ================================================================== readObjectAtOffset on an emitted object *)

(* ------------------------------------------------------------------ Objects::readToken on a step of the specification lexer *)
Lemma rw_tok_step : forall inp tok rest pos, rw_step inp tok rest ->
  exists tk pos' last, rd_tok 0 inp pos = (tk, rest, pos', last) /\ tok_interp tk = Some tok.
Proof.
  intros inp tok rest pos (B & S & V).
  destruct (next_token_complete_lemma inp tok rest rd_tk pos B eq_refl ltac:(discriminate) S V) as (t1 & np & last & Hn & Hi).
  unfold rd_tok, read_token. rewrite Hn. exists (tk_token t1), np, last. split; [reflexivity | exact Hi].
Qed.

Lemma rw_step_ws : forall c s tok r, c < 256 -> iso_white c = true -> rw_step s tok r -> rw_step (c :: s) tok r.
Proof.
  intros c s tok r Hc Hw (B & S & V). split; [constructor; assumption|]. split.
  - unfold spec_next. cbn [skip_ignorable]. rewrite Hw. exact S.
  - unfold head_run. cbn [skip_ignorable]. rewrite Hw. exact V.
Qed.
Lemma rw_chain_ws : forall c s ts f, c < 256 -> iso_white c = true -> good_chain s ts f -> ts <> [] -> good_chain (c :: s) ts f.
Proof.
  intros c s ts f Hc Hw H Hne. destruct H as [inp|inp tok rest ts final Hb Hs Hv Hch]; [contradiction|].
  apply (rw_chain_cons (c :: inp) tok rest ts final); [|exact Hch]. apply rw_step_ws; [exact Hc | exact Hw|]. split; [|split]; assumption.
Qed.

Lemma rw_int_tok : forall tk z, tok_interp tk = Some (PInt z) -> in_int_range z = true ->
  rd_is_int tk = true /\ rd_to_int (tok_value tk) = Some z.
Proof.
  intros tk z Hi Hr. destruct (interp_inv _ _ Hi) as (_ & Hty & Hv). split.
  - unfold rd_is_int. rewrite Hty. reflexivity.
  - unfold rd_to_int. rewrite (text_to_ll_int _ _ Hv); [rewrite Hr; reflexivity|].
    unfold in_int_range in Hr. apply andb_true_iff in Hr. destruct Hr as [A1 A2]. apply Z.leb_le in A1. apply Z.leb_le in A2.
    apply andb_true_iff. split; apply Z.leb_le; lia.
Qed.
Lemma rw_word_tok : forall tk w, tok_interp tk = Some (PKeyword w) -> forall w', rd_is_word tk w' = list_eqb N.eqb w w'.
Proof.
  intros tk w Hi w'. destruct (interp_inv _ _ Hi) as (_ & Hty & Hv). unfold rd_is_word, rd_beq. rewrite Hty, Hv. reflexivity.
Qed.

Definition rw_container (v : obj) : Prop := match v with OArr _ | ODict _ => True | _ => False end.

(* readObjectAtOffset(try_recovery, offset, "", (k, 0)) on `k 0 obj\n` <printed array or dictionary> `\nendobj\n` followed
   by something that is not white space: the object read is the printed one (R_obj), as (k, 0), without any warning. *)
Lemma rd_read_at_emitted_lemma : forall e resolve objs ren k v tail off,
  rd_at (rde_file e) off = obj_header k ++ unparse wm_unparse_string wm_unparse_name objs ren v ++ s_endobj ++ tail ->
  off <> 0 -> 0 < k -> (Z.of_N k <= 2147483647)%Z ->
  (forall id, 0 < ren id) -> rw_container v -> rw_wf v = true -> rw_nd objs v = true ->
  ints_ok (rd_toks objs ren v) -> refs_ok (rd_toks objs ren v) = true ->
  opens (rd_toks objs ren v) <= 500 -> len (rd_toks objs ren v) < 4294967295 ->
  bytes_ok tail -> (match tail with c :: _ => c_isspace c = false | [] => False end) ->
  exists o', rd_read_at e resolve false off (Some (k, 0))
             = RdrObj (Z.of_N k) 0 (mkRdObj (rd_fixrefs (rd_known e) o') None false) []
          /\ R_obj o' (rd_sy objs ren v).
Proof.
  intros e resolve objs ren k v tail off Hat Hoff Hk Hkmax Hren Hc W ND Hi Hr Ho Hl Bt Htail.
  set (Uv := unparse wm_unparse_string wm_unparse_name objs ren v) in *.
  set (E := 10 :: [101; 110; 100; 111; 98; 106] ++ 10 :: tail).
  assert (BE : bytes_ok E) by (unfold E; cbn [app]; repeat constructor; exact Bt).
  pose proof (rw_chain_obj objs ren v E W BE eq_refl) as Hch. fold Uv in Hch.
  assert (BU : bytes_ok (Uv ++ E)).
  { destruct (rd_toks objs ren v) as [|t0 ts0] eqn:Et; [exfalso; exact (rd_toks_ne objs ren v Et)|]. exact (rw_chain_bytes _ _ _ _ Hch). }
  set (X3 := 10 :: Uv ++ E). set (X2 := 32 :: [111; 98; 106] ++ X3). set (X1 := 32 :: [48] ++ X2).
  assert (B3 : bytes_ok X3) by (unfold X3; constructor; [reflexivity | exact BU]).
  assert (B2 : bytes_ok X2) by (unfold X2; cbn [app]; repeat (first [assumption | constructor; [reflexivity|]])).
  assert (B1 : bytes_ok X1) by (unfold X1; cbn [app]; repeat (first [assumption | constructor; [reflexivity|]])).
  assert (Hat' : rd_at (rde_file e) off = dec_of_N k ++ X1).
  { rewrite Hat. unfold obj_header, s_endobj, X1, X2, X3, E, Uv. rewrite <- !app_assoc. reflexivity. }
  (* the three header tokens *)
  destruct (rw_tok_step _ _ _ off (rw_step_N k X1 B1 eq_refl)) as (tk1 & p1 & l1 & T1 & I1).
  assert (S2 : rw_step X1 (PInt 0) X2) by (unfold X1; apply rw_step_sp; apply (rw_step_int 0 X2 B2); reflexivity).
  destruct (rw_tok_step _ _ _ p1 S2) as (tk2 & p2 & l2 & T2 & I2).
  assert (S3 : rw_step X2 (PKeyword [111; 98; 106]) X3).
  { unfold X2. apply rw_step_sp. apply (rw_step_kw [111; 98; 106] (PKeyword [111; 98; 106]) X3); try reflexivity; [discriminate | exact B3]. }
  destruct (rw_tok_step _ _ _ p2 S3) as (tk3 & p3 & l3 & T3 & I3).
  assert (Rk : in_int_range (Z.of_N k) = true) by (unfold in_int_range; apply andb_true_iff; split; apply Z.leb_le; lia).
  destruct (rw_int_tok _ _ I1 Rk) as [J1 V1]. destruct (rw_int_tok _ _ I2 eq_refl) as [J2 V2].
  pose proof (rw_word_tok _ _ I3 rd_s_obj) as W3. change (list_eqb N.eqb [111; 98; 106] rd_s_obj) with true in W3.
  (* the object *)
  assert (Hch3 : good_chain X3 (rd_toks objs ren v) E).
  { unfold X3. apply rw_chain_ws; [reflexivity | reflexivity | exact Hch | apply rd_toks_ne]. }
  pose proof (rw_syn_obj objs ren Hren v (Datatypes.S (length (rd_toks objs ren v))) [] ND ltac:(lia) I) as Hs.
  rewrite app_nil_r in Hs.
  destruct (rd_toks objs ren v) as [|tok0 toks] eqn:Et; [exfalso; exact (rd_toks_ne objs ren v Et)|].
  assert (H0 : tok0 = PArrOpen \/ tok0 = PDictOpen).
  { destruct v; try contradiction; cbn [rd_toks] in Et; injection Et as <- _; [left | right]; reflexivity. }
  assert (Hi' : ints_ok toks) by (unfold ints_ok in *; inversion Hi; assumption).
  pose proof (refs_ok_tail _ _ Hr) as Hr'.
  destruct (parse_complete_container_lemma X3 tok0 toks E _ rd_tk p3 Hch3 H0 Hs Hi' Hr' Ho Hl eq_refl ltac:(discriminate))
    as (o' & P1 & P2 & P3 & P4).
  (* endobj *)
  assert (S4 : rw_step E (PKeyword [101; 110; 100; 111; 98; 106]) (10 :: tail)).
  { unfold E. apply rw_step_ws; [reflexivity | reflexivity|].
    apply (rw_step_kw [101; 110; 100; 111; 98; 106] (PKeyword [101; 110; 100; 111; 98; 106]) (10 :: tail)); try reflexivity;
      [discriminate | constructor; [reflexivity | exact Bt]]. }
  exists o'. split; [|exact P2].
  unfold rd_read_at. assert (Eoff : (off =? 0) = false) by (apply N.eqb_neq; exact Hoff). rewrite Eoff. cbn [andb].
  unfold rd_object_start. rewrite Hat', T1. cbv beta iota. rewrite J1. cbn [negb]. rewrite T2. cbv beta iota. rewrite J2. cbn [negb].
  rewrite T3. cbv beta iota. rewrite W3. cbn [negb]. rewrite V1, V2.
  assert (Ek : (Z.of_N k =? 0)%Z = false) by (apply Z.eqb_neq; lia). rewrite Ek.
  rewrite Z.eqb_refl. change ((0 =? Z.of_N 0)%Z) with true. cbn [andb negb].
  unfold rd_read_object.
  set (r := parse_object false false rd_tk X3 p3) in *.
  rewrite P1, P3, P4. cbn [map].
  destruct (rw_tok_step _ _ _ (pr_pos r) S4) as (tk4 & p4 & l4 & T4 & I4).
  rewrite T4.
  pose proof (rw_word_tok _ _ I4 rd_s_endobj) as W4. change (list_eqb N.eqb [101; 110; 100; 111; 98; 106] rd_s_endobj) with true in W4.
  pose proof (rw_word_tok _ _ I4 rd_s_stream) as W5. change (list_eqb N.eqb [101; 110; 100; 111; 98; 106] rd_s_stream) with false in W5.
  assert (Hsk : rd_skip_cspace (10 :: tail) = true).
  { cbn [rd_skip_cspace]. change (c_isspace 10) with true. cbv iota. destruct tail as [|c r']; [contradiction|].
    cbn [rd_skip_cspace]. rewrite Htail. reflexivity. }
  destruct (rd_fixrefs (rd_known e) o') eqn:Ef; rewrite ?W5, W4; cbn [app]; rewrite Hsk; reflexivity.
Qed.

(* [superseded by the status record at the end of File/C03ProofsRdW8.v: steps a-f below are now proved there]
   ------------------------------------------------------------------ rd_reads_writer_output: what is proved, what is missing
   Goal: for every wf_doc d (plus: no real numbers, printed dictionary keys pairwise different at every level, integers
   within long long, at most 500 container openings per object, the output a byte string, "startxref" occurring once in the
   last 1054 bytes, /Root a /Catalog with a /Pages dictionary), rd_view (write_doc d) = the view of d with no warning.
   PROVED (this file):
     1. the two printer models are the same functions (rd_writer_printers_agree);
     2. the ISO specification lexer reads every printed object token by token (rd_unparse_chain) and the ISO object
        grammar reads the tokens as the object (rd_unparse_syn);
     3. THE BRIDGE: Parser::parse (model) reads a printed array / dictionary / one-token object as that object, without
        warning, leaving exactly the rest (rd_unparse_parses_container, rd_unparse_parses_scalar);
     4. readObjectAtOffset (model) on `k 0 obj\n` + printed container + `\nendobj\n` + non-space: RdrObj (k, 0) with the
        object of 3 and no warning (rd_read_at_emitted).
   MISSING, in the order of rd_view:
     a. rd_find_header / rd_version on WriterModel.header (easy: computation on `%PDF-d.d\n`);
     b. rd_find_last_sx on the output: needs a lemma "the last accepted `startxref` is the one write_doc prints", i.e. a
        statement about arbitrary bytes (stream data) in the last 1054 bytes; with the side condition above it is a scan lemma;
     c. rd_read_xtable on `xref\n0 n\n` + entries + `trailer <<...>>`: rd_xref_first on the 50-byte buffer, rd_xref_entry on
        WriterArith.xref_line (zero padded 10 + 5 digits: rd_span_zeros / rd_entry_digits), c3_entry folding to the table
        [(k, 0, C3Use off_k 0)] (needs k <= file size / 3), the trailer through the bridge (the /ID hex strings are covered
        by rw_step_str only if hexstr = wm_unparse_string's hex form: not shown);
     d. rd_gen_pass / sort on that table (rd_highest_generation_only applies), the /Size test;
     e. composition of 4 with Obj/C01FileProofs.offs_of_at / write_doc_shape for every object (needs the explicit tail of
        the chunk - offs_of_at leaves it existential - and bytes_ok of the whole output), and rd_fixrefs = identity on
        closed documents;
     f. stream objects: rd_read_stream on `\nstream\n` data `endstream` is rd_stream_extent (File/C03ProofsRd.v) with
        rd_end_follows_lemma (e = [], dl = LF) once the stream dictionary is read by the bridge (unparse_stream_dict, not
        unparse, is printed: the bridge has to be restated for it);
     g. reals (excluded from the class: the relation between StrictSyntax.parse_number, by which wf_wobj admits a real, and
        LexSpec.number_of_run is not proved) - with them the result can only be stated up to R_obj (reals by value). *)
