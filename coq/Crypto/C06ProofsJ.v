(* C06 proofs, part J (extension): the password judgement in the terms of the STANDARD. For the RC4-era revisions with
   their nominal key lengths (R 2 / 40 bits, R 3 and R 4 / 128 bits) the two checks initialize() runs are exactly
   Algorithm 6 and Algorithm 7 of ISO 32000 as IsoRef.v writes them, for ANY /O, /U, /P, /ID; so a password that the
   reference reader does not authenticate (iso_open_V4 = None) is rejected by the reader model with the password
   error. (For V 2 with shorter keys the owner check differs from Algorithm 7: finding F3.) *)
From QV Require Import Base.Bytes Crypto.Nib Filters.Filters Filters.C15ProofsB.
From QV Require Import Crypto.MD5 Crypto.SHA2Fast Crypto.AES Crypto.AesPdf Crypto.KeyDeriv Crypto.IsoRef Crypto.Perms.
From QV Require Import Crypto.C05Proofs Crypto.C05ProofsB.
From QV Require Import Crypto.IsoEnc Crypto.DecReader Crypto.DqIso Crypto.DqReader Crypto.C06ProofsH.
From Coq Require Import Arith.
Local Open Scope N_scope.

Opaque aes_cipher aes_inv_cipher aes_key_schedule.

Lemma dq_list_eqb_sym : forall a b : list N, list_eqb N.eqb a b = list_eqb N.eqb b a.
Proof.
  intros a b. destruct (list_eqb N.eqb a b) eqn:E1; destruct (list_eqb N.eqb b a) eqn:E2; try reflexivity.
  - apply list_eqb_N_eq in E1. subst. rewrite (proj2 (list_eqb_N_eq b b) eq_refl) in E2. discriminate.
  - apply list_eqb_N_eq in E2. subst. rewrite (proj2 (list_eqb_N_eq a a) eq_refl) in E1. discriminate.
Qed.

Section NominalV4.
  Variable ed : enc_data.
  Hypothesis Hs : scheme_V4 (ed_V ed) (ed_R ed) (ed_len ed).
  Hypothesis HO : length (ed_O ed) = 32%nat.
  Hypothesis HU : length (ed_U ed) = 32%nat.

  Let Rcases : (ed_R ed = 2 /\ ed_len ed = 5) \/ ((ed_R ed = 3 \/ ed_R ed = 4) /\ ed_len ed = 16).
  Proof. destruct Hs as [(_&A&B)|[(_&A&B)|(_&A&B)]]; auto. Qed.

  (* check_user_password_V4 is Algorithm 6 *)
  Lemma dq_check_user_is_alg6 : forall pw, kd_check_user_V4 ed pw = iso_auth_user_V4 (to_iso ed) pw.
  Proof.
    intros pw. unfold kd_check_user_V4, iso_auth_user_V4.
    rewrite (U_agrees (ed_V ed) (ed_R ed) (ed_len ed) Hs ed eq_refl eq_refl).
    change (iso_R (to_iso ed)) with (ed_R ed). change (iso_U (to_iso ed)) with (ed_U ed). unfold bytes_eqb.
    destruct Rcases as [[ER EL]|[[ER|ER] EL]]; rewrite ER.
    - change (2 =? 2) with true. change (3 <=? 2) with false. cbv iota. change kd_key_bytes with 32%nat.
      rewrite (firstn_all2 (ed_U ed)) by lia.
      rewrite (firstn_all2 (kd_U_value ed pw)).
      + apply dq_list_eqb_sym.
      + unfold kd_U_value. rewrite ER. change (3 <=? 2) with false. cbv iota.
        rewrite (kd_iterate_rc4_fwd _ _ 0). cbn [seq map fold_left]. rewrite rc4_length. reflexivity.
    - change (3 =? 2) with false. change (3 <=? 3) with true. cbv iota. apply dq_list_eqb_sym.
    - change (4 =? 2) with false. change (3 <=? 4) with true. cbv iota. apply dq_list_eqb_sym.
  Qed.

  (* the user password check_owner_password_V4 recovers from /O is the one of Algorithm 7 *)
  Lemma dq_owner_user_is_alg7 : forall pw,
    kd_iterate_rc4 (firstn kd_key_bytes (ed_O ed)) (kd_pad_short (kd_O_rc4_key ed [] pw) (N.to_nat (ed_len ed)))
                   (if 3 <=? ed_R ed then 20 else 1) true
    = iso_user_from_owner (to_iso ed) pw.
  Proof.
    intros pw. unfold iso_user_from_owner.
    pose proof (owner_key_agrees (ed_V ed) (ed_R ed) (ed_len ed) Hs ed eq_refl eq_refl [] pw) as HK.
    replace (eff_owner [] pw) with pw in HK by (destruct pw; reflexivity). rewrite HK.
    change (iso_R (to_iso ed)) with (ed_R ed). change (iso_O (to_iso ed)) with (ed_O ed).
    change kd_key_bytes with 32%nat. rewrite (firstn_all2 (ed_O ed)) by lia.
    unfold kd_iterate_rc4.
    destruct Rcases as [[ER EL]|[[ER|ER] EL]]; rewrite ER.
    - change (2 =? 2) with true. change (3 <=? 2) with false. cbv iota. change (N.to_nat 1) with 1%nat.
      rewrite (kd_rc4_loop_rev_fold 1 0) by reflexivity. cbn [seq rev app map fold_left].
      unfold iso_xor_key. change (N.of_nat 0) with 0. rewrite xor_key_0. reflexivity.
    - change (3 =? 2) with false. change (3 <=? 3) with true. cbv iota. change (N.to_nat 20) with 20%nat.
      rewrite (kd_rc4_loop_rev_fold 20 0) by reflexivity. reflexivity.
    - change (4 =? 2) with false. change (3 <=? 4) with true. cbv iota. change (N.to_nat 20) with 20%nat.
      rewrite (kd_rc4_loop_rev_fold 20 0) by reflexivity. reflexivity.
  Qed.

  Lemma dq_check_owner_is_alg7 : forall pw,
    match kd_check_owner_V4 ed pw with Some _ => true | None => false end = iso_auth_owner_V4 (to_iso ed) pw.
  Proof.
    intros pw. unfold kd_check_owner_V4, iso_auth_owner_V4. rewrite dq_owner_user_is_alg7, dq_check_user_is_alg6.
    destruct (iso_auth_user_V4 (to_iso ed) (iso_user_from_owner (to_iso ed) pw)); reflexivity.
  Qed.

  Lemma dq_checks_are_iso : forall pw, ed_V ed <? 5 = true ->
    dq_checks ed pw = (iso_auth_owner_V4 (to_iso ed) pw, iso_auth_user_V4 (to_iso ed) pw).
  Proof.
    intros pw H5. unfold dq_checks. rewrite H5, dq_check_owner_is_alg7, dq_check_user_is_alg6. reflexivity.
  Qed.
End NominalV4.

Lemma dq_enc_data_lengths : forall d id ed, dq_enc_data d id = Some ed -> ed_V ed <? 5 = true ->
  length (ed_O ed) = 32%nat /\ length (ed_U ed) = 32%nat.
Proof.
  intros d id ed H H5. unfold dq_enc_data in H.
  destruct (negb match c6r_filter d with Some n => bytes_eqb n c06_name_standard | None => false end); [discriminate|].
  destruct (c6r_V d) as [V|]; [|discriminate].
  destruct (c6r_R d) as [R|]; [|discriminate].
  destruct (c6r_O d) as [Ov|]; [|discriminate].
  destruct (c6r_U d) as [Uv|]; [|discriminate].
  destruct (c6r_P d) as [P|]; [|discriminate].
  destruct (negb (Z.leb 2 R && Z.leb R 6 && (Z.eqb V 1 || Z.eqb V 2 || Z.eqb V 4 || Z.eqb V 5))) eqn:EVR; [discriminate|].
  assert (HVc : (V = 1 \/ V = 2 \/ V = 4 \/ V = 5)%Z).
  { apply negb_false_iff in EVR. apply andb_true_iff in EVR. destruct EVR as [_ E].
    repeat (apply orb_true_iff in E; destruct E as [E|E]); apply Z.eqb_eq in E; auto. }
  cbv beta iota zeta in H.
  destruct (Z.ltb V 5) eqn:E5.
  - match type of H with context [(Nat.eqb ?a ?b && Nat.eqb ?c ?e)%bool] => destruct (Nat.eqb a b && Nat.eqb c e)%bool eqn:EL end; [|discriminate].
    cbv beta iota zeta in H. inversion H; subst ed. cbn [ed_O ed_U].
    apply andb_true_iff in EL. destruct EL as [A B]. apply Nat.eqb_eq in A, B. split; assumption.
  - destruct (c6r_OE d), (c6r_UE d), (c6r_Perms d); try discriminate.
    cbv beta iota zeta in H. inversion H; subst ed. cbn [ed_V] in H5.
    destruct HVc as [E|[E|[E|E]]]; subst V; discriminate.
Qed.

(* dq_wrong_password_rejected_iso: every dictionary of R 2 / 3 / 4 with the nominal key length that passes the validation of
   initialize(), any /O /U /P /ID, any password: if the reference reader of IsoRef.v (Algorithm 6, then Algorithm 7)
   authenticates it neither as user nor as owner password, the reader model answers with the password error *)
Lemma dq_wrong_password_rejected_iso_lemma : forall d id pw ed,
  dq_enc_data d id = Some ed -> scheme_V4 (ed_V ed) (ed_R ed) (ed_len ed) ->
  iso_open_V4 (to_iso ed) pw = None ->
  exists ws, c06_initialize d id (C6Password pw) = C6Err C6EPassword ws.
Proof.
  intros d id pw ed Hed Hs Hopen.
  assert (H5 : ed_V ed <? 5 = true) by (destruct Hs as [(A&_)|[(A&_)|(A&_)]]; rewrite A; reflexivity).
  destruct (dq_enc_data_lengths d id ed Hed H5) as [HO HU].
  apply (dq_wrong_password_rejected_lemma d id pw ed Hed).
  rewrite (dq_checks_are_iso ed Hs HO HU pw H5).
  unfold iso_open_V4 in Hopen.
  destruct (iso_auth_user_V4 (to_iso ed) pw); [discriminate|].
  destruct (iso_auth_owner_V4 (to_iso ed) pw); [discriminate|]. reflexivity.
Qed.

(* and conversely a password the reference reader authenticates is accepted (any /O /U: no reference to how the file was made) *)
Lemma dq_right_password_accepted_iso_lemma : forall d id pw ed,
  dq_enc_data d id = Some ed -> scheme_V4 (ed_V ed) (ed_R ed) (ed_len ed) ->
  iso_open_V4 (to_iso ed) pw <> None ->
  exists st ws, c06_initialize d id (C6Password pw) = C6Ok st ws /\
                c6t_owner_matched st = iso_auth_owner_V4 (to_iso ed) pw.
Proof.
  intros d id pw ed Hed Hs Hopen.
  assert (H5 : ed_V ed <? 5 = true) by (destruct Hs as [(A&_)|[(A&_)|(A&_)]]; rewrite A; reflexivity).
  destruct (dq_enc_data_lengths d id ed Hed H5) as [HO HU].
  destruct (c06_initialize d id (C6Password pw)) as [st ws|e ws] eqn:Ei.
  - exists st, ws. split; [reflexivity|].
    destruct (dq_accepted_password_checked_lemma d id pw st ws Ei) as [ed' [Hed' [_ [Hom _]]]].
    rewrite Hed in Hed'. inversion Hed'; subst ed'.
    rewrite Hom, (dq_checks_are_iso ed Hs HO HU pw H5). reflexivity.
  - exfalso. apply Hopen. unfold iso_open_V4.
    (* an error: by validation it can only be the password error, which needs both checks to fail *)
    assert (Hc : dq_checks ed pw = (false, false)).
    { unfold dq_enc_data in Hed. unfold c06_initialize in Ei.
      destruct (negb match c6r_filter d with Some n => bytes_eqb n c06_name_standard | None => false end); [discriminate|].
      destruct (c6r_V d) as [V|]; [|discriminate].
      destruct (c6r_R d) as [R|]; [|discriminate].
      destruct (c6r_O d) as [Ov|]; [|discriminate].
      destruct (c6r_U d) as [Uv|]; [|discriminate].
      destruct (c6r_P d) as [P|]; [|discriminate].
      destruct (negb (Z.leb 2 R && Z.leb R 6 && (Z.eqb V 1 || Z.eqb V 2 || Z.eqb V 4 || Z.eqb V 5))); [discriminate|].
      cbv beta iota zeta in Hed, Ei.
      destruct (Z.ltb V 5) eqn:E5.
      - match type of Hed with context [(Nat.eqb ?a ?b && Nat.eqb ?c ?e)%bool] => destruct (Nat.eqb a b && Nat.eqb c e)%bool end; [|discriminate].
        cbv beta iota zeta in Hed, Ei. inversion Hed; subst ed; clear Hed.
        unfold dq_checks. rewrite H5.
        match type of Ei with context [kd_check_owner_V4 ?e pw] => destruct (kd_check_owner_V4 e pw) eqn:Eo end; [discriminate|].
        match type of Ei with context [kd_check_user_V4 ?e pw] => destruct (kd_check_user_V4 e pw) eqn:Eu end; [discriminate|].
        reflexivity.
      - destruct (c6r_OE d), (c6r_UE d), (c6r_Perms d); try discriminate.
        cbv beta iota zeta in Hed. inversion Hed; subst ed. cbn [ed_V] in H5.
        exfalso. clear - E5 H5. destruct V as [|p|p]; cbn in *; try discriminate.
        apply N.ltb_lt in H5. apply Z.ltb_ge in E5. lia. }
    rewrite (dq_checks_are_iso ed Hs HO HU pw H5) in Hc. inversion Hc as [[A B]]. 
    destruct (iso_auth_user_V4 (to_iso ed) pw); [discriminate|].
    destruct (iso_auth_owner_V4 (to_iso ed) pw); [discriminate|]. reflexivity.
Qed.

(* ------------------------------------------------------------------ R 5 / R 6: Algorithms 11 and 12 *)
Lemma dq_checks_are_iso_V5 : forall ed pw, ed_V ed <? 5 = false -> ed_R ed = 5 \/ ed_R ed = 6 ->
  dq_checks ed pw = (iso_is_owner_V5 (to_iso ed) pw, iso_is_user_V5 (to_iso ed) pw).
Proof.
  intros ed pw H5 HR. unfold dq_checks. rewrite H5.
  unfold kd_check_owner_V5, kd_check_user_V5, iso_is_owner_V5, iso_is_user_V5, iso_pw_V5, iso_sub, bytes_eqb.
  change (iso_R (to_iso ed)) with (ed_R ed). change (iso_O (to_iso ed)) with (ed_O ed). change (iso_U (to_iso ed)) with (ed_U ed).
  rewrite !(hash_agrees (ed_R ed)) by exact HR. cbn [skipn]. reflexivity.
Qed.

(* dq_wrong_password_rejected_iso_V5: every V 5 dictionary of revision 5 or 6 that passes the validation, any /O /U /OE /UE
   /Perms (of any length: short values are zero-padded as initialize() does): a password that is neither the owner nor
   the user password by Algorithms 12 / 11 of ISO 32000-2 (hash 2.B for R 6) is answered with the password error *)
Lemma dq_wrong_password_rejected_iso_V5_lemma : forall d id pw ed,
  dq_enc_data d id = Some ed -> ed_V ed <? 5 = false -> ed_R ed = 5 \/ ed_R ed = 6 ->
  iso_open_V5 (to_iso ed) pw = None ->
  exists ws, c06_initialize d id (C6Password pw) = C6Err C6EPassword ws.
Proof.
  intros d id pw ed Hed H5 HR Hopen.
  apply (dq_wrong_password_rejected_lemma d id pw ed Hed).
  rewrite (dq_checks_are_iso_V5 ed pw H5 HR).
  unfold iso_open_V5 in Hopen.
  destruct (iso_is_owner_V5 (to_iso ed) pw); [discriminate|].
  destruct (iso_is_user_V5 (to_iso ed) pw); [discriminate|]. reflexivity.
Qed.

Print Assumptions dq_wrong_password_rejected_iso_lemma.
Print Assumptions dq_right_password_accepted_iso_lemma.
Print Assumptions dq_wrong_password_rejected_iso_V5_lemma.
