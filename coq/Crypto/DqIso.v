(* C06 extension, SPECIFICATION side: the crypt filter rule of ISO 32000-2 for an ARBITRARY encryption dictionary of the
   standard security handler, written from the standard (7.6.2, 7.6.3, 7.6.6, Table 20 /V /CF /StmF /StrF /EFF
   /EncryptMetadata, Table 25 /CFM, Table 26 Identity, 7.4.10 + Table 14 the Crypt filter and its decode parameters,
   7.5.8.2 cross-reference streams). IsoEnc.v describes what one PRODUCER writes from its choices (a /CF whose entries have
   a method); this file describes what a conforming READER must make of ANY dictionary it meets: /CF entries that are not
   dictionaries, crypt filter dictionaries with and without /CFM, /CFM /None spelled out, unknown /CFM names, /StmF /StrF
   /EFF absent, names that are not defined, methods that do not belong to the value of /V.
   Result None = the standard prescribes nothing (the file is not well formed), so nothing is claimed.
   Nothing of qpdf's code is used here; only the data types of IsoEnc.v (where a string lives, the part of a stream
   dictionary that matters, Table 25's methods) are shared. *)
From QV Require Import Base.Bytes Crypto.IsoRef Crypto.IsoEnc.
Local Open Scope N_scope.

(* one value of the /CF dictionary as it stands in the file: not a dictionary, or a crypt filter dictionary with its
   /CFM entry when that is a name *)
Inductive dq_cfval :=
| DqCfOther
| DqCfDict (cfm : option (list N)).

(* the entries of the encryption dictionary that 7.6.6 reads. A PDF dictionary has every key once (7.3.7): dq_CF is the
   list of its (key, value) pairs and look-up takes the first pair. *)
Record dq_edict := {
  dq_V : N;                                  (* /V *)
  dq_encmeta : option bool;                  (* /EncryptMetadata when it is a boolean *)
  dq_CF : list (list N * dq_cfval);          (* /CF *)
  dq_StmF : option (list N);                 (* /StmF when it is a name *)
  dq_StrF : option (list N);
  dq_EFF : option (list N)
}.

Definition dq_nm_None : list N := [78; 111; 110; 101].
Definition dq_nm_V2 : list N := [86; 50].
Definition dq_nm_AESV2 : list N := [65; 69; 83; 86; 50].
Definition dq_nm_AESV3 : list N := [65; 69; 83; 86; 51].

(* Table 25, /CFM: "None (default): the application shall not decrypt data", V2 = RC4 with Algorithm 1, AESV2 = AES-128
   CBC with Algorithm 1 (PDF 1.6: the 128-bit file key of V 4), AESV3 = AES-256 CBC with Algorithm 1.A (PDF 2.0: the
   256-bit file key of V 5). A method whose key length does not belong to /V, and any other name, is not defined. *)
Definition dq_cfm_of (V : N) (cfm : option (list N)) : option c06_cfm :=
  match cfm with
  | None => Some C6None
  | Some n =>
      if bytes_eqb n dq_nm_None then Some C6None
      else if bytes_eqb n dq_nm_V2 then (if V =? 4 then Some C6V2 else None)
      else if bytes_eqb n dq_nm_AESV2 then (if V =? 4 then Some C6AESV2 else None)
      else if bytes_eqb n dq_nm_AESV3 then (if V =? 5 then Some C6AESV3 else None)
      else None
  end.

Fixpoint dq_cf_get (cf : list (list N * dq_cfval)) (name : list N) : option dq_cfval :=
  match cf with
  | [] => None
  | (n, v) :: t => if bytes_eqb n name then Some v else dq_cf_get t name
  end.

(* 7.6.6 / Table 26: Identity is predefined, passes the data through and "shall not be redefined" (a /CF that has an
   Identity entry is not well formed when that name is used); every other name shall be a crypt filter DICTIONARY in /CF *)
Definition dq_filter_method (e : dq_edict) (name : list N) : option c06_cfm :=
  if bytes_eqb name c06_name_identity then
    match dq_cf_get (dq_CF e) name with None => Some C6None | Some _ => None end
  else
    match dq_cf_get (dq_CF e) name with
    | Some (DqCfDict cfm) => dq_cfm_of (dq_V e) cfm
    | _ => None
    end.

(* Table 20: /StmF, /StrF "Default value: Identity" *)
Definition dq_or_identity (n : option (list N)) : list N :=
  match n with Some x => x | None => c06_name_identity end.

(* Table 20: /EncryptMetadata is meaningful only when /V is 4 or 5; default true *)
Definition dq_encrypt_metadata (e : dq_edict) : bool :=
  if 4 <=? dq_V e then match dq_encmeta e with Some b => b | None => true end else true.

(* ---- strings (7.6.2): only the strings of indirect objects outside object streams are encrypted; /V below 4: RC4 for
   all of them (7.6.3); /V 4 and 5: the crypt filter /StrF *)
Definition dq_iso_string_method (e : dq_edict) (w : c06_where) : option c06_cfm :=
  match w with
  | C6InObject => if dq_V e <? 4 then Some C6V2 else dq_filter_method e (dq_or_identity (dq_StrF e))
  | C6InObjStm | C6InTrailer | C6InSigContents _ => Some C6None
  end.

(* ---- streams. `embedded` = the stream is an embedded file stream (/Type /EmbeddedFile). For a READER it makes no
   difference: Table 20 gives /StmF as "the crypt filter that shall be used by default when DECRYPTING streams", while
   /EFF is an instruction to WRITERS ("shall be used when encrypting embedded file streams that do not have their own
   crypt filter specifier"); 7.6.6 requires a stream encrypted by another filter than /StmF to carry its own Crypt filter,
   which is the first case below. *)
Definition dq_iso_stream_method (e : dq_edict) (embedded : bool) (s : c06_sdict) : option c06_cfm :=
  if c6d_xref s then Some C6None
  else if dq_V e <? 4 then Some C6V2
  else match c06_crypt_parm s with
       | Some p => dq_filter_method e (c06_crypt_name p)
       | None =>
           if c6d_rootmeta s && negb (dq_encrypt_metadata e) then Some C6None
           else dq_filter_method e (dq_or_identity (dq_StmF e))
       end.

(* what /EFF means to a writer that adds an attachment (and what qpdf --show-encryption reports as "file encryption
   method"): the filter /EFF names; when /EFF is absent, /StmF *)
Definition dq_iso_file_method (e : dq_edict) : option c06_cfm :=
  if dq_V e <? 4 then Some C6V2
  else dq_filter_method e (match dq_EFF e with Some n => n | None => dq_or_identity (dq_StmF e) end).

Definition dq_iso_leaf_method (e : dq_edict) (k : c06_kind) : option c06_cfm :=
  match k with
  | C6String w => dq_iso_string_method e w
  | C6Stream s => dq_iso_stream_method e false s
  end.

(* the dictionary a producer of IsoEnc.v writes from its choices c (a crypt filter whose method is None written without
   /CFM when none_explicit = false, as /CFM /None otherwise) *)
Definition dq_cfm_name (none_explicit : bool) (m : c06_cfm) : option (list N) :=
  match m with
  | C6None => if none_explicit then Some dq_nm_None else None
  | C6V2 => Some dq_nm_V2
  | C6AESV2 => Some dq_nm_AESV2
  | C6AESV3 => Some dq_nm_AESV3
  end.
Definition dq_edict_of_cfg (none_explicit : bool) (c : c06_cfg) : dq_edict :=
  {| dq_V := c6_V c; dq_encmeta := Some (c6_encmeta c);
     dq_CF := map (fun x => (fst x, DqCfDict (dq_cfm_name none_explicit (snd x)))) (c6_cf c);
     dq_StmF := Some (c6_stmf c); dq_StrF := Some (c6_strf c); dq_EFF := None |}.
