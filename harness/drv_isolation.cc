// C20 driver: isolation of separate documents.
//  iso <history>        sequential bystander driver: 2-3 live documents + fresh-parse probes; after every
//                       step the whole observable world is dumped (see dump()). Each history runs in a forked
//                       child so that every case starts from pristine process-wide statics.
//  isofile <hexpdf>.. / thr ...   see below.
// The history syntax is shared with ocaml/h_isolation.ml (the extracted model) and harness/c20.py.
#include "drv.hh"
#include <qpdf/QPDF.hh>
#include <qpdf/QPDFJob.hh>
#include <qpdf/QPDFObjectHandle.hh>
#include <qpdf/QPDFWriter.hh>
#include <qpdf/QUtil.hh>
#include <qpdf/Pl_Buffer.hh>
#include <qpdf/Pl_Discard.hh>
#include <qpdf/JSON.hh>
#include <qpdf/Buffer.hh>
#include <atomic>
#include <cstring>
#include <memory>
#include <thread>
#include <sys/wait.h>
#include <unistd.h>

namespace {

std::vector<std::string> split(std::string const& s, char sep) {
    std::vector<std::string> r; std::string cur;
    for (char c: s) { if (c == sep) { r.push_back(cur); cur.clear(); } else cur.push_back(c); }
    r.push_back(cur);
    return r;
}

unsigned long long fnv(std::string const& s) {
    unsigned long long h = 1469598103934665603ULL;
    for (unsigned char c: s) { h ^= c; h *= 1099511628211ULL; }
    return h;
}
std::string hx64(unsigned long long v) { char b[32]; snprintf(b, sizeof b, "%016llx", v); return b; }

// token stream (see c20.py) -> PDF text
std::string tokens_to_pdf(std::string const& toks) {
    std::string out;
    for (auto const& t: split(toks, '.')) {
        if (t.empty()) continue;
        switch (t[0]) {
        case 'n': out += "null "; break;
        case 't': out += "true "; break;
        case 'f': out += "false "; break;
        case 'i': out += t.substr(1) + " "; break;
        case 'N': out += "/" + t.substr(1) + " "; break;
        case 'r': out += t.substr(1) + " 0 R "; break;
        case '[': out += "[ "; break;
        case ']': out += "] "; break;
        case '<': out += "<< "; break;
        case '>': out += ">> "; break;
        case 'z': { int n = std::stoi(t.substr(1)); for (int i = 0; i < n; ++i) out += "null "; break; }
        default: throw std::runtime_error("bad token " + t);
        }
    }
    return out;
}

template <class F> std::string safe(F f) {
    try { return f(); }
    catch (std::logic_error const&) { return "!L"; }
    catch (std::exception const&) { return "!R"; }
}

struct World {
    std::map<int, std::unique_ptr<QPDF>> docs;           // live documents
    std::map<int, std::pair<int, QPDFObjectHandle>> roots; // held handles: root number -> (document tag, handle)
    int ndocs = 0;                                        // documents ever created (ids are 0,1,2,...)

    QPDF* doc(int d) { auto it = docs.find(d); return it == docs.end() ? nullptr : it->second.get(); }

    // handle expression: r<k> | o<id>  followed by /i<n> (getArrayItem) /v<n> (getArrayAsVector()[n]) /k<c> (getKey)
    // value expression additionally: I<z> newInteger, U newNull, Y<c> newName, B newArray, G newDictionary.
    // returns false when a guard fails ("skip": the operation is not performed, same rule in the model)
    bool eval(int d, std::string const& e, QPDFObjectHandle& out, bool as_value = false) {
        auto parts = split(e, '/');
        std::string const& h = parts[0];
        if (h.empty()) return false;
        QPDFObjectHandle cur;
        switch (h[0]) {
        case 'r': {
            auto it = roots.find(std::stoi(h.substr(1)));
            if (it == roots.end() || it->second.first != d) return false;
            cur = it->second.second; break; }
        case 'o': {
            QPDF* q = doc(d); if (!q) return false;
            int id = std::stoi(h.substr(1));
            if (id < 3 || id > static_cast<int>(q->getObjectCount())) return false;
            cur = q->getObject(id, 0); break; }
        case 'I': cur = QPDFObjectHandle::newInteger(std::stoll(h.substr(1))); break;
        case 'U': cur = QPDFObjectHandle::newNull(); break;
        case 'Y': cur = QPDFObjectHandle::newName("/" + h.substr(1)); break;
        case 'B': cur = QPDFObjectHandle::newArray(); break;
        case 'G': cur = QPDFObjectHandle::newDictionary(); break;
        default: return false;
        }
        for (size_t i = 1; i < parts.size(); ++i) {
            std::string const& s = parts[i];
            if (s.empty()) return false;
            if (s[0] == 'i') {
                int n = std::stoi(s.substr(1));
                if (!cur.isArray() || n < 0 || n >= cur.getArrayNItems()) return false;
                cur = cur.getArrayItem(n);
            } else if (s[0] == 'v') {
                int n = std::stoi(s.substr(1));
                if (!cur.isArray() || n < 0 || n >= cur.getArrayNItems()) return false;
                cur = cur.getArrayAsVector().at(static_cast<size_t>(n));
            } else if (s[0] == 'k') {
                if (!cur.isDictionary()) return false;
                cur = cur.getKey("/" + s.substr(1));
            } else return false;
        }
        // a value that is put into a container must be a scalar, an indirect object or a freshly made object
        // (keeps the object graph of direct objects acyclic; same guard in the model)
        if (as_value && (h[0] == 'r' || h[0] == 'o') && (cur.isArray() || cur.isDictionary()) && !cur.isIndirect()) return false;
        out = cur;
        return true;
    }

    std::string dump() {
        std::string out;
        for (auto& [d, q]: docs) {
            out += "d" + std::to_string(d) + "{";
            std::string js;
            int n = static_cast<int>(q->getObjectCount());
            for (int id = 3; id <= n; ++id) {
                auto oh = q->getObject(id, 0);
                out += std::to_string(id) + "=" + safe([&] { return oh.unparseResolved(); }) + ";";
                js += safe([&] { return oh.getJSON(2, true).unparse(); }) + ";";
            }
            out += "}j" + hx64(fnv(js)) + " ";
        }
        for (auto& [r, p]: roots) {
            auto& oh = p.second;
            out += "r" + std::to_string(r) + "@" + std::to_string(p.first) + "=" + safe([&] { return oh.unparse(); }) + "~" +
                safe([&] { return oh.unparseResolved(); }) + "j" + hx64(fnv(safe([&] { return oh.getJSON(2, true).unparse(); }))) + " ";
        }
        // fresh-parse probes: objects obtained independently of every document
        out += "F=" + safe([&] { return QPDFObjectHandle::parse("[ null 1 << /K null /L [ null ] >> ]").unparse(); });
        out += "~" + safe([&] {
            std::string t = "[ 5 ";
            for (int i = 0; i < 101; ++i) t += "null ";
            t += "]";
            std::string expect = t;
            auto a = QPDFObjectHandle::parse(t);
            auto v = a.getArrayAsVector();
            return std::to_string(a.getArrayNItems()) + ":" + v.at(0).unparse() + "," + v.at(1).unparse() + "," + v.at(101).unparse() +
                "," + a.getArrayItem(3).unparse() + "," + (a.unparse() == expect ? std::string("=") : a.unparse());
        });
        return out;
    }

    std::string step(std::string const& op) {
        auto f = split(op, ',');
        char k = f.at(0).at(0);
        int d = f.size() > 1 ? std::stoi(f[1]) : -1;
        QPDF* q = doc(d);
        QPDFObjectHandle h, v;
        switch (k) {
        case 'D':
            if (d != ndocs) return "skip";
            docs[d] = std::make_unique<QPDF>();
            docs[d]->emptyPDF();
            ++ndocs;
            return "ok";
        case 'P': {   // P,d,r,tokens : root r := QPDFObjectHandle::parse(&doc d, text)
            if (!q) return "skip";
            int r = std::stoi(f.at(2));
            if (r / 10 != d) return "skip";
            roots[r] = {d, QPDFObjectHandle::parse(q, tokens_to_pdf(f.at(3)))};
            return "ok"; }
        case 'H': {   // H,d,r,hx : root r := handle
            if (std::stoi(f.at(2)) / 10 != d || !eval(d, f.at(3), h)) return "skip";
            roots[std::stoi(f.at(2))] = {d, h};
            return "ok"; }
        case 'M':     // M,d,hx : makeIndirectObject
            if (!q || !eval(d, f.at(2), h)) return "skip";
            q->makeIndirectObject(h);
            return "ok";
        case 'K':     // K,d,hx,key,vx : replaceKey
            if (!eval(d, f.at(2), h) || !h.isDictionary() || !eval(d, f.at(4), v, true)) return "skip";
            h.replaceKey("/" + f.at(3), v);
            return "ok";
        case 'R':     // R,d,hx,key : removeKey
            if (!eval(d, f.at(2), h) || !h.isDictionary()) return "skip";
            h.removeKey("/" + f.at(3));
            return "ok";
        case 'A':     // A,d,hx,vx : appendItem
            if (!eval(d, f.at(2), h) || !h.isArray() || !eval(d, f.at(3), v, true)) return "skip";
            h.appendItem(v);
            return "ok";
        case 'S': {   // S,d,hx,n,vx : setArrayItem
            if (!eval(d, f.at(2), h) || !h.isArray() || !eval(d, f.at(4), v, true)) return "skip";
            int n = std::stoi(f.at(3));
            if (n < 0 || n >= h.getArrayNItems()) return "skip";
            h.setArrayItem(n, v);
            return "ok"; }
        case 'E': {   // E,d,hx,n : eraseItem
            if (!eval(d, f.at(2), h) || !h.isArray()) return "skip";
            int n = std::stoi(f.at(3));
            if (n < 0 || n >= h.getArrayNItems()) return "skip";
            h.eraseItem(n);
            return "ok"; }
        case 'O': {   // O,d,id,vx : replaceObject(id, 0, value)
            if (!q) return "skip";
            int id = std::stoi(f.at(2));
            if (id < 3 || id > static_cast<int>(q->getObjectCount()) || !eval(d, f.at(3), v)) return "skip";
            if (v.isIndirect()) return "skip";
            q->replaceObject(id, 0, v);
            return "ok"; }
        case 'X':     // X,d : destroy the document
            if (!q) return "skip";
            docs.erase(d);
            return "ok";
        case 'W': {   // W,d : write the document to memory; the result carries a hash of the bytes
            if (!q) return "skip";
            QPDFWriter w(*q);
            w.setOutputMemory();
            w.setStaticID(true);
            if (f.size() > 2 && f[2] == "q") w.setQDFMode(true);
            if (f.size() > 2 && f[2] == "o") w.setObjectStreamMode(qpdf_o_generate);
            w.write();
            auto b = w.getBufferSharedPointer();
            return "ok:" + hx64(fnv(std::string(reinterpret_cast<char const*>(b->getBuffer()), b->getSize()))); }
        case 'J': {   // J,d : whole-document JSON export (observation only)
            if (!q) return "skip";
            Pl_Buffer p("json");
            q->writeJSON(2, &p, qpdf_dl_none, qpdf_sj_none, "", {});
            return "ok:" + hx64(fnv(p.getString())); }
        case 'C': {   // C,d,s,id,r : root r := doc d.copyForeignObject(doc s.getObject(id))
            QPDF* s = doc(std::stoi(f.at(2)));
            if (!q || !s || s == q) return "skip";
            int id = std::stoi(f.at(3));
            if (id < 3 || id > static_cast<int>(s->getObjectCount())) return "skip";
            auto fo = s->getObject(id, 0);
            if (!fo.isIndirect() || fo.getOwningQPDF() != s) return "skip";
            roots[std::stoi(f.at(4))] = {d, q->copyForeignObject(fo)};
            return "ok"; }
        default:
            return "?op";
        }
    }

    std::string run(std::string const& hist) {
        std::string out = "init|" + dump();
        for (auto const& op: split(hist, ';')) {
            if (op.empty()) continue;
            std::string res;
            try { res = step(op); }
            catch (std::logic_error const& e) { res = "!L"; }
            catch (std::exception const& e) { res = "!R"; }
            out += "#" + res + "|" + dump();
        }
        return out;
    }
};

std::string in_child(std::function<std::string()> fn) {
    int fd[2];
    if (pipe(fd) != 0) return "?pipe";
    fflush(nullptr);
    pid_t pid = fork();
    if (pid < 0) return "?fork";
    if (pid == 0) {
        close(fd[0]);
        std::string r;
        try { r = fn(); } catch (std::exception const& e) { r = std::string("?exception ") + e.what(); }
        size_t off = 0;
        while (off < r.size()) { ssize_t n = write(fd[1], r.data() + off, r.size() - off); if (n <= 0) break; off += static_cast<size_t>(n); }
        close(fd[1]);
        _exit(0);
    }
    close(fd[1]);
    std::string r; char buf[65536]; ssize_t n;
    while ((n = read(fd[0], buf, sizeof buf)) > 0) r.append(buf, static_cast<size_t>(n));
    close(fd[0]);
    int st = 0; waitpid(pid, &st, 0);
    if (!WIFEXITED(st) || WEXITSTATUS(st) != 0) return "?crashed status=" + std::to_string(st) + " " + r;
    for (auto& c: r) if (c == '\n' || c == '\r') c = ' ';
    return r;
}

} // namespace

static Reg r_iso("iso", [](std::vector<std::string> const& a) -> std::string {
    std::string hist = a.empty() ? "" : a[0];
    return in_child([hist] { World w; return w.run(hist); });
});
