(* C18 proofs, part 9: the key order of NAME trees.

   compareKeys on name trees (Struct/NNKeys.v: nk_compare_names a b = nn_scmp (getUTF8Value a) (getUTF8Value b))
   - on the compared representation (the UTF-8 values, byte strings) nn_scmp is a decidable TOTAL ORDER: reflexive,
     antisymmetric, transitive, total (nk_order);
   - on the stored strings it is a total PREORDER only: two different stored strings can compare equal (the same text in
     PDFDocEncoding, UTF-16BE, UTF-16LE, UTF-8 with BOM; the three PDFDoc codes that all become U+FFFD; a trailing odd
     byte or an unpaired high surrogate of a UTF-16 string) -- refuted antisymmetry with witnesses checked against the
     real library by harness/c18_names.py (driver command nncmp).  "Keys strictly ascending" is therefore a statement
     about texts: the quotient of the stored strings by equal UTF-8 value. *)
From QV Require Import Base.Bytes Json.JsonEmit Struct.NNTreeModel Struct.NNKeys.

(* a decidable total order given as a three-way comparison *)
Record nk_order {K : Type} (cmp : K -> K -> comparison) : Prop := NkOrder {
  nko_refl : forall a, cmp a a = Eq;
  nko_eq : forall a b, cmp a b = Eq -> a = b;
  nko_sym : forall a b, cmp b a = CompOpp (cmp a b);
  nko_trans : forall a b c, cmp a b = Lt -> cmp b c = Lt -> cmp a c = Lt
}.

(* the same without antisymmetry: what a comparison through a non-injective normalisation gives *)
Record nk_preorder {K : Type} (cmp : K -> K -> comparison) : Prop := NkPreorder {
  nkp_refl : forall a, cmp a a = Eq;
  nkp_sym : forall a b, cmp b a = CompOpp (cmp a b);
  nkp_trans : forall a b c, cmp a b = Lt -> cmp b c = Lt -> cmp a c = Lt;
  nkp_eq_l : forall a b c, cmp a b = Eq -> cmp a c = cmp b c
}.

Lemma nk_scmp_refl : forall a, nn_scmp a a = Eq.
Proof. induction a as [|x a IH]; simpl; [reflexivity|]. rewrite N.compare_refl. exact IH. Qed.

Lemma nk_scmp_eq : forall a b, nn_scmp a b = Eq -> a = b.
Proof.
  induction a as [|x a IH]; intros [|y b] H; simpl in H; try discriminate; [reflexivity|].
  destruct (N.compare_spec x y) as [->|?|?]; try discriminate. f_equal. apply IH. exact H.
Qed.

Lemma nk_scmp_sym : forall a b, nn_scmp b a = CompOpp (nn_scmp a b).
Proof.
  induction a as [|x a IH]; intros [|y b]; simpl; try reflexivity.
  rewrite (N.compare_antisym x y). destruct (x ?= y)%N; simpl; [apply IH|reflexivity|reflexivity].
Qed.

Lemma nk_scmp_trans : forall a b c, nn_scmp a b = Lt -> nn_scmp b c = Lt -> nn_scmp a c = Lt.
Proof.
  induction a as [|x a IH]; intros [|y b] [|z c] H1 H2; simpl in *; try discriminate; try reflexivity.
  destruct (N.compare_spec x y) as [->|Hxy|Hxy]; try discriminate.
  - destruct (y ?= z)%N; try discriminate; [apply (IH b c); assumption|reflexivity].
  - destruct (N.compare_spec y z) as [->|Hyz|Hyz]; try discriminate.
    + apply N.compare_lt_iff in Hxy. rewrite Hxy. reflexivity.
    + assert (H : (x < z)%N) by (eapply N.lt_trans; eassumption). apply N.compare_lt_iff in H. rewrite H. reflexivity.
Qed.

(* T1. std::string's < on the UTF-8 values -- the representation compareKeys really compares -- is a decidable total
   order: reflexive, antisymmetric, transitive, and total (b ? a is the mirror image of a ? b). *)
Lemma nk_scmp_total_order_lemma : nk_order nn_scmp.
Proof.
  constructor; [exact nk_scmp_refl|exact nk_scmp_eq|exact nk_scmp_sym|exact nk_scmp_trans].
Qed.

(* the integer order of number trees, for the same interface *)
Lemma nk_zcmp_total_order_lemma : nk_order nn_zcmp.
Proof.
  constructor; unfold nn_zcmp.
  - exact Z.compare_refl.
  - intros a b H. apply Z.compare_eq. exact H.
  - intros a b. apply Z.compare_antisym.
  - intros a b c H1 H2. apply Z.compare_lt_iff. apply Z.compare_lt_iff in H1. apply Z.compare_lt_iff in H2.
    eapply Z.lt_trans; eassumption.
Qed.

(* any comparison made through a normalisation inherits a total preorder *)
Lemma nk_preorder_through : forall (K R : Type) (u : K -> R) (cmp : R -> R -> comparison),
  nk_order cmp -> nk_preorder (fun a b => cmp (u a) (u b)).
Proof.
  intros K R u cmp [Hr He Hs Ht]. constructor.
  - intros a. apply Hr.
  - intros a b. apply Hs.
  - intros a b c. apply Ht.
  - intros a b c H. apply He in H. rewrite H. reflexivity.
Qed.

(* T2. compareKeys on STORED strings is a total preorder, and two stored strings compare equal exactly when their
   UTF-8 values are the same bytes. *)
Lemma nk_compare_names_preorder_lemma :
  nk_preorder nk_compare_names /\
  (forall a b, nk_compare_names a b = Eq <-> nk_utf8_value a = nk_utf8_value b).
Proof.
  split; [exact (nk_preorder_through _ _ nk_utf8_value nn_scmp nk_scmp_total_order_lemma)|].
  intros a b. unfold nk_compare_names. split; [apply nk_scmp_eq|]. intros ->. apply nk_scmp_refl.
Qed.

(* T3 (refutation).  compareKeys is NOT antisymmetric on stored strings: different string objects are the same key.
   Witnesses (all checked against the real compareKeys by the harness):
     (a) = <FEFF0061> = <EFBBBF61> = <FFFE6100> = <FEFF006100>        one text in four spellings, and an ignored odd byte
     (\177) = (\237) = (\255)                                          the three PDFDoc codes that become U+FFFD
     () = <FEFFD800>                                                   an unpaired high surrogate is dropped *)
Lemma nk_compare_names_antisym_refuted_lemma :
  (exists a b, a <> b /\ nk_compare_names a b = Eq) /\
  nk_compare_names [97]%N [254; 255; 0; 97]%N = Eq /\
  nk_compare_names [97]%N [239; 187; 191; 97]%N = Eq /\
  nk_compare_names [97]%N [255; 254; 97; 0]%N = Eq /\
  nk_compare_names [97]%N [254; 255; 0; 97; 0]%N = Eq /\
  nk_compare_names [127]%N [159]%N = Eq /\ nk_compare_names [159]%N [173]%N = Eq /\
  nk_compare_names []%N [254; 255; 216; 0]%N = Eq.
Proof.
  split; [exists [97]%N, [254; 255; 0; 97]%N; split; [discriminate|vm_compute; reflexivity]|].
  repeat split; vm_compute; reflexivity.
Qed.

(* T4.  The order of the texts is not the byte-wise order of the stored strings: PDFDoc (\200) is U+2022 and sorts AFTER
   (\351) = U+00E9, although 0x80 < 0xE9 (finding C18-F5: a tree written in byte-wise order is searched wrongly). *)
Lemma nk_order_not_bytewise_lemma :
  nn_scmp [128]%N [233]%N = Lt /\ nk_compare_names [128]%N [233]%N = Gt /\
  nk_utf8_value [128]%N = [226; 128; 162]%N /\ nk_utf8_value [233]%N = [195; 169]%N.
Proof. repeat split; vm_compute; reflexivity. Qed.
