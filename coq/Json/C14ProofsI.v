(* C14 - proofs, part I: stream data. QPDF::writeJSON writes stream data with Pl_Base64::encode and
   QPDF::importJSON reads it back with Pl_Base64::decode (models: Filters/Filters.v, tied to the real classes
   by C15's correspondence): decoding what was encoded gives the stream bytes back. *)
From QV Require Import Base.Bytes Filters.Filters.
Local Open Scope N_scope.

Ltac Zify.zify_post_hook ::= Z.to_euclidean_division_equations.

Lemma b64_char_facts v : v < 64 ->
  b64_val (b64_char v) = Some v /\ util_is_space (b64_char v) = false.
Proof.
  intros Hv.
  assert (E : forallb (fun v => if v <? 64 then (match b64_val (b64_char v) with Some x => x =? v | None => false end) && negb (util_is_space (b64_char v)) else true) all_bytes = true)
    by (vm_compute; reflexivity).
  pose proof (byte_sweep _ E v ltac:(lia)) as Hs. cbv beta in Hs. replace (v <? 64) with true in Hs by (symmetry; apply N.ltb_lt; lia).
  apply andb_true_iff in Hs. destruct Hs as [H1 H2]. apply negb_true_iff in H2.
  destruct (b64_val (b64_char v)); [|discriminate]. apply N.eqb_eq in H1. subst. split; [reflexivity|assumption].
Qed.

Lemma b64_word v : v / 262144 * 262144 + (v / 4096) mod 64 * 4096 + (v / 64) mod 64 * 64 + v mod 64 = v.
Proof. lia. Qed.

Lemma b64_bytes3 a b c : a < 256 -> b < 256 -> c < 256 -> let v := a * 65536 + b * 256 + c in
  (v / 65536) mod 256 = a /\ (v / 256) mod 256 = b /\ v mod 256 = c.
Proof. intros Ha Hb Hc v. unfold v. repeat split; lia. Qed.

Lemma b64_low_zero2 a b : let v := a * 65536 + b * 256 in v mod 64 = 0.
Proof. intros v. unfold v. lia. Qed.
Lemma b64_low_zero1 a : let v := a * 65536 in (v / 64) mod 64 = 0 /\ v mod 64 = 0.
Proof. intros v. unfold v. split; lia. Qed.

(* four non-space characters fill the buffer and are decoded as one group *)
Lemma b64_loop_group c0 c1 c2 c3 t out_rev o pad :
  util_is_space c0 = false -> util_is_space c1 = false -> util_is_space c2 = false -> util_is_space c3 = false ->
  b64_group [c0; c1; c2; c3] = Some (o, pad) ->
  b64_decode_loop (c0 :: c1 :: c2 :: c3 :: t) [] false out_rev = b64_decode_loop t [] pad (rev_append o out_rev).
Proof.
  intros S0 S1 S2 S3 G. cbn [b64_decode_loop]. rewrite S0. cbn [app length]. change (N.of_nat 1 =? 4) with false. cbv iota.
  rewrite S1. cbn [app length]. change (N.of_nat 2 =? 4) with false. cbv iota.
  rewrite S2. cbn [app length]. change (N.of_nat 3 =? 4) with false. cbv iota.
  rewrite S3. cbn [app length]. change (N.of_nat 4 =? 4) with true. cbv iota. rewrite G. reflexivity.
Qed.

Lemma b64_loop_encode : forall n d out_rev, (length d <= n)%nat -> Forall (fun b => b < 256) d ->
  b64_decode_loop (b64_encode d) [] false out_rev = (rev' (rev d ++ out_rev), false).
Proof.
  induction n as [|n IH]; intros d out_rev Hn Hd.
  - destruct d; [reflexivity|simpl in Hn; lia].
  - destruct d as [|a [|b [|c t]]].
    + reflexivity.
    + (* one byte: two characters and "==" *)
      inversion Hd as [|? ? Ha _]; subst. cbn [b64_encode]. cbv zeta.
      set (v := a * 65536).
      assert (H0 : v / 262144 < 64) by (unfold v; lia). assert (H1 : (v / 4096) mod 64 < 64) by (apply N.mod_lt; discriminate).
      destruct (b64_char_facts _ H0) as [V0 S0]. destruct (b64_char_facts _ H1) as [V1 S1].
      rewrite (b64_loop_group _ _ 61 61 [] out_rev [a] true S0 S1 eq_refl eq_refl).
      * reflexivity.
      * unfold b64_group. rewrite V0, V1. cbn. change (Pos.to_nat 2) with 2%nat. cbn [firstn].
        destruct (b64_low_zero1 a) as [Z1 Z2]. fold v in Z1, Z2.
        replace (v / 262144 * 262144 + (v / 4096) mod 64 * 4096 + 0 + 0) with v
          by (rewrite <- (b64_word v) at 1; rewrite Z1, Z2; lia).
        destruct (b64_bytes3 a 0 0 Ha ltac:(lia) ltac:(lia)) as (B1 & _). cbv zeta in B1.
        replace (a * 65536 + 0 * 256 + 0) with v in B1 by (unfold v; lia). rewrite B1. reflexivity.
    + inversion Hd as [|? ? Ha Hd1]; subst. inversion Hd1 as [|? ? Hb _]; subst. cbn [b64_encode]. cbv zeta.
      set (v := a * 65536 + b * 256).
      assert (H0 : v / 262144 < 64) by (unfold v; lia). assert (H1 : (v / 4096) mod 64 < 64) by (apply N.mod_lt; discriminate).
      assert (H2 : (v / 64) mod 64 < 64) by (apply N.mod_lt; discriminate).
      destruct (b64_char_facts _ H0) as [V0 S0]. destruct (b64_char_facts _ H1) as [V1 S1]. destruct (b64_char_facts _ H2) as [V2 S2].
      rewrite (b64_loop_group _ _ _ 61 [] out_rev [a; b] true S0 S1 S2 eq_refl).
      * reflexivity.
      * unfold b64_group. rewrite V0, V1, V2. cbn. change (Pos.to_nat 1) with 1%nat. cbn [firstn].
        pose proof (b64_low_zero2 a b) as Z2. cbv zeta in Z2. fold v in Z2.
        replace (v / 262144 * 262144 + (v / 4096) mod 64 * 4096 + (v / 64) mod 64 * 64 + 0) with v
          by (rewrite <- (b64_word v) at 1; rewrite Z2; lia).
        destruct (b64_bytes3 a b 0 Ha Hb ltac:(lia)) as (B1 & B2 & _). cbv zeta in B1, B2.
        replace (a * 65536 + b * 256 + 0) with v in B1, B2 by (unfold v; lia). rewrite B1, B2. reflexivity.
    + inversion Hd as [|? ? Ha Hd1]; subst. inversion Hd1 as [|? ? Hb Hd2]; subst. inversion Hd2 as [|? ? Hc Ht]; subst.
      cbn [b64_encode]. cbv zeta. set (v := a * 65536 + b * 256 + c).
      assert (H0 : v / 262144 < 64) by (unfold v; lia). assert (H1 : (v / 4096) mod 64 < 64) by (apply N.mod_lt; discriminate).
      assert (H2 : (v / 64) mod 64 < 64) by (apply N.mod_lt; discriminate). assert (H3 : v mod 64 < 64) by (apply N.mod_lt; discriminate).
      destruct (b64_char_facts _ H0) as [V0 S0]. destruct (b64_char_facts _ H1) as [V1 S1].
      destruct (b64_char_facts _ H2) as [V2 S2]. destruct (b64_char_facts _ H3) as [V3 S3].
      rewrite (b64_loop_group _ _ _ _ (b64_encode t) out_rev [a; b; c] false S0 S1 S2 S3).
      * rewrite IH by (try assumption; simpl in Hn; lia). cbn [rev rev_append]. rewrite <- !app_assoc. reflexivity.
      * unfold b64_group. rewrite V0, V1, V2, V3. cbn. rewrite (b64_word v).
        destruct (b64_bytes3 a b c Ha Hb Hc) as (B1 & B2 & B3). cbv zeta in B1, B2, B3. fold v in B1, B2, B3.
        rewrite B1, B2, B3. reflexivity.
Qed.

(* Pl_Base64::decode (Pl_Base64::encode d) = d *)
Lemma base64_roundtrip_lemma : forall d, Forall (fun b => b < 256) d -> b64_decode [b64_encode d] = (d, false).
Proof.
  intros d Hd. unfold b64_decode. cbn [concat]. rewrite app_nil_r.
  rewrite (b64_loop_encode (length d) d [] (le_n _) Hd). rewrite app_nil_r, rev'_rev, rev_involutive. reflexivity.
Qed.
