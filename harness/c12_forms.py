# C12, clause "form fields of copied pages stay attached to the output's interactive form with their values and without
# name clashes between files": generated form documents x page-selection jobs, judged by an oracle on the output's
# object graph (read through qpdf --json-output, like the rest of the C12 CLI part).
#
# Field shapes (ISO 32000-1 12.7.3): a terminal field merged with its widget; a named non-terminal field with named
# terminal kids; a top-level grouping node WITHOUT /T (partial name optional) whose kids carry the names; a terminal field
# with two widget kids on different pages.  The fully qualified name of a field is the /T values along its /Parent chain
# joined by '.', nodes without /T contributing nothing (12.7.3.2).
import os, re
import common, pdfgen
from pdfgen import Name, Ref, Str, Stream, D, N


def form_doc(npages, tag, rng, shapes):
    d = pdfgen.page_doc(npages, marker=tag, kids_levels=(2 if npages > 3 else 1))
    pages = []
    import c12
    objs = {(n, 0): o for n, o in d.objects.items()}
    c12.walk_pages(objs, d.objects[1][b"Pages"], pages)
    fields = []
    truth = {k: [] for k in range(1, npages + 1)}       # page -> [(fq name, value)]
    annots = {k: [] for k in range(1, npages + 1)}

    def widget(page_k, extra):
        w = D(Type=N("Annot"), Subtype=N("Widget"), Rect=[10, 10, 100, 30], P=pages[page_k - 1])
        w.update(extra)
        r = d.add(w)
        annots[page_k].append(r)
        return r
    for k in range(1, npages + 1):
        for shape in shapes:
            val = Str(("%s:%s:p%d" % (tag, shape, k)).encode())
            if shape == "merged":
                widget(k, {b"FT": N("Tx"), b"T": Str(b"m%d" % k), b"V": val})
                fields.append(annots[k][-1])
                truth[k].append(("m%d" % k, val.b))
            elif shape == "named-parent":
                par = d.add(None)
                kid = widget(k, {b"FT": N("Tx"), b"T": Str(b"kid"), b"V": val, b"Parent": par})
                d.objects[par.n] = D(T=Str(b"np%d" % k), Kids=[kid])
                fields.append(par)
                truth[k].append(("np%d.kid" % k, val.b))
            elif shape == "unnamed-parent":
                par = d.add(None)
                k1 = widget(k, {b"FT": N("Tx"), b"T": Str(b"p%dfirst" % k), b"V": val, b"Parent": par})
                k2 = widget(k, {b"FT": N("Tx"), b"T": Str(b"p%dsecond" % k), b"V": Str(val.b + b"#2"), b"Parent": par})
                d.objects[par.n] = D(Kids=[k1, k2])         # grouping node: no /T
                fields.append(par)
                truth[k].append(("p%dfirst" % k, val.b))
                truth[k].append(("p%dsecond" % k, val.b + b"#2"))
            elif shape == "nested-unnamed":
                top = d.add(None)
                mid = d.add(None)
                leaf = widget(k, {b"FT": N("Tx"), b"T": Str(b"leaf"), b"V": val, b"Parent": mid})
                d.objects[mid.n] = D(T=Str(b"mid%d" % k), Kids=[leaf], Parent=top)
                d.objects[top.n] = D(Kids=[mid])
                fields.append(top)
                truth[k].append(("mid%d.leaf" % k, val.b))
    for k in range(1, npages + 1):
        d.objects[pages[k - 1].n][b"Annots"] = list(annots[k])
    d.objects[1][b"AcroForm"] = d.add(D(Fields=fields, DA=Str(b"/F1 12 Tf 0 g")))
    return d, truth


def res(objs, v, depth=0):
    while isinstance(v, Ref) and depth < 50:
        v = objs.get((v.n, v.g))
        depth += 1
    return v


def analyse(path):
    """returns (per page [(fq name, value, terminal field key)], attached field keys, problems)"""
    import c12
    rc, out, err = common.run_qpdf([path, "--json-output", "--json-stream-data=inline", "--decode-level=generalized", "-"])
    if rc not in (0, 3):
        return None
    objs, trailer, meta = pdfgen.load_qjson(out.decode("utf-8"))
    root = objs[(trailer[b"Root"].n, trailer[b"Root"].g)]
    pages = []
    c12.walk_pages(objs, root[b"Pages"], pages)
    af = res(objs, root.get(b"AcroForm"))
    attached = set()

    def walk(ref, depth):
        if not isinstance(ref, Ref) or (ref.n, ref.g) in attached or depth > 40:
            return
        attached.add((ref.n, ref.g))
        node = res(objs, ref)
        if isinstance(node, dict):
            for kid in res(objs, node.get(b"Kids")) or []:
                walk(kid, depth + 1)
    if isinstance(af, dict):
        for f in res(objs, af.get(b"Fields")) or []:
            walk(f, 0)
    per_page = []
    for p in pages:
        pg = objs[(p.n, p.g)]
        ws = []
        for a in res(objs, pg.get(b"Annots")) or []:
            w = res(objs, a)
            if not isinstance(w, dict) or w.get(b"Subtype") != Name(b"Widget") or not isinstance(a, Ref):
                continue
            # terminal field: the widget itself if it has /T, else its parent chain's first node with /T ... (merged or separate)
            names = []
            cur, cur_ref = w, a
            term = None
            seen = 0
            val = None
            while isinstance(cur, dict) and seen < 40:
                t = res(objs, cur.get(b"T"))
                if t is not None:
                    tb = t.b if isinstance(t, Str) else (t[1].encode("utf-8") if isinstance(t, tuple) else b"?")
                    names.append(tb.decode("latin-1"))
                    if term is None:
                        term = (cur_ref.n, cur_ref.g)
                if val is None and cur.get(b"V") is not None:
                    v = res(objs, cur.get(b"V"))
                    val = v.b if isinstance(v, Str) else (v[1].encode("utf-8") if isinstance(v, tuple) else None)
                par = cur.get(b"Parent")
                if not isinstance(par, Ref):
                    break
                cur_ref, cur = par, res(objs, par)
                seen += 1
            ws.append((".".join(reversed(names)), val, term, (a.n, a.g)))
        per_page.append(ws)
    return per_page, attached, objs


def part_forms(chk):
    rng = chk.rng
    wd = common.workdir("C12-forms")
    quick = chk.tier == "quick"
    shapesets = [["merged", "unnamed-parent"], ["named-parent", "nested-unnamed"], ["merged", "named-parent", "unnamed-parent", "nested-unnamed"]]
    cases = []
    for si, shapes in enumerate(shapesets if quick else shapesets * 3):
        np_ = rng.choice([2, 3]) if quick else rng.choice([2, 3, 5])
        fa, ta = form_doc(np_, "A", rng, shapes)
        fb, tb = form_doc(np_, "B", rng, shapes)          # same template, other values: every name collides
        pa = os.path.join(wd, "fa%d.pdf" % si)
        pb = os.path.join(wd, "fb%d.pdf" % si)
        open(pa, "wb").write(pdfgen.write_classic(fa)[0])
        open(pb, "wb").write(pdfgen.write_classic(fb)[0])
        z = str(np_)
        jobs = [
            ([pa, "--pages", pa, pb, "--"], [("A", k) for k in range(1, np_ + 1)] + [("B", k) for k in range(1, np_ + 1)]),
            ([pa, "--pages", ".", "1,1", "--"], [("A", 1), ("A", 1)]),
            ([pa, "--collate", "--pages", pa, pb, "--"], [x for k in range(1, np_ + 1) for x in (("A", k), ("B", k))]),
            ([pa, "--pages", pa, z, pb, "1-" + z, "--"], [("A", np_)] + [("B", k) for k in range(1, np_ + 1)]),
            ([pb, "--pages", pa, "1", pb, "1", pa, "1", "--"], [("A", 1), ("B", 1), ("A", 1)]),
            ([pa, "--pages", pa, "1", "--"], [("A", 1)]),
        ]
        for ji, (args, want) in enumerate(jobs):
            cases.append((si, ji, args, want, {"A": ta, "B": tb}))

    def runcase(c):
        si, ji, args, want, truth = c
        out = os.path.join(wd, "out%d_%d.pdf" % (si, ji))
        rc, so, se = common.run_qpdf(args + ["--static-id", out])
        return rc, se, (analyse(out) if rc in (0, 3) else None)
    results = common.par_map(runcase, cases)
    nontriv = set()
    for (si, ji, args, want, truth), (rc, se, an) in zip(cases, results):
        desc = {"argv": ["qpdf"] + [a.replace(wd + "/", "") for a in args] + ["out.pdf"], "form_shapes": shapesets[si % len(shapesets)]}

        def fail(why, **kw):
            chk.violation(dict({"kind": "property-fails-on-implementation", "part": "cli-forms", "case": desc, "why": why,
                                "exit": rc, "stderr": se.decode("latin-1")[-300:]}, **kw), signature="C12:forms:" + why[:40])
        if rc != 0 or an is None:
            fail("form document refused, warned or unreadable")
            continue
        per_page, attached, objs = an
        if len(per_page) != len(want):
            fail("page count differs", expected=len(want), got=len(per_page))
            continue
        by_name = {}
        ok = True
        for pi, ((tag, k), ws) in enumerate(zip(want, per_page)):
            exp_vals = sorted(v for _, v in truth[tag][k])
            got_vals = sorted((v or b"") for _, v, _, _ in ws)
            if exp_vals != got_vals:
                fail("field values of a copied page changed or were lost", page=pi + 1, expected=[v.decode("latin-1") for v in exp_vals],
                     got=[v.decode("latin-1") for v in got_vals])
                ok = False
                break
            for name, v, term, wkey in ws:
                if term is None or term not in attached or wkey not in attached:
                    fail("a widget of a copied page is not attached to the output's /AcroForm", page=pi + 1, field=name)
                    ok = False
                    break
                by_name.setdefault(name, set()).add(term)
            if not ok:
                break
        if not ok:
            continue
        clashes = {n: sorted(t) for n, t in by_name.items() if len(t) > 1}
        if clashes:
            fail("name clash: different fields share a fully qualified name", clashes={n: ["%d %d" % x for x in t] for n, t in list(clashes.items())[:4]})
            continue
        nontriv.add((si, ji))
    chk.count("cli-forms", len(cases), nontriv, samples=[{"argv": [a.replace(wd + "/", "") for a in cases[0][2]]}])
