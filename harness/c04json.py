# C04, qpdf-JSON import part: hostile qpdf JSON (v2) documents through QPDF::createFromJSON / QPDF::updateFromJSON in process
# (the TYPE of whatever is thrown is observed: only QPDFExc / std::runtime_error are documented) and through the CLI
# (--json-input, --update-from-json: exit 2/3 with a message, never a logic / internal error, signal or sanitizer report).
# The CLI prints EVERY std::exception as `qpdf: <what>` with exit 2, so the type of an exception is only visible in process:
# the in-process part is the oracle for "never a logic error", the CLI part for signals, sanitizer reports, hangs and the
# exit-status / message discipline.
#
# Two input families:
#  (A) documents rendered from an ABSTRACT description - a sequence of "obj:n g R" entries whose members are one of
#      value = reference (to a stream / non-stream defined earlier, defined later, never defined, the object itself, an object of
#      the file being updated), value = direct object (accepted or reported by makeObject), stream (dictionary or not, with /
#      without "dict", "data", "datafile", members of the wrong type), ignored keys; value / stream / both / neither / twice;
#      bad entries; duplicate object keys in several spellings - so that the same description goes to the extracted model
#      (Sys/Guards.v c4_import_json: stream-ness of every object at the moment a member is processed, the reactor's test in
#      front of QPDF::replaceObject, the library's precondition, what importJSON translates).  Compared: exception class,
#      number of "the value of an object may not be an indirect object reference" reports, which objects are streams afterwards.
#  (B) texts from a grammar of the format with every kind of JSON value in every position, wrong types, duplicate keys, bad
#      object keys, bad versions, huge numbers, deep nesting, invalid UTF-8, lone surrogates, truncation: judged by the property
#      alone (documented exception type / exit status, no crash, no sanitizer report, CPU and output limits).
import json, os, re
import common, pdfgen, c04guards

ALLOWED = ("none", "QPDFExc", "runtime")


def jstr(s):
    return json.dumps(s)


# ------------------------------------------------------------------ (A) abstract documents

DIRECT_OK = ['null', 'true', 'false', '0', '-7', '3.25', '-0.5', '99999999999999999999', '123456789012345678901234567890.5', '"u:text"', '"u:"',
             '"b:414243"', '"b:"', '"/Name"', '"/"', '"n:/Na#6de"', '[]', '{}', '[1, "2 0 R", ["9 0 R", null]]',
             '{"/K": "3 0 R", "/L": [1, 2, {"/M": "/N"}]}', '{"/Type": "/XObject", "/Length": 12}', '"u:\\ud83d\\ude00 \\u00e9"']
DIRECT_BAD = ['"hello"', '""', '"0 0 R"', '"1 0 r"', '"b:4x"', '"b:414"', '"n:x"', '"R 1 0"', '"4 0 R "', '[1, "nope"]', '{"/K": "nope"}']


def gen_abstract(rng, mode):
    """one abstract document: (frame, entries, base) ; entries: list of dicts"""
    base_streams = [(4, 0), (6, 0)] if mode == "u" else []
    base_plain = [(1, 0), (2, 0), (3, 0), (5, 0), (7, 0)] if mode == "u" else []
    n_ent = rng.randrange(1, 7)
    # plan: object numbers and whether the entry (first) makes the object a stream
    plan = []
    for _ in range(n_ent):
        r = rng.random()
        if mode == "u" and r < 0.35:
            og = rng.choice(base_streams + base_plain)
        elif plan and r < 0.5:
            og = rng.choice(plan)[0]              # the same object again (duplicate key, possibly another spelling)
        else:
            og = (rng.randrange(8, 14), rng.choice([0, 0, 0, 1]))
        plan.append((og, rng.random() < 0.4))
    entries = []
    for pos, (og, want_stream) in enumerate(plan):
        r = rng.random()
        if r < 0.03:
            entries.append({"bad": rng.choice(['"obj:%d %d R": 5' % og, '"obj:%d %d R": [1]' % og, '"obj:x": {"value": 1}', '"obj:0 0 R": {"value": 1}',
                                               '"foo": {"value": 1}', '"obj:%d %d": {"value": 1}' % og, '"trailer": 7', '"trailer": {"stream": {}}',
                                               '"trailer": {}', '"obj:%d %d R": "1 0 R"' % og])})
            continue
        members = []

        def ref_member():
            earlier = [p[0] for p in plan[:pos]]
            later = [p[0] for p in plan[pos + 1:]]
            cands = earlier * 2 + later + base_streams * 2 + base_plain + [og, og, (99, 0), (4, 1)]
            t = rng.choice(cands)
            sp = rng.choice(["%d %d R", "%d %d R", "%d  %d R", "0%d %d R", "%d %d   R"]) % t
            return ("r.%d.%d" % t, '"value": %s' % jstr(sp))

        def direct_member():
            if rng.random() < 0.9:
                return ("d.1", '"value": %s' % rng.choice(DIRECT_OK))
            return ("d.0", '"value": %s' % rng.choice(DIRECT_BAD))

        def stream_member():
            r = rng.random()
            if r < 0.04:
                return ("s.00000", '"stream": %s' % rng.choice(['5', '"x"', '[]', 'null', '"4 0 R"']))
            has_dict = rng.random() < 0.95
            r = rng.random()
            has_data = r < 0.8 or 0.88 <= r < 0.94
            has_file = 0.8 <= r < 0.94
            suberr = False
            parts = []
            if has_dict:
                if rng.random() < 0.05:
                    parts.append('"dict": %s' % rng.choice(['5', '[]', '"x"', 'null'])); suberr = True
                else:
                    parts.append('"dict": %s' % rng.choice(['{}', '{"/Filter": "/FlateDecode"}', '{"/Length": 5, "/X": "1 0 R"}', '{"/DecodeParms": null}']))
            if has_data:
                if rng.random() < 0.05:
                    parts.append('"data": %s' % rng.choice(['5', '[]', 'null', '{}'])); suberr = True
                else:
                    parts.append('"data": %s' % rng.choice(['""', '"QlQgRVQK"', '"eJwDAAAAAAE="', '"!!!!"', '"QQ"']))
            if has_file:
                if rng.random() < 0.3:
                    parts.append('"datafile": 7'); suberr = True
                else:
                    parts.append('"datafile": "/nonexistent/c4-json-data"')
            if rng.random() < 0.2:
                parts.append('"other": [1, 2]')
            rng.shuffle(parts)
            return ("s.1%d%d%d%d" % (has_dict, has_data, has_file, suberr), '"stream": {%s}' % ", ".join(parts))
        # shape of the entry: value / stream / both / neither / twice, plus ignored keys
        shape = rng.random()
        if shape < 0.78:
            members.append(stream_member() if want_stream else (ref_member() if rng.random() < 0.3 else direct_member()))
        elif shape < 0.84:
            a = [stream_member(), ref_member() if rng.random() < 0.6 else direct_member()]
            rng.shuffle(a)
            members += a
        elif shape < 0.88:
            members += [ref_member(), ref_member() if rng.random() < 0.5 else direct_member()]
        elif shape < 0.93:
            members += [stream_member(), stream_member()]
        # else: neither
        if rng.random() < 0.2:
            members.insert(rng.randrange(len(members) + 1), ("i", '"comment": {"value": "4 0 R"}'))
        key = rng.choice(["obj:%d %d R", "obj:%d %d R", "obj:%d %d R", "obj:0%d %d R", "obj:%d  %d R"]) % og
        entries.append({"og": og, "key": key, "members": members})
    # frame: create needs versions and a trailer
    frame = {"err": False, "meta": None, "trailer": None}
    r = rng.random()
    if mode == "c":
        meta = '"jsonversion": 2, "pdfversion": "1.3"'
        trailer = '"trailer": {"value": {"/Root": "1 0 R"}}'
        if r < 0.03:
            meta = '"jsonversion": 2'; frame["err"] = True
        elif r < 0.06:
            meta = '"jsonversion": 3, "pdfversion": "1.3"'; frame["err"] = True
        elif r < 0.09:
            trailer = None; frame["err"] = True
        elif r < 0.12:
            meta = '"jsonversion": 2, "pdfversion": "1.x"'; frame["err"] = True
    else:
        meta = '"jsonversion": 2'
        trailer = None
        if r < 0.04:
            meta = '"pdfversion": "1.5"'; frame["err"] = True
        elif r < 0.08:
            meta = '"jsonversion": "2"'; frame["err"] = True
        elif r < 0.2:
            trailer = '"trailer": {"value": {"/Root": "1 0 R", "/Extra": "4 0 R"}}'
    frame["meta"], frame["trailer"] = meta, trailer
    return frame, entries, (base_streams if mode == "u" else [])


def aimed_abstract(mode):
    """the case splits of JSONReactor::replaceObject one by one: value = reference to X, for every kind of X"""
    out = []
    S = ("s.11100", '"stream": {"dict": {}, "data": "QlQgRVQK"}')

    def doc(entries):
        frame = {"err": False, "meta": '"jsonversion": 2, "pdfversion": "1.3"' if mode == "c" else '"jsonversion": 2',
                 "trailer": '"trailer": {"value": {"/Root": "1 0 R"}}' if mode == "c" else None}
        ents = [{"og": og, "key": "obj:%d %d R" % og, "members": ms} for og, ms in entries]
        return frame, ents, ([(4, 0), (6, 0)] if mode == "u" else [])

    def ref(t):
        return ("r.%d.%d" % t, '"value": "%d %d R"' % t)
    D1 = ("d.1", '"value": {"/K": 1}')
    out.append(("ref-to-stream-defined-earlier", doc([((8, 0), [S]), ((9, 0), [ref((8, 0))])])))
    out.append(("ref-to-stream-defined-later", doc([((9, 0), [ref((8, 0))]), ((8, 0), [S])])))
    out.append(("ref-to-nonstream-defined-earlier", doc([((8, 0), [D1]), ((9, 0), [ref((8, 0))])])))
    out.append(("ref-to-missing", doc([((9, 0), [ref((99, 0))])])))
    out.append(("ref-to-self-nonstream", doc([((9, 0), [ref((9, 0))])])))
    out.append(("ref-to-self-stream", doc([((8, 0), [S]), ((8, 0), [ref((8, 0))])])))
    out.append(("ref-to-self-stream-same-entry", doc([((8, 0), [S, ref((8, 0))])])))
    out.append(("ref-then-stream-same-entry", doc([((8, 0), [S]), ((9, 0), [ref((8, 0)), S])])))
    out.append(("stream-redefined-as-value-then-referenced", doc([((8, 0), [S]), ((8, 0), [D1]), ((9, 0), [ref((8, 0))])])))
    out.append(("two-refs-to-streams", doc([((8, 0), [S]), ((9, 0), [S]), ((10, 0), [ref((8, 0))]), ((11, 0), [ref((9, 0))])])))
    out.append(("ref-other-generation", doc([((8, 0), [S]), ((9, 0), [ref((8, 1))])])))
    # the flags of an entry across several "stream" members: a new stream must end up with data (C04-F-json-dup-stream)
    S0 = ("s.11000", '"stream": {"dict": {}}')
    # (object 8 is made reachable from the catalog, so that writing the document touches it)
    CAT = [((1, 0), [("d.1", '"value": {"/Type": "/Catalog", "/Pages": "2 0 R", "/X": "8 0 R"}')]),
           ((2, 0), [("d.1", '"value": {"/Type": "/Pages", "/Kids": [], "/Count": 0}')])]
    out.append(("new-stream-without-data", doc(CAT + [((8, 0), [S0])])))
    out.append(("new-stream-twice-without-data", doc(CAT + [((8, 0), [S0, S0])])))
    out.append(("new-stream-data-in-second-member", doc(CAT + [((8, 0), [S0, S])])))
    out.append(("new-stream-data-in-first-member", doc(CAT + [((8, 0), [S, S0])])))
    out.append(("value-then-stream-twice-without-data", doc(CAT + [((8, 0), [D1, S0, S0])])))
    if mode == "u":
        out.append(("ref-to-stream-of-the-file", doc([((9, 0), [ref((4, 0))])])))
        out.append(("file-object-becomes-ref-to-file-stream", doc([((5, 0), [ref((6, 0))])])))
        out.append(("file-stream-becomes-ref-to-other-file-stream", doc([((4, 0), [ref((6, 0))])])))
        out.append(("file-stream-ref-to-itself", doc([((4, 0), [ref((4, 0))])])))
        out.append(("ref-to-nonstream-of-the-file", doc([((9, 0), [ref((5, 0))])])))
        out.append(("file-stream-replaced-then-referenced", doc([((4, 0), [D1]), ((9, 0), [ref((4, 0))])])))
        out.append(("existing-stream-updated-then-referenced", doc([((4, 0), [("s.11000", '"stream": {"dict": {"/X": 1}}')]), ((9, 0), [ref((4, 0))])])))
    return out


def render(frame, entries):
    items = []
    for e in entries:
        if "bad" in e:
            items.append(e["bad"])
        else:
            items.append('%s: {%s}' % (jstr(e["key"]), ", ".join(m[1] for m in e["members"])))
    if frame["trailer"]:
        items.append(frame["trailer"])
    return '{"qpdf": [{%s}, {%s}]}' % (frame["meta"], ",\n  ".join(items))


def model_line(frame, entries, tbl):
    es = []
    for e in entries:
        if "bad" in e:
            es.append("bad")
        else:
            es.append("o/%d/%d/%s" % (e["og"][0], e["og"][1], ",".join(m[0] for m in e["members"]) or "-"))
    return "c4jimp %s %d %s" % (",".join("%d.%d" % t for t in tbl) or "-", 1 if frame["err"] else 0, ";".join(es) or "-")


def base_pdf():
    return pdfgen.write_classic(pdfgen.page_doc(2, marker="J"))[0]


# ------------------------------------------------------------------ (B) hostile texts from a grammar

SCALARS = ['null', 'true', 'false', '0', '-0', '1', '-1', '2', '2.0', '2e0', '1e999', '-1e-999', '0.000000000000000000000001', '9223372036854775807',
           '9223372036854775808', '-9223372036854775809', '99999999999999999999999999999999999999', '1E+400', '""', '"2"', '"1 0 R"', '"4 0 R"', '"99 0 R"',
           '"2147483647 0 R"', '"2147483648 0 R"', '"99999999999999999999 0 R"', '"1 99999999999 R"', '"1 65535 R"', '"u:x"', '"b:00"', '"/N"',
           '"n:/a b"', '"n:/A#"', '"n:("', '"n:"', '"\\ud800"', '"\\udc00\\ud800"', '"u:\\ud83d"', '"\\u0000"', '"u:\\u0000x"', '"/A\\u0000B"']
RAW_BAD = [b'"\xff\xfe"', b'"u:\xc3\x28"', b'"/\xed\xa0\x80"', b'"\xf4\x90\x80\x80"', b'"b:\x80"', b'"\xc0\xaf"', b'"u:\xe2\x82"']
KEYS = ['qpdf', 'jsonversion', 'pdfversion', 'maxobjectid', 'pushedinheritedpageresources', 'calledgetallpages', 'trailer', 'value', 'stream', 'dict',
        'data', 'datafile', 'obj:1 0 R', 'obj:4 0 R', 'obj:04 0 R', 'obj:4 0 R ', 'obj:4 1 R', 'obj:0 0 R', 'obj:-1 0 R', 'obj:2147483647 0 R',
        'obj:2147483648 0 R', 'obj:99999999999999999999 0 R', 'obj:1 65536 R', 'obj:', 'obj:1 0', 'n:/Type', 'n:/a b', 'n:(', '/Type', '/Pages', '/Kids',
        '/Contents', '/Length', '/Filter', '/DecodeParms', '/Root', '', '\\u0000', 'u:k']

SKELETON = ('{"qpdf": [{"jsonversion": 2, "pdfversion": "1.3", "maxobjectid": 5, "pushedinheritedpageresources": false, "calledgetallpages": false}, '
            '{"obj:1 0 R": {"value": {"/Type": "/Catalog", "/Pages": "2 0 R"}}, '
            '"obj:2 0 R": {"value": {"/Type": "/Pages", "/Kids": ["3 0 R"], "/Count": 1}}, '
            '"obj:3 0 R": {"value": {"/Type": "/Page", "/Parent": "2 0 R", "/MediaBox": [0, 0, 612, 792], "/Contents": "4 0 R", "/Resources": {}}}, '
            '"obj:4 0 R": {"stream": {"data": "QlQgRVQK", "dict": {"/Filter": "/FlateDecode", "/DecodeParms": {"/Predictor": 12, "/Columns": 4}}}}, '
            '"obj:5 0 R": {"value": ["4 0 R", 1.5, "u:t", "b:ff", null, true]}, '
            '"trailer": {"value": {"/Root": "1 0 R", "/Size": 6}}}]}')
UPD_SKELETON = ('{"qpdf": [{"jsonversion": 2, "pushedinheritedpageresources": true, "calledgetallpages": true}, '
                '{"obj:4 0 R": {"stream": {"dict": {"/X": "6 0 R"}}}, "obj:5 0 R": {"value": {"/Type": "/Page", "/Parent": "2 0 R", "/Contents": ["4 0 R", "6 0 R"]}}, '
                '"obj:6 0 R": {"stream": {"data": "QlQgRVQK", "dict": {}}}, "obj:9 0 R": {"value": "/New"}}]}')


def rnd_value(rng, depth=0):
    r = rng.random()
    if depth > 3 or r < 0.55:
        return rng.choice(SCALARS)
    if r < 0.75:
        return "[" + ", ".join(rnd_value(rng, depth + 1) for _ in range(rng.randrange(0, 4))) + "]"
    return "{" + ", ".join("%s: %s" % (jstr(rng.choice(KEYS)) if rng.random() < 0.9 else '"\\ud800"', rnd_value(rng, depth + 1))
                           for _ in range(rng.randrange(0, 4))) + "}"


def positions(text):
    """(start, end) of every JSON value and every key of a text that Python can parse: by a small scanner"""
    vals, keys = [], []
    i, n = 0, len(text)
    stack = []

    def skip_ws(i):
        while i < n and text[i] in " \t\r\n":
            i += 1
        return i

    def scan_value(i):
        i = skip_ws(i)
        st = i
        c = text[i]
        if c == '"':
            i += 1
            while text[i] != '"':
                i += 2 if text[i] == "\\" else 1
            i += 1
        elif c in "[{":
            close = "]" if c == "[" else "}"
            i = skip_ws(i + 1)
            while text[i] != close:
                if c == "{":
                    ks = i
                    i = scan_value(i)
                    keys.append((ks, i))
                    i = skip_ws(i)
                    assert text[i] == ":"
                    i += 1
                i = scan_value(i)
                i = skip_ws(i)
                if text[i] == ",":
                    i = skip_ws(i + 1)
            i += 1
        else:
            while i < n and text[i] not in ",]} \t\r\n":
                i += 1
        vals.append((st, i))
        return i
    scan_value(0)
    return vals, keys


def hostile_texts(rng, count):
    out = []
    skels = [SKELETON, UPD_SKELETON]
    pos = [positions(s) for s in skels]
    deep = lambda k, op, cl: op * k + cl * k
    for n in range(count):
        w = rng.randrange(2)
        text = skels[w]
        vals, keys = pos[w]
        r = rng.random()
        mode = "u" if (w == 1 or rng.random() < 0.25) else "c"
        if r < 0.45:
            a, b = rng.choice(vals)
            text = text[:a] + rnd_value(rng) + text[b:]
            tag = "value-replaced"
        elif r < 0.6:
            a, b = rng.choice(keys)
            text = text[:a] + jstr(rng.choice(KEYS)) + text[b:]
            tag = "key-replaced"
        elif r < 0.68:
            a, b = rng.choice(keys)
            # duplicate the member in front of itself with another value
            text = text[:a] + text[a:b] + ": " + rnd_value(rng) + ", " + text[a:]
            tag = "duplicate-key"
        elif r < 0.76:
            a, b = rng.choice(vals)
            k = rng.choice([3, 40, 498, 499, 500, 501, 600, 5000])
            text = text[:a] + (deep(k, "[", "]") if rng.random() < 0.5 else '{"/K": ' * k + "1" + "}" * k) + text[b:]
            tag = "deep-nesting-%d" % k
        elif r < 0.84:
            a, b = rng.choice(vals)
            text = text.encode()
            text = text[:a] + rng.choice(RAW_BAD) + text[b:]
            tag = "invalid-utf8"
        elif r < 0.9:
            text = text[:rng.randrange(1, len(text))]
            tag = "truncated"
        elif r < 0.95:
            a, b = rng.choice(vals)
            text = text[:a] + rng.choice(["", ",", "]", "}", "[", "{", ":", "tru", "nul", "01", "1.", ".5", "+1", "0x10", "'x'", '"\\x"', '"\\u12"', '"\n"', "/*c*/ 1", "NaN",
                                          "Infinity", "1 2"]) + text[b:]
            tag = "syntax"
        else:
            text = rng.choice(["", " ", "[]", "7", '"x"', "null", "{}", '{"qpdf": {}}', '{"qpdf": []}', '{"qpdf": [{}]}', '{"qpdf": [{}, {}, {}]}', '{"qpdf": [1, 2]}',
                               '{"qpdf": [{"jsonversion": 99999999999999999999}, {}]}', '{"qpdf": [{"jsonversion": 2.5, "pdfversion": "1.3"}, {}]}',
                               '{"qpdf": [{"jsonversion": -2, "pdfversion": 1.3}, {"trailer": {"value": {}}}]}', '\ufeff{}', '{"qpdf": [{"jsonversion": 2, "pdfversion": "9.99999999999999999999"}, {}]}'])
            tag = "frame"
        out.append((tag, mode, text if isinstance(text, bytes) else text.encode("utf-8", "surrogatepass")))
    return out


# ------------------------------------------------------------------ running

def judge(o):
    """driver output -> None when every exception seen has a documented type, else (signature tag, sentence)"""
    kv = dict(x.split("=", 1) for x in o.split() if "=" in x)
    if "exc" not in kv:
        return None
    msg = bytes.fromhex(kv["msg"]).decode("latin-1") if kv.get("msg", "-") != "-" else ""
    for phase, what, cls in (("import", "QPDF::createFromJSON / updateFromJSON", kv["exc"]), ("write", "QPDFWriter::write after the import", kv["write"]),
                             ("walk", "getAllObjects / isStream after the import", kv["streams"][1:] if kv["streams"].startswith("!") else "none")):
        if cls not in ALLOWED and cls != "skipped":
            name = {"logic": "std::logic_error", "bad_alloc": "std::bad_alloc", "other": "an undocumented std::exception", "unknown": "a non-standard exception"}.get(cls, cls)
            return ("%s:%s:%s" % (phase, cls, re.sub(r"[^A-Za-z0-9:]+", "_", msg)[:70]),
                    "internal: %s leaves %s (documented: QPDFExc / std::runtime_error): %s" % (name, what, msg[:200]))
    return None


def run_part(chk, quick, asan_env):
    rng = chk.rng
    wd = os.path.join(common.BUILD, "work", "C04", "json")
    os.makedirs(wd, exist_ok=True)
    model = common.build_extract()
    drv = common.build_drv()
    drv_asan = common.build_drv("asan")
    qpdf_asan = os.path.join(common.REPO_BUILD + "-asan", "qpdf", "qpdf")
    pdf = base_pdf()
    pdfhex = pdf.hex()
    basep = os.path.join(wd, "base.pdf")
    with open(basep, "wb") as f:
        f.write(pdf)
    fails, diffs = [], []

    def save(name, data):
        p = os.path.join(wd, name)
        with open(p, "wb") as f:
            f.write(data)
        return p

    # ---- (A)
    docs = []
    for mode in "cu":
        for tag, (frame, ents, tbl) in aimed_abstract(mode):
            docs.append((tag, mode, frame, ents, tbl))
        for _ in range(400 if quick else 10000):
            frame, ents, tbl = gen_abstract(rng, mode)
            docs.append(("random", mode, frame, ents, tbl))
    texts = [render(frame, ents).encode() for tag, mode, frame, ents, tbl in docs]
    dl = ["c4json %s %s%s" % (mode, t.hex(), " " + pdfhex if mode == "u" else "") for (tag, mode, frame, ents, tbl), t in zip(docs, texts)]
    ml = [model_line(frame, ents, tbl) for tag, mode, frame, ents, tbl in docs]
    douts = c04guards.run_driver_lines(drv, dl, fails, "c4json")
    mouts = common.run_lines(model, ml)
    cats = {}
    for k, ((tag, mode, frame, ents, tbl), t, o, mo) in enumerate(zip(docs, texts, douts, mouts)):
        if o.startswith(("?", "!")):
            p = save("a-%d.json" % k, t)
            fails.append(({"kind": "json", "tag": tag + "/" + mode}, p, "driver (c4json): " + o[:300], None)); continue
        kv = dict(x.split("=", 1) for x in o.split() if "=" in x)
        mw = mo.split()
        mkv = dict(x.split("=", 1) for x in mw[1:])
        cats[mode + ":" + mw[0]] = cats.get(mode + ":" + mw[0], 0) + 1
        j = judge(o)
        if j:
            p = save("a-%d.json" % k, t)
            fails.append(({"kind": "json", "tag": j[0]}, p, j[1] + "   [document `%s`, mode %s]" % (tag, mode),
                          (["--json-input" if mode == "c" else "--update-from-json"], None, t[:600].decode("latin-1"))))
            if kv["exc"] not in ALLOWED:
                continue
        got = "%s refused=%s" % (kv["exc"], kv["refused"])
        exp = "%s refused=%s" % (mw[0], mkv["refused"])
        if kv["exc"] == "none":
            got += " streams=" + ",".join(sorted(kv["streams"].split(","))) if kv["streams"] != "-" else " streams=-"
            exp += " streams=" + ",".join(sorted(mkv["streams"].split(","))) if mkv["streams"] != "-" else " streams=-"
        if got != exp:
            p = save("a-%d.json" % k, t)
            diffs.append(({"kind": "json", "tag": tag + "/" + mode}, p, got, exp, ml[k] + "   |   " + t[:400].decode("latin-1")))
    chk.count("json-import-model", len(dl), set(ml), samples=[{"tag": docs[0][0], "model": ml[0][:200]}])
    chk.cov["parts"]["json-import-model"]["outcome_categories"] = cats

    # ---- (B) in process, plain build: everything; ASan+UBSan build: a sample
    hostile = hostile_texts(rng, 1500 if quick else 40000)
    hl = ["c4json %s %s%s" % (mode, t.hex() or "-", " " + pdfhex if mode == "u" else "") for tag, mode, t in hostile]
    houts = c04guards.run_driver_lines(drv, hl, fails, "c4json")
    hcats = {}
    nontriv = set()
    for k, ((tag, mode, t), o) in enumerate(zip(hostile, houts)):
        if o.startswith(("?", "!")):
            continue                      # already in fails (run_driver_lines stores the line)
        kv = dict(x.split("=", 1) for x in o.split() if "=" in x)
        hcats[tag.split("-")[0] + ":" + kv["exc"]] = hcats.get(tag.split("-")[0] + ":" + kv["exc"], 0) + 1
        if kv["exc"] != "none":
            nontriv.add(t)
        j = judge(o)
        if j:
            p = save("b-%d.json" % k, t)
            fails.append(({"kind": "json", "tag": j[0]}, p, j[1] + "   [hostile text `%s`, mode %s]" % (tag, mode),
                          (["--json-input" if mode == "c" else "--update-from-json"], None, t[:600].decode("latin-1"))))
    chk.count("json-import-hostile", len(hl), nontriv, samples=[{"tag": hostile[0][0], "text": hostile[0][2][:120].decode("latin-1")}])
    chk.cov["parts"]["json-import-hostile"]["outcome_categories"] = hcats
    step = 8 if quick else 4
    al = [l for k, l in enumerate(dl) if docs[k][0] != "random" or k % step == 0] + hl[::step]
    aouts = common.run_lines(drv_asan, al, shards=4, env=asan_env)
    for l, o in zip(al, aouts):
        j = ("asan-driver", "internal: createFromJSON / updateFromJSON under ASan+UBSan: " + o[:200]) if o.startswith(("?", "!")) else judge(o)
        if j:
            p = save("asan-%d.txt" % len(fails), (l + "\n").encode())
            fails.append(({"kind": "json", "tag": j[0]}, p, j[1] + "   [ASan+UBSan driver, line in `input`]", None))
    chk.count("json-import-asan", len(al), ())

    # ---- CLI (ASan+UBSan build): the aimed documents and a sample of both families
    cli = [(docs[k][0], docs[k][1], texts[k]) for k in range(len(docs)) if docs[k][0] != "random"][:: 1 if not quick else 2]
    cli += [(docs[k][0], docs[k][1], texts[k]) for k in range(len(docs)) if docs[k][0] == "random"][:: 100 if quick else 40]
    cli += hostile[:: 130 if quick else 50]

    def runcli(item):
        k, (tag, mode, t) = item
        p = save("cli-%d.json" % k, t)
        args = ["--static-id", "--json-input", p] if mode == "c" else ["--static-id", basep, "--update-from-json=" + p]
        r = c04guards.run_qpdf_capped(qpdf_asan, args, p + ".out.pdf", asan=True)
        return p, args, r
    for (p, args, (rc, so, se, cpu, rss, wall)), (tag, mode, t) in zip(common.par_map(runcli, list(enumerate(cli)), workers=4), cli):
        why = None
        if rc in (-999, -998):
            why = "hang: CPU / output limit"
        elif rc < 0 or rc >= 128 or rc in (98, 99) or c04guards.SAN_RE.search(se):
            why = "signal / sanitizer report rc=%d" % rc
        elif c04guards.INTERNAL_RE.search(se):
            why = "internal: the CLI reports a logic / internal error"
        elif not c04guards.exit_class_ok(rc, se):
            why = "exit status %d does not match the messages" % rc
        if why:
            fails.append(({"kind": "json", "tag": tag + "/" + mode + "/cli"}, p, why, (args, rc, se[-600:].decode("latin-1"))))
    chk.count("json-import-cli-asan", len(cli), ())
    return diffs, fails
