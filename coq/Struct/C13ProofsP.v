(* C13 extension 2 - pages of the OTHER document as insertion operands, first and repeated insertion: the single step in
   the form the history theorem needs (success is part of the hypotheses: the copy made by the call does not fail). *)
From QV Require Import Base.Bytes Struct.PgModel Struct.PgSpec Struct.C13ProofsA Struct.C13ProofsB Struct.PgxSpec Struct.PgxModel Struct.PgxOracle
  Struct.C13ProofsC Struct.C13ProofsD Struct.C13ProofsE Struct.C13ProofsF Struct.C13ProofsG Struct.C13ProofsH Struct.C13ProofsI.
Local Open Scope N_scope.

(* what the destination knows about the page when the call is made:
   - never copied: it is copied by this call;
   - copied before (by copyForeignObject or an earlier insertion) and not null: the memoised local object is used as it is
     now - it has to be a leaf dictionary that still carries the page's marker, and must not be the catalog.
   (A page that is only RESERVED as a null placeholder - another copied object refers to it - is copied by the call as
   well; that case is not covered here.) *)
Definition pgq_operand (w : pg_world) (d : bool) (i : N) : Prop :=
  let dst := pg_get w d in let src := pg_get w (negb d) in
  match pg_omap_find (pd_omap dst) i with
  | None => True
  | Some l =>
      exists dl, pg_lookup (pd_store dst) l = Some (PcObj (PvDict dl)) /\ pgx_leafy dl /\ l <> pd_root dst /\
                 pg_mark (pd_store dst) l = pg_mark (pd_store src) i
  end.

Lemma pgq_type_page_sim : forall d d', pgx_leafy d -> pgx_dsim d d' -> pg_dget d pgk_Type = PvName pgk_Page -> pg_dget d' pgk_Type = PvName pgk_Page.
Proof.
  intros d d' [Lk _] (_ & [E|[E|[E N]]] & _) H; [congruence|exact E|contradiction].
Qed.

(* Pages::insert once the page is a local leaf dictionary l and the tree is flattened: the list gets l (or a copy of l when l
   is already a page) at pos *)
Lemma pgq_insert_local_st : forall p K l dl pos,
  pgx_flat p K -> pd_all p = K -> pgx_posinv p K ->
  pg_lookup (pd_store p) l = Some (PcObj (PvDict dl)) -> pgx_leafy dl -> l <> pd_root p -> (0 <= pos <= pg_len K)%Z ->
  exists p' ni, pg_insert_local p (PvRef l) pos = (p', None) /\ pgx_st p' (pg_list_ins K (Z.to_nat pos) ni) /\ ~ In ni K /\
    pgx_marks p' = pgsp_insert (pgx_marks p) (Z.to_nat pos) (pg_mark (pd_store p) l) /\
    pd_root p' = pd_root p /\ pd_omap p' = pd_omap p /\ pd_reg p' = pd_reg p /\
    (forall j, pg_lookup (pd_store p) j <> None -> pg_lookup (pd_store p') j <> None /\ pg_mark (pd_store p') j = pg_mark (pd_store p) j).
Proof.
  intros p K l dl pos Hf Hall Hpi El Hld Hlroot Hpos.
  pose proof (pgx_inv_of_st p K Hf Hall Hpi) as Hinv.
  pose proof Hf as (pn & dn & Hroot & Hpn & Hkids & Hcount & Hpar & Hpnroot & Hpnk & Hrootk & Hnd & Hleaf & Hinvf).
  assert (Hlpn : l <> pn).
  { intros ->. rewrite Hpn in El. inversion El. subst dl. destruct Hld as [Lk _]. rewrite Hkids in Lk. discriminate. }
  assert (Hpnex : pg_lookup (pd_store p) pn <> None) by (rewrite Hpn; discriminate).
  destruct (pg_insert_local_ok p l pos Hinv) as (p2 & ni & Hrun & Hi2 & Hall2 & Hnin & Hnidup & Hninew & Hr2 & Ho2 & Hg2 & Hmk).
  { rewrite El. discriminate. } { exact Hlroot. } { rewrite Hroot. intros E. inversion E. congruence. }
  { intros d0 x k E. rewrite El in E. discriminate. } { rewrite Hall. exact Hpos. }
  rewrite Hall in *.
  destruct (pgx_insert_local_edit p l pos pn Hroot Hpnex Hlpn) as [Hed Hcopy]; [rewrite Hall; exact Hpos|].
  rewrite Hrun in Hed, Hcopy. cbn [fst] in Hed, Hcopy.
  assert (Hf2 : pgx_flat p2 (pd_all p2)).
  { eapply (pgx_flat_of_inv_edit p p2 K pn Hf Hroot Hi2 Hr2 Hed).
    intros k Hk. rewrite Hall2 in Hk. apply pg_In_ins in Hk; [|unfold pg_len in Hpos; lia].
    destruct Hk as [->|Hk].
    - destruct (in_dec N.eq_dec l K) as [Hin|Hnot].
      + rewrite (Hnidup Hin). destruct (Hcopy dl El) as (d' & Ed' & Hk').
        { destruct Hpi as [Hpf _]. rewrite Hpf. destruct (pg_index K l) eqn:Ei; [discriminate|]. apply pg_index_none in Ei. contradiction. }
        exists d'. split; [exact Ed'|]. destruct Hld as [L1 L2]. split; rewrite Hk' by discriminate; assumption.
      + rewrite (Hninew Hnot). eapply pgx_leafy_edit; [exact Hed|exact Hlpn|exact El|exact Hld].
    - destruct (Hleaf k Hk) as (dk & Ek & Lk). eapply pgx_leafy_edit; [exact Hed| |exact Ek|exact Lk]. intros ->. contradiction. }
  exists p2, ni. split; [exact Hrun|]. split; [rewrite <- Hall2; apply pgx_st_of_inv; assumption|]. split; [exact Hnin|].
  split; [rewrite (pgx_marks_flat_all p2 _ Hf2 eq_refl), Hmk, (pgx_marks_flat_all p K Hf Hall); reflexivity|].
  repeat (split; [assumption|]).
  intros j Hj. split; [eapply pgx_edit_some; eassumption|eapply pgx_edit_mark; eassumption].
Qed.

(* FULL STATEMENT ("insertions of pages from other documents, re-insertion of an already copied page ... agree with the list
   model"), one call: the source's page cache is filled, the copy made by the call does not fail, the source page's
   dictionary (after pushInheritedAttributesToPage) has distinct keys.  Then both documents stay in the invariant, the
   source's list is unchanged and the destination's list gets the page's marker at the requested position. *)
Lemma foreign_page_insert_general_lemma : forall w d i pos Kd Ks di,
  pgx_st (pg_get w d) Kd -> pgx_st (pg_get w (negb d)) Ks -> pd_all (pg_get w (negb d)) <> [] ->
  pg_omap_wf (pg_get w d) -> pgq_operand w d i ->
  pg_lookup (pd_store (pg_get w (negb d))) i = Some (PcObj (PvDict di)) -> pgx_plain di ->
  pg_insertable w d (PhObj (negb d) i) = true -> (0 <= pos <= pg_len Kd)%Z ->
  snd (pg_insert w d (PhObj (negb d) i) pos) = None ->
  (forall s1 di', pg_push (pg_get w (negb d)) false = (s1, None) -> pg_lookup (pd_store s1) i = Some (PcObj (PvDict di')) -> NoDup (map fst di')) ->
  let w' := fst (pg_insert w d (PhObj (negb d) i) pos) in
  exists ni, ~ In ni Kd /\
    pgx_st (pg_get w' d) (pg_list_ins Kd (Z.to_nat pos) ni) /\
    pgx_marks (pg_get w' d) = pgsp_insert (pgx_marks (pg_get w d)) (Z.to_nat pos) (pg_mark (pd_store (pg_get w (negb d))) i) /\
    pgx_st (pg_get w' (negb d)) Ks /\ pgx_marks (pg_get w' (negb d)) = pgx_marks (pg_get w (negb d)).
Proof.
  intros w d i pos Kd Ks di Hstd Hsts Hsall Hwf Hopd Hdi Hpl Hins Hpos Hsucc Hnd.
  set (b := negb d) in *. assert (Hbd : b <> d) by (unfold b; destruct d; discriminate).
  assert (Hbeq : Bool.eqb b d = false) by (apply Bool.eqb_false_iff; exact Hbd).
  assert (Hnorm : pg_norm w (PhObj b i) = PhObj b i) by (unfold pg_norm; rewrite Hdi; reflexivity).
  assert (Hld : pgx_leafy di).
  { unfold pg_insertable in Hins. rewrite Hnorm in Hins.
    assert (Hn : pg_is_null (pd_store (pg_get w b)) (PvRef i) = false) by (unfold pg_is_null; rewrite Hdi; reflexivity).
    destruct (pgx_ins_formula _ _ Hn Hins) as (_ & Ht & Hk & Hc).
    eapply (pgx_insertable_dict (pd_store (pg_get w b)) (PvRef i) di); [cbn [pg_rv]; rewrite Hdi; reflexivity|exact Hpl|exact Ht|exact Hk|exact Hc]. }
  destruct (pgx_flatten_st _ Kd Hstd) as (p1 & Hfl & Hf1 & Hall1 & Hpi1 & Hsim1 & Hr1 & Ho1 & Hg1 & Hinv1).
  cbv zeta. unfold pg_insert in *. rewrite Hins in *. cbn [negb] in *. rewrite Hfl in *.
  assert (Hnorm1 : pg_norm (pg_put w d p1) (PhObj b i) = PhObj b i).
  { unfold pg_norm. rewrite (pgi_get_put_other w b d p1 Hbd), Hdi. reflexivity. }
  rewrite Hnorm1, Hbeq in *. rewrite (pgi_get_put_other w b d p1 Hbd) in *.
  destruct (pgx_push_st _ Ks Hsts) as (s1 & Epush & Hsts1 & Hsims). rewrite Epush in *.
  assert (Hs1all : pd_all s1 <> []).
  { destruct (pgx_push_flat _ Ks (pgx_st_flat _ _ Hsts) (pgx_st_all _ _ Hsts)) as (s1' & Ep' & _ & Ha' & _). rewrite Epush in Ep'. inversion Ep'. subst s1'.
    destruct Ha' as [Ha'|[_ ->]]; [|exact Hsall]. rewrite Ha'. destruct (pgx_st_all _ _ Hsts) as [E|E]; congruence. }
  rewrite pg_get_put_same in *.
  assert (Hgd : pg_get (pg_put (pg_put w d p1) b s1) d = p1).
  { rewrite (pgi_get_put_other _ d b s1) by congruence. apply pg_get_put_same. }
  rewrite Hgd in *.
  assert (Hwf1 : pg_omap_wf p1).
  { destruct Hwf as [A B]. split; rewrite Ho1; [|exact B]. intros og l Hl. eapply pgx_sim_some; [exact Hsim1|eapply A; exact Hl]. }
  pose proof (copy_source_unchanged_lemma s1 p1 i Hs1all) as Hsrc.
  pose proof (pgz_copied_result s1 p1 i) as Hres.
  pose proof (pgz_copied_dst_flat s1 p1 i Kd Hf1) as Hf2.
  destruct (pgz_copied_dst_fields s1 p1 i) as (Hr2 & Ha2 & Hp2 & _ & _).
  pose proof (fun j => pgz_copied_dst_mark s1 p1 i j) as Hmk2.
  pose proof (fun j dd => pgz_frame_dict s1 p1 i j dd) as Hfr2.
  destruct (pg_copied s1 p1 i) as [[[s2 p2] e2] r]. cbn [fst snd] in *. subst s2.
  destruct e2 as [x|]; [cbn in Hsucc; discriminate|].
  rewrite pg_get_put_same in *.
  destruct r as [| | |l| |]; try (exfalso; unfold pg_insert_local in Hsucc; cbn [pg_insert_dup] in Hsucc;
    destruct ((pos <? 0)%Z || (pg_len (pd_all p2) <? pos)%Z); cbn in Hsucc; discriminate).
  specialize (Hres l Hs1all Hwf1 eq_refl eq_refl).
  destruct (pgx_sim_dict _ _ _ _ Hsims Hdi) as (di1 & Edi1 & Sdi1).
  pose proof (pgx_leafy_sim _ _ Hld Sdi1) as Hld1.
  specialize (Hnd s1 di1 eq_refl Edi1).
  assert (Hpi2 : pgx_posinv p2 Kd) by (unfold pgx_posinv in *; rewrite Hp2; exact Hpi1).
  assert (Hall2 : pd_all p2 = Kd) by congruence.
  assert (Hm12 : pgx_marks p2 = pgx_marks (pg_get w d)).
  { rewrite <- (pgx_marks_st_sim _ _ Kd Hstd (conj Hf1 (or_intror (conj Hall1 Hpi1))) Hsim1).
    unfold pgx_marks. rewrite (pgx_K_flat _ _ Hf1), (pgx_K_flat _ _ Hf2). apply map_ext_in. intros k Hk.
    destruct Hf1 as (pn1 & dn1 & _ & _ & _ & _ & _ & _ & _ & _ & _ & Hleaf1 & _). destruct (Hleaf1 k Hk) as (dk & Ek & _).
    apply Hmk2; [rewrite Ek; discriminate|unfold pg_is_null; rewrite Ek; reflexivity]. }
  (* the local page object l and what it holds after the copy *)
  assert (Hl : exists dl2, pg_lookup (pd_store p2) l = Some (PcObj (PvDict dl2)) /\ pgx_leafy dl2 /\ l <> pd_root p2 /\
                           pg_mark (pd_store p2) l = pg_mark (pd_store (pg_get w b)) i).
  { destruct Hres as [(v & Ev & El2 & Hl1)|[(dd & xx & kk & Es)|(Hm & Esame & Hex)]]; [|rewrite Edi1 in Es; discriminate|].
    - rewrite Edi1 in Ev. inversion Ev. subst v. rewrite pgz_rename_dict_eq in El2.
      exists (pg_rename_dict (pd_store s1) (pd_omap p2) di1). split; [exact El2|]. split; [apply pgz_rename_leafy; assumption|].
      split.
      + rewrite Hr2. intros E. pose proof Hf1 as (pn1 & dn1 & Hroot1 & _).
        destruct (pg_lookup (pd_store p1) (pd_root p1)) as [[v0|]|] eqn:Er;
          unfold pg_root_pages, pg_hget in Hroot1; cbn [pg_rv] in Hroot1; rewrite Er in Hroot1; try discriminate.
        destruct v0; try discriminate. destruct Hl1 as [H|H]; [congruence|unfold pg_is_null in H; rewrite E, Er in H; discriminate].
      + rewrite (pg_mark_obj _ _ _ El2), <- pgz_rename_dict_eq, (pgz_rename_mark _ _ _ Hnd), <- (pg_mark_obj _ _ _ Edi1).
        unfold pg_mark. rewrite (pgx_sim_mark _ _ i Hsims); [reflexivity|rewrite Hdi; discriminate].
    - unfold pgq_operand in Hopd. fold b in Hopd. rewrite <- Ho1, Hm in Hopd. destruct Hopd as (dl & Edl & Ldl & Hlr & Hmk).
      destruct (pgx_sim_dict _ _ _ _ Hsim1 Edl) as (dl1 & Edl1 & Sdl1).
      exists dl1. split; [rewrite Esame; exact Edl1|]. split; [exact (pgx_leafy_sim _ _ Ldl Sdl1)|].
      split; [rewrite Hr2, Hr1; exact Hlr|].
      rewrite <- Hmk. unfold pg_mark at 1 2. unfold pg_marker, pg_hget. cbn [pg_rv]. rewrite Esame, Edl1, Edl.
      destruct Sdl1 as (Hh & _). rewrite (Hh pgk_Mk pgx_mk_hard). reflexivity. }
  destruct Hl as (dl2 & El2 & Ldl2 & Hlroot2 & Hmkl).
  destruct (pgq_insert_local_st p2 Kd l dl2 pos Hf2 Hall2 Hpi2 El2 Ldl2 Hlroot2 Hpos) as (p3 & ni & Hrun3 & Hst3 & Hnin & Hmk3 & _).
  rewrite Hrun3. cbn [fst snd].
  exists ni. split; [exact Hnin|].
  rewrite pg_get_put_same, (pgi_get_put_other _ b d p3 Hbd), (pgi_get_put_other _ b d p2 Hbd), pg_put_put, pg_get_put_same.
  split; [exact Hst3|]. split; [rewrite Hmk3, Hm12, Hmkl; reflexivity|]. split; [exact Hsts1|eapply pgx_marks_st_sim; eassumption].
Qed.

(* ------------------------------------------------------------------ the memo invariant between two documents *)
(* what the object map of dst (objects of src -> their local copies) promises: mapped local objects exist, the map is
   injective, and a local copy is a null placeholder or still carries the content marker of a non-null source object *)
Definition pgq_memo (src dst : pg_doc) : Prop :=
  pg_omap_wf dst /\
  forall a l, pg_omap_find (pd_omap dst) a = Some l ->
    pg_is_null (pd_store dst) (PvRef l) = true \/
    (pg_is_null (pd_store src) (PvRef a) = false /\ pg_mark (pd_store dst) l = pg_mark (pd_store src) a).

Lemma pgq_memo_init : forall src s r, pgq_memo src (pg_init_doc s r).
Proof. intros src s r. split; [apply pg_omap_wf_init|]. cbn. intros a l H. discriminate. Qed.
