(* handlers: Filters/TiffBitsSpec.v - reference TIFF predictor 2 codec for any sample width (C15 extension) *)
open Qvmodel
open Runner

let rec tfb_chunk_rows (bpr : int) (d : n list) : n list list =
  if d = [] then [] else
  let rec take k l acc = if k = 0 then (List.rev acc, l) else match l with [] -> (List.rev acc, []) | x :: t -> take (k-1) t (x :: acc) in
  let (r, rest) = take bpr d [] in r :: tfb_chunk_rows bpr rest

let () =
  register "tfb" (fun args -> match args with
    | [op; ps; data] ->
      let p = Array.of_list (List.map n_of_int (ints_of ps)) in
      let d = unhexbytes data in
      (match tiff_make p.(0) p.(1) p.(2) with
       | None -> "?tiff"
       | Some tp ->
         let rows () = tfb_chunk_rows (int_of_nat tp.tf_bpr) d in
         (match op with
          | "enc" -> hexbytes (tfb_ref_encode tp (rows ()))
          | "dec" -> hexbytes (tfb_ref_decode tp d)
          | "clr" -> hexbytes (tfb_clear_pads tp (rows ()))
          | _ -> "?unknown-op"))
    | _ -> "?args")
