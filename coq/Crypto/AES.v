(* AES-128 / AES-256 block cipher as FIPS-197 defines it (Cipher, InvCipher, KeyExpansion), on a
   state of 16 bytes in input order (index 4*column + row). Tied to the code by the correspondence
   with Pl_AES_PDF of libqpdf.a (ECB mode, single blocks) under every crypto provider. *)
From QV Require Import Base.Bytes.
Local Open Scope N_scope.

Definition aes_sbox_table : list N :=
[
  99; 124; 119; 123; 242; 107; 111; 197; 48; 1; 103; 43; 254; 215; 171; 118;
  202; 130; 201; 125; 250; 89; 71; 240; 173; 212; 162; 175; 156; 164; 114; 192;
  183; 253; 147; 38; 54; 63; 247; 204; 52; 165; 229; 241; 113; 216; 49; 21;
  4; 199; 35; 195; 24; 150; 5; 154; 7; 18; 128; 226; 235; 39; 178; 117;
  9; 131; 44; 26; 27; 110; 90; 160; 82; 59; 214; 179; 41; 227; 47; 132;
  83; 209; 0; 237; 32; 252; 177; 91; 106; 203; 190; 57; 74; 76; 88; 207;
  208; 239; 170; 251; 67; 77; 51; 133; 69; 249; 2; 127; 80; 60; 159; 168;
  81; 163; 64; 143; 146; 157; 56; 245; 188; 182; 218; 33; 16; 255; 243; 210;
  205; 12; 19; 236; 95; 151; 68; 23; 196; 167; 126; 61; 100; 93; 25; 115;
  96; 129; 79; 220; 34; 42; 144; 136; 70; 238; 184; 20; 222; 94; 11; 219;
  224; 50; 58; 10; 73; 6; 36; 92; 194; 211; 172; 98; 145; 149; 228; 121;
  231; 200; 55; 109; 141; 213; 78; 169; 108; 86; 244; 234; 101; 122; 174; 8;
  186; 120; 37; 46; 28; 166; 180; 198; 232; 221; 116; 31; 75; 189; 139; 138;
  112; 62; 181; 102; 72; 3; 246; 14; 97; 53; 87; 185; 134; 193; 29; 158;
  225; 248; 152; 17; 105; 217; 142; 148; 155; 30; 135; 233; 206; 85; 40; 223;
  140; 161; 137; 13; 191; 230; 66; 104; 65; 153; 45; 15; 176; 84; 187; 22].
Definition aes_isbox_table : list N :=
[
  82; 9; 106; 213; 48; 54; 165; 56; 191; 64; 163; 158; 129; 243; 215; 251;
  124; 227; 57; 130; 155; 47; 255; 135; 52; 142; 67; 68; 196; 222; 233; 203;
  84; 123; 148; 50; 166; 194; 35; 61; 238; 76; 149; 11; 66; 250; 195; 78;
  8; 46; 161; 102; 40; 217; 36; 178; 118; 91; 162; 73; 109; 139; 209; 37;
  114; 248; 246; 100; 134; 104; 152; 22; 212; 164; 92; 204; 93; 101; 182; 146;
  108; 112; 72; 80; 253; 237; 185; 218; 94; 21; 70; 87; 167; 141; 157; 132;
  144; 216; 171; 0; 140; 188; 211; 10; 247; 228; 88; 5; 184; 179; 69; 6;
  208; 44; 30; 143; 202; 63; 15; 2; 193; 175; 189; 3; 1; 19; 138; 107;
  58; 145; 17; 65; 79; 103; 220; 234; 151; 242; 207; 206; 240; 180; 230; 115;
  150; 172; 116; 34; 231; 173; 53; 133; 226; 249; 55; 232; 28; 117; 223; 110;
  71; 241; 26; 113; 29; 41; 197; 137; 111; 183; 98; 14; 170; 24; 190; 27;
  252; 86; 62; 75; 198; 210; 121; 32; 154; 219; 192; 254; 120; 205; 90; 244;
  31; 221; 168; 51; 136; 7; 199; 49; 177; 18; 16; 89; 39; 128; 236; 95;
  96; 81; 127; 169; 25; 181; 74; 13; 45; 229; 122; 159; 147; 201; 156; 239;
  160; 224; 59; 77; 174; 42; 245; 176; 200; 235; 187; 60; 131; 83; 153; 97;
  23; 43; 4; 126; 186; 119; 214; 38; 225; 105; 20; 99; 85; 33; 12; 125].

(* table lookup in about 8 steps: a binary tree indexed by the bits of the byte, least significant first *)
Inductive btree := BLeaf (v : N) | BNode (l r : btree).
Fixpoint bt_evens (l : list N) : list N :=
  match l with
  | x :: _ :: t => x :: bt_evens t
  | [x] => [x]
  | [] => []
  end.
Definition bt_odds (l : list N) : list N := bt_evens (tl l).
Fixpoint bt_build (depth : nat) (l : list N) : btree :=
  match depth with
  | O => BLeaf (hd 0 l)
  | S d => BNode (bt_build d (bt_evens l)) (bt_build d (bt_odds l))
  end.
Fixpoint bt_zero (t : btree) : N :=
  match t with BLeaf v => v | BNode l _ => bt_zero l end.
Fixpoint bt_get_pos (t : btree) (p : positive) : N :=
  match t with
  | BLeaf v => v
  | BNode l r => match p with
                 | xO q => bt_get_pos l q
                 | xI q => bt_get_pos r q
                 | xH => bt_zero r
                 end
  end.
Definition bt_get (t : btree) (n : N) : N :=
  match n with N0 => bt_zero t | Npos p => bt_get_pos t p end.

Definition aes_sbox_tree : btree := bt_build 8 aes_sbox_table.
Definition aes_isbox_tree : btree := bt_build 8 aes_isbox_table.
Definition aes_sbox (b : N) : N := bt_get aes_sbox_tree b.
Definition aes_isbox (b : N) : N := bt_get aes_isbox_tree b.

Fixpoint xor_bytes (a b : list N) : list N :=
  match a, b with
  | x :: a', y :: b' => N.lxor x y :: xor_bytes a' b'
  | _, _ => []
  end.

Definition sub_bytes (st : list N) : list N := map aes_sbox st.
Definition inv_sub_bytes (st : list N) : list N := map aes_isbox st.

Definition shift_rows (st : list N) : list N :=
  match st with
  | [s0; s1; s2; s3; s4; s5; s6; s7; s8; s9; s10; s11; s12; s13; s14; s15] =>
    [s0; s5; s10; s15; s4; s9; s14; s3; s8; s13; s2; s7; s12; s1; s6; s11]
  | _ => st
  end.
Definition inv_shift_rows (st : list N) : list N :=
  match st with
  | [s0; s1; s2; s3; s4; s5; s6; s7; s8; s9; s10; s11; s12; s13; s14; s15] =>
    [s0; s13; s10; s7; s4; s1; s14; s11; s8; s5; s2; s15; s12; s9; s6; s3]
  | _ => st
  end.

(* multiplication by x in GF(2^8) modulo x^8 + x^4 + x^3 + x + 1 *)
Definition xtime (b : N) : N :=
  if b <? 128 then N.shiftl b 1 else N.lxor (N.shiftl b 1 - 256) 27.
Definition gmul2 (b : N) : N := xtime b.
Definition gmul3 (b : N) : N := N.lxor (xtime b) b.
Definition gmul9 (b : N) : N := N.lxor (xtime (xtime (xtime b))) b.
Definition gmul11 (b : N) : N := N.lxor (xtime (xtime (xtime b))) (N.lxor (xtime b) b).
Definition gmul13 (b : N) : N := N.lxor (xtime (xtime (xtime b))) (N.lxor (xtime (xtime b)) b).
Definition gmul14 (b : N) : N := N.lxor (xtime (xtime (xtime b))) (N.lxor (xtime (xtime b)) (xtime b)).

Definition mix_col (a0 a1 a2 a3 : N) : list N :=
  [N.lxor (gmul2 a0) (N.lxor (gmul3 a1) (N.lxor a2 a3));
   N.lxor a0 (N.lxor (gmul2 a1) (N.lxor (gmul3 a2) a3));
   N.lxor a0 (N.lxor a1 (N.lxor (gmul2 a2) (gmul3 a3)));
   N.lxor (gmul3 a0) (N.lxor a1 (N.lxor a2 (gmul2 a3)))].
Definition inv_mix_col (a0 a1 a2 a3 : N) : list N :=
  [N.lxor (gmul14 a0) (N.lxor (gmul11 a1) (N.lxor (gmul13 a2) (gmul9 a3)));
   N.lxor (gmul9 a0) (N.lxor (gmul14 a1) (N.lxor (gmul11 a2) (gmul13 a3)));
   N.lxor (gmul13 a0) (N.lxor (gmul9 a1) (N.lxor (gmul14 a2) (gmul11 a3)));
   N.lxor (gmul11 a0) (N.lxor (gmul13 a1) (N.lxor (gmul9 a2) (gmul14 a3)))].
Fixpoint mix_columns (st : list N) : list N :=
  match st with
  | a0 :: a1 :: a2 :: a3 :: t => mix_col a0 a1 a2 a3 ++ mix_columns t
  | _ => []
  end.
Fixpoint inv_mix_columns (st : list N) : list N :=
  match st with
  | a0 :: a1 :: a2 :: a3 :: t => inv_mix_col a0 a1 a2 a3 ++ inv_mix_columns t
  | _ => []
  end.

(* rounds after the initial AddRoundKey; the last round key is used without MixColumns *)
Fixpoint aes_rounds (rks : list (list N)) (st : list N) : list N :=
  match rks with
  | [] => st
  | rk :: rest =>
      match rest with
      | [] => xor_bytes (shift_rows (sub_bytes st)) rk
      | _ => aes_rounds rest (xor_bytes (mix_columns (shift_rows (sub_bytes st))) rk)
      end
  end.
Definition aes_cipher (rks : list (list N)) (blk : list N) : list N :=
  match rks with
  | [] => blk
  | rk0 :: rest => aes_rounds rest (xor_bytes blk rk0)
  end.

(* the straightforward inverse cipher (FIPS-197 5.3), same round keys in the opposite order *)
Fixpoint aes_inv_rounds (rks : list (list N)) (st : list N) : list N :=
  match rks with
  | [] => st
  | rk :: rest =>
      match rest with
      | [] => inv_sub_bytes (inv_shift_rows (xor_bytes st rk))
      | _ => inv_sub_bytes (inv_shift_rows (inv_mix_columns (xor_bytes (aes_inv_rounds rest st) rk)))
      end
  end.
Definition aes_inv_cipher (rks : list (list N)) (blk : list N) : list N :=
  match rks with
  | [] => blk
  | rk0 :: rest => xor_bytes (aes_inv_rounds rest blk) rk0
  end.

(* KeyExpansion: words are 4-byte lists; ws is the list of words so far, most recent first *)
Definition rot_word (w : list N) : list N :=
  match w with [a; b; c; d] => [b; c; d; a] | _ => w end.
Definition sub_word (w : list N) : list N := map aes_sbox w.

Fixpoint key_expand_loop (nk n i : nat) (rcon : N) (ws : list (list N)) : list (list N) :=
  match n with
  | O => ws
  | S n' =>
      let temp := hd [] ws in
      let old := nth (nk - 1) ws [] in
      if Nat.eqb (Nat.modulo i nk) 0 then
        key_expand_loop nk n' (S i) (xtime rcon)
          (xor_bytes old (xor_bytes (sub_word (rot_word temp)) [rcon; 0; 0; 0]) :: ws)
      else if Nat.ltb 6 nk && Nat.eqb (Nat.modulo i nk) 4 then
        key_expand_loop nk n' (S i) rcon (xor_bytes old (sub_word temp) :: ws)
      else
        key_expand_loop nk n' (S i) rcon (xor_bytes old temp :: ws)
  end.

Fixpoint chunk4 (l : list N) : list (list N) :=
  match l with
  | a :: b :: c :: d :: t => [a; b; c; d] :: chunk4 t
  | _ => []
  end.
Fixpoint group_round_keys (ws : list (list N)) : list (list N) :=
  match ws with
  | a :: b :: c :: d :: t => (a ++ b ++ c ++ d) :: group_round_keys t
  | _ => []
  end.

(* key: 16 or 32 bytes -> 11 or 15 round keys of 16 bytes *)
Definition aes_key_schedule (key : list N) : list (list N) :=
  let nk := Nat.div (length key) 4 in
  let total := (4 * (nk + 7))%nat in
  group_round_keys (rev' (key_expand_loop nk (total - nk) nk 1 (rev' (chunk4 key)))).

Definition aes_encrypt_block (key blk : list N) : list N := aes_cipher (aes_key_schedule key) blk.
Definition aes_decrypt_block (key blk : list N) : list N := aes_inv_cipher (aes_key_schedule key) blk.

(* FIPS-197 Appendix C.1 and C.3 *)
Definition seq_bytes (n : nat) : list N := map N.of_nat (seq 0 n).
Definition fips_pt : list N := map (fun i => 17 * N.of_nat i) (seq 0 16).
Example aes128_fips_c1 :
  aes_encrypt_block (seq_bytes 16) fips_pt =
  [105;196;224;216;106;123;4;48;216;205;183;128;112;180;197;90].
Proof. vm_compute. reflexivity. Qed.
Example aes256_fips_c3 :
  aes_encrypt_block (seq_bytes 32) fips_pt =
  [142;162;183;202;81;103;69;191;234;252;73;144;75;73;96;137].
Proof. vm_compute. reflexivity. Qed.
Example aes128_fips_c1_inv :
  aes_decrypt_block (seq_bytes 16) [105;196;224;216;106;123;4;48;216;205;183;128;112;180;197;90] = fips_pt.
Proof. vm_compute. reflexivity. Qed.
Example aes256_fips_c3_inv :
  aes_decrypt_block (seq_bytes 32) [142;162;183;202;81;103;69;191;234;252;73;144;75;73;96;137] = fips_pt.
Proof. vm_compute. reflexivity. Qed.
(* FIPS-197 Appendix A.1: last round key of the 128-bit key 2b7e1516 28aed2a6 abf71588 09cf4f3c *)
Example aes128_keyexp_a1 :
  nth 10 (aes_key_schedule [43;126;21;22;40;174;210;166;171;247;21;136;9;207;79;60]) [] =
  [208;20;249;168;201;238;37;137;225;63;12;200;182;99;12;166].
Proof. vm_compute. reflexivity. Qed.
