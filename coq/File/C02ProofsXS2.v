(* C02 extension, part 2: invariants of the queue / numbering of the object-stream writer model. *)
From QV Require Import Base.Bytes File.StrictSyntax File.ReadStrict File.WriterArith File.C02Proofs.
From QV Require Import Obj.Queue Obj.WriterModel Obj.WmPrinters Obj.WriterModelXS Obj.C01RoundtripProofs Obj.C01FileProofs.
From QV Require Import File.C02ProofsXS.
From Coq Require Import Lia.
Local Open Scope N_scope.

(* ---------- association lists ---------- *)
Lemma xq_lookup_in : forall l x v, lookup_num l x = Some v -> In (x, v) l.
Proof.
  induction l as [|[k w] t IH]; intros x v H; cbn [lookup_num] in H; [discriminate|].
  destruct (k =? x) eqn:E; [apply N.eqb_eq in E; injection H as <-; subst; left; reflexivity | right; apply IH; exact H].
Qed.
Lemma xq_in_lookup : forall l x v, NoDup (map fst l) -> In (x, v) l -> lookup_num l x = Some v.
Proof.
  induction l as [|[k w] t IH]; intros x v Hnd H; [contradiction|]. cbn [map fst] in Hnd. inversion Hnd as [|? ? H1 H2]; subst.
  cbn [lookup_num]. destruct H as [H | H].
  - injection H as -> ->. rewrite N.eqb_refl. reflexivity.
  - destruct (k =? x) eqn:E; [| apply IH; assumption]. apply N.eqb_eq in E. subst k.
    exfalso. apply H1. apply in_map_iff. exists (x, v). split; [reflexivity | exact H].
Qed.

(* ---------- the plan ---------- *)
Lemma xq_assign_bound : forall ids n_per n cur pr, 0 < n_per -> n <= n_per -> In pr (xs_assign ids n_per n cur) ->
  snd pr * n_per + 1 <= cur * n_per + n + N.of_nat (length ids).
Proof.
  induction ids as [|id t IH]; intros n_per n cur pr Hp Hn H; cbn [xs_assign] in H; [contradiction|].
  cbn [length]. destruct (n =? n_per) eqn:E.
  - apply N.eqb_eq in E. subst n. destruct H as [<- | H]; cbn [snd]; [lia|].
    apply IH in H; lia.
  - apply N.eqb_neq in E. destruct H as [<- | H]; cbn [snd]; [lia|].
    apply IH in H; lia.
Qed.

Lemma xq_asg_lt : forall d x k, In (x, k) (xs_asg (xs_P d)) -> k < xs_nstreams (xs_P d).
Proof.
  intros d x k H. unfold xs_P, xs_make_plan in *. cbn [xs_asg xs_nstreams] in *.
  set (el := xs_eligible d) in *. set (K := N.of_nat (length el)) in *.
  destruct (N.eq_dec K 0) as [E0|E0].
  - assert (El : el = []) by (destruct el; [reflexivity | unfold K in E0; cbn in E0; lia]). rewrite El in H. contradiction.
  - destruct (ostream_le_100_lemma K ltac:(lia)) as [_ [Hk Hpos]].
    pose proof (xq_assign_bound el (n_per_stream K) 0 0 (x, k) Hpos ltac:(lia) H) as B. cbn [snd] in B. fold K in B.
    assert (k * n_per_stream K < n_per_stream K * n_object_streams K) by lia.
    rewrite (N.mul_comm k) in H0. apply N.mul_lt_mono_pos_l in H0; [exact H0 | exact Hpos].
Qed.

Lemma xq_nth_map_seq : forall (A : Type) (f : nat -> A) n k dflt, (k < n)%nat -> nth k (map f (seq 0 n)) dflt = f k.
Proof.
  intros A f n k dflt H. rewrite (nth_indep _ dflt (f 0%nat)) by (rewrite map_length, seq_length; exact H).
  rewrite map_nth. rewrite seq_nth by exact H. reflexivity.
Qed.

Lemma xq_members_eq : forall d k, k < xs_nstreams (xs_P d) -> xs_members (xs_P d) k = xs_group (xs_asg (xs_P d)) k.
Proof.
  intros d k H. unfold xs_members. unfold xs_P, xs_make_plan in *. cbn [xs_groups xs_asg xs_nstreams] in *.
  rewrite xq_nth_map_seq by lia. rewrite N2Nat.id. reflexivity.
Qed.

Lemma xq_group_in_iff : forall asg k m, In m (xs_group asg k) <-> In (m, k) asg.
Proof.
  intros asg k m. split; [apply xs_group_in|]. intros H. unfold xs_group. apply xs_sort_in. apply in_map_iff.
  exists (m, k). split; [reflexivity|]. apply filter_In. split; [exact H | cbn; apply N.eqb_refl].
Qed.

Lemma xq_asg_nodup : forall d, NoDup (map fst (xs_asg (xs_P d))).
Proof.
  intros d. unfold xs_P, xs_make_plan. cbn [xs_asg]. rewrite xs_assign_fst.
  apply (proj1 (xs_member_of_one_stream_lemma d)).
Qed.

(* P1 / P2: membership in stream k <-> the plan assigns the object to k *)
Lemma xq_member_iff : forall d x k, In x (xs_members (xs_P d) k) <-> lookup_num (xs_asg (xs_P d)) x = Some k.
Proof.
  intros d x k. split.
  - intros H. destruct (xs_members_assigned d k x H) as [j Hj].
    assert (k < xs_nstreams (xs_P d)).
    { destruct (N.lt_ge_cases k (xs_nstreams (xs_P d))) as [L | G]; [exact L|]. exfalso.
      unfold xs_members in H. rewrite nth_overflow in H; [contradiction|].
      unfold xs_P, xs_make_plan in *. cbn [xs_groups xs_nstreams] in *. rewrite map_length, seq_length. lia. }
    rewrite (xq_members_eq d k H0) in H. apply xq_group_in_iff in H. apply xq_in_lookup; [apply xq_asg_nodup | exact H].
  - intros H. apply xq_lookup_in in H. pose proof (xq_asg_lt d x k H) as L.
    rewrite (xq_members_eq d k L). apply xq_group_in_iff. exact H.
Qed.

Lemma xq_filter_fst_nodup : forall (l : list (N * N)) f, NoDup (map fst l) -> NoDup (map fst (filter f l)).
Proof.
  induction l as [|a l IH]; intros f H; [constructor|]. cbn [map fst] in H. inversion H as [|? ? H1 H2]; subst.
  cbn [filter]. destruct (f a); [| apply IH; exact H2]. cbn [map]. constructor; [| apply IH; exact H2].
  intros Hin. apply H1. apply in_map_iff in Hin. destruct Hin as [b [Hb1 Hb2]]. apply filter_In in Hb2.
  apply in_map_iff. exists b. tauto.
Qed.
Lemma xq_insert_nodup : forall x l, ~ In x l -> NoDup l -> NoDup (xs_insert x l).
Proof.
  induction l as [|h t IH]; intros Hx Hnd; cbn [xs_insert]; [constructor; [intros [] | constructor]|].
  destruct (x <=? h); [constructor; assumption|]. inversion Hnd as [|? ? H1 H2]; subst.
  constructor.
  - intros Hin. apply xs_insert_in in Hin. destruct Hin as [-> | Hin]; [apply Hx; left; reflexivity | contradiction].
  - apply IH; [intros Hin; apply Hx; right; exact Hin | exact H2].
Qed.
Lemma xq_sort_nodup : forall l, NoDup l -> NoDup (xs_sort l).
Proof.
  induction l as [|h t IH]; intros H; [constructor|]. inversion H as [|? ? H1 H2]; subst.
  unfold xs_sort in *. cbn [fold_right]. apply xq_insert_nodup; [| apply IH; exact H2].
  intros Hin. apply H1. apply (proj1 (xs_sort_in t h)). exact Hin.
Qed.

(* P3 *)
Lemma xq_members_nodup : forall d k, NoDup (xs_members (xs_P d) k).
Proof.
  intros d k. destruct (N.lt_ge_cases k (xs_nstreams (xs_P d))) as [L | G].
  - rewrite (xq_members_eq d k L). unfold xs_group. apply xq_sort_nodup. apply xq_filter_fst_nodup. apply xq_asg_nodup.
  - unfold xs_members. rewrite nth_overflow; [constructor|].
    unfold xs_P, xs_make_plan in *. cbn [xs_groups xs_nstreams] in *. rewrite map_length, seq_length. lia.
Qed.

(* ---------- numbering the members of one stream ---------- *)
Lemma xq_number_other : forall ms next ren x, ~ In x ms ->
  lookup_num (fst (xs_number_members ms next ren)) x = lookup_num ren x.
Proof.
  induction ms as [|m ms IH]; intros next ren x H; [reflexivity|]. cbn [xs_number_members].
  rewrite IH by (intros Hin; apply H; right; exact Hin). cbn [lookup_num].
  destruct (m =? x) eqn:E; [apply N.eqb_eq in E; subst; exfalso; apply H; left; reflexivity | reflexivity].
Qed.
Lemma xq_number_nth : forall ms next ren j m, NoDup ms -> nth_error ms j = Some m ->
  lookup_num (fst (xs_number_members ms next ren)) m = Some (next + N.of_nat j).
Proof.
  induction ms as [|a ms IH]; intros next ren j m Hnd Hj; destruct j; cbn [nth_error] in Hj; try discriminate.
  - injection Hj as ->. inversion Hnd as [|? ? H1 H2]; subst. cbn [xs_number_members].
    rewrite xq_number_other by exact H1. cbn [lookup_num]. rewrite N.eqb_refl. f_equal. lia.
  - inversion Hnd as [|? ? H1 H2]; subst. cbn [xs_number_members]. rewrite (IH _ _ _ _ H2 Hj). f_equal. lia.
Qed.

(* ---------- the invariant ---------- *)
Section Inv.
  Variable d : doc.
  Let p := xs_P d.
  Let g := graph_of d.

  Definition xq_J2 (s : xs_qstate) : Prop :=
    forall k s0, lookup_num (xs_sren s) k = Some s0 ->
    forall j m, nth_error (xs_members p k) j = Some m -> lookup_num (xs_ren s) m = Some (s0 + 1 + N.of_nat j).

  Lemma xq_enqueue_J2 : forall s x, xq_J2 s -> xq_J2 (xs_enqueue p s x).
  Proof.
    intros s x J. unfold xs_enqueue.
    destruct (lookup_num (xs_ren s) x) eqn:Ex; [exact J|].
    destruct (lookup_num (xs_asg p) x) as [k|] eqn:Ea.
    - destruct (lookup_num (xs_sren s) k) eqn:Es; [exact J|].
      destruct (xs_number_members (xs_members p k) (xs_next s + 1) (xs_ren s)) as [ren' next'] eqn:E.
      cbv iota beta. intros k2 s0 H j m Hj. cbn [xs_sren xs_ren] in *.
      assert (Er : ren' = fst (xs_number_members (xs_members p k) (xs_next s + 1) (xs_ren s))) by (rewrite E; reflexivity).
      cbn [lookup_num] in H. destruct (k =? k2) eqn:Ek.
      + apply N.eqb_eq in Ek. subst k2. injection H as <-. rewrite Er.
        apply xq_number_nth; [apply xq_members_nodup | exact Hj].
      + rewrite Er. rewrite xq_number_other; [apply (J k2 s0 H j m Hj)|].
        intros Hin. apply N.eqb_neq in Ek. apply Ek.
        apply (proj1 (xq_member_iff d m k)) in Hin. apply nth_error_In in Hj. apply (proj1 (xq_member_iff d m k2)) in Hj.
        unfold p in *. congruence.
    - intros k2 s0 H j m Hj. cbn [xs_sren xs_ren] in *. cbn [lookup_num].
      destruct (x =? m) eqn:E; [| apply (J k2 s0 H j m Hj)].
      apply N.eqb_eq in E. subst m. apply nth_error_In in Hj. apply (proj1 (xq_member_iff d x k2)) in Hj. unfold p in *. congruence.
  Qed.

  (* after enqueue, x has a number; numbers are never taken away *)
  Lemma xq_enqueue_numbers : forall s x, xq_J2 s -> lookup_num (xs_ren (xs_enqueue p s x)) x <> None.
  Proof.
    intros s x J. unfold xs_enqueue.
    destruct (lookup_num (xs_ren s) x) eqn:Ex; [congruence|].
    destruct (lookup_num (xs_asg p) x) as [k|] eqn:Ea.
    - assert (Hin : In x (xs_members p k)) by (apply (proj2 (xq_member_iff d x k)); exact Ea).
      destruct (In_nth_error _ _ Hin) as [j Hj].
      destruct (lookup_num (xs_sren s) k) eqn:Es.
      + rewrite (J k n Es j x Hj) in Ex. discriminate.
      + destruct (xs_number_members (xs_members p k) (xs_next s + 1) (xs_ren s)) as [ren' next'] eqn:E.
        cbv iota beta. cbn [xs_ren].
        assert (Er : ren' = fst (xs_number_members (xs_members p k) (xs_next s + 1) (xs_ren s))) by (rewrite E; reflexivity).
        rewrite Er, (xq_number_nth _ _ _ j x (xq_members_nodup d k) Hj). discriminate.
    - cbn [xs_ren lookup_num]. rewrite N.eqb_refl. discriminate.
  Qed.

  Lemma xq_number_mono : forall ms next ren y, lookup_num ren y <> None ->
    lookup_num (fst (xs_number_members ms next ren)) y <> None.
  Proof.
    induction ms as [|m ms IH]; intros next ren y H; [exact H|]. cbn [xs_number_members]. apply IH.
    cbn [lookup_num]. destruct (m =? y); [discriminate | exact H].
  Qed.

  Lemma xq_enqueue_mono : forall s x y, lookup_num (xs_ren s) y <> None -> lookup_num (xs_ren (xs_enqueue p s x)) y <> None.
  Proof.
    intros s x y H. unfold xs_enqueue.
    destruct (lookup_num (xs_ren s) x); [exact H|].
    destruct (lookup_num (xs_asg p) x) as [k|].
    - destruct (lookup_num (xs_sren s) k); [exact H|].
      destruct (xs_number_members (xs_members p k) (xs_next s + 1) (xs_ren s)) as [ren' next'] eqn:E.
      cbv iota beta. cbn [xs_ren].
      assert (Er : ren' = fst (xs_number_members (xs_members p k) (xs_next s + 1) (xs_ren s))) by (rewrite E; reflexivity).
      rewrite Er. apply xq_number_mono. exact H.
    - cbn [xs_ren lookup_num]. destruct (x =? y); [discriminate | exact H].
  Qed.

  Lemma xq_fold_J2 : forall l s, xq_J2 s -> xq_J2 (fold_left (xs_enqueue p) l s).
  Proof. induction l as [|x l IH]; intros s J; [exact J|]. cbn [fold_left]. apply IH. apply xq_enqueue_J2. exact J. Qed.
  Lemma xq_fold_mono : forall l s y, lookup_num (xs_ren s) y <> None -> lookup_num (xs_ren (fold_left (xs_enqueue p) l s)) y <> None.
  Proof. induction l as [|x l IH]; intros s y H; [exact H|]. cbn [fold_left]. apply IH. apply xq_enqueue_mono. exact H. Qed.
  Lemma xq_fold_numbers : forall l s y, xq_J2 s -> In y l -> lookup_num (xs_ren (fold_left (xs_enqueue p) l s)) y <> None.
  Proof.
    induction l as [|x l IH]; intros s y J H; [contradiction|]. cbn [fold_left]. destruct H as [<- | H].
    - apply xq_fold_mono. apply xq_enqueue_numbers. exact J.
    - apply IH; [apply xq_enqueue_J2; exact J | exact H].
  Qed.
  Lemma xq_fold_written : forall l s, xs_written_rev (fold_left (xs_enqueue p) l s) = xs_written_rev s.
  Proof.
    induction l as [|x l IH]; intros s; [reflexivity|]. cbn [fold_left]. rewrite IH. unfold xs_enqueue.
    destruct (lookup_num (xs_ren s) x); [reflexivity|]. destruct (lookup_num (xs_asg p) x) as [k|]; [| reflexivity].
    destruct (lookup_num (xs_sren s) k); [reflexivity|].
    destruct (xs_number_members (xs_members p k) (xs_next s + 1) (xs_ren s)). reflexivity.
  Qed.

  (* K1: every reference printed by a written item has a number *)
  Definition xq_K1 (s : xs_qstate) : Prop :=
    forall it c, In it (xs_written_rev s) -> In c (xs_item_children g p it) -> lookup_num (xs_ren s) c <> None.

  Lemma xq_loop_inv : forall fuel s, xq_J2 s -> xq_K1 s ->
    xq_J2 (xs_q_loop fuel g p s) /\ xq_K1 (xs_q_loop fuel g p s).
  Proof.
    induction fuel as [|f IH]; intros s J K; [split; assumption|]. cbn [xs_q_loop].
    destruct (xs_queue s) as [|it rest] eqn:Eq; [split; assumption|].
    set (s1 := {| xs_queue := rest; xs_ren := xs_ren s; xs_sren := xs_sren s; xs_next := xs_next s; xs_written_rev := it :: xs_written_rev s |}).
    assert (J1 : xq_J2 s1) by exact J.
    apply IH; [apply xq_fold_J2; exact J1|].
    intros it' c Hit Hc. rewrite xq_fold_written in Hit. cbn [s1 xs_written_rev] in Hit. destruct Hit as [<- | Hit].
    - apply xq_fold_numbers; [exact J1 | exact Hc].
    - apply xq_fold_mono. apply (K it' c Hit Hc).
  Qed.
End Inv.

Lemma xq_final : forall d, xq_J2 d (xs_Q d) /\ xq_K1 d (xs_Q d).
Proof.
  intros d. unfold xs_Q, xs_run_queue. apply xq_loop_inv.
  - apply xq_fold_J2. intros k s0 H. discriminate.
  - intros it c Hit. rewrite xq_fold_written in Hit. contradiction.
Qed.

(* Every reference printed while a written item (an uncompressed object, or the members of an object stream) is written
   has been given an object number: no "0 0 R" and no reference to an unnumbered object is ever printed. *)
Lemma xs_refs_numbered_lemma : forall d it c, In it (xs_l_items (xs_L d)) ->
  In c (xs_item_children (graph_of d) (xs_l_plan (xs_L d)) it) -> 0 < xs_l_ren (xs_L d) c /\ xs_l_ren (xs_L d) c < xs_l_xref_id (xs_L d).
Proof.
  intros d it c Hit Hc. rewrite xs_L_eq in *. cbn [xs_l_items xs_l_plan xs_l_ren xs_l_xref_id] in *.
  destruct (xq_final d) as [_ K]. unfold xs_items in Hit. apply (proj1 (xs_rev'_in _ _ _)) in Hit.
  pose proof (K it c Hit Hc) as Hn. destruct (xs_Q_inv d) as [_ [H2 _]]. unfold xs_renf.
  destruct (lookup_num (xs_ren (xs_Q d)) c) eqn:E; [| congruence]. apply H2 in E. lia.
Qed.

(* K2: every item that was queued has a number *)
Definition xq_item_numbered (s : xs_qstate) (it : xs_item) : Prop :=
  match it with XsObj x => lookup_num (xs_ren s) x <> None | XsStm k => lookup_num (xs_sren s) k <> None end.
Definition xq_K2 (s : xs_qstate) : Prop := forall it, In it (xs_written_rev s) \/ In it (xs_queue s) -> xq_item_numbered s it.

Lemma xq_enqueue_sren_mono : forall p s x k, lookup_num (xs_sren s) k <> None -> lookup_num (xs_sren (xs_enqueue p s x)) k <> None.
Proof.
  intros p s x k H. unfold xs_enqueue. destruct (lookup_num (xs_ren s) x); [exact H|].
  destruct (lookup_num (xs_asg p) x) as [k'|]; [| exact H].
  destruct (lookup_num (xs_sren s) k'); [exact H|].
  destruct (xs_number_members (xs_members p k') (xs_next s + 1) (xs_ren s)). cbn [xs_sren lookup_num].
  destruct (k' =? k); [discriminate | exact H].
Qed.

Lemma xq_enqueue_K2 : forall d s x, xq_K2 s -> xq_K2 (xs_enqueue (xs_P d) s x).
Proof.
  intros d s x K it Hit.
  assert (Mono : forall it', xq_item_numbered s it' -> xq_item_numbered (xs_enqueue (xs_P d) s x) it').
  { intros [y | k] H; cbn [xq_item_numbered] in *; [apply xq_enqueue_mono; exact H | apply xq_enqueue_sren_mono; exact H]. }
  unfold xs_enqueue in Hit |- *.
  destruct (lookup_num (xs_ren s) x) eqn:Ex; [apply K; exact Hit|].
  destruct (lookup_num (xs_asg (xs_P d)) x) as [k|] eqn:Ea.
  - destruct (lookup_num (xs_sren s) k) eqn:Es; [apply K; exact Hit|].
    pose proof (Mono it) as M. unfold xs_enqueue in M. rewrite Ex, Ea, Es in M.
    destruct (xs_number_members (xs_members (xs_P d) k) (xs_next s + 1) (xs_ren s)) as [ren' next'] eqn:E.
    cbv iota beta in *. cbn [xs_written_rev xs_queue] in Hit.
    destruct Hit as [Hit | Hit]; [apply M; apply K; left; exact Hit|].
    apply in_app_or in Hit. destruct Hit as [Hit | [<- | []]]; [apply M; apply K; right; exact Hit|].
    cbn [xq_item_numbered xs_sren lookup_num]. rewrite N.eqb_refl. discriminate.
  - pose proof (Mono it) as M. unfold xs_enqueue in M. rewrite Ex, Ea in M.
    cbn [xs_written_rev xs_queue] in Hit.
    destruct Hit as [Hit | Hit]; [apply M; apply K; left; exact Hit|].
    apply in_app_or in Hit. destruct Hit as [Hit | [<- | []]]; [apply M; apply K; right; exact Hit|].
    cbn [xq_item_numbered xs_ren lookup_num]. rewrite N.eqb_refl. discriminate.
Qed.

Lemma xq_fold_K2 : forall d l s, xq_K2 s -> xq_K2 (fold_left (xs_enqueue (xs_P d)) l s).
Proof. induction l as [|x l IH]; intros s K; [exact K|]. cbn [fold_left]. apply IH. apply xq_enqueue_K2. exact K. Qed.

Lemma xq_loop_K2 : forall d fuel s, xq_K2 s -> xq_K2 (xs_q_loop fuel (graph_of d) (xs_P d) s).
Proof.
  induction fuel as [|f IH]; intros s K; [exact K|]. cbn [xs_q_loop].
  destruct (xs_queue s) as [|it rest] eqn:Eq; [exact K|]. apply IH. apply xq_fold_K2.
  intros it' Hit. cbn [xs_written_rev xs_queue] in Hit. change (xq_item_numbered s it'). apply K.
  destruct Hit as [[<- | Hit] | Hit]; [right; rewrite Eq; left; reflexivity | left; exact Hit | right; rewrite Eq; right; exact Hit].
Qed.

Lemma xq_final_K2 : forall d, xq_K2 (xs_Q d).
Proof.
  intros d. unfold xs_Q, xs_run_queue. apply xq_loop_K2. apply xq_fold_K2. intros it [[] | []].
Qed.

(* The members of an object stream carry consecutive numbers right after the stream's own number, in the order in which
   they are written: the number printed in the stream's header for index j (first number + j) is the number under which the
   j-th member is referred to everywhere; all of them, and the stream's number, are positive and below the xref stream's. *)
Lemma xs_members_consecutive_lemma : forall d k j m, In (XsStm k) (xs_l_items (xs_L d)) ->
  nth_error (xs_members (xs_l_plan (xs_L d)) k) j = Some m ->
  xs_l_ren (xs_L d) m = xs_l_sren (xs_L d) k + 1 + N.of_nat j /\ 0 < xs_l_sren (xs_L d) k.
Proof.
  intros d k j m Hit Hj. rewrite xs_L_eq in *. cbn [xs_l_plan xs_l_ren xs_l_sren xs_l_items] in *.
  destruct (xq_final d) as [J _]. unfold xs_renf, xs_srenf.
  unfold xs_items in Hit. apply (proj1 (xs_rev'_in _ _ _)) in Hit.
  pose proof (xq_final_K2 d (XsStm k) (or_introl Hit)) as Hs. cbn [xq_item_numbered] in Hs.
  destruct (lookup_num (xs_sren (xs_Q d)) k) as [s0|] eqn:E; [| congruence].
  rewrite (J k s0 E j m Hj). split; [reflexivity|]. destruct (xs_Q_inv d) as [_ [_ H3]]. apply H3 in E. lia.
Qed.

(* ---------- the roots (references printed in the trailer entries) are numbered ---------- *)
Lemma xq_loop_mono : forall d fuel s y, lookup_num (xs_ren s) y <> None ->
  lookup_num (xs_ren (xs_q_loop fuel (graph_of d) (xs_P d) s)) y <> None.
Proof.
  induction fuel as [|f IH]; intros s y H; [exact H|]. cbn [xs_q_loop].
  destruct (xs_queue s) as [|it rest]; [exact H|]. apply IH. apply xq_fold_mono. exact H.
Qed.

Lemma xq_roots_numbered : forall d x, In x (roots_of d) -> 0 < xs_renf d x.
Proof.
  intros d x Hx. assert (Hn : lookup_num (xs_ren (xs_Q d)) x <> None).
  { unfold xs_Q, xs_run_queue. apply xq_loop_mono. apply xq_fold_numbers; [| exact Hx]. intros k s0 H. discriminate. }
  destruct (xs_Q_inv d) as [_ [H2 _]]. unfold xs_renf.
  destruct (lookup_num (xs_ren (xs_Q d)) x) eqn:E; [| congruence]. apply H2 in E. lia.
Qed.
