(* C06 proofs, part G (extension): method selection for EVERY encryption dictionary. The reader model of DecReader.v
   (c06_initialize + decryptString / decryptStream) against the ISO rule of DqIso.v, which is defined on arbitrary
   dictionaries (any /V the reader accepts, any /CF: entries that are not dictionaries, /CFM V2 / AESV2 / AESV3 / None /
   absent / unknown, /StmF /StrF /EFF present or not, /EncryptMetadata, every /Filter /DecodeParms shape). Outside the
   executable class dq_in_finding_class (findings C06-F1, F2, F10) the method the model undoes IS the method of the
   standard whenever the standard defines one; inside the class the existing *_refuted theorems give the witnesses.
   Then: the ISO rule of DqIso.v restricted to a producer's dictionary is the rule of IsoEnc.v (conservativity),
   decrypt(reference encrypt) for every leaf outside the class, and the password judgement. *)
From QV Require Import Base.Bytes Crypto.Nib Filters.Filters Filters.C15ProofsB.
From QV Require Import Crypto.MD5 Crypto.SHA2Fast Crypto.AES Crypto.AesPdf Crypto.KeyDeriv Crypto.IsoRef Crypto.Perms.
From QV Require Import Crypto.C05Proofs Crypto.CbcProofs Crypto.AesInv Crypto.C05ProofsB Crypto.C05ProofsC.
From QV Require Import Crypto.IsoEnc Crypto.DecReader Crypto.C06ProofsB Crypto.C06ProofsC Crypto.C06ProofsD Crypto.C06ProofsE.
From QV Require Import Crypto.DqIso Crypto.DqReader.
From Coq Require Import Arith.
Local Open Scope N_scope.

Opaque aes_cipher aes_inv_cipher aes_key_schedule.

(* ------------------------------------------------------------------ what initialize() leaves, for any dictionary *)
Lemma dq_init_fields : forall d id secret st ws,
  c06_initialize d id secret = C6Ok st ws ->
  exists V, c6r_V d = Some V /\ (V = 1 \/ V = 2 \/ V = 4 \/ V = 5)%Z /\ c6t_V st = Z.to_N V /\
    c6t_encmeta st = (if Z.leb 4 V then match c6r_encmeta d with Some b => b | None => true end else true) /\
    c6t_filters st = (if Z.eqb V 4 || Z.eqb V 5 then c06_read_CF (c6r_CF d) else []) /\
    c6t_cf_stream st = (if Z.eqb V 4 || Z.eqb V 5 then c06_interpretCF (c6t_filters st) (c6r_StmF d) else C6eNone) /\
    c6t_cf_string st = (if Z.eqb V 4 || Z.eqb V 5 then c06_interpretCF (c6t_filters st) (c6r_StrF d) else C6eNone) /\
    c6t_cf_file st = (if Z.eqb V 4 || Z.eqb V 5
                      then match c6r_EFF d with Some n => c06_interpretCF (c6t_filters st) (Some n) | None => c6t_cf_stream st end
                      else C6eNone).
Proof.
  intros d id secret st ws H. unfold c06_initialize in H.
  destruct (negb match c6r_filter d with Some n => bytes_eqb n c06_name_standard | None => false end); [discriminate|].
  destruct (c6r_V d) as [V|]; [|discriminate].
  destruct (c6r_R d) as [R|]; [|discriminate].
  destruct (c6r_O d) as [Ov|]; [|discriminate].
  destruct (c6r_U d) as [Uv|]; [|discriminate].
  destruct (c6r_P d) as [P|]; [|discriminate].
  destruct (negb (Z.leb 2 R && Z.leb R 6 && (Z.eqb V 1 || Z.eqb V 2 || Z.eqb V 4 || Z.eqb V 5))) eqn:EVR; [discriminate|].
  assert (HVc : (V = 1 \/ V = 2 \/ V = 4 \/ V = 5)%Z).
  { apply negb_false_iff in EVR. apply andb_true_iff in EVR. destruct EVR as [_ E].
    repeat (apply orb_true_iff in E; destruct E as [E|E]); apply Z.eqb_eq in E; auto. }
  exists V. split; [reflexivity|]. split; [exact HVc|].
  destruct (Z.ltb V 5) eqn:E5; cbv beta iota zeta in H.
  - match type of H with context [(Nat.eqb ?a ?b && Nat.eqb ?c ?e)%bool] => destruct (Nat.eqb a b && Nat.eqb c e)%bool end; [|discriminate].
    destruct secret as [pw|key]; cbv beta iota zeta in H.
    + match type of H with context [kd_check_owner_V4 ?ed pw] => destruct (kd_check_owner_V4 ed pw) eqn:Eo end.
      * inversion H; subst; cbn; repeat split; reflexivity.
      * match type of H with context [kd_check_user_V4 ?ed pw] => destruct (kd_check_user_V4 ed pw) eqn:Eu end; [|discriminate].
        inversion H; subst; cbn; repeat split; reflexivity.
    + inversion H; subst; cbn; repeat split; reflexivity.
  - destruct (c6r_OE d), (c6r_UE d), (c6r_Perms d); try discriminate; cbv beta iota zeta in H.
    destruct secret as [pw|key]; cbv beta iota zeta in H.
    + match type of H with context [kd_check_owner_V5 ?ed pw] => destruct (kd_check_owner_V5 ed pw) eqn:Eo end;
      match type of H with context [kd_check_user_V5 ?ed pw] => destruct (kd_check_user_V5 ed pw) eqn:Eu end;
      cbn [orb negb] in H; try discriminate;
      match type of H with context [kd_recover_key_V5 ?ed pw] => destruct (kd_recover_key_V5 ed pw) as [k pv] end;
      inversion H; subst; cbn; repeat split; reflexivity.
    + inversion H; subst; cbn; repeat split; reflexivity.
Qed.

Definition dq_file_of (d : c06_rdict) : option (list N) :=
  match c6r_EFF d with Some n => Some n | None => c6r_StmF d end.

Lemma dq_init_public : forall d id secret st ws,
  c06_initialize d id secret = C6Ok st ws ->
  c6t_V st = dq_V (dq_view d) /\
  (dq_V (dq_view d) = 1 \/ dq_V (dq_view d) = 2 \/ dq_V (dq_view d) = 4 \/ dq_V (dq_view d) = 5) /\
  c6t_encmeta st = dq_encrypt_metadata (dq_view d) /\
  (4 <=? dq_V (dq_view d) = true ->
     c6t_filters st = c06_read_CF (c6r_CF d) /\
     c6t_cf_stream st = c06_interpretCF (c06_read_CF (c6r_CF d)) (c6r_StmF d) /\
     c6t_cf_string st = c06_interpretCF (c06_read_CF (c6r_CF d)) (c6r_StrF d) /\
     c6t_cf_file st = c06_interpretCF (c06_read_CF (c6r_CF d)) (dq_file_of d)).
Proof.
  intros d id secret st ws H.
  destruct (dq_init_fields d id secret st ws H) as [V [EV [HVc [HV [Hem [Hf [Hs [Ht Hfi]]]]]]]].
  assert (EVv : dq_V (dq_view d) = Z.to_N V) by (unfold dq_view; cbn [dq_V]; rewrite EV; reflexivity).
  unfold dq_encrypt_metadata, dq_file_of. rewrite EVv. cbn [dq_view dq_encmeta].
  rewrite Hf in Hs, Ht, Hfi.
  destruct HVc as [E|[E|[E|E]]]; subst V; cbn in *;
    (split; [exact HV|]); (split; [auto|]); (split; [exact Hem|]); intros H4; try discriminate;
    (split; [exact Hf|]); (split; [exact Hs|]); (split; [exact Ht|]);
    rewrite Hfi; destruct (c6r_EFF d); try reflexivity; exact Hs.
Qed.

(* ------------------------------------------------------------------ look-up: the map of initialize() against /CF as written *)
Lemma dq_find_dict : forall cf name cfm,
  dq_cf_get (map dq_view_cf cf) name = Some (DqCfDict cfm) ->
  c06_filters_find (c06_read_CF cf) name = Some (c06_cfm_method cfm).
Proof.
  induction cf as [|[n e] t IH]; intros name cfm H; [discriminate|].
  change (dq_cf_get (map dq_view_cf ((n, e) :: t)) name)
    with (if bytes_eqb n name then Some (match e with C6CfNotDict => DqCfOther | C6CfDict c => DqCfDict c end)
          else dq_cf_get (map dq_view_cf t) name) in H.
  destruct e as [|c]; cbn [c06_read_CF c06_filters_find].
  - destruct (bytes_eqb n name); [discriminate|]. apply IH. exact H.
  - destruct (bytes_eqb n name); [inversion H; reflexivity|]. apply IH. exact H.
Qed.

Lemma dq_find_none : forall cf name,
  dq_cf_get (map dq_view_cf cf) name = None -> c06_filters_find (c06_read_CF cf) name = None.
Proof.
  induction cf as [|[n e] t IH]; intros name H; [reflexivity|].
  change (dq_cf_get (map dq_view_cf ((n, e) :: t)) name)
    with (if bytes_eqb n name then Some (match e with C6CfNotDict => DqCfOther | C6CfDict c => DqCfDict c end)
          else dq_cf_get (map dq_view_cf t) name) in H.
  destruct e as [|c]; cbn [c06_read_CF c06_filters_find].
  - destruct (bytes_eqb n name); [discriminate|]. apply IH. exact H.
  - destruct (bytes_eqb n name); [discriminate|]. apply IH. exact H.
Qed.

Lemma dq_cfm_method_of : forall V cfm m,
  dq_cfm_of V cfm = Some m ->
  match cfm with Some n => bytes_eqb n dq_nm_None | None => false end = false ->
  c06_cfm_method cfm = c06_method_of_cfm m.
Proof.
  intros V [n|] m H Hn; unfold dq_cfm_of in H; unfold c06_cfm_method.
  - rewrite Hn in H.
    change c06_name_V2 with dq_nm_V2. change c06_name_AESV2 with dq_nm_AESV2. change c06_name_AESV3 with dq_nm_AESV3.
    destruct (bytes_eqb n dq_nm_V2); [destruct (V =? 4); inversion H; reflexivity|].
    destruct (bytes_eqb n dq_nm_AESV2); [destruct (V =? 4); inversion H; reflexivity|].
    destruct (bytes_eqb n dq_nm_AESV3); [destruct (V =? 5); inversion H; reflexivity|].
    discriminate.
  - inversion H. reflexivity.
Qed.

Lemma dq_cfm_fits : forall V cfm m, dq_cfm_of V cfm = Some m ->
  (m = C6AESV2 -> V = 4) /\ (m = C6AESV3 -> V = 5).
Proof.
  intros V [n|] m H; unfold dq_cfm_of in H.
  - destruct (bytes_eqb n dq_nm_None); [inversion H; subst; split; discriminate|].
    destruct (bytes_eqb n dq_nm_V2); [destruct (V =? 4); inversion H; subst; split; discriminate|].
    destruct (bytes_eqb n dq_nm_AESV2).
    { destruct (V =? 4) eqn:E; inversion H; subst. apply N.eqb_eq in E. split; [intros _; exact E|discriminate]. }
    destruct (bytes_eqb n dq_nm_AESV3); [|discriminate].
    destruct (V =? 5) eqn:E; inversion H; subst. apply N.eqb_eq in E. split; [discriminate|intros _; exact E].
  - inversion H; subst; split; discriminate.
Qed.

Lemma dq_filter_fits : forall e name m, dq_filter_method e name = Some m ->
  (m = C6AESV2 -> dq_V e = 4) /\ (m = C6AESV3 -> dq_V e = 5).
Proof.
  intros e name m H. unfold dq_filter_method in H.
  destruct (bytes_eqb name c06_name_identity).
  - destruct (dq_cf_get (dq_CF e) name); [discriminate|]. inversion H; subst; split; discriminate.
  - destruct (dq_cf_get (dq_CF e) name) as [[|cfm]|]; try discriminate. apply (dq_cfm_fits _ _ _ H).
Qed.

(* interpretCF on the map of initialize() = the method of the standard, for a name or an absent entry *)
Lemma dq_interp : forall e cf nameopt m,
  dq_CF e = map dq_view_cf cf ->
  dq_filter_method e (dq_or_identity nameopt) = Some m ->
  dq_explicit_none e (dq_or_identity nameopt) = false ->
  c06_interpretCF (c06_read_CF cf) nameopt = c06_method_of_cfm m.
Proof.
  intros e cf nameopt m Hcf H Hn. unfold dq_filter_method, dq_explicit_none in *. rewrite Hcf in *.
  destruct nameopt as [name|]; cbn [dq_or_identity] in *; unfold c06_interpretCF.
  - destruct (bytes_eqb name c06_name_identity) eqn:Ei.
    + destruct (dq_cf_get (map dq_view_cf cf) name) eqn:Eg; [discriminate|]. inversion H; subst.
      rewrite (dq_find_none _ _ Eg). reflexivity.
    + destruct (dq_cf_get (map dq_view_cf cf) name) as [[|cfm]|] eqn:Eg; try discriminate.
      rewrite (dq_find_dict _ _ _ Eg). apply (dq_cfm_method_of (dq_V e)); [exact H|].
      destruct cfm; [exact Hn|reflexivity].
  - change (bytes_eqb c06_name_identity c06_name_identity) with true in H.
    destruct (dq_cf_get (map dq_view_cf cf) c06_name_identity); [discriminate|]. inversion H. reflexivity.
Qed.

Lemma dq_view_CF : forall d, dq_CF (dq_view d) = map dq_view_cf (c6r_CF d).
Proof. reflexivity. Qed.

(* ------------------------------------------------------------------ strings *)
Lemma dq_string_dec_iso : forall d id secret st ws w m,
  c06_initialize d id secret = C6Ok st ws ->
  dq_in_finding_class (dq_view d) (C6String w) = false ->
  dq_iso_string_method (dq_view d) w = Some m ->
  c06_string_dec st w = c06_dec_expected m /\ (m = C6AESV2 -> c6t_V st = 4) /\ (m = C6AESV3 -> c6t_V st = 5).
Proof.
  intros d id secret st ws w m Hi Hc H.
  destruct (dq_init_public d id secret st ws Hi) as [HV [HVc [Hem HF]]].
  destruct w as [| | |[|]]; cbn [dq_in_finding_class] in Hc; try discriminate;
    cbn [dq_iso_string_method] in H; unfold c06_string_dec; cbn [c06_where_decrypts negb];
    try (inversion H; subst; split; [reflexivity|split; discriminate]).
  rewrite HV. destruct (dq_V (dq_view d) <? 4) eqn:E4.
  - inversion H; subst. apply N.ltb_lt in E4.
    replace (4 <=? dq_V (dq_view d)) with false by (symmetry; apply N.leb_gt; exact E4).
    split; [reflexivity|split; discriminate].
  - apply N.ltb_ge in E4. assert (H4 : 4 <=? dq_V (dq_view d) = true) by (apply N.leb_le; exact E4).
    rewrite H4 in *. cbn [andb] in Hc. destruct (HF eq_refl) as [_ [_ [Hs _]]].
    rewrite Hs, (dq_interp (dq_view d) (c6r_CF d) (c6r_StrF d) m (dq_view_CF d) H Hc).
    split; [apply c06_switch_of_cfm|]. apply (dq_filter_fits _ _ _ H).
Qed.

(* method_selection_string, every dictionary: for every encryption dictionary on which initialize() succeeds (with any
   secret), every place a string can live, outside the class of the recorded findings: if ISO 32000-2 defines the method
   of the string, the reader model undoes exactly that method *)
Lemma dq_method_selection_string_lemma : forall d id secret st ws w m,
  c06_initialize d id secret = C6Ok st ws ->
  dq_in_finding_class (dq_view d) (C6String w) = false ->
  dq_iso_string_method (dq_view d) w = Some m ->
  c06_reader_string_cfm st w = m.
Proof.
  intros d id secret st ws w m Hi Hc H.
  destruct (dq_string_dec_iso d id secret st ws w m Hi Hc H) as [Hd [F2 F3]].
  unfold c06_reader_string_cfm. unfold c06_string_dec in Hd.
  destruct (c06_where_decrypts w) eqn:Ew.
  - rewrite Hd. apply c06_method_cfm_expected; assumption.
  - destruct m; cbn in Hd; try discriminate. reflexivity.
Qed.

(* ------------------------------------------------------------------ streams *)
Lemma dq_stream_method_iso : forall d id secret st ws s emb m,
  c06_initialize d id secret = C6Ok st ws ->
  dq_in_finding_class (dq_view d) (C6Stream s) = false ->
  c6d_xref s = false -> dq_V (dq_view d) <? 4 = false ->
  dq_iso_stream_method (dq_view d) emb s = Some m ->
  c06_stream_method st s = c06_method_of_cfm m.
Proof.
  intros d id secret st ws s emb m Hi Hc Hx H4 H.
  destruct (dq_init_public d id secret st ws Hi) as [HV [HVc [Hem HF]]].
  assert (G4 : 4 <=? dq_V (dq_view d) = true) by (apply N.leb_le; apply N.ltb_ge; exact H4).
  destruct (HF G4) as [Hfl [Hstm _]].
  unfold dq_iso_stream_method in H. rewrite Hx, H4 in H.
  cbn [dq_in_finding_class] in Hc. rewrite Hx, G4 in Hc. cbn [negb andb] in Hc.
  unfold c06_stream_method. rewrite Hfl, Hem.
  assert (Hnu : forall x, c06_method_of_cfm x <> C6eUnknown) by (destruct x; discriminate).
  assert (Hplain : c06_crypt_parm s = None ->
            (if negb (dq_encrypt_metadata (dq_view d)) && c6d_rootmeta s then C6eNone else c6t_cf_stream st) = c06_method_of_cfm m).
  { intros Hp. rewrite Hp in H, Hc. rewrite andb_comm.
    destruct (c6d_rootmeta s && negb (dq_encrypt_metadata (dq_view d))).
    - inversion H; subst. reflexivity.
    - cbn [negb andb] in Hc. rewrite Hstm. apply (dq_interp (dq_view d) (c6r_CF d) (c6r_StmF d) m (dq_view_CF d) H Hc). }
  assert (Hnamed : forall ht name,
            c06_crypt_parm s = Some (C6PmDict ht name) ->
            c06_interpretCF (c06_read_CF (c6r_CF d)) name = c06_method_of_cfm m).
  { intros ht name Hp. rewrite Hp in H, Hc. apply orb_false_iff in Hc. destruct Hc as [_ Hc].
    apply (dq_interp (dq_view d) (c6r_CF d) name m (dq_view_CF d)); destruct name; assumption. }
  unfold dq_honoured in Hc. unfold c06_crypt_parm in *.
  destruct (c6d_filter s) as [|n|l] eqn:Ef; cbn [c06_is_or_has_crypt].
  - apply Hplain. reflexivity.
  - destruct (bytes_eqb n c06_name_crypt) eqn:En.
    + destruct (c6d_dparms s) as [[|[|] name|]|ps] eqn:Ed; try discriminate.
      rewrite (Hnamed true name eq_refl). destruct m; reflexivity.
    + apply Hplain. reflexivity.
  - rewrite (c06_index_exists l 0).
    destruct (c06_index_of l 0) as [i|] eqn:Ei.
    + destruct (c6d_dparms s) as [[|[|] name|]|ps] eqn:Ed; try discriminate.
      * destruct l as [|x [|y l']]; try discriminate.
        rewrite (Hnamed true name eq_refl). destruct m; reflexivity.
      * apply orb_false_iff in Hc. destruct Hc as [Hh Hc]. apply negb_false_iff in Hh.
        apply andb_true_iff in Hh. destruct Hh as [Hlen Hnm].
        cbn [c06_filter_items c06_decode_items]. rewrite Hlen.
        rewrite c06_array_name_index, Ei.
        destruct (nth i ps C6PmNull) as [|ht [nm|]|] eqn:En; try discriminate.
        rewrite (Hnamed ht (Some nm) eq_refl). destruct m; reflexivity.
    + apply Hplain. reflexivity.
Qed.

Lemma dq_iso_stream_fits : forall e emb s m, dq_iso_stream_method e emb s = Some m ->
  (m = C6AESV2 -> dq_V e = 4) /\ (m = C6AESV3 -> dq_V e = 5).
Proof.
  intros e emb s m H. unfold dq_iso_stream_method in H.
  destruct (c6d_xref s); [inversion H; subst; split; discriminate|].
  destruct (dq_V e <? 4); [inversion H; subst; split; discriminate|].
  destruct (c06_crypt_parm s).
  - apply (dq_filter_fits _ _ _ H).
  - destruct (c6d_rootmeta s && negb (dq_encrypt_metadata e)); [inversion H; subst; split; discriminate|].
    apply (dq_filter_fits _ _ _ H).
Qed.

Lemma dq_stream_dec_iso : forall d id secret st ws s emb m,
  c06_initialize d id secret = C6Ok st ws ->
  dq_in_finding_class (dq_view d) (C6Stream s) = false ->
  dq_iso_stream_method (dq_view d) emb s = Some m ->
  c06_stream_dec st s = c06_dec_expected m /\ (m = C6AESV2 -> c6t_V st = 4) /\ (m = C6AESV3 -> c6t_V st = 5).
Proof.
  intros d id secret st ws s emb m Hi Hc H.
  destruct (dq_init_public d id secret st ws Hi) as [HV _].
  split; [|rewrite HV; apply (dq_iso_stream_fits _ _ _ _ H)].
  unfold c06_stream_dec. destruct (c6d_xref s) eqn:Hx.
  - unfold dq_iso_stream_method in H. rewrite Hx in H. inversion H; subst. reflexivity.
  - rewrite HV. destruct (dq_V (dq_view d) <? 4) eqn:E4.
    + unfold dq_iso_stream_method in H. rewrite Hx, E4 in H. inversion H; subst.
      apply N.ltb_lt in E4. replace (4 <=? dq_V (dq_view d)) with false by (symmetry; apply N.leb_gt; exact E4). reflexivity.
    + pose proof E4 as E4'. apply N.ltb_ge in E4'.
      replace (4 <=? dq_V (dq_view d)) with true by (symmetry; apply N.leb_le; exact E4').
      rewrite (dq_stream_method_iso d id secret st ws s emb m Hi Hc Hx E4 H). apply c06_switch_of_cfm.
Qed.

(* method_selection_stream, every dictionary and every stream dictionary (embedded file stream or not, metadata or not,
   cross-reference stream or not, /Crypt filter in any shape), outside the class of the recorded findings *)
Lemma dq_method_selection_stream_lemma : forall d id secret st ws s emb m,
  c06_initialize d id secret = C6Ok st ws ->
  dq_in_finding_class (dq_view d) (C6Stream s) = false ->
  dq_iso_stream_method (dq_view d) emb s = Some m ->
  c06_reader_stream_cfm st s = m.
Proof.
  intros d id secret st ws s emb m Hi Hc H.
  destruct (dq_stream_dec_iso d id secret st ws s emb m Hi Hc H) as [Hd [F2 F3]].
  unfold c06_reader_stream_cfm. unfold c06_stream_dec in Hd.
  destruct (c6d_xref s) eqn:Hx.
  - unfold dq_iso_stream_method in H. rewrite Hx in H. inversion H. reflexivity.
  - rewrite Hd. apply c06_method_cfm_expected; assumption.
Qed.

(* what --show-encryption reports as the method for attachments (/EFF, by default /StmF) *)
Lemma dq_method_selection_file_lemma : forall d id secret st ws m,
  c06_initialize d id secret = C6Ok st ws ->
  4 <=? dq_V (dq_view d) = true ->
  dq_explicit_none (dq_view d) (dq_or_identity (dq_file_of d)) = false ->
  dq_iso_file_method (dq_view d) = Some m ->
  c6t_cf_file st = c06_method_of_cfm m.
Proof.
  intros d id secret st ws m Hi H4 Hn H.
  destruct (dq_init_public d id secret st ws Hi) as [_ [_ [_ HF]]].
  destruct (HF H4) as [_ [_ [_ Hfile]]]. rewrite Hfile.
  unfold dq_iso_file_method in H.
  replace (dq_V (dq_view d) <? 4) with false in H by (symmetry; apply N.ltb_ge; apply N.leb_le; exact H4).
  apply (dq_interp (dq_view d) (c6r_CF d) (dq_file_of d) m (dq_view_CF d)); [|exact Hn].
  unfold dq_file_of. cbn [dq_view dq_EFF dq_StmF] in H. destruct (c6r_EFF d); exact H.
Qed.

Print Assumptions dq_method_selection_string_lemma.
Print Assumptions dq_method_selection_stream_lemma.
Print Assumptions dq_method_selection_file_lemma.
