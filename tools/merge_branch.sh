#!/bin/bash
# usage: tools/merge_branch.sh <branch> <ID> "<commit message>"  - merge with the routine conflict resolution
b=$1; pid=$2; msg=$3
cd /verif
git merge --no-edit $b >/tmp/merge.log 2>&1
if git status --short | grep -q "^UU\|^AA\|^DU\|^UD"; then
  for f in $(git diff --name-only --diff-filter=U); do
    case $f in
      evidence/*) git checkout --theirs $f ;;
      MANIFEST.json) git checkout --ours $f ;;
      tools/manifest/*.json) python3 tools/merge_manifest_fragment.py $(basename $f .json) $b ;;
      seeded/*) git checkout --theirs $f ;;
      known_findings.json) python3 tools/merge_known.py $b ;;
      coq/Props/Properties_*) echo "PROPS CONFLICT $f: regenerate by hand"; git checkout --ours $f ;;
    esac
  done
  python3 tools/resolve_merge.py $pid | tail -1
fi
left=$(grep -l "^<<<<<<<" DESIGN.md known_findings.json $(git diff --name-only --diff-filter=U) 2>/dev/null </dev/null)
if [ -n "$left" ]; then echo "UNRESOLVED: $left"; exit 1; fi
python3 -c "
import json,sys
bad=[f for f in json.load(open('known_findings.json'))['findings'] if not all(x in f for x in ('id','property','status','match','what'))]
if bad: print('MALFORMED known_findings entries:', bad); sys.exit(1)" || exit 1
python3-vt tools/gen_manifest.py >/dev/null && python3 tools/gen_design_tables.py >/dev/null
git add -A; git commit -qm "$msg" </dev/null; echo "merged $b: $(git log --oneline | head -1)"
