(* C13 extension - Pages::flattenPagesTree (pg_flatten) and pushInheritedAttributesToPage (pg_push) on a flattened clean
   tree (pgx_flat of Struct/C13ProofsC.v): only repairs happen (pgx_sim), the page list is /Kids, the position map is
   rebuilt as the inverse of the list, and the result satisfies the invariant pg_inv of Struct/C13ProofsA.v. *)
From QV Require Import Base.Bytes Struct.PgModel Struct.PgSpec Struct.C13ProofsA Struct.PgxModel Struct.PgxOracle Struct.C13ProofsC.
Local Open Scope N_scope.

(* ------------------------------------------------------------------ small facts *)
Lemma pgy_inh_soft : forall k, pg_is_inh k = true -> In k pgx_soft /\ k <> pgk_Type.
Proof.
  intros k H. unfold pg_is_inh in H. repeat (apply orb_true_iff in H; destruct H as [H|H]);
    apply pg_key_eqb_eq in H; subst k; (split; [cbn; tauto|discriminate]).
Qed.

Lemma pgy_dins_in : forall d k v kv, In kv (pg_dins d k v) -> kv = (k, v) \/ In kv d.
Proof.
  induction d as [|[k' v'] t IH]; intros k v kv H; cbn [pg_dins] in H.
  - destruct H as [<-|[]]. left. reflexivity.
  - destruct (pg_key_cmp k k').
    + destruct H as [<-|H]; [left; reflexivity|right; right; exact H].
    + destruct H as [<-|H]; [left; reflexivity|right; exact H].
    + destruct H as [<-|H]; [right; left; reflexivity|]. destruct (IH _ _ _ H) as [E|E]; [left; exact E|right; right; exact E].
Qed.

(* rewriting /Parent of something without /Kids (a page) is a repair *)
Lemma pgy_sim_parent : forall s i d v, pg_lookup s i = Some (PcObj (PvDict d)) -> pg_dget d pgk_Kids = PvNull ->
  pgx_sim s (pg_obj_set_key s i pgk_Parent v).
Proof.
  intros s i d v E Hk. unfold pg_obj_set_key. rewrite E. eapply pgx_sim_upd; [exact E|]. split; [|split].
  - intros k2 [_ Hk2]. apply pg_dget_dset_neq. exact Hk2.
  - left. apply pg_dget_dset_neq. discriminate.
  - right. exact Hk.
Qed.

(* writing the value a key already has changes nothing that pgx_sim sees *)
Lemma pgy_sim_same : forall s i d k v, pg_lookup s i = Some (PcObj (PvDict d)) -> pg_dget d k = v ->
  pgx_sim s (pg_obj_set_key s i k v).
Proof.
  intros s i d k v E Hv. unfold pg_obj_set_key. rewrite E. eapply pgx_sim_upd; [exact E|].
  assert (H : forall k2, pg_dget (pg_dset d k v) k2 = pg_dget d k2).
  { intros k2. destruct (pg_key_eqb k2 k) eqn:Ek.
    - apply pg_key_eqb_eq in Ek. subst k2. rewrite pg_dget_dset_eq. symmetry. exact Hv.
    - apply pg_dget_dset_neq. intros ->. rewrite pg_key_eqb_refl in Ek. discriminate. }
  split; [|split].
  - intros k2 _. apply H.
  - left. apply H.
  - left. apply H.
Qed.

Lemma pgy_leaf_sim : forall s0 s K,
  (forall k, In k K -> exists dk, pg_lookup s0 k = Some (PcObj (PvDict dk)) /\ pgx_leafy dk) -> pgx_sim s0 s ->
  forall k, In k K -> exists dk, pg_lookup s k = Some (PcObj (PvDict dk)) /\ pgx_leafy dk.
Proof.
  intros s0 s K Hleaf Hsim k Hk. destruct (Hleaf k Hk) as (dk & Ek & Lk).
  destruct (pgx_sim_dict _ _ _ _ Hsim Ek) as (dk' & Ek' & Sk). exists dk'. split; [exact Ek'|eapply pgx_leafy_sim; eassumption].
Qed.

(* ------------------------------------------------------------------ (F1) pushInheritedAttributesToPageInternal on the flat root *)
Definition pgy_F1 (cur : N) : pg_store * pg_ka -> pg_key -> pg_store * pg_ka :=
  fun '(s, ka) key =>
    if pg_is_inh key then
      let oh := pg_hget s (PvRef cur) key in
      let '(s, oh) :=
        if pg_is_ref oh then (s, oh)
        else if pg_is_scalar oh then (s, oh)
        else let '(s', k) := pg_alloc s (PcObj oh) in (pg_obj_set_key s' cur key (PvRef k), PvRef k) in
      (pg_obj_del_key s cur key, pg_ka_push ka key oh)
    else (s, ka).

Definition pgy_F2 (f : nat) (cur : N) (ka : pg_ka) : pg_store * option pg_err -> nat -> pg_store * option pg_err :=
  fun '(s, e) idx =>
    match e with
    | Some _ => (s, e)
    | None =>
      let arr := match pg_rv s (pg_hget s (PvRef cur) pgk_Kids) with PvArr l => l | _ => [] end in
      match nth_error arr idx with
      | None => (s, None)
      | Some kid =>
        if pg_is_dict_of_type s kid pgk_Pages then
          match kid with
          | PvRef k => pg_pia f k ka s
          | _ => (s, Some PeUnm)
          end
        else
          match kid with
          | PvRef k =>
              (fold_left (fun s kv =>
                 if pg_has_key s (PvRef k) (fst kv) then s else pg_obj_set_key s k (fst kv) (snd kv)) ka s, None)
          | _ => match ka with
                 | [] => (s, None)
                 | _ => (s, Some PeUnm)
                 end
          end
      end
    end.

Lemma pgy_pia_unfold : forall f cur ka s,
  pg_pia (S f) cur ka s =
  let keys := match pg_rv s (PvRef cur) with PvDict d => pg_nonnull_keys s d | _ => [] end in
  let '(s1, ka1) := fold_left (pgy_F1 cur) keys (s, ka) in
  let nk := match pg_rv s1 (pg_hget s1 (PvRef cur) pgk_Kids) with PvArr l => length l | _ => O end in
  fold_left (pgy_F2 f cur ka1) (seq 0 nk) (s1, None).
Proof. reflexivity. Qed.

Lemma pgy_inh_fold : forall cur keys s ka,
  (forall kv, In kv ka -> pg_is_inh (fst kv) = true) ->
  exists s' ka', fold_left (pgy_F1 cur) keys (s, ka) = (s', ka') /\ pgx_sim s s' /\
                 (forall kv, In kv ka' -> pg_is_inh (fst kv) = true).
Proof.
  intros cur keys. induction keys as [|key t IH]; intros s ka Hka.
  - exists s, ka. split; [reflexivity|split; [apply pgx_sim_refl|exact Hka]].
  - cbn [fold_left]. unfold pgy_F1 at 2.
    destruct (pg_is_inh key) eqn:Ei.
    + destruct (pgy_inh_soft key Ei) as [Hs Ht].
      set (oh := pg_hget s (PvRef cur) key).
      assert (Hstep : exists s1 oh1,
                (if pg_is_ref oh then (s, oh) else if pg_is_scalar oh then (s, oh)
                 else let '(s', k) := pg_alloc s (PcObj oh) in (pg_obj_set_key s' cur key (PvRef k), PvRef k)) = (s1, oh1) /\
                pgx_sim s s1).
      { destruct (pg_is_ref oh); [exists s, oh; split; [reflexivity|apply pgx_sim_refl]|].
        destruct (pg_is_scalar oh); [exists s, oh; split; [reflexivity|apply pgx_sim_refl]|].
        pose proof (pgx_sim_alloc s (PcObj oh)) as Ha.
        destruct (pg_alloc s (PcObj oh)) as [s' k]. cbn [fst] in Ha.
        eexists _, _. split; [reflexivity|]. eapply pgx_sim_trans; [exact Ha|]. apply pgx_sim_set_key; assumption. }
      destruct Hstep as (s1 & oh1 & -> & H1).
      destruct (IH (pg_obj_del_key s1 cur key) (pg_ka_push ka key oh1)) as (s' & ka' & E & H2 & H3).
      { intros kv Hin. unfold pg_ka_push in Hin. apply pgy_dins_in in Hin. destruct Hin as [->|Hin]; [exact Ei|apply Hka, Hin]. }
      exists s', ka'. split; [exact E|split; [|exact H3]].
      eapply pgx_sim_trans; [exact H1|]. eapply pgx_sim_trans; [|exact H2]. apply pgx_sim_del_key; assumption.
    + apply IH. exact Hka.
Qed.

(* the pushed keys are written to a kid that lacks them *)
Lemma pgy_ka_fold : forall (ka : pg_ka) s k,
  (forall kv, In kv ka -> pg_is_inh (fst kv) = true) ->
  pgx_sim s (fold_left (fun s (kv : pg_key * pg_val) =>
                          if pg_has_key s (PvRef k) (fst kv) then s else pg_obj_set_key s k (fst kv) (snd kv)) ka s).
Proof.
  induction ka as [|kv t IH]; intros s k Hka; [apply pgx_sim_refl|]. cbn [fold_left].
  eapply pgx_sim_trans; [|apply IH; intros x Hx; apply Hka; right; exact Hx].
  destruct (pg_has_key s (PvRef k) (fst kv)); [apply pgx_sim_refl|].
  destruct (pgy_inh_soft (fst kv) (Hka kv (or_introl eq_refl))). apply pgx_sim_set_key; assumption.
Qed.

Section PgyPiaFlat.
  Context (f : nat) (pn : N) (K : list N) (s0 : pg_store) (d0 : pg_dict) (ka : pg_ka).
  Context (Hpn : pg_lookup s0 pn = Some (PcObj (PvDict d0))).
  Context (Hkids : pg_dget d0 pgk_Kids = PvArr (map PvRef K)).
  Context (Hleaf : forall k, In k K -> exists dk, pg_lookup s0 k = Some (PcObj (PvDict dk)) /\ pgx_leafy dk).
  Context (Hka : forall kv, In kv ka -> pg_is_inh (fst kv) = true).

  Lemma pgy_kids_sim : forall s, pgx_sim s0 s -> pg_hget s (PvRef pn) pgk_Kids = PvArr (map PvRef K).
  Proof.
    intros s Hsim. destruct (pgx_sim_dict _ _ _ _ Hsim Hpn) as (d1 & Hpn1 & (Hh1 & _)).
    rewrite (pgx_hget_ref s pn d1 pgk_Kids Hpn1), (Hh1 pgk_Kids pgx_kids_hard). exact Hkids.
  Qed.

  Lemma pgy_pia_loop : forall n a s,
    (a + n = length K)%nat -> pgx_sim s0 s ->
    exists s', fold_left (pgy_F2 f pn ka) (seq a n) (s, None) = (s', None) /\ pgx_sim s0 s'.
  Proof.
    induction n as [|n IH]; intros a s Hlen Hsim.
    - exists s. split; [reflexivity|exact Hsim].
    - cbn [seq fold_left].
      assert (Ha : (a < length K)%nat) by lia.
      destruct (nth_error K a) as [k|] eqn:Ek; [|apply nth_error_None in Ek; lia].
      assert (Hink : In k K) by (eapply nth_error_In; exact Ek).
      destruct (pgy_leaf_sim s0 s K Hleaf Hsim k Hink) as (dk & Edk & Ldk).
      destruct (pgx_leafy_not_pages _ _ _ Edk Ldk) as (Hnp & _ & _).
      unfold pgy_F2 at 2. rewrite (pgy_kids_sim s Hsim). cbn [pg_rv].
      rewrite pgx_nth_map_ref, Ek. cbn [option_map]. rewrite Hnp.
      apply IH; [lia|]. eapply pgx_sim_trans; [exact Hsim|]. apply pgy_ka_fold. exact Hka.
  Qed.
End PgyPiaFlat.

Lemma pgy_pia_flat : forall f pn K s0 d0,
  pg_lookup s0 pn = Some (PcObj (PvDict d0)) -> pg_dget d0 pgk_Kids = PvArr (map PvRef K) ->
  (forall k, In k K -> exists dk, pg_lookup s0 k = Some (PcObj (PvDict dk)) /\ pgx_leafy dk) ->
  exists s', pg_pia (S f) pn [] s0 = (s', None) /\ pgx_sim s0 s'.
Proof.
  intros f pn K s0 d0 Hpn Hkids Hleaf. rewrite pgy_pia_unfold. cbv zeta.
  match goal with |- context [fold_left (pgy_F1 pn) ?ks ?init] => set (X := fold_left (pgy_F1 pn) ks init) end.
  destruct (pgy_inh_fold pn (match pg_rv s0 (PvRef pn) with PvDict d => pg_nonnull_keys s0 d | _ => [] end) s0 [])
    as (s1 & ka1 & E1 & H1 & Hka1); [intros kv []|].
  assert (EX : X = (s1, ka1)) by exact E1. rewrite EX. clear X E1 EX.
  rewrite (pgy_kids_sim pn K s0 d0 Hpn Hkids s1 H1). cbn [pg_rv]. rewrite map_length.
  destruct (pgy_pia_loop f pn K s0 d0 ka1 Hpn Hkids Hleaf Hka1 (length K) O s1 eq_refl H1) as (s' & E & H2).
  exists s'. split; [exact E|exact H2].
Qed.

Lemma pgy_push_after_cache_flat : forall p K, pgx_flat p K ->
  exists s', pg_push_after_cache p = (pd_with_pushed (pd_with_store p s') true, None) /\ pgx_sim (pd_store p) s'.
Proof.
  intros p K (pn & d & Hroot & Hpn & Hkids & _ & _ & _ & _ & _ & _ & Hleaf & _).
  unfold pg_push_after_cache. rewrite Hroot. change 110%nat with (S 109).
  destruct (pgy_pia_flat 109 pn K (pd_store p) d Hpn Hkids Hleaf) as (s' & -> & Hsim).
  exists s'. split; [reflexivity|exact Hsim].
Qed.

(* Pages::cache on a flat tree, cache empty or filled with /Kids *)
Lemma pgy_cache_any : forall p K, pgx_flat p K -> (pd_all p = [] \/ pd_all p = K) ->
  exists s', pg_cache p = (pd_with_all (pd_with_store p s') K, None) /\ pgx_sim (pd_store p) s'.
Proof.
  intros p K Hf Hall. destruct (pd_all p) as [|x t] eqn:Ea.
  - apply pgx_cache_flat; assumption.
  - destruct Hall as [Hall|Hall]; [discriminate|].
    exists (pd_store p). split; [|apply pgx_sim_refl].
    unfold pg_cache, pg_cache_core. rewrite Ea. cbn [andb].
    f_equal. destruct p; cbn in *. subst. reflexivity.
Qed.

(* ------------------------------------------------------------------ (F2) the rest of flattenPagesTree *)
Lemma pgy_index_snoc : forall pre x i, ~ In x pre ->
  pg_index (pre ++ [x]) i =
  match pg_index pre i with Some k => Some k | None => if i =? x then Some (length pre) else None end.
Proof.
  induction pre as [|y t IH]; intros x i Hx; cbn [app pg_index length].
  - destruct (i =? x); reflexivity.
  - destruct (i =? y) eqn:E; [reflexivity|].
    rewrite IH by (intros H; apply Hx; right; exact H).
    destruct (pg_index t i); cbn [option_map]; [reflexivity|]. destruct (i =? x); reflexivity.
Qed.

Definition pgy_G (pn : N) : pg_store * list (N * Z) * option pg_err * Z -> N -> pg_store * list (N * Z) * option pg_err * Z :=
  fun '(s, m, e, i) pg =>
    match e with
    | Some _ => (s, m, e, i)
    | None =>
      match pg_pos_find m pg with
      | Some _ => (s, m, Some PeQ, i)
      | None => (pg_obj_set_key s pg pgk_Parent (PvRef pn), (pg, i) :: m, None, (i + 1)%Z)
      end
    end.

Lemma pgy_tail_loop : forall pn s0 suf pre s m,
  NoDup (pre ++ suf) ->
  (forall k, In k suf -> exists dk, pg_lookup s0 k = Some (PcObj (PvDict dk)) /\ pgx_leafy dk) ->
  pgx_sim s0 s ->
  (forall i, pg_pos_find m i = option_map Z.of_nat (pg_index pre i)) -> map fst m = rev pre ->
  exists s' m' z, fold_left (pgy_G pn) suf (s, m, None, Z.of_nat (length pre)) = (s', m', None, z) /\
    pgx_sim s0 s' /\
    (forall i, pg_pos_find m' i = option_map Z.of_nat (pg_index (pre ++ suf) i)) /\ map fst m' = rev (pre ++ suf).
Proof.
  intros pn s0 suf. induction suf as [|x t IH]; intros pre s m Hnd Hleaf Hsim Hm Hkeys.
  - exists s, m, (Z.of_nat (length pre)). rewrite app_nil_r. repeat split; assumption.
  - cbn [fold_left]. unfold pgy_G at 2.
    assert (Hx : ~ In x pre).
    { intros H. apply NoDup_remove_2 in Hnd. apply Hnd. apply in_or_app. left. exact H. }
    rewrite Hm. assert (pg_index pre x = None) as -> by (apply pg_index_none; exact Hx). cbn [option_map].
    destruct (pgy_leaf_sim s0 s (x :: t) Hleaf Hsim x (or_introl eq_refl)) as (dk & Edk & [Lk _]).
    replace (Z.of_nat (length pre) + 1)%Z with (Z.of_nat (length (pre ++ [x]))) by (rewrite app_length; cbn [length]; lia).
    replace (pre ++ x :: t) with ((pre ++ [x]) ++ t) in * by (rewrite <- app_assoc; reflexivity).
    apply IH.
    + exact Hnd.
    + intros k Hk. apply Hleaf. right. exact Hk.
    + eapply pgx_sim_trans; [exact Hsim|]. eapply pgy_sim_parent; eassumption.
    + intros i. cbn [pg_pos_find]. rewrite (pgy_index_snoc pre x i Hx), Hm.
      destruct (i =? x) eqn:E.
      * apply N.eqb_eq in E. subst i. assert (pg_index pre x = None) as -> by (apply pg_index_none; exact Hx). reflexivity.
      * destruct (pg_index pre i); reflexivity.
    + cbn [map fst]. rewrite rev_app_distr, Hkeys. reflexivity.
Qed.

Lemma pgy_flatten_tail_flat : forall p K, pgx_flat p K -> pd_all p = K -> pd_pos p = [] ->
  exists s' m, pg_flatten_tail p = (pd_with_store (pd_with_pos p m) s', None) /\ pgx_sim (pd_store p) s' /\
    (forall i, pg_pos_find m i = option_map Z.of_nat (pg_index K i)) /\ NoDup (map fst m).
Proof.
  intros p K (pn & d & Hroot & Hpn & Hkids & Hcount & _ & _ & _ & _ & Hnd & Hleaf & _) Hall Hpos.
  unfold pg_flatten_tail. rewrite Hroot, Hall, Hpos.
  destruct (pgy_tail_loop pn (pd_store p) K [] (pd_store p) [] Hnd Hleaf (pgx_sim_refl _) (fun i => eq_refl) eq_refl)
    as (s1 & m & z & E & H1 & Hm & Hkeys).
  cbn [app length] in E, Hm, Hkeys.
  match goal with |- context [fold_left ?F K ?init] => set (X := fold_left F K init) end.
  assert (EX : X = (s1, m, None, z)) by exact E. rewrite EX. clear X EX E.
  cbn [pd_all pd_with_pos pd_with_store pd_store pd_invalid]. rewrite Hall.
  destruct (pgx_sim_dict _ _ _ _ H1 Hpn) as (d1 & Hpn1 & (Hh1 & _)).
  assert (Hk1 : pg_dget d1 pgk_Kids = PvArr (map PvRef K)) by (rewrite (Hh1 pgk_Kids pgx_kids_hard); exact Hkids).
  pose proof (pgy_sim_same s1 pn d1 pgk_Kids _ Hpn1 Hk1) as H2.
  set (s2 := pg_obj_set_key s1 pn pgk_Kids (PvArr (map PvRef K))) in *.
  destruct (pgx_sim_dict _ _ _ _ H2 Hpn1) as (d2 & Hpn2 & (Hh2 & _)).
  rewrite (pgx_hget_ref s2 pn d2 pgk_Count Hpn2), (Hh2 pgk_Count pgx_count_hard), (Hh1 pgk_Count pgx_count_hard), Hcount.
  unfold pg_uint. cbn [pg_rv].
  assert ((pg_len K <? 0)%Z = false) as -> by (apply Z.ltb_ge; unfold pg_len; lia).
  rewrite Z.eqb_refl.
  exists s2, m. split; [reflexivity|split; [eapply pgx_sim_trans; eassumption|split; [exact Hm|]]].
  rewrite Hkeys. apply NoDup_rev, Hnd.
Qed.

(* ------------------------------------------------------------------ pg_inv from pgx_flat *)
Lemma pgy_inv_of_flat : forall p K, pgx_flat p K -> pd_all p = K ->
  (forall i, pg_pos_find (pd_pos p) i = option_map Z.of_nat (pg_index K i)) -> NoDup (map fst (pd_pos p)) -> pg_inv p.
Proof.
  intros p K (pn & d & Hroot & Hpn & Hkids & Hcount & Hpar & Hpnroot & Hpnk & Hrootk & Hnd & Hleaf & Hinv) Hall Hm Hkeys.
  exists pn, d. rewrite Hall. repeat (split; [assumption|]). split; [|split; [exact Hm|split; [exact Hkeys|exact Hinv]]].
  intros i Hi. destruct (Hleaf i Hi) as (dk & -> & _). discriminate.
Qed.

(* ------------------------------------------------------------------ (F3) flattenPagesTree on a flat clean tree *)
Lemma pgx_flatten_flat : forall p K, pgx_flat p K -> (pd_all p = [] \/ pd_all p = K) -> pd_pos p = [] ->
  exists p', pg_flatten p = (p', None) /\ pgx_flat p' K /\ pd_all p' = K /\
     (forall i, pg_pos_find (pd_pos p') i = option_map Z.of_nat (pg_index K i)) /\ NoDup (map fst (pd_pos p')) /\
     pgx_sim (pd_store p) (pd_store p') /\ pd_root p' = pd_root p /\ pd_omap p' = pd_omap p /\ pd_reg p' = pd_reg p /\
     pg_inv p'.
Proof.
  intros p K Hf Hall Hpos.
  pose proof (pgx_flat_invalid p K Hf) as Hinv.
  unfold pg_flatten, pg_flatten_gen. rewrite Hpos. unfold pg_push_gen. rewrite andb_false_r.
  destruct (pgy_cache_any p K Hf Hall) as (s1 & -> & H1).
  set (p1 := pd_with_all (pd_with_store p s1) K).
  assert (Hf1 : pgx_flat p1 K).
  { eapply pgx_flat_eq; [| | |exact (pgx_flat_sim p K s1 Hf H1)]; [reflexivity|reflexivity|exact Hinv]. }
  destruct (pgy_push_after_cache_flat p1 K Hf1) as (s2 & -> & H2).
  set (p2 := pd_with_pushed (pd_with_store p1 s2) true).
  assert (Hf2 : pgx_flat p2 K).
  { eapply pgx_flat_eq; [| | |exact (pgx_flat_sim p1 K s2 Hf1 H2)]; [reflexivity|reflexivity|exact Hinv]. }
  destruct (pgy_flatten_tail_flat p2 K Hf2 eq_refl Hpos) as (s3 & m & -> & H3 & Hm & Hkeys).
  set (p3 := pd_with_store (pd_with_pos p2 m) s3).
  assert (Hf3 : pgx_flat p3 K).
  { eapply pgx_flat_eq; [| | |exact (pgx_flat_sim p2 K s3 Hf2 H3)]; [reflexivity|reflexivity|exact Hinv]. }
  exists p3. split; [reflexivity|split; [exact Hf3|split; [reflexivity|split; [exact Hm|split; [exact Hkeys|]]]]].
  split; [|split; [reflexivity|split; [reflexivity|split; [reflexivity|]]]].
  - cbn [p3 pd_store pd_with_store]. eapply pgx_sim_trans; [exact H1|]. eapply pgx_sim_trans; [exact H2|exact H3].
  - apply (pgy_inv_of_flat p3 K Hf3 eq_refl Hm Hkeys).
Qed.

(* ------------------------------------------------------------------ (P) pushInheritedAttributesToPage on a flat clean tree *)
Lemma pgx_push_flat : forall p K, pgx_flat p K -> (pd_all p = [] \/ pd_all p = K) ->
  exists p', pg_push p false = (p', None) /\ pgx_flat p' K /\
     (pd_all p' = K \/ (pd_pushed p = true /\ p' = p)) /\ pd_pos p' = pd_pos p /\
     pgx_sim (pd_store p) (pd_store p') /\ pd_root p' = pd_root p /\ pd_omap p' = pd_omap p /\ pd_reg p' = pd_reg p.
Proof.
  intros p K Hf Hall.
  pose proof (pgx_flat_invalid p K Hf) as Hinv.
  unfold pg_push, pg_push_gen. cbn [negb]. rewrite andb_true_r.
  destruct (pd_pushed p) eqn:Ep.
  - exists p. split; [reflexivity|split; [exact Hf|split; [right; split; reflexivity|]]].
    split; [reflexivity|split; [apply pgx_sim_refl|repeat split]].
  - destruct (pgy_cache_any p K Hf Hall) as (s1 & -> & H1).
    set (p1 := pd_with_all (pd_with_store p s1) K).
    assert (Hf1 : pgx_flat p1 K).
    { eapply pgx_flat_eq; [| | |exact (pgx_flat_sim p K s1 Hf H1)]; [reflexivity|reflexivity|exact Hinv]. }
    destruct (pgy_push_after_cache_flat p1 K Hf1) as (s2 & -> & H2).
    set (p2 := pd_with_pushed (pd_with_store p1 s2) true).
    assert (Hf2 : pgx_flat p2 K).
    { eapply pgx_flat_eq; [| | |exact (pgx_flat_sim p1 K s2 Hf1 H2)]; [reflexivity|reflexivity|exact Hinv]. }
    exists p2. split; [reflexivity|split; [exact Hf2|split; [left; reflexivity|]]].
    split; [reflexivity|split; [|repeat split]].
    cbn [p2 p1 pd_store pd_with_pushed pd_with_store pd_with_all]. eapply pgx_sim_trans; eassumption.
Qed.
