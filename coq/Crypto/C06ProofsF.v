(* C06 proofs, part F: the per-object key cache of QPDF::getKeyForObject. The cache is keyed by the object only, not
   by use_aes. As long as every leaf that is decrypted asks for the same kind of key (all RC4, or all AES, or V 5
   where the file key is used directly) a sequence of leaves is decrypted exactly as each leaf on its own, so the
   round-trip theorem of part C carries over to sequences; a V 4 file whose /StrF and /StmF differ in kind (one RC4,
   one AESV2) is the refuted part (finding F11): the stream data of an object whose dictionary holds a string is
   decrypted with the key computed for the string. *)
From QV Require Import Base.Bytes Crypto.Nib Filters.Filters Filters.C15ProofsB.
From QV Require Import Crypto.MD5 Crypto.SHA2Fast Crypto.AES Crypto.AesPdf Crypto.KeyDeriv Crypto.IsoRef Crypto.Perms.
From QV Require Import Crypto.C05Proofs Crypto.CbcProofs Crypto.AesInv Crypto.C05ProofsB Crypto.C05ProofsC.
From QV Require Import Crypto.IsoEnc Crypto.DecReader Crypto.C06ProofsB Crypto.C06ProofsC.
From Coq Require Import Arith.
Local Open Scope N_scope.

Lemma c06_apply_cipher : forall st ua num gen data,
  c06_apply st ua num gen data = c06_cipher ua (kd_compute_data_key (c6t_key st) num gen ua (c6t_V st)) data.
Proof. intros. unfold c06_apply, kd_decrypt_data, c06_cipher. destruct ua; reflexivity. Qed.

Lemma c06_decrypt_leaf_dec : forall st l,
  c06_decrypt_leaf st l =
  match c06_leaf_dec st l with
  | None => C6LeafOk (c6l_data l) false
  | Some (ua, w) => match c06_apply st ua (c6l_num l) (c6l_gen l) (c6l_data l) with
                    | Some r => C6LeafOk r w
                    | None => C6LeafError
                    end
  end.
Proof.
  intros st l. unfold c06_decrypt_leaf, c06_leaf_dec. destruct (c6l_kind l) as [w|s].
  - unfold c06_decrypt_string. destruct (c06_where_decrypts w); [|reflexivity].
    destruct (if 4 <=? c6t_V st then c06_switch (c6t_cf_string st) else Some (false, false)) as [[ua wn]|]; reflexivity.
  - unfold c06_decrypt_stream. destruct (c6d_xref s); [reflexivity|].
    destruct (if 4 <=? c6t_V st then c06_switch (c06_stream_method st s) else Some (false, false)) as [[ua wn]|]; reflexivity.
Qed.

(* two use_aes flags that lead to the same per-object keys (always so for V 5) *)
Definition c06_flag_equiv (st : c06_state) (ua ua0 : bool) : Prop :=
  forall n g, kd_compute_data_key (c6t_key st) n g ua (c6t_V st) = kd_compute_data_key (c6t_key st) n g ua0 (c6t_V st).

Definition c06_uniform (st : c06_state) (ls : list c06_leaf) (ua0 : bool) : Prop :=
  forall l ua w, In l ls -> c06_leaf_dec st l = Some (ua, w) -> c06_flag_equiv st ua ua0.

Definition c06_cache_ok (st : c06_state) (ua0 : bool) (cache : option c06_cache) : Prop :=
  match cache with
  | None => True
  | Some ch => c6c_key ch = kd_compute_data_key (c6t_key st) (c6c_num ch) (c6c_gen ch) ua0 (c6t_V st)
  end.

Lemma c06_seq_is_map : forall st ua0 ls cache,
  c06_cache_ok st ua0 cache -> c06_uniform st ls ua0 ->
  c06_decrypt_seq st cache ls = map (c06_decrypt_leaf st) ls.
Proof.
  intros st ua0. induction ls as [|l t IH]; intros cache Hc Hu; [reflexivity|].
  cbn [c06_decrypt_seq map]. rewrite c06_decrypt_leaf_dec.
  assert (Hut : c06_uniform st t ua0) by (intros l' ua w Hin; apply Hu; right; exact Hin).
  destruct (c06_leaf_dec st l) as [[ua w]|] eqn:Ed.
  - pose proof (Hu l ua w (or_introl eq_refl) Ed) as He.
    rewrite c06_apply_cipher.
    unfold c06_key_for_object. destruct cache as [ch|].
    + destruct ((c6c_num ch =? c6l_num l) && (c6c_gen ch =? c6l_gen l)) eqn:Eh.
      * apply andb_true_iff in Eh. destruct Eh as [E1 E2]. apply N.eqb_eq in E1, E2.
        cbn [fst snd]. cbn [c06_cache_ok] in Hc. rewrite Hc, E1, E2, <- (He (c6l_num l) (c6l_gen l)).
        f_equal. apply IH; [exact Hc|exact Hut].
      * cbn [fst snd]. f_equal. apply IH; [|exact Hut]. cbn [c06_cache_ok c6c_key c6c_num c6c_gen]. apply He.
    + cbn [fst snd]. f_equal. apply IH; [|exact Hut]. cbn [c06_cache_ok c6c_key c6c_num c6c_gen]. apply He.
  - f_equal. apply IH; assumption.
Qed.

(* for V 5 every sequence is uniform *)
Lemma c06_uniform_V5 : forall st ls ua0, 5 <=? c6t_V st = true -> c06_uniform st ls ua0.
Proof.
  intros st ls ua0 H5 l ua w _ _ n g. unfold kd_compute_data_key. rewrite H5. reflexivity.
Qed.

(* decrypt_of_reference_encrypt for a SEQUENCE of leaves read through the key cache (any starting cache that holds a
   key of the common kind, in particular the empty one): under the hypotheses of the per-leaf theorem and
   uniformity, the plaintext of every leaf *)
Lemma decrypt_of_reference_encrypt_sequence_partial_lemma : forall c key st leaves enc ua0,
  c06_wf_cfg c -> c06_state_for c key st -> c06_key_fits c key -> Forall c06_leaf_wf leaves ->
  map (c06_iso_encrypt_leaf c key) leaves = map Some enc ->
  c06_uniform st enc ua0 ->
  c06_decrypt_seq st None enc = map (fun l => C6LeafOk (c6l_data l) false) leaves.
Proof.
  intros c key st leaves enc ua0 Hwf Hst Hkf HF Henc Hu.
  rewrite (c06_seq_is_map st ua0 enc None I Hu).
  apply (decrypt_of_reference_encrypt_data_lemma c key st leaves enc); assumption.
Qed.

(* Without uniformity the statement is false on the faithful model (finding F11). V 4, /StrF = AESV2, /StmF = RC4 (V2);
   object 12: a string in the stream dictionary, then the stream data. The stream is RC4-decrypted with the key that was
   computed (with the "sAlT" suffix) for the string. *)
Definition c06_f11_cfg : c06_cfg :=
  {| c6_V := 4; c6_R := 4; c6_keylen := 16; c6_P := 4294967292; c6_encmeta := true; c6_id := [];
     c6_cf := [([83], C6AESV2); ([84], C6V2)]; c6_stmf := [84]; c6_strf := [83] |}.
Definition c06_f11_state : c06_state :=
  {| c6t_V := 4; c6t_R := 4; c6t_P := (-4)%Z; c6t_encmeta := true; c6t_filters := [([83], C6eAes); ([84], C6eRc4)];
     c6t_cf_stream := C6eRc4; c6t_cf_string := C6eAes; c6t_cf_file := C6eRc4; c6t_key := repeat 7 16%nat;
     c6t_user_password := []; c6t_user_matched := true; c6t_owner_matched := false |}.
Definition c06_f11_leaves : list c06_leaf :=
  [ {| c6l_kind := C6String C6InObject; c6l_num := 12; c6l_gen := 0; c6l_iv := map N.of_nat (seq 1 16); c6l_data := [97; 98; 99] |};
    {| c6l_kind := C6Stream {| c6d_xref := false; c6d_filter := C6FlNone; c6d_dparms := C6DpOne C6PmNull; c6d_rootmeta := false |};
       c6l_num := 12; c6l_gen := 0; c6l_iv := map N.of_nat (seq 1 16); c6l_data := [100; 101; 102; 103] |} ].

Definition c06_f11_enc : list c06_leaf :=
  map (fun l => match c06_iso_encrypt_leaf c06_f11_cfg (repeat 7 16%nat) l with Some x => x | None => l end) c06_f11_leaves.

Lemma key_cache_refuted_lemma :
  c06_wf_cfg c06_f11_cfg /\ c06_state_for c06_f11_cfg (repeat 7 16%nat) c06_f11_state /\
  exists enc, map (c06_iso_encrypt_leaf c06_f11_cfg (repeat 7 16%nat)) c06_f11_leaves = map Some enc /\
              (* each leaf on its own comes back ... *)
              map (c06_decrypt_leaf c06_f11_state) enc = map (fun l => C6LeafOk (c6l_data l) false) c06_f11_leaves /\
              (* ... in sequence the stream does not *)
              c06_decrypt_seq c06_f11_state None enc <> map (fun l => C6LeafOk (c6l_data l) false) c06_f11_leaves.
Proof.
  split; [split; reflexivity|]. split; [constructor; intros; reflexivity|].
  exists c06_f11_enc. split; [vm_compute; reflexivity|]. split; [vm_compute; reflexivity|].
  vm_compute. discriminate.
Qed.

Print Assumptions decrypt_of_reference_encrypt_sequence_partial_lemma.
