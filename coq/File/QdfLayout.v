(* Specification: the layout rules of QDF files, written from manual/qdf.rst ("The following attributes
   characterize a QDF file") as a recogniser over the lines of a file.  It shares nothing with the model of
   fix-qdf (File/FixQdf.v): it is a grammar, not the repair machine, and it never computes an offset.

     file      ::= "%PDF-..." <any line> "%QDF-1.0" body
     body(k)   ::= { blank | comment } ( object(k) body(k') | classic-tail | EOF-after-xref-stream )
     object(k) ::= "k 0 obj" content ( "endobj" blank
                                     | "stream" data "endstream" "endobj" blank {blank|comment} length-object(k+1) )
     length-object(m) ::= "m 0 obj" digits "endobj" blank                        (the object right after its stream)
     objstm(k) ::= "k 0 obj" content[/Type /ObjStm] "stream" pair{n} member(k+1,0) .. member(k+n,n-1) "endstream" "endobj" blank
     pair      ::= digits SP digits                                               (one pair per line)
     member(m,i) ::= "%% Object stream: object m, index i..." content
     xrefstm   ::= "k 0 obj" content[/Type /XRef, no /Filter] "stream" data "endstream" "endobj" blank "startxref" digits "%%EOF"
     classic-tail ::= "xref" ... "trailer <<" ... ">>" "startxref" digits "%%EOF"

   Every keyword line is the keyword followed by a single LF and nothing else; objects are numbered 1, 2, 3 ...
   in file order, members of object streams included.  The verdict names the first rule that fails and the
   line (1-based) where it fails:
     1 header / third line   2 numbering   3 obj/endobj/stream/endstream not on their own lines (object not closed)
     4 stream length is not the next indirect object   5 object stream members / pairs   6 xref stream filtered
     7 tail (xref, trailer, startxref, EOF)   8 text between objects   9 no blank line after endobj *)
From Coq Require Import String Ascii.
From QV Require Import Base.Bytes.
Local Open Scope N_scope.

Definition ql_s (s : string) : list N := map N_of_ascii (list_ascii_of_string s).
Definition ql_line (s : string) : list N := ql_s s ++ [10].

Definition qlk_pdf : list N := Eval vm_compute in ql_s "%PDF-".
Definition qlk_qdf : list N := Eval vm_compute in ql_line "%QDF-1.0".
Definition qlk_obj : list N := Eval vm_compute in ql_line " 0 obj".
Definition qlk_endobj : list N := Eval vm_compute in ql_line "endobj".
Definition qlk_stream : list N := Eval vm_compute in ql_line "stream".
Definition qlk_endstream : list N := Eval vm_compute in ql_line "endstream".
Definition qlk_xref : list N := Eval vm_compute in ql_line "xref".
Definition qlk_trailer : list N := Eval vm_compute in ql_line "trailer <<".
Definition qlk_close : list N := Eval vm_compute in ql_line ">>".
Definition qlk_startxref : list N := Eval vm_compute in ql_line "startxref".
Definition qlk_eof : list N := Eval vm_compute in ql_line "%%EOF".
Definition qlk_objstm : list N := Eval vm_compute in ql_line "  /Type /ObjStm".
Definition qlk_xrefty : list N := Eval vm_compute in ql_line "  /Type /XRef".
Definition qlk_filter : list N := Eval vm_compute in ql_s "/Filter".
Definition qlk_length : list N := Eval vm_compute in ql_s "  /Length ".
Definition qlk_0R : list N := Eval vm_compute in ql_line " 0 R".
Definition qlk_member : list N := Eval vm_compute in ql_s "%% Object stream: object ".
Definition qlk_index : list N := Eval vm_compute in ql_s ", index ".

Inductive ql_verdict := QlOk | QlBad (rule line : N).

Definition ql_same (a b : list N) : bool := list_eqb N.eqb a b.

Fixpoint ql_after (p s : list N) : option (list N) :=
  match p, s with
  | [], _ => Some s
  | x :: p', y :: s' => if x =? y then ql_after p' s' else None
  | _ :: _, [] => None
  end.

Fixpoint ql_has (pat s : list N) : bool :=
  match ql_after pat s with
  | Some _ => true
  | None => match s with [] => false | _ :: t => ql_has pat t end
  end.

(* leading decimal number: (value, number of digits, rest) *)
Fixpoint ql_number (s : list N) (v k : N) : N * N * list N :=
  match s with
  | c :: t => if (48 <=? c) && (c <=? 57) then ql_number t (v * 10 + (c - 48)) (k + 1) else (v, k, s)
  | [] => (v, k, [])
  end.

(* "<m> 0 obj\n" -> m *)
Definition ql_obj_header (l : list N) : option N :=
  match ql_number l 0 0 with
  | (v, k, r) => if (0 <? k) && ql_same r qlk_obj then Some v else None
  end.

(* "<digits>\n" *)
Definition ql_digits_line (l : list N) : bool :=
  match ql_number l 0 0 with (_, k, r) => (0 <? k) && ql_same r [10] end.

(* "<a> <b>\n" -> a *)
Definition ql_pair_line (l : list N) : option N :=
  match ql_number l 0 0 with
  | (a, k, 32 :: r) => if 0 <? k then
                         match ql_number r 0 0 with (_, k2, r2) => if (0 <? k2) && ql_same r2 [10] then Some a else None end
                       else None
  | _ => None
  end.

(* "%% Object stream: object <m>, index <i>..." -> (m, i) *)
Definition ql_member_header (l : list N) : option (N * N) :=
  match ql_after qlk_member l with
  | Some r => match ql_number r 0 0 with
              | (m, k, r1) => if 0 <? k then
                                match ql_after qlk_index r1 with
                                | Some r2 => match ql_number r2 0 0 with (i, k2, _) => if 0 <? k2 then Some (m, i) else None end
                                | None => None
                                end
                              else None
              end
  | None => None
  end.

Definition ql_is_member_line (l : list N) : bool :=
  match ql_after qlk_member l with Some _ => true | None => false end.

Definition ql_blank (l : list N) : bool := ql_same l [10].
Definition ql_comment (l : list N) : bool := match l with 37 :: _ => true | _ => false end.

(* "  /Length <m> 0 R\n" -> m *)
Definition ql_length_ref (l : list N) : option N :=
  match ql_after qlk_length l with
  | Some r => match ql_number r 0 0 with (m, k, r1) => if (0 <? k) && ql_same r1 qlk_0R then Some m else None end
  | None => None
  end.

(* what the text of an object (between its header and endobj / stream) says about it.  The writer puts
   "/Type /ObjStm" and "/Type /XRef" on a line of their own, at the top level of the dictionary (two spaces);
   the same words inside a string or as the beginning of a longer name do not make an object a stream of
   that type. *)
Record ql_content := { qc_objstm : bool; qc_xref : bool; qc_filter : bool; qc_length_ref : option N }.

(* content lines up to "endobj" or "stream": (summary, which keyword ended it: true = stream, rest, lines used).
   None when the object is not closed before the next object header, "xref" or the end of the file. *)
Fixpoint ql_content_scan (ls : list (list N)) (c : ql_content) (n : N)
  : option (ql_content * bool * list (list N) * N) :=
  match ls with
  | [] => None
  | l :: t =>
      if ql_same l qlk_endobj then Some (c, false, t, n + 1)
      else if ql_same l qlk_stream then Some (c, true, t, n + 1)
      else if ql_same l qlk_xref || ql_same l qlk_endstream then None
      else match ql_obj_header l with
           | Some _ => None
           | None =>
               let c' := {| qc_objstm := qc_objstm c || ql_same l qlk_objstm;
                            qc_xref := qc_xref c || ql_same l qlk_xrefty;
                            qc_filter := qc_filter c || ql_has qlk_filter l;
                            qc_length_ref := match ql_length_ref l with Some m => Some m | None => qc_length_ref c end |} in
               ql_content_scan t c' (n + 1)
           end
  end.

(* stream data: everything up to the first line that is exactly "endstream" *)
Fixpoint ql_data_scan (ls : list (list N)) (n : N) : option (list (list N) * N) :=
  match ls with
  | [] => None
  | l :: t => if ql_same l qlk_endstream then Some (t, n + 1) else ql_data_scan t (n + 1)
  end.

(* blank and comment lines *)
Fixpoint ql_skip_filler (ls : list (list N)) (n : N) : list (list N) * N :=
  match ls with
  | l :: t => if ql_blank l || ql_comment l then ql_skip_filler t (n + 1) else (ls, n)
  | [] => ([], n)
  end.

(* the pair lines at the start of an object stream: numbered from [m] on; returns how many *)
Fixpoint ql_pairs (ls : list (list N)) (m cnt n : N) : option (N * list (list N) * N) :=
  match ls with
  | l :: t => if ql_is_member_line l then Some (cnt, ls, n)
              else match ql_pair_line l with
                   | Some a => if a =? m then ql_pairs t (m + 1) (cnt + 1) (n + 1) else None
                   | None => None
                   end
  | [] => None
  end.

(* members: header (number m, index i) then free text up to the next header or "endstream" *)
Fixpoint ql_members (ls : list (list N)) (m i : N) (in_member : bool) (n : N) : (N * list (list N) * N) + N :=
  match ls with
  | [] => inr n
  | l :: t =>
      if ql_same l qlk_endstream then (if in_member then inl (i, t, n + 1) else inr n)
      else match ql_member_header l with
           | Some (m', i') => if (m' =? m) && (i' =? i) then ql_members t (m + 1) (i + 1) true (n + 1) else inr n
           | None => if ql_is_member_line l then inr n
                     else if in_member then ql_members t m i true (n + 1) else inr n
           end
  end.

Definition ql_expect (pat : list N) (ls : list (list N)) : option (list (list N)) :=
  match ls with
  | l :: t => if ql_same l pat then Some t else None
  | [] => None
  end.

(* startxref <digits> %%EOF and nothing more (a final empty piece after the last LF is how the file ends) *)
Definition ql_tail (ls : list (list N)) (n : N) : ql_verdict :=
  match ls with
  | a :: b :: c :: rest =>
      if ql_same a qlk_startxref && ql_digits_line b && ql_same c qlk_eof
      then match rest with [] | [[]] => QlOk | _ => QlBad 7 (n + 3) end
      else QlBad 7 n
  | _ => QlBad 7 n
  end.

Fixpoint ql_until (pat : list N) (ls : list (list N)) (n : N) : option (list (list N) * N) :=
  match ls with
  | [] => None
  | l :: t => if ql_same l pat then Some (t, n + 1) else ql_until pat t (n + 1)
  end.

(* body: k is the number the next object must have; n the 1-based number of the first line of ls *)
Fixpoint ql_body (fuel : nat) (ls : list (list N)) (k n : N) : ql_verdict :=
  match fuel with
  | O => QlBad 7 n
  | S f =>
      match ql_skip_filler ls n with
      | ([], n1) => QlBad 7 n1
      | (l :: t, n1) =>
          if ql_same l qlk_xref then
            match ql_until qlk_trailer t (n1 + 1) with
            | None => QlBad 7 n1
            | Some (t2, n2) => match ql_until qlk_close t2 n2 with
                               | None => QlBad 7 n2
                               | Some (t3, n3) => ql_tail t3 n3
                               end
            end
          else
          match ql_obj_header l with
          | None => QlBad 8 n1
          | Some m =>
              if negb (m =? k) then QlBad 2 n1 else
              match ql_content_scan t {| qc_objstm := false; qc_xref := false; qc_filter := false; qc_length_ref := None |} (n1 + 1) with
              | None => QlBad 3 n1
              | Some (c, false, t2, n2) =>
                  (* plain object; object streams and xref streams must be streams *)
                  if qc_objstm c then QlBad 5 n1 else if qc_xref c then QlBad 7 n1 else
                  match ql_expect [10] t2 with
                  | Some t3 => ql_body f t3 (k + 1) (n2 + 1)
                  | None => QlBad 9 n2
                  end
              | Some (c, true, t2, n2) =>
                  if qc_objstm c then
                    match ql_pairs t2 (k + 1) 0 n2 with
                    | None => QlBad 5 n2
                    | Some (cnt, t3, n3) =>
                        match ql_members t3 (k + 1) 0 false n3 with
                        | inr bad => QlBad 5 bad
                        | inl (members, t4, n4) =>
                            if negb (members =? cnt) then QlBad 5 n3 else
                            match ql_expect qlk_endobj t4 with
                            | None => QlBad 3 n4
                            | Some t5 => match ql_expect [10] t5 with
                                         | Some t6 => ql_body f t6 (k + 1 + members) (n4 + 2)
                                         | None => QlBad 9 (n4 + 1)
                                         end
                            end
                        end
                    end
                  else if qc_xref c then
                    if qc_filter c then QlBad 6 n1 else
                    match ql_data_scan t2 n2 with
                    | None => QlBad 3 n2
                    | Some (t3, n3) =>
                        match ql_expect qlk_endobj t3 with
                        | None => QlBad 3 n3
                        | Some t4 => match ql_expect [10] t4 with
                                     | Some t5 => ql_tail t5 (n3 + 2)
                                     | None => QlBad 9 (n3 + 1)
                                     end
                        end
                    end
                  else
                    (* ordinary stream: /Length (k+1) 0 R, and object k+1 is the next object and is a number *)
                    match qc_length_ref c with
                    | None => QlBad 4 n1
                    | Some lr =>
                        if negb (lr =? k + 1) then QlBad 4 n1 else
                        match ql_data_scan t2 n2 with
                        | None => QlBad 3 n2
                        | Some (t3, n3) =>
                            match ql_expect qlk_endobj t3 with
                            | None => QlBad 3 n3
                            | Some t4 =>
                                match ql_expect [10] t4 with
                                | None => QlBad 9 (n3 + 1)
                                | Some t5 =>
                                    match ql_skip_filler t5 (n3 + 2) with
                                    | (h :: d :: e :: b :: t6, n5) =>
                                        match ql_obj_header h with
                                        | Some m2 =>
                                            if negb (m2 =? k + 1) then QlBad 4 n5
                                            else if negb (ql_digits_line d) then QlBad 4 (n5 + 1)
                                            else if negb (ql_same e qlk_endobj) then QlBad 4 (n5 + 2)
                                            else if negb (ql_blank b) then QlBad 9 (n5 + 3)
                                            else ql_body f t6 (k + 2) (n5 + 4)
                                        | None => QlBad 4 n5
                                        end
                                    | (_, n5) => QlBad 4 n5
                                    end
                                end
                            end
                        end
                    end
              end
          end
      end
  end.

(* lines with their LF; the piece after the last LF (possibly empty) is the last element *)
Fixpoint ql_lines (s : list N) (cur : list N) (acc : list (list N)) : list (list N) :=
  match s with
  | [] => rev' (rev' cur :: acc)
  | c :: t => if c =? 10 then ql_lines t [] (rev' (10 :: cur) :: acc) else ql_lines t (c :: cur) acc
  end.

Definition qdf_layout_lines (ls : list (list N)) : ql_verdict :=
  match ls with
  | l1 :: l2 :: l3 :: rest =>
      match ql_after qlk_pdf l1 with
      | None => QlBad 1 1
      | Some _ => if ql_same l3 qlk_qdf then ql_body (S (length rest)) rest 1 4 else QlBad 1 3
      end
  | _ => QlBad 1 1
  end.

Definition qdf_layout (file : list N) : ql_verdict := qdf_layout_lines (ql_lines file [] []).
Definition qdf_layout_ok (file : list N) : bool := match qdf_layout file with QlOk => true | QlBad _ _ => false end.
