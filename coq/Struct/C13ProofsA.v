(* C13 - proofs about the page-tree model (Struct/PgModel.v) against the list specification
   (Struct/PgSpec.v).

   The invariant pg_inv is what the comment at the top of QPDF_pages.cc promises "outside of any
   call to the library" once the tree has been flattened: /Kids of the root node lists exactly
   all_pages, /Count is its length, pageobj_to_pages_pos is the inverse of all_pages, no page
   occurs twice.  The theorems show that the insertion / removal / lookup paths of the model keep
   it and change the list exactly as the plain list operations of PgSpec do (on the content
   markers of the pages), and that rejected calls change nothing. *)
From QV Require Import Base.Bytes Struct.PgModel Struct.PgSpec.
Local Open Scope N_scope.

(* ------------------------------------------------------------------ keys and dictionaries *)
Lemma pg_key_cmp_eq : forall a b, pg_key_cmp a b = Eq <-> a = b.
Proof.
  induction a as [|x a IH]; destruct b as [|y b]; simpl; split; intros H; try reflexivity; try discriminate.
  - destruct (x ?= y) eqn:E; try discriminate. apply N.compare_eq_iff in E. subst. f_equal. apply IH, H.
  - injection H as -> ->. rewrite N.compare_refl. apply IH. reflexivity.
Qed.

Lemma pg_key_eqb_eq : forall a b, pg_key_eqb a b = true <-> a = b.
Proof.
  intros a b. unfold pg_key_eqb. destruct (pg_key_cmp a b) eqn:E; split; intros H; try discriminate; try reflexivity.
  - apply pg_key_cmp_eq, E.
  - apply pg_key_cmp_eq in H. congruence.
  - apply pg_key_cmp_eq in H. congruence.
Qed.

Lemma pg_key_eqb_refl : forall a, pg_key_eqb a a = true.
Proof. intros. apply pg_key_eqb_eq. reflexivity. Qed.

Lemma pg_key_eqb_neq : forall a b, a <> b -> pg_key_eqb a b = false.
Proof. intros a b H. destruct (pg_key_eqb a b) eqn:E; [apply pg_key_eqb_eq in E; contradiction | reflexivity]. Qed.

Lemma pg_dget_dins_eq : forall d k v, pg_dget (pg_dins d k v) k = v.
Proof.
  induction d as [|[k' v'] d IH]; intros k v; simpl.
  - rewrite pg_key_eqb_refl. reflexivity.
  - destruct (pg_key_cmp k k') eqn:E; simpl.
    + rewrite pg_key_eqb_refl. reflexivity.
    + rewrite pg_key_eqb_refl. reflexivity.
    + assert (pg_key_eqb k k' = false) as ->. { unfold pg_key_eqb. rewrite E. reflexivity. }
      apply IH.
Qed.

Lemma pg_dget_dins_neq : forall d k v k2, k2 <> k -> pg_dget (pg_dins d k v) k2 = pg_dget d k2.
Proof.
  induction d as [|[k' v'] d IH]; intros k v k2 Hn; simpl.
  - rewrite pg_key_eqb_neq by assumption. reflexivity.
  - destruct (pg_key_cmp k k') eqn:E; simpl.
    + apply pg_key_cmp_eq in E. subst k'. rewrite pg_key_eqb_neq by assumption. reflexivity.
    + rewrite (pg_key_eqb_neq k2 k) by assumption. reflexivity.
    + destruct (pg_key_eqb k2 k'); [reflexivity | apply IH, Hn].
Qed.

Lemma pg_dget_ddel_neq : forall d k k2, k2 <> k -> pg_dget (pg_ddel d k) k2 = pg_dget d k2.
Proof.
  induction d as [|[k' v'] d IH]; intros k k2 Hn; simpl; [reflexivity|].
  destruct (pg_key_eqb k k') eqn:E.
  - apply pg_key_eqb_eq in E. subst k'. rewrite pg_key_eqb_neq by assumption. apply IH, Hn.
  - simpl. destruct (pg_key_eqb k2 k'); [reflexivity | apply IH, Hn].
Qed.

Lemma pg_dget_ddel_eq : forall d k, pg_dget (pg_ddel d k) k = PvNull.
Proof.
  induction d as [|[k' v'] d IH]; intros k; simpl; [reflexivity|].
  destruct (pg_key_eqb k k') eqn:E; [apply IH|]. simpl. rewrite E. apply IH.
Qed.

Lemma pg_dget_dset_neq : forall d k v k2, k2 <> k -> pg_dget (pg_dset d k v) k2 = pg_dget d k2.
Proof.
  intros d k v k2 Hn. unfold pg_dset.
  destruct v; try (apply pg_dget_dins_neq, Hn). apply pg_dget_ddel_neq, Hn.
Qed.

Lemma pg_dget_dset_eq : forall d k v, pg_dget (pg_dset d k v) k = v.
Proof.
  intros d k v. unfold pg_dset. destruct v; try apply pg_dget_dins_eq. apply pg_dget_ddel_eq.
Qed.

(* ------------------------------------------------------------------ object cache *)
Lemma pg_lookup_supd : forall s i c j, pg_lookup (pg_supd s i c) j = if j =? i then Some c else pg_lookup s j.
Proof.
  induction s as [|[k c'] s IH]; intros i c j; simpl.
  - reflexivity.
  - destruct (i =? k) eqn:E; simpl.
    + apply N.eqb_eq in E. subst k. destruct (j =? i); reflexivity.
    + destruct (j =? k) eqn:E2.
      * apply N.eqb_eq in E2. subst k. rewrite N.eqb_sym, E. reflexivity.
      * apply IH.
Qed.

Lemma pg_max_id_ge : forall (s : pg_store) m j c, In (j, c) s -> j <= fold_left (fun m (p : N * pg_cell) => N.max m (fst p)) s m.
Proof.
  induction s as [|[k c'] s IH]; intros m j c H; simpl in *; [contradiction|].
  destruct H as [H|H].
  - inversion H; subst. clear IH.
    assert (forall (l : pg_store) a, a <= fold_left (fun m (p : N * pg_cell) => N.max m (fst p)) l a) as Hmono.
    { induction l as [|[x y] l IHl]; intros a; simpl; [lia|]. etransitivity; [|apply IHl]. lia. }
    etransitivity; [|apply Hmono]. lia.
  - eapply IH, H.
Qed.

Lemma pg_lookup_in : forall s j c, pg_lookup s j = Some c -> In (j, c) s.
Proof.
  induction s as [|[k c'] s IH]; intros j c H; simpl in *; [discriminate|].
  destruct (j =? k) eqn:E.
  - apply N.eqb_eq in E. inversion H; subst. left. reflexivity.
  - right. apply IH, H.
Qed.

Lemma pg_next_id_fresh : forall s, pg_lookup s (pg_next_id s) = None.
Proof.
  intros s. destruct (pg_lookup s (pg_next_id s)) eqn:E; [|reflexivity].
  apply pg_lookup_in in E. apply pg_max_id_ge with (m := 0) in E.
  unfold pg_next_id, pg_max_id in *. lia.
Qed.

Lemma pg_lookup_lt_next : forall s j c, pg_lookup s j = Some c -> j < pg_next_id s.
Proof.
  intros s j c H. apply pg_lookup_in in H. apply pg_max_id_ge with (m := 0) in H.
  unfold pg_next_id, pg_max_id. lia.
Qed.

Lemma pg_lookup_alloc : forall s c j,
  pg_lookup (fst (pg_alloc s c)) j = if j =? pg_next_id s then Some c else pg_lookup s j.
Proof. intros. unfold pg_alloc. simpl. reflexivity. Qed.

Lemma pg_alloc_snd : forall s c, snd (pg_alloc s c) = pg_next_id s.
Proof. reflexivity. Qed.

(* replaceKey through an indirect handle *)
Lemma pg_lookup_obj_set_key_other : forall s i k v j, j <> i -> pg_lookup (pg_obj_set_key s i k v) j = pg_lookup s j.
Proof.
  intros s i k v j Hn. unfold pg_obj_set_key.
  destruct (pg_lookup s i) as [[[]|]|]; try reflexivity.
  rewrite pg_lookup_supd. apply N.eqb_neq in Hn. rewrite Hn. reflexivity.
Qed.

Lemma pg_lookup_obj_set_key_dict : forall s i k v d,
  pg_lookup s i = Some (PcObj (PvDict d)) ->
  pg_lookup (pg_obj_set_key s i k v) i = Some (PcObj (PvDict (pg_dset d k v))).
Proof.
  intros s i k v d H. unfold pg_obj_set_key. rewrite H. rewrite pg_lookup_supd, N.eqb_refl. reflexivity.
Qed.

Lemma pg_lookup_obj_set_key_some : forall s i k v j,
  pg_lookup s j <> None -> pg_lookup (pg_obj_set_key s i k v) j <> None.
Proof.
  intros s i k v j H. destruct (N.eq_dec j i) as [->|Hn].
  - unfold pg_obj_set_key. destruct (pg_lookup s i) as [[[]|]|] eqn:E; try assumption; try (rewrite E; assumption).
    rewrite pg_lookup_supd, N.eqb_refl. discriminate.
  - rewrite pg_lookup_obj_set_key_other by assumption. assumption.
Qed.

(* ------------------------------------------------------------------ list helpers *)
Lemma pg_list_ins_spec : forall {A} (l : list A) n x, (n <= length l)%nat -> pg_list_ins l n x = firstn n l ++ x :: skipn n l.
Proof.
  intros A l n. revert l. induction n as [|n IH]; intros l x H.
  - destruct l; reflexivity.
  - destruct l as [|h t]; simpl in *; [lia|]. f_equal. apply IH. lia.
Qed.

Lemma pg_list_del_spec : forall {A} (l : list A) n, pg_list_del l n = firstn n l ++ skipn (S n) l.
Proof.
  intros A l. induction l as [|h t IH]; intros n; simpl.
  - destruct n; reflexivity.
  - destruct n; simpl; [reflexivity|]. f_equal. apply IH.
Qed.

Lemma pg_list_ins_length : forall {A} (l : list A) n x, (n <= length l)%nat -> length (pg_list_ins l n x) = S (length l).
Proof.
  intros. rewrite pg_list_ins_spec by assumption. rewrite app_length. simpl. rewrite firstn_length, skipn_length. lia.
Qed.

Lemma pg_list_del_length : forall {A} (l : list A) n, (n < length l)%nat -> length (pg_list_del l n) = pred (length l).
Proof.
  intros. rewrite pg_list_del_spec. rewrite app_length, firstn_length, skipn_length. lia.
Qed.

Lemma pg_list_ins_map : forall {A B} (f : A -> B) l n x, map f (pg_list_ins l n x) = pg_list_ins (map f l) n (f x).
Proof.
  intros A B f l n. revert l. induction n as [|n IH]; intros l x; [destruct l; reflexivity|].
  destruct l; simpl; [reflexivity|]. f_equal. apply IH.
Qed.

Lemma pg_list_del_map : forall {A B} (f : A -> B) l n, map f (pg_list_del l n) = pg_list_del (map f l) n.
Proof.
  intros A B f l. induction l as [|h t IH]; intros n; simpl; [destruct n; reflexivity|].
  destruct n; simpl; [reflexivity|]. f_equal. apply IH.
Qed.

Lemma nth_error_pg_list_ins : forall {A} (l : list A) n x k, (n <= length l)%nat ->
  nth_error (pg_list_ins l n x) k =
    if Nat.ltb k n then nth_error l k else if Nat.eqb k n then Some x else nth_error l (pred k).
Proof.
  intros A l n. revert l. induction n as [|n IH]; intros l x k H.
  - destruct l; destruct k; simpl; reflexivity.
  - destruct l as [|h t]; simpl in *; [lia|].
    destruct k; simpl; [reflexivity|].
    rewrite IH by lia.
    change (Nat.ltb (S k) (S n)) with (Nat.ltb k n). change (Nat.eqb (S k) (S n)) with (Nat.eqb k n).
    destruct (Nat.ltb k n) eqn:E1; [reflexivity|].
    destruct (Nat.eqb k n) eqn:E2; [reflexivity|].
    apply Nat.ltb_ge in E1. apply Nat.eqb_neq in E2. destruct k; [lia|]. reflexivity.
Qed.

Lemma nth_error_pg_list_del : forall {A} (l : list A) n k,
  nth_error (pg_list_del l n) k = if Nat.ltb k n then nth_error l k else nth_error l (S k).
Proof.
  intros A l. induction l as [|h t IH]; intros n k; simpl.
  - destruct n; destruct k; simpl; try reflexivity; destruct (Nat.ltb _ _); reflexivity.
  - destruct n; simpl.
    + reflexivity.
    + destruct k; simpl; [reflexivity|]. rewrite IH. change (Nat.ltb (S k) (S n)) with (Nat.ltb k n). reflexivity.
Qed.

(* ------------------------------------------------------------------ position of an object in a list *)
Fixpoint pg_index (l : list N) (i : N) : option nat :=
  match l with
  | [] => None
  | x :: t => if i =? x then Some O else option_map S (pg_index t i)
  end.

Lemma pg_index_none : forall l i, pg_index l i = None <-> ~ In i l.
Proof.
  induction l as [|x t IH]; intros i; simpl; split; intros H; try reflexivity; try tauto.
  - destruct (i =? x) eqn:E; [discriminate|]. apply N.eqb_neq in E.
    destruct (pg_index t i) eqn:E2; [discriminate|]. apply IH in E2. intros [Hx|Hx]; [congruence|contradiction].
  - destruct (i =? x) eqn:E; [apply N.eqb_eq in E; subst; exfalso; apply H; left; reflexivity|].
    assert (pg_index t i = None) as ->; [apply IH; tauto | reflexivity].
Qed.

Lemma pg_index_nth : forall l i k, pg_index l i = Some k -> nth_error l k = Some i.
Proof.
  induction l as [|x t IH]; intros i k H; simpl in *; [discriminate|].
  destruct (i =? x) eqn:E.
  - apply N.eqb_eq in E. inversion H; subst. reflexivity.
  - destruct (pg_index t i) eqn:E2; [|discriminate]. inversion H; subst. simpl. apply IH, E2.
Qed.

Lemma pg_nth_index : forall l i k, NoDup l -> nth_error l k = Some i -> pg_index l i = Some k.
Proof.
  induction l as [|x t IH]; intros i k Hnd H; [destruct k; discriminate|].
  inversion Hnd as [|? ? Hx Hnd']; subst. simpl. destruct k; simpl in H.
  - inversion H; subst. rewrite N.eqb_refl. reflexivity.
  - destruct (i =? x) eqn:E.
    + apply N.eqb_eq in E. subst. exfalso. apply Hx. eapply nth_error_In, H.
    + rewrite (IH i k Hnd' H). reflexivity.
Qed.

Lemma pg_index_lt : forall l i k, pg_index l i = Some k -> (k < length l)%nat.
Proof. intros l i k H. apply pg_index_nth in H. apply nth_error_Some. congruence. Qed.

Lemma pg_index_ins : forall l n ni i, ~ In ni l -> (n <= length l)%nat ->
  pg_index (pg_list_ins l n ni) i =
    if i =? ni then Some n
    else match pg_index l i with Some k => Some (if Nat.ltb k n then k else S k) | None => None end.
Proof.
  intros l n. revert l. induction n as [|n IH]; intros l ni i Hni Hn.
  - assert (pg_list_ins l 0 ni = ni :: l) as -> by (destruct l; reflexivity). simpl.
    destruct (i =? ni); [reflexivity|]. destruct (pg_index l i); reflexivity.
  - destruct l as [|x t]; simpl in Hn; [lia|]. simpl.
    assert (x <> ni) as Hx by (intros ->; apply Hni; left; reflexivity).
    assert (~ In ni t) as Hni' by (intros H; apply Hni; right; exact H).
    destruct (i =? x) eqn:E.
    + apply N.eqb_eq in E. subst i. apply N.eqb_neq in Hx. rewrite Hx. reflexivity.
    + rewrite IH by (try assumption; lia). destruct (i =? ni); [reflexivity|].
      destruct (pg_index t i) as [k|]; simpl; [|reflexivity].
      change (Nat.ltb (S k) (S n)) with (Nat.ltb k n). destruct (Nat.ltb k n); reflexivity.
Qed.

Lemma pg_index_del : forall l n i, NoDup l ->
  pg_index (pg_list_del l n) i =
    match pg_index l i with
    | Some k => if Nat.ltb k n then Some k else if Nat.eqb k n then None else Some (pred k)
    | None => None
    end.
Proof.
  induction l as [|x t IH]; intros n i Hnd; [destruct n; reflexivity|].
  inversion Hnd as [|? ? Hx Hnd']; subst. destruct n; simpl.
  - destruct (i =? x) eqn:E.
    + apply N.eqb_eq in E. subst. apply pg_index_none. exact Hx.
    + destruct (pg_index t i); reflexivity.
  - destruct (i =? x) eqn:E; [reflexivity|].
    rewrite IH by assumption. destruct (pg_index t i) as [k|]; simpl; [|reflexivity].
    change (Nat.ltb (S k) (S n)) with (Nat.ltb k n). change (Nat.eqb (S k) (S n)) with (Nat.eqb k n).
    destruct (Nat.ltb k n) eqn:E1; [reflexivity|]. destruct (Nat.eqb k n) eqn:E2; [reflexivity|].
    apply Nat.ltb_ge in E1. apply Nat.eqb_neq in E2. destruct k; [lia|]. reflexivity.
Qed.

Lemma pg_NoDup_ins : forall (l : list N) n x, NoDup l -> ~ In x l -> (n <= length l)%nat -> NoDup (pg_list_ins l n x).
Proof.
  intros l n x Hnd Hx Hn. rewrite pg_list_ins_spec by assumption.
  apply (NoDup_Add (a := x) (l := firstn n l ++ skipn n l)).
  - apply Add_app.
  - rewrite firstn_skipn. split; assumption.
Qed.

Lemma pg_In_ins : forall (l : list N) n x y, (n <= length l)%nat -> In y (pg_list_ins l n x) <-> y = x \/ In y l.
Proof.
  intros l n x y Hn. rewrite pg_list_ins_spec by assumption. rewrite in_app_iff. simpl.
  assert (In y l <-> In y (firstn n l) \/ In y (skipn n l)) as HH.
  { rewrite <- in_app_iff. rewrite firstn_skipn. tauto. }
  rewrite HH. intuition.
Qed.

Lemma pg_NoDup_del : forall (l : list N) n, NoDup l -> NoDup (pg_list_del l n).
Proof.
  induction l as [|x t IH]; intros n Hnd; [destruct n; constructor|].
  inversion Hnd as [|? ? Hx Hnd']; subst. destruct n; simpl; [assumption|].
  constructor; [|apply IH, Hnd'].
  intros H. apply Hx. rewrite pg_list_del_spec in H. apply in_app_iff in H. destruct H as [H|H].
  - rewrite <- (firstn_skipn n t). apply in_app_iff. left. exact H.
  - rewrite <- (firstn_skipn (S n) t). apply in_app_iff. right. exact H.
Qed.

Lemma pg_In_del : forall (l : list N) n y, In y (pg_list_del l n) -> In y l.
Proof.
  intros l n y H. rewrite pg_list_del_spec in H. apply in_app_iff in H. destruct H as [H|H].
  - rewrite <- (firstn_skipn n l). apply in_app_iff. left. exact H.
  - rewrite <- (firstn_skipn (S n) l). apply in_app_iff. right. exact H.
Qed.

(* ------------------------------------------------------------------ pageobj_to_pages_pos *)
Lemma pg_pos_find_set : forall m i z j, pg_pos_find (pg_pos_set m i z) j = if j =? i then Some z else pg_pos_find m j.
Proof.
  induction m as [|[k z'] m IH]; intros i z j; simpl; [reflexivity|].
  destruct (i =? k) eqn:E; simpl.
  - apply N.eqb_eq in E. subst k. destruct (j =? i); reflexivity.
  - destruct (j =? k) eqn:E2.
    + apply N.eqb_eq in E2. subst k. rewrite N.eqb_sym, E. reflexivity.
    + apply IH.
Qed.

Lemma pg_pos_find_in : forall m i z, pg_pos_find m i = Some z -> In i (map fst m).
Proof.
  induction m as [|[k z'] m IH]; intros i z H; simpl in *; [discriminate|].
  destruct (i =? k) eqn:E; [apply N.eqb_eq in E; left; congruence | right; eapply IH, H].
Qed.

Lemma pg_pos_find_erase : forall m i j, NoDup (map fst m) ->
  pg_pos_find (pg_pos_erase m i) j = if j =? i then None else pg_pos_find m j.
Proof.
  induction m as [|[k z'] m IH]; intros i j Hnd; simpl; [destruct (j =? i); reflexivity|].
  inversion Hnd as [|? ? Hk Hnd']; subst.
  destruct (i =? k) eqn:E.
  - apply N.eqb_eq in E. subst k. destruct (j =? i) eqn:E2; [|reflexivity].
    apply N.eqb_eq in E2. subst j. destruct (pg_pos_find m i) eqn:E3; [|reflexivity].
    exfalso. apply Hk. eapply pg_pos_find_in, E3.
  - simpl. destruct (j =? k) eqn:E2.
    + apply N.eqb_eq in E2. subst k. rewrite N.eqb_sym, E. reflexivity.
    + apply IH, Hnd'.
Qed.

Lemma pg_pos_set_keys : forall m i z x, In x (map fst (pg_pos_set m i z)) <-> x = i \/ In x (map fst m).
Proof.
  induction m as [|[k z'] m IH]; intros i z x; simpl; [intuition|].
  destruct (i =? k) eqn:E; simpl.
  - apply N.eqb_eq in E. subst. intuition.
  - rewrite IH. intuition.
Qed.

Lemma pg_pos_set_nodup : forall m i z, NoDup (map fst m) -> NoDup (map fst (pg_pos_set m i z)).
Proof.
  induction m as [|[k z'] m IH]; intros i z Hnd; simpl; [constructor; [tauto|constructor]|].
  inversion Hnd as [|? ? Hk Hnd']; subst.
  destruct (i =? k) eqn:E; simpl.
  - apply N.eqb_eq in E. subst. constructor; assumption.
  - constructor; [|apply IH, Hnd']. rewrite pg_pos_set_keys. apply N.eqb_neq in E. intros [H|H]; [congruence|contradiction].
Qed.

Lemma pg_pos_erase_nodup : forall m i, NoDup (map fst m) -> NoDup (map fst (pg_pos_erase m i)).
Proof.
  induction m as [|[k z'] m IH]; intros i Hnd; simpl; [constructor|].
  inversion Hnd as [|? ? Hk Hnd']; subst.
  destruct (i =? k); [assumption|]. simpl. constructor; [|apply IH, Hnd'].
  intros H. apply Hk. clear - H. induction m as [|[a b] m IHm]; simpl in *; [contradiction|].
  destruct (i =? a); [right; exact H|]. simpl in H. destruct H; [left; assumption | right; apply IHm; assumption].
Qed.

(* the renumbering loop over all'[from..] *)
Lemma pg_renumber_gen : forall (l : list N) a m i, NoDup l ->
  pg_pos_find (fold_left (fun m (ix : nat * N) => pg_pos_set m (snd ix) (Z.of_nat (fst ix))) (combine (seq a (length l)) l) m) i =
    match pg_index l i with Some k => Some (Z.of_nat (a + k)) | None => pg_pos_find m i end.
Proof.
  induction l as [|x t IH]; intros a m i Hnd; simpl; [reflexivity|].
  inversion Hnd as [|? ? Hx Hnd']; subst.
  rewrite IH by assumption. rewrite pg_pos_find_set.
  destruct (i =? x) eqn:E.
  - apply N.eqb_eq in E. subst i. apply pg_index_none in Hx. rewrite Hx. simpl. rewrite Nat.add_0_r. reflexivity.
  - destruct (pg_index t i); simpl; [|reflexivity]. f_equal. lia.
Qed.

Lemma pg_renumber_nodup_gen : forall (L : list (nat * N)) m, NoDup (map fst m) ->
  NoDup (map fst (fold_left (fun m (ix : nat * N) => pg_pos_set m (snd ix) (Z.of_nat (fst ix))) L m)).
Proof.
  induction L as [|x L IH]; intros m H; simpl; [assumption|]. apply IH, pg_pos_set_nodup, H.
Qed.

Lemma pg_skipn_combine : forall {A B} n (l1 : list A) (l2 : list B), skipn n (combine l1 l2) = combine (skipn n l1) (skipn n l2).
Proof.
  intros A B n. induction n as [|n IH]; intros l1 l2; [reflexivity|].
  destruct l1; destruct l2; simpl; try reflexivity; [destruct (skipn n l1); reflexivity | apply IH].
Qed.

Lemma pg_skipn_seq : forall n a len, skipn n (seq a len) = seq (a + n) (len - n).
Proof.
  induction n as [|n IH]; intros a len; simpl.
  - rewrite Nat.add_0_r, Nat.sub_0_r. reflexivity.
  - destruct len; simpl; [reflexivity|]. rewrite IH. f_equal. lia.
Qed.

Lemma pg_index_skipn : forall l n i, NoDup l ->
  pg_index (skipn n l) i =
    match pg_index l i with Some k => if Nat.leb n k then Some (k - n)%nat else None | None => None end.
Proof.
  induction l as [|x t IH]; intros n i Hnd; [destruct n; reflexivity|].
  inversion Hnd as [|? ? Hx Hnd']; subst. destruct n; simpl.
  - destruct (i =? x); [reflexivity|]. destruct (pg_index t i) as [k|]; simpl; [|reflexivity]. reflexivity.
  - rewrite IH by assumption. destruct (i =? x) eqn:E.
    + apply N.eqb_eq in E. subst i. apply pg_index_none in Hx. rewrite Hx. reflexivity.
    + destruct (pg_index t i) as [k|]; simpl; reflexivity.
Qed.

Lemma pg_renumber_find : forall m all' from i, NoDup all' ->
  pg_pos_find (pg_renumber m all' from) i =
    match pg_index all' i with
    | Some k => if Nat.leb from k then Some (Z.of_nat k) else pg_pos_find m i
    | None => pg_pos_find m i
    end.
Proof.
  intros m all' from i Hnd. unfold pg_renumber.
  rewrite pg_skipn_combine, pg_skipn_seq. simpl.
  assert (length all' - from = length (skipn from all'))%nat as -> by (rewrite skipn_length; reflexivity).
  rewrite pg_renumber_gen.
  - rewrite pg_index_skipn by assumption. destruct (pg_index all' i) as [k|]; [|reflexivity].
    destruct (Nat.leb from k) eqn:E; [|reflexivity]. apply Nat.leb_le in E. f_equal. lia.
  - clear - Hnd. revert all' Hnd. induction from as [|n IH]; intros l Hnd; [exact Hnd|].
    destruct l as [|x t]; [constructor|]. simpl. apply IH. inversion Hnd; assumption.
Qed.

Lemma pg_renumber_nodup : forall m all' from, NoDup (map fst m) -> NoDup (map fst (pg_renumber m all' from)).
Proof. intros. unfold pg_renumber. apply pg_renumber_nodup_gen. assumption. Qed.

(* ------------------------------------------------------------------ the invariant *)
Definition pg_inv (p : pg_doc) : Prop :=
  exists pn d,
    pg_root_pages p = PvRef pn /\
    pg_lookup (pd_store p) pn = Some (PcObj (PvDict d)) /\
    pg_dget d pgk_Kids = PvArr (map PvRef (pd_all p)) /\
    pg_dget d pgk_Count = PvInt (pg_len (pd_all p)) /\
    pn <> pd_root p /\ ~ In pn (pd_all p) /\ ~ In (pd_root p) (pd_all p) /\
    NoDup (pd_all p) /\
    (forall i, In i (pd_all p) -> pg_lookup (pd_store p) i <> None) /\
    (forall i, pg_pos_find (pd_pos p) i = option_map Z.of_nat (pg_index (pd_all p) i)) /\
    NoDup (map fst (pd_pos p)) /\
    pd_invalid p = false.

Lemma pg_root_pages_ext : forall p p', pd_root p' = pd_root p ->
  pg_lookup (pd_store p') (pd_root p) = pg_lookup (pd_store p) (pd_root p) -> pg_root_pages p' = pg_root_pages p.
Proof. intros p p' Hr Hl. unfold pg_root_pages, pg_hget, pg_rv. rewrite Hr, Hl. reflexivity. Qed.

Lemma pg_insert_core_ok : forall p ni pos,
  pg_inv p -> pg_lookup (pd_store p) ni <> None -> ~ In ni (pd_all p) -> ni <> pd_root p ->
  pg_root_pages p <> PvRef ni -> (0 <= pos <= pg_len (pd_all p))%Z ->
  exists p', pg_insert_core p ni pos = (p', None) /\ pg_inv p' /\
    pd_all p' = pg_list_ins (pd_all p) (Z.to_nat pos) ni /\
    pd_root p' = pd_root p /\ pd_omap p' = pd_omap p /\ pd_reg p' = pd_reg p /\
    (forall j, j <> ni -> pg_root_pages p <> PvRef j -> pg_lookup (pd_store p') j = pg_lookup (pd_store p) j) /\
    (forall k, k <> pgk_Parent -> pg_hget (pd_store p') (PvRef ni) k = pg_hget (pd_store p) (PvRef ni) k).
Proof.
  intros p ni pos (pn & d & Hroot & Hpn & Hkids & Hcount & Hpnroot & Hpnall & Hrootall & Hnd & Hex & Hpos & Hposnd & Hinv)
         Hni Hnin Hniroot Hnipn [Hp0 Hp1].
  assert (ni <> pn) as Hnp by (intros ->; apply Hnipn; exact Hroot).
  unfold pg_insert_core. rewrite Hroot.
  set (s1 := pg_obj_set_key (pd_store p) ni pgk_Parent (PvRef pn)).
  assert (Hs1pn : pg_lookup s1 pn = Some (PcObj (PvDict d))).
  { unfold s1. rewrite pg_lookup_obj_set_key_other by congruence. exact Hpn. }
  assert (Hk1 : pg_hget s1 (PvRef pn) pgk_Kids = PvArr (map PvRef (pd_all p))).
  { unfold pg_hget, pg_rv. rewrite Hs1pn. exact Hkids. }
  rewrite Hk1. cbn [pg_rv]. rewrite map_length.
  unfold pg_len in Hp1.
  assert (Hn : (Z.to_nat pos <= length (pd_all p))%nat) by lia.
  assert (Nat.ltb (length (pd_all p)) (Z.to_nat pos) = false) as -> by (apply Nat.ltb_ge; exact Hn).
  set (n := Z.to_nat pos) in *.
  set (all' := pg_list_ins (pd_all p) n ni).
  rewrite <- (pg_list_ins_map PvRef). fold all'.
  unfold pg_len. rewrite map_length. rewrite Z.eqb_refl. cbn [negb].
  assert (Hnd' : NoDup all') by (apply pg_NoDup_ins; assumption).
  assert (Hidx : forall i, pg_index all' i = if i =? ni then Some n
            else match pg_index (pd_all p) i with Some k => Some (if Nat.ltb k n then k else S k) | None => None end).
  { intros i. apply pg_index_ins; assumption. }
  assert (Hnone : pg_index (pd_all p) ni = None) by (apply pg_index_none; exact Hnin).
  rewrite pg_renumber_find by exact Hnd'. rewrite Hidx, N.eqb_refl.
  assert (Nat.leb (S n) n = false) as -> by (apply Nat.leb_gt; lia).
  rewrite Hpos, Hnone. cbn [option_map].
  eexists. split; [reflexivity|].
  set (s2 := pg_obj_set_key s1 pn pgk_Kids (PvArr (map PvRef all'))).
  set (s3 := pg_obj_set_key s2 pn pgk_Count (PvInt (Z.of_nat (length all')))).
  assert (Hs2pn : pg_lookup s2 pn = Some (PcObj (PvDict (pg_dset d pgk_Kids (PvArr (map PvRef all')))))).
  { unfold s2. apply pg_lookup_obj_set_key_dict. exact Hs1pn. }
  assert (Hs3pn : pg_lookup s3 pn = Some (PcObj (PvDict (pg_dset (pg_dset d pgk_Kids (PvArr (map PvRef all'))) pgk_Count (PvInt (Z.of_nat (length all'))))))).
  { unfold s3. apply pg_lookup_obj_set_key_dict. exact Hs2pn. }
  assert (Hframe : forall j, j <> ni -> j <> pn -> pg_lookup s3 j = pg_lookup (pd_store p) j).
  { intros j Hj1 Hj2. unfold s3, s2, s1. rewrite !pg_lookup_obj_set_key_other by assumption. reflexivity. }
  assert (Hsome : forall j, pg_lookup (pd_store p) j <> None -> pg_lookup s3 j <> None).
  { intros j Hj. unfold s3, s2, s1. repeat apply pg_lookup_obj_set_key_some. exact Hj. }
  split; [|split; [reflexivity|split; [reflexivity|split; [reflexivity|split; [reflexivity|split]]]]].
  - (* invariant *)
    exists pn, (pg_dset (pg_dset d pgk_Kids (PvArr (map PvRef all'))) pgk_Count (PvInt (Z.of_nat (length all')))).
    cbn [pd_store pd_all pd_pos pd_invalid pd_root pd_with_pos pd_with_all pd_with_store].
    split; [|split; [exact Hs3pn|split; [|split; [|split; [exact Hpnroot|split; [|split; [|split; [exact Hnd'|split; [|split; [|split]]]]]]]]]].
    + rewrite <- Hroot. apply pg_root_pages_ext; [reflexivity|].
      cbn [pd_store pd_root]. apply Hframe; congruence.
    + rewrite pg_dget_dset_neq by discriminate. apply pg_dget_dset_eq.
    + apply pg_dget_dset_eq.
    + unfold all'. rewrite pg_In_ins by assumption. intros [H|H]; [congruence|contradiction].
    + unfold all'. rewrite pg_In_ins by assumption. intros [H|H]; [congruence|contradiction].
    + intros i Hi. unfold all' in Hi. rewrite pg_In_ins in Hi by assumption. apply Hsome.
      destruct Hi as [->|Hi]; [exact Hni | apply Hex, Hi].
    + intros i. cbn [pg_pos_find]. rewrite Hidx. destruct (i =? ni) eqn:E.
      * cbn [option_map]. f_equal. unfold n. lia.
      * rewrite pg_renumber_find by exact Hnd'. rewrite Hidx, E, Hpos.
        destruct (pg_index (pd_all p) i) as [k|]; cbn [option_map]; [|reflexivity].
        destruct (Nat.ltb k n) eqn:E2.
        -- apply Nat.ltb_lt in E2. assert (Nat.leb (S n) k = false) as -> by (apply Nat.leb_gt; lia). reflexivity.
        -- apply Nat.ltb_ge in E2. assert (Nat.leb (S n) (S k) = true) as -> by (apply Nat.leb_le; lia). reflexivity.
    + cbn [map fst]. constructor; [|apply pg_renumber_nodup, Hposnd].
      intros Hin.
      assert (pg_pos_find (pg_renumber (pd_pos p) all' (S n)) ni = None) as Hf.
      { rewrite pg_renumber_find by exact Hnd'. rewrite Hidx, N.eqb_refl.
        assert (Nat.leb (S n) n = false) as -> by (apply Nat.leb_gt; lia). rewrite Hpos, Hnone. reflexivity. }
      clear - Hin Hf. induction (pg_renumber (pd_pos p) all' (S n)) as [|[a b] m IHm]; simpl in *; [contradiction|].
      destruct (ni =? a) eqn:E; [discriminate|]. destruct Hin as [H|H]; [apply N.eqb_neq in E; congruence | apply IHm; assumption].
    + exact Hinv.
  - intros j Hj1 Hj2. cbn [pd_store pd_with_pos pd_with_all pd_with_store]. apply Hframe; [exact Hj1|]. intros ->. apply Hj2. reflexivity.
  - intros k Hk. cbn [pd_store pd_with_pos pd_with_all pd_with_store]. unfold pg_hget, pg_rv.
    assert (pg_lookup s3 ni = pg_lookup s1 ni) as -> by (unfold s3, s2; rewrite !pg_lookup_obj_set_key_other by assumption; reflexivity).
    unfold s1, pg_obj_set_key. destruct (pg_lookup (pd_store p) ni) as [[v|]|] eqn:E; try (rewrite E; reflexivity).
    destruct v; try (rewrite E; reflexivity).
    rewrite pg_lookup_supd, N.eqb_refl. rewrite pg_dget_dset_neq by assumption. reflexivity.
Qed.

Lemma pg_erase_core_ok : forall p og k,
  pg_inv p -> pg_index (pd_all p) og = Some k ->
  exists p', pg_erase_core p og (Z.of_nat k) = (p', None) /\ pg_inv p' /\
    pd_all p' = pg_list_del (pd_all p) k /\
    pd_root p' = pd_root p /\ pd_omap p' = pd_omap p /\ pd_reg p' = pd_reg p /\
    (forall j, pg_root_pages p <> PvRef j -> pg_lookup (pd_store p') j = pg_lookup (pd_store p) j).
Proof.
  intros p og k (pn & d & Hroot & Hpn & Hkids & Hcount & Hpnroot & Hpnall & Hrootall & Hnd & Hex & Hpos & Hposnd & Hinv) Hk.
  unfold pg_erase_core. rewrite Hroot.
  assert (Hk1 : pg_hget (pd_store p) (PvRef pn) pgk_Kids = PvArr (map PvRef (pd_all p))).
  { unfold pg_hget, pg_rv. rewrite Hpn. exact Hkids. }
  rewrite Hk1. rewrite Nat2Z.id.
  set (all' := pg_list_del (pd_all p) k).
  rewrite <- (pg_list_del_map PvRef). fold all'.
  unfold pg_len. rewrite map_length. rewrite Z.eqb_refl. cbn [negb orb].
  assert (Hlt : (k < length (pd_all p))%nat) by (eapply pg_index_lt, Hk).
  assert (Nat.leb (length (pd_all p)) k = false) as -> by (apply Nat.leb_gt; exact Hlt).
  eexists. split; [reflexivity|].
  assert (Hnd' : NoDup all') by (apply pg_NoDup_del; assumption).
  set (s2 := pg_obj_set_key (pd_store p) pn pgk_Kids (PvArr (map PvRef all'))).
  set (s3 := pg_obj_set_key s2 pn pgk_Count (PvInt (Z.of_nat (length all')))).
  assert (Hs2pn : pg_lookup s2 pn = Some (PcObj (PvDict (pg_dset d pgk_Kids (PvArr (map PvRef all')))))).
  { unfold s2. apply pg_lookup_obj_set_key_dict. exact Hpn. }
  assert (Hs3pn : pg_lookup s3 pn = Some (PcObj (PvDict (pg_dset (pg_dset d pgk_Kids (PvArr (map PvRef all'))) pgk_Count (PvInt (Z.of_nat (length all'))))))).
  { unfold s3. apply pg_lookup_obj_set_key_dict. exact Hs2pn. }
  assert (Hframe : forall j, j <> pn -> pg_lookup s3 j = pg_lookup (pd_store p) j).
  { intros j Hj. unfold s3, s2. rewrite !pg_lookup_obj_set_key_other by assumption. reflexivity. }
  assert (Hsome : forall j, pg_lookup (pd_store p) j <> None -> pg_lookup s3 j <> None).
  { intros j Hj. unfold s3, s2. repeat apply pg_lookup_obj_set_key_some. exact Hj. }
  assert (Hidx : forall i, pg_index all' i = match pg_index (pd_all p) i with
     | Some k0 => if Nat.ltb k0 k then Some k0 else if Nat.eqb k0 k then None else Some (pred k0) | None => None end).
  { intros i. apply pg_index_del. exact Hnd. }
  split; [|split; [reflexivity|split; [reflexivity|split; [reflexivity|split; [reflexivity|]]]]].
  - exists pn, (pg_dset (pg_dset d pgk_Kids (PvArr (map PvRef all'))) pgk_Count (PvInt (Z.of_nat (length all')))).
    cbn [pd_store pd_all pd_pos pd_invalid pd_root pd_with_pos pd_with_all pd_with_store].
    split; [|split; [exact Hs3pn|split; [|split; [|split; [exact Hpnroot|split; [|split; [|split; [exact Hnd'|split; [|split; [|split]]]]]]]]]].
    + rewrite <- Hroot. apply pg_root_pages_ext; [reflexivity|]. cbn [pd_store pd_root]. apply Hframe. congruence.
    + rewrite pg_dget_dset_neq by discriminate. apply pg_dget_dset_eq.
    + apply pg_dget_dset_eq.
    + intros H. apply Hpnall. eapply pg_In_del, H.
    + intros H. apply Hrootall. eapply pg_In_del, H.
    + intros i Hi. apply Hsome, Hex. eapply pg_In_del, Hi.
    + intros i. rewrite pg_renumber_find by exact Hnd'. rewrite Hidx.
      rewrite pg_pos_find_erase by exact Hposnd. rewrite Hpos.
      destruct (pg_index (pd_all p) i) as [k0|] eqn:E; cbn [option_map].
      * destruct (Nat.ltb k0 k) eqn:E1.
        -- apply Nat.ltb_lt in E1. assert (Nat.leb k k0 = false) as -> by (apply Nat.leb_gt; lia).
           destruct (i =? og) eqn:E3; [|reflexivity]. apply N.eqb_eq in E3. subst i. rewrite Hk in E. inversion E. lia.
        -- apply Nat.ltb_ge in E1. destruct (Nat.eqb k0 k) eqn:E2.
           ++ apply Nat.eqb_eq in E2. subst k0.
              assert (i = og) as ->.
              { apply pg_index_nth in E. apply pg_index_nth in Hk. congruence. }
              rewrite N.eqb_refl. reflexivity.
           ++ apply Nat.eqb_neq in E2. assert (Nat.leb k (pred k0) = true) as -> by (apply Nat.leb_le; lia). reflexivity.
      * destruct (i =? og); reflexivity.
    + apply pg_renumber_nodup, pg_pos_erase_nodup, Hposnd.
    + exact Hinv.
  - intros j Hj. cbn [pd_store pd_with_pos pd_with_all pd_with_store]. apply Hframe. intros ->. apply Hj. reflexivity.
Qed.

(* with a non-empty page list the lazy parts return immediately *)
Lemma pg_inv_pos_nonempty : forall p, pg_inv p -> pd_all p <> [] -> pd_pos p <> [].
Proof.
  intros p (pn & d & _ & _ & _ & _ & _ & _ & _ & _ & _ & Hpos & _) Hne Hnil.
  destruct (pd_all p) as [|x t] eqn:E; [congruence|].
  specialize (Hpos x). rewrite Hnil in Hpos. simpl in Hpos. rewrite N.eqb_refl in Hpos. discriminate.
Qed.

Lemma pg_flatten_inv : forall p, pg_inv p -> pd_all p <> [] -> pg_flatten p = (p, None).
Proof.
  intros p Hi Hne. pose proof (pg_inv_pos_nonempty p Hi Hne) as Hp.
  unfold pg_flatten, pg_flatten_gen. destruct (pd_pos p); [congruence|reflexivity].
Qed.

Lemma pg_all_inv : forall p, pd_all p <> [] -> pg_all p = (p, None).
Proof. intros p Hne. unfold pg_all. destruct (pd_all p); [congruence|reflexivity]. Qed.

Lemma pg_find_inv : forall p og, pg_inv p -> pd_all p <> [] ->
  pg_find p og = match pg_index (pd_all p) og with Some k => (p, None, Z.of_nat k) | None => (p, Some PeQ, 0%Z) end.
Proof.
  intros p og Hi Hne. unfold pg_find. rewrite pg_flatten_inv by assumption.
  destruct Hi as (pn & d & _ & _ & _ & _ & _ & _ & _ & _ & _ & Hpos & _). rewrite Hpos.
  destruct (pg_index (pd_all p) og); reflexivity.
Qed.

(* store extension by makeIndirectObject keeps the invariant *)
Lemma pg_inv_alloc : forall p c, pg_inv p -> pg_inv (pd_with_store p (fst (pg_alloc (pd_store p) c))).
Proof.
  intros p c (pn & d & Hroot & Hpn & Hkids & Hcount & Hpnroot & Hpnall & Hrootall & Hnd & Hex & Hpos & Hposnd & Hinv).
  assert (Hl : forall j, pg_lookup (pd_store p) j <> None -> pg_lookup (fst (pg_alloc (pd_store p) c)) j = pg_lookup (pd_store p) j).
  { intros j Hj. rewrite pg_lookup_alloc. destruct (j =? pg_next_id (pd_store p)) eqn:E; [|reflexivity].
    apply N.eqb_eq in E. subst j. rewrite pg_next_id_fresh in Hj. congruence. }
  assert (Hrootex : pg_lookup (pd_store p) (pd_root p) <> None).
  { unfold pg_root_pages, pg_hget, pg_rv in Hroot. destruct (pg_lookup (pd_store p) (pd_root p)); [discriminate|]. simpl in Hroot. discriminate. }
  exists pn, d. cbn [pd_store pd_all pd_pos pd_invalid pd_root pd_with_store].
  split; [|split; [|repeat split; try assumption]].
  - rewrite <- Hroot. apply pg_root_pages_ext; [reflexivity|]. cbn [pd_store pd_root pd_with_store]. apply Hl, Hrootex.
  - rewrite Hl; [exact Hpn | congruence].
  - intros i Hi. rewrite Hl; apply Hex, Hi.
Qed.

Definition pg_mark (s : pg_store) (i : N) : Z := match pg_marker s i with Some z => z | None => (-1)%Z end.
Definition pg_marks (p : pg_doc) : list Z := map (pg_mark (pd_store p)) (pd_all p).

Lemma pg_mark_ext : forall s s' i, pg_lookup s' i = pg_lookup s i -> pg_mark s' i = pg_mark s i.
Proof. intros s s' i H. unfold pg_mark, pg_marker, pg_hget, pg_rv. rewrite H. reflexivity. Qed.

Lemma pg_marks_ext : forall (s s' : pg_store) (l : list N), (forall i, In i l -> pg_lookup s' i = pg_lookup s i) -> map (pg_mark s') l = map (pg_mark s) l.
Proof. intros s s' l H. apply map_ext_in. intros i Hi. apply pg_mark_ext, H, Hi. Qed.

(* Pages::insert for a local indirect object (after flattening): the list gets the object, or a fresh
   copy of it when it is already a page, at pos; everything else is as before *)
Lemma pg_insert_local_ok : forall p i pos,
  pg_inv p -> pg_lookup (pd_store p) i <> None -> i <> pd_root p -> pg_root_pages p <> PvRef i ->
  (forall d x k, pg_lookup (pd_store p) i = Some (PcStream d x k) -> ~ In i (pd_all p)) ->
  (0 <= pos <= pg_len (pd_all p))%Z ->
  exists p' ni, pg_insert_local p (PvRef i) pos = (p', None) /\ pg_inv p' /\
    pd_all p' = pg_list_ins (pd_all p) (Z.to_nat pos) ni /\ ~ In ni (pd_all p) /\
    (In i (pd_all p) -> ni = pg_next_id (pd_store p)) /\ (~ In i (pd_all p) -> ni = i) /\
    pd_root p' = pd_root p /\ pd_omap p' = pd_omap p /\ pd_reg p' = pd_reg p /\
    pg_marks p' = pgsp_insert (pg_marks p) (Z.to_nat pos) (pg_mark (pd_store p) i).
Proof.
  intros p i pos Hi Hex Hiroot Hipn Hstr [Hp0 Hp1].
  unfold pg_insert_local.
  assert ((pos <? 0)%Z || (pg_len (pd_all p) <? pos)%Z = false) as ->.
  { apply orb_false_iff. split; [apply Z.ltb_ge; lia | apply Z.ltb_ge; lia]. }
  unfold pg_insert_dup.
  pose proof Hi as (pn & d & Hroot & Hpn & Hkids & Hcount & Hpnroot & Hpnall & Hrootall & Hnd & Hexall & Hpos & Hposnd & Hinv).
  rewrite Hpos.
  assert (Hmarks_core : forall p0 ni p1, pg_inv p0 -> pd_all p0 = pd_all p ->
     (forall j, In j (pd_all p) -> pg_lookup (pd_store p0) j = pg_lookup (pd_store p) j) ->
     pg_root_pages p0 = PvRef pn -> ~ In ni (pd_all p) ->
     pd_all p1 = pg_list_ins (pd_all p) (Z.to_nat pos) ni ->
     (forall j, j <> ni -> pg_root_pages p0 <> PvRef j -> pg_lookup (pd_store p1) j = pg_lookup (pd_store p0) j) ->
     pg_mark (pd_store p1) ni = pg_mark (pd_store p) i ->
     pg_marks p1 = pgsp_insert (pg_marks p) (Z.to_nat pos) (pg_mark (pd_store p) i)).
  { intros p0 ni p1 _ Hall0 Hl0 Hroot0 Hnin Hall1 Hfr Hmk.
    unfold pg_marks, pgsp_insert. rewrite Hall1.
    assert (Hn : (Z.to_nat pos <= length (pd_all p))%nat) by (unfold pg_len in Hp1; lia).
    rewrite pg_list_ins_spec by exact Hn. rewrite map_app. cbn [map]. rewrite Hmk.
    rewrite firstn_map, skipn_map.
    assert (Hsame : forall j, In j (pd_all p) -> pg_mark (pd_store p1) j = pg_mark (pd_store p) j).
    { intros j Hjin. apply pg_mark_ext.
      rewrite Hfr; [apply Hl0, Hjin | intros ->; contradiction | rewrite Hroot0; intros E; inversion E; subst; contradiction]. }
    f_equal; [|f_equal]; apply map_ext_in; intros j Hj; apply Hsame.
    - rewrite <- (firstn_skipn (Z.to_nat pos) (pd_all p)); apply in_app_iff; left; exact Hj.
    - rewrite <- (firstn_skipn (Z.to_nat pos) (pd_all p)); apply in_app_iff; right; exact Hj. }
  destruct (pg_index (pd_all p) i) as [k|] eqn:Eidx; cbn [option_map].
  - (* already a page: a copy is made *)
    assert (Hin : In i (pd_all p)) by (eapply nth_error_In, pg_index_nth, Eidx).
    destruct (pg_lookup (pd_store p) i) as [[v|dd xx kk]|] eqn:El; [| exfalso; eapply Hstr; eauto | congruence].
    set (ni := pg_next_id (pd_store p)).
    set (p0 := pd_with_store p (fst (pg_alloc (pd_store p) (PcObj (pg_rv (pd_store p) (PvRef i)))))).
    change (let '(s, j) := pg_alloc (pd_store p) (PcObj (pg_rv (pd_store p) (PvRef i))) in (pd_with_store p s, @None pg_err, PvRef j))
      with (p0, @None pg_err, PvRef ni).
    assert (Hi0 : pg_inv p0) by (apply pg_inv_alloc, Hi).
    assert (Hl0 : forall j, pg_lookup (pd_store p) j <> None -> pg_lookup (pd_store p0) j = pg_lookup (pd_store p) j).
    { intros j Hj. unfold p0. cbn [pd_store pd_with_store]. rewrite pg_lookup_alloc. fold ni.
      destruct (j =? ni) eqn:E; [|reflexivity]. apply N.eqb_eq in E. subst j. unfold ni in Hj. rewrite pg_next_id_fresh in Hj. congruence. }
    assert (Hnifresh : pg_lookup (pd_store p) ni = None) by apply pg_next_id_fresh.
    assert (Hniall : ~ In ni (pd_all p)) by (intros H; apply Hexall in H; congruence).
    assert (Hlni : pg_lookup (pd_store p0) ni = Some (PcObj v)).
    { unfold p0. cbn [pd_store pd_with_store]. rewrite pg_lookup_alloc. fold ni. rewrite N.eqb_refl. unfold pg_rv. rewrite El. reflexivity. }
    assert (Hroot0 : pg_root_pages p0 = PvRef pn).
    { rewrite <- Hroot. apply pg_root_pages_ext; [reflexivity|]. apply Hl0.
      unfold pg_root_pages, pg_hget, pg_rv in Hroot. destruct (pg_lookup (pd_store p) (pd_root p)); [discriminate| simpl in Hroot; discriminate]. }
    destruct (pg_insert_core_ok p0 ni pos Hi0) as (p1 & Hrun & Hi1 & Hall1 & Hr1 & Hom1 & Hreg1 & Hfr1 & Hk1).
    + rewrite Hlni. discriminate.
    + exact Hniall.
    + intros E. assert (pg_lookup (pd_store p) (pd_root p) <> None) as HH.
      { unfold pg_root_pages, pg_hget, pg_rv in Hroot. destruct (pg_lookup (pd_store p) (pd_root p)); [discriminate| simpl in Hroot; discriminate]. }
      change (pd_root p0) with (pd_root p) in E. rewrite <- E in HH. congruence.
    + rewrite Hroot0. intros E. inversion E. subst pn. congruence.
    + exact (conj Hp0 Hp1).
    + exists p1, ni. rewrite Hrun. split; [reflexivity|]. split; [exact Hi1|]. split; [exact Hall1|]. split; [exact Hniall|].
      split; [intros _; reflexivity|]. split; [intros H; contradiction|].
      split; [exact Hr1|]. split; [exact Hom1|]. split; [exact Hreg1|].
      apply (Hmarks_core p0 ni p1 Hi0 eq_refl); try assumption.
      * intros j Hj. apply Hl0, Hexall, Hj.
      * unfold pg_mark, pg_marker. rewrite Hk1 by discriminate. unfold pg_hget, pg_rv. rewrite Hlni, El. reflexivity.
  - (* not yet a page *)
    assert (Hnin : ~ In i (pd_all p)) by (apply pg_index_none, Eidx).
    destruct (pg_insert_core_ok p i pos Hi Hex Hnin Hiroot Hipn (conj Hp0 Hp1)) as (p1 & Hrun & Hi1 & Hall1 & Hr1 & Hom1 & Hreg1 & Hfr1 & Hk1).
    exists p1, i. rewrite Hrun. split; [reflexivity|]. split; [exact Hi1|]. split; [exact Hall1|]. split; [exact Hnin|].
    split; [intros H; contradiction|]. split; [intros _; reflexivity|].
    split; [exact Hr1|]. split; [exact Hom1|]. split; [exact Hreg1|].
    apply (Hmarks_core p i p1 Hi eq_refl); try assumption.
    + intros j _. reflexivity.
    + unfold pg_mark, pg_marker. rewrite Hk1 by discriminate. reflexivity.
Qed.

(* ------------------------------------------------------------------ two documents *)
Lemma pg_get_put_same : forall w d p, pg_get (pg_put w d p) d = p.
Proof. intros [a b] [] p; reflexivity. Qed.
Lemma pg_get_put_other : forall w d p, pg_get (pg_put w d p) (negb d) = pg_get w (negb d).
Proof. intros [a b] [] p; reflexivity. Qed.
Lemma pg_put_put : forall w d p q, pg_put (pg_put w d p) d q = pg_put w d q.
Proof. intros [a b] [] p q; reflexivity. Qed.
Lemma pg_put_get : forall w d, pg_put w d (pg_get w d) = w.
Proof. intros [a b] []; reflexivity. Qed.

Definition pg_marks2 (w : pg_world) : pg_lists := (pg_marks (fst w), pg_marks (snd w)).
Lemma pg_marks2_sel : forall w d, pgsp_sel (pg_marks2 w) d = pg_marks (pg_get w d).
Proof. intros [a b] []; reflexivity. Qed.
Lemma pg_marks2_put : forall w d p, pg_marks2 (pg_put w d p) = pgsp_upd (pg_marks2 w) d (pg_marks p).
Proof. intros [a b] [] p; reflexivity. Qed.

Definition pg_val_mark (v : pg_val) : Z :=
  match v with PvDict dd => match pg_dget dd pgk_Mk with PvInt z => z | _ => (-1)%Z end | _ => (-1)%Z end.

Lemma pg_mark_obj : forall s i v, pg_lookup s i = Some (PcObj v) -> pg_mark s i = pg_val_mark v.
Proof.
  intros s i v H. unfold pg_mark, pg_marker, pg_hget, pg_rv, pg_val_mark. rewrite H.
  destruct v; try reflexivity. destruct (pg_dget l pgk_Mk); reflexivity.
Qed.

(* what may be handed to the insertion calls in the part of the theorems proved here: a direct object, or an
   object of the SAME document that is neither the catalog nor the /Pages node (and, if it is a stream, not a page) *)
Definition pg_operand_ok (w : pg_world) (d : bool) (h : pg_href) : Prop :=
  match pg_norm w h with
  | PhDirect _ => True
  | PhObj b i => b = d /\ i <> pd_root (pg_get w d) /\ pg_root_pages (pg_get w d) <> PvRef i /\
                 (forall dd x k, pg_lookup (pd_store (pg_get w d)) i = Some (PcStream dd x k) -> ~ In i (pd_all (pg_get w d)))
  end.
Definition pg_operand_mark (w : pg_world) (h : pg_href) : Z :=
  match pg_norm w h with
  | PhDirect v => pg_val_mark v
  | PhObj b i => pg_mark (pd_store (pg_get w b)) i
  end.

Lemma pg_ins_nonempty : forall {A} (l : list A) n x, pg_list_ins l n x <> [].
Proof. intros A l n x. destruct n; destruct l; simpl; discriminate. Qed.

Lemma pg_marks_alloc : forall p c, pg_inv p -> pg_marks (pd_with_store p (fst (pg_alloc (pd_store p) c))) = pg_marks p.
Proof.
  intros p c (pn & d & _ & _ & _ & _ & _ & _ & _ & _ & Hex & _). unfold pg_marks. cbn [pd_store pd_all pd_with_store].
  apply pg_marks_ext. intros i Hi. rewrite pg_lookup_alloc.
  destruct (i =? pg_next_id (pd_store p)) eqn:E; [|reflexivity].
  apply N.eqb_eq in E. subst i. apply Hex in Hi. rewrite pg_next_id_fresh in Hi. congruence.
Qed.

Lemma pg_root_exists : forall p pn, pg_root_pages p = PvRef pn -> pg_lookup (pd_store p) (pd_root p) <> None.
Proof.
  intros p pn H. unfold pg_root_pages, pg_hget, pg_rv in H.
  destruct (pg_lookup (pd_store p) (pd_root p)); [discriminate| simpl in H; discriminate].
Qed.

Lemma pg_insert_ok : forall w d h pos,
  pg_inv (pg_get w d) -> pd_all (pg_get w d) <> [] -> pg_operand_ok w d h -> pg_insertable w d h = true ->
  (0 <= pos <= pg_len (pd_all (pg_get w d)))%Z ->
  exists p', pg_insert w d h pos = (pg_put w d p', None) /\ pg_inv p' /\ pd_all p' <> [] /\
    pg_marks p' = pgsp_insert (pg_marks (pg_get w d)) (Z.to_nat pos) (pg_operand_mark w h).
Proof.
  intros w d h pos Hi Hne Hop Hins Hpos. unfold pg_insert. rewrite Hins. cbn [negb].
  rewrite pg_flatten_inv by assumption. rewrite pg_put_get.
  unfold pg_operand_ok, pg_operand_mark in *.
  destruct (pg_norm w h) as [v|b i] eqn:En.
  - (* direct object: makeIndirectObject *)
    set (p := pg_get w d) in *.
    set (ni := pg_next_id (pd_store p)).
    set (p0 := pd_with_store p (fst (pg_alloc (pd_store p) (PcObj v)))).
    change (let '(s, i) := pg_alloc (pd_store p) (PcObj v) in (pg_put w d (pd_with_store p s), @None pg_err, PvRef i))
      with (pg_put w d p0, @None pg_err, PvRef ni).
    cbv iota beta. rewrite pg_get_put_same.
    assert (Hi0 : pg_inv p0) by (apply pg_inv_alloc, Hi).
    pose proof Hi as (pn & dd & Hroot & Hpn & _ & _ & _ & _ & _ & _ & Hexall & _).
    assert (Hlni : pg_lookup (pd_store p0) ni = Some (PcObj v)).
    { unfold p0. cbn [pd_store pd_with_store]. rewrite pg_lookup_alloc. fold ni. rewrite N.eqb_refl. reflexivity. }
    assert (Hnifresh : pg_lookup (pd_store p) ni = None) by apply pg_next_id_fresh.
    assert (Hroot0 : pg_root_pages p0 = PvRef pn).
    { rewrite <- Hroot. apply pg_root_pages_ext; [reflexivity|]. unfold p0. cbn [pd_store pd_with_store pd_root].
      rewrite pg_lookup_alloc. fold ni. destruct (pd_root p =? ni) eqn:E; [|reflexivity].
      apply N.eqb_eq in E. pose proof (pg_root_exists p pn Hroot) as HH. rewrite E in HH. congruence. }
    destruct (pg_insert_local_ok p0 ni pos Hi0) as (p1 & ni' & Hrun & Hi1 & Hall1 & Hnin & _ & Hni' & _ & _ & _ & Hmk).
    + rewrite Hlni. discriminate.
    + change (pd_root p0) with (pd_root p). intros E. pose proof (pg_root_exists p pn Hroot) as HH. rewrite <- E in HH. congruence.
    + rewrite Hroot0. intros E. inversion E. subst pn. congruence.
    + intros dd0 x k E. rewrite Hlni in E. discriminate.
    + exact Hpos.
    + exists p1. rewrite Hrun. rewrite pg_put_put. split; [reflexivity|]. split; [exact Hi1|].
      split; [rewrite Hall1; apply pg_ins_nonempty|].
      rewrite Hmk. unfold p0 at 1. rewrite pg_marks_alloc by exact Hi. f_equal. apply pg_mark_obj, Hlni.
  - destruct Hop as (-> & Hiroot & Hipn & Hstr).
    rewrite Bool.eqb_reflx. cbv iota beta.
    assert (Hex : pg_lookup (pd_store (pg_get w d)) i <> None).
    { unfold pg_norm in En. destruct h as [v0|b0 i0]; [discriminate|].
      destruct (pg_lookup (pd_store (pg_get w b0)) i0) eqn:E; [|discriminate]. inversion En; subst. rewrite E. discriminate. }
    destruct (pg_insert_local_ok (pg_get w d) i pos Hi Hex Hiroot Hipn Hstr Hpos) as (p1 & ni' & Hrun & Hi1 & Hall1 & _ & _ & _ & _ & _ & _ & Hmk).
    exists p1. rewrite Hrun. split; [reflexivity|]. split; [exact Hi1|]. split; [rewrite Hall1; apply pg_ins_nonempty|]. exact Hmk.
Qed.

(* the invariant only looks at the store through lookups of the catalog, the /Pages node and existence *)
Lemma pg_inv_store : forall p s',
  pg_inv p ->
  pg_lookup s' (pd_root p) = pg_lookup (pd_store p) (pd_root p) ->
  (forall pn, pg_root_pages p = PvRef pn -> pg_lookup s' pn = pg_lookup (pd_store p) pn) ->
  (forall j, pg_lookup (pd_store p) j <> None -> pg_lookup s' j <> None) ->
  pg_inv (pd_with_store p s').
Proof.
  intros p s' (pn & d & Hroot & Hpn & Hkids & Hcount & Hpnroot & Hpnall & Hrootall & Hnd & Hex & Hpos & Hposnd & Hinv) Hr Hp He.
  exists pn, d. cbn [pd_store pd_all pd_pos pd_invalid pd_root pd_with_store].
  split; [|split; [|repeat split; try assumption]].
  - rewrite <- Hroot. apply pg_root_pages_ext; [reflexivity|]. exact Hr.
  - rewrite (Hp pn Hroot). exact Hpn.
  - intros i Hi. apply He, Hex, Hi.
Qed.

Lemma pg_map_update : forall (f f' : N -> Z) (l : list N) i k,
  NoDup l -> pg_index l i = Some k -> (forall j, j <> i -> f' j = f j) ->
  map f' l = pgsp_set (map f l) k (f' i).
Proof.
  intros f f' l i k Hnd Hk Hf. unfold pgsp_set. rewrite firstn_map, skipn_map.
  pose proof (pg_index_nth l i k Hk) as Hnth.
  assert (Hlt : (k < length l)%nat) by (eapply pg_index_lt, Hk).
  rewrite <- (firstn_skipn k l) at 1. rewrite map_app.
  assert (skipn k l = i :: skipn (S k) l) as Hsk.
  { clear - Hnth. revert k Hnth. induction l as [|x t IH]; intros k Hnth; [destruct k; discriminate|].
    destruct k; simpl in *; [inversion Hnth; reflexivity | apply IH, Hnth]. }
  rewrite Hsk. cbn [map].
  assert (Hother : forall j, In j (firstn k l) \/ In j (skipn (S k) l) -> j <> i).
  { intros j Hj ->. rewrite <- (firstn_skipn k l), Hsk in Hnd. apply NoDup_remove_2 in Hnd. apply Hnd, in_app_iff. exact Hj. }
  f_equal; [|f_equal]; apply map_ext_in; intros j Hj; apply Hf, Hother; tauto.
Qed.

Lemma pg_map_same : forall (f f' : N -> Z) (l : list N) i, ~ In i l -> (forall j, j <> i -> f' j = f j) -> map f' l = map f l.
Proof. intros f f' l i Hn Hf. apply map_ext_in. intros j Hj. apply Hf. intros ->. contradiction. Qed.

Lemma pg_nth_map_index : forall (f : N -> Z) l i k, pg_index l i = Some k -> nth k (map f l) 0%Z = f i.
Proof.
  intros f l i k H. apply pg_index_nth in H. revert k H. induction l as [|x t IH]; intros k H; [destruct k; discriminate|].
  destruct k; simpl in *; [inversion H; reflexivity | apply IH, H].
Qed.

Definition pg_good (w : pg_world) : Prop :=
  pg_inv (fst w) /\ pg_inv (snd w) /\ pd_all (fst w) <> [] /\ pd_all (snd w) <> [].

Lemma pg_good_get : forall w d, pg_good w -> pg_inv (pg_get w d) /\ pd_all (pg_get w d) <> [].
Proof. intros [a b] [] (H1 & H2 & H3 & H4); simpl; tauto. Qed.
Lemma pg_good_put : forall w d p, pg_good w -> pg_inv p -> pd_all p <> [] -> pg_good (pg_put w d p).
Proof. intros [a b] [] p (H1 & H2 & H3 & H4) Hi Hn; unfold pg_good; simpl; tauto. Qed.

Definition pg_not_node (p : pg_doc) (i : N) : Prop := i <> pd_root p /\ pg_root_pages p <> PvRef i.
Definition pg_href_local (d : bool) (h : pg_href) : Prop := match h with PhObj b _ => b = d | PhDirect _ => True end.

(* the calls covered by the theorems of this file (see the note at pages_refine_list_partial) *)
Definition pg_adm (w : pg_world) (o : pg_op) : Prop :=
  match o with
  | PoAddPage d h _ | PoHAddPage d h _ => pg_operand_ok w d h
  | PoAddPageAt d h _ r => pg_operand_ok w d h
  | PoRemove d h => (2 <= length (pd_all (pg_get w d)))%nat
  | PoFind _ _ | PoGetPages _ | PoMakeIndirect _ _ => True
  | PoShallowCopy d i => exists v, pg_lookup (pd_store (pg_get w d)) i = Some (PcObj v)
  | PoReplace d i _ => pg_not_node (pg_get w d) i
  | PoSwap d i j => pg_not_node (pg_get w d) i /\ pg_not_node (pg_get w d) j /\
                    pg_lookup (pd_store (pg_get w d)) i <> None /\ pg_lookup (pd_store (pg_get w d)) j <> None
  | PoCopyForeign _ _ | PoRefresh _ | PoPushInh _ | PoReplaceInd _ _ _ | PoReplaceReserved _ _ => False
  end.

(* the same call on the plain list (content markers) *)
Definition pg_abs (w : pg_world) (o : pg_op) : pg_sop :=
  match o with
  | PoAddPage d h first | PoHAddPage d h first =>
      if pg_insertable w d h
      then SpInsert d (if first then O else length (pd_all (pg_get w d))) (pg_operand_mark w h)
      else SpInvalid                                   (* what cannot be a page is refused (repair 53c36690) *)
  | PoAddPageAt d h before r =>
      if pg_foreign_handle w d r then SpInvalid      (* a page of the other document is not a page of this one *)
      else
      match pg_index (pd_all (pg_get w d)) (pg_og_of w r) with
      | Some k => if pg_insertable w d h then SpInsert d (if before then k else S k) (pg_operand_mark w h) else SpInvalid
      | None => SpInvalid
      end
  | PoRemove d h =>
      if pg_foreign_handle w d h then SpInvalid
      else match pg_index (pd_all (pg_get w d)) (pg_og_of w h) with Some k => SpRemove d k | None => SpInvalid end
  | PoFind d i => match pg_index (pd_all (pg_get w d)) i with Some _ => SpNop | None => SpInvalid end
  | PoReplace d i v =>
      match pg_index (pd_all (pg_get w d)) i with Some k => SpSet d k (pg_val_mark v) | None => SpNop end
  | PoSwap d i j =>
      match pg_index (pd_all (pg_get w d)) i, pg_index (pd_all (pg_get w d)) j with
      | Some a, Some b => SpSwap d a b
      | Some a, None => SpSet d a (pg_mark (pd_store (pg_get w d)) j)
      | None, Some b => SpSet d b (pg_mark (pd_store (pg_get w d)) i)
      | None, None => SpNop
      end
  | _ => SpNop
  end.

Definition pg_is_err (r : pg_res) : bool := match r with PrErr _ => true | _ => false end.

Lemma pg_marks_length : forall p, length (pg_marks p) = length (pd_all p).
Proof. intros. unfold pg_marks. apply map_length. Qed.

Lemma pg_count_inv : forall p, pg_inv p ->
  pg_rv (pd_store p) (pg_hget (pd_store p) (pg_root_pages p) pgk_Count) = PvInt (pg_len (pd_all p)).
Proof.
  intros p (pn & d & Hroot & Hpn & _ & Hcount & _). rewrite Hroot. unfold pg_hget, pg_rv at 2. rewrite Hpn, Hcount. reflexivity.
Qed.

(* insertion at a valid position, both sides *)
Lemma pg_step_insert : forall w d h n,
  pg_good w -> pg_operand_ok w d h -> (n <= length (pd_all (pg_get w d)))%nat ->
  let '(w', e) := pg_insert w d h (Z.of_nat n) in
  let '(s', raise_) := pg_spec_step (pg_marks2 w) (if pg_insertable w d h then SpInsert d n (pg_operand_mark w h) else SpInvalid) in
  pg_marks2 w' = s' /\ pg_is_err (pg_res_of e) = raise_ /\ pg_good w'.
Proof.
  intros w d h n Hg Hop Hn. destruct (pg_good_get w d Hg) as [Hi Hne].
  destruct (pg_insertable w d h) eqn:Hins.
  - destruct (pg_insert_ok w d h (Z.of_nat n) Hi Hne Hop Hins) as (p' & Hrun & Hi' & Hne' & Hmk).
    { unfold pg_len. lia. }
    rewrite Hrun. cbn [pg_spec_step]. rewrite pg_marks2_sel, pg_marks_length.
    assert (Nat.leb n (length (pd_all (pg_get w d))) = true) as -> by (apply Nat.leb_le; exact Hn).
    rewrite pg_marks2_put, Hmk, Nat2Z.id. split; [reflexivity|]. split; [reflexivity|]. apply pg_good_put; assumption.
  - unfold pg_insert. rewrite Hins. cbn. split; [reflexivity|]. split; [reflexivity|exact Hg].
Qed.

Lemma pg_og_local : forall w d h, pg_href_local d h -> pg_og_of w h = match pg_norm w h with PhObj _ i => i | PhDirect _ => 0 end.
Proof. reflexivity. Qed.

Lemma pg_del_nonempty : forall {A} (l : list A) k, (2 <= length l)%nat -> pg_list_del l k <> [].
Proof.
  intros A l k H. destruct l as [|a [|b t]]; simpl in H; try lia. destruct k; simpl; [discriminate|]. discriminate.
Qed.

Lemma pg_step_refines : forall w o, pg_good w -> pg_adm w o ->
  let '(w', r) := pg_step w o in
  let '(s', raise_) := pg_spec_step (pg_marks2 w) (pg_abs w o) in
  pg_marks2 w' = s' /\ pg_is_err r = raise_ /\ pg_good w'.
Proof.
  intros w o Hg Ha. destruct o as [d h first|d h first|d h before r|d h|d i|d h|d i v|d i j|d|d|d|d i|d v|d i h|d i];
    cbn [pg_adm] in Ha; try contradiction; destruct (pg_good_get w d Hg) as [Hi Hne].
  - (* addPage *)
    cbn [pg_step pg_abs]. destruct first.
    + pose proof (pg_step_insert w d h O Hg Ha ltac:(lia)) as H. cbn [Z.of_nat] in H.
      destruct (pg_insert w d h 0) as [w' e]. exact H.
    + rewrite (pg_count_inv _ Hi). unfold pg_len.
      pose proof (pg_step_insert w d h (length (pd_all (pg_get w d))) Hg Ha ltac:(lia)) as H.
      destruct (pg_insert w d h (Z.of_nat (length (pd_all (pg_get w d))))) as [w' e]. exact H.
  - (* QPDFPageDocumentHelper::addPage *)
    cbn [pg_step pg_abs]. destruct first.
    + pose proof (pg_step_insert w d h O Hg Ha ltac:(lia)) as H. cbn [Z.of_nat] in H.
      destruct (pg_insert w d h 0) as [w' e]. exact H.
    + rewrite (pg_all_inv _ Hne). rewrite pg_put_get. unfold pg_len.
      pose proof (pg_step_insert w d h (length (pd_all (pg_get w d))) Hg Ha ltac:(lia)) as H.
      destruct (pg_insert w d h (Z.of_nat (length (pd_all (pg_get w d))))) as [w' e]. exact H.
  - (* addPageAt *)
    rename Ha into Hop. cbn [pg_step pg_abs].
    destruct (pg_foreign_handle w d r); [cbn; split; [reflexivity|]; split; [reflexivity|exact Hg]|].
    rewrite (pg_find_inv _ _ Hi Hne).
    destruct (pg_index (pd_all (pg_get w d)) (pg_og_of w r)) as [k|] eqn:E.
    + rewrite pg_put_get. pose proof (pg_index_lt _ _ _ E) as Hlt.
      destruct before.
      * pose proof (pg_step_insert w d h k Hg Hop ltac:(lia)) as H.
        destruct (pg_insert w d h (Z.of_nat k)) as [w' e]. exact H.
      * pose proof (pg_step_insert w d h (S k) Hg Hop ltac:(lia)) as H.
        replace (Z.of_nat k + 1)%Z with (Z.of_nat (S k)) by lia.
        destruct (pg_insert w d h (Z.of_nat (S k))) as [w' e]. exact H.
    + rewrite pg_put_get. cbn. split; [reflexivity|]. split; [reflexivity|]. exact Hg.
  - (* removePage *)
    rename Ha into Hlen. cbn [pg_step pg_abs].
    destruct (pg_foreign_handle w d h); [cbn; split; [reflexivity|]; split; [reflexivity|exact Hg]|].
    unfold pg_erase. rewrite (pg_find_inv _ _ Hi Hne).
    destruct (pg_index (pd_all (pg_get w d)) (pg_og_of w h)) as [k|] eqn:E.
    + destruct (pg_erase_core_ok _ _ _ Hi E) as (p' & Hrun & Hi' & Hall' & _ & _ & _ & Hfr). rewrite Hrun.
      cbn [pg_res_of pg_is_err pg_spec_step]. rewrite pg_marks2_sel, pg_marks_length.
      pose proof (pg_index_lt _ _ _ E) as Hlt.
      assert (Nat.ltb k (length (pd_all (pg_get w d))) = true) as -> by (apply Nat.ltb_lt; exact Hlt).
      rewrite pg_marks2_put. split; [|split; [reflexivity|]].
      * f_equal. unfold pg_marks, pgsp_remove. rewrite Hall'. rewrite pg_list_del_spec, map_app.
        rewrite firstn_map, skipn_map.
        destruct Hi as (pn & dd & Hroot & _ & _ & _ & _ & Hpnall & _).
        assert (Hsame : forall j, In j (pd_all (pg_get w d)) -> pg_mark (pd_store p') j = pg_mark (pd_store (pg_get w d)) j).
        { intros j Hj. apply pg_mark_ext, Hfr. rewrite Hroot. intros EE. inversion EE. subst. contradiction. }
        f_equal; apply map_ext_in; intros j Hj; apply Hsame.
        -- rewrite <- (firstn_skipn k (pd_all (pg_get w d))). apply in_app_iff. left. exact Hj.
        -- rewrite <- (firstn_skipn (S k) (pd_all (pg_get w d))). apply in_app_iff. right. exact Hj.
      * apply pg_good_put; [exact Hg|exact Hi'|]. rewrite Hall'. apply pg_del_nonempty, Hlen.
    + rewrite pg_put_get. cbn. split; [reflexivity|]. split; [reflexivity|]. exact Hg.
  - (* shallowCopyPage *)
    destruct Ha as [v Hv]. cbn [pg_step pg_abs pg_spec_step]. rewrite Hv.
    change (let '(s, j) := pg_alloc (pd_store (pg_get w d)) (PcObj v) in (pg_put w d (pd_with_store (pg_get w d) s), PrId j))
      with (pg_put w d (pd_with_store (pg_get w d) (fst (pg_alloc (pd_store (pg_get w d)) (PcObj v)))), PrId (pg_next_id (pd_store (pg_get w d)))).
    cbv iota beta. rewrite pg_marks2_put, pg_marks_alloc by exact Hi. rewrite <- pg_marks2_put, pg_put_get.
    split; [reflexivity|]. split; [reflexivity|]. apply pg_good_put; [exact Hg|apply pg_inv_alloc, Hi|exact Hne].
  - (* replaceObject on something that is not a node of the tree *)
    destruct Ha as [Hnr Hnp]. cbn [pg_step pg_abs].
    set (p := pg_get w d) in *. set (s' := pg_supd (pd_store p) i (PcObj v)).
    assert (Hl : forall j, pg_lookup s' j = if j =? i then Some (PcObj v) else pg_lookup (pd_store p) j) by (intros; apply pg_lookup_supd).
    assert (Hi' : pg_inv (pd_with_store p s')).
    { apply pg_inv_store; [exact Hi| | |].
      - rewrite Hl. assert (pd_root p =? i = false) as -> by (apply N.eqb_neq; congruence). reflexivity.
      - intros pn Hpn. rewrite Hl. assert (pn =? i = false) as ->; [|reflexivity]. apply N.eqb_neq. intros ->. apply Hnp, Hpn.
      - intros j Hj. rewrite Hl. destruct (j =? i); [discriminate|exact Hj]. }
    assert (Hf : forall j, j <> i -> pg_mark s' j = pg_mark (pd_store p) j).
    { intros j Hj. apply pg_mark_ext. rewrite Hl. apply N.eqb_neq in Hj. rewrite Hj. reflexivity. }
    assert (Hmi : pg_mark s' i = pg_val_mark v) by (apply pg_mark_obj; rewrite Hl, N.eqb_refl; reflexivity).
    pose proof Hi as (_ & _ & _ & _ & _ & _ & _ & _ & _ & Hnd & _).
    destruct (pg_index (pd_all p) i) as [k|] eqn:E; cbn [pg_spec_step].
    + rewrite pg_marks2_sel, pg_marks_length. fold p.
      assert (Nat.ltb k (length (pd_all p)) = true) as -> by (apply Nat.ltb_lt; eapply pg_index_lt, E).
      rewrite pg_marks2_put. split; [|split; [reflexivity|apply pg_good_put; assumption]].
      f_equal. unfold pg_marks. cbn [pd_store pd_all pd_with_store]. rewrite <- Hmi.
      apply pg_map_update; assumption.
    + rewrite pg_marks2_put. split; [|split; [reflexivity|apply pg_good_put; assumption]].
      rewrite <- (pg_put_get w d) at 2. rewrite pg_marks2_put. f_equal. fold p.
      unfold pg_marks. cbn [pd_store pd_all pd_with_store]. eapply pg_map_same; [apply pg_index_none, E|exact Hf].
  - (* swapObjects of two objects that are not nodes of the tree *)
    destruct Ha as ([Hir Hip] & [Hjr Hjp] & Hiex & Hjex). cbn [pg_step pg_abs].
    set (p := pg_get w d) in *.
    destruct (pg_lookup (pd_store p) i) as [ci|] eqn:Eci; [|congruence].
    destruct (pg_lookup (pd_store p) j) as [cj|] eqn:Ecj; [|congruence].
    set (s1 := pg_supd (pd_store p) i cj). set (s' := pg_supd s1 j ci).
    assert (Hl1 : forall x, pg_lookup s1 x = if x =? i then Some cj else pg_lookup (pd_store p) x) by (intros; apply pg_lookup_supd).
    assert (Hl : forall x, pg_lookup s' x = if x =? j then Some ci else pg_lookup s1 x) by (intros; apply pg_lookup_supd).
    assert (Hi' : pg_inv (pd_with_store p s')).
    { apply pg_inv_store; [exact Hi| | |].
      - rewrite Hl, Hl1. assert (pd_root p =? j = false) as -> by (apply N.eqb_neq; congruence).
        assert (pd_root p =? i = false) as -> by (apply N.eqb_neq; congruence). reflexivity.
      - intros pn Hpn. rewrite Hl, Hl1.
        assert (pn =? j = false) as -> by (apply N.eqb_neq; intros ->; apply Hjp, Hpn).
        assert (pn =? i = false) as -> by (apply N.eqb_neq; intros ->; apply Hip, Hpn). reflexivity.
      - intros x Hx. rewrite Hl, Hl1. destruct (x =? j); [discriminate|]. destruct (x =? i); [discriminate|exact Hx]. }
    pose proof Hi as (_ & _ & _ & _ & _ & _ & _ & _ & _ & Hnd & _).
    set (f := pg_mark (pd_store p)). set (f1 := pg_mark s1). set (f' := pg_mark s').
    assert (Hf1 : forall x, x <> i -> f1 x = f x).
    { intros x Hx. apply pg_mark_ext. rewrite Hl1. apply N.eqb_neq in Hx. rewrite Hx. reflexivity. }
    assert (Hf1i : f1 i = f j).
    { unfold f1, f, pg_mark, pg_marker, pg_hget, pg_rv. rewrite Hl1, N.eqb_refl, Ecj. reflexivity. }
    assert (Hf' : forall x, x <> j -> f' x = f1 x).
    { intros x Hx. apply pg_mark_ext. rewrite Hl. apply N.eqb_neq in Hx. rewrite Hx. reflexivity. }
    assert (Hf'j : f' j = f i).
    { unfold f', f, pg_mark, pg_marker, pg_hget, pg_rv. rewrite Hl, N.eqb_refl, Eci. reflexivity. }
    assert (Hgood' : pg_good (pg_put w d (pd_with_store p s'))) by (apply pg_good_put; assumption).
    assert (Hm' : pg_marks (pd_with_store p s') = map f' (pd_all p)) by reflexivity.
    assert (Hm : pg_marks p = map f (pd_all p)) by reflexivity.
    rewrite pg_marks2_put, Hm'.
    destruct (pg_index (pd_all p) i) as [a|] eqn:Ea; destruct (pg_index (pd_all p) j) as [b|] eqn:Eb; cbn [pg_spec_step].
    + rewrite pg_marks2_sel, pg_marks_length. fold p.
      assert (Nat.ltb a (length (pd_all p)) = true) as -> by (apply Nat.ltb_lt; eapply pg_index_lt, Ea).
      assert (Nat.ltb b (length (pd_all p)) = true) as -> by (apply Nat.ltb_lt; eapply pg_index_lt, Eb).
      cbn [andb]. split; [|split; [reflexivity|exact Hgood']]. f_equal. rewrite Hm.
      rewrite (pg_nth_map_index f _ _ _ Ea), (pg_nth_map_index f _ _ _ Eb).
      rewrite (pg_map_update f1 f' (pd_all p) j b Hnd Eb Hf'), Hf'j.
      rewrite (pg_map_update f f1 (pd_all p) i a Hnd Ea Hf1), Hf1i. reflexivity.
    + rewrite pg_marks2_sel, pg_marks_length. fold p.
      assert (Nat.ltb a (length (pd_all p)) = true) as -> by (apply Nat.ltb_lt; eapply pg_index_lt, Ea).
      split; [|split; [reflexivity|exact Hgood']]. f_equal. rewrite Hm.
      rewrite (pg_map_same f1 f' (pd_all p) j (proj1 (pg_index_none _ _) Eb) Hf').
      rewrite (pg_map_update f f1 (pd_all p) i a Hnd Ea Hf1), Hf1i. reflexivity.
    + rewrite pg_marks2_sel, pg_marks_length. fold p.
      assert (Nat.ltb b (length (pd_all p)) = true) as -> by (apply Nat.ltb_lt; eapply pg_index_lt, Eb).
      split; [|split; [reflexivity|exact Hgood']]. f_equal. rewrite Hm.
      rewrite (pg_map_update f1 f' (pd_all p) j b Hnd Eb Hf'), Hf'j.
      rewrite (pg_map_same f f1 (pd_all p) i (proj1 (pg_index_none _ _) Ea) Hf1). reflexivity.
    + split; [|split; [reflexivity|exact Hgood']].
      rewrite <- (pg_put_get w d) at 2. rewrite pg_marks2_put. f_equal. fold p. rewrite Hm.
      rewrite (pg_map_same f1 f' (pd_all p) j (proj1 (pg_index_none _ _) Eb) Hf').
      apply (pg_map_same f f1 (pd_all p) i (proj1 (pg_index_none _ _) Ea) Hf1).
  - (* getAllPages *)
    cbn [pg_step pg_abs pg_spec_step]. rewrite (pg_all_inv _ Hne), pg_put_get. split; [reflexivity|]. split; [reflexivity|exact Hg].
  - (* findPage *)
    cbn [pg_step pg_abs]. rewrite (pg_find_inv _ _ Hi Hne).
    destruct (pg_index (pd_all (pg_get w d)) i); rewrite pg_put_get; cbn; (split; [reflexivity|]; split; [reflexivity|exact Hg]).
  - (* makeIndirectObject *)
    cbn [pg_step pg_abs pg_spec_step].
    change (let '(s, j) := pg_alloc (pd_store (pg_get w d)) (PcObj v) in (pg_put w d (pd_with_store (pg_get w d) s), PrId j))
      with (pg_put w d (pd_with_store (pg_get w d) (fst (pg_alloc (pd_store (pg_get w d)) (PcObj v)))), PrId (pg_next_id (pd_store (pg_get w d)))).
    cbv iota beta. rewrite pg_marks2_put, pg_marks_alloc by exact Hi. rewrite <- pg_marks2_put, pg_put_get.
    split; [reflexivity|]. split; [reflexivity|]. apply pg_good_put; [exact Hg|apply pg_inv_alloc, Hi|exact Hne].
Qed.

(* ------------------------------------------------------------------ histories *)
Fixpoint pg_run (w : pg_world) (ops : list pg_op) : pg_world :=
  match ops with [] => w | o :: t => pg_run (fst (pg_step w o)) t end.
(* what an observer of the model sees after every call: the two page lists (content markers), and whether the call raised *)
Fixpoint pg_trace (w : pg_world) (ops : list pg_op) : list (pg_lists * bool) :=
  match ops with
  | [] => []
  | o :: t => (pg_marks2 (fst (pg_step w o)), pg_is_err (snd (pg_step w o))) :: pg_trace (fst (pg_step w o)) t
  end.
(* every call of the history is one of the covered calls, in the state it is made in *)
Fixpoint pg_hist (w : pg_world) (ops : list pg_op) : Prop :=
  match ops with [] => True | o :: t => pg_adm w o /\ pg_hist (fst (pg_step w o)) t end.
(* the same history as list operations *)
Fixpoint pg_abs_hist (w : pg_world) (ops : list pg_op) : list pg_sop :=
  match ops with [] => [] | o :: t => pg_abs w o :: pg_abs_hist (fst (pg_step w o)) t end.

(* FULL STATEMENT (DESIGN C13 pages_refine_list): for every history of public page / object API calls on two
   documents whose trees are well formed, the page lists after every call and the set of calls that raise are those
   of the plain list model.
   PROVED HERE (partial): the same statement for histories made of addPage / QPDFPageDocumentHelper::addPage /
   addPageAt / removePage / findPage / getAllPages / shallowCopyPage / makeIndirectObject / replaceObject /
   swapObjects with operands that are direct objects or objects of the same document other than the catalog and
   the /Pages node, starting from two flattened documents (pg_good) and never emptying a page list.
   MISSING: (1) a page of the OTHER document as operand (needs the frame property of the foreign copier for the
   destination, see copy_frame in C13ProofsB.v, plus the invariant through pushInheritedAttributesToPage of the
   source); (2) updateAllPagesCache and pushInheritedAttributesToPage (need: getAllPagesInternal on a flattened tree
   returns /Kids); (3) the first flattening of a nested tree and the empty list.  These three are covered by the
   model-vs-implementation correspondence and the specification oracle of harness/c13.py only.
   A handle of the other document given to removePage / addPageAt is inside the theorem (it is rejected:
   foreign_handle_rejected, repair 87382fd8), so is an operand that cannot be a page (insert_non_page_rejected, repair
   53c36690); the null operand, where the full statement is still FALSE for qpdf, is the refuted lemma below. *)
Lemma pages_refine_list_partial_lemma : forall ops w, pg_good w -> pg_hist w ops ->
  pg_spec_run (pg_marks2 w) (pg_abs_hist w ops) = pg_trace w ops /\ pg_good (pg_run w ops).
Proof.
  induction ops as [|o t IH]; intros w Hg Hh; [split; [reflexivity|exact Hg]|].
  destruct Hh as [Ha Hh]. pose proof (pg_step_refines w o Hg Ha) as H.
  cbn [pg_abs_hist pg_spec_run pg_trace pg_run].
  destruct (pg_step w o) as [w' r] eqn:Es. destruct (pg_spec_step (pg_marks2 w) (pg_abs w o)) as [s' raise_] eqn:Ep.
  destruct H as (Hm & Hr & Hg'). cbn [fst snd] in *. subst s' raise_.
  destruct (IH w' Hg' Hh) as [IH1 IH2]. split; [|exact IH2]. f_equal. exact IH1.
Qed.

(* the invariant of QPDF_pages.cc (pg_inv: /Kids = all_pages, /Count = length, no duplicates, position map = inverse
   of the list) holds after every covered history *)
Lemma pages_inv_partial_lemma : forall ops w, pg_good w -> pg_hist w ops ->
  pg_inv (fst (pg_run w ops)) /\ pg_inv (snd (pg_run w ops)).
Proof.
  intros ops w Hg Hh. destruct (pages_refine_list_partial_lemma ops w Hg Hh) as [_ (H1 & H2 & _)]. split; assumption.
Qed.

Lemma pg_spec_step_raise : forall s o s', pg_spec_step s o = (s', true) -> s' = s.
Proof.
  intros s o s' H. destruct o; cbn [pg_spec_step] in H;
    repeat match type of H with context [if ?c then _ else _] => destruct c end; inversion H; reflexivity.
Qed.

(* a covered call that raises leaves both page lists as they were *)
Lemma bad_call_unchanged_partial_lemma : forall w o, pg_good w -> pg_adm w o ->
  pg_is_err (snd (pg_step w o)) = true -> pg_marks2 (fst (pg_step w o)) = pg_marks2 w.
Proof.
  intros w o Hg Ha He. pose proof (pg_step_refines w o Hg Ha) as H.
  destruct (pg_step w o) as [w' r]. destruct (pg_spec_step (pg_marks2 w) (pg_abs w o)) as [s' raise_] eqn:Ep.
  destruct H as (Hm & Hr & _). cbn [fst snd] in *. rewrite He in Hr. subst raise_. rewrite Hm.
  eapply pg_spec_step_raise, Ep.
Qed.

(* ------------------------------------------------------------------ witnesses: where qpdf does not do what the property says *)
Definition pg_ex_store : pg_store :=
  [(5, PcStream [] [65] 0);
   (4, PcObj (PvDict [(pgk_Mk, PvInt 11); (pgk_Parent, PvRef 2); (pgk_Type, PvName pgk_Page)]));
   (3, PcObj (PvDict [(pgk_Mk, PvInt 10); (pgk_Parent, PvRef 2); (pgk_Type, PvName pgk_Page)]));
   (2, PcObj (PvDict [(pgk_Count, PvInt 2); (pgk_Kids, PvArr [PvRef 3; PvRef 4]); (pgk_Type, PvName pgk_Pages)]));
   (1, PcObj (PvDict [(pgk_Pages, PvRef 2)]))].
Definition pg_ex_doc : pg_doc := mkPgDoc pg_ex_store 1 [3; 4] [(3, 0%Z); (4, 1%Z)] true false [] [].
Definition pg_ex_world : pg_world := (pg_ex_doc, pg_ex_doc).

Lemma pg_ex_good : pg_good pg_ex_world.
Proof.
  assert (pg_inv pg_ex_doc) as H.
  { exists 2, [(pgk_Count, PvInt 2); (pgk_Kids, PvArr [PvRef 3; PvRef 4]); (pgk_Type, PvName pgk_Pages)].
    repeat split; try reflexivity; try discriminate.
    - simpl. intros [H|[H|[]]]; discriminate.
    - simpl. intros [H|[H|[]]]; discriminate.
    - repeat constructor; simpl; intuition discriminate.
    - intros i [<-|[<-|[]]]; vm_compute; discriminate.
    - intros i. simpl. destruct (i =? 3); destruct (i =? 4); reflexivity.
    - repeat constructor; simpl; intuition discriminate. }
  repeat split; try exact H; discriminate.
Qed.

(* An insertion call whose operand cannot be a page - anything that is neither null nor a dictionary (integer, array,
   stream ...), a /Pages node, the catalog - raises and changes NOTHING, in every state of the two documents (repair
   53c36690 in /repo; before it the integer 5 became the third "page", see insert_null_rejected_refuted for what is
   left). *)
Lemma insert_non_page_rejected_lemma : forall w d h,
  pg_insertable w d h = false ->
  (forall pos, pg_insert w d h pos = (w, Some PeRt)) /\
  (forall first, exists e, pg_step w (PoAddPage d h first) = (w, PrErr e)) /\
  pg_step w (PoHAddPage d h true) = (w, PrErr PeRt).
Proof.
  intros w d h H. assert (Hi : forall pos, pg_insert w d h pos = (w, Some PeRt)).
  { intros pos. unfold pg_insert. rewrite H. reflexivity. }
  split; [exact Hi|]. split.
  - intros first. cbn [pg_step]. destruct first; [rewrite Hi; eexists; reflexivity|].
    destruct (pg_rv _ _); try (eexists; reflexivity). rewrite Hi. eexists; reflexivity.
  - cbn [pg_step]. rewrite Hi. reflexivity.
Qed.

(* the classes the lemma above speaks about are what the property calls "cannot be a page" *)
Lemma insert_non_page_direct_classes_lemma : forall w d v,
  (v <> PvNull /\ (forall l, v <> PvDict l) /\ (forall i, v <> PvRef i)) -> pg_insertable w d (PhDirect v) = false.
Proof.
  intros w d v (Hn & Hd & Hr). unfold pg_insertable. cbn [pg_norm].
  destruct v; try congruence; try reflexivity; exfalso; first [eapply Hr; reflexivity | eapply Hd; reflexivity].
Qed.

(* FULL STATEMENT that still fails: "an insertion call whose operand is null raises and leaves the page list unchanged".
   Pages::insert lets a null through on purpose (the C API maps an unknown handle to null and qpdf's test
   c-api-page "C page errors" fixes the warning that results): the null is made indirect and appended to /Kids. *)
Lemma insert_null_rejected_refuted_lemma :
  exists w d, pg_good w /\
    pg_is_err (snd (pg_step w (PoAddPage d (PhDirect PvNull) false))) = false /\
    pg_marks2 (fst (pg_step w (PoAddPage d (PhDirect PvNull) false))) <> pg_marks2 w.
Proof.
  exists pg_ex_world, false. split; [exact pg_ex_good|].
  split; vm_compute; [reflexivity|discriminate].
Qed.

(* removePage / addPageAt with a handle that belongs to the other document raise and change nothing, in EVERY state of the
   two documents (no invariant needed), whatever object number the handle has.  This was false before the repair
   87382fd8 in /repo (only the object number was compared: removing B's object 3 from A removed A's own page 3; the
   refutation of the old code is kept in the history of this file and is re-observed by the check when the repair is
   reverted). *)
Lemma foreign_handle_rejected_lemma : forall w d b i h before,
  b <> d -> pg_lookup (pd_store (pg_get w b)) i <> None ->
  pg_step w (PoRemove d (PhObj b i)) = (w, PrErr PeQ) /\
  pg_step w (PoAddPageAt d h before (PhObj b i)) = (w, PrErr PeQ).
Proof.
  intros w d b i h before Hb Hex.
  assert (pg_foreign_handle w d (PhObj b i) = true) as Hf.
  { unfold pg_foreign_handle, pg_norm. destruct (pg_lookup (pd_store (pg_get w b)) i); [|congruence].
    destruct b; destruct d; try reflexivity; congruence. }
  cbn [pg_step]. rewrite Hf. split; reflexivity.
Qed.

(* FULL STATEMENT that fails: "swapObjects keeps every object usable: the data of a stream can be produced after the swap
   if it could before".  A stream made by copyForeignObject is found by the provider only under the number it was
   created with. *)
Lemma swap_keeps_stream_data_refuted_lemma :
  exists w l, snd (pg_step w (PoCopyForeign false (PhObj true 5))) = PrId l /\
    let w1 := fst (pg_step w (PoCopyForeign false (PhObj true 5))) in
    pg_stream_data (fst w1) l = Some [65] /\
    let w2 := fst (pg_step w1 (PoSwap false l 3)) in
    snd (pg_step w1 (PoSwap false l 3)) = PrOk /\ pg_stream_data (fst w2) 3 = None.
Proof. exists pg_ex_world, 6. vm_compute. repeat split; reflexivity. Qed.

(* FULL STATEMENT that fails: "replaceObject with an indirect handle raises and changes nothing".  The one indirect form
   QPDF::replaceObject admits - the stream that already is the object - is accepted and destroys the stream: the cached
   object is moved into itself and ends up as a reference to itself. *)
Lemma replace_stream_by_itself_refuted_lemma :
  exists w, pg_stream_data (fst w) 5 = Some [65] /\
    snd (pg_step w (PoReplaceInd false 5 (PhObj false 5))) = PrOk /\
    pg_stream_data (fst (fst (pg_step w (PoReplaceInd false 5 (PhObj false 5))))) 5 = None /\
    pg_lookup (pd_store (fst (fst (pg_step w (PoReplaceInd false 5 (PhObj false 5)))))) 5 = Some (PcObj (PvRef 5)).
Proof. exists pg_ex_world. vm_compute. repeat split; reflexivity. Qed.

(* every other indirect handle of the same document (dictionary, array, null object, stream of another object) is rejected
   and nothing changes *)
Lemma replace_indirect_rejected_lemma : forall w d i j,
  pg_lookup (pd_store (pg_get w d)) j <> None ->
  pg_is_stream (pd_store (pg_get w d)) (PvRef j) && (j =? i) = false ->
  pg_step w (PoReplaceInd d i (PhObj d j)) = (w, PrErr PeLogic).
Proof.
  intros w d i j Hex Hs. cbn [pg_step]. unfold pg_norm.
  destruct (pg_lookup (pd_store (pg_get w d)) j); [|congruence]. rewrite Hs. reflexivity.
Qed.
