# C07 - linearized output obeys ISO 32000-1 Annex F byte for byte.
# Proof: Props/Properties_C07.v (hint-table encoder model vs the Annex F decoder, nbits, padding arithmetic).
# Oracle: the extracted Annex F checker (coq/Lin/AnnexF.v: lin_check, on top of the strict reader and the
# reference inflate) on every real `qpdf --linearize` output over generated documents and corpus files x
# object-stream modes x encryption x stream-data modes; `qpdf --check-linearization` silent;
# `qpdf --show-linearization` values = the decoded hint tables.
# The checker's page needs include what a page still inherits through /Parent (clauses 512 / 535); the shared-object identifiers of
# every page are also computed by the model of calculateLinearizationData's last loop (coq/Lin/SharedIds.v, theorems c07sh_*) from the users
# found in the file and compared with the file's table (corr:C07:shared-identifiers).
# Tie: the model of qpdf's hint encoder (coq/Lin/Hints.v) must reproduce the real hint stream byte for byte from
# the quantities found in the file; BitWriter/BitStream of libqpdf.a vs the model on random operation lists;
# parameter-dictionary text / 200-byte padding / 21-character /Prev / pass-1 offsets vs the arithmetic model.
import json, os, re, zlib
import common, filecheck, pdfgen
from pdfgen import Name, Ref, Str, Real, Stream, D, N

ASSUMPTIONS = [
    "the Annex F checker is the specification (written from ISO 32000-1 Annex F, Tables F.1, F.3-F.7); 'objects a page needs' is read as: everything reachable from the page object without passing through /Parent, /Thumb or another page object, plus - when the page has no entry of its own for /Resources, /MediaBox, /CropBox or /Rotate - the nearest ancestor /Pages node that has one and whatever that value references (ISO 32000-1 7.7.3.4); an object inside an object stream is located by its object stream",
    "api-sequences: histories of public QPDF / QPDFWriter calls on one QPDF object are outside the property's quantifier (inputs x command-line configurations); they are run because the writer and the checker share cached state, and their outputs are judged by the same clauses",
    "hint streams of encrypted outputs are encrypted: the hint-table clauses are judged on unencrypted outputs only, the parameter-dictionary / offset / ordering clauses on all; in encrypted outputs that use object streams the page tree may be unreadable, then /O and /N are not judged either (listed as notes)",
    "items 6-9 of the page offset hint table header and items 6-7 per page (content stream offset/length) and the shared-object numerators are decoded but not judged (qpdf follows Acrobat, PDF Reference 1.7 implementation notes 126-127)",
    "overflow hint streams, thumbnail and the other optional hint tables are outside (qpdf never writes them)",
    "outputs above 150 kB are not given to the extracted list-based reader",
    "qpdf --check-linearization shares code with the writer; it is used only as the additional 'accepts the file without warning' clause",
]

MAXSIZE = 150000

CLAUSE = {
    1: "output is not strictly well-formed (strict reader)", 2: "the first object of the file is not the linearization parameter dictionary",
    3: "the linearization parameter dictionary is not wholly inside the first 1024 bytes", 4: "/L is not the file length",
    5: "/H does not point at a stream object", 6: "/H length is not the length of the hint stream object",
    7: "/O is not the object number of the first page", 8: "/N is not the number of pages", 9: "/E is not the end of the first-page section",
    10: "/T is not the position Annex F prescribes for the main cross-reference section", 11: "the first-page cross-reference section does not precede /E",
    12: "an object the first page needs lies at or after /E", 13: "catalog or page object is compressed", 14: "first-page-section object after /E or main-section object before /E",
    15: "parameter dictionary entries missing / ill-typed / indirect", 20: "hint stream cannot be decoded", 21: "page offset hint table malformed",
    22: "page offset table: location of the first page object", 23: "page offset table: first object number of a page", 24: "page offset table: the page's objects are not consecutive objects in the file",
    25: "page offset table: page length", 26: "page offset table: page location", 27: "page offset table: an object counted with a page is not private to that page",
    28: "page offset table: the first page lists shared objects", 29: "page offset table: shared object identifiers of a page are not the shared objects it needs",
    30: "shared object table malformed", 31: "shared object table: first-page entries do not cover the first page's objects", 32: "shared object table: group length",
    33: "shared object table: first shared object number / location", 34: "shared object table: an object of the shared section is not shared among later pages only",
    35: "a page needs an object that is neither in its own run, nor in the shared object table, nor before the first page (document-level part)",
    112: "an object the first page needs is a member of an object stream that also holds outline objects and lies at or after /E",
    312: "an object the first page needs is a member of an object stream (without outline users) that lies at or after /E",
    335: "a page needs a member of an object stream (no document-level user) that is neither in the page's run, nor in the shared object table, nor before the first page",
    412: "an object the first page needs is also reached from the first page's own /Thumb and lies at or after /E (with the thumbnails)",
    435: "a page needs an object that is also reached from the page's own /Thumb and is neither in the page's run, nor in the shared object table, nor before the first page",
    512: "the first page still inherits /Resources, /MediaBox, /CropBox or /Rotate through /Parent from a page-tree node that lies at or after /E (or the inherited value does)",
    535: "a page still inherits /Resources, /MediaBox, /CropBox or /Rotate through /Parent from a page-tree node that is neither in the page's run, nor in the shared object table, nor before the first page",
    635: "a page needs an object that is also reached from ANOTHER page's /Thumb and is neither in the page's run, nor in the shared object table, nor before the first page (with the thumbnails)",
    212: "an object the first page needs is also reached from /Outlines and lies at or after /E (with the outlines)",
    235: "a page needs an object that is also reached from a document-level key and is neither in the page's run, nor in the shared object table, nor before the first page",
    135: "a page needs a member of an object stream that is neither in the page's run, nor in the shared object table, nor before the first page",
    36: "page offset table: identifier count", 41: "outline table: first object", 42: "outline table: location", 43: "outline table: length / objects not consecutive",
    44: "outline table: object set differs from what /Outlines reaches", 45: "hint tables overlap",
}


# ------------------------------------------------------------------ generated documents

def lin_doc(rng, npages, feat):
    """document with npages pages. feat: set of feature names"""
    d = pdfgen.Doc()
    cat = d.add(None)
    pages = d.add(None)
    fonts = [d.add(D(Type=N("Font"), Subtype=N("Type1"), BaseFont=N(b"Helvetica" if i == 0 else b"Courier%d" % i))) for i in range(3)]
    shared_img = d.add(Stream(D(Type=N("XObject"), Subtype=N("Image"), Width=2, Height=2, ColorSpace=N("DeviceGray"), BitsPerComponent=8), b"\x00\x40\x80\xff"))
    gs = d.add(D(Type=N("ExtGState"), LW=2))
    page_refs = []
    annots_all = []
    for k in range(npages):
        body = ("BT /F1 12 Tf 72 720 Td (P%d) Tj ET\n" % k) + "% " + "x" * rng.choice([0, 0, 3, 40, 300, 2000]) + "\n"
        cs = [d.add(Stream({}, body.encode()))]
        if "multi-content" in feat and k % 3 == 1:
            cs.append(d.add(Stream({}, b"q Q\n")))
        res_font = {b"F1": fonts[0]}
        if "shared" in feat:
            # fonts[1] shared by even pages, fonts[2] by pages >= 1 only (part 8), the image by pages 0 and last
            if k % 2 == 0:
                res_font[b"F2"] = fonts[1]
            if k >= 1:
                res_font[b"F3"] = fonts[2]
        res = {b"Font": res_font}
        if "shared" in feat and (k == 0 or k == npages - 1):
            res[b"XObject"] = {b"Im0": shared_img}
        if "shared" in feat and k >= 2:
            res[b"ExtGState"] = {b"G0": gs}
        if "private" in feat:
            res[b"XObject"] = dict(res.get(b"XObject", {}))
            res[b"XObject"][b"ImP"] = d.add(Stream(D(Type=N("XObject"), Subtype=N("Image"), Width=1, Height=1, ColorSpace=N("DeviceGray"), BitsPerComponent=8),
                                                   bytes([k % 256]) * rng.choice([1, 1, 50])))
            if rng.random() < 0.5:
                res[b"ProcSet"] = d.add([N("PDF"), N("Text")])
        pg = D(Type=N("Page"), Parent=pages, Contents=cs[0] if len(cs) == 1 else list(cs))
        pg[b"Resources"] = d.add(res) if ("indirect-res" in feat and k % 2 == 1) else res
        if "thumbs" in feat and (k % 2 == 0 or "all-thumbs" in feat):
            pg[b"Thumb"] = d.add(Stream(D(Width=1, Height=1, ColorSpace=N("DeviceGray"), BitsPerComponent=8), bytes([k % 256])))
        if "no-inherit" in feat:
            pg[b"MediaBox"] = [0, 0, 612, 792]
        pref = d.add(pg)
        if "annots" in feat and k % 2 == 0:
            a = d.add(D(Type=N("Annot"), Subtype=N("Link"), Rect=[0, 0, 10, 10], P=pref, Dest=[page_refs[0] if page_refs else pref, N("Fit")]))
            d.objects[pref.n][b"Annots"] = [a]
            annots_all.append(a)
        page_refs.append(pref)
    root_pages = D(Type=N("Pages"), Count=npages)
    if "no-inherit" not in feat:
        root_pages[b"MediaBox"] = [0, 0, 612, 792]
        if "inherit-res" in feat:
            root_pages[b"Rotate"] = 0
    if "two-level" in feat and npages > 2:
        kids = []
        for i in range(0, npages, 3):
            grp = page_refs[i:i + 3]
            node = D(Type=N("Pages"), Parent=pages, Count=len(grp), Kids=list(grp))
            if (i // 3) % 2 == 1:
                node[b"Rotate"] = 90
                node[b"CropBox"] = [0, 0, 300 + i, 400]
            nr = d.add(node)
            for r in grp:
                d.objects[r.n][b"Parent"] = nr
            kids.append(nr)
        root_pages[b"Kids"] = kids
    else:
        root_pages[b"Kids"] = list(page_refs)
    d.objects[pages.n] = root_pages
    c = D(Type=N("Catalog"), Pages=pages)
    if "outlines" in feat:
        ol = d.add(None)
        items = []
        n_items = rng.choice([1, 2, 5])
        for i in range(n_items):
            items.append(d.add(D(Title=Str(b"Item %d" % i), Parent=ol, Dest=[page_refs[rng.randrange(npages)], N("Fit")])))
        for i, it in enumerate(items):
            if i > 0:
                d.objects[it.n][b"Prev"] = items[i - 1]
            if i + 1 < len(items):
                d.objects[it.n][b"Next"] = items[i + 1]
        d.objects[ol.n] = D(Type=N("Outlines"), First=items[0], Last=items[-1], Count=len(items))
        if "shared-action" in feat:
            act = d.add(D(S=N("GoTo"), D=[page_refs[-1], N("Fit")]))
            del d.objects[items[0].n][b"Dest"]
            d.objects[items[0].n][b"A"] = act
            la = d.add(D(Type=N("Annot"), Subtype=N("Link"), Rect=[0, 0, 20, 20], A=act))
            tgt = page_refs[0] if rng.random() < 0.5 else page_refs[-1]
            d.objects[tgt.n][b"Annots"] = list(d.objects[tgt.n].get(b"Annots", [])) + [la]
        c[b"Outlines"] = ol
        if "use-outlines" in feat:
            c[b"PageMode"] = N("UseOutlines")
        elif "pagemode-other" in feat:
            c[b"PageMode"] = N("UseThumbs")
    if "acroform" in feat:
        fld = d.add(D(FT=N("Tx"), T=Str(b"f1"), V=Str(b"v")))
        c[b"AcroForm"] = d.add(D(Fields=[fld], DA=Str(b"/F1 0 Tf")))
    if "threads" in feat and npages >= 2:
        th = d.add(None)
        b1 = d.add(None)
        b2 = d.add(None)
        d.objects[b1.n] = D(Type=N("Bead"), T=th, N=b2, V=b2, P=page_refs[0], R=[0, 0, 10, 10])
        d.objects[b2.n] = D(Type=N("Bead"), N=b1, V=b1, P=page_refs[1], R=[0, 0, 10, 10])
        d.objects[th.n] = D(Type=N("Thread"), F=b1, I=D(Title=Str(b"thread")))
        c[b"Threads"] = [th]
        d.objects[page_refs[0].n][b"B"] = [b1]
        d.objects[page_refs[1].n][b"B"] = [b2]
    if "viewerprefs" in feat:
        c[b"ViewerPreferences"] = d.add(D(HideToolbar=True))
    if "openaction" in feat:
        c[b"OpenAction"] = [page_refs[-1], N("Fit")]
    if "names" in feat:
        c[b"Names"] = d.add(D(Dests=d.add(D(Names=[Str(b"a"), [page_refs[0], N("Fit")]]))))
    if "metadata" in feat:
        c[b"Metadata"] = d.add(Stream(D(Type=N("Metadata"), Subtype=N("XML")), b"<x:xmpmeta/>" * rng.choice([1, 20])))
    if "page-and-other" in feat and npages >= 2:
        # an object used by one later page and by a catalog key that is not an open-document key
        both = d.add(D(Marker=Str(b"used by page and by /Extra")))
        d.objects[page_refs[1].n][b"PieceInfo"] = D(X=both)
        c[b"Extra"] = D(K=both)
    d.objects[cat.n] = c
    d.trailer = {b"Root": cat}
    if "info" in feat or "share:info" in feat:
        d.trailer[b"Info"] = d.add(D(Title=Str(b"t"), Producer=Str(b"verif")))
    # sharing shapes: an indirect object the FIRST page needs (colour space array / font / ExtGState) is also used by
    # another kind of user; every pair (first page, other user kind) of calculateLinearizationData's classification
    for sh in sorted(f for f in feat if f.startswith("share:")):
        kind = sh[6:]
        which = rng.choice(["cs", "font", "gs"])
        if which == "cs":
            x = d.add([N("CalGray"), D(WhitePoint=[Real("0.9505"), 1, Real("1.089")], Gamma=Real("2.2"))])
            rkey, skey = b"ColorSpace", b"CSx"
        elif which == "font":
            x = d.add(D(Type=N("Font"), Subtype=N("Type1"), BaseFont=N("Times-Roman")))
            rkey, skey = b"Font", b"Fx"
        else:
            x = d.add(D(Type=N("ExtGState"), LW=3, CA=Real("0.5")))
            rkey, skey = b"ExtGState", b"GSx"

        def use_in_page(pref):
            pg = d.objects[pref.n]
            res = pg[b"Resources"]
            if isinstance(res, Ref):
                res = d.objects[res.n]
            res[rkey] = dict(res.get(rkey, {}))
            res[rkey][skey + kind.encode().replace(b"-", b"")] = x
        use_in_page(page_refs[0])
        other = page_refs[-1] if npages > 1 else page_refs[0]
        if kind == "thumb-other":        # the /Thumb image of a DIFFERENT page (own page when there is only one)
            t = d.add(Stream(D(Width=1, Height=1, ColorSpace=x if which == "cs" else N("DeviceGray"), BitsPerComponent=8, Aux=x), b"\x80"))
            d.objects[other.n][b"Thumb"] = t
        elif kind == "thumb-own":
            t = d.add(Stream(D(Width=1, Height=1, ColorSpace=N("DeviceGray"), BitsPerComponent=8, Aux=x), b"\x40"))
            d.objects[page_refs[0].n][b"Thumb"] = t
        elif kind == "later-page" and npages > 1:
            use_in_page(other)
        elif kind == "later-annot" and npages > 1:
            a = d.add(D(Type=N("Annot"), Subtype=N("Square"), Rect=[0, 0, 5, 5], AuxRes=x))
            d.objects[other.n][b"Annots"] = list(d.objects[other.n].get(b"Annots", [])) + [a]
        elif kind == "outlines":
            if b"Outlines" not in c:
                ol = d.add(None)
                it = d.add(D(Title=Str(b"only"), Parent=ol, Dest=[page_refs[0], N("Fit")]))
                d.objects[ol.n] = D(Type=N("Outlines"), First=it, Last=it, Count=1)
                c[b"Outlines"] = ol
            first_item = d.objects[c[b"Outlines"].n][b"First"]
            d.objects[first_item.n][b"AuxRes"] = x
        elif kind == "names":
            c[b"Names"] = d.add(D(Dests=d.add(D(Names=[Str(b"a"), [page_refs[0], N("Fit")]])), AuxRes=x))
        elif kind == "acroform":
            c[b"AcroForm"] = d.add(D(Fields=[], DR={rkey: {skey: x}}, DA=Str(b"/F1 0 Tf")))
        elif kind == "openaction":
            c[b"OpenAction"] = d.add(D(S=N("GoTo"), D=[page_refs[0], N("Fit")], AuxRes=x))
        elif kind == "threads":
            th = d.add(None)
            bd = d.add(None)
            d.objects[bd.n] = D(Type=N("Bead"), T=th, N=bd, V=bd, P=page_refs[0], R=[0, 0, 10, 10])
            d.objects[th.n] = D(Type=N("Thread"), F=bd, I=D(Title=Str(b"t"), AuxRes=x))
            c[b"Threads"] = [th]
        elif kind == "viewerprefs":
            c[b"ViewerPreferences"] = d.add(D(HideToolbar=True, AuxRes=x))
        elif kind == "other-root-key":
            c[b"PieceInfo"] = d.add(D(App=D(Private=x)))
        elif kind == "info":
            d.objects[d.trailer[b"Info"].n][b"AuxRes"] = x
    if "trailer-string" in feat:
        # a direct string value in the trailer dictionary (as in qtest good9.pdf / bad37.pdf)
        d.trailer[b"QTest"] = Str(b"potato" * rng.choice([1, 3]))
    return d


FEATURES = ["shared", "private", "thumbs", "all-thumbs", "outlines", "use-outlines", "pagemode-other", "acroform", "threads", "viewerprefs",
            "openaction", "names", "metadata", "info", "two-level", "no-inherit", "inherit-res", "indirect-res", "multi-content", "annots",
            "page-and-other", "shared-action", "trailer-string"]
SHARE_KINDS = ["thumb-other", "thumb-own", "later-page", "later-annot", "outlines", "names", "acroform", "openaction", "threads", "viewerprefs",
               "other-root-key", "info"]
FEATURES += ["share:" + k for k in SHARE_KINDS]


def gen_inputs(rng, n, wd):
    out = []
    for i in range(n):
        npages = rng.choice([1, 1, 2, 2, 3, 4, 5, 7, 9, 13, 17, 24, 40]) if i >= 4 else [1, 2, 3, 40][i]
        k = rng.choice([0, 1, 2, 3, 5, 8])
        feat = set(rng.sample(FEATURES, k))
        if "use-outlines" in feat or "pagemode-other" in feat or "shared-action" in feat:
            if rng.random() < 0.8:
                feat.add("outlines")
        d = lin_doc(rng, npages, feat)
        idk = rng.choice(["none", "16", "16", "0", "5", "32"])
        wid = None
        if idk != "none":
            l = int(idk)
            wid = (bytes(rng.randrange(256) for _ in range(l)), bytes(rng.randrange(256) for _ in range(16)))
        data, _ = pdfgen.write_classic(d, with_id=wid)
        p = os.path.join(wd, "g%d.pdf" % i)
        open(p, "wb").write(data)
        out.append({"name": "g%d" % i, "path": p, "kind": "generated", "npages": npages, "features": sorted(feat), "id": idk})
    return out


# ------------------------------------------------------------------ user-pair shapes and inheritance shapes
# calculateLinearizationData decides the part of an object, and the shared-object identifiers of a page, from the SET of the
# object's users. pair_doc: one document per kind of second user K, holding three indirect objects x used by K and by
#   role a: exactly one later page (page 1)      role b: two later pages (pages 2 and 3)      role c: the first page and page 4
# with the outline tree absent / present / opened with the document (/PageMode /UseOutlines puts the outline objects into the
# first-page section and thereby into the shared object table).
PAIR_KINDS = ["outline-action", "outline-dest", "outline-aux", "names", "other-root-key", "info", "openaction", "acroform", "threads",
              "viewerprefs", "thumb-other", "thumb-own", "pages-only"]
PAIR_ROLES = {"a": [1], "b": [2, 3], "c": [0, 4]}


def pair_doc(kind, outl, npages=6):
    """outl: 'none' | 'plain' | 'use' (outline tree absent / present / present with /PageMode /UseOutlines)"""
    d = pdfgen.Doc()
    cat = d.add(None)
    pages = d.add(None)
    font = d.add(D(Type=N("Font"), Subtype=N("Type1"), BaseFont=N("Helvetica")))
    page_refs = []
    for k in range(npages):
        cs = d.add(Stream({}, ("BT /F1 12 Tf 72 720 Td (Pair %d) Tj ET\n" % k).encode() + b"% filler\n" * (2 * k)))
        page_refs.append(d.add(D(Type=N("Page"), Parent=pages, MediaBox=[0, 0, 612, 792], Contents=cs, Resources=D(Font=D(F1=font)))))
    d.objects[pages.n] = D(Type=N("Pages"), Count=npages, Kids=list(page_refs))
    c = D(Type=N("Catalog"), Pages=pages)
    d.trailer = {b"Root": cat}
    # the three shared objects and how a page refers to them (through a private, indirect link annotation)
    xs = {}
    for r, pgs in PAIR_ROLES.items():
        tgt = page_refs[(pgs[0] + 1) % npages]
        if kind in ("outline-action", "openaction"):
            xs[r] = (d.add(D(Type=N("Action"), S=N("GoTo"), D=[tgt, N("XYZ"), 72, 720, None])), b"A")
        elif kind in ("outline-dest", "names"):
            xs[r] = (d.add([tgt, N("XYZ"), 72, 720, None]), b"Dest")
        else:
            xs[r] = (d.add(D(Marker=Str(b"shared " + r.encode()), Deep=d.add([1, 2, 3]))), b"AuxRes")
        for pg in pgs:
            a = d.add({b"Type": N("Annot"), b"Subtype": N("Link"), b"Rect": [72, 650, 300, 670], b"Border": [0, 0, 0], xs[r][1]: xs[r][0]})
            po = d.objects[page_refs[pg].n]
            po[b"Annots"] = list(po.get(b"Annots", [])) + [a]
    X = {r: v[0] for r, v in xs.items()}
    if outl != "none" or kind.startswith("outline-"):
        ol = d.add(None)
        items = []
        for i, r in enumerate(["a", "b", "c", None]):
            it = D(Title=Str(b"Chapter %d" % (i + 1)), Parent=ol)
            if r is not None and kind.startswith("outline-"):
                it[{"outline-action": b"A", "outline-dest": b"Dest", "outline-aux": b"AuxRes"}[kind]] = X[r]
                if kind == "outline-aux":
                    it[b"Dest"] = [page_refs[i], N("Fit")]
            else:
                it[b"Dest"] = [page_refs[min(i, npages - 1)], N("Fit")]
            items.append(d.add(it))
        for i, it in enumerate(items):
            if i > 0:
                d.objects[it.n][b"Prev"] = items[i - 1]
            if i + 1 < len(items):
                d.objects[it.n][b"Next"] = items[i + 1]
        d.objects[ol.n] = D(Type=N("Outlines"), First=items[0], Last=items[-1], Count=len(items))
        c[b"Outlines"] = ol
        if outl == "use":
            c[b"PageMode"] = N("UseOutlines")
    allx = [X["a"], X["b"], X["c"]]
    if kind == "names":
        c[b"Names"] = d.add(D(Dests=d.add(D(Names=[Str(b"a"), X["a"], Str(b"b"), X["b"], Str(b"c"), X["c"]]))))
    elif kind == "other-root-key":
        c[b"PieceInfo"] = d.add(D(App=D(Private=allx)))
    elif kind == "info":
        d.trailer[b"Info"] = d.add(D(Title=Str(b"t"), AuxRes=allx))
    elif kind == "openaction":
        c[b"OpenAction"] = d.add(D(Type=N("Action"), S=N("GoTo"), D=[page_refs[0], N("Fit")], Next=allx))
    elif kind == "acroform":
        c[b"AcroForm"] = d.add(D(Fields=[], DA=Str(b"/F1 0 Tf"), AuxRes=allx))
    elif kind == "threads":
        th = d.add(None)
        bd = d.add(None)
        d.objects[bd.n] = D(Type=N("Bead"), T=th, N=bd, V=bd, P=page_refs[0], R=[0, 0, 10, 10])
        d.objects[th.n] = D(Type=N("Thread"), F=bd, I=D(Title=Str(b"t"), AuxRes=allx))
        c[b"Threads"] = [th]
    elif kind == "viewerprefs":
        c[b"ViewerPreferences"] = d.add(D(HideToolbar=True, AuxRes=allx))
    elif kind == "thumb-other":
        d.objects[page_refs[5].n][b"Thumb"] = d.add(Stream(D(Width=1, Height=1, ColorSpace=N("DeviceGray"), BitsPerComponent=8, Aux=allx), b"\x80"))
    elif kind == "thumb-own":
        for r, pg in (("a", 1), ("b", 2), ("c", 0)):
            d.objects[page_refs[pg].n][b"Thumb"] = d.add(Stream(D(Width=1, Height=1, ColorSpace=N("DeviceGray"), BitsPerComponent=8, Aux=X[r]), b"\x40"))
    d.objects[cat.n] = c
    return d


# inheritable page attributes (ISO 32000-1 7.7.3.4): before linearizing, every one of them has to be pushed down to the pages
INH_KEYS = [b"Resources", b"MediaBox", b"CropBox", b"Rotate"]


def inh_doc(rng, levels, plan, npages=None):
    """page tree of `levels` levels of /Pages nodes above the pages (1 = flat). plan: {node level (0 = root): {key: 'direct' | 'indirect'}};
    the pages carry none of the planned keys unless rng decides (plan[-1] = set of keys some pages override). Values differ per node."""
    d = pdfgen.Doc()
    cat = d.add(None)
    root = d.add(None)
    fonts = [d.add(D(Type=N("Font"), Subtype=N("Type1"), BaseFont=N(b"Helvetica" if i == 0 else b"Courier"))) for i in range(2)]
    npages = npages or rng.choice([2, 3, 5, 7])
    serial = [0]

    def value(key, how, lvl):
        serial[0] += 1
        k = serial[0]
        if key == b"Resources":
            v = {b"Font": {b"F1": fonts[lvl % 2]}, b"ProcSet": [N("PDF"), N("Text")]}
        elif key == b"MediaBox":
            v = [0, 0, 612 - k, 792 - lvl]
        elif key == b"CropBox":
            v = [10 + k, 10 + lvl, 500, 600]
        else:
            return 90 * (1 + (k + lvl) % 3)          # /Rotate is a scalar: always direct
        return d.add(v) if how == "indirect" else v

    override = plan.get(-1, set())
    page_refs = []
    for k in range(npages):
        cs = d.add(Stream({}, ("BT /F1 12 Tf 72 720 Td (Inh %d) Tj ET\n" % k).encode()))
        pg = D(Type=N("Page"), Contents=cs)
        if k % 3 == 2:      # some pages hide the ancestors' values by their own
            for key in sorted(override):
                pg[key] = {b"Resources": {b"Font": {b"F1": fonts[1]}}, b"MediaBox": [0, 0, 600, 700 + k], b"CropBox": [5, 5, 400, 500], b"Rotate": 270}[key]
        page_refs.append(d.add(pg))

    def build(lvl, refs, parent):
        """node at level lvl over the pages refs"""
        me = d.add(None) if lvl > 0 else root
        node = D(Type=N("Pages"), Count=len(refs))
        if parent is not None:
            node[b"Parent"] = parent
        for key, how in plan.get(lvl, {}).items():
            node[key] = value(key, how, lvl)
        if lvl + 1 >= levels or len(refs) < 2:
            node[b"Kids"] = list(refs)
            for r in refs:
                d.objects[r.n][b"Parent"] = me
        else:
            half = (len(refs) + 1) // 2
            node[b"Kids"] = [build(lvl + 1, refs[:half], me), build(lvl + 1, refs[half:], me)]
        d.objects[me.n] = node
        return me
    build(0, page_refs, None)
    # a page that would end up without the two required attributes gets its own
    for r in page_refs:
        for key, own in ((b"Resources", {b"Font": {b"F1": fonts[0]}}), (b"MediaBox", [0, 0, 612, 792])):
            o = d.objects[r.n]
            while o is not None and key not in o:
                o = d.objects[o[b"Parent"].n] if b"Parent" in o else None
            if o is None:
                d.objects[r.n][key] = own
    d.objects[cat.n] = D(Type=N("Catalog"), Pages=root)
    d.trailer = {b"Root": cat}
    return d


def inh_plans(rng, quick):
    """(name, levels, plan): every inheritable key alone on the root and alone on an intermediate node, all four together, random mixtures"""
    out = []
    for key in INH_KEYS:
        nm = key.decode().lower()
        out.append(("root-" + nm, 1, {0: {key: rng.choice(["direct", "indirect"])}}))
        out.append(("mid-" + nm, 2, {1: {key: rng.choice(["direct", "indirect"])}}))
    out.append(("all-root", 2, {0: {k: "indirect" if i % 2 == 0 else "direct" for i, k in enumerate(INH_KEYS)}, 1: {b"CropBox": "indirect", b"Rotate": "direct"}}))
    for i in range(3 if quick else 40):
        levels = rng.choice([1, 2, 2, 3])
        plan = {}
        for lv in range(levels):
            m = plan.setdefault(lv, {})
            for key in INH_KEYS:
                if rng.random() < 0.45:
                    m[key] = rng.choice(["direct", "indirect"])
        plan[-1] = set(k for k in INH_KEYS if rng.random() < 0.3)
        out.append(("mix%d" % i, levels, plan))
    return out


ENC = {
    "none": [],
    "aes256": ["--encrypt", "--user-password=u", "--owner-password=o", "--bits=256", "--"],
    "aes128": ["--encrypt", "--user-password=", "--owner-password=o", "--bits=128", "--use-aes=y", "--"],
    "rc4-128": ["--allow-weak-crypto", "--encrypt", "--user-password=u", "--owner-password=o", "--bits=128", "--use-aes=n", "--"],
    "rc4-40": ["--allow-weak-crypto", "--encrypt", "--user-password=", "--owner-password=o", "--bits=40", "--"],
}
OBJSTM = ["disable", "preserve", "generate"]
SDATA = [[], ["--stream-data=uncompress"], ["--compress-streams=n"], ["--stream-data=preserve"], ["--recompress-flate", "--compression-level=9"],
         ["--normalize-content=y"], ["--decode-level=all", "--stream-data=uncompress"]]


def all_configs():
    out = []
    for e in ENC:
        for o in OBJSTM:
            for s in SDATA:
                out.append((e, o, s))
    return out


def cfg_args(cfg):
    e, o, s = cfg
    return ["--linearize", "--object-streams=" + o] + s + ENC[e]


def cfg_name(cfg):
    return "%s/%s/%s" % (cfg[0], cfg[1], " ".join(cfg[2]) or "default")


# ------------------------------------------------------------------ show-linearization parsing

def parse_show(text):
    """qpdf --show-linearization output -> dict"""
    res = {"params": {}, "page": {}, "pages": [], "shared": {}, "shared_entries": [], "outline": None}
    sect = "params"
    cur = None
    for line in text.split("\n"):
        if line.startswith("Page Offsets Hint Table"):
            sect = "page"; continue
        if line.startswith("Shared Objects Hint Table"):
            sect = "shared"; continue
        if line.startswith("Outlines Hint Table"):
            sect = "outline"; res["outline"] = {}; continue
        m = re.match(r"^Page (\d+):$", line)
        if m:
            cur = {"ids": [], "nums": []}; res["pages"].append(cur); continue
        m = re.match(r"^Shared Object (\d+):$", line)
        if m:
            cur = {"nobjects": 1, "sig": 0}; res["shared_entries"].append(cur); continue
        m = re.match(r"^(\s*)([A-Za-z_ ]+?)(?: (\d+))?: (-?\d+)$", line)
        if not m:
            if line.strip() == "signature present" and cur is not None:
                cur["sig"] = 1
            continue
        ind, key, idx, val = m.group(1), m.group(2), m.group(3), int(m.group(4))
        if ind and cur is not None:
            if key == "identifier":
                cur["ids"].append(val)
            elif key == "numerator":
                cur["nums"].append(val)
            else:
                cur[key] = val
        elif sect == "params":
            res["params"][key] = val
        elif sect == "page":
            res["page"][key] = val
        elif sect == "shared":
            res["shared"][key] = val
        elif sect == "outline":
            res["outline"][key] = val
    return res


def compare_show(show, rep):
    """differences between qpdf's own reading of the hint tables and the Annex F decoder's"""
    diffs = []
    L, h0, h1, pO, E, Np, T = rep["params"]
    want = {"file_size": L, "first_page_object": pO, "first_page_end": E, "npages": Np, "xref_zero_offset": T, "H_offset": h0, "H_length": h1}
    for k, v in want.items():
        if show["params"].get(k) != v:
            diffs.append("parameter %s: qpdf shows %s, file has %s" % (k, show["params"].get(k), v))
    pt = rep.get("page_table")
    if pt is None:
        return diffs + ["no decoded tables"]

    def adj(x):
        return x + h1 if x >= h0 else x
    for k in ("min_nobjects", "nbits_delta_nobjects", "min_page_length", "nbits_delta_page_length", "min_content_offset", "nbits_delta_content_offset",
              "min_content_length", "nbits_delta_content_length", "nbits_nshared_objects", "nbits_shared_identifier", "nbits_shared_numerator", "shared_denominator"):
        if show["page"].get(k) != pt[k]:
            diffs.append("page table %s: qpdf shows %s, decoded %s" % (k, show["page"].get(k), pt[k]))
    if show["page"].get("first_page_offset") != adj(pt["first_page_offset"]):
        diffs.append("page table first_page_offset: qpdf shows %s, decoded %s" % (show["page"].get("first_page_offset"), adj(pt["first_page_offset"])))
    if len(show["pages"]) != len(pt["entries"]):
        diffs.append("page entries: %d vs %d" % (len(show["pages"]), len(pt["entries"])))
    for i, (a, b) in enumerate(zip(show["pages"], pt["entries"])):
        w = {"nobjects": pt["min_nobjects"] + b["dn"], "length": pt["min_page_length"] + b["dl"], "content_offset": pt["min_content_offset"] + b["dco"],
             "content_length": pt["min_content_length"] + b["dcl"], "nshared_objects": b["ns"]}
        for k, v in w.items():
            if a.get(k) != v:
                diffs.append("page %d %s: qpdf shows %s, decoded %s" % (i, k, a.get(k), v))
        if a["ids"] != b["ids"] or a["nums"] != b["nums"]:
            diffs.append("page %d shared identifiers/numerators: qpdf shows %s/%s, decoded %s/%s" % (i, a["ids"], a["nums"], b["ids"], b["nums"]))
    st = rep["shared_table"]
    for k in ("first_shared_obj", "nshared_first_page", "nshared_total", "nbits_nobjects", "min_group_length", "nbits_delta_group_length"):
        if show["shared"].get(k) != st[k]:
            diffs.append("shared table %s: qpdf shows %s, decoded %s" % (k, show["shared"].get(k), st[k]))
    if show["shared"].get("first_shared_offset") != adj(st["first_shared_offset"]):
        diffs.append("shared table first_shared_offset: qpdf shows %s, decoded %s" % (show["shared"].get("first_shared_offset"), adj(st["first_shared_offset"])))
    if len(show["shared_entries"]) != len(st["entries"]):
        diffs.append("shared entries: %d vs %d" % (len(show["shared_entries"]), len(st["entries"])))
    for i, (a, b) in enumerate(zip(show["shared_entries"], st["entries"])):
        if a.get("group length") != st["min_group_length"] + b[0] or a["sig"] != b[1] or a["nobjects"] != b[2] + 1:
            diffs.append("shared entry %d: qpdf shows %s, decoded %s" % (i, a, b))
    ot = rep.get("outline_table")
    if (show["outline"] is None) != (ot is None):
        diffs.append("outline table presence: qpdf %s, decoded %s" % (show["outline"] is not None, ot is not None))
    elif ot is not None:
        w = dict(ot)
        w["first_object_offset"] = adj(w["first_object_offset"])
        if show["outline"] != w:
            diffs.append("outline table: qpdf shows %s, decoded %s" % (show["outline"], w))
    return diffs


# ------------------------------------------------------------------ parts

def lin_read(paths):
    runner = os.path.join(common.EXTRACT, "model_runner")
    outs = common.run_lines(runner, ["linf " + p for p in paths], shards=4)
    res = []
    for o in outs:
        try:
            res.append(json.loads(o))
        except Exception:
            res.append({"errors": [[-1, 0, 0]], "raw": o[:300], "notes": [], "params": []})
    return res


def trailer_has_direct_string(data):
    """classic first-page trailer of the output holds a string value other than /ID"""
    m = re.search(rb"trailer <<(.*?)/ID \[", data[:6000], re.S)
    return bool(m and re.search(rb"/[A-Za-z0-9#]+ [(<](?!<)", m.group(1)))


def py_xref_check(data):
    """Python-side oracle for outputs above the size limit of the extracted reader: every in-use entry of the first-page
    and of the main cross-reference STREAM points exactly at `<num> 0 obj` (ISO 32000-1 7.5.8; Flate + PNG-up predictor)."""
    probs = []
    m = re.search(rb"startxref\n(\d+)\n%%EOF\n?$", data[-64:])
    if not m:
        return ["no startxref at the end"]
    off, seen = int(m.group(1)), 0
    while off is not None and seen < 4:
        seen += 1
        hm = re.match(rb"(\d+) 0 obj\n<<(.*?)>>\nstream\n", data[off:off + 2000], re.S)
        if not hm or b"/Type /XRef" not in hm.group(2):
            return probs + ["no cross-reference stream at %d" % off]
        dct = hm.group(2)
        W = [int(x) for x in re.search(rb"/W \[ (\d+) (\d+) (\d+) \]", dct).groups()]
        ln = int(re.search(rb"/Length (\d+)", dct).group(1))
        size = int(re.search(rb"/Size (\d+)", dct).group(1))
        im = re.search(rb"/Index \[ (\d+) (\d+) \]", dct)
        first, cnt = (int(im.group(1)), int(im.group(2))) if im else (0, size)
        raw = data[off + hm.end():off + hm.end() + ln]
        if b"/FlateDecode" in dct:
            try:
                raw = zlib.decompress(raw)
            except Exception as e:
                return probs + ["xref stream at %d does not inflate: %s" % (off, e)]
            cols = int(re.search(rb"/Columns (\d+)", dct).group(1))
            rows, prev = [], bytes(cols)
            for i in range(0, len(raw), cols + 1):
                ft, row = raw[i], raw[i + 1:i + 1 + cols]
                if ft != 2:
                    return probs + ["unexpected PNG filter %d" % ft]
                prev = bytes((a + b) & 255 for a, b in zip(row, prev))
                rows.append(prev)
            raw = b"".join(rows)
        es = sum(W)
        if len(raw) != es * cnt:
            probs.append("xref stream at %d: %d bytes for %d entries of %d" % (off, len(raw), cnt, es))
        for k in range(min(cnt, len(raw) // es)):
            e = raw[k * es:(k + 1) * es]
            ty = int.from_bytes(e[:W[0]], "big") if W[0] else 1
            f1 = int.from_bytes(e[W[0]:W[0] + W[1]], "big")
            if ty == 1:
                head = b"%d 0 obj" % (first + k)
                if data[f1:f1 + len(head)] != head:
                    probs.append("entry of object %d in the xref stream at %d says offset %d, where the file has %r (field width /W[1] = %d)" % (first + k, off, f1, data[f1:f1 + 12], W[1]))
        pm = re.search(rb"/Prev (\d+)", dct)
        off = int(pm.group(1)) if pm else None
    return probs


def boundary_docs(chk, wd, runjob_fn):
    """documents whose first-page section ends within one hint-stream length below 2^16 (thorough: also 2^24): content length swept in
    steps of 30 bytes across the window in which (offset of the last first-page object) < 2^k <= (that offset + hint stream length),
    found by a calibration run; written with --linearize --object-streams=generate (xref streams), streams uncompressed"""
    quick = chk.tier == "quick"
    out = []
    for power in ([16] if quick else [16, 24]):
        target = 1 << power
        for npg in ([1] if quick or power > 16 else [1, 2, 3]):
            def mk(pad):
                d = filecheck.padded_doc(pad, npages=npg)
                p = os.path.join(wd, "bnd%d-%d-%d.pdf" % (power, npg, pad))
                open(p, "wb").write(pdfgen.write_classic(d)[0])
                return p
            p0 = target - 3000
            cal = os.path.join(wd, "bndcal%d-%d.pdf" % (power, npg))
            rc, so, se = common.run_qpdf(["--static-id", "--linearize", "--object-streams=generate", "--compress-streams=n", mk(p0), cal])
            if rc != 0:
                continue
            data = open(cal, "rb").read()
            hm = re.search(rb"/H \[ (\d+) (\d+) \] /O \d+ /E (\d+)", data[:400])
            if not hm:
                continue
            h1, E = int(hm.group(2)), int(hm.group(3))
            starts = [m.start() + 1 for m in re.finditer(rb"\n\d+ 0 obj\n", data[:E])]
            last = max(starts)
            # wanted positions of the last first-page object in the output: from 60 below 2^k to 60 above 2^k + hint length
            for want in range(target - 60, target + h1 + 90, 30):
                pad = p0 + (want - last)
                out.append({"name": "bnd%d-%d-%d" % (power, npg, pad), "path": mk(pad), "kind": "boundary-2^%d" % power, "npages": npg,
                            "features": ["pad=%d" % pad, "last first-page object near 2^%d%+d" % (power, want - target)], "id": "none"})
    return out


def signature_of(err, rep, xref_stream, encrypted=False, data=b""):
    c, a, b = err
    if c == 1 and encrypted and not xref_stream and trailer_has_direct_string(data):
        return "lin:encrypt-trailer-string-damaged"
    if c == 10 and xref_stream and a == b + 1:
        return "lin:T-xref-stream-minus-1"
    return "lin:clause-%d" % c


def arith_tie(runner, out, rep, data):
    """parameter dictionary text, its padding, the /Prev padding: model vs bytes of the real file"""
    diffs = []
    L, h0, h1, pO, E, Np, T = rep["params"]
    m = re.match(rb"%PDF-\d\.\d\n%\xbf\xf7\xa2\xfe\n(\d+) 0 obj\n", data)
    if not m:
        return ["header / parameter dictionary start not as modelled"]
    lid = int(m.group(1))
    lines = ["linarith lindict_text %d %d %d %d %d %d %d %d" % (lid, L, h0, h1, pO, E, Np, T)]
    o = common.run_lines(runner, lines)[0]
    text = bytes.fromhex(o) if o != "-" else b""
    start = 15
    if data[start:start + len(text)] != text:
        diffs.append("parameter dictionary text differs from the model's: %r vs %r" % (data[start:start + 120], text))
        return diffs
    rest = data[start + len(text):start + 201]
    pad = common.run_lines(runner, ["linarith lindict_padding %d" % len(text)])[0]
    if pad == "exc" or rest != b" " * int(pad) + b"\n" or len(text) + int(pad) != 200:
        diffs.append("parameter dictionary padding: model %s, file has %r" % (pad, rest[-20:]))
    pm = re.search(rb"/Prev (\d+)( *) /", data[start + 201:start + 201 + 4000])
    if pm:
        pp = common.run_lines(runner, ["linarith prev_padding %d" % int(pm.group(1))])[0]
        if pp == "exc" or int(pp) != len(pm.group(2)):
            diffs.append("/Prev padding: model %s, file has %d spaces" % (pp, len(pm.group(2))))
        # /T as the writer computes it: after "xref\n0 <n>" for a table, stream offset - 1 for a stream
        prev = int(pm.group(1))
        mt = re.match(rb"xref\n0 (\d+)\n", data[prev:prev + 40])
        if mt:
            t = common.run_lines(runner, ["linarith T_table %d %d" % (prev, len(mt.group(1)))])[0]
        else:
            t = common.run_lines(runner, ["linarith T_stream %d" % prev])[0]
        if t != str(T):
            diffs.append("/T: model %s, file has %d" % (t, T))
    else:
        diffs.append("no /Prev in the first-page trailer region")
    return diffs


def pass1_tie(p1path, data, rep, sr):
    """pass-1 file (--linearize-pass1) vs the output: every object sits at its pass-1 offset, plus the hint stream's length when after it"""
    diffs = []
    try:
        p1 = open(p1path, "rb").read()
    except Exception:
        return ["no pass-1 file"]
    L, h0, h1 = rep["params"][0], rep["params"][1], rep["params"][2]
    dbg = dict((k.decode(), int(v)) for k, v in re.findall(rb"% (\w+)=(\d+)\n", p1[-300:]))
    body = p1[:p1.rfind(b"% hint_offset=")] if b"% hint_offset=" in p1 else p1
    if dbg.get("hint_offset") != h0 or dbg.get("hint_length") != h1:
        diffs.append("pass-1 hint offset/length %s/%s vs /H %d %d" % (dbg.get("hint_offset"), dbg.get("hint_length"), h0, h1))
    if len(body) + h1 != L:
        diffs.append("pass-1 size %d + hint length %d != output size %d" % (len(body), h1, L))
    for o in sr.get("objects", []):
        if o["where"][0] != "n":
            continue
        off = o["where"][1]
        if off == h0:
            continue
        p1off = off - h1 if off > h0 else off
        head = b"%d %d obj" % (o["num"], o["gen"])
        if body[p1off:p1off + len(head)] != head:
            diffs.append("object %d: output offset %d, pass-1 file has %r at %d" % (o["num"], off, body[p1off:p1off + 12], p1off))
            break
    return diffs


def part_bitio(chk, drv, runner):
    rng = chk.rng
    n = 1500 if chk.tier == "quick" else 20000
    wl, rl = [], []
    for i in range(n):
        ops = []
        for _ in range(rng.choice([1, 2, 5, 12, 30])):
            r = rng.random()
            if r < 0.15:
                ops.append("f")
            else:
                b = rng.choice([0, 1, 1, 2, 3, 5, 7, 8, 9, 13, 16, 16, 17, 24, 31, 32, 32, 33, 40])
                v = rng.choice([0, 1, (1 << b) - 1 if b else 0, rng.getrandbits(b) if b else 0, rng.getrandbits(b + 3), rng.getrandbits(61)])
                ops.append("%d:%d" % (v, b))
        if rng.random() < 0.8:
            ops.append("f")
        wl.append("bitw " + ",".join(ops))
        data = bytes(rng.randrange(256) for _ in range(rng.choice([0, 1, 2, 4, 9, 20])))
        ws = [rng.choice([0, 1, 2, 3, 7, 8, 9, 15, 16, 17, 31, 32, 33]) for _ in range(rng.choice([1, 3, 8]))]
        rl.append("bitr %s %s" % (common.hexs(data), ",".join(map(str, ws))))
    iw = common.run_lines(drv, wl)
    mw = common.run_lines(runner, wl)
    ir = common.run_lines(drv, rl)
    mr = common.run_lines(runner, rl)
    sr = common.run_lines(runner, [l.replace("bitr ", "affields ", 1) for l in rl])
    # the Annex F reader has no 32-bit limit: compare where the implementation did not refuse a width > 32
    def spec_ok(line, i_out, s_out):
        ws = [int(x) for x in line.split()[2].split(",")]
        if any(w > 32 for w in ws):
            k = next(j for j, w in enumerate(ws) if w > 32)
            return i_out.split(",")[:k] == s_out.split(",")[:k]
        return i_out == s_out
    bad_w = [(l, a, b) for l, a, b in zip(wl, iw, mw) if a != b]
    bad_r = [(l, a, b) for l, a, b in zip(rl, ir, mr) if a != b]
    bad_s = [(l, a, b) for l, a, b in zip(rl, ir, sr) if not spec_ok(l, a, b)]
    if bad_s:
        l, a, b = bad_s[0]
        chk.violation({"kind": "property-fails-on-implementation", "part": "bitio", "why": "BitStream reads a field differently from the MSB-first reading of Annex F.4",
                       "case": l, "implementation": a, "specification": b})
    if bad_w or bad_r:
        l, a, b = (bad_w or bad_r)[0]
        chk.violation({"kind": "correspondence-broken", "correspondence": "corr:C07:bitio", "differing_cases": len(bad_w) + len(bad_r),
                       "first_case": l, "implementation": a, "model": b}, no_input=True)
    chk.count("bitio", 2 * n, set(wl) | set(rl), samples=[wl[0], rl[0]])


def build_jobs(chk, wd):
    rng = chk.rng
    quick = chk.tier == "quick"
    inputs = gen_inputs(rng, 36 if quick else 400, wd)
    # pdfgen.page_doc documents (inherited attributes through two /Pages levels)
    for i, (np_, lv) in enumerate([(1, 1), (4, 2), (10, 2)] if quick else [(1, 1), (2, 1), (4, 2), (7, 2), (10, 2), (23, 2), (40, 2)]):
        d = pdfgen.page_doc(np_, marker="L", kids_levels=lv, rotate={1: 90})
        p = os.path.join(wd, "pd%d.pdf" % i)
        open(p, "wb").write(pdfgen.write_classic(d, with_id=(b"0123456789abcdef", b"fedcba9876543210"))[0])
        inputs.append({"name": "pd%d" % i, "path": p, "kind": "generated-page_doc", "npages": np_, "features": ["kids_levels=%d" % lv], "id": "16"})
    # first-page xref stream straddling the 2-byte / 3-byte offset boundary
    for pad in ([64500, 65300] if quick else range(63000, 66600, 200)):
        d = filecheck.padded_doc(pad, npages=2)
        p = os.path.join(wd, "pad%d.pdf" % pad)
        open(p, "wb").write(pdfgen.write_classic(d)[0])
        inputs.append({"name": "pad%d" % pad, "path": p, "kind": "boundary", "npages": 2, "features": ["pad=%d" % pad], "id": "none"})
    def fsize(f):
        try:
            return os.path.getsize(f)
        except OSError:      # a file of a concurrently running qtest that has vanished
            return 1 << 60
    # transient outputs of a test-suite run in /repo (a.pdf, b.pdf, ...) are not corpus files
    cf = [f for f in filecheck.corpus_files() if fsize(f) <= 60000 and len(os.path.basename(f)) > 5]
    sel = rng.sample(cf, 30 if quick else min(len(cf), 450))
    for must in ("invalid-id-xref.pdf", "outlines-with-actions.pdf", "page-labels-and-outlines.pdf", "thumbnails.pdf" if False else "form-fields-and-annotations.pdf"):
        pth = os.path.join(filecheck.CORPUS_DIR, must)
        if os.path.exists(pth) and pth not in sel:
            sel.append(pth)
    for f in sel:
        inputs.append({"name": os.path.basename(f), "path": f, "kind": "corpus", "npages": None, "features": [], "id": "?"})
    cfgs = all_configs()
    base = [("none", "disable", []), ("none", "generate", []), ("none", "preserve", ["--compress-streams=n"])]
    jobs = []
    # probes of the recorded findings: re-observed (or seen to be gone) on every run
    import random as _random
    probes = [("probe-trailer-string", 2, {"trailer-string"}, [("aes256", "disable", []), ("rc4-128", "preserve", []), ("none", "disable", [])]),
              ("probe-page-and-doclevel", 3, {"page-and-other"}, [("none", "disable", [])]),
              ("probe-first-page-and-outlines", 2, {"outlines", "shared-action"}, [("none", "disable", [])]),
              ("probe-outlines-objstm", 3, {"outlines", "shared"}, [("none", "generate", [])])]
    for name, np_, feat, pcfgs in probes:
        d = lin_doc(_random.Random(name), np_, feat)
        p = os.path.join(wd, name + ".pdf")
        open(p, "wb").write(pdfgen.write_classic(d)[0])
        inp = {"name": name, "path": p, "kind": "generated", "npages": np_, "features": sorted(feat), "id": "none"}
        inputs.append(inp)
        for c in pcfgs:
            jobs.append((inp, c))
    # sharing shapes: one document per (first page, other user kind) pair, with and without object streams; plain documents
    # (no outlines unless the shape is the outline one) so that a misplacement is not absorbed by the recorded object-stream findings
    for k in SHARE_KINDS:
        for np_ in ([3] if quick else [1, 2, 3, 6]):
            name = "shape-%s-%d" % (k, np_)
            feat = {"share:" + k, "private"}
            d = lin_doc(_random.Random(name), np_, feat)
            p = os.path.join(wd, name + ".pdf")
            open(p, "wb").write(pdfgen.write_classic(d)[0])
            inp = {"name": "probe-" + name, "path": p, "kind": "generated-sharing-shape", "npages": np_, "features": sorted(feat), "id": "none"}
            inputs.append(inp)
            for cfg in [("none", "disable", []), ("none", "generate", [])] + ([] if quick else [("none", "preserve", ["--compress-streams=n"]), ("aes256", "disable", [])]):
                jobs.append((inp, cfg))
    # user-pair shapes: an object used by a catalog / trailer / thumbnail user K and by one later page, two later pages, the first and a
    # later page; outline tree absent / present / opened with the document
    for k in PAIR_KINDS:
        for outl in (("plain", "use") if k.startswith("outline-") else ("none", "use")):
            name = "pair-%s-%s" % (k, outl)
            p = os.path.join(wd, name + ".pdf")
            open(p, "wb").write(pdfgen.write_classic(pair_doc(k, outl))[0])
            inp = {"name": "probe-" + name, "path": p, "kind": "generated-user-pair", "npages": 6, "features": ["second-user=" + k, "outlines=" + outl], "id": "none"}
            inputs.append(inp)
            for cfg in [("none", "disable", []), ("none", "generate", [])] + ([] if quick else [("none", "preserve", ["--compress-streams=n"]), ("none", "disable", ["--stream-data=preserve"]),
                                                                                           ("aes256", "disable", [])]):
                jobs.append((inp, cfg))
    # inheritance shapes: each inheritable attribute on the root / on an intermediate /Pages node, all together, random mixtures
    for nm_, lv, plan in inh_plans(rng, quick):
        name = "inh-" + nm_
        d = inh_doc(rng, lv, plan)
        p = os.path.join(wd, name + ".pdf")
        open(p, "wb").write(pdfgen.write_classic(d)[0])
        inp = {"name": "probe-" + name, "path": p, "kind": "generated-inherited-attributes", "npages": None,
               "features": ["levels=%d" % lv] + ["%s:%s" % ("pages" if l < 0 else "level%d" % l, ",".join(sorted(x.decode() for x in m))) for l, m in sorted(plan.items())], "id": "none"}
        inputs.append(inp)
        for cfg in [("none", "disable", []), ("none", "preserve", ["--compress-streams=n"]), ("none", "generate", [])] + ([] if quick else [("aes256", "disable", []), ("none", "disable", ["--stream-data=preserve"])]):
            jobs.append((inp, cfg))
    for inp in boundary_docs(chk, wd, None):
        inp = dict(inp, name="probe-" + inp["name"])
        inputs.append(inp)
        jobs.append((inp, ("none", "generate", ["--compress-streams=n"])))
        if not quick:
            jobs.append((inp, ("aes256", "generate", ["--compress-streams=n"])))
            if inp["kind"] == "boundary-2^16":
                jobs.append((inp, ("none", "generate", [])))
    for encf in ("enc-R2,V1.pdf", "enc-R3,V2.pdf"):
        pth = os.path.join(filecheck.CORPUS_DIR, encf)
        if os.path.exists(pth):
            jobs.append(({"name": "probe-" + encf, "path": pth, "kind": "corpus", "npages": None, "features": ["encrypted input, written without encryption"], "id": "?"},
                         ("none", "disable", ["--normalize-content=y"])))
            break
    g9 = os.path.join(filecheck.CORPUS_DIR, "good9.pdf")
    if os.path.exists(g9):
        jobs.append(({"name": "good9.pdf", "path": g9, "kind": "corpus", "npages": None, "features": [], "id": "?"}, ("aes128", "disable", [])))
    for inp in inputs:
        if inp["name"].startswith("probe-"):
            continue
        if quick:
            use = list(base[:2 if inp["kind"] == "corpus" else 3]) + rng.sample(cfgs, 1 if inp["kind"] == "corpus" else 3)
        else:
            use = list(base) + rng.sample(cfgs, 6 if inp["kind"] == "corpus" else 33)
        seen = set()
        for c in use:
            if cfg_name(c) not in seen:
                seen.add(cfg_name(c))
                jobs.append((inp, c))
    return inputs, jobs


def part_files(chk, runner, wd):
    inputs, jobs = build_jobs(chk, wd)

    def runjob(i):
        inp, cfg = jobs[i]
        out = os.path.join(wd, "out%d.pdf" % i)
        extra = []
        if i % 4 == 0:
            extra = ["--linearize-pass1=" + os.path.join(wd, "p1-%d.pdf" % i)]
        args = ["--static-id", "--static-aes-iv"] + extra + cfg_args(cfg) + [inp["path"], out]
        rc, so, se = common.run_qpdf(args)
        return rc, se, out, args
    res = common.par_map(runjob, range(len(jobs)), workers=4)
    done, big = [], []
    for i, (rc, se, out, args) in enumerate(res):
        inp, cfg = jobs[i]
        txt = se.decode("latin-1")
        # (a botched corpus input may be refused with exit 2 "error encountered after writing part N": a refusal, not an output)
        if re.search(r"logic_error|insufficient padding|count mismatch|INTERNAL ERROR", txt):
            chk.violation({"kind": "property-fails-on-implementation", "part": "linearize", "why": "the two linearization passes disagree / internal error while linearizing",
                           "input": inp["path"], "argv": ["qpdf"] + args, "exit": rc, "stderr": txt[-400:]}, signature="lin:write-failed:" + inp["name"])
            continue
        if inp["kind"] != "corpus" and rc != 0:
            chk.violation({"kind": "property-fails-on-implementation", "part": "linearize", "why": "a clean generated document is not linearized with exit 0",
                           "input": inp["path"], "features": inp["features"], "argv": ["qpdf"] + args, "exit": rc, "stderr": txt[-400:]}, signature="lin:write-exit:%d" % rc)
            continue
        if rc in (0, 3) and os.path.exists(out) and os.path.getsize(out) <= MAXSIZE:
            done.append((i, rc, out, args))
        elif rc in (0, 3) and os.path.exists(out) and inp["kind"].startswith("boundary-2^"):
            big.append((i, rc, out, args))
    reps = lin_read([o for _, _, o, _ in done])
    # outputs above the reader's size limit (2^24 boundary): Python-side xref-stream oracle + qpdf's own checker
    for i, rc, out, args in big:
        inp, cfg = jobs[i]
        data = open(out, "rb").read()
        probs = py_xref_check(data)
        c = common.run_qpdf((["--password=o"] if cfg[0] != "none" else []) + ["--check-linearization", out], timeout=300)
        if c[0] != 0 or b"no linearization errors" not in c[1]:
            probs.append("qpdf --check-linearization: exit %d %s" % (c[0], c[2].decode("latin-1")[-200:]))
        if probs:
            chk.violation({"kind": "property-fails-on-implementation", "part": "boundary-large", "why": "cross-reference stream entries of a linearized output do not point at their objects",
                           "input": inp["path"], "features": inp["features"], "argv": ["qpdf"] + args, "problems": probs[:4]}, signature="lin:xref-entry-wrong")
        os.unlink(out)
    chk.count("linearized-outputs-large", len(big), set((jobs[i][0]["name"], cfg_name(jobs[i][1])) for i, _, _, _ in big))

    # qpdf's own checker and its reading of the tables
    def qcheck(t):
        i, rc, out, args = t
        pw = ["--password=o"] if jobs[i][1][0] != "none" else []
        r1 = common.run_qpdf(pw + ["--check-linearization", out])
        r2 = common.run_qpdf(pw + ["--show-linearization", out]) if jobs[i][1][0] == "none" else None
        return r1, r2
    qres = common.par_map(qcheck, done, workers=4)
    # classification model (Lin/Parts.v) on the unencrypted outputs whose tables decode
    pj = [k for k, ((i, rc, out, args), rep) in enumerate(zip(done, reps)) if jobs[i][1][0] == "none" and rep.get("page_table") is not None
          and not jobs[i][0]["kind"].startswith("boundary")]
    pouts = common.run_lines(runner, ["linparts " + done[k][2] for k in pj], shards=4)
    tie_parts = []
    n_parts_objs = 0
    for k, o in zip(pj, pouts):
        i, rc, out, args = done[k]
        f = o.split(" ")
        if o == "none" or not f[0].isdigit():
            tie_parts.append({"input": jobs[i][0]["path"], "argv": ["qpdf"] + args, "result": o[:200]})
            continue
        n_parts_objs += int(f[0])
        if len(f) > 1 and f[1]:
            # an object without any user that sits in part 4 and is a security handler dictionary: the INPUT's encryption dictionary, written
            # although the output is not encrypted (a deviation with a concrete input, not a disagreement between model and implementation)
            odata = open(out, "rb").read()
            rest = []
            for d3 in f[1].split(","):
                num, mp, op_ = d3.split(":")
                m3 = re.search(rb"(?:^|\n)%s 0 obj\n<<(.{0,600}?)>>\nendobj" % num.encode(), odata, re.S)
                if mp == "0" and op_ == "4" and m3 and b"/Filter /" in m3.group(1) and b"/V " in m3.group(1) and b"/Encrypt" not in odata[-600:]:
                    chk.violation({"kind": "property-fails-on-implementation", "part": "parts-classification", "input": jobs[i][0]["path"], "argv": ["qpdf"] + args,
                                   "why": "part 4 of the unencrypted output holds the input's encryption dictionary as an object nothing references", "object": int(num),
                                   "object_text": m3.group(0).decode("latin-1")[:300]}, signature="lin:orphan-encryption-dictionary")
                else:
                    rest.append(d3)
            if rest:
                tie_parts.append({"input": jobs[i][0]["path"], "features": jobs[i][0]["features"], "argv": ["qpdf"] + args,
                                  "objects_(number:model_part:observed_part)": ",".join(rest)[:300]})
    # shared-object identifiers: model of the last loop of calculateLinearizationData (Lin/SharedIds.v) on the users found in the file
    souts = common.run_lines(runner, ["linshared " + done[k][2] for k in pj], shards=4)
    tie_shared = []
    n_shared_pages = 0
    for k, o in zip(pj, souts):
        i, rc, out, args = done[k]
        f = o.split(" ")
        if o == "none" or not f[0].isdigit():
            tie_shared.append({"input": jobs[i][0]["path"], "argv": ["qpdf"] + args, "result": o[:200]})
            continue
        n_shared_pages += int(f[0])
        if len(f) > 1 and f[1]:
            tie_shared.append({"input": jobs[i][0]["path"], "features": jobs[i][0]["features"], "argv": ["qpdf"] + args,
                               "pages_(index:model_identifiers:file_identifiers)": f[1][:300]})
    nontriv = set()
    kinds, clauses_seen = {}, {}
    tie_hint, tie_arith, tie_show, tie_p1, tie_push = [], [], [], [], []
    n_tables = n_enc = 0
    for (i, rc, out, args), rep, (r1, r2) in zip(done, reps, qres):
        inp, cfg = jobs[i]
        kinds[inp["kind"]] = kinds.get(inp["kind"], 0) + 1
        case = {"input": inp["path"], "input_kind": inp["kind"], "features": inp["features"], "original_id_length": inp["id"], "argv": ["qpdf"] + args, "qpdf_exit": rc}
        data = open(out, "rb").read()
        xref_stream = b"/Type /XRef" in data
        nontriv.add((inp["name"], cfg_name(cfg)))
        for e in rep["errors"]:
            c, a, b = e
            clauses_seen[c] = clauses_seen.get(c, 0) + 1
            chk.violation(dict(case, kind="property-fails-on-implementation", part="annex-f", clause=c, why=CLAUSE.get(c, "clause %s" % c),
                               measured_or_expected=a, stated_or_found=b, parameters=dict(zip(["L", "H0", "H1", "O", "E", "N", "T"], rep.get("params", []))),
                               raw=rep.get("raw")), signature=signature_of(e, rep, xref_stream, cfg[0] != "none", data))
        # model of pushInheritedAttributesToPage (C12, pa_pushdown_effective: pa_clean): no page inherits anything in a linearized output
        inh = [n for n in rep.get("notes", []) if n[0] == 50]
        if inh and not any(e[0] in (512, 535) for e in rep["errors"]):
            tie_push.append(dict(case, **{"pages_still_inheriting_(page_index,node)": [(n[1], n[2]) for n in inh][:6]}))
        # --check-linearization accepts the file without warning
        c_rc, c_so, c_se = r1
        if c_rc != 0 or b"no linearization errors" not in c_so or b"WARNING" in c_se:
            # a damaged corpus input (write exit 3) may leave streams that cannot be decoded (e.g. a broken encryption dictionary: the hint
            # stream is then unreadable for qpdf); what is not tolerated is a complaint about the linearization data or the file structure
            # (the location prefix "(xref stream: object 3 0, offset 393)" of a warning is not part of its message)
            tolerated = (inp["kind"] == "corpus" and rc == 3 and c_rc == 3 and
                         not re.search(rb"mismatch|not linearized|file is damaged|xref|compressed|hint table", re.sub(rb"\([^()\n]*?offset \d+\)", b"", c_se) + c_so))
            # encryption preserved from a dictionary without /Length (C06-F7): the output cannot be decrypted, with or without --linearize
            if (inp["kind"] == "corpus" and rc == 3 and cfg[0] == "none" and b"/Encrypt" in data and
                    b"dictionary key /Length: operation for integer attempted on object of type null" in res[i][1]):
                chk.violation(dict(case, kind="property-fails-on-implementation", part="check-linearization", why="encryption preserved from an encryption dictionary without /Length: the output cannot be decrypted",
                                   check_exit=c_rc, stderr=c_se.decode("latin-1")[-400:]), signature="lin:preserved-encryption-without-length")
            elif not tolerated:
                chk.violation(dict(case, kind="property-fails-on-implementation", part="check-linearization", why="qpdf --check-linearization does not accept the file silently",
                                   check_exit=c_rc, stdout=c_so.decode("latin-1")[-300:], stderr=c_se.decode("latin-1")[-400:]),
                              signature=("lin:encrypt-trailer-string-damaged" if cfg[0] != "none" and not xref_stream and trailer_has_direct_string(data) and rep["errors"] and rep["errors"][0][0] == 1
                                         else "lin:check-linearization"))
        if cfg[0] != "none":
            n_enc += 1
            continue
        if rep.get("page_table") is None:
            continue
        n_tables += 1
        # model of the encoder reproduces the real hint stream
        m = rep.get("model")
        if m is None or m["data"] != rep["hint_data"] or m["S"] != rep["S"] or m["O"] != rep["O"]:
            tie_hint.append(dict(case, implementation_hint_stream=rep["hint_data"][:400], model=(m or {}).get("data", "exception")[:400],
                                 S=[rep["S"], (m or {}).get("S")], O=[rep["O"], (m or {}).get("O")]))
        tie_arith += [dict(case, difference=x) for x in arith_tie(runner, out, rep, data)]
        if r2 is not None:
            show = parse_show(r2[1].decode("latin-1"))
            dd = compare_show(show, rep)
            if dd:
                tie_show.append(dict(case, differences=dd[:6]))
    # pass-1 agreement on the outputs that have a pass-1 file (strict reader gives the offsets)
    p1jobs = [(i, out) for (i, rc, out, args), rep in zip(done, reps) if os.path.exists(os.path.join(wd, "p1-%d.pdf" % i)) and rep.get("params")]
    srs = filecheck.strict_read([o for _, o in p1jobs])
    repmap = {i: rep for (i, _, _, _), rep in zip(done, reps)}
    for (i, out), sr in zip(p1jobs, srs):
        if not sr.get("ok"):
            continue
        dd = pass1_tie(os.path.join(wd, "p1-%d.pdf" % i), open(out, "rb").read(), repmap[i], sr)
        if dd:
            inp, cfg = jobs[i]
            tie_p1.append({"input": inp["path"], "config": cfg_name(cfg), "differences": dd[:3]})
    for name, lst in (("hint-encoder", tie_hint), ("lindict-arithmetic", tie_arith), ("show-linearization", tie_show), ("pass-agreement", tie_p1),
                      ("parts-classification", tie_parts), ("shared-identifiers", tie_shared), ("pushdown-clean", tie_push)):
        if lst:
            chk.violation({"kind": "correspondence-broken", "correspondence": "corr:C07:" + name, "differing_cases": len(lst), "first_cases": lst[:2],
                           "note": "the Annex F checker accepts the outputs, but the model / qpdf's own reading no longer agrees with the real bytes"}, no_input=True)
    chk.count("linearized-outputs", len(done), nontriv,
              samples=[{"input": os.path.basename(jobs[i][0]["path"]), "features": jobs[i][0]["features"], "config": cfg_name(jobs[i][1]), "exit": rc} for i, rc, _, _ in done[:3]])
    pp = chk.cov["parts"]["linearized-outputs"]
    pp["by_input_kind"] = kinds
    pp["writes_attempted"] = len(jobs)
    pp["hint_tables_decoded_and_re-encoded_by_model"] = n_tables
    pp["encrypted_outputs_(dictionary/offset_clauses_only)"] = n_enc
    pp["pass1_files_compared"] = len(p1jobs)
    pp["objects_classified_by_the_parts_model"] = n_parts_objs
    pp["page_identifier_lists_computed_by_the_shared-identifier_model"] = n_shared_pages
    pp["clauses_failed"] = {str(k): v for k, v in clauses_seen.items()}
    pp["pages_distribution"] = sorted(set(inp["npages"] for inp in inputs if inp["npages"]))


def part_qdf(chk, runner, top):
    """--qdf together with --linearize, in both orders: the manual (cli.rst, --qdf) says "--linearize disables QDF mode", so the output has to be an
    ordinary linearized file. Known to fail on the pinned tree (C07-QDF-LINEARIZE); re-observed on every run."""
    wd = os.path.join(top, "qdf")
    os.makedirs(wd, exist_ok=True)
    docs = [("pair", pair_doc("pages-only", "none")), ("pd", pdfgen.page_doc(3, marker="Q", kids_levels=2))]
    cases = []
    for nm_, d in docs:
        p = os.path.join(wd, nm_ + ".pdf")
        open(p, "wb").write(pdfgen.write_classic(d)[0])
        for order in (["--linearize", "--qdf"], ["--qdf", "--linearize"]):
            for o in ("disable", "generate"):
                cases.append((p, order + ["--object-streams=" + o], os.path.join(wd, "qdf-out%d.pdf" % len(cases))))
    res = common.par_map(lambda c: common.run_qpdf(["--static-id"] + c[1] + [c[0], c[2]]), cases, workers=4)
    good = [c for c, r in zip(cases, res) if r[0] == 0 and os.path.exists(c[2])]
    reps = dict(zip([c[2] for c in good], lin_read([c[2] for c in good])))
    for c, (rc, so, se) in zip(cases, res):
        case = {"input": c[0], "input_kind": "generated", "argv": ["qpdf", "--static-id"] + c[1] + [c[0], c[2]], "qpdf_exit": rc}
        if rc != 0:
            chk.violation(dict(case, kind="property-fails-on-implementation", part="qdf-and-linearize", why="--linearize with --qdf does not write a file (the manual: --linearize disables QDF mode)",
                               stderr=se.decode("latin-1")[-300:], output_size=os.path.getsize(c[2]) if os.path.exists(c[2]) else None), signature="lin:qdf-and-linearize")
            continue
        errs = [e for e in reps[c[2]]["errors"] if signature_of(e, reps[c[2]], b"/Type /XRef" in open(c[2], "rb").read()) != "lin:T-xref-stream-minus-1"]
        if errs:
            chk.violation(dict(case, kind="property-fails-on-implementation", part="qdf-and-linearize", why="the file written with --qdf --linearize is not a valid linearized file: " + CLAUSE.get(errs[0][0], "?"),
                               clause=errs[0][0], measured_or_expected=errs[0][1], stated_or_found=errs[0][2]), signature="lin:qdf-and-linearize")
    chk.count("qdf-and-linearize", len(cases), set((os.path.basename(c[0]), " ".join(c[1])) for c in cases))


API_OPS = ["check", "islin", "pages", "push", "wplain", "wlind", "wling"]


def part_api(chk, drv, runner, top):
    """public-API histories on one QPDF object that end in a linearized write (drv_lin.cc: linapi). Inputs: generated documents, their
    CLI-linearized forms (with and without object streams) and linearized files of other producers from the repository corpus (indirect /Length).
    The output of every history must satisfy the same clauses as a CLI output. Histories in which checkLinearization() or an earlier linearized
    write has filled the object-user maps are known to fail (C07-API-STALE-USER-MAPS): they are run and reported under that signature."""
    rng = chk.rng
    quick = chk.tier == "quick"
    wd = os.path.join(top, "api")
    os.makedirs(wd, exist_ok=True)
    base = [("pair", pair_doc("outline-dest", "use")), ("inh", inh_doc(rng, 2, {0: {b"MediaBox": "direct", b"CropBox": "indirect"}, 1: {b"Rotate": "direct", b"Resources": "indirect"}}, npages=5)),
            ("pd", pdfgen.page_doc(4, marker="A", kids_levels=2, rotate={1: 90}))]
    inputs = []
    for nm_, d in base:
        p = os.path.join(wd, nm_ + ".pdf")
        open(p, "wb").write(pdfgen.write_classic(d)[0])
        inputs.append((nm_, p, False))
        for o in ("disable", "generate"):
            lp = os.path.join(wd, "%s-lin-%s.pdf" % (nm_, o))
            rc, so, se = common.run_qpdf(["--static-id", "--linearize", "--object-streams=" + o, p, lp])
            if rc == 0:
                inputs.append(("%s-lin-%s" % (nm_, o), lp, True))
    for f in ["lin1.pdf", "lin3.pdf", "lin5.pdf"] + ([] if quick else ["lin0.pdf", "lin2.pdf", "lin4.pdf", "lin6.pdf", "lin7.pdf", "lin8.pdf", "lin9.pdf", "lin-special.pdf"]):
        pth = os.path.join(filecheck.CORPUS_DIR, f)
        if os.path.exists(pth) and os.path.getsize(pth) <= 60000:
            inputs.append((f, pth, True))
    seqs = [[], ["pages"], ["push"], ["islin"], ["wplain"], ["islin", "pages", "push", "wplain"], ["check"], ["wlind"], ["wling"], ["check", "wplain"], ["wlind", "check"]]
    for _ in range(4 if quick else 60):
        seqs.append([rng.choice(API_OPS) for _ in range(rng.choice([1, 2, 3, 5]))])
    cases = []
    for si, ops in enumerate(seqs):
        use = inputs if not quick else [inputs[(si * 3 + j) % len(inputs)] for j in range(3)]
        for nm_, pth, is_lin in use:
            mode = "dgp"[(si + len(cases)) % 3]
            cases.append((nm_, pth, is_lin, ops, mode, os.path.join(wd, "api-out%d.pdf" % len(cases))))
    outs = common.run_lines(drv, ["linapi %s %s %s %s" % (c[1], c[5], ",".join(c[3]) or "-", c[4]) for c in cases], shards=4)
    ok = [(c, o) for c, o in zip(cases, outs) if o == "ok" and os.path.exists(c[5]) and os.path.getsize(c[5]) <= MAXSIZE]
    reps = lin_read([c[5] for c, _ in ok])
    qres = common.par_map(lambda c: common.run_qpdf(["--check-linearization", c[0][5]]), ok, workers=4)
    repmap = {c[5]: (rep, q) for (c, _), rep, q in zip(ok, reps, qres)}
    nontriv = set()
    for c, o in zip(cases, outs):
        nm_, pth, is_lin, ops, mode, out = c
        # the object-user maps of the QPDF object are already filled when the final write starts
        stale = any(x in ("wlind", "wling") for x in ops) or ("check" in ops and is_lin)
        case = {"input": pth, "input_kind": "api-history", "api_calls_before_the_linearized_write": ops, "object_streams_of_the_final_write": {"d": "disable", "g": "generate", "p": "preserve"}[mode],
                "replay_with": "_build/drv/drv <<< 'linapi %s OUT %s %s'" % (pth, ",".join(ops) or "-", mode)}
        if o != "ok":
            chk.violation(dict(case, kind="property-fails-on-implementation", part="api-sequences", why="the linearized write after these calls throws", result=o[:300]),
                          signature="lin:api:stale-user-maps" if stale else "lin:api:exception")
            continue
        if out not in repmap:
            continue
        nontriv.add((nm_, tuple(ops), mode))
        rep, (c_rc, c_so, c_se) = repmap[out]
        data = open(out, "rb").read()
        for e in rep["errors"]:
            sig = signature_of(e, rep, b"/Type /XRef" in data)       # a deviation the CLI output has as well keeps its own signature
            if stale and chk.known_match(sig) is None:
                sig = "lin:api:stale-user-maps"
            chk.violation(dict(case, kind="property-fails-on-implementation", part="api-sequences", clause=e[0], why=CLAUSE.get(e[0], "clause %s" % e[0]), measured_or_expected=e[1], stated_or_found=e[2],
                               raw=rep.get("raw")), signature=sig)
        if c_rc != 0 or b"no linearization errors" not in c_so or b"WARNING" in c_se:
            chk.violation(dict(case, kind="property-fails-on-implementation", part="api-sequences", why="qpdf --check-linearization does not accept the file silently",
                               check_exit=c_rc, stderr=c_se.decode("latin-1")[-300:]), signature="lin:api:stale-user-maps" if stale else "lin:api:check-linearization")
    chk.count("api-sequences", len(cases), nontriv, samples=[{"input": os.path.basename(c[1]), "calls": c[3], "mode": c[4]} for c in cases[6:8]])


def run(chk):
    drv = os.path.join(common.DRV, "drv")
    runner = os.path.join(common.EXTRACT, "model_runner")
    chk.cov["rule"] = ("linearized-outputs: (input, configuration) pairs; inputs = generated documents (1..40 pages; features drawn from shared/private resources, thumbnails, "
                       "outlines with and without /PageMode /UseOutlines, AcroForm, threads, viewer preferences, open action, names, metadata, info, two-level page tree with "
                       "inherited attributes, indirect resources, several content streams, link annotations; original /ID of length none/0/5/16/32), pdfgen.page_doc documents, "
                       "2-page documents padded to the 2^16 offset boundary, sharing-shape documents (an object of the first page also used by another page's thumbnail / its own thumbnail / a later page / a later page's annotation / outlines / names / AcroForm / open action / threads / viewer preferences / another catalog key / info), 1..3-page documents whose last first-page object is swept in 30-byte steps across [2^16 - 60, 2^16 + hint length + 60] (thorough: also 2^24, judged by a Python-side xref-stream oracle), user-pair documents (6 pages; an indirect object used by a second user K - outline item /A, /Dest or other entry, /Names, another catalog key, /Info, /OpenAction, /AcroForm, /Threads, /ViewerPreferences, another page's /Thumb, the page's own /Thumb, none - and by exactly one later page / two later pages / the first and a later page, outline tree absent, present, or opened with the document by /PageMode /UseOutlines), inherited-attribute documents (page trees of 1..3 levels; each of /Resources, /MediaBox, /CropBox, /Rotate alone on the root and alone on an intermediate /Pages node, all four together, random mixtures with direct / indirect values and pages that override), repository corpus files; configurations = {5 encryption settings} x {disable,preserve,generate} x "
                       "{7 stream-data settings}; each written by the real `qpdf --linearize --static-id`, read by the extracted Annex F checker, by qpdf --check-linearization and "
                       "--show-linearization; non-trivial = write completed and output <= 150 kB, distinct by (input, configuration). "
                       "qdf-and-linearize: --qdf with --linearize in both orders (manual: --linearize disables QDF mode). api-sequences: histories of checkLinearization / isLinearized / getAllPages / pushInheritedAttributesToPage / plain and linearized writes to memory on one QPDF object, then a linearized write, on generated documents, their linearized forms and linearized corpus files of other producers. "
                       "bitio: random writeBits/flush and getBits sequences (widths 0..40, values beyond the width) on the real BitWriter/BitStream, the model and the Annex F field reader")
    part_bitio(chk, drv, runner)
    wd = common.workdir("C07")      # emptied once per run: the inputs named by the replays stay until the next run
    part_files(chk, runner, wd)
    part_qdf(chk, runner, wd)
    part_api(chk, drv, runner, wd)


def replay(chk, rep):
    """re-run the recorded case: the qpdf command line on the recorded input, then the Annex F checker and qpdf's own"""
    print(json.dumps(rep, indent=1)[:3000])
    argv = rep.get("argv")
    if not argv or not rep.get("input") or not os.path.exists(rep["input"]):
        print("replay: nothing to re-run (no argv / input file is gone; generated inputs live in _build/work/C07 of the run that reported them)")
        return 0
    wd = os.path.join(common.BUILD, "work", "C07-replay")
    os.makedirs(wd, exist_ok=True)
    out = os.path.join(wd, "replay-out.pdf")
    args = [a for a in argv[1:-1] if not a.startswith("--linearize-pass1=")] + [out]
    rc, so, se = common.run_qpdf(args)
    print("qpdf exit", rc, se.decode("latin-1")[-300:])
    if rc not in (0, 3) or not os.path.exists(out):
        return 1
    r = lin_read([out])[0]
    print("Annex F checker:", [(e, CLAUSE.get(e[0], "?")) for e in r["errors"]] or "accepts")
    pw = ["--password=o"] if "--encrypt" in argv else []
    c = common.run_qpdf(pw + ["--check-linearization", out])
    print("qpdf --check-linearization:", c[0], c[1].decode("latin-1")[-200:], c[2].decode("latin-1")[-300:])
    return 1 if r["errors"] else 0
