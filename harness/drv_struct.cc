// C12 / C13 / C18 drivers: page ranges, ...
#include "drv.hh"
#include <qpdf/QUtil.hh>

static Reg r_numrange("numrange", [](std::vector<std::string> const& a) -> std::string {
    std::string s = unhex(a.at(0));
    int max = std::stoi(a.at(1));
    try {
        auto v = QUtil::parse_numrange(s.c_str(), max);
        std::string r = "ok ";
        for (size_t i = 0; i < v.size(); ++i) { if (i) r += ","; r += std::to_string(v[i]); }
        return r;
    } catch (std::runtime_error const& e) {
        std::string m = e.what();
        std::string pre = "error at * in numeric range ";
        size_t pos = 0;
        if (m.compare(0, pre.size(), pre) == 0) {
            pos = m.find('*', pre.size()) - pre.size();
        }
        int kind = -1;
        if (m.find("expected :even or :odd") != std::string::npos) kind = 0;
        else if (m.find("invalid range syntax") != std::string::npos) kind = 1;
        else if (m.find("first range group may not be an exclusion") != std::string::npos) kind = 2;
        else if (m.find("out of range") != std::string::npos || m.find("overflow") != std::string::npos ||
                 m.find("integer out of range") != std::string::npos) kind = 3;
        else if (m.find("trailing comma") != std::string::npos) kind = 4;
        return "err " + std::to_string(kind) + " " + std::to_string(pos);
    }
});
