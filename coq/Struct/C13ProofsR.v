(* C13 extension - the memo invariant pgq_memo (Struct/C13ProofsP.v) is kept by a successful copy from a source whose
   page cache is filled and whose dictionaries are sorted (pgr_copied_memo), and a page that was only RESERVED (mapped
   to a null placeholder) is really copied by a top-level copy of it (pgr_copied_placeholder). *)
From QV Require Import Base.Bytes Struct.PgModel Struct.PgSpec Struct.C13ProofsA Struct.C13ProofsB Struct.PgxSpec Struct.C13ProofsD Struct.C13ProofsG Struct.C13ProofsS Struct.C13ProofsP.
Local Open Scope N_scope.
Local Opaque pg_reserve.

(* ------------------------------------------------------------------ marks and nullness of single cells *)
Lemma pgr_mark_stream : forall s i d x k, pg_lookup s i = Some (PcStream d x k) -> pg_mark s i = (-1)%Z.
Proof. intros s i d x k E. unfold pg_mark, pg_marker, pg_hget, pg_rv. rewrite E. reflexivity. Qed.

Lemma pgr_null_obj : forall s i v, pg_lookup s i = Some (PcObj v) -> pg_is_null s (PvRef i) = match v with PvNull => true | _ => false end.
Proof. intros s i v E. unfold pg_is_null. rewrite E. reflexivity. Qed.

Lemma pgr_null_ext : forall s s' l, pg_lookup s' l = pg_lookup s l -> pg_is_null s' (PvRef l) = pg_is_null s (PvRef l).
Proof. intros s s' l E. unfold pg_is_null. rewrite E. reflexivity. Qed.

(* the copy of an object of the source: a null, or non-null with the same content marker *)
Lemma pgr_copy_cell : forall ss m ds a l v, pgs_store ss ->
  pg_lookup ss a = Some (PcObj v) -> pg_lookup ds l = Some (PcObj (pg_rename ss m v)) ->
  pg_is_null ds (PvRef l) = true \/ (pg_is_null ss (PvRef a) = false /\ pg_mark ds l = pg_mark ss a).
Proof.
  intros ss m ds a l v Hs Ea El.
  rewrite (pgr_null_obj _ _ _ El), (pgr_null_obj _ _ _ Ea), (pg_mark_obj _ _ _ El), (pg_mark_obj _ _ _ Ea).
  destruct v as [| z | n | j | arr | d]; try (right; split; reflexivity); [left; reflexivity| |].
  - cbn [pg_rename]. destruct (pg_omap_find m j); [right; split; reflexivity|left; reflexivity].
  - right. split; [reflexivity|]. apply pgz_rename_mark. apply pgs_nodup.
    pose proof (Hs a _ Ea) as Hd. cbn [pgs_cell] in Hd. apply pgs_val_dict in Hd. apply Hd.
Qed.

(* ------------------------------------------------------------------ (R1) a successful copy keeps the memo invariant *)
Lemma pgr_copied_memo : forall src dst fid, pd_all src <> [] -> pgs_doc src -> pgq_memo src dst ->
  let '(src', dst', e, r) := pg_copied src dst fid in e = None -> src' = src /\ pgq_memo src dst'.
Proof.
  intros src dst fid Hall Hsrt [[I1 I2] I4].
  assert (W : pg_cW (pg_cres src dst fid)).
  { apply pg_cW_reserve; [|reflexivity]. unfold pg_cW, pg_c0. cbn [pgc_dst pgc_omap pgc_tocopy].
    split; [exact I1|split; [exact I2|split; [intros og []|constructor]]]. }
  pose proof (pgx_cX_reserve src Hall 200 (PvRef fid) true (pg_c0 src dst) eq_refl) as X.
  fold (pg_cres src dst fid) in X.
  unfold pg_copied. fold (pg_c0 src dst). fold (pg_cres src dst fid).
  set (c := pg_cres src dst fid) in *.
  destruct W as (WA & WB & WC & WD).
  destruct X as (Hsrc & (M & _ & D & _) & X3 & X4).
  cbn [pg_c0 pgc_dst pgc_omap pgc_tocopy] in M, D, X3, X4.
  destruct (pgc_err c) eqn:Ee; [intros H; discriminate|]. rewrite Hsrc.
  destruct (fold_left (pg_replace_step src (pgc_omap c)) (rev' (pgc_tocopy c)) (pgc_dst c, pd_reg dst, None)) as [[ds reg] e] eqn:Ef.
  destruct e as [x|]; [intros H; discriminate|].
  assert (HL1 : NoDup (rev' (pgc_tocopy c))) by (rewrite rev'_rev; apply NoDup_rev, WD).
  assert (HL2 : forall og, In og (rev' (pgc_tocopy c)) -> In og (pgc_tocopy c)).
  { intros og H. rewrite rev'_rev in H. apply in_rev in H. exact H. }
  assert (HL3 : forall og, In og (pgc_tocopy c) -> In og (rev' (pgc_tocopy c))).
  { intros og H. rewrite rev'_rev. apply in_rev. rewrite rev_involutive. exact H. }
  assert (HL4 : forall og, In og (rev' (pgc_tocopy c)) -> pg_omap_find (pgc_omap c) og <> None) by (intros og H; apply WC, HL2, H).
  pose proof (pgx_replace_fold src (pgc_omap c) _ _ _ _ _ HL1 HL4 WB Ef) as Hrep.
  destruct (pg_replace_fold src (pgc_omap c) _ _ _ _ _ HL1 HL4 WB Ef) as [_ H2].
  pose proof (pg_replace_fold_some src (pgc_omap c) (rev' (pgc_tocopy c)) (pgc_dst c, pd_reg dst, None)) as Hsome.
  rewrite Ef in Hsome. cbn [fst] in Hsome.
  assert (Hmemo : pgq_memo src (pd_with_reg (pd_with_omap (pd_with_store dst ds) (pgc_omap c)) reg)).
  { split; [split; cbn [pd_store pd_omap pd_with_reg pd_with_omap pd_with_store]; [intros a l H; apply Hsome, (WA a l H)|exact WB]|].
    cbn [pd_store pd_omap pd_with_reg pd_with_omap pd_with_store]. intros a l H.
    destruct (in_dec N.eq_dec a (pgc_tocopy c)) as [Hin|Hnin].
    - pose proof (Hrep a l (HL3 a Hin) H) as Hr.
      destruct (pg_lookup (pd_store src) a) as [[v|d data k]|] eqn:Ea.
      + exact (pgr_copy_cell (pd_store src) (pgc_omap c) ds a l v Hsrt Ea Hr).
      + right. split; [unfold pg_is_null; rewrite Ea; reflexivity|].
        rewrite (pgr_mark_stream _ _ _ _ _ Hr), (pgr_mark_stream _ _ _ _ _ Ea). reflexivity.
      + destruct Hr.
    - assert (Hcell : pg_lookup ds l = pg_lookup (pgc_dst c) l).
      { apply H2. intros og Hog E. apply Hnin. rewrite <- (WB og a l E H). apply HL2, Hog. }
      destruct (X3 a l H) as [Hold|(_ & Hc & [Hin|Hns])]; [| contradiction |].
      + assert (Hsame : pg_lookup ds l = pg_lookup (pd_store dst) l) by (rewrite Hcell; apply D; eapply I1; exact Hold).
        rewrite (pgr_null_ext _ _ _ Hsame), (pg_mark_ext _ _ _ Hsame). exact (I4 a l Hold).
      + left. unfold pg_is_null. rewrite Hcell, Hc. unfold pgx_cell. rewrite Hns. reflexivity. }
  destruct (pg_omap_find (pgc_omap c) fid); intros _; (split; [reflexivity|exact Hmemo]).
Qed.

(* ------------------------------------------------------------------ (R2) a reserved page is copied by a top-level copy *)
Lemma pgr_page_not_pages : forall s h, pg_is_dict_of_type s h pgk_Page = true -> pg_is_dict_of_type s h pgk_Pages = false.
Proof.
  intros s h H. unfold pg_is_dict_of_type in *. apply andb_true_iff in H. destruct H as [Hd Hn]. rewrite Hd. cbn [andb].
  unfold pg_name_is in *. destruct (pg_rv s (pg_hget s h pgk_Type)); try discriminate.
  apply pg_key_eqb_eq in Hn. subst. reflexivity.
Qed.

Lemma pgr_head_placeholder : forall src fid l c, pd_all src <> [] -> pgc_src c = src ->
  pg_memN fid (pgc_visiting c) = false -> pg_omap_find (pgc_omap c) fid = Some l ->
  pg_is_dict_of_type (pd_store src) (PvRef fid) pgk_Page = true -> pg_is_null (pgc_dst c) (PvRef l) = true ->
  pg_reserve_head (PvRef fid) true c =
    (mkPgCst src (pgc_dst c) (pgc_omap c) (fid :: pgc_visiting c) (fid :: pgc_tocopy c) (pgc_err c), true).
Proof.
  intros src fid l [s d o v tc e] Hall Hs Hmem Ho Hp Hn. cbn [pgc_src pgc_dst pgc_omap pgc_visiting pgc_tocopy pgc_err] in *. subst s.
  unfold pg_reserve_head. cbn [pgc_src pgc_dst pgc_omap pgc_visiting pgc_tocopy pgc_err]. rewrite Hmem, Ho.
  rewrite (pgx_type_is src Hall) by reflexivity. cbn [pgc_src pgc_dst pgc_omap pgc_visiting pgc_tocopy pgc_err].
  rewrite Hp, Hn. reflexivity.
Qed.

Local Transparent pg_reserve.
Lemma pgr_top_placeholder : forall f src dst fid l, pd_all src <> [] ->
  pg_omap_find (pd_omap dst) fid = Some l -> pg_is_null (pd_store dst) (PvRef l) = true ->
  pg_is_dict_of_type (pd_store src) (PvRef fid) pgk_Page = true ->
  In fid (pgc_tocopy (pg_reserve (S f) (PvRef fid) true (pg_c0 src dst))).
Proof.
  intros f src dst fid l Hall Ho Hn Hp. cbn [pg_reserve].
  change (pgc_err (pg_c0 src dst)) with (@None pg_err). cbv iota.
  rewrite (pgx_type_is src Hall (pg_c0 src dst) (PvRef fid) pgk_Pages eq_refl). cbv iota beta.
  change (pgc_err (pg_c0 src dst)) with (@None pg_err). cbv iota.
  rewrite (pgr_page_not_pages _ _ Hp).
  assert (pg_is_selfref (pd_store (pgc_src (pg_c0 src dst))) (PvRef fid) = false) as ->.
  { cbn [pg_c0 pgc_src pg_is_selfref]. unfold pg_is_dict_of_type, pg_is_dict in Hp. cbn [pg_rv] in Hp.
    destruct (pg_lookup (pd_store src) fid) as [[w|]|]; try reflexivity. destruct w; try reflexivity. discriminate. }
  rewrite (pgr_head_placeholder src fid l (pg_c0 src dst) Hall eq_refl eq_refl Ho Hp Hn).
  cbn [pgc_err pg_c0 negb pgc_dst pgc_omap pgc_visiting pgc_tocopy].
  match goal with |- context [pg_reserve_kids ?r ?h ?c2] =>
    destruct (pg_cR_kids r h c2 (fun x c0 => pg_cR_reserve f x false c0)) as (_ & _ & _ & more & T & _);
    destruct (pgc_err (pg_reserve_kids r h c2)) end;
    cbn [pg_reserve_done pgc_tocopy]; rewrite T; apply in_or_app; right; left; reflexivity.
Qed.
Local Opaque pg_reserve.

Lemma pgr_copied_placeholder : forall src dst fid l, pd_all src <> [] -> pg_omap_wf dst ->
  pg_omap_find (pd_omap dst) fid = Some l -> pg_is_null (pd_store dst) (PvRef l) = true ->
  pg_is_dict_of_type (pd_store src) (PvRef fid) pgk_Page = true ->
  let '(src', dst', e, r) := pg_copied src dst fid in e = None ->
  r = PvRef l /\ exists v, pg_lookup (pd_store src) fid = Some (PcObj v) /\
                           pg_lookup (pd_store dst') l = Some (PcObj (pg_rename (pd_store src) (pd_omap dst') v)).
Proof.
  intros src dst fid l Hall [Wex Winj] Ho Hn Hp.
  assert (W : pg_cW (pg_cres src dst fid)).
  { apply pg_cW_reserve; [|reflexivity]. unfold pg_cW, pg_c0. cbn [pgc_dst pgc_omap pgc_tocopy].
    split; [exact Wex|split; [exact Winj|split; [intros og []|constructor]]]. }
  pose proof (pg_cR_reserve 200 (PvRef fid) true (pg_c0 src dst)) as (M & S & _).
  pose proof (pgr_top_placeholder 199 src dst fid l Hall Ho Hn Hp) as Hin.
  fold (pg_cres src dst fid) in *.
  unfold pg_copied. fold (pg_c0 src dst). fold (pg_cres src dst fid).
  set (c := pg_cres src dst fid) in *.
  cbn [pg_c0 pgc_src pgc_omap] in M, S. specialize (S Hall). pose proof (M fid l Ho) as Efid.
  destruct W as (WA & WB & WC & WD).
  destruct (pgc_err c) eqn:Ee; [intros H; discriminate|]. rewrite S.
  destruct (fold_left (pg_replace_step src (pgc_omap c)) (rev' (pgc_tocopy c)) (pgc_dst c, pd_reg dst, None)) as [[ds reg] e] eqn:Ef.
  destruct e as [x|]; [intros H; discriminate|].
  assert (HL1 : NoDup (rev' (pgc_tocopy c))) by (rewrite rev'_rev; apply NoDup_rev, WD).
  assert (HL2 : forall og, In og (rev' (pgc_tocopy c)) -> In og (pgc_tocopy c)).
  { intros og H. rewrite rev'_rev in H. apply in_rev in H. exact H. }
  assert (HL3 : forall og, In og (pgc_tocopy c) -> In og (rev' (pgc_tocopy c))).
  { intros og H. rewrite rev'_rev. apply in_rev. rewrite rev_involutive. exact H. }
  assert (HL4 : forall og, In og (rev' (pgc_tocopy c)) -> pg_omap_find (pgc_omap c) og <> None) by (intros og H; apply WC, HL2, H).
  pose proof (pgx_replace_fold src (pgc_omap c) _ _ _ _ _ HL1 HL4 WB Ef fid l (HL3 fid Hin) Efid) as Hrep.
  rewrite Efid. intros _. cbn [pd_store pd_omap pd_with_reg pd_with_omap pd_with_store]. split; [reflexivity|].
  pose proof (pgx_page_not_stream _ _ _ Hp) as Hns. unfold pg_is_stream in Hns.
  unfold pg_is_dict_of_type, pg_is_dict in Hp. cbn [pg_rv] in Hp.
  destruct (pg_lookup (pd_store src) fid) as [[v|d data k]|]; [|discriminate|discriminate].
  exists v. split; [reflexivity|exact Hrep].
Qed.
